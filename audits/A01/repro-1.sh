#!/usr/bin/env bash
# C01 finding 1: cram / --cram-compat execution silently drops every output line
# that arrives after the last divider (and hands late output of a test to the
# next test). exit 1 = violation shows, exit 0 = it does not.
set -u
REPO="${1:?usage: $0 <path to scrut checkout>}"
BIN="$REPO/target/debug/scrut"
if [ ! -x "$BIN" ]; then
  (cd "$REPO" && CARGO_NET_OFFLINE=true CARGO_TARGET_DIR="$REPO/target" cargo build --offline >/dev/null 2>&1)
fi
[ -x "$BIN" ] || { echo "cannot build scrut" >&2; exit 2; }
W="$(mktemp -d)"; trap 'rm -rf "$W"' EXIT
cd "$W"

# (a) the output of the (last) test is "foo\nlate\n"; the only expectation is "foo"
printf 'Late output of the last test\n  $ (sleep 0.3; echo late) & echo foo\n  foo\n' > last.t
# (b) same with an EXIT trap: "bye" is printed by the shell, no expectation describes it
printf 'Trap\n  $ trap "echo bye" EXIT; echo foo\n  foo\n' > trap.t
# (c) late output moves into the stream of the next test: the second test only
#     prints "bar", its expectations demand "late" and "bar", and it passes
printf 'First\n  $ (sleep 0.3; echo late) & echo foo\n  foo\n\nSecond\n  $ sleep 0.8; echo bar\n  late\n  bar\n' > shift.t

shown=0
for doc in last.t trap.t shift.t; do
  out="$("$BIN" test --no-color "$doc" 2>&1)"; code=$?
  echo "== $doc: scrut exit code $code"; echo "$out" | tail -n 2
  if [ $code -eq 0 ] && echo "$out" | grep -q "0 failed"; then
    echo "   -> reported as passed although the expectations do not describe the output"
    shown=1
  fi
done
[ $shown -eq 1 ] && exit 1
exit 0
