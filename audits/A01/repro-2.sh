#!/usr/bin/env bash
# C01 finding 2: cram / --cram-compat execution accepts any output line that
# contains "~~~~~~~~EXECDIVIDER::" as a divider (the random salt is never
# compared). Output of a test can therefore cut itself short, set its own
# exit code and provide the "output" of following tests that never ran.
# exit 1 = violation shows, exit 0 = it does not.
set -u
REPO="${1:?usage: $0 <path to scrut checkout>}"
BIN="$REPO/target/debug/scrut"
if [ ! -x "$BIN" ]; then
  (cd "$REPO" && CARGO_NET_OFFLINE=true CARGO_TARGET_DIR="$REPO/target" cargo build --offline >/dev/null 2>&1)
fi
[ -x "$BIN" ] || { echo "cannot build scrut" >&2; exit 2; }
W="$(mktemp -d)"; trap 'rm -rf "$W"' EXIT
cd "$W"

# (a) one test: output is "foo", a divider look-alike, "bar"; expectation: "foo"
printf 'Forged divider\n  $ echo foo; echo "~~~~~~~~EXECDIVIDER::x::0::0"; echo bar; exit 0\n  foo\n' > one.t
# (b) two tests: the first prints the "output" and "exit code" of the second,
#     which is never executed (it would print something else and exit 1)
printf 'First\n  $ echo foo; echo "~~~~~~~~EXECDIVIDER::x::0::0"; echo made-up; echo "~~~~~~~~EXECDIVIDER::x::1::0"; exit 0\n  foo\n\nSecond\n  $ echo this is never run; false\n  made-up\n' > two.t

shown=0
for doc in one.t two.t; do
  out="$("$BIN" test --no-color "$doc" 2>&1)"; code=$?
  echo "== $doc: scrut exit code $code"; echo "$out" | tail -n 2
  if [ $code -eq 0 ] && echo "$out" | grep -q "0 failed"; then
    echo "   -> reported as passed although the expectations do not describe the output"
    shown=1
  fi
done
[ $shown -eq 1 ] && exit 1
exit 0
