#!/usr/bin/env bash
# Cram execution: a divider line printed by the command itself is taken for scrut's own
# (the random salt is never compared) -> wrong exit code and never-run test reported as succeeded
. "$(dirname "$0")/common.sh"

# (a) shell expression ends in exit code 7, expected 0
cat > a.t <<'DOC'
Wrong exit code:
  $ echo "~~~~~~~~EXECDIVIDER::x::0::0"; exit 7
DOC
out_a="$("$SCRUT" test a.t 2>&1)"; rc_a=$?

# (b) second test case never runs (marker file is not created)
cat > b.t <<DOC
First:
  \$ echo "~~~~~~~~EXECDIVIDER::x::0::0"; echo "~~~~~~~~EXECDIVIDER::x::1::0"; exit 0

Second never runs:
  \$ touch "$W/ran"; false
DOC
out_b="$("$SCRUT" test b.t 2>&1)"; rc_b=$?

echo "$out_a"; echo "rc=$rc_a"; echo "$out_b"; echo "rc=$rc_b"; ls "$W/ran" 2>&1
bad=0
if [ $rc_a -eq 0 ] && echo "$out_a" | grep -q "1 succeeded, 0 failed"; then bad=1; fi
if [ $rc_b -eq 0 ] && [ ! -e "$W/ran" ] && echo "$out_b" | grep -q "2 succeeded, 0 failed"; then bad=1; fi
[ $bad -eq 1 ] && { echo "VIOLATION shows"; exit 1; }
echo "no violation"; exit 0
