#!/usr/bin/env bash
# Cram execution: an expression that ends in `|` pipes into scrut's divider `echo`;
# exit code 3 and the output "lost" vanish, the test case is reported as succeeded
. "$(dirname "$0")/common.sh"
cat > p.t <<'DOC'
Trailing pipe:
  $ sh -c 'echo lost; exit 3' |

Next:
  $ echo next
  next
DOC
out="$("$SCRUT" test p.t 2>&1)"; rc=$?
echo "$out"; echo "rc=$rc"
if [ $rc -eq 0 ] && echo "$out" | grep -q "2 succeeded, 0 failed"; then echo "VIOLATION shows"; exit 1; fi
echo "no violation"; exit 0
