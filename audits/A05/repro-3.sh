#!/usr/bin/env bash
# Cram execution with separate streams: STDERR output after the last STDERR divider that arrived
# is dropped without an error -> unexpected bytes on the configured stream (stderr) are accepted.
# The same document fails (correctly) with the default executor.
. "$(dirname "$0")/common.sh"
cat > e.md <<'DOC'
# stderr

```scrut {output_stream: stderr}
$ echo unexpected-on-stderr >&2; exec 2>/dev/null
```
DOC
out_c="$("$SCRUT" test --cram-compat e.md 2>&1)"; rc_c=$?
out_m="$("$SCRUT" test e.md 2>&1)"; rc_m=$?
echo "--- --cram-compat"; echo "$out_c"; echo "rc=$rc_c"
echo "--- default";       echo "$out_m" | tail -3; echo "rc=$rc_m"
if [ $rc_c -eq 0 ] && echo "$out_c" | grep -q "1 succeeded, 0 failed"; then echo "VIOLATION shows"; exit 1; fi
echo "no violation"; exit 0
