#!/usr/bin/env bash
# Skip code: a test case that ends in exit code 80 (expected 0, or expected 81) is not reported as a
# wrong exit code; the whole document -- including an earlier test case with wrong output -- is
# reported as skipped and scrut exits 0. A test case that expects [80] and gets 80 cannot succeed.
. "$(dirname "$0")/common.sh"
cat > s1.md <<'DOC'
# skip

```scrut
$ echo wrong
right
```

```scrut
$ ( exit 80 )
[81]
```
DOC
cat > s2.md <<'DOC'
# expected 80

```scrut
$ ( exit 80 )
[80]
```
DOC
out1="$("$SCRUT" test s1.md 2>&1)"; rc1=$?
out2="$("$SCRUT" test s2.md 2>&1)"; rc2=$?
echo "$out1"; echo "rc=$rc1"; echo "$out2"; echo "rc=$rc2"
bad=0
# wrong output + wrong exit code, yet nothing is reported as failed and the run is green
if [ $rc1 -eq 0 ] && echo "$out1" | grep -q "0 failed"; then bad=1; fi
# expected code == actual code, no output: not reported as succeeded
if echo "$out2" | grep -q "0 succeeded"; then bad=1; fi
[ $bad -eq 1 ] && { echo "VIOLATION shows"; exit 1; }
echo "no violation"; exit 0
