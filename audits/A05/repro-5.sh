#!/usr/bin/env bash
# A shell expression that terminates at once with exit code 0 and the expected output, but leaves a
# background process holding the output pipe, is reported as timed out (and the next test as skipped).
. "$(dirname "$0")/common.sh"
cat > bg.md <<'DOC'
# bg

```scrut {timeout: 1s}
$ sleep 3 & echo started
started
```

```scrut
$ echo second
second
```
DOC
out="$("$SCRUT" test bg.md 2>&1)"; rc=$?
echo "$out"; echo "rc=$rc"
if [ $rc -ne 0 ] && echo "$out" | grep -q "timeout in execution"; then echo "VIOLATION shows"; exit 1; fi
echo "no violation"; exit 0
