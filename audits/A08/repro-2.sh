#!/bin/bash
# repro-2: no-eol expectation with a tab (or other unprintable character) renders as an expectation for backslash-t
# usage: repro-2.sh <scrut checkout>   exit 1 = violation shows, 0 = not, 2 = harness problem
set -u
REPO="$(cd "${1:?path of scrut checkout}" && pwd)"
# shared by the repro scripts: run a library-level round-trip check
# usage: roundtrip_check <checkout> <name> <rust body of fn cases() -> Vec<(&'static str, Vec<Vec<u8>>)>>
# each case: (expectation line, probe lines); violation = quantifier changes, re-parse fails,
# or a probe line is matched by one of (parsed, re-parsed) but not the other.
roundtrip_check() {
    local repo="$1" name="$2" cases="$3" escaper="${4:-Unicode}"
    RT_TEST="$repo/tests/${name}.rs"; RT_CREATED_DIR=0; RT_REPO="$repo"
    [ -d "$repo/tests" ] || { mkdir "$repo/tests"; RT_CREATED_DIR=1; }
    cleanup() { rm -f "$RT_TEST"; [ "$RT_CREATED_DIR" = 1 ] && rmdir "$RT_REPO/tests" 2>/dev/null; true; }
    trap cleanup EXIT
    cat > "$RT_TEST" <<RUST
use scrut::escaping::Escaper;
use scrut::expectation::ExpectationMaker;
use scrut::rules::registry::RuleRegistry;

fn cases() -> Vec<(&'static str, Vec<Vec<u8>>)> {
$cases
}

#[test]
fn roundtrip() {
    let maker = ExpectationMaker::new(RuleRegistry::default());
    for (line, probes) in cases() {
        let first = maker.parse(line).expect("first parse");
        let rendered = first.to_expression_string(&Escaper::$escaper);
        println!("LINE {line:?} RENDERS AS {rendered:?}");
        let second = match maker.parse(&rendered) {
            Ok(second) => second,
            Err(err) => {
                println!("VIOLATION: {line:?} renders as {rendered:?} which does not parse: {err}");
                continue;
            }
        };
        if (first.optional, first.multiline) != (second.optional, second.multiline) {
            println!("VIOLATION: {line:?} renders as {rendered:?}: quantifier changed");
        }
        for probe in probes {
            let (a, b) = (first.matches(&probe), second.matches(&probe));
            if a != b {
                println!(
                    "VIOLATION: {line:?} renders as {rendered:?}: output {:?} matched by original={a}, by re-parsed={b}",
                    String::from_utf8_lossy(&probe)
                );
            }
        }
    }
    println!("CHECKED");
}
RUST
    local out
    out=$(cd "$repo" && CARGO_NET_OFFLINE=true CARGO_TARGET_DIR="$repo/target" cargo test --offline --test "$name" -- --nocapture 2>&1)
    echo "$out" | grep -E "^(LINE|VIOLATION|CHECKED)" 
    if echo "$out" | grep -q "^VIOLATION"; then return 1; fi
    if echo "$out" | grep -q "^CHECKED"; then return 0; fi
    echo "$out" | tail -30
    echo "harness problem: test did not run" >&2
    return 2
}
CASES=$(cat <<'CASES_EOF'
    vec![
        ("a\tb (no-eol)", vec![b"a\tb".to_vec(), b"a\\tb".to_vec()]),
        ("a\u{200b}b (no-eol?)", vec!["a\u{200b}b".as_bytes().to_vec()]),
    ]
CASES_EOF
)
roundtrip_check "$REPO" audit_a08_repro_2 "$CASES" Unicode
exit $?
