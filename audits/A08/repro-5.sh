#!/bin/bash
# repro-5: well-formed regular expressions with a braced escape (\p{L}, \P{..}, \x{1F600}, \u{..})
# are rejected at parse time, because the braces are "repaired" into literals
# usage: repro-5.sh <scrut checkout>   exit 1 = violation shows, 0 = not, 2 = harness problem
set -u
REPO="$(cd "${1:?path of scrut checkout}" && pwd)"
(cd "$REPO" && CARGO_NET_OFFLINE=true CARGO_TARGET_DIR="$REPO/target" cargo build --offline >/dev/null 2>&1) || { echo "build failed" >&2; exit 2; }
SCRUT="$REPO/target/debug/scrut"
WORK="$(mktemp -d)"; trap 'rm -rf "$WORK"' EXIT
cd "$WORK"
bad=0
check() { # name, command, expectation line
    printf '# T\n\n```scrut\n$ %s\n%s\n```\n' "$2" "$3" > "$1.md"
    out=$(RUST_BACKTRACE=0 "$SCRUT" test "$1.md" 2>&1); code=$?
    if [ $code -eq 0 ]; then
        echo "ok: '$3' parsed and matched"
    else
        echo "VIOLATION: '$3' (a well-formed regex of the regex crate) -> exit $code"
        echo "$out" | grep -A4 "regex parse error" | head -6
        bad=1
    fi
}
check a 'echo abc' '\p{L}+ (re)'
check b 'echo abc' '\P{Greek}+ (regex)'
check c 'printf "\360\237\230\200\n"' '\x{1F600} (re)'
check d 'printf "\360\237\230\200\n"' '\u{1F600} (re)'
# control: the brace-less / numeric forms are accepted
check e 'echo abc' '\pL+ (re)' 
exit $bad
