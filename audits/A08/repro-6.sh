#!/bin/bash
# repro-6: the modifier group is recognised after ANY whitespace character (tab, NBSP, U+2028, ...),
# not only after a space: a line of output such as "foo<TAB>(glob)" written verbatim is not an equal expectation
# usage: repro-6.sh <scrut checkout>   exit 1 = violation shows, 0 = not, 2 = harness problem
set -u
REPO="$(cd "${1:?path of scrut checkout}" && pwd)"
(cd "$REPO" && CARGO_NET_OFFLINE=true CARGO_TARGET_DIR="$REPO/target" cargo build --offline >/dev/null 2>&1) || { echo "build failed" >&2; exit 2; }
SCRUT="$REPO/target/debug/scrut"
WORK="$(mktemp -d)"; trap 'rm -rf "$WORK"' EXIT
cd "$WORK"
bad=0
check() { # name, printf format of the output line (also written verbatim as the expectation)
    printf '# T\n\n```scrut\n$ printf '"'%s\\\\n'"'\n' "$2" > "$1.md"
    printf "$2"'\n```\n' >> "$1.md"
    out=$("$SCRUT" test "$1.md" 2>&1); code=$?
    if [ $code -eq 0 ]; then
        echo "ok: line $2 taken as equal expectation for the whole line"
    else
        echo "VIOLATION: expectation line $2 is not an equal expectation for the whole line (exit $code)"
        echo "$out" | grep -E '^ *[0-9]+ +\| [-+] ' | head -4
        bad=1
    fi
}
check tab   'foo\t(glob)'
check nbsp  'foo\302\240(re)'
check lsep  'foo\342\200\250(?)'
check nospace 'foo(glob)'   # control: no whitespace at all, whole line is the expression
exit $bad
