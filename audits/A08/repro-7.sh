#!/bin/bash
# repro-7: ExpectationMaker::parse panics (index out of bounds) on text that contains a newline,
# including a plain trailing newline ("foo\n")
# usage: repro-7.sh <scrut checkout>   exit 1 = violation shows, 0 = not, 2 = harness problem
set -u
REPO="$(cd "${1:?path of scrut checkout}" && pwd)"
RT_TEST="$REPO/tests/audit_a08_repro_7.rs"; RT_CREATED_DIR=0
[ -d "$REPO/tests" ] || { mkdir "$REPO/tests"; RT_CREATED_DIR=1; }
cleanup() { rm -f "$RT_TEST"; [ "$RT_CREATED_DIR" = 1 ] && rmdir "$REPO/tests" 2>/dev/null; true; }
trap cleanup EXIT
cat > "$RT_TEST" <<'RUST'
use scrut::expectation::ExpectationMaker;
use scrut::rules::registry::RuleRegistry;

#[test]
fn newline() {
    for line in ["foo\n", "foo (glob)\n", "foo\nbar", "\n"] {
        let result = std::panic::catch_unwind(|| {
            ExpectationMaker::new(RuleRegistry::default()).parse(line).map(|e| e.to_string())
        });
        match result {
            Err(_) => println!("VIOLATION: parse({line:?}) panicked"),
            Ok(r) => println!("LINE {line:?} -> {r:?}"),
        }
    }
    println!("CHECKED");
}
RUST
out=$(cd "$REPO" && CARGO_NET_OFFLINE=true CARGO_TARGET_DIR="$REPO/target" cargo test --offline --test audit_a08_repro_7 -- --nocapture 2>&1)
echo "$out" | grep -E "^(LINE|VIOLATION|CHECKED)|panicked at|index out of bounds"
if echo "$out" | grep -q "^VIOLATION"; then exit 1; fi
if echo "$out" | grep -q "^CHECKED"; then exit 0; fi
echo "$out" | tail -30; echo "harness problem" >&2; exit 2
