#!/bin/bash
# repro-8: a glob expectation fails to parse although neither a regex nor a malformed escaped
# expression is involved: "\xff* (esc) (glob)" (the same text is accepted as "\xff* (esc)")
# usage: repro-8.sh <scrut checkout>   exit 1 = violation shows, 0 = not, 2 = harness problem
set -u
REPO="$(cd "${1:?path of scrut checkout}" && pwd)"
(cd "$REPO" && CARGO_NET_OFFLINE=true CARGO_TARGET_DIR="$REPO/target" cargo build --offline >/dev/null 2>&1) || { echo "build failed" >&2; exit 2; }
SCRUT="$REPO/target/debug/scrut"
WORK="$(mktemp -d)"; trap 'rm -rf "$WORK"' EXIT
cd "$WORK"
printf '# T\n\n```scrut\n$ printf '"'"'\\377*\\n'"'"'\n\\xff* (esc)\n```\n' > control.md
printf '# T\n\n```scrut\n$ printf '"'"'\\377abc\\n'"'"'\n\\xff* (esc) (glob)\n```\n' > glob.md
out=$(RUST_BACKTRACE=0 "$SCRUT" test control.md 2>&1); code=$?
echo "control '\\xff* (esc)': exit $code"
[ $code -eq 0 ] || { echo "$out" | head -20; echo "control does not pass" >&2; exit 2; }
out=$(RUST_BACKTRACE=0 "$SCRUT" test glob.md 2>&1); code=$?
echo "'\\xff* (esc) (glob)': exit $code"
if echo "$out" | grep -q "Failed to parse"; then
    echo "VIOLATION: the glob expectation does not parse:"
    echo "$out" | grep -A3 "Caused by" | head -5
    exit 1
fi
exit 0
