# sourced by the repro scripts: $1 = path of a scrut checkout
R=${1:?usage: $0 <scrut checkout>}
BIN="$R/target/debug/scrut"
if [ ! -x "$BIN" ]; then
  (cd "$R" && CARGO_NET_OFFLINE=true CARGO_TARGET_DIR="$R/target" cargo build --offline -q) || { echo "build failed"; exit 2; }
fi
W=$(mktemp -d /tmp/audit-A10-repro.XXXXXX)
trap 'rm -rf "$W"' EXIT
upd() { "$BIN" update --replace --assume-yes --no-color "$@" >"$W/log" 2>&1; }
