#!/bin/bash
# C10 / finding 1: an output whose first line starts with "> " is written as a
# command continuation: the updated document has another command, update is not idempotent
. "$(dirname "$0")/common.sh"
printf '# T\n\n```scrut\n$ echo "> foo"\nold\n```\n' > "$W/t.md"
upd "$W/t.md" || { cat "$W/log"; exit 2; }
cp "$W/t.md" "$W/u1.md"
upd "$W/t.md" || { cat "$W/log"; exit 2; }
cp "$W/t.md" "$W/u2.md"
echo "--- after first update";  cat "$W/u1.md"
echo "--- after second update"; cat "$W/u2.md"
if ! cmp -s "$W/u1.md" "$W/u2.md"; then echo "VIOLATION: second update changed the document again"; exit 1; fi
if ! "$BIN" test --no-color "$W/u1.md" >/dev/null 2>&1; then echo "VIOLATION: updated document does not pass"; exit 1; fi
exit 0
