#!/bin/bash
# C10 / finding 2: CRLF document: every line outside the scrut blocks loses its CR once one test fails
. "$(dirname "$0")/common.sh"
printf -- '---\r\ntotal_timeout: 1m\r\n---\r\n# T\r\n\r\nprose\r\n\r\n```bash\r\necho hi\r\n```\r\n\r\n```scrut\r\n$ echo a\r\nold\r\n```\r\n\r\ntail\r\n' > "$W/t.md"
cp "$W/t.md" "$W/orig.md"
upd "$W/t.md" || { cat "$W/log"; exit 2; }
# lines outside the scrut block: 1-11 and 16-17
for f in orig t; do { sed -n '1,11p' "$W/$f.md"; tail -n 2 "$W/$f.md"; } > "$W/$f.outside"; done
if ! cmp -s "$W/orig.outside" "$W/t.outside"; then
  echo "VIOLATION: lines outside scrut blocks changed:"; diff <(cat -A "$W/orig.outside") <(cat -A "$W/t.outside"); exit 1
fi
exit 0
