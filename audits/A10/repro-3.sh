#!/bin/bash
# C10 / finding 3: text that follows the closing fence on its line is dropped (all tests pass)
. "$(dirname "$0")/common.sh"
printf '# T\n\n```scrut\n$ echo a\na\n``` <!-- end of the first test -->\n\nmore prose\n' > "$W/t.md"
cp "$W/t.md" "$W/orig.md"
upd "$W/t.md" || { cat "$W/log"; exit 2; }
if ! grep -q 'end of the first test' "$W/t.md"; then echo "VIOLATION: text after the closing fence was truncated:"; diff "$W/orig.md" "$W/t.md"; exit 1; fi
exit 0
