#!/bin/bash
# C10 / finding 4: inline configuration text is dropped / rewritten, and `{ }` needs two updates to settle
. "$(dirname "$0")/common.sh"
rc=0
printf '# T\n\n```scrut {timeout: 5s} # five seconds\n$ echo a\na\n```\n' > "$W/a.md"
cp "$W/a.md" "$W/a.orig"
upd "$W/a.md" || { cat "$W/log"; exit 2; }
if ! cmp -s "$W/a.orig" "$W/a.md"; then echo "VIOLATION (a): fence line of a passing block lost its configuration text:"; diff "$W/a.orig" "$W/a.md"; rc=1; fi
printf '# T\n\n```scrut { }\n$ echo a\na\n```\n' > "$W/b.md"
upd "$W/b.md"; cp "$W/b.md" "$W/b1"
upd "$W/b.md"; cp "$W/b.md" "$W/b2"
if ! cmp -s "$W/b1" "$W/b2"; then echo "VIOLATION (b): second update changes the document again:"; diff "$W/b1" "$W/b2"; rc=1; fi
exit $rc
