#!/bin/bash
# C10 / finding 5: blocks of passing tests are re-serialised: `[0]` removed, `[007]` -> `[7]`,
# exit code line moved to the end, expectation lines written before the command moved behind it
. "$(dirname "$0")/common.sh"
cat > "$W/t.md" <<'DOC'
# T

```scrut
$ true
[0]
```

```scrut
$ echo a; echo b; exit 7
a
[007]
b
```

```scrut
foo
$ printf 'foo\nbar\n'
bar
```
DOC
cp "$W/t.md" "$W/orig.md"
"$BIN" test --no-color "$W/t.md" >/dev/null 2>&1 || { echo "precondition failed: document does not pass"; exit 2; }
upd "$W/t.md" || { cat "$W/log"; exit 2; }
rc=0
if ! cmp -s "$W/orig.md" "$W/t.md"; then echo "VIOLATION (a): all tests pass, yet their lines were rewritten:"; diff "$W/orig.md" "$W/t.md"; rc=1; fi
# (b) the moved line becomes part of the command: a passing document turns into a failing one
printf '# T\n\n```scrut\n> c\n$ printf "> c\\\\na\\\\n"\na\n```\n' > "$W/b.md"
"$BIN" test --no-color "$W/b.md" >/dev/null 2>&1 || { echo "precondition failed: document (b) does not pass"; cat "$W/b.md"; exit 2; }
cp "$W/b.md" "$W/b.orig"
upd "$W/b.md" || { cat "$W/log"; exit 2; }
if ! "$BIN" test --no-color "$W/b.md" >/dev/null 2>&1; then echo "VIOLATION (b): passing document fails after update (command changed):"; diff "$W/b.orig" "$W/b.md"; rc=1; fi
exit $rc
