#!/bin/bash
# C10 / finding 6: document without final newline: a newline is appended to the text after the last test (all tests pass)
. "$(dirname "$0")/common.sh"
printf '# T\n\n```scrut\n$ echo a\na\n```\n\ntail without newline' > "$W/t.md"
cp "$W/t.md" "$W/orig.md"
upd "$W/t.md" || { cat "$W/log"; exit 2; }
if ! cmp -s "$W/orig.md" "$W/t.md"; then echo "VIOLATION: passing document rewritten:"; cmp "$W/orig.md" "$W/t.md"; tail -c 8 "$W/t.md" | od -c | tail -3; exit 1; fi
exit 0
