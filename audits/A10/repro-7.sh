#!/bin/bash
# C10 / finding 7: fences of passing blocks are rewritten (```` -> ```), an unterminated block gets a fence line added
. "$(dirname "$0")/common.sh"
rc=0
printf '# T\n\n````scrut\n$ echo a\na\n````\n' > "$W/a.md"; cp "$W/a.md" "$W/a.orig"
upd "$W/a.md" || { cat "$W/log"; exit 2; }
if ! cmp -s "$W/a.orig" "$W/a.md"; then echo "VIOLATION (a): passing block rewritten:"; diff "$W/a.orig" "$W/a.md"; rc=1; fi
printf '# T\n\n```scrut\n$ echo a\na\n' > "$W/b.md"; cp "$W/b.md" "$W/b.orig"
upd "$W/b.md" || { cat "$W/log"; exit 2; }
if ! cmp -s "$W/b.orig" "$W/b.md"; then echo "VIOLATION (b): line added to a passing malformed document:"; diff "$W/b.orig" "$W/b.md"; rc=1; fi
exit $rc
