# sourced by the repro scripts: builds scrut in the checkout given as $1, sets $SCRUT and a scratch dir $W
set -u
REPO="${1:?usage: $0 <path of scrut checkout>}"
REPO="$(cd "$REPO" && pwd)"
SCRUT="$REPO/target/debug/scrut"
if [ ! -x "$SCRUT" ]; then
  (cd "$REPO" && CARGO_NET_OFFLINE=true CARGO_TARGET_DIR="$REPO/target" cargo build --offline >/dev/null 2>&1) || { echo "build failed" >&2; exit 2; }
fi
W="$(mktemp -d)"
trap 'rm -rf "$W"' EXIT
cd "$W"
