#!/usr/bin/env bash
# C11 finding 1: an escaped line whose content ends in " (no-eol)" does not read back
. "$(dirname "$0")/common.sh"
violated=0
for fmt in markdown cram; do
  ext=md; [ $fmt = cram ] && ext=t
  "$SCRUT" create -f $fmt -o "gen.$ext" -- "printf '\\tfoo (no-eol)\\n'" || exit 2
  echo "--- generated ($fmt):"; cat "gen.$ext"
  if ! "$SCRUT" test "gen.$ext" >"out.$ext" 2>&1; then
    echo "VIOLATION: the document scrut just wrote does not match the output it was written from ($fmt)"
    grep -E '^ *[0-9]* *\| [-+]' "out.$ext"
    violated=1
  fi
done
# the same written text matches a line with different content
printf '# t\n\n```scrut\n$ printf '"'"'\\tfoo\\n'"'"'\n\\tfoo (no-eol) (escaped)\n```\n' > other.md
if "$SCRUT" test other.md >/dev/null 2>&1; then
  echo "VIOLATION: '\\tfoo (no-eol) (escaped)' matches the different line '<TAB>foo'"
  violated=1
fi
exit $violated
