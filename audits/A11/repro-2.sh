#!/usr/bin/env bash
# C11 finding 2: the diff renderer writes output lines unescaped (raw control bytes, U+FFFD for invalid UTF-8, no markers)
. "$(dirname "$0")/common.sh"
printf '# t\n\n```scrut\n$ printf '"'"'a\\tb\\n\\xff\\n\\033[1mx\\nfoo (glob)\\nend'"'"'\nzzz\n```\n' > r.md
"$SCRUT" test -e ascii -r diff r.md > r.diff 2>/dev/null
echo "--- scrut test -e ascii -r diff (cat -A):"; cat -A r.diff
violated=0
if grep -q "$(printf '\033')" r.diff; then echo "VIOLATION: raw ESC written"; violated=1; fi
if grep -q "$(printf '\t')" r.diff; then echo "VIOLATION: raw TAB written"; violated=1; fi
if grep -q "$(printf '\xef\xbf\xbd')" r.diff; then echo "VIOLATION: byte 0xff written as U+FFFD (lossy, non-ASCII in ascii mode)"; violated=1; fi
if grep -qx '+end' r.diff; then echo "VIOLATION: line without newline written without (no-eol)"; violated=1; fi
if grep -qx '+foo (glob)' r.diff; then echo "VIOLATION: 'foo (glob)' written without (equal)"; violated=1; fi
if command -v patch >/dev/null; then
  cp r.md p.md; sed 's/r\.md/p.md/g' r.diff | patch -s p.md
  if ! "$SCRUT" test p.md >/dev/null 2>&1; then echo "VIOLATION: document patched with scrut's own diff still fails"; violated=1; fi
fi
exit $violated
