#!/usr/bin/env bash
# C11 finding 3: unassigned code points (Cn) are written raw in unicode mode
. "$(dirname "$0")/common.sh"
# U+0378 (unassigned), U+FFFF (noncharacter), U+E0080 (unassigned): all General_Category=Cn
"$SCRUT" create -e unicode -o u.md -- "printf 'a\\xcd\\xb8b\\n\\xef\\xbf\\xbf\\n\\xf3\\xa0\\x82\\x80\\n'" || exit 2
echo "--- generated (od -c of the expectation lines):"; sed -n '5,7p' u.md | od -c
violated=0
for seq in '\xcd\xb8' '\xef\xbf\xbf' '\xf3\xa0\x82\x80'; do
  if LC_ALL=C grep -q "$(printf "$seq")" u.md; then echo "VIOLATION: unassigned code point $seq written raw"; violated=1; fi
done
exit $violated
