#!/usr/bin/env bash
# C11 finding 4: format characters (Cf) added after Unicode 8 are written raw in unicode mode
. "$(dirname "$0")/common.sh"
# U+08E2 ARABIC DISPUTED END OF AYAH, U+110CD KAITHI NUMBER SIGN ABOVE, U+13430 EGYPTIAN HIEROGLYPH VERTICAL JOINER, U+0890
"$SCRUT" create -e unicode -o u.md -- "printf '\\xe0\\xa3\\xa2\\n\\xf0\\x91\\x83\\x8d\\n\\xf0\\x93\\x90\\xb0\\n\\xe0\\xa2\\x90\\n'" || exit 2
echo "--- generated (od -c of the expectation lines):"; sed -n '5,8p' u.md | od -c
violated=0
for seq in '\xe0\xa3\xa2' '\xf0\x91\x83\x8d' '\xf0\x93\x90\xb0' '\xe0\xa2\x90'; do
  if LC_ALL=C grep -q "$(printf "$seq")" u.md; then echo "VIOLATION: format character $seq written raw"; violated=1; fi
done
exit $violated
