#!/usr/bin/env bash
# C11 finding 5: the pretty renderer writes printable lines that read as a modifier / exit code without (equal)
. "$(dirname "$0")/common.sh"
printf '# t\n\n```scrut\n$ printf '"'"'foo (glob)\\n[3]\\nbar (?)\\n'"'"'\nzzz\n```\n' > r.md
"$SCRUT" test --no-color -r pretty r.md > r.out 2>/dev/null
grep -E '\| [-+] ' r.out
violated=0
for l in 'foo (glob)' '[3]' 'bar (?)'; do
  if grep -qF "| + $l" r.out && ! grep -qF "| + $l (equal)" r.out; then echo "VIOLATION: '$l' written without (equal)"; violated=1; fi
done
# what that text reads back as
printf '# t\n\n```scrut\n$ printf '"'"'foo (glob)\\n'"'"'\nfoo (glob)\n```\n' > back.md
if ! "$SCRUT" test back.md >/dev/null 2>&1; then echo "VIOLATION: the written text 'foo (glob)' does not match the line 'foo (glob)'"; violated=1; fi
exit $violated
