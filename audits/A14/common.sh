# sourced by the repro scripts: builds scrut if needed, sets $SCRUT and a scratch dir $W
set -u
CHECKOUT="${1:?usage: $0 <path of a scrut checkout>}"
CHECKOUT="$(cd "$CHECKOUT" && pwd)"
SCRUT="$CHECKOUT/target/debug/scrut"
if [ ! -x "$SCRUT" ]; then
    (cd "$CHECKOUT" && CARGO_NET_OFFLINE=true CARGO_TARGET_DIR="$CHECKOUT/target" cargo build --offline >&2) || { echo "build failed" >&2; exit 2; }
fi
W="$(mktemp -d /tmp/audit-A14-repro.XXXXXX)"
trap 'rm -rf "$W"' EXIT
cd "$W"
now_ms() { python3 -c 'import time; print(int(time.time()*1000))'; }
