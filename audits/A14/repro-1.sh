#!/bin/bash
# A test case that redirects its own stdout/stderr (exec >/dev/null 2>&1) escapes
# the per-test timeout and the document limit: it runs to its end and passes.
. "$(dirname "$0")/common.sh"

cat > closed.md <<'DOC'
# Command that redirects its own output

```scrut {timeout: 1s}
$ exec >/dev/null 2>&1; sleep 4
```

```scrut
$ echo after
after
```
DOC

shown=0

# (a) per-test timeout of 1s, command runs 4s
s=$(now_ms); timeout 60 "$SCRUT" test closed.md > a.out 2>&1; rc=$?; e=$(now_ms)
echo "(a) per-test timeout 1s: exit=$rc, elapsed=$((e-s)) ms: $(tail -1 a.out)"
if [ $rc -eq 0 ] || [ $((e-s)) -ge 3000 ]; then shown=1; fi

# (b) document limit of 1s (no per-test timeout): the slow test passes, the document
#     runs 4s and the quick test after it is the one reported as timed out
sed -i 's/```scrut {timeout: 1s}/```scrut/' closed.md
s=$(now_ms); timeout 60 "$SCRUT" test --timeout-seconds 1 -r json closed.md > b.json 2>b.err; rc=$?; e=$(now_ms)
python3 - <<'PY'
import json
for o in json.load(open("b.json")):
    if "testcase" in o:
        print("(b)   %-40s -> %s" % (o["testcase"]["shell_expression"], o["result"]["kind"] if isinstance(o["result"], dict) else o["result"]))
    else:
        print("(b)   %-40s -> %s" % (o.get("title"), o["result"]))
PY
echo "(b) --timeout-seconds 1: exit=$rc, elapsed=$((e-s)) ms"
if [ $((e-s)) -ge 3000 ]; then shown=1; fi

if [ $shown -eq 1 ]; then echo "VIOLATION: limits not enforced once the command has closed its output"; exit 1; fi
echo "no violation"; exit 0
