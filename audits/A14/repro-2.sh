#!/bin/bash
# `wait` is not bounded by (nor counted against) total_timeout for the test case it
# belongs to: a document with total_timeout 1s runs for more than 4s and passes.
. "$(dirname "$0")/common.sh"

cat > wait.md <<'DOC'
---
total_timeout: 1s
---

# Wait

```scrut
$ echo first
first
```

```scrut {wait: 4s}
$ sleep 0.5; echo second
second
```
DOC

s=$(now_ms); timeout 60 "$SCRUT" test wait.md > out.txt 2>&1; rc=$?; e=$(now_ms)
echo "total_timeout 1s: exit=$rc, elapsed=$((e-s)) ms: $(tail -1 out.txt)"
if [ $rc -eq 0 ] && [ $((e-s)) -ge 3000 ]; then
    echo "VIOLATION: document ran $((e-s)) ms with total_timeout 1s and was reported as passed"; exit 1
fi
if [ $((e-s)) -ge 3000 ]; then
    echo "VIOLATION: document kept executing for $((e-s)) ms with total_timeout 1s"; exit 1
fi
echo "no violation"; exit 0
