#!/bin/bash
# Cram document: when the document limit is hit in the 2nd test case, the 1st one
# (which finished in milliseconds) is reported as timed out and the slow one as skipped.
. "$(dirname "$0")/common.sh"

printf 'First is quick:\n\n  $ echo quick\n  quick\n\nSecond is slow:\n\n  $ sleep 5\n\nThird is never run:\n\n  $ echo third\n  third\n' > doc.t

timeout 60 "$SCRUT" test --timeout-seconds 1 -r json doc.t > out.json 2>err.txt; rc=$?
python3 - <<'PY'
import json, sys
kinds = []
for o in json.load(open("out.json")):
    k = o["result"]["kind"] if isinstance(o["result"], dict) else str(o["result"])
    name = o["testcase"]["shell_expression"] if "testcase" in o else o.get("title")
    print("  %-12s -> %s" % (name, k))
    kinds.append((name, k))
if kinds and kinds[0] == ("echo quick", "timeout"):
    print("VIOLATION: `echo quick` finished inside the limit but is reported as timed out;"
          " `sleep 5` (the one that was aborted) is reported as %s" % kinds[1][1])
    sys.exit(1)
print("no violation")
PY
