#!/bin/bash
# A timed-out test case is not aborted: only the shell is killed, the command it
# was running goes on (and here writes a file 3s after scrut has reported and exited).
. "$(dirname "$0")/common.sh"
export OUT="$W"

cat > survivor.md <<'DOC'
# Child survives

```scrut {timeout: 1s}
$ sh -c 'sleep 3; echo late > "$OUT/late.txt"'
```
DOC

timeout 60 "$SCRUT" test survivor.md > out.txt 2>&1; rc=$?
echo "scrut exit=$rc: $(tail -1 out.txt)"
[ -e late.txt ] && { echo "late.txt exists already?"; exit 0; }
sleep 3.5
if [ -e late.txt ]; then
    echo "VIOLATION: the command of the timed-out test case kept running after scrut exited (late.txt was written)"; exit 1
fi
echo "no violation"; exit 0
