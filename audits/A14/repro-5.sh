#!/bin/bash
# A command that closes its stdin while more than a pipe buffer (64 KiB) of the test
# case's shell expression is still unread is reported as timed out immediately --
# after ~0.1s, under the default 900s limit and even with --timeout-seconds 0.
. "$(dirname "$0")/common.sh"

python3 - <<'PY'
filler = "".join("> # %05d %s\n" % (i, "x" * 80) for i in range(1500))
open("stdin.md", "w").write(
    "# Closes stdin, long rest\n\n```scrut\n$ { exec 0<&-; sleep 1; echo hello; }\n" + filler + "hello\n```\n")
PY

shown=0
for args in "" "--timeout-seconds 0"; do
    s=$(now_ms); timeout 60 "$SCRUT" test $args -r json stdin.md > out.json 2>err.txt; rc=$?; e=$(now_ms)
    kind=$(python3 -c '
import json
o = json.load(open("out.json"))[0]
print(o["result"]["kind"] if isinstance(o["result"], dict) else o["result"], o.get("output", {}).get("exit_code", ""))')
    echo "scrut test $args: exit=$rc, elapsed=$((e-s)) ms, result: $kind"
    case "$kind" in timeout*) shown=1;; esac
done
if [ $shown -eq 1 ]; then echo "VIOLATION: a 1s command is reported as timed out although no limit was reached"; exit 1; fi
echo "no violation"; exit 0
