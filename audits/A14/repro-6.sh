#!/bin/bash
# The time limit is only looked at when neither stdout nor stderr has data pending:
# a test case that keeps both streams busy overruns its timeout (here 500ms).
# TIMING DEPENDENT (needs writers that are not descheduled, i.e. a machine that is not
# overloaded): up to eight trials, the violation shows as soon as one trial ran for more
# than twice the timeout. Needs up to ~1.5 GB of memory.
. "$(dirname "$0")/common.sh"
export OUT="$W"

cat > noisy.md <<'DOC'
# A test case that keeps printing on both streams

```scrut {timeout: 500ms}
$ date +%s%N > "$OUT/start.txt"; ( while kill -0 $$ 2>/dev/null; do sleep 0.02; done; date +%s%N > "$OUT/end.txt" ) </dev/null >/dev/null 2>&1 & timeout 4 cat /dev/zero & exec timeout 4 cat /dev/zero 1>&2
[124]
```
DOC

worst=0
for i in 1 2 3 4 5 6 7 8; do
    rm -f start.txt end.txt
    timeout 300 "$SCRUT" test -r diff noisy.md >/dev/null 2>&1
    for j in $(seq 50); do [ -s end.txt ] && break; sleep 0.1; done
    ran=$(( ($(cat end.txt) - $(cat start.txt)) / 1000000 ))
    echo "trial $i: shell of the test case lived for $ran ms (timeout: 500 ms)"
    [ $ran -gt $worst ] && worst=$ran
    [ $worst -gt 1000 ] && break
done
if [ $worst -gt 1000 ]; then
    echo "VIOLATION: test case with timeout 500ms was only aborted after $worst ms"; exit 1
fi
echo "no violation shown (worst: $worst ms; load: $(cut -d' ' -f1-3 /proc/loadavg))"; exit 0
