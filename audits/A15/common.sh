# shared by the repro-<n>.sh scripts: builds scrut in the checkout given as $1,
# sets $BIN and changes into a fresh scratch directory
REPO=${1:?usage: $0 <path of a scrut checkout>}
REPO=$(cd "$REPO" && pwd)
(cd "$REPO" && CARGO_NET_OFFLINE=true CARGO_TARGET_DIR="$REPO/target" cargo build --offline >/dev/null 2>&1) || {
    echo "build failed" >&2
    exit 2
}
BIN="$REPO/target/debug/scrut"
W=$(mktemp -d)
trap 'rm -rf "$W"' EXIT
cd "$W" || exit 2
