#!/usr/bin/env bash
# C15 / finding 1: Cram document, a test case exits with the skip code 80
# (without ending the shell), a later test case runs into the timeout:
# the document is reported failed (timeout) and the run fails.
. "$(dirname "$0")/common.sh"

printf 'skip\n  $ (exit 80)\n  [80]\n\nslow\n  $ sleep 3\n' > doc.t
out=$("$BIN" test --no-color --timeout-seconds 1 doc.t 2>&1)
rc=$?
echo "$out"
echo "exit code of scrut: $rc"
if [ $rc -eq 0 ] && echo "$out" | grep -q '0 succeeded, 0 failed and 2 skipped'; then
    echo "OK: document skipped"
    exit 0
fi
echo "VIOLATION: a test case exited with 80, yet the document is not skipped as a whole / the run fails"
exit 1
