#!/usr/bin/env bash
# C15 / finding 2: the skip code configured for a document does not hold for
# the test cases prepended / appended to it
. "$(dirname "$0")/common.sh"

cat > main.md <<'DOC'
---
defaults:
  skip_document_code: 42
---

# Main

```scrut
$ echo main
main
```
DOC
cat > setup.md <<'DOC'
# Setup

```scrut
$ exit 42
```
DOC
bad=0
for flag in -P -A; do
    out=$("$BIN" test --no-color $flag setup.md -- main.md 2>&1)
    rc=$?
    echo "== scrut test $flag setup.md -- main.md  (exit code $rc)"
    echo "$out" | tail -3
    if [ $rc -ne 0 ] || ! echo "$out" | grep -q '0 succeeded, 0 failed and 2 skipped'; then
        bad=1
    fi
done
if [ $bad -eq 1 ]; then
    echo "VIOLATION: test case exits with the document's skip code 42, document not skipped, run fails"
    exit 1
fi
echo "OK"
exit 0
