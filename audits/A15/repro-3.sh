#!/usr/bin/env bash
# C15 / finding 3: --cram-compat with skip_document_code: 0 skips a document
# in which no test case exits with 0
. "$(dirname "$0")/common.sh"

cat > zero.md <<'DOC'
---
defaults:
  skip_document_code: 0
---

# Doc

```scrut
$ echo hi; false
hi
[1]
```
DOC
out=$("$BIN" test --no-color --cram-compat zero.md 2>&1)
rc=$?
echo "$out"
echo "exit code of scrut: $rc"
if echo "$out" | grep -q ' and 1 skipped'; then
    echo "VIOLATION: the only test case exits with 1, the skip code is 0, yet the test case is reported as skipped"
    exit 1
fi
echo "OK"
exit 0
