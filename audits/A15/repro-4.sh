#!/usr/bin/env bash
# C15 / finding 4: --cram-compat and a skip code set on a single test case:
# the test case exits with its skip code, the run fails with an error
. "$(dirname "$0")/common.sh"

cat > doc.md <<'DOC'
# Doc

```scrut
$ echo one
one
```

```scrut {skip_document_code: 42}
$ exit 42
```
DOC
out=$("$BIN" test --no-color --cram-compat doc.md 2>&1)
rc=$?
echo "$out" | head -3
echo "exit code of scrut: $rc"
if [ $rc -eq 0 ] && echo "$out" | grep -q '0 succeeded, 0 failed and 2 skipped'; then
    echo "OK"
    exit 0
fi
echo "VIOLATION: test case exits with its skip code 42, document is not skipped, run fails"
exit 1
