// C15 / finding 5: the skip code a document sets for all of its test cases
// (DocumentConfig::defaults) is honoured by the StatefulExecutor and ignored by
// the BashScriptExecutor (Cram execution).
use scrut::config::DocumentConfig;
use scrut::config::TestCaseConfig;
use scrut::executors::bash_runner::BashRunner;
use scrut::executors::bash_script_executor::BashScriptExecutor;
use scrut::executors::context::ContextBuilder;
use scrut::executors::error::ExecutionError;
use scrut::executors::executor::Executor;
use scrut::executors::stateful_executor::StatefulExecutor;
use scrut::executors::DEFAULT_SHELL;
use scrut::output::Output;
use scrut::testcase::TestCase;

fn run(executor: &dyn Executor) -> Result<Vec<Output>, ExecutionError> {
    let work = tempfile::tempdir().unwrap();
    let tmp = tempfile::tempdir().unwrap();
    // the document sets the skip code for all of its test cases
    let config = DocumentConfig {
        defaults: TestCaseConfig {
            skip_document_code: Some(42),
            ..TestCaseConfig::empty()
        },
        ..DocumentConfig::empty()
    };
    let context = ContextBuilder::default()
        .work_directory(work.path().to_path_buf())
        .temp_directory(tmp.path().to_path_buf())
        .file("doc.t".into())
        .config(config)
        .build()
        .unwrap();
    let tc = |e: &str| TestCase {
        title: "t".into(),
        shell_expression: e.into(),
        ..Default::default()
    };
    let (a, b, c) = (tc("echo one"), tc("(exit 42)"), tc("echo three"));
    executor.execute_all(&[&a, &b, &c], &context)
}

#[test]
fn stateful_honours_document_skip_code() {
    let r = run(&StatefulExecutor::new(BashRunner::stateful_generator(
        *DEFAULT_SHELL,
    )));
    assert!(matches!(r, Err(ExecutionError::Skipped(1))), "stateful: {:?}", r);
}

#[test]
fn bash_script_honours_document_skip_code() {
    let r = run(&BashScriptExecutor::new(*DEFAULT_SHELL));
    assert!(
        matches!(r, Err(ExecutionError::Skipped(_))),
        "bash script executor did not skip: {:?}",
        r
    );
}
