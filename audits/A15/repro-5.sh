#!/usr/bin/env bash
# C15 / finding 5 (library API): BashScriptExecutor ignores the skip code that
# the document configuration sets for all test cases (StatefulExecutor honours it).
# Drops a test into <checkout>/tests/, runs it and removes it again.
REPO=${1:?usage: $0 <path of a scrut checkout>}
REPO=$(cd "$REPO" && pwd)
HERE=$(cd "$(dirname "$0")" && pwd)
made_dir=0
[ -d "$REPO/tests" ] || { mkdir "$REPO/tests" && made_dir=1; }
T="$REPO/tests/c15_repro5_tmp.rs"
cp "$HERE/repro-5-test.rs" "$T"
cleanup() { rm -f "$T"; [ $made_dir -eq 1 ] && rmdir "$REPO/tests" 2>/dev/null; }
trap cleanup EXIT
out=$(cd "$REPO" && RUST_BACKTRACE=0 CARGO_NET_OFFLINE=true CARGO_TARGET_DIR="$REPO/target" \
    cargo test --offline --test c15_repro5_tmp 2>&1)
rc=$?
echo "$out" | grep -E '^test |test result|did not skip|error' | head -20
if echo "$out" | grep -q 'test bash_script_honours_document_skip_code ... FAILED'; then
    echo "VIOLATION: (exit 42) with document skip code 42 is not a skip for the BashScriptExecutor"
    exit 1
fi
if [ $rc -ne 0 ]; then
    echo "could not run the test" >&2
    exit 2
fi
echo "OK"
exit 0
