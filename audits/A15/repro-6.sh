#!/usr/bin/env bash
# C15 / finding 6: Cram document, no test case exits with 80, the third test
# case times out: the second one (before it) and the third one (itself) are
# reported as skipped, the first one as timed out
. "$(dirname "$0")/common.sh"

printf 'one\n  $ echo one\n  one\n\ntwo\n  $ echo two\n  two\n\nthree\n  $ sleep 3\n\nfour\n  $ echo four\n  four\n' > to.t
out=$("$BIN" test --no-color --timeout-seconds 1 -r json to.t 2>/dev/null)
# one JSON object per test case, in order; pick the result kinds
kinds=$(echo "$out" | grep -o '"result":{"kind":"[a-z_]*"' | sed 's/.*"kind":"//; s/"//' | tr '\n' ' ')
echo "result kinds in order: $kinds"
set -- $kinds
if [ "${2:-}" = "skipped" ] || [ "${3:-}" = "skipped" ]; then
    echo "VIOLATION: test case 2 (precedes the timed-out one) / 3 (the timed-out one) reported as skipped"
    exit 1
fi
echo "OK"
exit 0
