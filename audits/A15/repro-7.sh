#!/usr/bin/env bash
# C15 / finding 7: Cram document, no test case exits with 80, but one prints a
# line that looks like scrut's divider: document reported as skipped
. "$(dirname "$0")/common.sh"

printf 'one\n  $ echo one\n  one\n\nfake\n  $ echo "~~~~~~~~EXECDIVIDER::x::1::80"; exit 0\n  WRONG\n' > fake.t
out=$("$BIN" test --no-color fake.t 2>&1)
rc=$?
echo "$out"
echo "exit code of scrut: $rc"
if echo "$out" | grep -q ' and 2 skipped'; then
    echo "VIOLATION: exit codes are 0 and 0, yet both test cases are reported as skipped"
    exit 1
fi
echo "OK"
exit 0
