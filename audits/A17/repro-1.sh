#!/usr/bin/env bash
# C17 finding 1: `scrut create --cram-compat` renders a block header without
# configuration for a test case whose configuration is {output_stream: stdout};
# read back in the same mode (`--cram-compat`) it is {output_stream: combined,
# keep_crlf: true}.
# usage: repro-1.sh <scrut checkout>; exit 1 = violation shows, 0 = it does not
set -u
REPO="${1:?path of a scrut checkout}"
REPO="$(cd "$REPO" && pwd)"
export CARGO_NET_OFFLINE=true CARGO_TARGET_DIR="$REPO/target"
(cd "$REPO" && cargo build --offline >/dev/null 2>&1) || { echo "build failed"; exit 2; }
S="$REPO/target/debug/scrut"
W="$(mktemp -d)"; trap 'rm -rf "$W"' EXIT
cd "$W" || exit 2

"$S" create --cram-compat -o created.md -- 'echo err >&2; echo out' >/dev/null 2>&1 || { echo "create failed"; exit 2; }
echo "== document written by: scrut create --cram-compat"
cat created.md
header="$(grep '^```scrut' created.md | head -1)"

# configuration the same document has when it is read back in the same mode
parsed="$("$S" test --cram-compat -r yaml created.md 2>/dev/null | grep -E '^\s+(output_stream|keep_crlf):' | tr -s ' ' | tr '\n' ';')"
"$S" test --cram-compat created.md >/dev/null 2>&1; rc=$?
echo "== header: $header"
echo "== configuration read back with --cram-compat: ${parsed:-<test passed, nothing rendered>}"
echo "== scrut test --cram-compat exit code: $rc"

# created with stream stdout (the expectation is only `out`) ...
grep -qx 'out' created.md || { echo "unexpected created document"; exit 2; }
if grep -qx 'err' created.md; then echo "create ran combined: no violation"; exit 0; fi
# ... the header states no stream, and reading it back gives `combined`
if [ "$rc" -ne 0 ] && echo "$parsed" | grep -q 'output_stream: combined' && ! echo "$header" | grep -q 'output_stream'; then
  echo "C17-VIOLATION: test case ran with output_stream stdout, header renders nothing, parsed back as combined"
  exit 1
fi
exit 0
