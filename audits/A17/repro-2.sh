#!/usr/bin/env bash
# C17 finding 2: an environment value / name / wait path containing U+FFFE or
# U+FFFF is written verbatim into the one-line {...} form; the YAML reader
# rejects the document ("control characters are not allowed").
# usage: repro-2.sh <scrut checkout>; exit 1 = violation shows, 0 = it does not
set -u
REPO="${1:?path of a scrut checkout}"; REPO="$(cd "$REPO" && pwd)"; NAME=c17_repro_2
. "$(dirname "$0")/lib-repro.inc"
run_lib_test <<'RUST'
use std::collections::BTreeMap;
use std::path::PathBuf;
use std::sync::Arc;
use std::time::Duration;

use scrut::config::{TestCaseConfig, TestCaseWait};
use scrut::escaping::Escaper;
use scrut::expectation::ExpectationMaker;
use scrut::generators::generator::TestCaseGenerator;
use scrut::generators::markdown::MarkdownTestCaseGenerator;
use scrut::outcome::Outcome;
use scrut::parsers::markdown::{MarkdownParser, DEFAULT_MARKDOWN_LANGUAGES};
use scrut::parsers::parser::{Parser, ParserType};
use scrut::rules::registry::RuleRegistry;
use scrut::testcase::TestCase;

fn roundtrip(config: TestCaseConfig) -> bool {
    // render the test case the way `create` and `--convert` do ...
    let outcome = Outcome {
        location: None,
        output: ("hi\n", "").into(),
        testcase: TestCase {
            title: "t".into(),
            shell_expression: "echo hi".into(),
            config: config.clone(),
            ..Default::default()
        },
        result: Ok(()),
        escaping: Escaper::default(),
        format: ParserType::Markdown,
    };
    let document = MarkdownTestCaseGenerator::default()
        .generate_testcases(&[&outcome])
        .expect("generate");
    println!("C17-DOC {:?}", document);
    // ... and read the document back
    let parser = MarkdownParser::new(
        Arc::new(ExpectationMaker::new(RuleRegistry::default())),
        DEFAULT_MARKDOWN_LANGUAGES,
        None,
    );
    match parser.parse(&document) {
        Ok((_, testcases)) => {
            let equal = testcases.len() == 1 && testcases[0].config == config;
            if !equal {
                println!("C17-VIOLATION: read back as {:?}", testcases.iter().map(|t| &t.config).collect::<Vec<_>>());
            }
            equal
        }
        Err(err) => {
            println!("C17-VIOLATION: rendered configuration does not parse: {:#}", err);
            false
        }
    }
}

#[test]
fn noncharacters_in_one_liner() {
    let base = TestCaseConfig::default_markdown();
    let mut ok = true;
    for text in ["caf\u{e9} \u{fffe}", "\u{ffff}"] {
        ok &= roundtrip(TestCaseConfig {
            environment: BTreeMap::from([("GREETING".to_string(), text.to_string())]),
            ..base.clone()
        });
        ok &= roundtrip(TestCaseConfig {
            environment: BTreeMap::from([(text.to_string(), "v".to_string())]),
            ..base.clone()
        });
        ok &= roundtrip(TestCaseConfig {
            wait: Some(TestCaseWait { timeout: Duration::from_secs(1), path: Some(PathBuf::from(text)) }),
            ..base.clone()
        });
    }
    // the same value in front-matter (serde_yaml) is fine: it is written as "￾"
    let yaml = serde_yaml::to_string(&TestCaseConfig {
        environment: BTreeMap::from([("A".to_string(), "\u{fffe}".to_string())]),
        ..Default::default()
    }).unwrap();
    println!("C17-NOTE front-matter form: {:?}", yaml);
    assert!(ok, "one-line configuration with U+FFFE / U+FFFF does not survive");
}
RUST
