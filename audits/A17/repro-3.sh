#!/usr/bin/env bash
# C17 finding 3: an environment variable whose name is 1023 bytes or longer is
# written as an implicit key of the one-line {...} form; YAML limits implicit
# keys to 1024 characters, so the rendered configuration does not parse.
# usage: repro-3.sh <scrut checkout>; exit 1 = violation shows, 0 = it does not
set -u
REPO="${1:?path of a scrut checkout}"; REPO="$(cd "$REPO" && pwd)"; NAME=c17_repro_3
. "$(dirname "$0")/lib-repro.inc"
run_lib_test <<'RUST'
use std::collections::BTreeMap;
use std::sync::Arc;

use scrut::config::{DocumentConfig, TestCaseConfig};
use scrut::expectation::ExpectationMaker;
use scrut::parsers::markdown::{MarkdownParser, DEFAULT_MARKDOWN_LANGUAGES};
use scrut::parsers::parser::Parser;
use scrut::rules::registry::RuleRegistry;

#[test]
fn long_environment_names_in_one_liner() {
    let parser = MarkdownParser::new(
        Arc::new(ExpectationMaker::new(RuleRegistry::default())),
        DEFAULT_MARKDOWN_LANGUAGES,
        Some(TestCaseConfig::empty()),
    );
    let mut ok = true;
    for length in [1024usize, 1025, 4096] {
        let config = TestCaseConfig {
            environment: BTreeMap::from([("K".repeat(length), "v".to_string())]),
            ..Default::default()
        };
        // the one-line form, as written after the code-fence language
        let document = format!("# t\n\n```scrut {}\n$ true\n```\n", config.to_yaml_one_liner());
        match parser.parse(&document) {
            Ok((_, testcases)) if testcases.len() == 1 && testcases[0].config == config => {
                println!("C17-OK name of {length} bytes survives the one-line form");
            }
            Ok(_) => {
                ok = false;
                println!("C17-VIOLATION: name of {length} bytes reads back differently");
            }
            Err(err) => {
                ok = false;
                println!("C17-VIOLATION: name of {length} bytes: one-line form does not parse: {:#}", err);
            }
        }
        // the same configuration as front-matter is fine (written as an explicit `? key`)
        let document_config = DocumentConfig { defaults: config.clone(), ..DocumentConfig::default_markdown() };
        let yaml = serde_yaml::to_string(&document_config).unwrap();
        let (read, _) = parser.parse(&format!("---\n{yaml}---\n\n```scrut\n$ true\n```\n")).expect("front-matter parses");
        assert_eq!(read, document_config, "front-matter form");
    }
    assert!(ok, "one-line configuration with a long environment name does not survive");
}
RUST
