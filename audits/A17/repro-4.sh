#!/usr/bin/env bash
# C17 finding 4: a wait path that is not valid UTF-8 is written with
# to_string_lossy() into the one-line {...} form: the offending bytes silently
# become U+FFFD and the configuration reads back with a different path.
# usage: repro-4.sh <scrut checkout>; exit 1 = violation shows, 0 = it does not
set -u
REPO="${1:?path of a scrut checkout}"; REPO="$(cd "$REPO" && pwd)"; NAME=c17_repro_4
. "$(dirname "$0")/lib-repro.inc"
run_lib_test <<'RUST'
use std::ffi::OsString;
use std::os::unix::ffi::OsStringExt;
use std::path::PathBuf;
use std::time::Duration;

use scrut::config::{TestCaseConfig, TestCaseWait};

#[test]
fn non_utf8_wait_path_in_one_liner() {
    // a Latin-1 encoded file name: /tmp/caf<E9>.ready
    let path = PathBuf::from(OsString::from_vec(b"/tmp/caf\xe9.ready".to_vec()));
    let config = TestCaseConfig {
        wait: Some(TestCaseWait { timeout: Duration::from_secs(1), path: Some(path) }),
        ..Default::default()
    };
    let line = config.to_yaml_one_liner();
    println!("C17-LINE {line}");
    // the block form refuses the same configuration loudly
    println!("C17-NOTE serde_yaml::to_string -> {:?}", serde_yaml::to_string(&config).map_err(|e| e.to_string()));
    match serde_yaml::from_str::<TestCaseConfig>(&line) {
        Ok(read) if read == config => println!("C17-OK path survives"),
        Ok(read) => {
            println!("C17-VIOLATION: wait path read back as {:?}, written from {:?}", read.wait.unwrap().path, config.wait.as_ref().unwrap().path);
            panic!("path changed");
        }
        Err(err) => {
            println!("C17-VIOLATION: does not parse: {err}");
            panic!("does not parse");
        }
    }
}
RUST
