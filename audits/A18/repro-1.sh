#!/usr/bin/env bash
# C18 finding 1: after a timeout (or with a detached/background process that is still
# writing) the per-document work directory is NOT removed, silently.
# usage: repro-1.sh <scrut checkout>     exit 1 = violation shows, exit 0 = it does not
set -u
CO=${1:?path of a scrut checkout}
SCRUT=$CO/target/debug/scrut
if [ ! -x "$SCRUT" ]; then
  (cd "$CO" && CARGO_NET_OFFLINE=true CARGO_TARGET_DIR="$CO/target" cargo build --offline >/dev/null 2>&1) || { echo "build failed"; exit 2; }
fi
W=$(mktemp -d /tmp/c18-repro1.XXXXXX)
mkdir "$W/T" "$W/docs"
cat > "$W/docs/to.md" <<'EOF'
# timeout with a busy child

```scrut {timeout: 1s}
$ ( end=$((SECONDS+4)); while [ $SECONDS -lt $end ]; do : > "f$RANDOM$RANDOM"; done )
```
EOF
shown=0
for attempt in 1 2 3; do
  TMPDIR="$W/T" "$SCRUT" test "$W/docs/to.md" >/dev/null 2>&1
  code=$?
  left=$(ls -A "$W/T")
  echo "attempt $attempt: scrut exit code $code, left in TMPDIR: ${left:-<nothing>}"
  if [ -n "$left" ]; then shown=1; break; fi
done
sleep 5   # let the orphaned writer (it ends by itself after 4 s) finish
rm -rf "$W"
if [ $shown = 1 ]; then
  echo "VIOLATION: scrut exited after a timeout and a directory it created remains"
  exit 1
fi
echo "no leftover directory"
exit 0
