#!/usr/bin/env bash
# C18 finding 2: TESTDIR, TESTFILE, TESTSHELL, TMPDIR, LANG, LC_ALL, COLUMNS, TZ are NOT set
# afresh for every test case: what one test case assigns is what the next one sees
# (Markdown: restored from the state file after scrut has set them; Cram: exported once).
# usage: repro-2.sh <scrut checkout>     exit 1 = violation shows, exit 0 = it does not
set -u
CO=${1:?path of a scrut checkout}
SCRUT=$CO/target/debug/scrut
if [ ! -x "$SCRUT" ]; then
  (cd "$CO" && CARGO_NET_OFFLINE=true CARGO_TARGET_DIR="$CO/target" cargo build --offline >/dev/null 2>&1) || { echo "build failed"; exit 2; }
fi
W=$(mktemp -d /tmp/c18-repro2.XXXXXX)
mkdir "$W/T" "$W/docs"
cat > "$W/docs/env.md" <<'EOF'
# environment

```scrut
$ TESTDIR=/nowhere; TESTFILE=other.md; TMPDIR=/elsewhere; TESTSHELL=/bin/false; LANG=xx; COLUMNS=7; TZ=ZZ
```

```scrut
$ echo "$TESTDIR|$TESTFILE|$TMPDIR|$TESTSHELL|$LANG|$COLUMNS|$TZ" > "$OUT_MD"
```
EOF
cat > "$W/docs/env.t" <<'EOF'
  $ TESTDIR=/nowhere; TESTFILE=other.md; TMPDIR=/elsewhere; TESTSHELL=/bin/false; LANG=xx; COLUMNS=7; TZ=ZZ
  $ echo "$TESTDIR|$TESTFILE|$TMPDIR|$TESTSHELL|$LANG|$COLUMNS|$TZ" > "$OUT_T"
EOF
OUT_MD="$W/out.md.txt" OUT_T="$W/out.t.txt" TMPDIR="$W/T" "$SCRUT" test "$W/docs/env.md" "$W/docs/env.t" >/dev/null 2>&1
md=$(cat "$W/out.md.txt" 2>/dev/null)
t=$(cat "$W/out.t.txt" 2>/dev/null)
echo "Markdown, second test case sees: $md"
echo "Cram,     second test case sees: $t"
rm -rf "$W"
bad=0
case "$md" in /nowhere\|other.md\|/elsewhere\|/bin/false\|xx\|7\|ZZ) bad=1;; esac
case "$t"  in /nowhere\|other.md\|/elsewhere\|/bin/false\|xx\|7\|ZZ) bad=1;; esac
if [ $bad = 1 ]; then
  echo "VIOLATION: the variables were not set afresh for the second test case"
  exit 1
fi
echo "variables were set afresh"
exit 0
