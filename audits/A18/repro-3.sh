#!/usr/bin/env bash
# C18 finding 3: a test case that leaves a read-only directory behind makes the clean-up
# fail silently: the whole execution.XXXXXX directory remains, exit code 0, no message.
# (Shows only for a non-root user; when started as root the script drops to "nobody"
# with setpriv.)
# usage: repro-3.sh <scrut checkout>     exit 1 = violation shows, exit 0 = it does not
set -u
CO=${1:?path of a scrut checkout}
SCRUT=$CO/target/debug/scrut
if [ ! -x "$SCRUT" ]; then
  (cd "$CO" && CARGO_NET_OFFLINE=true CARGO_TARGET_DIR="$CO/target" cargo build --offline >/dev/null 2>&1) || { echo "build failed"; exit 2; }
fi
W=$(mktemp -d /tmp/c18-repro3.XXXXXX)
chmod 755 "$W"
mkdir "$W/T" "$W/docs"
chmod 777 "$W/T"
cp "$SCRUT" "$W/scrut"      # so that an unprivileged user can execute it in any case
chmod 755 "$W/scrut"
cat > "$W/docs/ro.md" <<'EOF'
# read-only directory

```scrut
$ mkdir -p ro/sub && touch ro/sub/file && chmod 555 ro/sub && echo ok
ok
```
EOF
RUNAS=()
if [ "$(id -u)" = 0 ]; then
  if command -v setpriv >/dev/null 2>&1; then
    RUNAS=(setpriv --reuid=65534 --regid=65534 --clear-groups)
  else
    echo "running as root and no setpriv: root removes read-only directories, cannot show"
    rm -rf "$W"; exit 0
  fi
fi
(cd "$W" && TMPDIR="$W/T" HOME="$W/T" "${RUNAS[@]}" "$W/scrut" test "$W/docs/ro.md" >/dev/null 2>"$W/stderr.txt")
code=$?
left=$(cd "$W/T" && find . -mindepth 1 | sort)
echo "scrut exit code: $code"
echo "stderr: $(cat "$W/stderr.txt" | grep -v '^$' | head -5)"
echo "left in TMPDIR:"; echo "${left:-<nothing>}"
chmod -R u+rwx "$W" 2>/dev/null
rm -rf "$W"
if [ -n "$left" ]; then
  echo "VIOLATION: scrut exited (code $code) and a directory it created remains"
  exit 1
fi
echo "no leftover directory"
exit 0
