#!/usr/bin/env bash
# C18 finding 4: with --work-directory all documents of the run share ONE working directory
# (the given one); document b sees the files of document a.
# usage: repro-4.sh <scrut checkout>     exit 1 = violation shows, exit 0 = it does not
set -u
CO=${1:?path of a scrut checkout}
SCRUT=$CO/target/debug/scrut
if [ ! -x "$SCRUT" ]; then
  (cd "$CO" && CARGO_NET_OFFLINE=true CARGO_TARGET_DIR="$CO/target" cargo build --offline >/dev/null 2>&1) || { echo "build failed"; exit 2; }
fi
W=$(mktemp -d /tmp/c18-repro4.XXXXXX)
mkdir "$W/T" "$W/docs" "$W/wd"
cat > "$W/docs/a.md" <<'EOF'
# A

```scrut
$ touch marker-from-a; pwd > "$TESTDIR/a.pwd"
```
EOF
cat > "$W/docs/b.md" <<'EOF'
# B

```scrut
$ pwd > "$TESTDIR/b.pwd"; ls > "$TESTDIR/b.ls"
```
EOF
TMPDIR="$W/T" "$SCRUT" test --work-directory "$W/wd" "$W/docs/a.md" "$W/docs/b.md" >/dev/null 2>&1
a=$(cat "$W/docs/a.pwd"); b=$(cat "$W/docs/b.pwd")
echo "working directory of a.md: $a"
echo "working directory of b.md: $b"
echo "b.md sees: $(tr '\n' ' ' < "$W/docs/b.ls")"
rm -rf "$W"
if [ -n "$a" ] && [ "$a" = "$b" ]; then
  echo "VIOLATION: two documents of one run share a working directory"
  exit 1
fi
echo "documents ran in different directories"
exit 0
