#!/usr/bin/env bash
# C18 finding 5: a Markdown document run with --cram-compat gets no SCRUT_TEST at all.
# usage: repro-5.sh <scrut checkout>     exit 1 = violation shows, exit 0 = it does not
set -u
CO=${1:?path of a scrut checkout}
SCRUT=$CO/target/debug/scrut
if [ ! -x "$SCRUT" ]; then
  (cd "$CO" && CARGO_NET_OFFLINE=true CARGO_TARGET_DIR="$CO/target" cargo build --offline >/dev/null 2>&1) || { echo "build failed"; exit 2; }
fi
W=$(mktemp -d /tmp/c18-repro5.XXXXXX)
mkdir "$W/T" "$W/docs"
cat > "$W/docs/main.md" <<'EOF'
# main

```scrut
$ echo "SCRUT_TEST=${SCRUT_TEST-<unset>}" > "$OUT"
```
EOF
OUT="$W/plain.txt" TMPDIR="$W/T" "$SCRUT" test "$W/docs/main.md" >/dev/null 2>&1
OUT="$W/compat.txt" TMPDIR="$W/T" "$SCRUT" test --cram-compat "$W/docs/main.md" >/dev/null 2>&1
p=$(cat "$W/plain.txt" 2>/dev/null); c=$(cat "$W/compat.txt" 2>/dev/null)
echo "without --cram-compat: $p"
echo "with    --cram-compat: $c"
rm -rf "$W"
case "$c" in
  SCRUT_TEST=*main.md:4) echo "SCRUT_TEST is set"; exit 0;;
  *) echo "VIOLATION: Markdown test case without SCRUT_TEST=<path>:<line>"; exit 1;;
esac
