#!/usr/bin/env bash
# C18 finding 6: for test cases of prepended/appended documents SCRUT_TEST pairs the path of
# the MAIN document with the line number in the OTHER document: a location where no test is.
# usage: repro-6.sh <scrut checkout>     exit 1 = violation shows, exit 0 = it does not
set -u
CO=${1:?path of a scrut checkout}
SCRUT=$CO/target/debug/scrut
if [ ! -x "$SCRUT" ]; then
  (cd "$CO" && CARGO_NET_OFFLINE=true CARGO_TARGET_DIR="$CO/target" cargo build --offline >/dev/null 2>&1) || { echo "build failed"; exit 2; }
fi
W=$(mktemp -d /tmp/c18-repro6.XXXXXX)
mkdir -p "$W/T" "$W/docs/sub"
cat > "$W/docs/main.md" <<'EOF'
# main

filler

filler

```scrut
$ echo "$SCRUT_TEST" > "$OUT_MAIN"
```
EOF
cat > "$W/docs/sub/pre.md" <<'EOF'
```scrut
$ echo "$SCRUT_TEST" > "$OUT_PRE"
```
EOF
(cd "$W" && OUT_MAIN="$W/main.txt" OUT_PRE="$W/pre.txt" TMPDIR="$W/T" "$SCRUT" test --prepend-test-file-paths docs/sub/pre.md -- docs/main.md >/dev/null 2>&1)
m=$(cat "$W/main.txt" 2>/dev/null); p=$(cat "$W/pre.txt" 2>/dev/null)
echo "test case at docs/main.md:8    has SCRUT_TEST=$m"
echo "test case at docs/sub/pre.md:2 has SCRUT_TEST=$p"
rm -rf "$W"
case "$p" in
  *pre.md:2) echo "SCRUT_TEST names the location of the test case"; exit 0;;
  *) echo "VIOLATION: SCRUT_TEST of the prepended test case is not <its path>:<its line>"; exit 1;;
esac
