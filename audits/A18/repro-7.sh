#!/usr/bin/env bash
# C18 finding 7: TESTDIR / TESTFILE are converted lossily: for a document whose path is not
# valid UTF-8, "$TESTDIR/$TESTFILE" names a file that does not exist (no error, no warning).
# usage: repro-7.sh <scrut checkout>     exit 1 = violation shows, exit 0 = it does not
set -u
CO=${1:?path of a scrut checkout}
SCRUT=$CO/target/debug/scrut
if [ ! -x "$SCRUT" ]; then
  (cd "$CO" && CARGO_NET_OFFLINE=true CARGO_TARGET_DIR="$CO/target" cargo build --offline >/dev/null 2>&1) || { echo "build failed"; exit 2; }
fi
W=$(mktemp -d /tmp/c18-repro7.XXXXXX)
mkdir "$W/T"
D="$W/$(printf 'dir\377')"
mkdir "$D" 2>/dev/null || { echo "file system refuses non-UTF-8 names: cannot show"; rm -rf "$W"; exit 0; }
F="$D/$(printf 'na\377me.md')"
cat > "$F" <<'EOF'
```scrut
$ if [ -f "$TESTDIR/$TESTFILE" ]; then echo exists; else echo missing; fi > "$OUT"
```
EOF
OUT="$W/out.txt" TMPDIR="$W/T" "$SCRUT" test "$F" >/dev/null 2>&1
code=$?
r=$(cat "$W/out.txt" 2>/dev/null)
echo "scrut exit code $code; \$TESTDIR/\$TESTFILE: ${r:-<test did not run>}"
rm -rf "$W"
if [ "$r" = missing ]; then
  echo "VIOLATION: TESTDIR/TESTFILE do not name the document that is being run"
  exit 1
fi
echo "not shown"
exit 0
