# sourced by the repro scripts: builds scrut in checkout $1 (if needed), sets $SCRUT
set -u
REPO="${1:?usage: $0 <path of scrut checkout>}"
REPO="$(cd "$REPO" && pwd)"
export CARGO_NET_OFFLINE=true
export CARGO_TARGET_DIR="$REPO/target"
build_scrut() {
    (cd "$REPO" && cargo build --offline >/dev/null 2>&1) || { echo "build failed" >&2; exit 2; }
    SCRUT="$REPO/target/debug/scrut"
    [ -x "$SCRUT" ] || { echo "no binary at $SCRUT" >&2; exit 2; }
}
# run_lib_test <file.rs content on stdin> : drops an integration test into $REPO/tests, runs it, removes it
run_lib_test() {
    name="$1"
    created_dir=0
    [ -d "$REPO/tests" ] || { mkdir "$REPO/tests"; created_dir=1; }
    cat > "$REPO/tests/$name.rs"
    cleanup() { rm -f "$REPO/tests/$name.rs"; [ "$created_dir" = 1 ] && rmdir "$REPO/tests" 2>/dev/null; true; }
    trap cleanup EXIT
    (cd "$REPO" && RUST_BACKTRACE=0 cargo test --offline --test "$name" -- --nocapture --test-threads=1 2>&1)
}
