#!/usr/bin/env bash
# C19 finding 1: the monochrome pretty rendering loses control characters of an
# unmatched `(escaped)` expectation and, after ESC P / ESC ] / ESC X / ESC ^ / ESC _,
# everything that follows (later failure sections, the summary).
. "$(dirname "$0")/common.sh"
build_scrut
W="$(mktemp -d)"; trap 'rm -rf "$W"' EXIT
cd "$W"
printf '# Doc\n\n## first\n\n```scrut\n$ printf '"'"'a\\tc\\n'"'"'\na\tb (escaped)\n```\n\n## second\n\n```scrut\n$ echo foo\n\033Pq#0 (escaped)\n```\n\n## third\n\n```scrut\n$ echo real-output\nthird-expectation\n```\n' > t.md
OUT="$("$SCRUT" test --no-color -r pretty t.md 2>/dev/null)"
echo "$OUT" | cat -v
bad=0
# (a) the tab of the unmatched expectation `a<TAB>b (escaped)` is gone
printf '%s\n' "$OUT" | grep -qF -e "$(printf -- '- a\tb (escaped)')" || { echo ">> unmatched expectation 'a<TAB>b (escaped)' not in the rendering (shown without its tab)"; bad=1; }
# (b) everything after ESC P is gone
printf '%s\n' "$OUT" | grep -qF -e '+ foo'           || { echo ">> unexpected output line 'foo' of test 2 missing"; bad=1; }
printf '%s\n' "$OUT" | grep -q 'third-expectation' || { echo ">> unmatched expectation of test 3 missing"; bad=1; }
printf '%s\n' "$OUT" | grep -q 'real-output'       || { echo ">> unexpected output line of test 3 missing"; bad=1; }
exit $bad
