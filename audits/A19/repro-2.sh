#!/usr/bin/env bash
# C19 finding 2: a detached test case (not a test, never evaluated) gets a failure
# section in every renderer when a later test case of the document times out.
. "$(dirname "$0")/common.sh"
build_scrut
W="$(mktemp -d)"; trap 'rm -rf "$W"' EXIT
cd "$W"
cat > t.md <<'DOC'
# Doc

## detached server

```scrut {detached: true}
$ sleep 0.1 &
```

## times out

```scrut {timeout: 1s}
$ sleep 3
```
DOC
bad=0
P="$("$SCRUT" test --no-color -r pretty t.md 2>/dev/null)"
D="$("$SCRUT" test --no-color -r diff t.md 2>/dev/null)"
J="$("$SCRUT" test --no-color -r json t.md 2>/dev/null)"
echo "$P"; echo "$D"
printf '%s\n' "$P" | grep -q '# detached server' && { echo ">> pretty: failure section for the detached test case"; bad=1; }
printf '%s\n' "$D" | grep -q 'invalid exit code: detached server' && { echo ">> diff: hunk (+[-100]) for the detached test case"; bad=1; }
printf '%s\n' "$J" | grep -q '"kind":"invalid_exit_code","actual":-100' && { echo ">> json: invalid_exit_code -100 for the detached test case"; bad=1; }
exit $bad
