#!/usr/bin/env bash
# C19 finding 3: the pretty renderer panics on diff shapes / settings that the
# library API admits (index arithmetic without checks).
. "$(dirname "$0")/common.sh"
OUT="$(run_lib_test audit_c19_pretty_panics <<'RS'
use std::panic::{catch_unwind, AssertUnwindSafe};
use scrut::diff::{Diff, DiffLine};
use scrut::escaping::Escaper;
use scrut::expectation::{Expectation, ExpectationMaker};
use scrut::outcome::Outcome;
use scrut::parsers::parser::ParserType;
use scrut::renderers::pretty::{PrettyColorRenderer, PrettyMonochromeRenderer};
use scrut::renderers::renderer::Renderer;
use scrut::rules::registry::RuleRegistry;
use scrut::testcase::{TestCase, TestCaseError};

fn pretty(surrounding: usize) -> PrettyMonochromeRenderer {
    PrettyMonochromeRenderer::new(PrettyColorRenderer {
        max_surrounding_lines: surrounding,
        absolute_line_numbers: false,
        summarize: true,
    })
}
fn outcome(lines: Vec<DiffLine>, expectations: Vec<Expectation>) -> Outcome {
    Outcome {
        location: None,
        output: ("out\n", "").into(),
        testcase: TestCase { title: "t".into(), shell_expression: "cmd".into(), expectations, line_number: 3, ..Default::default() },
        format: ParserType::Markdown,
        escaping: Escaper::default(),
        result: Err(TestCaseError::MalformedOutput(Diff::new(lines))),
    }
}
#[test]
fn pretty_panics() {
    let maker = ExpectationMaker::new(RuleRegistry::default());
    let foo = maker.parse("foo").unwrap();
    let bar = maker.parse("bar").unwrap();
    let cases: Vec<(&str, usize, Outcome)> = vec![
        ("A: output line index has more digits than the number of lines in the diff", 5,
            outcome(vec![DiffLine::UnexpectedLines { lines: vec![(99, b"late line\n".to_vec())] }], vec![])),
        ("B: expectation index has more digits than the test case has expectations", 5,
            outcome(vec![DiffLine::UnmatchedExpectation { index: 11, expectation: foo.clone() }], vec![])),
        ("C: matched (non-multiline) expectation without lines", 5,
            outcome(vec![
                DiffLine::MatchedExpectation { index: 0, expectation: foo.clone(), lines: vec![] },
                DiffLine::UnexpectedLines { lines: vec![(0, b"x\n".to_vec())] }], vec![foo.clone()])),
        ("D: max_surrounding_lines = usize::MAX ('all context')", usize::MAX,
            outcome(vec![
                DiffLine::MatchedExpectation { index: 0, expectation: bar.clone(), lines: vec![(0, b"bar\n".to_vec())] },
                DiffLine::UnmatchedExpectation { index: 1, expectation: foo.clone() },
                DiffLine::MatchedExpectation { index: 2, expectation: bar.clone(), lines: vec![(1, b"bar\n".to_vec())] }],
                vec![bar.clone(), foo.clone(), bar.clone()])),
    ];
    let mut panics = 0;
    for (name, surrounding, o) in &cases {
        let r = catch_unwind(AssertUnwindSafe(|| pretty(*surrounding).render(&[o])));
        println!("\nCASE {name}: {}", if r.is_err() { "PANIC" } else { "ok" });
        if r.is_err() { panics += 1; }
    }
    println!("\nPANICS={panics}");
}
RS
)"
echo "$OUT" | grep -E "^CASE|^PANICS=|panicked at src" 
echo "$OUT" | grep -q '^PANICS=0$' && exit 0
echo "$OUT" | grep -q '^PANICS=' || { echo "test did not run" >&2; exit 2; }
exit 1
