#!/usr/bin/env bash
# C19 finding 4: the diff renderer returns an error (no rendering) for a list of
# outcomes in which some have a location and some have none.
. "$(dirname "$0")/common.sh"
OUT="$(run_lib_test audit_c19_diff_mixed <<'RS'
use scrut::escaping::Escaper;
use scrut::outcome::Outcome;
use scrut::parsers::parser::ParserType;
use scrut::renderers::diff::DiffRenderer;
use scrut::renderers::renderer::Renderer;
use scrut::testcase::{TestCase, TestCaseError};

fn outcome(location: Option<&str>, result: Result<(), TestCaseError>) -> Outcome {
    Outcome {
        location: location.map(|s| s.to_string()),
        output: ("out\n", "").into(),
        testcase: TestCase { title: "t".into(), shell_expression: "cmd".into(), line_number: 3, ..Default::default() },
        format: ParserType::Markdown,
        escaping: Escaper::default(),
        result,
    }
}
#[test]
fn diff_mixed_locations() {
    let a = outcome(Some("a.md"), Err(TestCaseError::InvalidExitCode { actual: 1, expected: 0 }));
    let b = outcome(None, Ok(()));
    match DiffRenderer::new().render(&[&a, &b]) {
        Ok(s) => println!("\nRESULT=ok\n{s}"),
        Err(e) => println!("\nRESULT=err: {e}"),
    }
}
RS
)"
echo "$OUT" | grep "^RESULT="
echo "$OUT" | grep -q '^RESULT=ok' && exit 0
echo "$OUT" | grep -q '^RESULT=err' && exit 1
echo "test did not run" >&2; exit 2
