#!/usr/bin/env bash
# C19 finding 5: a test case that fails on its exit code (or times out) is rendered
# without its unmatched expectations; the diff rendering also lacks its
# unexpected output lines (for a timeout it says nothing at all).
. "$(dirname "$0")/common.sh"
build_scrut
W="$(mktemp -d)"; trap 'rm -rf "$W"' EXIT
cd "$W"
cat > t.md <<'DOC'
# Doc

## wrong exit and wrong output

```scrut
$ echo actual-line; exit 3
expected-line
```

## timeout

```scrut {timeout: 1s}
$ echo partial; sleep 3
partial
never-printed
```
DOC
bad=0
P="$("$SCRUT" test --no-color -r pretty t.md 2>/dev/null)"
D="$("$SCRUT" test --no-color -r diff t.md 2>/dev/null)"
echo "$P"; echo "$D"
printf '%s\n' "$P" | grep -q 'expected-line' || { echo ">> pretty: unmatched expectation 'expected-line' missing"; bad=1; }
printf '%s\n' "$P" | grep -q 'never-printed' || { echo ">> pretty: unmatched expectation 'never-printed' (timeout) missing"; bad=1; }
printf '%s\n' "$D" | grep -q 'expected-line' || { echo ">> diff: unmatched expectation 'expected-line' missing"; bad=1; }
printf '%s\n' "$D" | grep -q 'actual-line'   || { echo ">> diff: unexpected output line 'actual-line' missing"; bad=1; }
printf '%s\n' "$D" | grep -q 'never-printed\|timeout' || { echo ">> diff: the timed out test case is not mentioned at all"; bad=1; }
exit $bad
