#!/usr/bin/env bash
# C19 finding 6: trailing Unicode whitespace other than space / tab is replaced by
# one and the same placeholder, so the pretty rendering does not contain the line
# and lines that differ only there render identically.
. "$(dirname "$0")/common.sh"
build_scrut
W="$(mktemp -d)"; trap 'rm -rf "$W"' EXIT
cd "$W"
# expectation ends in U+00A0 (no-break space), output ends in U+3000 (ideographic space)
printf '# Doc\n\n```scrut\n$ printf '"'"'value\\343\\200\\200\\n'"'"'\nvalue\302\240\n```\n' > t.md
P="$("$SCRUT" test --no-color -r pretty t.md 2>/dev/null)"
echo "$P"
bad=0
printf '%s\n' "$P" | grep -q "$(printf 'value\343\200\200')" || { echo ">> unexpected output line 'value<U+3000>' not contained"; bad=1; }
printf '%s\n' "$P" | grep -q "$(printf 'value\302\240')"     || { echo ">> unmatched expectation 'value<U+00A0>' not contained"; bad=1; }
m="$(printf '%s\n' "$P" | grep -c 'value⍰')"
[ "$m" = 2 ] && echo ">> both sides are shown as 'value⍰': the difference is invisible"
exit $bad
