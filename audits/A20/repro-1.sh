#!/bin/bash
# usage: repro-N.sh <path of a scrut checkout>; exit 1 = the violation shows, exit 0 = it does not, 2 = could not build
CO=${1:?usage: $0 <scrut checkout>}
CO=$(cd "$CO" && pwd) || exit 2
(cd "$CO" && CARGO_NET_OFFLINE=true CARGO_TARGET_DIR="$CO/target" cargo build --offline >/dev/null 2>&1) || { echo "build failed" >&2; exit 2; }
S="$CO/target/debug/scrut"
export RUST_BACKTRACE=0
W=$(mktemp -d /tmp/c20-repro.XXXXXX); trap 'rm -rf "$W"' EXIT
cd "$W" || exit 2
# A shell killed by a signal in one test case: the following test cases are never executed, but reported as failed
cat > kill.md <<'DOC'
# Kill

## first

```scrut
$ echo one >> "$TESTDIR/log.txt"; echo one
one
```

## dies

```scrut
$ echo two >> "$TESTDIR/log.txt"; kill -9 $$
```

## third

```scrut
$ echo three >> "$TESTDIR/log.txt"; echo three
three
```

## fourth

```scrut
$ echo four >> "$TESTDIR/log.txt"; echo four
four
```
DOC
out=$("$S" test --no-color kill.md 2>&1); rc=$?
echo "$out" | tail -1; echo "exit=$rc; executed: $(tr '\n' ' ' < log.txt)"
# expected: third and fourth are executed (or, at the very least, reported as skipped, not failed)
if ! grep -q three log.txt && echo "$out" | grep -q '3 failed'; then
  echo "VIOLATION: 'third' and 'fourth' were never executed, yet reported as failed"; exit 1
fi
exit 0
