#!/bin/bash
# usage: repro-N.sh <path of a scrut checkout>; exit 1 = the violation shows, exit 0 = it does not, 2 = could not build
CO=${1:?usage: $0 <scrut checkout>}
CO=$(cd "$CO" && pwd) || exit 2
(cd "$CO" && CARGO_NET_OFFLINE=true CARGO_TARGET_DIR="$CO/target" cargo build --offline >/dev/null 2>&1) || { echo "build failed" >&2; exit 2; }
S="$CO/target/debug/scrut"
export RUST_BACKTRACE=0
W=$(mktemp -d /tmp/c20-repro.XXXXXX); trap 'rm -rf "$W"' EXIT
cd "$W" || exit 2
# A dangling symbolic link that is no test document (e.g. an Emacs lock file .#a.md) in a directory: exit 1, nothing runs
mkdir d
printf '# A\n\n```scrut\n$ echo a\na\n```\n' > d/a.md
ln -s nobody@host.1234 'd/.#notes.txt'
out=$("$S" test --no-color d 2>&1); rc=$?
echo "$out" | head -6; echo "exit=$rc"
if [ $rc -eq 1 ]; then echo "VIOLATION: exit 1 although every document is readable"; exit 1; fi
exit 0
