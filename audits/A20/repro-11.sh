#!/bin/bash
# usage: repro-N.sh <path of a scrut checkout>; exit 1 = the violation shows, exit 0 = it does not, 2 = could not build
CO=${1:?usage: $0 <scrut checkout>}
CO=$(cd "$CO" && pwd) || exit 2
(cd "$CO" && CARGO_NET_OFFLINE=true CARGO_TARGET_DIR="$CO/target" cargo build --offline >/dev/null 2>&1) || { echo "build failed" >&2; exit 2; }
S="$CO/target/debug/scrut"
export RUST_BACKTRACE=0
W=$(mktemp -d /tmp/c20-repro.XXXXXX); trap 'rm -rf "$W"' EXIT
cd "$W" || exit 2
# A document that is given twice (directory and file in it) is executed twice and reported twice
mkdir d
printf '# A\n\n```scrut\n$ echo a >> "$TESTDIR/count.log"\n```\n' > d/a.md
out=$("$S" test --no-color d d/a.md 2>&1); rc=$?
echo "$out" | tail -1; echo "exit=$rc; executions: $(wc -l < d/count.log)"
if [ "$(wc -l < d/count.log)" -ne 1 ]; then echo "VIOLATION: test case executed more than once"; exit 1; fi
exit 0
