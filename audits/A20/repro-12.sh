#!/bin/bash
# usage: repro-N.sh <path of a scrut checkout>; exit 1 = the violation shows, exit 0 = it does not, 2 = could not build
CO=${1:?usage: $0 <scrut checkout>}
CO=$(cd "$CO" && pwd) || exit 2
(cd "$CO" && CARGO_NET_OFFLINE=true CARGO_TARGET_DIR="$CO/target" cargo build --offline >/dev/null 2>&1) || { echo "build failed" >&2; exit 2; }
S="$CO/target/debug/scrut"
export RUST_BACKTRACE=0
W=$(mktemp -d /tmp/c20-repro.XXXXXX); trap 'rm -rf "$W"' EXIT
cd "$W" || exit 2
# Standard output cannot be written (closed pipe, full device): panic, exit 101 -- neither 0 nor 50 nor 1
printf '# F\n\n```scrut\n$ echo a\nb\n```\n' > fail.md
"$S" test --no-color fail.md > /dev/full 2>err.txt; rc=$?
head -3 err.txt; echo "exit=$rc"
case $rc in 0|1|50) exit 0;; *) echo "VIOLATION: exit status $rc"; exit 1;; esac
