#!/bin/bash
# usage: repro-N.sh <path of a scrut checkout>; exit 1 = the violation shows, exit 0 = it does not, 2 = could not build
CO=${1:?usage: $0 <scrut checkout>}
CO=$(cd "$CO" && pwd) || exit 2
(cd "$CO" && CARGO_NET_OFFLINE=true CARGO_TARGET_DIR="$CO/target" cargo build --offline >/dev/null 2>&1) || { echo "build failed" >&2; exit 2; }
S="$CO/target/debug/scrut"
export RUST_BACKTRACE=0
W=$(mktemp -d /tmp/c20-repro.XXXXXX); trap 'rm -rf "$W"' EXIT
cd "$W" || exit 2
# Very long timeouts (command line or front-matter): panic "overflow when adding duration to instant", exit 101
printf '# P\n\n```scrut\n$ echo a\na\n```\n' > pass.md
"$S" test --no-color --timeout-seconds 18446744073709551615 pass.md >/dev/null 2>err.txt; rc1=$?
head -3 err.txt; echo "--timeout-seconds 18446744073709551615: exit=$rc1"
printf -- '---\ntotal_timeout: 18446744073709551615s\n---\n\n# P\n\n```scrut\n$ echo a\na\n```\n' > fm.md
"$S" test --no-color fm.md >/dev/null 2>err.txt; rc2=$?
echo "total_timeout: 18446744073709551615s: exit=$rc2"
for rc in $rc1 $rc2; do case $rc in 0|1|50) ;; *) echo "VIOLATION: exit status $rc"; exit 1;; esac; done
exit 0
