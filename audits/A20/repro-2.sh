#!/bin/bash
# usage: repro-N.sh <path of a scrut checkout>; exit 1 = the violation shows, exit 0 = it does not, 2 = could not build
CO=${1:?usage: $0 <scrut checkout>}
CO=$(cd "$CO" && pwd) || exit 2
(cd "$CO" && CARGO_NET_OFFLINE=true CARGO_TARGET_DIR="$CO/target" cargo build --offline >/dev/null 2>&1) || { echo "build failed" >&2; exit 2; }
S="$CO/target/debug/scrut"
export RUST_BACKTRACE=0
W=$(mktemp -d /tmp/c20-repro.XXXXXX); trap 'rm -rf "$W"' EXIT
cd "$W" || exit 2
# Documents whose file name matches neither glob are dropped without a word: given documents, prepend and append
cat > fail.txt <<'DOC'
# Fails

```scrut
$ echo a
b
```
DOC
"$S" test --no-color fail.txt; rc1=$?
echo "given document fail.txt (its only test case must fail): exit=$rc1"

cat > teardown.sh.txt <<'DOC'
# Teardown

```scrut
$ echo teardown >> "$TESTDIR/run.log"
```
DOC
cat > main.md <<'DOC'
---
append:
  - teardown.sh.txt
---

# Main

```scrut
$ echo main >> "$TESTDIR/run.log"
```
DOC
"$S" test --no-color main.md; rc2=$?
echo "main.md with append teardown.sh.txt: exit=$rc2; executed: $(tr '\n' ' ' < run.log)"
v=0
[ $rc1 -eq 0 ] && { echo "VIOLATION: given document silently not executed, exit 0"; v=1; }
[ $rc2 -eq 0 ] && ! grep -q teardown run.log && { echo "VIOLATION: append document silently not executed, exit 0"; v=1; }
exit $v
