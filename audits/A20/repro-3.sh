#!/bin/bash
# usage: repro-N.sh <path of a scrut checkout>; exit 1 = the violation shows, exit 0 = it does not, 2 = could not build
CO=${1:?usage: $0 <scrut checkout>}
CO=$(cd "$CO" && pwd) || exit 2
(cd "$CO" && CARGO_NET_OFFLINE=true CARGO_TARGET_DIR="$CO/target" cargo build --offline >/dev/null 2>&1) || { echo "build failed" >&2; exit 2; }
S="$CO/target/debug/scrut"
export RUST_BACKTRACE=0
W=$(mktemp -d /tmp/c20-repro.XXXXXX); trap 'rm -rf "$W"' EXIT
cd "$W" || exit 2
# Cram document: a test case that calls `exit` makes scrut exit 1 and drop all results (also those of other documents)
printf 'first:\n  $ echo one\n  one\n\nsecond:\n  $ exit 3\n  [3]\n\nthird:\n  $ echo three\n  three\n' > exit.t
printf '# ok\n\n```scrut\n$ echo fine\nfine\n```\n' > a_ok.md
out=$("$S" test --no-color a_ok.md exit.t 2>&1); rc=$?
echo "$out" | head -3; echo "exit=$rc"
# the same test cases in a Markdown document: exit 50 (third is reported), never 1
if [ $rc -eq 1 ]; then echo "VIOLATION: exit 1 (scrut error) for a readable, parsable document and a working shell; no result reported"; exit 1; fi
exit 0
