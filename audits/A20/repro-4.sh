#!/bin/bash
# usage: repro-N.sh <path of a scrut checkout>; exit 1 = the violation shows, exit 0 = it does not, 2 = could not build
CO=${1:?usage: $0 <scrut checkout>}
CO=$(cd "$CO" && pwd) || exit 2
(cd "$CO" && CARGO_NET_OFFLINE=true CARGO_TARGET_DIR="$CO/target" cargo build --offline >/dev/null 2>&1) || { echo "build failed" >&2; exit 2; }
S="$CO/target/debug/scrut"
export RUST_BACKTRACE=0
W=$(mktemp -d /tmp/c20-repro.XXXXXX); trap 'rm -rf "$W"' EXIT
cd "$W" || exit 2
# Markdown document prepended to a Cram document (and per-test-case configuration under --cram-compat): exit 1
printf '# setup\n\n```scrut\n$ export FOO=bar\n```\n' > setup.md
printf 'main:\n  $ echo "FOO=$FOO"\n  FOO=bar\n' > main.t
out=$("$S" test --no-color -P setup.md -- main.t 2>&1); rc1=$?
echo "$out" | head -2; echo "md prepended to cram: exit=$rc1"
cat > det.md <<'DOC'
# Detached

```scrut {detached: true}
$ sleep 0.1
```

```scrut
$ echo hello
hello
```
DOC
"$S" test --no-color det.md >/dev/null 2>&1; rc2=$?
out=$("$S" test --no-color --cram-compat det.md 2>&1); rc3=$?
echo "$out" | head -2; echo "det.md: exit=$rc2, with --cram-compat: exit=$rc3"
if [ $rc1 -eq 1 ] || [ $rc3 -eq 1 ]; then echo "VIOLATION: exit 1 although every document is readable and parsable and the shell starts"; exit 1; fi
exit 0
