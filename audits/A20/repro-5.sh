#!/bin/bash
# usage: repro-N.sh <path of a scrut checkout>; exit 1 = the violation shows, exit 0 = it does not, 2 = could not build
CO=${1:?usage: $0 <scrut checkout>}
CO=$(cd "$CO" && pwd) || exit 2
(cd "$CO" && CARGO_NET_OFFLINE=true CARGO_TARGET_DIR="$CO/target" cargo build --offline >/dev/null 2>&1) || { echo "build failed" >&2; exit 2; }
S="$CO/target/debug/scrut"
export RUST_BACKTRACE=0
W=$(mktemp -d /tmp/c20-repro.XXXXXX); trap 'rm -rf "$W"' EXIT
cd "$W" || exit 2
# A detached test case is reported as FAILED (exit code -100) when a later test case of the document times out
cat > det_to.md <<'DOC'
# Detached then timeout

## server

```scrut {detached: true}
$ sleep 0.1
```

## ok

```scrut
$ echo hello
hello
```

## hangs

```scrut {timeout: 1s}
$ sleep 5
```

## after

```scrut
$ echo after
after
```
DOC
out=$("$S" test --no-color det_to.md 2>&1); rc=$?
echo "$out" | grep -E 'actual|^Result'; echo "exit=$rc"
# expected: 1 succeeded, 1 failed (the timeout), 1 skipped; nothing (or at most "skipped") for the detached one
if echo "$out" | grep -q 'actual: *-100'; then echo "VIOLATION: detached test case validated and counted as failed"; exit 1; fi
exit 0
