#!/bin/bash
# usage: repro-N.sh <path of a scrut checkout>; exit 1 = the violation shows, exit 0 = it does not, 2 = could not build
CO=${1:?usage: $0 <scrut checkout>}
CO=$(cd "$CO" && pwd) || exit 2
(cd "$CO" && CARGO_NET_OFFLINE=true CARGO_TARGET_DIR="$CO/target" cargo build --offline >/dev/null 2>&1) || { echo "build failed" >&2; exit 2; }
S="$CO/target/debug/scrut"
export RUST_BACKTRACE=0
W=$(mktemp -d /tmp/c20-repro.XXXXXX); trap 'rm -rf "$W"' EXIT
cd "$W" || exit 2
# Documents of a directory (here: a prepend directory with numbered steps) run in raw readdir order, not in a defined one
mkdir steps
for n in 07 02 09 04 01 10 05 03 08 06; do
  printf '# step %s\n\n```scrut\n$ echo %s >> "$TESTDIR/order.log"\n```\n' $n $n > steps/step$n.md
done
printf -- '---\nprepend: [steps]\n---\n\n# main\n\n```scrut\n$ echo main >> "$TESTDIR/order.log"\n```\n' > main.md
"$S" test --no-color main.md >/dev/null 2>&1; rc=$?
got=$(tr '\n' ' ' < order.log); echo "exit=$rc order: $got"
if [ "$got" != "01 02 03 04 05 06 07 08 09 10 main " ]; then echo "VIOLATION: prepend steps executed in file-system order"; exit 1; fi
exit 0
