#!/bin/bash
# usage: repro-N.sh <path of a scrut checkout>; exit 1 = the violation shows, exit 0 = it does not, 2 = could not build
CO=${1:?usage: $0 <scrut checkout>}
CO=$(cd "$CO" && pwd) || exit 2
(cd "$CO" && CARGO_NET_OFFLINE=true CARGO_TARGET_DIR="$CO/target" cargo build --offline >/dev/null 2>&1) || { echo "build failed" >&2; exit 2; }
S="$CO/target/debug/scrut"
export RUST_BACKTRACE=0
W=$(mktemp -d /tmp/c20-repro.XXXXXX); trap 'rm -rf "$W"' EXIT
cd "$W" || exit 2
# Cram document, per-document timeout: the timeout is pinned on the FIRST test case, executed test cases are reported as skipped
printf 'first:\n  $ echo one\n  one\n\nsecond:\n  $ echo two\n  two\n\nthird:\n  $ sleep 5\n\nfourth:\n  $ echo four\n  four\n' > to.t
out=$("$S" test --no-color --timeout-seconds 1 to.t 2>&1); rc=$?
echo "$out" | grep -E '^// (@|#)|timeout in|^Result'; echo "exit=$rc"
if echo "$out" | grep -q '^// # first:' && ! echo "$out" | grep -q '^// # third:'; then
  echo "VIOLATION: 'first' (ran, printed 'one') reported as timed out; 'second' (ran, passed) and 'third' (the one that hung) reported as skipped"; exit 1
fi
exit 0
