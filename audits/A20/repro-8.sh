#!/bin/bash
# usage: repro-N.sh <path of a scrut checkout>; exit 1 = the violation shows, exit 0 = it does not, 2 = could not build
CO=${1:?usage: $0 <scrut checkout>}
CO=$(cd "$CO" && pwd) || exit 2
(cd "$CO" && CARGO_NET_OFFLINE=true CARGO_TARGET_DIR="$CO/target" cargo build --offline >/dev/null 2>&1) || { echo "build failed" >&2; exit 2; }
S="$CO/target/debug/scrut"
export RUST_BACKTRACE=0
W=$(mktemp -d /tmp/c20-repro.XXXXXX); trap 'rm -rf "$W"' EXIT
cd "$W" || exit 2
# Skipped document: the counters do not add up (skipped counts 1 per document, but N results are reported)
cat > skip.md <<'DOC'
# Skip

```scrut
$ echo one
one
```

```scrut
$ exit 80
```

```scrut
$ echo three
three
```
DOC
out=$("$S" test --no-color --log-level info skip.md 2>&1); rc=$?
echo "$out" | grep -E 'success=|^Result'; echo "exit=$rc"
if ! echo "$out" | grep -q 'success='; then echo "(binary built without logging: cannot observe)"; exit 0; fi
if echo "$out" | grep -q '3 skipped' && echo "$out" | grep -q 'skipped=1 '; then
  echo "VIOLATION: 3 results 'skipped' reported, counter says skipped=1 (success+failed+skipped = 1 for 3 test cases)"; exit 1
fi
exit 0
