#!/bin/bash
# usage: repro-N.sh <path of a scrut checkout>; exit 1 = the violation shows, exit 0 = it does not, 2 = could not build
CO=${1:?usage: $0 <scrut checkout>}
CO=$(cd "$CO" && pwd) || exit 2
(cd "$CO" && CARGO_NET_OFFLINE=true CARGO_TARGET_DIR="$CO/target" cargo build --offline >/dev/null 2>&1) || { echo "build failed" >&2; exit 2; }
S="$CO/target/debug/scrut"
export RUST_BACKTRACE=0
W=$(mktemp -d /tmp/c20-repro.XXXXXX); trap 'rm -rf "$W"' EXIT
cd "$W" || exit 2
# A test case that was executed and whose output is wrong is reported as skipped (exit 0) when a LATER test case skips
cat > skip.md <<'DOC'
# Skip late

```scrut
$ echo one >> "$TESTDIR/skip.log"; echo one
WRONG
```

```scrut
$ echo two >> "$TESTDIR/skip.log"; exit 80
```

```scrut
$ echo three
three
```
DOC
out=$("$S" test --no-color skip.md 2>&1); rc=$?
echo "$out" | grep -E '^Result'; echo "exit=$rc; executed: $(tr '\n' ' ' < skip.log)"
if [ $rc -eq 0 ] && grep -q one skip.log; then echo "VIOLATION: executed test case with wrong output is not validated; exit 0"; exit 1; fi
exit 0
