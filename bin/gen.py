"""Regenerate coq/theories/gen_*.v from /repo's current sources (constants, tables, template).
Values are computed by the harness, i.e. by calling the very code scrut links; a file is rewritten only
when its content changes, so unchanged sources cause no rebuild."""
import os, re, json, subprocess

HEADER = "(* GENERATED from /repo by bin/gen.py on every run -- do not edit *)\n"


def write_if_changed(path, content):
    old = open(path).read() if os.path.exists(path) else None
    if old != content:
        open(path, 'w').write(content)
        return True
    return False


def regenerate(repo, th, svh=None):
    info = {}
    svh = svh or os.path.join(os.path.dirname(os.path.dirname(os.path.abspath(__file__))), '.build', 'cargo', 'debug', 'svh')
    r = subprocess.run([svh, 'consts'], stdout=subprocess.PIPE, stderr=subprocess.PIPE)
    if r.returncode != 0:
        raise RuntimeError('svh consts failed: ' + r.stderr.decode()[-500:])
    body = r.stdout.decode()
    src = (HEADER + "From Coq Require Import List NArith ZArith Bool.\nImport ListNotations.\nFrom SV Require Import Config.\n"
           "Local Open Scope N_scope.\n\n" + body)
    info['gen_Consts.v'] = 'rewritten' if write_if_changed(os.path.join(th, 'gen_Consts.v'), src) else 'unchanged'
    info['consts'] = [l for l in body.split('\n') if l][:12]
    r = subprocess.run([svh, 'unicode'], stdout=subprocess.PIPE, stderr=subprocess.PIPE)
    if r.returncode != 0:
        raise RuntimeError('svh unicode failed: ' + r.stderr.decode()[-500:])
    src = (HEADER + "From Coq Require Import List NArith.\nImport ListNotations.\nLocal Open Scope N_scope.\n\n" + r.stdout.decode())
    info['gen_Unicode.v'] = 'rewritten' if write_if_changed(os.path.join(th, 'gen_Unicode.v'), src) else 'unchanged'
    # --- the bash script template, its placeholders and the order of the replace chain (source scrape) ---
    tpl = open(os.path.join(repo, 'src/executors/bash_runner.template'), 'rb').read()
    rs = open(os.path.join(repo, 'src/executors/bash_runner.rs')).read()
    body = rs[rs.index('fn run('):] if 'fn run(' in rs else rs
    body = body[:body.index('#[cfg(test)]')] if '#[cfg(test)]' in body else body
    order = re.findall(r'\.replace\(\s*"\{(\w+)\}"', body)
    names = ['state_directory', 'name', 'shell_expression', 'excluded_variables', 'persist_state']
    if sorted(order) != sorted(names):
        raise RuntimeError('cannot scrape the replace chain of BashRunner::run: found %r' % order)
    m = re.search(r'BASH_EXCLUDED_VARIABLES[^=]*=\s*&\[(.*?)\];', rs, re.S)
    if not m:
        raise RuntimeError('cannot scrape BASH_EXCLUDED_VARIABLES')
    excluded = re.findall(r'"([^"]*)"', re.sub(r'//[^\n]*', '', m.group(1)))
    def lst(b):
        return '[' + '; '.join(str(x) for x in b) + ']'
    src = (HEADER + "From Coq Require Import List NArith.\nImport ListNotations.\nLocal Open Scope N_scope.\n\n"
           + "(* src/executors/bash_runner.template, byte for byte *)\nDefinition template : list N := " + lst(tpl) + ".\n\n"
           + "(* placeholder texts, numbered 0 state_directory, 1 name, 2 shell_expression, 3 excluded_variables, 4 persist_state *)\n"
           + "Definition ph_names : list (list N) := [" + '; '.join(lst(('{%s}' % n).encode()) for n in names) + "].\n\n"
           + "(* the order in which BashRunner::run applies .replace(...) *)\nDefinition chain_order : list nat := ["
           + '; '.join(str(names.index(o)) for o in order) + "]%nat.\n\n"
           + "(* BASH_EXCLUDED_VARIABLES.join(\"|\") *)\nDefinition excluded_value : list N := " + lst('|'.join(excluded).encode()) + ".\n"
           + "Definition excluded_names : list (list N) := [" + '; '.join(lst(e.encode()) for e in excluded) + "].\n")
    info['gen_Template.v'] = 'rewritten' if write_if_changed(os.path.join(th, 'gen_Template.v'), src) else 'unchanged'
    info['replace_chain'] = order
    # --- registered expectation kinds (aliases) from RuleRegistry::default ---
    reg = open(os.path.join(repo, 'src/rules/registry.rs')).read()
    dflt = reg[reg.index('impl Default for RuleRegistry'):]
    dflt = dflt[:dflt.index('#[cfg(test)]')] if '#[cfg(test)]' in dflt else dflt
    regs = re.findall(r'\.register\(\s*(\w+)::make\s*,\s*&\[(.*?)\]\s*\)', dflt, re.S)
    ids = {'EqualRule': 0, 'EqualNoEolRule': 1, 'EscapedRule': 2, 'GlobRule': 3, 'RegexRule': 4}
    if not regs or any(r[0] not in ids for r in regs):
        raise RuntimeError('cannot scrape RuleRegistry::default: %r' % regs)
    ents = []
    for rule, names_s in regs:
        for nm in re.findall(r'"([^"]*)"', names_s):
            ents.append('(%s, %d%%nat)' % (lst(nm.encode()), ids[rule]))
    src = (HEADER + "From Coq Require Import List NArith.\nImport ListNotations.\nLocal Open Scope N_scope.\n\n"
           "(* kind names accepted in ` (<kind><quantifier>)`, with the rule they make: 0 equal, 1 no-eol, 2 escaped, 3 glob, 4 regex *)\n"
           "Definition kind_names : list (list N * nat) := [" + '; '.join(ents) + "].\n")
    info['gen_Kinds.v'] = 'rewritten' if write_if_changed(os.path.join(th, 'gen_Kinds.v'), src) else 'unchanged'
    # --- the environment variables every test case gets (build_env_vars in src/bin/utils/environment.rs, source scrape) ---
    envrs = open(os.path.join(repo, 'src/bin/utils/environment.rs')).read()
    if 'fn build_env_vars' not in envrs:
        raise RuntimeError('cannot find build_env_vars')
    fn = envrs[envrs.index('fn build_env_vars'):]
    fn = fn[:fn.index('\nfn ')] if '\nfn ' in fn else fn
    cut = fn.index('if self.cram_compat') if 'if self.cram_compat' in fn else len(fn)
    always, cram = fn[:cut], fn[cut:]
    def pairs(txt):
        out = []
        for m in re.finditer(r'\(\s*"([A-Z_]+)"\.to_string\(\)\s*,\s*(.*?)\)\s*[,)]', txt, re.S):
            lit = re.match(r'^"([^"]*)"\.to_string\(\)?\s*$', m.group(2).strip())
            out.append((m.group(1), lit.group(1) if lit else None))
        return out
    pa, pc = pairs(always), pairs(cram)
    if len(pa) < 4:
        raise RuntimeError('cannot scrape build_env_vars: %r' % pa)
    def ent(pr):
        return '(%s, %s)' % (lst(pr[0].encode()), 'Some ' + lst(pr[1].encode()) if pr[1] is not None else 'None')
    src = (HEADER + "From Coq Require Import List NArith.\nImport ListNotations.\nLocal Open Scope N_scope.\n\n"
           "(* (name, Some literal value | None = computed per document) in the order build_env_vars pushes them *)\n"
           "Definition env_always : list (list N * option (list N)) := [" + '; '.join(ent(x) for x in pa) + "].\n"
           "Definition env_cram_compat : list (list N * option (list N)) := [" + '; '.join(ent(x) for x in pc) + "].\n")
    info['gen_Env.v'] = 'rewritten' if write_if_changed(os.path.join(th, 'gen_Env.v'), src) else 'unchanged'
    info['env_names'] = [x[0] for x in pa] + ['cram:' + x[0] for x in pc]
    # --- humantime (durations of the configuration are written and read by it): the version /repo locks, its unit table
    #     and its calendar constants, scraped from the crate source cargo builds from ---
    lock = open(os.path.join(repo, 'Cargo.lock')).read()
    m = re.search(r'name = "humantime"\nversion = "([^"]+)"', lock)
    if not m:
        raise RuntimeError('humantime is not in Cargo.lock')
    ver = m.group(1)
    import glob as _glob
    home = os.environ.get('CARGO_HOME', os.path.expanduser('~/.cargo'))
    cands = _glob.glob(os.path.join(home, 'registry', 'src', '*', 'humantime-%s' % ver, 'src', 'duration.rs'))
    if not cands:
        raise RuntimeError('humantime-%s source not found under %s' % (ver, home))
    hs = open(cands[0]).read()
    hs = hs[:hs.index('#[cfg(test)]')] if '#[cfg(test)]' in hs else hs
    units = ['Nanosecond', 'Microsecond', 'Millisecond', 'Second', 'Minute', 'Hour', 'Day', 'Week', 'Month', 'Year']
    fs = hs[hs.index('fn from_str'):]
    fs = fs[:fs.index('\n    }\n')]
    table = []
    for arm in re.finditer(r'((?:"[^"]*"\s*\|?\s*)+)=>\s*Ok\(Self::(\w+)\)', fs):
        for nm in re.findall(r'"([^"]*)"', arm.group(1)):
            table.append((nm, units.index(arm.group(2))))
    if len(table) < 20:
        raise RuntimeError('cannot scrape humantime unit names: %r' % table)
    pu = hs[hs.index('fn parse_unit'):]
    pu = pu[:pu.index('add_current(sec, nsec, out)?;')]
    mults = {}
    for mm in re.finditer(r'Unit::(\w+)\s*=>\s*\((.*?)\),', pu):
        nums = re.findall(r'mul\(([0-9_ *]+)\)', mm.group(2))
        val = 1
        if nums:
            for f in nums[0].replace('_', '').split('*'):
                val *= int(f.strip())
        mults[mm.group(1)] = (val, mm.group(2).strip().startswith('0'))
    if sorted(mults) != sorted(units):
        raise RuntimeError('cannot scrape humantime unit multipliers: %r' % mults)
    fm = hs[hs.index('impl fmt::Display for FormattedDuration'):]
    def const(name):
        mm = re.search(r'let %s = \w+ / ([0-9_]+);' % name, fm)
        if not mm:
            raise RuntimeError('cannot scrape humantime format constant ' + name)
        return int(mm.group(1).replace('_', ''))
    src = (HEADER + "From Coq Require Import List NArith Bool.\nImport ListNotations.\nLocal Open Scope N_scope.\n\n"
           "(* humantime %s, src/duration.rs.  Units are numbered 0 ns, 1 us, 2 ms, 3 s, 4 min, 5 h, 6 day, 7 week, 8 month, 9 year *)\n" % ver
           + "Definition ht_version : list N := " + lst(ver.encode()) + ".\n"
           + "(* Unit::from_str: every accepted unit name *)\nDefinition ht_unit_names : list (list N * N) := ["
           + '; '.join('(%s, %d)' % (lst(nm.encode('utf-8') if all(ord(c) < 128 for c in nm) else [ord(c) for c in nm]), u) for nm, u in table) + "].\n"
           + "(* parse_unit: (unit, multiplier, counts nanoseconds?) *)\nDefinition ht_unit_amounts : list (N * N * bool) := ["
           + '; '.join('(%d, %d, %s)' % (units.index(u), mults[u][0], 'true' if mults[u][1] else 'false') for u in units) + "].\n"
           + "(* Display: seconds per year / month / day / hour *)\nDefinition ht_format_divisors : list N := ["
           + '; '.join(str(const(n)) for n in ['years', 'months', 'days', 'hours']) + "].\n")
    info['gen_Humantime.v'] = 'rewritten' if write_if_changed(os.path.join(th, 'gen_Humantime.v'), src) else 'unchanged'
    info['humantime'] = ver
    return info
