"""Regenerate coq/theories/gen_*.v from /repo's current sources (constants, tables, template).
A file is rewritten only when its content changes, so unchanged sources cause no rebuild."""
import os, re, json


def write_if_changed(path, content):
    old = open(path).read() if os.path.exists(path) else None
    if old != content:
        open(path, 'w').write(content)
        return True
    return False


def regenerate(repo, th):
    info = {}
    return info
