"""Regenerate coq/theories/gen_*.v from /repo's current sources (constants, tables, template).
Values are computed by the harness, i.e. by calling the very code scrut links; a file is rewritten only
when its content changes, so unchanged sources cause no rebuild."""
import os, re, json, subprocess

HEADER = "(* GENERATED from /repo by bin/gen.py on every run -- do not edit *)\n"


def write_if_changed(path, content):
    old = open(path).read() if os.path.exists(path) else None
    if old != content:
        open(path, 'w').write(content)
        return True
    return False


def regenerate(repo, th, svh=None):
    info = {}
    svh = svh or os.path.join(os.path.dirname(os.path.dirname(os.path.abspath(__file__))), '.build', 'cargo', 'debug', 'svh')
    r = subprocess.run([svh, 'consts'], stdout=subprocess.PIPE, stderr=subprocess.PIPE)
    if r.returncode != 0:
        raise RuntimeError('svh consts failed: ' + r.stderr.decode()[-500:])
    body = r.stdout.decode()
    src = (HEADER + "From Coq Require Import List NArith ZArith Bool.\nImport ListNotations.\nFrom SV Require Import Config.\n"
           "Local Open Scope N_scope.\n\n" + body)
    info['gen_Consts.v'] = 'rewritten' if write_if_changed(os.path.join(th, 'gen_Consts.v'), src) else 'unchanged'
    info['consts'] = [l for l in body.split('\n') if l][:12]
    r = subprocess.run([svh, 'unicode'], stdout=subprocess.PIPE, stderr=subprocess.PIPE)
    if r.returncode != 0:
        raise RuntimeError('svh unicode failed: ' + r.stderr.decode()[-500:])
    src = (HEADER + "From Coq Require Import List NArith.\nImport ListNotations.\nLocal Open Scope N_scope.\n\n" + r.stdout.decode())
    info['gen_Unicode.v'] = 'rewritten' if write_if_changed(os.path.join(th, 'gen_Unicode.v'), src) else 'unchanged'
    return info
