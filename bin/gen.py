"""Regenerate coq/theories/gen_*.v from /repo's current sources (constants, tables, template).
Values are computed by the harness, i.e. by calling the very code scrut links; a file is rewritten only
when its content changes, so unchanged sources cause no rebuild."""
import os, re, json, subprocess

HEADER = "(* GENERATED from /repo by bin/gen.py on every run -- do not edit *)\n"


def write_if_changed(path, content):
    old = open(path).read() if os.path.exists(path) else None
    if old != content:
        open(path, 'w').write(content)
        return True
    return False


def regenerate(repo, th, svh=None):
    info = {}
    svh = svh or os.path.join(os.path.dirname(os.path.dirname(os.path.abspath(__file__))), '.build', 'cargo', 'debug', 'svh')
    r = subprocess.run([svh, 'consts'], stdout=subprocess.PIPE, stderr=subprocess.PIPE)
    if r.returncode != 0:
        raise RuntimeError('svh consts failed: ' + r.stderr.decode()[-500:])
    body = r.stdout.decode()
    src = (HEADER + "From Coq Require Import List NArith ZArith Bool.\nImport ListNotations.\nFrom SV Require Import Config.\n"
           "Local Open Scope N_scope.\n\n" + body)
    info['gen_Consts.v'] = 'rewritten' if write_if_changed(os.path.join(th, 'gen_Consts.v'), src) else 'unchanged'
    info['consts'] = [l for l in body.split('\n') if l][:12]
    r = subprocess.run([svh, 'unicode'], stdout=subprocess.PIPE, stderr=subprocess.PIPE)
    if r.returncode != 0:
        raise RuntimeError('svh unicode failed: ' + r.stderr.decode()[-500:])
    src = (HEADER + "From Coq Require Import List NArith.\nImport ListNotations.\nLocal Open Scope N_scope.\n\n" + r.stdout.decode())
    info['gen_Unicode.v'] = 'rewritten' if write_if_changed(os.path.join(th, 'gen_Unicode.v'), src) else 'unchanged'
    # --- the bash script template, its placeholders and the order of the replace chain (source scrape) ---
    tpl = open(os.path.join(repo, 'src/executors/bash_runner.template'), 'rb').read()
    rs = open(os.path.join(repo, 'src/executors/bash_runner.rs')).read()
    body = rs[rs.index('fn run('):] if 'fn run(' in rs else rs
    body = body[:body.index('#[cfg(test)]')] if '#[cfg(test)]' in body else body
    order = re.findall(r'\.replace\(\s*"\{(\w+)\}"', body)
    names = ['state_directory', 'name', 'shell_expression', 'excluded_variables', 'persist_state']
    if sorted(order) != sorted(names):
        raise RuntimeError('cannot scrape the replace chain of BashRunner::run: found %r' % order)
    m = re.search(r'BASH_EXCLUDED_VARIABLES[^=]*=\s*&\[(.*?)\];', rs, re.S)
    if not m:
        raise RuntimeError('cannot scrape BASH_EXCLUDED_VARIABLES')
    excluded = re.findall(r'"([^"]*)"', re.sub(r'//[^\n]*', '', m.group(1)))
    def lst(b):
        return '[' + '; '.join(str(x) for x in b) + ']'
    src = (HEADER + "From Coq Require Import List NArith.\nImport ListNotations.\nLocal Open Scope N_scope.\n\n"
           + "(* src/executors/bash_runner.template, byte for byte *)\nDefinition template : list N := " + lst(tpl) + ".\n\n"
           + "(* placeholder texts, numbered 0 state_directory, 1 name, 2 shell_expression, 3 excluded_variables, 4 persist_state *)\n"
           + "Definition ph_names : list (list N) := [" + '; '.join(lst(('{%s}' % n).encode()) for n in names) + "].\n\n"
           + "(* the order in which BashRunner::run applies .replace(...) *)\nDefinition chain_order : list nat := ["
           + '; '.join(str(names.index(o)) for o in order) + "]%nat.\n\n"
           + "(* BASH_EXCLUDED_VARIABLES.join(\"|\") *)\nDefinition excluded_value : list N := " + lst('|'.join(excluded).encode()) + ".\n"
           + "Definition excluded_names : list (list N) := [" + '; '.join(lst(e.encode()) for e in excluded) + "].\n")
    info['gen_Template.v'] = 'rewritten' if write_if_changed(os.path.join(th, 'gen_Template.v'), src) else 'unchanged'
    info['replace_chain'] = order
    # --- registered expectation kinds (aliases) from RuleRegistry::default ---
    reg = open(os.path.join(repo, 'src/rules/registry.rs')).read()
    dflt = reg[reg.index('impl Default for RuleRegistry'):]
    dflt = dflt[:dflt.index('#[cfg(test)]')] if '#[cfg(test)]' in dflt else dflt
    regs = re.findall(r'\.register\(\s*(\w+)::make\s*,\s*&\[(.*?)\]\s*\)', dflt, re.S)
    ids = {'EqualRule': 0, 'EqualNoEolRule': 1, 'EscapedRule': 2, 'GlobRule': 3, 'RegexRule': 4}
    if not regs or any(r[0] not in ids for r in regs):
        raise RuntimeError('cannot scrape RuleRegistry::default: %r' % regs)
    ents = []
    for rule, names_s in regs:
        for nm in re.findall(r'"([^"]*)"', names_s):
            ents.append('(%s, %d%%nat)' % (lst(nm.encode()), ids[rule]))
    src = (HEADER + "From Coq Require Import List NArith.\nImport ListNotations.\nLocal Open Scope N_scope.\n\n"
           "(* kind names accepted in ` (<kind><quantifier>)`, with the rule they make: 0 equal, 1 no-eol, 2 escaped, 3 glob, 4 regex *)\n"
           "Definition kind_names : list (list N * nat) := [" + '; '.join(ents) + "].\n")
    info['gen_Kinds.v'] = 'rewritten' if write_if_changed(os.path.join(th, 'gen_Kinds.v'), src) else 'unchanged'
    # --- the environment variables every test case gets (build_env_vars in src/bin/utils/environment.rs, source scrape) ---
    envrs = open(os.path.join(repo, 'src/bin/utils/environment.rs')).read()
    if 'fn build_env_vars' not in envrs:
        raise RuntimeError('cannot find build_env_vars')
    fn = envrs[envrs.index('fn build_env_vars'):]
    fn = fn[:fn.index('\nfn ')] if '\nfn ' in fn else fn
    cut = fn.index('if self.cram_compat') if 'if self.cram_compat' in fn else len(fn)
    always, cram = fn[:cut], fn[cut:]
    def pairs(txt):
        out = []
        for m in re.finditer(r'\(\s*"([A-Z_]+)"\.to_string\(\)\s*,\s*(.*?)\)\s*[,)]', txt, re.S):
            lit = re.match(r'^"([^"]*)"\.to_string\(\)?\s*$', m.group(2).strip())
            out.append((m.group(1), lit.group(1) if lit else None))
        return out
    pa, pc = pairs(always), pairs(cram)
    if len(pa) < 4:
        raise RuntimeError('cannot scrape build_env_vars: %r' % pa)
    def ent(pr):
        return '(%s, %s)' % (lst(pr[0].encode()), 'Some ' + lst(pr[1].encode()) if pr[1] is not None else 'None')
    src = (HEADER + "From Coq Require Import List NArith.\nImport ListNotations.\nLocal Open Scope N_scope.\n\n"
           "(* (name, Some literal value | None = computed per document) in the order build_env_vars pushes them *)\n"
           "Definition env_always : list (list N * option (list N)) := [" + '; '.join(ent(x) for x in pa) + "].\n"
           "Definition env_cram_compat : list (list N * option (list N)) := [" + '; '.join(ent(x) for x in pc) + "].\n")
    info['gen_Env.v'] = 'rewritten' if write_if_changed(os.path.join(th, 'gen_Env.v'), src) else 'unchanged'
    info['env_names'] = [x[0] for x in pa] + ['cram:' + x[0] for x in pc]
    return info
