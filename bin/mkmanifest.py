#!/usr/bin/env python3
"""Regenerate MANIFEST.json from the property table (bin/props.py)."""
import json, os, sys
sys.path.insert(0, os.path.dirname(os.path.abspath(__file__)))
import props as P
ROOT = os.path.dirname(os.path.dirname(os.path.abspath(__file__)))
ALL = ['C%02d' % i for i in range(1, 21)]
NOTE = ('Trusted: Coq 8.16.1 kernel (no axioms: every pinned theorem is Closed under the global context unless listed in the evidence); '
        'extraction (ExtrOcamlBasic only) + OCaml driver; the Rust correspondence harness, its generators and canonicalisation; '
        'external crates and bash are exercised through scrut, not verified.')
checks = []
for p in ALL:
    if p not in P.PROPS:
        continue
    m = P.PROPS[p].get('manifest', {})
    checks.append({
        'property_id': p,
        'quick_cmd': 'bin/check %s --tier quick' % p,
        'thorough_cmd': 'bin/check %s --tier thorough' % p,
        'evidence_file': '/verif/evidence/%s.json' % p,
        'replay_cmd_template': 'bin/check %s --replay {path}' % p,
        'engine': 'coq-proof+correspondence',
        'level_claimed': {'category': 'proof', 'text': m.get('text', ''), 'design_ref': 'DESIGN.md 6/' + p},
        'level_note': NOTE + ' ' + m.get('note', ''),
        'technique': m.get('technique', 'Coq proof over an executable model + differential correspondence of the extracted model against the Rust implementation'),
    })
na = [{'property_id': p, 'reason': P.NOT_CLAIMED.get(p, 'check under construction: not yet wired into bin/check')} for p in ALL if p not in P.PROPS]
man = {
    'version': 1,
    'setup_cmd': 'bin/setup',
    'hooks': {'guard': 'scrut_verif',
              'enable': 'none needed: all observation goes through the public library API and the CLI; reserved: RUSTFLAGS="--cfg scrut_verif"',
              'baseline_off_cmd': 'cd /repo && cargo test --workspace --no-fail-fast --offline',
              'source_commits': [], 'add_only': True},
    'engines': [{'name': 'coq-proof+correspondence', 'path': 'bin/check', 'serves_properties': [c['property_id'] for c in checks],
                 'kind_free_text': 'Coq 8.16 theorems over hand-written executable models (+ constants regenerated from /repo); extracted OCaml model run against the '
                                   'Rust implementation on generated inputs; proved boolean oracles evaluated on the implementation\'s results'}],
    'checks': checks,
    'notes': 'see DESIGN.md; fixes to /repo are listed in known_findings.jsonl',
    'not_applicable': na,
}
json.dump(man, open(os.path.join(ROOT, 'MANIFEST.json'), 'w'), indent=1)
print('claimed:', [c['property_id'] for c in checks])
