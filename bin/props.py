"""Property table for bin/check: which Coq file/theorems, which correspondence streams, which driver verdicts count."""
import json, os, re

TRUSTED_BASE = [
    'Coq 8.16.1 kernel (coqc, full .vo build; vm_compute used in Examples; no native_compute)',
    'extraction: ExtrOcamlBasic only (Extract Inductive bool/option/unit/list/prod/sumbool/sumor as shipped; no Extract Constant); nat/positive/N/Z stay Coq datatypes; OCaml 4.13.1; driver/*.ml (line protocol, printing)',
    'correspondence harness /verif/harness (Rust, path dependency on /repo): input generation from one xorshift PRNG, canonicalisation of results',
    'rustc/std semantics of slices, Vec, str; external crates linked by scrut are exercised through scrut, not verified',
]

DIFF_FORMAT = ('case line: "<#expectations> <#lines> <quantifier per expectation: . ? * +> <match matrix row-major, 1 = expectation i matches line j> '
               '<1 = output ends in newline>|<implementation diff: M<i>:<lines>; matched, U<i>; unmatched, X<lines>; unexpected>|<1 = no differences>|<1 = TestCase::validate Ok>"')


def diff_streams(tier):
    if tier == 'quick':
        return [
            dict(name='exhaustive3x3', harness=['diff', 'exh', '3', '3', '{shard}', '{nshards}'], driver='diff'),
            dict(name='random12x20', harness=['diff', 'rand', '12', '20', '24000', '{seed}', '{shard}', '{nshards}'], driver='diff'),
        ]
    if tier == 'extended':
        return [
            dict(name='random6x8', harness=['diff', 'rand', '6', '8', '300000', '{seed}', '{shard}', '{nshards}'], driver='diff'),
            dict(name='random12x20', harness=['diff', 'rand', '12', '20', '300000', '{seed}', '{shard}', '{nshards}'], driver='diff'),
        ]
    return [
        dict(name='exhaustive4x4', harness=['diff', 'exh', '4', '4', '{shard}', '{nshards}'], driver='diff', timeout=3400),
        dict(name='random12x20', harness=['diff', 'rand', '12', '20', '400000', '{seed}', '{shard}', '{nshards}'], driver='diff'),
        dict(name='random30x60', harness=['diff', 'rand', '30', '60', '50000', '{seed}', '{shard}', '{nshards}'], driver='diff'),
    ]


PROPS = {
    'C01': dict(
        theorems=['C01_no_false_pass', 'C01_oracle_exact', 'C01_stream_is_its_lines'],
        streams=diff_streams,
        spec_kinds=['SPEC:C01'], corr_kinds=['DIFF:accept', 'DIFF:validate'],
        case_format=DIFF_FORMAT,
        rule='expectations are built through the public RuleRegistry with a matrix rule, so `matches` realises any boolean matrix; '
             'exhaustive over all (#exp<=3, #lines<=3, quantifier vectors, matrices) plus seeded random up to 12x20 biased towards '
             'nearly-described outputs; a case is non-trivial when it has at least one expectation and one line; distinct by input text',
        exhaustive={'quick': False, 'thorough': False},
        assumptions=['rule semantics are abstract (any `matches` function): C04 covers the concrete rules',
                     'the correspondence compares acceptance (Diff::has_differences and TestCase::validate) of the real DiffTool with the model on every case'],
    ),
    'C02': dict(
        theorems=['C02_conservation', 'C02_terminates', 'C02_oracle_exact', 'C02_bytes_conserved'],
        streams=diff_streams,
        spec_kinds=['SPEC:C02'], corr_kinds=['DIFF:entries'],
        case_format=DIFF_FORMAT,
        rule='same cases as C01; the whole Diff.lines vector (kinds, expectation indices, line indices, line contents) is compared with the model and '
             'the proved boolean conservation_b is evaluated on the implementation\'s diff; panics/errors count as violations',
        exhaustive={'quick': False, 'thorough': False},
        assumptions=['line contents reported by the implementation are checked against the output bytes by the harness'],
    ),
    'C03': dict(
        theorems=['C03_complete_when_deterministic', 'C03_no_quantifiers_deterministic', 'C03_own_lines_pass'],
        streams=diff_streams,
        spec_kinds=['SPEC:C03'], corr_kinds=['DIFF:accept', 'DIFF:validate'],
        case_format=DIFF_FORMAT,
        rule='same cases as C01; on every case where the proved detb holds the implementation must accept iff describedb',
        exhaustive={'quick': False, 'thorough': False},
        assumptions=[],
    ),
}


def run_one(prop, inp, ctx):
    """re-run one case through the implementation and the model; returns CASE lines"""
    cfg = PROPS[prop]
    fam = cfg.get('family', 'diff')
    if fam == 'diff':
        f = inp.split('|')[0].split(' ')
        rc, out = ctx['sh']('%s diff one %s | %s diff' % (ctx['SVH'], ' '.join("'%s'" % x for x in f[:5]), ctx['SVD']))
        return [l for l in out.split('\n') if l.startswith('CASE')], out
    return [], ''


def minimise(prop, case, ctx):
    cfg = PROPS[prop]
    if cfg.get('family', 'diff') != 'diff':
        return case
    kind = case['kind']

    def still(inp):
        ls, _ = run_one(prop, inp, ctx)
        for l in ls:
            f = l.split('\t')
            if f[1] == kind:
                return {'kind': f[1], 'detail': f[2], 'input': '\t'.join(f[3:]), 'stream': case.get('stream')}
        return None
    cur = case
    changed = True
    while changed:
        changed = False
        f = cur['input'].split('|')[0].split(' ')
        ne, nl, q, m, fl = int(f[0]), int(f[1]), f[2], f[3], f[4]
        rows = [m[i * nl:(i + 1) * nl] for i in range(ne)] if ne * nl else [''] * ne
        cands = []
        for i in range(ne):
            r2 = rows[:i] + rows[i + 1:]
            q2 = q[:i] + q[i + 1:]
            cands.append((ne - 1, nl, q2 or '-', ''.join(r2) or '-', fl))
        for j in range(nl):
            r2 = [r[:j] + r[j + 1:] for r in rows]
            cands.append((ne, nl - 1, q if ne else '-', ''.join(r2) or '-', fl))
        for c in cands:
            r = still('%d %d %s %s %s' % c)
            if r:
                cur = r
                changed = True
                break
    return cur


def replay(prop, path, ctx):
    obj = json.load(open(path))
    inp = obj.get('input')
    if not inp:
        print(json.dumps(obj, indent=1))
        return 1
    ls, out = run_one(prop, inp, ctx)
    print(out)
    bad = [l for l in ls if any(l.split('\t')[1].startswith(k) for k in PROPS[prop]['spec_kinds'])]
    if bad:
        print('VIOLATION property=%s replay=%s' % (prop, path))
        return 1
    return 0
