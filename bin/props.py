"""Property table for bin/check: which Coq file/theorems, which correspondence streams, which driver verdicts count."""
import json, os, re

TRUSTED_BASE = [
    'Coq 8.16.1 kernel (coqc, full .vo build; vm_compute used in Examples; no native_compute)',
    'extraction: ExtrOcamlBasic only (Extract Inductive bool/option/unit/list/prod/sumbool/sumor as shipped; no Extract Constant); nat/positive/N/Z stay Coq datatypes; OCaml 4.13.1; driver/*.ml (line protocol, printing)',
    'correspondence harness /verif/harness (Rust, path dependency on /repo): input generation from one xorshift PRNG, canonicalisation of results',
    'rustc/std semantics of slices, Vec, str; external crates linked by scrut are exercised through scrut, not verified',
]

DIFF_FORMAT = ('case line: "<#expectations> <#lines> <quantifier per expectation: . ? * +> <match matrix row-major, 1 = expectation i matches line j> '
               '<1 = output ends in newline>|<implementation diff: M<i>:<lines>; matched, U<i>; unmatched, X<lines>; unexpected>|<1 = no differences>|<1 = TestCase::validate Ok>"'
               '[|<hex expectation lines>;<hex output>  -- real-rules stream: the matrix was measured by calling every expectation on every line]')


def diff_streams(tier):
    if tier == 'quick':
        return [
            dict(name='exhaustive3x3', harness=['diff', 'exh', '3', '3', '{shard}', '{nshards}'], driver='diff'),
            dict(name='random12x20', harness=['diff', 'rand', '12', '20', '24000', '{seed}', '{shard}', '{nshards}'], driver='diff'),
            dict(name='real-rules-on-repeating-text', harness=['diff', 'text', '16000', '{seed}', '{shard}', '{nshards}'], driver='diff'),
        ]
    if tier == 'extended':
        return [
            dict(name='random6x8', harness=['diff', 'rand', '6', '8', '300000', '{seed}', '{shard}', '{nshards}'], driver='diff'),
            dict(name='random12x20', harness=['diff', 'rand', '12', '20', '300000', '{seed}', '{shard}', '{nshards}'], driver='diff'),
            dict(name='real-rules-on-repeating-text', harness=['diff', 'text', '160000', '{seed}', '{shard}', '{nshards}'], driver='diff'),
        ]
    return [
        dict(name='exhaustive4x4', harness=['diff', 'exh', '4', '4', '{shard}', '{nshards}'], driver='diff', timeout=3400),
        dict(name='random12x20', harness=['diff', 'rand', '12', '20', '400000', '{seed}', '{shard}', '{nshards}'], driver='diff'),
        dict(name='random30x60', harness=['diff', 'rand', '30', '60', '50000', '{seed}', '{shard}', '{nshards}'], driver='diff'),
        dict(name='real-rules-on-repeating-text', harness=['diff', 'text', '400000', '{seed}', '{shard}', '{nshards}'], driver='diff'),
    ]


NOT_CLAIMED = {}

PROPS = {
    'C01': dict(
        theorems=['C01_no_false_pass', 'C01_oracle_exact', 'C01_stream_is_its_lines'],
        streams=diff_streams,
        spec_kinds=['SPEC:C01'], corr_kinds=['DIFF:accept', 'DIFF:validate'],
        case_format=DIFF_FORMAT,
        rule='expectations are built through the public RuleRegistry with a matrix rule, so `matches` realises any boolean matrix; '
             'exhaustive over all (#exp<=3, #lines<=3, quantifier vectors, matrices) plus seeded random up to 12x20 biased towards '
             'nearly-described outputs; a case is non-trivial when it has at least one expectation and one line; distinct by input text',
        manifest=dict(text='Machine-checked theorem (Coq): for every expectation list, every rule semantics and every output, acceptance by the model of DiffTool::diff implies membership in e1{q1}..en{qn} (C01_no_false_pass); describedb is proved to decide that language. The model is tied to /repo on every run by running the real DiffTool/TestCase::validate and the extracted model on exhaustive-small and random match matrices; the proved oracle is evaluated on the implementation verdicts.',
                      technique='Coq proof by induction over the matcher loop; differential correspondence of the extracted model against DiffTool::diff; proved DP oracle on implementation verdicts'),
        exhaustive={'quick': False, 'thorough': False},
        assumptions=['rule semantics are abstract (any `matches` function): C04 covers the concrete rules',
                     'the correspondence compares acceptance (Diff::has_differences and TestCase::validate) of the real DiffTool with the model on every case'],
    ),
    'C02': dict(
        theorems=['C02_conservation', 'C02_terminates', 'C02_oracle_exact', 'C02_bytes_conserved'],
        streams=diff_streams,
        spec_kinds=['SPEC:C02'], corr_kinds=['DIFF:entries'],
        case_format=DIFF_FORMAT,
        rule='same cases as C01; the whole Diff.lines vector (kinds, expectation indices, line indices, line contents) is compared with the model and '
             'the proved boolean conservation_b is evaluated on the implementation\'s diff; panics/errors count as violations',
        manifest=dict(text='Machine-checked theorem (Coq): the model of DiffTool::diff terminates (fuel lemma) and its result mentions every line once in order under its own index, expectations at most once in order, non-optional ones exactly once, with well-formed entries (C02_conservation); byte level: the lines are a partition of the stream. Tied to /repo by comparing the full diff vector on every generated case and by evaluating the proved boolean conservation_b on the implementation result.',
                      technique='Coq proof (loop invariant + fuel/termination lemma); differential correspondence on the whole diff vector; proved conservation oracle on implementation diffs'),
        exhaustive={'quick': False, 'thorough': False},
        assumptions=['line contents reported by the implementation are checked against the output bytes by the harness'],
    ),
    'C03': dict(
        theorems=['C03_complete_when_deterministic', 'C03_no_quantifiers_deterministic', 'C03_own_lines_pass'],
        streams=diff_streams,
        spec_kinds=['SPEC:C03'], corr_kinds=['DIFF:accept', 'DIFF:validate'],
        case_format=DIFF_FORMAT,
        rule='same cases as C01; on every case where the proved detb holds the implementation must accept iff describedb',
        manifest=dict(text='Machine-checked theorem (Coq): under one-line-lookahead determinism (detb) the model accepts iff the output is described (C03_complete_when_deterministic), with corollaries for quantifier-free lists and own-lines; the hypothesis is shown necessary by a closed counterexample. Tied to /repo as C01; the oracle detb => (accepts <-> describedb) is evaluated on the implementation.',
                      technique='Coq proof by simulation of the greedy cursor against the unique reading; differential correspondence; proved determinism/description oracles on implementation verdicts'),
        exhaustive={'quick': False, 'thorough': False},
        assumptions=[],
    ),
}


def config_streams(tier):
    n = {'quick': 40000, 'extended': 400000, 'thorough': 2000000}[tier]
    return [dict(name='layers', harness=['config', str(n), '{seed}', '{shard}', '{nshards}'], driver='config')]


PROPS['C16'] = dict(
    family='line',
    theorems=['C16_precedence_scalars', 'C16_precedence_env', 'C16_assoc', 'C16_empty_identity', 'C16_doc_assoc',
              'C16_doc_empty_identity', 'C16_lists_accumulate', 'C16_format_defaults', 'C16_oracle'],
    streams=config_streams,
    spec_kinds=['SPEC:C16'], corr_kinds=['DIFF:'],
    case_format='E cli;tc;doc;fmt;forced|effective  (layers as os= kc= to= de= sk= sa= wa= env=name:value,...; - = unset)  '
                'A a;b;c|(a>b)>c|a>(b>c)|a>empty|empty>a   D doc configs a;b;c|a.with_defaults_from(b)|a.with_overrides_from(b)|left|right   '
                'P inline;document defaults|config of the test case MarkdownParser::parse returns|document defaults it returns',
    rule='exhaustive {unset,A,B}^4 per key (8 keys x 81) through the real with_defaults_from/with_overrides_from composition used by the parser, the test '
         'command and the executor; random layers with 4 densities; associativity/identity triples; DocumentConfig merges with prepend/append lists; '
         'Markdown documents with front-matter defaults + inline config parsed by the real MarkdownParser. Non-trivial: at least two layers set something; distinct by case text',
    manifest=dict(text='Machine-checked theorems (Coq): the composition of the three application sites (parser, test command, executor) yields, for every scalar key and every environment variable, the value of the highest-precedence layer that sets it; layering is associative with the empty layer as identity (test-case and document level); prepend/append accumulate in order; format defaults are pinned against constants regenerated from /repo. Tied to /repo by running the real merge functions and the real MarkdownParser on exhaustive {unset,A,B}^4 per key and random layers.',
                  technique='Coq proof (case analysis over option layers, lookup over insertion sequences) + constants regenerated from source + differential correspondence of the extracted model against config.rs and the Markdown parse site'),
    exhaustive={'quick': False, 'thorough': False},
    assumptions=['command-line layer: exercised through with_overrides_from as bin/commands/test.rs applies it; clap argument parsing itself is not modelled',
                 'format defaults are regenerated from /repo (gen_Consts.v) on every run and pinned by C16_format_defaults'],
)


def exec_stream(tier):
    n = {'quick': 6400, 'extended': 32000, 'thorough': 160000}[tier]
    return dict(name='mock-runner', harness=['exec', str(n), '{seed}', '{shard}', '{nshards}'], driver='exec')


def cli_stream(tier):
    n = {'quick': 160, 'extended': 480, 'thorough': 3200}[tier]
    return dict(name='cli', harness=['cli', str(n), '{seed}', '{shard}', '{nshards}'], driver='cli', timeout=3000)


def validate_stream(tier):
    return dict(name='validate', harness=['validate'], driver='validate', shards=1)


EXEC_FORMAT = ('X <test;test;...: inline config ~-separated + st=<scripted runner status C<code>|T|S|D|U|E> sl=<sleep ms>>|<document config>|'
               '<executor result: OK statuses | SKIP i | TIMEOUT T|I<i> statuses | FAILED i>|<what the mock runner saw per call: name/timeout ms/skip code/flags+config>|left=<entries left in temp dir>   '
               'R <doc;doc: <m|c><role m|p|a><file number>:<doc skip code>:<total_timeout ms>:<tests P pass,O wrong output,C<n> wrong code,E<n> expected code,S skip,T per-test timeout,G document timeout,D detached,K killed,X plain exit 3 (Cram: leaves the script early); i<n> inline skip code>>|cli_timeout|exit|json ok|<location/title=result,...>|marks=<execution order>|leftover|late=<commands that went on running after their timeout>   '
               'V <status> <expected code> <output_stream> <stdout ok> <stderr ok> <no expectations>|<validate result>')

PROPS['C05'] = dict(
    family='line', needs_scrut_bin=True,
    theorems=['C05_pass_iff', 'C05_wrong_code_wins', 'C05_no_exit_code_never_passes', 'C05_no_exit_code_never_succeeds'],
    streams=lambda tier: [validate_stream(tier), exec_stream(tier), cli_stream(tier)],
    spec_kinds=['SPEC:C05'], corr_kinds=['DIFF:validate', 'DIFF:results', 'DIFF:exec'],
    case_format=EXEC_FORMAT,
    rule='validate: all 2880 combinations of runner status x expected code x output_stream x stream contents through the real TestCase::validate (exhaustive over that table); '
         'mock-runner: the real StatefulExecutor under scripted runner results (incl. Unknown = killed by a signal); cli: real `scrut test -r json` with real bash incl. `kill -9 $$`. '
         'Non-trivial: at least two test cases; distinct by case text',
    manifest=dict(text='Machine-checked theorems (Coq): the verdict is Success iff the runner status is the expected numeric code and the configured stream is accepted; a wrong code wins; a status without exit code never passes, nor does any later (padded) test of the document. Tied to /repo by the full status x code x stream table through the real TestCase::validate, by the real StatefulExecutor under a scripted runner, and by end-to-end runs of the real binary with real bash (signals included); the proved predicates are evaluated on what the implementation reports.',
                  technique='Coq proof over the executor/verdict state machine + exhaustive table correspondence of TestCase::validate + mock-runner and CLI differential runs'),
    exhaustive={'quick': False, 'thorough': False},
    assumptions=['the matcher verdict on the selected stream is an input (out_ok); C01-C03 give it meaning',
                 'bash delivers SIGKILL as no exit code (subprocess crate maps Signaled to Unknown): exercised end to end, not modelled'],
)
PROPS['C14'] = dict(
    family='line', needs_scrut_bin=True,
    theorems=['C14_effective_is_min', 'C14_effective_kind', 'C14_timeout_surfaces', 'C14_no_spurious', 'C14_deadline_passed', 'C14_limit_never_lost', 'C14_default_limit'],
    streams=lambda tier: [exec_stream(tier), cli_stream(tier)],
    spec_kinds=['SPEC:C14'], corr_kinds=['DIFF:limit', 'DIFF:exec', 'DIFF:results'],
    case_format=EXEC_FORMAT,
    rule='mock-runner: per-test timeout absent/shorter/longer than the document limit x document limit absent(default)/0/set x position x scripted elapsed time; the runner records the timeout it is handed; '
         'limits closer than 600 ms are counted inconclusive, never reported. cli: real sleeps (1.6 s / 2.2 s) against 400 ms per-test and 0.8-1 s document limits (margin >= 1.2 s); the slow command would append to a file `late` when its sleep ends, and the harness reads that file only after that moment has passed (is aborted = nothing arrives). Non-trivial: >= 2 test cases',
    manifest=dict(text='Machine-checked theorems (Coq): the limit a test runs under is the minimum of its own timeout and the remaining document limit and the reported kind is the smaller one; a runner timeout at test n yields validated results before n, a timeout failure at n, skipped after n and exit status 50; a timeout is only reported if the runner reported one; default limit pinned against regenerated constants. Tied to /repo by observing the timeout the real StatefulExecutor hands to a mock runner for generated configurations, and by wall-clock CLI runs. The CLI runs also decide the clause `is aborted`: a command that ran into its limit must not go on executing after scrut has reported the timeout (observed through a file it would write later). Partial: that the subprocess really is interrupted at the limit is runtime behaviour (subprocess::limit_time, kill), exercised only by the CLI runs.',
                  technique='Coq proof (minimum selection + executor state machine) + mock-runner observation of effective limits + wall-clock CLI runs',
                  note='Partial for the wall-clock half: interruption of the child at the limit is runtime behaviour of the subprocess crate/kernel.'),
    exhaustive={'quick': False, 'thorough': False},
    assumptions=['Instant::now arithmetic: the remaining document time is total minus elapsed (saturating)',
                 'subprocess::limit_time interrupts the child at the limit: exercised by CLI runs with >= 3x margin only'],
)
PROPS['C15'] = dict(
    family='line', needs_scrut_bin=True,
    theorems=['C15_skip_detected', 'C15_skip_all', 'C15_only_then', 'C15_skip_has_cause', 'C15_script_skip_detected', 'C15_script_skip_has_cause', 'C15_script_skip_read_from_dividers', 'C15_script_left_with_skip_code', 'C15_script_bytes_refine_state_machine', 'C15_default_code'],
    streams=lambda tier: [exec_stream(tier), cli_stream(tier),
                          dict(name='divider-skip(fake shell)', harness=['divider', str({'quick': 1600, 'extended': 8000, 'thorough': 60000}[tier]), '{seed}', '{shard}', '{nshards}'], driver='skipdiv', timeout=3000)],
    spec_kinds=['SPEC:C15'], corr_kinds=['DIFF:skipcode', 'DIFF:exec', 'DIFF:results'],
    case_format=EXEC_FORMAT,
    rule='mock-runner: skip codes set per test / per document / default, any position, expected code equal to the skip code or not; the effective skip code the runner sees is compared too. '
         'cli: Markdown (per-process) and Cram (single script, divider exit codes) documents with custom and default codes. Non-trivial: >= 2 test cases',
    manifest=dict(text='Machine-checked theorems (Coq): a reached test that ends in its effective skip code makes the executor report a skip; then every test of the document is reported skipped and none failed; a skipped result arises only from a skip or after a timeout; a skip always has a cause; for Cram (one script, with or without a test case that leaves it early) the document is skipped exactly when a printed divider carries the skip code or the script ends in it. Default code pinned against regenerated constants. Tied to /repo by the real StatefulExecutor under a scripted runner (effective codes observed) and by CLI runs through both executors.',
                  technique='Coq proof over the executor state machine (both executors) + mock-runner and CLI differential runs'),
    exhaustive={'quick': False, 'thorough': False},
    assumptions=['Cram: the state-machine theorems speak of per-test exit codes; the byte level (dividers of the script output -> skip / outputs / error, finished_testcases) is the transcription in ScriptExec.v with C15_script_skip_read_from_dividers and C15_script_left_with_skip_code, compared with the real BashScriptExecutor on scripted streams and shell exit statuses (fake shell)'],
)
PROPS['C20'] = dict(
    family='line', needs_scrut_bin=True,
    theorems=['C20_one_slot_per_test', 'C20_no_result_only_detached', 'C20_counts_add_up', 'C20_exit_status', 'C20_all_documents_reported'],
    streams=lambda tier: [cli_stream(tier), exec_stream(tier)],
    spec_kinds=['SPEC:C20'], corr_kinds=['DIFF:exit', 'DIFF:results', 'DIFF:marks', 'DIFF:exec'],
    case_format=EXEC_FORMAT,
    rule='cli: 1-3 documents (Markdown and Cram mixed) plus prepend/append documents given on the command line; tests pass, fail on output, fail on code, expect a code, skip, time out, detach or are killed; '
         'every test appends a marker to a file, so execution order and multiplicity are observed, results come from -r json, the exit status from the process. Non-trivial: >= 2 test cases in the run',
    manifest=dict(text='Machine-checked theorems (Coq): one result slot per test case handed to the executor, empty only for a detached test; succeeded + failed + skipped = reported; exit status is 1 iff a document could not be executed, else 50 iff some test failed or timed out, else 0; without errors every document is reported in order. Tied to /repo by end-to-end runs of the real binary with marker files proving order and multiplicity (prepend ++ own ++ append), results parsed from -r json and the process exit status.',
                  technique='Coq proof over the aggregation model (executor results -> outcomes -> exit status) + end-to-end differential runs of the real CLI with marker files'),
    exhaustive={'quick': False, 'thorough': False},
    assumptions=['unreadable/unparsable documents and an unusable shell (exit status 1) are exercised by dedicated end-to-end cases only in the thorough tier'],
)
def cfgcli_stream(tier):
    n = {'quick': 160, 'extended': 800, 'thorough': 6000}[tier]
    return dict(name='cli-layers', harness=['cfgcli', str(n), '{seed}', '{shard}', '{nshards}'], driver='cfgcli', timeout=3000)


PROPS['C16']['streams'] = lambda tier: config_streams(tier) + [exec_stream(tier), cfgcli_stream(tier), cli_stream(tier)]
PROPS['C16']['needs_scrut_bin'] = True
PROPS['C16']['theorems'].append('C16_env_observed_unless_carried')
PROPS['C16']['tags'] = {'Q': 'cfgcli', 'R': 'cli'}
PROPS['C16']['corr_kinds'] = ['DIFF:']
PROPS['C16']['case_format'] += ('   Q <command-line layer>|<document;document: role m main p/a prepended/appended by the front-matter P/A by flags:<defaults layer>:<inline layer of each test, /-separated>>|exit|'
                                '<title=lines the failing test was validated on: O stdout line, E stderr line, + = CR kept>|<id|VA|VB|VC|VD as the test saw them>')
PROPS['C16']['rule'] += ('; cli-layers: the real `scrut test -r json` on a main document with front-matter defaults, 1-3 tests with inline configuration, prepended/appended documents (front-matter and flags) with their own defaults, '
                         '--[no-]combine-output / --[no-]keep-output-crlf; every test prints CR LF lines to stdout and stderr, fails on purpose and records four environment variables, so the stream, the CR LF translation and each variable it really ran with are observed')
PROPS['C16']['manifest']['text'] += (' End to end, the real binary is run on layered documents (flags, inline, defaults, prepended/appended documents) and the stream, CR LF handling and environment each test case observably ran with are compared with the proved precedence. '
                                     'Known finding: a variable exported by an earlier test case shadows the configuration of a later one (the restored shell state is sourced after the process environment is set).')



def escape_streams(tier):
    stride = {'quick': '211', 'extended': '53', 'thorough': '1'}[tier]
    n = {'quick': 48000, 'extended': 400000, 'thorough': 3000000}[tier]
    return [dict(name='exhaustive-short', harness=['escape', 'exh', stride, '{shard}', '{nshards}'], driver='escape', timeout=3400),
            dict(name='random', harness=['escape', 'rand', str(n), '{seed}', '{shard}', '{nshards}'], driver='escape')]


PROPS['C11'] = dict(
    family='line', tags={'S': 'escape', 'D': 'escape'},
    theorems=['C11_lossless', 'C11_printable', 'C11_exact', 'C11_utf8_round_trip'],
    streams=escape_streams,
    spec_kinds=['SPEC:C11'], corr_kinds=['DIFF:has_unprintable', 'DIFF:escaped_printable', 'DIFF:escaped_expectation', 'DIFF:decode'],
    case_format='S <mode a|u> <hex of line content> <1 = line ends in LF>|<has_unprintable>|<hex of escaped_printable>|<P plain or E escaped>:<hex of the written text>|<read back through ExpectationMaker: matches line+LF, matches line, matches a line with one byte changed, matches the doubled line>   '
                'D <hex of an escaped text>|<escaped:hex of the bytes the real reader resolves it to | err>',
    rule='exhaustive: every byte string of length <= 2 (no LF) and every Unicode scalar (stride 211 in quick, all in thorough) alone, after a backslash and before backslash-t-TAB, both modes; '
         'random: lines biased to backslashes, control characters, multi-byte and invalid UTF-8 (up to 200 bytes); D: arbitrary escaped texts incl. \\x+f, \\0NN, trailing backslash, non-ASCII after a backslash. '
         'Non-trivial: non-empty content; distinct by (mode, content)',
    manifest=dict(text='Machine-checked theorems (Coq) for BOTH escaping modes over all byte strings: the text written for a line either is the line (when printable) or decodes, by the model of the (escaped) reader, to exactly the line content; every written character is printable in the mode (unicode: against the is_other table regenerated from the linked crate); an escaped expectation matches exactly the lines with that content; strict UTF-8 decode/encode are inverse. Tied to /repo by running Escaper::{has_unprintable, escaped_printable, escaped_expectation} and ExpectationMaker::parse(..).matches on exhaustive-short and random byte strings and comparing with the extracted model; the reader model is applied to the text the implementation wrote.',
                  technique='Coq proof (UTF-8 codec by div/mod arithmetic, per-character simulation of writer and two-pass reader, finite table sweep lifted by forallb_forall) + table regenerated from the linked crate + differential correspondence'),
    exhaustive={'quick': False, 'thorough': False},
    assumptions=['"unassigned" code points: the linked unicode_categories crate reports only Cc, Cf and Co as other; the property is stated against that table',
                 'String::from_utf8 / from_utf8_lossy are modelled by the strict decoder utf8_decode (validated against the implementation on invalid sequences)',
                 'a Plain line is read back as an equal expectation: whether the line *looks like* another kind of expectation is C08/C09, not C11'],
)


def run_streams(tier):
    n, ne, big = {'quick': (1600, 320, 300000), 'extended': (8000, 1600, 300000), 'thorough': (60000, 24000, 1000000)}[tier]
    nd = {'quick': 1600, 'extended': 8000, 'thorough': 60000}[tier]
    return [dict(name='template+crlf+bash', harness=['run', str(n), str(ne), '{seed}', '{shard}', '{nshards}', str(big)], driver='run', timeout=3000),
            dict(name='divider-protocol(fake shell)', harness=['divider', str(nd), '{seed}', '{shard}', '{nshards}'], driver='divider', timeout=3000)]


PROPS['C13'] = dict(
    family='line', tags={'B': 'run', 'L': 'run', 'G': 'run', 'H': 'run', 'E': 'run', 'O': 'run', 'F': 'divider', 'C': 'divider'},
    theorems=['C13_expression_last', 'C13_expression_verbatim', 'C13_replace_crlf', 'C13_render_output', 'C13_capture_untouched', 'C13_capture_conserves_bytes', 'C13_divider_split_ideal', 'C13_divider_split_salted', 'C13_divider_needle_never_straddles', 'C13_script_reads_back', 'C13_strip_exactly_colour_sequences', 'C13_strip_leaves_plain_text'],
    streams=run_streams,
    spec_kinds=['SPEC:C13'], corr_kinds=['DIFF:template', 'DIFF:crlf', 'DIFF:render_output', 'DIFF:capture', 'DIFF:divider', 'DIFF:script'],
    case_format='B <hex state dir> <hex name> <hex shell expression>|<exit>:<hex of the script the shell received (shell = /bin/cat)>   '
                'L <hex bytes> <keep_crlf> <strip_ansi>|<hex replace_crlf>|<hex render_output>   G <n CR LF pairs in a child process>|ok/aborted   '
                'O <m StatefulExecutor+BashRunner | c BashScriptExecutor> <output_stream> <keep_crlf> <strip_ansi> <cmd;cmd: writes <fd><hex>+.../exit code>|<code:hex stdout:hex stderr per test>   '
                'F <number of test cases> <hex of the stdout the fake shell plays back (salt replaced by a fixed text)>|<code:hex stdout per test | err | panic>   '
                'C <1 = streams combined>|<exported variables hex name:hex value,...>|<hex shell expression,...>|<hex of the script the fake shell was handed (salt replaced)>',
    rule='B: expressions assembled from scrut\'s own placeholder texts, brace fragments, quotes, newlines, non-ASCII, with state directories/names that themselves contain braces; the rendered script is read back through a shell that echoes its stdin. '
         'L: byte strings over CR, LF, ESC and letters for every keep_crlf/strip setting; G: 300 000 (thorough 1 000 000) CR LF pairs in a child process. '
         'O: 1-3 commands, each 1-3 writes to stdout/stderr of arbitrary bytes (NUL, invalid UTF-8, CRLF, divider/placeholder look-alikes, with and without final newline) and exit codes 0..255, through both executors with real /bin/bash, all output_stream settings. '
         'Non-trivial: every case; distinct by case text',
    manifest=dict(text='Machine-checked theorems (Coq): (a) with the replace chain in the order regenerated from bash_runner.rs the expression is substituted last, hence the shell receives pre ++ expression ++ post with pre/post independent of the expression whenever the rest of the script holds the placeholder once (computable premise, discharged for generated state directories by the driver); (b) replace_crlf removes exactly the CRs that are followed by LF, for outputs of any length; render_output applies only CRLF translation (unless keep_crlf) and ANSI stripping (only under its flag); (d) the capture specification conserves bytes. Tied to /repo by reading back the script BashRunner really sends, by running replace_crlf/render_output, and by differential runs of both real executors with real bash on arbitrary payloads. Partial: bytes through pipes, merge order and exit codes are runtime behaviour (bash, subprocess crate, kernel) — decided only by the differential runs; (c) the Cram divider protocol: what an ideal bash prints for the compiled script is split back into exactly the payloads and exit codes (C13_divider_split_ideal, over a borderless-prefix string-search argument; C13_divider_split_salted: the payloads may even hold divider lines of another execution, only the needle prefix+salt+:: of this one must not occur, whose freedom from self-overlap is proved for every salt without ~ and :), tied to /repo by playing scripted streams -- ideal and malformed -- to the real BashScriptExecutor through a fake shell; the script of a Cram document (compile_script transcribed, with shell_escape) holds every expression verbatim before the echo of its divider and can be cut back into the expressions in order (C13_script_reads_back), and the script the real executor hands to its shell is compared byte for byte with the transcription.',
                  technique='Coq proof (string replace lemma + regenerated template/chain order; CRLF loop = declarative spec) + differential runs of the real executors with real bash',
                  note='Partial for the runtime half (pipes, merge order, exit codes, stack depth): exercised by differential runs only.'),
    exhaustive={'quick': False, 'thorough': False},
    assumptions=['strip-ansi-escapes crate is a parameter; with strip_ansi_escaping set only payloads of printable ASCII are compared (the crate also drops C0 controls)',
                 'bash builtin printf emits the octal-escaped bytes verbatim; /bin/bash 5.2 in this sandbox'],
)


def expect_streams(tier):
    n = {'quick': 48000, 'extended': 300000, 'thorough': 1500000}[tier]
    return [dict(name='lines', harness=['expect', str(n), '{seed}', '{shard}', '{nshards}'], driver='expect')]


PROPS['C08'] = dict(
    family='line', tags={'P': 'expect'},
    theorems=['C08_grammar_complete', 'C08_grammar_sound', 'C08_other_lines_are_equal', 'C08_modifier_extracted', 'C08_fails_only_when_marked',
              'C08_round_trip_equal', 'C08_round_trip_equal_unprintable', 'C08_round_trip_escaped', 'C08_round_trip_noeol',
              'C08_round_trip_glob_partial', 'C08_round_trip_regex_partial'],
    streams=expect_streams,
    spec_kinds=['SPEC:C08'], corr_kinds=['DIFF:parse', 'DIFF:render'],
    case_format='P <hex line>|ok/err/panic|<kind>:<hex expression bytes>:<optional><multiline> (unmake)|<hex original_string>|<hex canonical form, ascii>|<its re-parse>|<hex canonical form, unicode>|<its re-parse>',
    rule='a fixed table of 8 expressions x 40 suffix forms (every alias x quantifier, nested/doubled groups, (), ( ), (foo), tab / NBSP / U+3000 before the group, no space) plus random expressions '
         '(backslashes, escape sequences, control and multi-byte characters, glob/regex metacharacters, parentheses) followed by 0-2 suffix forms. Non-trivial: non-empty line; distinct by line',
    manifest=dict(text='Machine-checked theorems (Coq): the grammar model returns (expression, kind, quantifier) exactly for lines of the documented shape (both directions), any other line -- also one ending in () -- is an equal expectation for the whole line; parsing can fail only for escaped, escaped-glob and regex expressions; the canonical form parses back to the same expectation for equal (incl. quantifiers and expressions ending in a parenthesis), escaped and no-eol expectations, and to an escaped expectation with the same content for equal expectations with unprintable content; glob/regex under fixed-point hypotheses on the external crates (named _partial). Known findings are closed witnesses. Tied to /repo by ExpectationMaker::parse / unmake / to_expression_string / re-parse on generated lines.',
                  technique='Coq proof (list reversal characterisation of the lazy grammar regex, regenerated kind and whitespace tables) + differential correspondence + round-trip oracle on the implementation',
                  note='Partial for glob/regex round trip: wildmatch normalisation and the regex crate are parameters.'),
    exhaustive={'quick': False, 'thorough': False},
    assumptions=['lines contain no LF (they come from str::lines); the grammar regex would not match a line with an embedded LF',
                 'regex crate: leftmost-first alternation, lazy quantifier, \\s = White_Space (table regenerated from char::is_whitespace)',
                 'wildmatch pattern normalisation and scrut\'s regex preparation/compilation are parameters of the model (taken from the implementation in the correspondence)'],
)


def rules_streams(tier):
    n = {'quick': 64000, 'extended': 400000, 'thorough': 2000000}[tier]
    return [dict(name='rules', harness=['rules', str(n), '{seed}', '{shard}', '{nshards}'], driver='rules')]


PROPS['C04'] = dict(
    family='line', tags={'M': 'rules'},
    theorems=['C04_equal', 'C04_no_eol', 'C04_escaped', 'C04_glob', 'C04_cram_glob', 'C04_regex_whole_line', 'C04_regex_rule_partial', 'C04_regex_prepare_plain', 'C04_regex_quantifier_forms', 'C04_regex_used_as_written'],
    streams=rules_streams,
    spec_kinds=['SPEC:C04'], corr_kinds=['DIFF:regex', 'DIFF:regex-prepare', 'DIFF:glob', 'DIFF:cramglob', 'DIFF:equal', 'DIFF:no-eol', 'DIFF:escaped'],
    case_format='M r <regex AST, prefix form>|<hex of the expression text>|<hex line content> <1 = final newline>|<matches>   M g <hex glob pattern>|<hex content> <nl>|<matches>|<Cram-style glob matches>   '
                'M q/p/n/x <hex expression>|<hex line bytes>|<matches>  (q equal, p plain line, n no-eol, x escaped)   M z <hex regex expression>|x<hex of the prepared expression the rule holds> or err   M u <regex AST>|<hex of the expression in user notation>|<hex line> <nl>|<matches>   M k the same with one counted repetition {n} {n,m} {n,} (the tree is the sequence it stands for)',
    rule='regex: random ASTs (depth <= 3: literals incl. metacharacters and a 2-byte character, ., classes, sequence, alternation at top level and nested, star) printed as a user would write them, '
         'lines sampled from the language and mutated; glob: patterns over a b * ? e-acute space . backslash with lines instantiated from the pattern and mutated; '
         'equal/no-eol/escaped: byte lines with 0-2 final newlines, escape sequences, tabs. Distinct by case text',
    manifest=dict(text='Machine-checked theorems (Coq): equal, no-eol and escaped rules match exactly the documented lines; the executable glob matcher is equivalent to the declarative relation (? one character, * any run, whole line); the regular expression the Cram flavour of glob is translated to has exactly the language of the pattern with its backslash escapes (C04_cram_glob); the derivative regex matcher used as reference semantics decides whole-line membership in the declarative language of the expression. Tied to /repo by ExpectationMaker::parse(..).matches(..) on generated expressions and lines for every kind (wildmatch, the regex crate and scrut\'s wrappers `^(?:e)$` included); any disagreement with the proved matchers is a concrete violating (expression, line).',
                  technique='Coq proof (Brzozowski derivatives = declarative language; glob matcher = inductive relation) + differential correspondence through the real rule implementations',
                  note='The regex and wildmatch crates are premises (C04_regex_rule_partial states the crate law that the correspondence checks).'),
    exhaustive={'quick': False, 'thorough': False},
    assumptions=['regex crate / wildmatch semantics on the generated fragment are checked by the correspondence, not proved',
                 'glob and regex are compared on valid UTF-8 lines (invalid bytes go through from_utf8_lossy / byte regex)'],
)


def cram_streams(tier):
    n = {'quick': 32000, 'extended': 200000, 'thorough': 1200000}[tier]
    return [dict(name='cram-docs', harness=['docs', 'cram', str(n), '{seed}', '{shard}', '{nshards}'], driver='cram')]


PROPS['C07'] = dict(
    family='line', tags={'K': 'cram'},
    theorems=['C07_parse_render', 'C07_defaults'],
    streams=cram_streams,
    spec_kinds=['SPEC:C07'], corr_kinds=['DIFF:cram'],
    case_format='K <AST: T<hex> title; C<hex> comment; B blank; X<hex cmd>,<hex continuation>.../E<hex expectation>,N<digits>... test  (~ = malformed soup)>|<hex document text>|ok:<title^expression^expectations^code^line^config per test>/err/panic',
    rule='3 of 4 documents are rendered from a random AST of the Cram grammar (0-10 blocks: titles incl. `$ x`, `> x`, `[1]`, one leading space; # comments; blanks; tests with 0-2 continuations and 0-4 body lines '
         'drawn from empty / whitespace-only / `$` / `$x` / `> x` / `[x]` / `[1] ` / `# ...` / too-large [digits] / glob, regex, quantified expectations / [digits] with leading zeros), joined with LF or CRLF, with or without final newline; '
         '1 of 4 is a soup over 23 line shapes that differ by single spaces. Non-trivial: more than one line; distinct by document text',
    manifest=dict(text='Machine-checked theorem (Coq): for every well-formed document AST of the Cram grammar, the model of CramParser::parse applied to its rendering returns exactly the tests the AST denotes -- commands with continuations, expectation lines verbatim (indentation removed), exit code, nearest title since the previous test, 1-based line of the `$` line -- by an invariant over the parser state (abstract open/closed state). Defaults pinned against regenerated constants. Tied to /repo by running the real CramParser on documents rendered from random ASTs (the specification function, not the parser model, predicts the result) and on malformed soups (parser model vs implementation, no panics).',
                  technique='Coq proof (state-machine invariant over document blocks, induction on the document) + differential correspondence + grammar-by-construction oracle'),
    exhaustive={'quick': False, 'thorough': False},
    assumptions=['str::lines is modelled by str_lines (LF / CRLF terminators; no final empty line)',
                 'ExpectationMaker::parse success is the parameter pe_ok (C08); the generator only emits well-formed regex/escaped expectations'],
)


def md_streams(tier):
    n = {'quick': 24000, 'extended': 160000, 'thorough': 1000000}[tier]
    return [dict(name='markdown-docs', harness=['docs', 'md', str(n), '{seed}', '{shard}', '{nshards}'], driver='md')]


PROPS['C06'] = dict(
    family='line', tags={'D': 'md'},
    theorems=['C06_parse_render', 'C06_nothing_dropped', 'C06_fence_needs_three', 'C06_backticks_inside_are_inert'],
    streams=md_streams,
    spec_kinds=['SPEC:C06'], corr_kinds=['DIFF:markdown'],
    case_format='D <AST: F<i> front-matter; P<hex> prose; H<level><hex> heading; B blank; V<n><hex lang>/<hex body lines> other code block; S<n><cfg index>/<hex comments>/<hex cmd>,<hex continuations>/E<hex>,N<digits> scrut block (~ = no command)  | ^k^AST = first k lines only | ~ = soup>|<hex document text>|ok:<title^expression^expectations^code^line^config per test>/err/panic',
    rule='3 of 5 documents are rendered from a random AST of the Markdown grammar (front-matter, prose incl. lines starting with 1-2 backticks / containing ``` / `---` / `$ x`, headings, blanks, foreign blocks with 3-5 backticks and look-alike languages (`scrut `, `scrutx`), '
         'scrut blocks with 3-5 backticks, inline config, comments, continuations, bodies with shorter fences, `$ second`, `# not a comment`, `[x]`, exit codes, and blocks without a command), LF or CRLF; '
         '1 of 5 is a truncation of such a document after k lines; 1 of 5 is a soup over 25 line shapes (```é{x}, ``x, ````, unterminated fences and front-matter ...). Non-trivial: more than one line; distinct by text',
    manifest=dict(text='Machine-checked theorems (Coq): the tokenizer model (MarkdownIterator with the end-of-document flush) is lossless for every document -- every line lands in exactly one token, in order; only a line starting with >= 3 backticks can open a block (backticks elsewhere are inert). The grammar round trip parse(render d) = tests_of d is PROVED for all well-formed document ASTs (C06_parse_render: token automaton run per element + line-parser invariant, no bound on the document) and the specification function md_tests_of is evaluated against the implementation on every generated document, where it predicts the result of the real MarkdownParser; truncated documents must yield the tests of all complete blocks; soups must not panic and must agree with the parser model. Tied to /repo by those runs.',
                  technique='Coq proof (grammar round trip by induction over the document AST, token automaton losslessness, fence lemmas) + grammar-by-construction oracle and differential correspondence against the real MarkdownParser',
                  note='serde_yaml acceptance of front-matter / inline configuration and ExpectationMaker::parse success are parameters of the theorem (front_ok, cfg_ok, pe_ok).'),
    exhaustive={'quick': False, 'thorough': False},
    assumptions=['serde_yaml acceptance of front-matter / inline configuration is a parameter (generated from a fixed table whose meaning is checked against the implementation)',
                 'title: a paragraph is a maximal run of consecutive title lines (heading text or letter-initial line); a heading directly adjacent to another title line joins it -- the specification follows the implementation here (interpretation of "nearest preceding heading or paragraph")',
                 '\\p{L} and White_Space tables are regenerated from the linked regex crate / std'],
)


def gen_streams(tier):
    n = {'quick': 48000, 'extended': 300000, 'thorough': 2000000}[tier]
    m = {'quick': 320, 'extended': 3200, 'thorough': 9600}[tier]
    return [dict(name='generate-parse-validate', harness=['gen', str(n), '{seed}', '{shard}', '{nshards}'], driver='gen'),
            dict(name='cli-create-then-test', harness=['createcli', str(m), '{seed}', '{shard}', '{nshards}'], driver='gen', timeout=3000),
            dict(name='cli-convert-then-test', harness=['convcli', str(m), '{seed}', '{shard}', '{nshards}'], driver='gen', timeout=3000)]


PROPS['C09'] = dict(
    family='line', tags={'G': 'gen', 'J': 'gen', 'V': 'gen'}, needs_scrut_bin=True,
    theorems=['C09_line_round_trip', 'C09_line_not_exit_code', 'C09_generated_expectations_pass', 'C09_cram_test_reads_back', 'C09_markdown_test_reads_back', 'C09_cram_tests_read_back', 'C09_markdown_tests_read_back', 'C09_guarded_cram_document_same', 'C09_guarded_markdown_document_same', 'C09_guarded_line_reads_back', 'C09_no_eol_guard_keeps_ending', 'C09_regen_described', 'C09_regen_accepts_when_deterministic'],
    streams=gen_streams,
    spec_kinds=['SPEC:C09', 'SPEC:C18'], corr_kinds=['DIFF:generated-lines', 'DIFF:generated-document'],
    case_format='G <m Markdown|c Cram> <a ascii|u unicode escaper> <0 create | 1 update with kept plain expectations | 2 update with quantified expectations> <hex shell expression> <exit code> <hex output>|<hex generated document>|<parse back: ok<n tests>/err/panic>|<1 = same shell expression>|<validate of the parsed test against the same output: ok/code/output>   J <m|c> <escaping - ascii unicode> <hex command> <exit code> <hex output> <hex title>|<hex of the document scrut create wrote>|create=<exit> test=<exit of scrut test on it> leftover=<entries left in TMPDIR>',
    rule='outputs of 0-5 lines drawn from 26 collision shapes (modifier look-alikes, [1], [256], `$ x`, `> x`, fences, empty / whitespace-only / tab lines, ANSI, NUL, invalid UTF-8, non-ASCII, backslashes, CR, ` (no-eol)`, `x (escaped)`, `---`) and random words, '
         'with and without final newline; exit codes 0,1,3,255; both formats; both escapers; one- and two-line commands; update flavours with kept expectations. '
         'The real generator output is parsed by the real parser and validated by the real TestCase::validate. cli-create-then-test: the real `scrut create` (both formats, --escaping unset / ascii / unicode, with and without --title) on a printf of the same output shapes, then the real `scrut test` on the document it wrote. Non-trivial: non-empty output; distinct by case head',
    manifest=dict(text='Machine-checked theorems (Coq): the line written for an output line parses back (model of the expectation grammar) to an unquantified expectation that matches that very line, in both escaping modes, and is never taken for an exit-code line; the expectation list written by update for a failing test always describes the output, hence passes whenever it is deterministic for it (C03) -- with a closed counterexample showing the premise is needed (known finding). Tied to /repo end to end: generate_testcases -> MarkdownParser/CramParser::parse -> TestCase::validate on generated outputs; generated expectation lines are compared with the model. Whole test, Cram format (C09_cram_test_reads_back): the document written for a command, output lines and exit code is an element of the Cram grammar, so the Cram parser model (C07) reads it back as one test with that title, the same command lines, the written expectation lines and the exit code -- under premises that name the two listed known findings; the same for Markdown (C09_markdown_test_reads_back: the fence is one backtick longer than any run of backticks that starts a body line, so no output line can close the block; C06 reads it back as one test); the implementation\'s whole generated document is compared line for line with that rendering in both formats. Documents of several generated tests (scrut update --convert): C09_cram_tests_read_back / C09_markdown_tests_read_back -- the tests one after the other, two blank lines between them, every Markdown header with the inline configuration that differs from the format defaults -- read back as exactly those tests in order; the real converted documents (both directions) are compared line for line with that rendering and then run by the real scrut test.',
                  technique='Coq proof composing C11 (escaping), C08 (grammar) and C02/C03 (matcher) at line level + end-to-end differential run generate -> parse -> validate',
                  note='The whole-test theorems cover the create flavour; the update flavour (kept expectations) is covered by C09_regen_* at list level and end to end.'),
    exhaustive={'quick': False, 'thorough': False},
    assumptions=['outputs are given to validate as recorded (after the runner\'s CRLF translation)'],
)


def upd_streams(tier):
    n = {'quick': 16000, 'extended': 100000, 'thorough': 600000}[tier]
    m = {'quick': 160, 'extended': 1600, 'thorough': 4800}[tier]
    return [dict(name='update-twice', harness=['upd', str(n), '{seed}', '{shard}', '{nshards}'], driver='upd'),
            dict(name='cli-update-twice', harness=['updcli', str(m), '{seed}', '{shard}', '{nshards}'], driver='upd', timeout=3000)]


PROPS['C10'] = dict(
    family='line', tags={'U': 'upd', 'K': 'upd'}, needs_scrut_bin=True,
    theorems=['C10_outside_preserved', 'C10_tokens_well_shaped', 'C10_nothing_truncated', 'C10_fence_safe', 'C10_update_is_substitution', 'C10_same_commands', 'C10_idempotent'],
    streams=upd_streams,
    spec_kinds=['SPEC:C10'], corr_kinds=['DIFF:update'],
    case_format='U <hex original document>|<outcome per test: ok/output/code>|<hex document after update | err | panic>|<hex document after a second update with the same outputs>|<hex commands of the original>|<hex commands parsed from the updated document>   K <the same six fields, through the scrut binary; with sh as the test language the words sh and scrut are swapped on fence lines>|lang=<test language> update=<exit,exit> test=<exit of scrut test afterwards>',
    rule='documents rendered from random ASTs of the Markdown grammar (see C06; 1 in 6 cut short so that the last construct is unterminated), every test given one of: its own expectation lines as output (passes when they are plain), a changed output drawn from the collision shapes of C09, a changed exit code; '
         'the real MarkdownUpdateGenerator is applied, the result parsed by the real parser, re-validated against the same outputs and updated again. cli-update-twice: documents of prose, blocks in other languages, test blocks with right / wrong expectations and exit codes, comments, inline configuration and detached tests are written to disk, the real `scrut update --replace --assume-yes` runs twice (default language, or --markdown-languages sh with ```scrut blocks as bystanders) and `scrut test` must then pass. Non-trivial: at least one test; distinct by document',
    manifest=dict(text='Machine-checked theorems (Coq): for every token that is not a scrut block update writes back exactly the token lines (the only addition: the missing closing --- of an open front-matter), for all documents since the tokenizer is lossless and all its tokens are well shaped; the regenerated fence has >= 3 backticks and is closed by no line of the new body. Over the document grammar of C06, update of a rendered well-formed document IS the rendering of the same AST with new bodies and fences (C10_update_is_substitution: number, order, comments and inline configuration of blocks kept, everything else untouched), hence by the C06 round trip the updated document parses to the same titles and commands (C10_same_commands), and updating it again with the same bodies returns the same document (C10_idempotent). That a test which now passes gets the same body again (lines of passing tests kept) is evaluated on the implementation for every generated document x outcome vector with the token model as the measuring instrument, and the structural part of generate_update is compared with the model.',
                  technique='Coq proof over the token automaton (losslessness, shape invariant, fence lemma) + differential runs of the real update generator applied twice',
                  note='Partial: that the generator hands the same body to a now-passing test (lines of passing tests kept) is checked on the implementation (oracle); given that, idempotence is proved.'),
    exhaustive={'quick': False, 'thorough': False},
    assumptions=['the bodies of regenerated tests are C09\'s concern; here they are an input of the model',
                 'lines are compared by content (CRLF is read as LF and LF is written)'],
)


def yaml_streams(tier):
    n = {'quick': 48000, 'extended': 300000, 'thorough': 2000000}[tier]
    return [dict(name='write-read', harness=['yaml', str(n), '{seed}', '{shard}', '{nshards}'], driver='yaml')]


PROPS['C17'] = dict(
    family='line', tags={'Y': 'yaml'},
    theorems=['C17_quoted_round_trip', 'C17_quoted_clean', 'C17_scalar_round_trip', 'C17_environment_reads_back', 'C17_duration_round_trip', 'C17_one_liner_reads_back', 'C17_one_liner_inline', 'C17_left_out_defaults_come_back'],
    streams=yaml_streams,
    spec_kinds=['SPEC:C17'], corr_kinds=['DIFF:one-liner'],
    case_format='Y 1 <test-case configuration: os= kc= to=<secs.nanos> de= sk= sa= wa=<wait timeout> wp=x<hex wait path> env=x<hex name>:x<hex value>,...>|<hex of the one-line form>|<the configuration MarkdownParser reads back from ```scrut {...}>   '
                'Y 2 <document configuration tt= sh= ap= pp= + defaults>|-|<serde_yaml::from_str(serde_yaml::to_string(c))>',
    rule='every subset of keys; durations from milliseconds to years (incl. nanosecond parts, exactly 900 s and 900.5 s); environment names (identifiers and arbitrary text) and values, wait paths and document paths assembled from quotes, backslashes, `: `, commas, braces, #, brackets, YAML indicators, true/null/~, tab, LF, DEL, NEL, ESC, non-ASCII and spaces at either end. '
         '2 of 3 cases go through to_yaml_one_liner -> fence line -> real MarkdownParser, 1 of 3 through serde_yaml with scrut\'s custom (de)serialisers. Distinct by configuration',
    manifest=dict(text='Machine-checked theorems (Coq): the whole one-line form {key: value, ...} -- to_yaml_one_liner transcribed key by key -- is read by a reference reader of that notation as exactly the configuration it was written from, for every subset of the eight settings (C17_one_liner_reads_back); every duration (timeout, wait, total_timeout) written by humantime::format_duration is read by humantime::parse_duration (both transcribed from humantime 2.4.0) as exactly that duration, for all seconds < 2^64 and nanoseconds < 10^9 (C17_duration_round_trip); a double-quoted scalar reads back as exactly the text it was written from for every Unicode text and contains nothing YAML would not read verbatim; the plain-or-quoted notation of names and paths reads back likewise; the environment mapping reads back as the pairs written. Tie to the code: the text the real to_yaml_one_liner writes is compared byte for byte with the model, the reference reader is applied to it, and the real MarkdownParser (serde_yaml) reads it back from a ```scrut {...} fence into an equal configuration; the front-matter form goes through serde_yaml to_string/from_str with the custom (de)serialisers.',
                  technique='Coq proof (one-liner writer/reader over the eight keys, humantime format/parse state machine with u64 arithmetic, escape/unescape state machine) + differential write/read runs through the real parser and serde_yaml',
                  note='Partial: serde_yaml itself is external -- the reference reader stands for it in the theorem and is compared with it on every generated configuration; the front-matter (block YAML) form is exercised, not proved.'),
    exhaustive={'quick': False, 'thorough': False},
    assumptions=['an omitted total_timeout reads back as absent, which means the documented default of 900 s: the oracle identifies the two'],
)


def render_streams(tier):
    n = {'quick': 9600, 'extended': 64000, 'thorough': 400000}[tier]
    return [dict(name='renderers', harness=['render', str(n), '{seed}', '{shard}', '{nshards}'], driver='render', timeout=3000)]


PROPS['C19'] = dict(
    family='line', tags={'N': 'render'},
    theorems=['C19_pretty_total', 'C19_matcher_diffs_are_renderable', 'C19_highlight_total', 'C19_diff_total', 'C19_pretty_shows_unmatched',
              'C19_pretty_shows_unexpected', 'C19_diff_hunks_conserve', 'C19_diff_shows_everything', 'C19_no_section_for_pass',
              'C19_structured_one_entry_per_outcome'],
    streams=render_streams,
    spec_kinds=['SPEC:C19'], corr_kinds=['DIFF:pretty', 'DIFF:diff', 'DIFF:wellindexed'],
    case_format='N <max surrounding lines> <absolute line numbers> <summarize>|<outcome;outcome...: location(hex|~),title,shell expression,line,#expectations,expected exit code|~,c|m,a|u escaper,stdout,stderr,'
                'result S success K skipped T timeout E<actual>:<expected> I<hex message> M<#output lines>:<m<idx>.<multiline>.<hex to_expression_string>.<first line|~> | u<idx>.<multiline>.<hex expression>.<hex original> | x<line>_<hex bytes>/...>+...>'
                '|<PrettyColorRenderer: ok:<hex text>/err/panic>|<PrettyMonochromeRenderer ok/err/panic>|<DiffRenderer>|<JsonRenderer, re-parsed: <has location>:<kind>:<diff line kinds> per entry>|<YamlRenderer, re-parsed>',
    rule='0-4 outcomes per case; each test case has 0-12 output lines and expectations derived from them with omissions, insertions and changes (equal, glob, regex, escaped, no-eol, quantified), validated by the real TestCase::validate, '
         'so the diffs are real DiffTool diffs; plus synthetic timeout / skipped / internal-error / success results; texts drawn from wide and multi-byte characters, trailing U+3000 / NBSP / tab / space / NEL, control bytes and ANSI sequences, '
         'invalid and truncated UTF-8, 200-12000 byte lines; line numbers around the 9/10, 99/100, 999/1000 digit boundaries with relative and absolute numbering, 0/1/2/5 surrounding lines; locations absent, mixed or all present. '
         'Non-trivial: at least one failed outcome; distinct by outcome list',
    manifest=dict(text='Machine-checked theorems (Coq): the model of the pretty renderer -- with the padding subtraction, the lines[0] access and the byte-offset slicing as explicit panics -- returns a rendering for all outcomes whose diffs are well indexed, and every diff the matcher model can return is well indexed (C02); trailing-whitespace highlighting always slices at a character boundary; the diff renderer never crashes and refuses only mixed locations; '
                       'every unmatched expectation and every unexpected line of every failed test is a row of the pretty rendering and a -/+ line of the unified diff (the hunks conserve both lists, in order); passed tests contribute nothing; json/yaml have one entry per outcome with its kind. '
                       'Tied to /repo by rendering generated outcomes (real validate results) with the four real renderers: the pretty and diff texts are compared byte for byte with the extracted model, json/yaml are re-parsed and compared entry by entry, and the shows-everything / no-section-for-pass facts are evaluated on the implementation\'s text.',
                  technique='Coq proof (monotone decimal width, UTF-8 prefix lengths, induction over diff lines and hunk assembly) + byte-exact differential correspondence of the extracted renderer models against the real renderers',
                  note='serde_json / serde_yaml / console are external: well-formedness of json/yaml is decided by re-parsing the real output, colours are switched off.'),
    exhaustive={'quick': False, 'thorough': False},
    assumptions=['expectation texts (to_expression_string, original_string) are inputs of the renderer model, taken from the implementation; C08 covers them',
                 'colours disabled (console::set_colors_enabled(false)); the monochrome renderer is only required not to fail',
                 'a list mixing outcomes with and without location makes the diff renderer return an error by design; scrut itself always sets the location'],
)


def env_streams(tier):
    n = {'quick': 128, 'extended': 640, 'thorough': 4000}[tier]
    return [dict(name='cli-directories+environment', harness=['envrun', str(n), '{seed}', '{shard}', '{nshards}'], driver='envrun', timeout=3000), exec_stream(tier)]


PROPS['C18'] = dict(
    family='line', needs_scrut_bin=True, tags={'W': 'envrun', 'X': 'exec'},
    theorems=['C18_cleanup', 'C18_work_directory_kept', 'C18_keep', 'C18_work_dirs_distinct', 'C18_namer_total', 'C18_namer_distinct',
              'C18_documented_variables_set', 'C18_env_reaches_every_test', 'C18_scrut_test_afresh'],
    streams=env_streams,
    spec_kinds=['SPEC:C18'], corr_kinds=['DIFF:env-exec', 'DIFF:env-exit', 'DIFF:exec'],
    case_format='W <hex root of the case>|<hex canonical bash>|<process;process: <flag d default|w --work-directory|k --keep-temporary-directories><abort - none|u unparsable main document|s unusable shell>:<doc,doc: <m|c><! = front-matter prepends an unparsable document><tests P pass O wrong output C wrong code S skip T timeout>/<hex sub-directory>/<hex file name>>>|'
                '<per process: exit=<status>/<hex probe lines id|PWD|TESTDIR|TESTFILE|TMPDIR|TESTSHELL|LANG|LANGUAGE|LC_ALL|TZ|COLUMNS|CDPATH|GREP_OPTIONS|SCRUT_TEST|CRAMTMP>/<listing of the given work directory>>|<listing of TMPDIR afterwards>|<count>   X: see C05',
    rule='1-3 scrut processes at the same time with one TMPDIR; each runs 1-3 documents (Markdown and Cram, often with identical file names in different directories) whose tests pass, fail on output, fail on exit code, skip or time out; '
         '1 in 12 processes has an unparsable main document, 1 in 12 an unusable (non-executable) shell, 1 in 14 Markdown documents prepends an unparsable document (early return after the environment exists); flags: none / --work-directory / --keep-temporary-directories. '
         'Every test appends cwd and the documented variables to a probe file outside TMPDIR and creates files and directories in its work directory and in $TMPDIR. Non-trivial: at least two documents; distinct by run description. '
         'Second stream: the mock-runner stream of C05 (SCRUT_TEST=<file>:<line> in the configuration every test case is run with).',
    manifest=dict(text='Machine-checked theorems (Coq) over a resource model of TestEnvironment (three modes), init_test_file, the executor state directory and Drop, following the per-document control flow of `scrut test` for every way a document can end: without options the file system after any run equals the one before; with --work-directory everything that was there stays and no temp.X remains inside; with --keep-temporary-directories nothing but the state directory is removed and every processed document leaves execution.X and temp.X; work directories of two documents never coincide; UniqueNamer terminates and returns pairwise distinct unused names (decimal printing proved injective); the documented variables are among those regenerated from build_env_vars, reach every test case through all configuration layers (C16) and SCRUT_TEST is set on top. '
                       'Tied to /repo by end-to-end runs of the real binary: 1-3 concurrent processes, every outcome class incl. early aborts, all three flag settings; what each test case saw (cwd, TESTDIR, TESTFILE, TMPDIR, TESTSHELL, locale/terminal variables, SCRUT_TEST, CRAMTMP) and what is left in TMPDIR / the given directory is compared with the model. Partial: that Drop runs on every exit path, and the behaviour of concurrent processes, are runtime facts (RAII, tempfile crate, kernel) that only the runs exercise.',
                  technique='Coq proof (resource-model invariants, pigeonhole termination of the namer, injectivity of decimal printing) + variable table regenerated from source + end-to-end differential runs of the real CLI (concurrent processes, TMPDIR listings, environment probes)',
                  note='Partial: RAII clean-up, tempfile name freshness and concurrency are exercised by the runs, not proved; process aborts (SIGKILL of scrut itself) are outside the exit kinds the property lists.'),
    exhaustive={'quick': False, 'thorough': False},
    assumptions=['TempDir never returns an existing name (premise `pristine` / fresh indices of the model)',
                 'variables a test case changes itself (export LANG=...) are carried by the shell state (C12), not reset: only unmodified variables are compared',
                 'a timed-out child that keeps running after scrut exits is not observed'],
)
PROPS['C18']['streams'] = env_streams


def state_streams(tier):
    n = {'quick': 480, 'extended': 2400, 'thorough': 6400}[tier]
    return [dict(name='histories-vs-one-session', harness=['state', str(n), '{seed}', '{shard}', '{nshards}'], driver='state', timeout=3000)]


PROPS['C12'] = dict(
    family='line', tags={'H': 'state'},
    theorems=['C12_restore_persist', 'C12_carry', 'C12_detached_leaves_nothing', 'C12_state_file_order'],
    streams=state_streams,
    spec_kinds=['SPEC:C12'], corr_kinds=['DIFF:state-file'],
    case_format='H <step;step: <D = detached><classes of the mutations: v variable x exported u unset a array m associative array i attribute f function l alias o set option s shopt d cd p pushd/popd I inherited variable changed U inherited variable unset B bash default unset r readonly n nasty value>:<hex snippet>>|'
                '<hex stdout~~stderr of each test case through StatefulExecutor+BashRunner | detached>|<the same from ONE bash session>|<per later test case: hex names declared in the state file it found/hex names that existed/hex read-only names>',
    rule='histories of 2-6 test cases, each 0-3 mutations drawn from 80 snippets (define / modify / unset of variables, exported variables, arrays incl. sparse, associative arrays, integer / case attributes, functions incl. here-documents and case, aliases, set -u/-f/-C/pipefail, shopt, cd, pushd/popd; values with spaces, quotes, newlines, tabs, ESC, non-ASCII, $ ` \\ * ?; names that merely begin like an excluded one: UID_MIN, SCRUT_TEST_X, LINENO_FIRST, BASH_SOURCE_DIRS, PPIDX, code), '
         'half of the histories concentrated on one family so that define/modify/unset meet; 1 in 8 test cases detached; after every test case a probe prints declare -p of 22 names, the exported environment, functions (and calls them), aliases, options, directory and directory stack. '
         'The same snippets are fed to one bash process (a detached one in a subshell) and the outputs compared per test case; the state file each test case found is copied out and compared with the filter model. bash = the one on PATH. Non-trivial: at least one mutation; distinct by history',
    manifest=dict(text='Machine-checked theorems (Coq): a fresh process that sources what the carrier persisted for a carriable state observes exactly that state -- every visible variable with value, export flag and attributes, functions, aliases, options, directory, directory stack (filters: read-only and the excluded names, whole names, list regenerated from bash_runner.rs); hence for ANY semantics of the snippets that cannot observe the excluded variables, and any history with detached test cases anywhere, one process per test case yields the outputs of a single session; a detached test case leaves the state file untouched. The premises are shown necessary by closed witnesses (the known findings). '
                       'Tied to /repo and to the bash on PATH by differential runs: the real StatefulExecutor + BashRunner against one bash session on generated histories, output compared per test case, and the state files really written compared with the filter model. Partial: that `declare -p` / `alias -p` / `declare -f` / `set +o` / `shopt -p` print text whose `source` reproduces the value is bash behaviour -- exercised by the runs (bash 5.2 here), not proved.',
                  technique='Coq proof (simulation between per-process execution with a state file and a single session, over an abstract snippet semantics) + regenerated exclusion list + differential runs of the real executor against one real bash session',
                  note='Partial: bash quoting/printing of values and the trap/exit interplay are runtime behaviour of the bash on PATH; the result depends on that bash (version recorded in the evidence assumptions).'),
    exhaustive={'quick': False, 'thorough': False},
    assumptions=['bash on PATH: /usr/bin/bash 5.2.x in this sandbox; other versions print declare -p differently (the template has a branch for bash < 4 that is not exercised here)',
                 'state the carrier is documented not to carry: read-only variables, variables whose names contain other characters than letters, digits, underscore',
                 'set -e / set -x are not part of the generated histories (they change what the probe itself does)'],
)


def run_one(prop, inp, ctx):
    """re-run one case through the implementation and the model; returns CASE lines"""
    cfg = PROPS[prop]
    fam = cfg.get('family', 'diff')
    if fam == 'diff':
        parts = inp.split('|')
        if len(parts) == 5:   # a case of the real-rules-on-text stream: replay the expectation lines on the output
            rc, out = ctx['sh']("%s diff textone '%s' | %s diff" % (ctx['SVH'], parts[4], ctx['SVD']))
            return [l for l in out.split('\n') if l.startswith('CASE')], out
        f = inp.split('|')[0].split(' ')
        rc, out = ctx['sh']('%s diff one %s | %s diff' % (ctx['SVH'], ' '.join("'%s'" % x for x in f[:5]), ctx['SVD']))
        return [l for l in out.split('\n') if l.startswith('CASE')], out
    if fam == 'line':
        # generic: the case line carries the implementation's result; re-evaluate the model/oracle on it
        tag = inp[:1]
        drv = cfg.get('tags', {}).get(tag) or {'X': 'exec', 'R': 'cli', 'V': 'validate', 'E': 'config', 'A': 'config', 'D': 'config', 'P': 'config', 'S': 'escape', 'N': 'render', 'W': 'envrun', 'H': 'state', 'Q': 'cfgcli'}.get(tag, cfg['streams']('quick')[0]['driver'])
        rc, out = ctx['sh']([ctx['SVD'], drv], inp=(inp + '\n').encode())
        return [l for l in out.split('\n') if l.startswith('CASE')], out
    return [], ''


def minimise(prop, case, ctx):
    cfg = PROPS[prop]
    if cfg.get('family', 'diff') != 'diff':
        return case
    kind = case['kind']
    if len(case['input'].split('|')) == 5:
        return case

    def still(inp):
        ls, _ = run_one(prop, inp, ctx)
        for l in ls:
            f = l.split('\t')
            if f[1] == kind:
                return {'kind': f[1], 'detail': f[2], 'input': '\t'.join(f[3:]), 'stream': case.get('stream')}
        return None
    cur = case
    changed = True
    while changed:
        changed = False
        f = cur['input'].split('|')[0].split(' ')
        ne, nl, q, m, fl = int(f[0]), int(f[1]), f[2], f[3], f[4]
        rows = [m[i * nl:(i + 1) * nl] for i in range(ne)] if ne * nl else [''] * ne
        cands = []
        for i in range(ne):
            r2 = rows[:i] + rows[i + 1:]
            q2 = q[:i] + q[i + 1:]
            cands.append((ne - 1, nl, q2 or '-', ''.join(r2) or '-', fl))
        for j in range(nl):
            r2 = [r[:j] + r[j + 1:] for r in rows]
            cands.append((ne, nl - 1, q if ne else '-', ''.join(r2) or '-', fl))
        for c in cands:
            r = still('%d %d %s %s %s' % c)
            if r:
                cur = r
                changed = True
                break
    return cur


def replay(prop, path, ctx):
    obj = json.load(open(path))
    inp = obj.get('input')
    if not inp:
        print(json.dumps(obj, indent=1))
        return 1
    ls, out = run_one(prop, inp, ctx)
    print(out)
    bad = [l for l in ls if any(l.split('\t')[1].startswith(k) for k in PROPS[prop]['spec_kinds'])]
    if bad:
        print('VIOLATION property=%s replay=%s' % (prop, path))
        return 1
    return 0
