"""Property table for bin/check: which Coq file/theorems, which correspondence streams, which driver verdicts count."""
import json, os, re

TRUSTED_BASE = [
    'Coq 8.16.1 kernel (coqc, full .vo build; vm_compute used in Examples; no native_compute)',
    'extraction: ExtrOcamlBasic only (Extract Inductive bool/option/unit/list/prod/sumbool/sumor as shipped; no Extract Constant); nat/positive/N/Z stay Coq datatypes; OCaml 4.13.1; driver/*.ml (line protocol, printing)',
    'correspondence harness /verif/harness (Rust, path dependency on /repo): input generation from one xorshift PRNG, canonicalisation of results',
    'rustc/std semantics of slices, Vec, str; external crates linked by scrut are exercised through scrut, not verified',
]

DIFF_FORMAT = ('case line: "<#expectations> <#lines> <quantifier per expectation: . ? * +> <match matrix row-major, 1 = expectation i matches line j> '
               '<1 = output ends in newline>|<implementation diff: M<i>:<lines>; matched, U<i>; unmatched, X<lines>; unexpected>|<1 = no differences>|<1 = TestCase::validate Ok>"')


def diff_streams(tier):
    if tier == 'quick':
        return [
            dict(name='exhaustive3x3', harness=['diff', 'exh', '3', '3', '{shard}', '{nshards}'], driver='diff'),
            dict(name='random12x20', harness=['diff', 'rand', '12', '20', '24000', '{seed}', '{shard}', '{nshards}'], driver='diff'),
        ]
    if tier == 'extended':
        return [
            dict(name='random6x8', harness=['diff', 'rand', '6', '8', '300000', '{seed}', '{shard}', '{nshards}'], driver='diff'),
            dict(name='random12x20', harness=['diff', 'rand', '12', '20', '300000', '{seed}', '{shard}', '{nshards}'], driver='diff'),
        ]
    return [
        dict(name='exhaustive4x4', harness=['diff', 'exh', '4', '4', '{shard}', '{nshards}'], driver='diff', timeout=3400),
        dict(name='random12x20', harness=['diff', 'rand', '12', '20', '400000', '{seed}', '{shard}', '{nshards}'], driver='diff'),
        dict(name='random30x60', harness=['diff', 'rand', '30', '60', '50000', '{seed}', '{shard}', '{nshards}'], driver='diff'),
    ]


NOT_CLAIMED = {}

PROPS = {
    'C01': dict(
        theorems=['C01_no_false_pass', 'C01_oracle_exact', 'C01_stream_is_its_lines'],
        streams=diff_streams,
        spec_kinds=['SPEC:C01'], corr_kinds=['DIFF:accept', 'DIFF:validate'],
        case_format=DIFF_FORMAT,
        rule='expectations are built through the public RuleRegistry with a matrix rule, so `matches` realises any boolean matrix; '
             'exhaustive over all (#exp<=3, #lines<=3, quantifier vectors, matrices) plus seeded random up to 12x20 biased towards '
             'nearly-described outputs; a case is non-trivial when it has at least one expectation and one line; distinct by input text',
        manifest=dict(text='Machine-checked theorem (Coq): for every expectation list, every rule semantics and every output, acceptance by the model of DiffTool::diff implies membership in e1{q1}..en{qn} (C01_no_false_pass); describedb is proved to decide that language. The model is tied to /repo on every run by running the real DiffTool/TestCase::validate and the extracted model on exhaustive-small and random match matrices; the proved oracle is evaluated on the implementation verdicts.',
                      technique='Coq proof by induction over the matcher loop; differential correspondence of the extracted model against DiffTool::diff; proved DP oracle on implementation verdicts'),
        exhaustive={'quick': False, 'thorough': False},
        assumptions=['rule semantics are abstract (any `matches` function): C04 covers the concrete rules',
                     'the correspondence compares acceptance (Diff::has_differences and TestCase::validate) of the real DiffTool with the model on every case'],
    ),
    'C02': dict(
        theorems=['C02_conservation', 'C02_terminates', 'C02_oracle_exact', 'C02_bytes_conserved'],
        streams=diff_streams,
        spec_kinds=['SPEC:C02'], corr_kinds=['DIFF:entries'],
        case_format=DIFF_FORMAT,
        rule='same cases as C01; the whole Diff.lines vector (kinds, expectation indices, line indices, line contents) is compared with the model and '
             'the proved boolean conservation_b is evaluated on the implementation\'s diff; panics/errors count as violations',
        manifest=dict(text='Machine-checked theorem (Coq): the model of DiffTool::diff terminates (fuel lemma) and its result mentions every line once in order under its own index, expectations at most once in order, non-optional ones exactly once, with well-formed entries (C02_conservation); byte level: the lines are a partition of the stream. Tied to /repo by comparing the full diff vector on every generated case and by evaluating the proved boolean conservation_b on the implementation result.',
                      technique='Coq proof (loop invariant + fuel/termination lemma); differential correspondence on the whole diff vector; proved conservation oracle on implementation diffs'),
        exhaustive={'quick': False, 'thorough': False},
        assumptions=['line contents reported by the implementation are checked against the output bytes by the harness'],
    ),
    'C03': dict(
        theorems=['C03_complete_when_deterministic', 'C03_no_quantifiers_deterministic', 'C03_own_lines_pass'],
        streams=diff_streams,
        spec_kinds=['SPEC:C03'], corr_kinds=['DIFF:accept', 'DIFF:validate'],
        case_format=DIFF_FORMAT,
        rule='same cases as C01; on every case where the proved detb holds the implementation must accept iff describedb',
        manifest=dict(text='Machine-checked theorem (Coq): under one-line-lookahead determinism (detb) the model accepts iff the output is described (C03_complete_when_deterministic), with corollaries for quantifier-free lists and own-lines; the hypothesis is shown necessary by a closed counterexample. Tied to /repo as C01; the oracle detb => (accepts <-> describedb) is evaluated on the implementation.',
                      technique='Coq proof by simulation of the greedy cursor against the unique reading; differential correspondence; proved determinism/description oracles on implementation verdicts'),
        exhaustive={'quick': False, 'thorough': False},
        assumptions=[],
    ),
}


def config_streams(tier):
    n = {'quick': 40000, 'extended': 400000, 'thorough': 2000000}[tier]
    return [dict(name='layers', harness=['config', str(n), '{seed}', '{shard}', '{nshards}'], driver='config')]


PROPS['C16'] = dict(
    family='line',
    theorems=['C16_precedence_scalars', 'C16_precedence_env', 'C16_assoc', 'C16_empty_identity', 'C16_doc_assoc',
              'C16_doc_empty_identity', 'C16_lists_accumulate', 'C16_format_defaults', 'C16_oracle'],
    streams=config_streams,
    spec_kinds=['SPEC:C16'], corr_kinds=['DIFF:'],
    case_format='E cli;tc;doc;fmt;forced|effective  (layers as os= kc= to= de= sk= sa= wa= env=name:value,...; - = unset)  '
                'A a;b;c|(a>b)>c|a>(b>c)|a>empty|empty>a   D doc configs a;b;c|a.with_defaults_from(b)|a.with_overrides_from(b)|left|right   '
                'P inline;document defaults|config of the test case MarkdownParser::parse returns|document defaults it returns',
    rule='exhaustive {unset,A,B}^4 per key (8 keys x 81) through the real with_defaults_from/with_overrides_from composition used by the parser, the test '
         'command and the executor; random layers with 4 densities; associativity/identity triples; DocumentConfig merges with prepend/append lists; '
         'Markdown documents with front-matter defaults + inline config parsed by the real MarkdownParser. Non-trivial: at least two layers set something; distinct by case text',
    manifest=dict(text='Machine-checked theorems (Coq): the composition of the three application sites (parser, test command, executor) yields, for every scalar key and every environment variable, the value of the highest-precedence layer that sets it; layering is associative with the empty layer as identity (test-case and document level); prepend/append accumulate in order; format defaults are pinned against constants regenerated from /repo. Tied to /repo by running the real merge functions and the real MarkdownParser on exhaustive {unset,A,B}^4 per key and random layers.',
                  technique='Coq proof (case analysis over option layers, lookup over insertion sequences) + constants regenerated from source + differential correspondence of the extracted model against config.rs and the Markdown parse site'),
    exhaustive={'quick': False, 'thorough': False},
    assumptions=['command-line layer: exercised through with_overrides_from as bin/commands/test.rs applies it; clap argument parsing itself is not modelled',
                 'format defaults are regenerated from /repo (gen_Consts.v) on every run and pinned by C16_format_defaults'],
)


def run_one(prop, inp, ctx):
    """re-run one case through the implementation and the model; returns CASE lines"""
    cfg = PROPS[prop]
    fam = cfg.get('family', 'diff')
    if fam == 'diff':
        f = inp.split('|')[0].split(' ')
        rc, out = ctx['sh']('%s diff one %s | %s diff' % (ctx['SVH'], ' '.join("'%s'" % x for x in f[:5]), ctx['SVD']))
        return [l for l in out.split('\n') if l.startswith('CASE')], out
    if fam == 'line':
        # generic: the case line carries the implementation's result; re-evaluate the model/oracle on it
        drv = cfg['streams']('quick')[0]['driver']
        rc, out = ctx['sh']([ctx['SVD'], drv], inp=(inp + '\n').encode())
        return [l for l in out.split('\n') if l.startswith('CASE')], out
    return [], ''


def minimise(prop, case, ctx):
    cfg = PROPS[prop]
    if cfg.get('family', 'diff') != 'diff':
        return case
    kind = case['kind']

    def still(inp):
        ls, _ = run_one(prop, inp, ctx)
        for l in ls:
            f = l.split('\t')
            if f[1] == kind:
                return {'kind': f[1], 'detail': f[2], 'input': '\t'.join(f[3:]), 'stream': case.get('stream')}
        return None
    cur = case
    changed = True
    while changed:
        changed = False
        f = cur['input'].split('|')[0].split(' ')
        ne, nl, q, m, fl = int(f[0]), int(f[1]), f[2], f[3], f[4]
        rows = [m[i * nl:(i + 1) * nl] for i in range(ne)] if ne * nl else [''] * ne
        cands = []
        for i in range(ne):
            r2 = rows[:i] + rows[i + 1:]
            q2 = q[:i] + q[i + 1:]
            cands.append((ne - 1, nl, q2 or '-', ''.join(r2) or '-', fl))
        for j in range(nl):
            r2 = [r[:j] + r[j + 1:] for r in rows]
            cands.append((ne, nl - 1, q if ne else '-', ''.join(r2) or '-', fl))
        for c in cands:
            r = still('%d %d %s %s %s' % c)
            if r:
                cur = r
                changed = True
                break
    return cur


def replay(prop, path, ctx):
    obj = json.load(open(path))
    inp = obj.get('input')
    if not inp:
        print(json.dumps(obj, indent=1))
        return 1
    ls, out = run_one(prop, inp, ctx)
    print(out)
    bad = [l for l in ls if any(l.split('\t')[1].startswith(k) for k in PROPS[prop]['spec_kinds'])]
    if bad:
        print('VIOLATION property=%s replay=%s' % (prop, path))
        return 1
    return 0
