
(** val xorb : bool -> bool -> bool **)

let xorb b1 b2 =
  if b1 then if b2 then false else true else b2

(** val negb : bool -> bool **)

let negb = function
| true -> false
| false -> true

type nat =
| O
| S of nat

(** val option_map : ('a1 -> 'a2) -> 'a1 option -> 'a2 option **)

let option_map f = function
| Some a -> Some (f a)
| None -> None

(** val fst : ('a1 * 'a2) -> 'a1 **)

let fst = function
| (x, _) -> x

(** val snd : ('a1 * 'a2) -> 'a2 **)

let snd = function
| (_, y) -> y

(** val length : 'a1 list -> nat **)

let rec length = function
| [] -> O
| _ :: l' -> S (length l')

(** val app : 'a1 list -> 'a1 list -> 'a1 list **)

let rec app l m =
  match l with
  | [] -> m
  | a :: l1 -> a :: (app l1 m)

type comparison =
| Eq
| Lt
| Gt

(** val add : nat -> nat -> nat **)

let rec add n0 m =
  match n0 with
  | O -> m
  | S p -> S (add p m)

(** val sub : nat -> nat -> nat **)

let rec sub n0 m =
  match n0 with
  | O -> n0
  | S k -> (match m with
            | O -> n0
            | S l -> sub k l)

(** val eqb : nat -> nat -> bool **)

let rec eqb n0 m =
  match n0 with
  | O -> (match m with
          | O -> true
          | S _ -> false)
  | S n' -> (match m with
             | O -> false
             | S m' -> eqb n' m')

(** val leb : nat -> nat -> bool **)

let rec leb n0 m =
  match n0 with
  | O -> true
  | S n' -> (match m with
             | O -> false
             | S m' -> leb n' m')

(** val ltb : nat -> nat -> bool **)

let ltb n0 m =
  leb (S n0) m

(** val max : nat -> nat -> nat **)

let rec max n0 m =
  match n0 with
  | O -> m
  | S n' -> (match m with
             | O -> n0
             | S m' -> S (max n' m'))

(** val eqb0 : bool -> bool -> bool **)

let eqb0 b1 b2 =
  if b1 then b2 else if b2 then false else true

module Nat =
 struct
  (** val eqb : nat -> nat -> bool **)

  let rec eqb n0 m =
    match n0 with
    | O -> (match m with
            | O -> true
            | S _ -> false)
    | S n' -> (match m with
               | O -> false
               | S m' -> eqb n' m')

  (** val leb : nat -> nat -> bool **)

  let rec leb n0 m =
    match n0 with
    | O -> true
    | S n' -> (match m with
               | O -> false
               | S m' -> leb n' m')

  (** val ltb : nat -> nat -> bool **)

  let ltb n0 m =
    leb (S n0) m
 end

(** val tl : 'a1 list -> 'a1 list **)

let tl = function
| [] -> []
| _ :: m -> m

(** val nth : nat -> 'a1 list -> 'a1 -> 'a1 **)

let rec nth n0 l default =
  match n0 with
  | O -> (match l with
          | [] -> default
          | x :: _ -> x)
  | S m -> (match l with
            | [] -> default
            | _ :: t -> nth m t default)

(** val nth_error : 'a1 list -> nat -> 'a1 option **)

let rec nth_error l = function
| O -> (match l with
        | [] -> None
        | x :: _ -> Some x)
| S n1 -> (match l with
           | [] -> None
           | _ :: l0 -> nth_error l0 n1)

(** val removelast : 'a1 list -> 'a1 list **)

let rec removelast = function
| [] -> []
| a :: l0 -> (match l0 with
              | [] -> []
              | _ :: _ -> a :: (removelast l0))

(** val rev : 'a1 list -> 'a1 list **)

let rec rev = function
| [] -> []
| x :: l' -> app (rev l') (x :: [])

(** val concat : 'a1 list list -> 'a1 list **)

let rec concat = function
| [] -> []
| x :: l0 -> app x (concat l0)

(** val map : ('a1 -> 'a2) -> 'a1 list -> 'a2 list **)

let rec map f = function
| [] -> []
| a :: t -> (f a) :: (map f t)

(** val flat_map : ('a1 -> 'a2 list) -> 'a1 list -> 'a2 list **)

let rec flat_map f = function
| [] -> []
| x :: t -> app (f x) (flat_map f t)

(** val fold_left : ('a1 -> 'a2 -> 'a1) -> 'a2 list -> 'a1 -> 'a1 **)

let rec fold_left f l a0 =
  match l with
  | [] -> a0
  | b :: t -> fold_left f t (f a0 b)

(** val fold_right : ('a2 -> 'a1 -> 'a1) -> 'a1 -> 'a2 list -> 'a1 **)

let rec fold_right f a0 = function
| [] -> a0
| b :: t -> f b (fold_right f a0 t)

(** val existsb : ('a1 -> bool) -> 'a1 list -> bool **)

let rec existsb f = function
| [] -> false
| a :: l0 -> (||) (f a) (existsb f l0)

(** val forallb : ('a1 -> bool) -> 'a1 list -> bool **)

let rec forallb f = function
| [] -> true
| a :: l0 -> (&&) (f a) (forallb f l0)

(** val filter : ('a1 -> bool) -> 'a1 list -> 'a1 list **)

let rec filter f = function
| [] -> []
| x :: l0 -> if f x then x :: (filter f l0) else filter f l0

(** val combine : 'a1 list -> 'a2 list -> ('a1 * 'a2) list **)

let rec combine l l' =
  match l with
  | [] -> []
  | x :: tl0 ->
    (match l' with
     | [] -> []
     | y :: tl' -> (x, y) :: (combine tl0 tl'))

(** val firstn : nat -> 'a1 list -> 'a1 list **)

let rec firstn n0 l =
  match n0 with
  | O -> []
  | S n1 -> (match l with
             | [] -> []
             | a :: l0 -> a :: (firstn n1 l0))

(** val skipn : nat -> 'a1 list -> 'a1 list **)

let rec skipn n0 l =
  match n0 with
  | O -> l
  | S n1 -> (match l with
             | [] -> []
             | _ :: l0 -> skipn n1 l0)

(** val seq : nat -> nat -> nat list **)

let rec seq start = function
| O -> []
| S len0 -> start :: (seq (S start) len0)

(** val repeat : 'a1 -> nat -> 'a1 list **)

let rec repeat x = function
| O -> []
| S k -> x :: (repeat x k)

type positive =
| XI of positive
| XO of positive
| XH

type n =
| N0
| Npos of positive

type z =
| Z0
| Zpos of positive
| Zneg of positive

module Pos =
 struct
  type mask =
  | IsNul
  | IsPos of positive
  | IsNeg
 end

module Coq_Pos =
 struct
  (** val succ : positive -> positive **)

  let rec succ = function
  | XI p -> XO (succ p)
  | XO p -> XI p
  | XH -> XO XH

  (** val add : positive -> positive -> positive **)

  let rec add x y =
    match x with
    | XI p ->
      (match y with
       | XI q -> XO (add_carry p q)
       | XO q -> XI (add p q)
       | XH -> XO (succ p))
    | XO p ->
      (match y with
       | XI q -> XI (add p q)
       | XO q -> XO (add p q)
       | XH -> XI p)
    | XH -> (match y with
             | XI q -> XO (succ q)
             | XO q -> XI q
             | XH -> XO XH)

  (** val add_carry : positive -> positive -> positive **)

  and add_carry x y =
    match x with
    | XI p ->
      (match y with
       | XI q -> XI (add_carry p q)
       | XO q -> XO (add_carry p q)
       | XH -> XI (succ p))
    | XO p ->
      (match y with
       | XI q -> XO (add_carry p q)
       | XO q -> XI (add p q)
       | XH -> XO (succ p))
    | XH ->
      (match y with
       | XI q -> XI (succ q)
       | XO q -> XO (succ q)
       | XH -> XI XH)

  (** val pred_double : positive -> positive **)

  let rec pred_double = function
  | XI p -> XI (XO p)
  | XO p -> XI (pred_double p)
  | XH -> XH

  type mask = Pos.mask =
  | IsNul
  | IsPos of positive
  | IsNeg

  (** val succ_double_mask : mask -> mask **)

  let succ_double_mask = function
  | IsNul -> IsPos XH
  | IsPos p -> IsPos (XI p)
  | IsNeg -> IsNeg

  (** val double_mask : mask -> mask **)

  let double_mask = function
  | IsPos p -> IsPos (XO p)
  | x0 -> x0

  (** val double_pred_mask : positive -> mask **)

  let double_pred_mask = function
  | XI p -> IsPos (XO (XO p))
  | XO p -> IsPos (XO (pred_double p))
  | XH -> IsNul

  (** val sub_mask : positive -> positive -> mask **)

  let rec sub_mask x y =
    match x with
    | XI p ->
      (match y with
       | XI q -> double_mask (sub_mask p q)
       | XO q -> succ_double_mask (sub_mask p q)
       | XH -> IsPos (XO p))
    | XO p ->
      (match y with
       | XI q -> succ_double_mask (sub_mask_carry p q)
       | XO q -> double_mask (sub_mask p q)
       | XH -> IsPos (pred_double p))
    | XH -> (match y with
             | XH -> IsNul
             | _ -> IsNeg)

  (** val sub_mask_carry : positive -> positive -> mask **)

  and sub_mask_carry x y =
    match x with
    | XI p ->
      (match y with
       | XI q -> succ_double_mask (sub_mask_carry p q)
       | XO q -> double_mask (sub_mask p q)
       | XH -> IsPos (pred_double p))
    | XO p ->
      (match y with
       | XI q -> double_mask (sub_mask_carry p q)
       | XO q -> succ_double_mask (sub_mask_carry p q)
       | XH -> double_pred_mask p)
    | XH -> IsNeg

  (** val mul : positive -> positive -> positive **)

  let rec mul x y =
    match x with
    | XI p -> add y (XO (mul p y))
    | XO p -> XO (mul p y)
    | XH -> y

  (** val size_nat : positive -> nat **)

  let rec size_nat = function
  | XI p0 -> S (size_nat p0)
  | XO p0 -> S (size_nat p0)
  | XH -> S O

  (** val compare_cont : comparison -> positive -> positive -> comparison **)

  let rec compare_cont r x y =
    match x with
    | XI p ->
      (match y with
       | XI q -> compare_cont r p q
       | XO q -> compare_cont Gt p q
       | XH -> Gt)
    | XO p ->
      (match y with
       | XI q -> compare_cont Lt p q
       | XO q -> compare_cont r p q
       | XH -> Gt)
    | XH -> (match y with
             | XH -> r
             | _ -> Lt)

  (** val compare : positive -> positive -> comparison **)

  let compare =
    compare_cont Eq

  (** val eqb : positive -> positive -> bool **)

  let rec eqb p q =
    match p with
    | XI p0 -> (match q with
                | XI q0 -> eqb p0 q0
                | _ -> false)
    | XO p0 -> (match q with
                | XO q0 -> eqb p0 q0
                | _ -> false)
    | XH -> (match q with
             | XH -> true
             | _ -> false)

  (** val of_succ_nat : nat -> positive **)

  let rec of_succ_nat = function
  | O -> XH
  | S x -> succ (of_succ_nat x)
 end

module N =
 struct
  (** val succ_double : n -> n **)

  let succ_double = function
  | N0 -> Npos XH
  | Npos p -> Npos (XI p)

  (** val double : n -> n **)

  let double = function
  | N0 -> N0
  | Npos p -> Npos (XO p)

  (** val add : n -> n -> n **)

  let add n0 m =
    match n0 with
    | N0 -> m
    | Npos p -> (match m with
                 | N0 -> n0
                 | Npos q -> Npos (Coq_Pos.add p q))

  (** val sub : n -> n -> n **)

  let sub n0 m =
    match n0 with
    | N0 -> N0
    | Npos n' ->
      (match m with
       | N0 -> n0
       | Npos m' ->
         (match Coq_Pos.sub_mask n' m' with
          | Coq_Pos.IsPos p -> Npos p
          | _ -> N0))

  (** val mul : n -> n -> n **)

  let mul n0 m =
    match n0 with
    | N0 -> N0
    | Npos p -> (match m with
                 | N0 -> N0
                 | Npos q -> Npos (Coq_Pos.mul p q))

  (** val compare : n -> n -> comparison **)

  let compare n0 m =
    match n0 with
    | N0 -> (match m with
             | N0 -> Eq
             | Npos _ -> Lt)
    | Npos n' -> (match m with
                  | N0 -> Gt
                  | Npos m' -> Coq_Pos.compare n' m')

  (** val eqb : n -> n -> bool **)

  let eqb n0 m =
    match n0 with
    | N0 -> (match m with
             | N0 -> true
             | Npos _ -> false)
    | Npos p -> (match m with
                 | N0 -> false
                 | Npos q -> Coq_Pos.eqb p q)

  (** val leb : n -> n -> bool **)

  let leb x y =
    match compare x y with
    | Gt -> false
    | _ -> true

  (** val ltb : n -> n -> bool **)

  let ltb x y =
    match compare x y with
    | Lt -> true
    | _ -> false

  (** val max : n -> n -> n **)

  let max n0 n' =
    match compare n0 n' with
    | Gt -> n0
    | _ -> n'

  (** val size_nat : n -> nat **)

  let size_nat = function
  | N0 -> O
  | Npos p -> Coq_Pos.size_nat p

  (** val pos_div_eucl : positive -> n -> n * n **)

  let rec pos_div_eucl a b =
    match a with
    | XI a' ->
      let (q, r) = pos_div_eucl a' b in
      let r' = succ_double r in
      if leb b r' then ((succ_double q), (sub r' b)) else ((double q), r')
    | XO a' ->
      let (q, r) = pos_div_eucl a' b in
      let r' = double r in
      if leb b r' then ((succ_double q), (sub r' b)) else ((double q), r')
    | XH ->
      (match b with
       | N0 -> (N0, (Npos XH))
       | Npos p -> (match p with
                    | XH -> ((Npos XH), N0)
                    | _ -> (N0, (Npos XH))))

  (** val div_eucl : n -> n -> n * n **)

  let div_eucl a b =
    match a with
    | N0 -> (N0, N0)
    | Npos na -> (match b with
                  | N0 -> (N0, a)
                  | Npos _ -> pos_div_eucl na b)

  (** val div : n -> n -> n **)

  let div a b =
    fst (div_eucl a b)

  (** val modulo : n -> n -> n **)

  let modulo a b =
    snd (div_eucl a b)

  (** val of_nat : nat -> n **)

  let of_nat = function
  | O -> N0
  | S n' -> Npos (Coq_Pos.of_succ_nat n')
 end

module Z =
 struct
  (** val opp : z -> z **)

  let opp = function
  | Z0 -> Z0
  | Zpos x0 -> Zneg x0
  | Zneg x0 -> Zpos x0

  (** val eqb : z -> z -> bool **)

  let eqb x y =
    match x with
    | Z0 -> (match y with
             | Z0 -> true
             | _ -> false)
    | Zpos p -> (match y with
                 | Zpos q -> Coq_Pos.eqb p q
                 | _ -> false)
    | Zneg p -> (match y with
                 | Zneg q -> Coq_Pos.eqb p q
                 | _ -> false)

  (** val to_N : z -> n **)

  let to_N = function
  | Zpos p -> Npos p
  | _ -> N0

  (** val of_N : n -> z **)

  let of_N = function
  | N0 -> Z0
  | Npos p -> Zpos p
 end

type 'line exp = { opt : bool; mul0 : bool; mt : ('line -> bool) }

type 'line entry =
| EMatched of nat * (nat * 'line) list
| EUnmatched of nat
| EUnexpected of (nat * 'line) list

(** val is_nil : 'a1 list -> bool **)

let is_nil = function
| [] -> true
| _ :: _ -> false

(** val find_idx : ('a1 -> bool) -> 'a1 list -> nat option **)

let rec find_idx p = function
| [] -> None
| x :: r -> if p x then Some O else option_map (fun x0 -> S x0) (find_idx p r)

(** val unmatched : nat -> 'a1 exp list -> 'a1 entry list **)

let rec unmatched ei = function
| [] -> []
| e :: r ->
  app (if e.opt then [] else (EUnmatched ei) :: []) (unmatched (S ei) r)

(** val number : nat -> 'a1 list -> (nat * 'a1) list **)

let rec number li = function
| [] -> []
| l :: r -> (li, l) :: (number (S li) r)

(** val loop :
    nat -> 'a1 exp list -> nat -> 'a1 list -> nat -> (nat * 'a1) list -> 'a1
    entry list option **)

let rec loop fuel es ei ls li run =
  match fuel with
  | O -> None
  | S f ->
    (match es with
     | [] ->
       Some
         (app
           (if is_nil run
            then unmatched ei es
            else (match es with
                  | [] -> []
                  | _ :: es' -> (EMatched (ei, run)) :: (unmatched (S ei) es')))
           (if is_nil ls then [] else (EUnexpected (number li ls)) :: []))
     | e :: es' ->
       (match ls with
        | [] ->
          Some
            (app
              (if is_nil run
               then unmatched ei es
               else (match es with
                     | [] -> []
                     | _ :: es'0 ->
                       (EMatched (ei, run)) :: (unmatched (S ei) es'0)))
              (if is_nil ls then [] else (EUnexpected (number li ls)) :: []))
        | l :: ls' ->
          if e.mt l
          then if e.mul0
               then if match es' with
                       | [] -> false
                       | e2 :: _ ->
                         (&&) ((||) e.opt (negb (is_nil run))) (e2.mt l)
                    then option_map (fun d ->
                           app
                             (if is_nil run
                              then []
                              else (EMatched (ei, run)) :: []) d)
                           (loop f es' (S ei) ls li [])
                    else loop f es ei ls' (S li) (app run ((li, l) :: []))
               else option_map (fun x -> (EMatched (ei, ((li,
                      l) :: []))) :: x) (loop f es' (S ei) ls' (S li) [])
          else if negb (is_nil run)
               then option_map (fun x -> (EMatched (ei, run)) :: x)
                      (loop f es' (S ei) ls li [])
               else (match find_idx (fun e' -> e'.mt l) es' with
                     | Some k ->
                       option_map (app (unmatched ei (firstn (S k) es)))
                         (loop f (skipn (S k) es) (add ei (S k)) ls li [])
                     | None ->
                       (match find_idx e.mt ls' with
                        | Some k ->
                          option_map (fun x -> (EUnexpected
                            (number li (firstn (S k) ls))) :: x)
                            (loop f es ei (skipn (S k) ls) (add li (S k)) [])
                        | None ->
                          option_map
                            (app
                              (if e.opt then [] else (EUnmatched ei) :: []))
                            (loop f es' (S ei) ls li [])))))

(** val diff : 'a1 exp list -> 'a1 list -> 'a1 entry list option **)

let diff es ls =
  loop (S (add (length es) (length ls))) es O ls O []

(** val is_matched : 'a1 entry -> bool **)

let is_matched = function
| EMatched (_, _) -> true
| _ -> false

(** val accepts : 'a1 exp list -> 'a1 list -> bool **)

let accepts es ls =
  match diff es ls with
  | Some d -> forallb is_matched d
  | None -> false

(** val followers : 'a1 exp list -> nat list **)

let rec followers = function
| [] -> []
| e :: r -> O :: (if e.opt then map (fun x -> S x) (followers r) else [])

(** val cands : 'a1 exp list -> bool -> nat list **)

let cands es inrun =
  match es with
  | [] -> []
  | _ :: r ->
    if inrun then O :: (map (fun x -> S x) (followers r)) else followers es

(** val matches_at : 'a1 exp list -> 'a1 -> nat -> bool **)

let matches_at es l k =
  match nth_error es k with
  | Some e -> e.mt l
  | None -> false

(** val step : 'a1 exp list -> nat -> 'a1 exp list * bool **)

let step es k =
  match skipn k es with
  | [] -> ([], false)
  | e :: r -> if e.mul0 then ((e :: r), true) else (r, false)

(** val detb : 'a1 exp list -> bool -> 'a1 list -> bool **)

let rec detb es inrun = function
| [] -> true
| l :: r ->
  (match filter (matches_at es l) (cands es inrun) with
   | [] -> true
   | k :: l0 ->
     (match l0 with
      | [] -> let (es', ir') = step es k in detb es' ir' r
      | _ :: _ -> false))

(** val e_lines : 'a1 entry -> (nat * 'a1) list **)

let e_lines = function
| EMatched (_, b) -> b
| EUnmatched _ -> []
| EUnexpected b -> b

(** val e_exps : 'a1 entry -> nat list **)

let e_exps = function
| EMatched (i, _) -> i :: []
| EUnmatched i -> i :: []
| EUnexpected _ -> []

(** val lines_of : 'a1 entry list -> (nat * 'a1) list **)

let lines_of d =
  flat_map e_lines d

(** val exps_of : 'a1 entry list -> nat list **)

let exps_of d =
  flat_map e_exps d

(** val go : 'a1 exp -> ('a1 list -> bool) -> bool -> 'a1 list -> bool **)

let rec go e k first ls =
  (||) ((&&) ((||) (negb first) e.opt) (k ls))
    (match ls with
     | [] -> false
     | l :: ls' -> (&&) ((&&) (e.mt l) ((||) first e.mul0)) (go e k false ls'))

(** val describedb : 'a1 exp list -> 'a1 list -> bool **)

let rec describedb = function
| [] -> is_nil
| e :: r -> go e (describedb r) true

(** val ssortedb : nat list -> bool **)

let rec ssortedb = function
| [] -> true
| x :: r -> (&&) (forallb (fun y -> Nat.ltb x y) r) (ssortedb r)

(** val pairs_eqb :
    ('a1 -> 'a1 -> bool) -> (nat * 'a1) list -> (nat * 'a1) list -> bool **)

let rec pairs_eqb leqb a b =
  match a with
  | [] -> (match b with
           | [] -> true
           | _ :: _ -> false)
  | p :: a' ->
    let (i, x) = p in
    (match b with
     | [] -> false
     | p0 :: b' ->
       let (j, y) = p0 in
       (&&) ((&&) (Nat.eqb i j) (leqb x y)) (pairs_eqb leqb a' b'))

(** val entry_okb : 'a1 exp list -> 'a1 entry -> bool **)

let entry_okb es = function
| EMatched (i, b) ->
  (&&) (negb (is_nil b))
    (match nth_error es i with
     | Some e ->
       (&&) (forallb (fun p -> e.mt (snd p)) b)
         ((||) e.mul0 (Nat.eqb (length b) (S O)))
     | None -> false)
| EUnmatched i ->
  (match nth_error es i with
   | Some e -> negb e.opt
   | None -> false)
| EUnexpected b -> negb (is_nil b)

(** val conservation_b :
    ('a1 -> 'a1 -> bool) -> 'a1 exp list -> 'a1 list -> 'a1 entry list -> bool **)

let conservation_b leqb es ls d =
  (&&)
    ((&&)
      ((&&)
        ((&&) (pairs_eqb leqb (lines_of d) (number O ls))
          (ssortedb (exps_of d)))
        (forallb (fun x -> Nat.ltb x (length es)) (exps_of d)))
      (forallb (fun k ->
        match nth_error es k with
        | Some e -> (||) e.opt (existsb (Nat.eqb k) (exps_of d))
        | None -> true) (seq O (length es)))) (forallb (entry_okb es) d)

type byte = n

(** val nL : byte **)

let nL =
  Npos (XO (XI (XO XH)))

(** val split_aux : byte list -> byte list -> byte list list **)

let rec split_aux cur = function
| [] -> (match cur with
         | [] -> []
         | _ :: _ -> (rev cur) :: [])
| b :: r ->
  if N.eqb b nL
  then (rev (b :: cur)) :: (split_aux [] r)
  else split_aux (b :: cur) r

(** val split_lines : byte list -> byte list list **)

let split_lines bs =
  split_aux [] bs

(** val lines_aux : n list -> n list -> n list list **)

let rec lines_aux cur = function
| [] -> (match cur with
         | [] -> []
         | _ :: _ -> (rev cur) :: [])
| c :: r ->
  if N.eqb c (Npos (XO (XI (XO XH))))
  then (rev
         (match cur with
          | [] -> cur
          | n0 :: cur' ->
            (match n0 with
             | N0 -> cur
             | Npos p ->
               (match p with
                | XI p0 ->
                  (match p0 with
                   | XO p1 ->
                     (match p1 with
                      | XI p2 -> (match p2 with
                                  | XH -> cur'
                                  | _ -> cur)
                      | _ -> cur)
                   | _ -> cur)
                | _ -> cur)))) :: (lines_aux [] r)
  else lines_aux (c :: cur) r

(** val str_lines : n list -> n list list **)

let str_lines t =
  lines_aux [] t

(** val orelse : 'a1 option -> 'a1 option -> 'a1 option **)

let orelse a b =
  match a with
  | Some _ -> a
  | None -> b

(** val first_some : 'a1 option list -> 'a1 option **)

let first_some l =
  fold_right orelse None l

type env = (n * n) list

(** val lookup : n -> env -> n option **)

let rec lookup k = function
| [] -> None
| p :: r ->
  let (k', v) = p in
  (match lookup k r with
   | Some v' -> Some v'
   | None -> if N.eqb k k' then Some v else None)

type tcfg = { output_stream : n option; keep_crlf : bool option;
              timeout : n option; detached : bool option;
              skip_code : z option; strip_ansi : bool option;
              wait : n option; environment : env }

(** val with_defaults : tcfg -> tcfg -> tcfg **)

let with_defaults s d =
  { output_stream = (orelse s.output_stream d.output_stream); keep_crlf =
    (orelse s.keep_crlf d.keep_crlf); timeout = (orelse s.timeout d.timeout);
    detached = (orelse s.detached d.detached); skip_code =
    (orelse s.skip_code d.skip_code); strip_ansi =
    (orelse s.strip_ansi d.strip_ansi); wait = (orelse s.wait d.wait);
    environment = (app d.environment s.environment) }

(** val with_overrides : tcfg -> tcfg -> tcfg **)

let with_overrides s o =
  with_defaults o s

(** val with_environment : tcfg -> env -> tcfg **)

let with_environment s e =
  { output_stream = s.output_stream; keep_crlf = s.keep_crlf; timeout =
    s.timeout; detached = s.detached; skip_code = s.skip_code; strip_ansi =
    s.strip_ansi; wait = s.wait; environment = (app s.environment e) }

(** val tempty : tcfg **)

let tempty =
  { output_stream = None; keep_crlf = None; timeout = None; detached = None;
    skip_code = None; strip_ansi = None; wait = None; environment = [] }

type dcfg = { d_append : n list; d_defaults : tcfg; d_prepend : n list;
              d_shell : n option; d_total_timeout : n option }

(** val dwith_defaults : dcfg -> dcfg -> dcfg **)

let dwith_defaults s d =
  { d_append = (app d.d_append s.d_append); d_defaults =
    (with_defaults s.d_defaults d.d_defaults); d_prepend =
    (app s.d_prepend d.d_prepend); d_shell = (orelse s.d_shell d.d_shell);
    d_total_timeout = (orelse s.d_total_timeout d.d_total_timeout) }

(** val dwith_overrides : dcfg -> dcfg -> dcfg **)

let dwith_overrides s o =
  dwith_defaults o s

(** val dempty : dcfg **)

let dempty =
  { d_append = []; d_defaults = tempty; d_prepend = []; d_shell = None;
    d_total_timeout = None }

(** val effective : tcfg -> tcfg -> tcfg -> tcfg -> env -> tcfg **)

let effective cli tc doc0 fmt forced =
  with_defaults
    (with_environment
      (with_overrides (with_defaults (with_defaults tc doc0) fmt) cli) forced)
    doc0

(** val opt_eqb : ('a1 -> 'a1 -> bool) -> 'a1 option -> 'a1 option -> bool **)

let opt_eqb eqb1 a b =
  match a with
  | Some x -> (match b with
               | Some y -> eqb1 x y
               | None -> false)
  | None -> (match b with
             | Some _ -> false
             | None -> true)

(** val precedence_b :
    tcfg -> tcfg -> tcfg -> tcfg -> env -> n list -> tcfg -> bool **)

let precedence_b cli tc doc0 fmt forced keys r =
  (&&)
    ((&&)
      ((&&)
        ((&&)
          ((&&)
            ((&&)
              ((&&)
                (opt_eqb N.eqb r.output_stream
                  (first_some
                    (cli.output_stream :: (tc.output_stream :: (doc0.output_stream :: (fmt.output_stream :: []))))))
                (opt_eqb eqb0 r.keep_crlf
                  (first_some
                    (cli.keep_crlf :: (tc.keep_crlf :: (doc0.keep_crlf :: (fmt.keep_crlf :: [])))))))
              (opt_eqb N.eqb r.timeout
                (first_some
                  (cli.timeout :: (tc.timeout :: (doc0.timeout :: (fmt.timeout :: [])))))))
            (opt_eqb eqb0 r.detached
              (first_some
                (cli.detached :: (tc.detached :: (doc0.detached :: (fmt.detached :: [])))))))
          (opt_eqb Z.eqb r.skip_code
            (first_some
              (cli.skip_code :: (tc.skip_code :: (doc0.skip_code :: (fmt.skip_code :: [])))))))
        (opt_eqb eqb0 r.strip_ansi
          (first_some
            (cli.strip_ansi :: (tc.strip_ansi :: (doc0.strip_ansi :: (fmt.strip_ansi :: [])))))))
      (opt_eqb N.eqb r.wait
        (first_some
          (cli.wait :: (tc.wait :: (doc0.wait :: (fmt.wait :: [])))))))
    (forallb (fun k ->
      opt_eqb N.eqb (lookup k r.environment)
        (first_some
          ((lookup k forced) :: ((lookup k cli.environment) :: ((lookup k
                                                                  tc.environment) :: (
          (lookup k doc0.environment) :: ((lookup k fmt.environment) :: [])))))))
      keys)

(** val default_skip_document_code : z **)

let default_skip_document_code =
  Zpos (XO (XO (XO (XO (XI (XO XH))))))

(** val default_document_timeout_ms : n **)

let default_document_timeout_ms =
  Npos (XO (XO (XO (XO (XO (XI (XO (XI (XI (XI (XO (XI (XI (XI (XO (XI (XI
    (XO (XI XH)))))))))))))))))))

(** val tc_default_markdown : tcfg **)

let tc_default_markdown =
  { output_stream = (Some N0); keep_crlf = None; timeout = None; detached =
    None; skip_code = (Some (Zpos (XO (XO (XO (XO (XI (XO XH))))))));
    strip_ansi = None; wait = None; environment = [] }

(** val tc_default_cram : tcfg **)

let tc_default_cram =
  { output_stream = (Some (Npos (XO XH))); keep_crlf = (Some true); timeout =
    None; detached = None; skip_code = (Some (Zpos (XO (XO (XO (XO (XI (XO
    XH)))))))); strip_ansi = None; wait = None; environment = [] }

type exit =
| Code of z
| TimedOut
| ESkipped
| EDetached
| Unknown
| RunnerErr

type rstep = { status : exit; out_ok : bool }

type tcase = { expected : z option; t_skip : z; per_timeout : n option;
               empty_ok : bool }

type exec_result =
| ExOk of rstep list
| ExSkipped of nat
| ExTimeout of bool * rstep list
| ExFailed of nat

(** val cons_res : rstep -> exec_result -> exec_result **)

let cons_res r = function
| ExOk outs -> ExOk (r :: outs)
| ExTimeout (g, outs) -> ExTimeout (g, (r :: outs))
| x -> x

(** val exec : tcase list -> rstep list -> bool list -> nat -> exec_result **)

let rec exec tcs rs gs i =
  match tcs with
  | [] -> ExOk []
  | tc :: tcs' ->
    (match rs with
     | [] -> ExOk []
     | r :: rs' ->
       (match gs with
        | [] -> ExOk []
        | g :: gs' ->
          (match r.status with
           | Code c ->
             if Z.eqb c tc.t_skip
             then ExSkipped i
             else cons_res r (exec tcs' rs' gs' (S i))
           | TimedOut -> ExTimeout (g, (r :: []))
           | ESkipped -> ExSkipped i
           | EDetached ->
             cons_res { status = EDetached; out_ok = tc.empty_ok }
               (exec tcs' rs' gs' (S i))
           | Unknown ->
             ExOk
               (r :: (map (fun tc' -> { status = Unknown; out_ok =
                       tc'.empty_ok }) tcs'))
           | RunnerErr -> ExFailed i)))

type res =
| Success
| Failed
| FailedTimeout
| RSkipped

(** val verdict : tcase -> rstep -> res **)

let verdict tc r =
  match r.status with
  | Code c ->
    if Z.eqb c (match tc.expected with
                | Some e -> e
                | None -> Z0)
    then if r.out_ok then Success else Failed
    else Failed
  | _ -> Failed

(** val zip_with : ('a1 -> 'a2 -> 'a3) -> 'a1 list -> 'a2 list -> 'a3 list **)

let rec zip_with f a b =
  match a with
  | [] -> []
  | x :: a' ->
    (match b with
     | [] -> []
     | y :: b' -> (f x y) :: (zip_with f a' b'))

(** val doc_results :
    (tcase -> rstep -> res) -> tcase list -> exec_result -> res option list **)

let doc_results validate tcs = function
| ExOk outs ->
  zip_with (fun tc r ->
    match r.status with
    | EDetached -> None
    | _ -> Some (validate tc r)) tcs outs
| ExSkipped _ -> map (fun _ -> Some RSkipped) tcs
| ExTimeout (_, outs) ->
  app
    (zip_with (fun tc r -> Some
      (match r.status with
       | TimedOut -> FailedTimeout
       | _ -> validate tc r)) tcs outs)
    (map (fun _ -> Some RSkipped) (skipn (length outs) tcs))
| ExFailed _ -> []

(** val is_failure : res option -> bool **)

let is_failure = function
| Some r -> (match r with
             | Success -> false
             | RSkipped -> false
             | _ -> true)
| None -> false

(** val exit_status : res option list list -> z **)

let exit_status docs =
  if existsb (existsb is_failure) docs
  then Zpos (XO (XI (XO (XO (XI XH)))))
  else Z0

(** val effective_limit : n option -> n option -> (n * bool) option **)

let effective_limit per left =
  match per with
  | Some p ->
    (match left with
     | Some l -> if N.ltb l p then Some (l, true) else Some (p, false)
     | None -> Some (p, false))
  | None -> (match left with
             | Some l -> Some (l, true)
             | None -> None)

(** val time_left : n option -> n -> n option **)

let time_left total elapsed =
  option_map (fun t -> N.sub t elapsed) total

(** val gs_of : tcase list -> n option -> n list -> bool list **)

let gs_of tcs total elapsed =
  map (fun p ->
    match effective_limit (fst p).per_timeout (time_left total (snd p)) with
    | Some p0 -> let (_, g) = p0 in g
    | None -> false) (combine tcs elapsed)

(** val limits_of : tcase list -> n option -> n list -> n option list **)

let limits_of tcs total elapsed =
  map (fun p ->
    option_map fst
      (effective_limit (fst p).per_timeout (time_left total (snd p))))
    (combine tcs elapsed)

(** val exec_timed :
    tcase list -> rstep list -> n option -> n list -> exec_result **)

let exec_timed tcs rs total elapsed =
  exec tcs rs (gs_of tcs total elapsed) O

(** val count : (res option -> bool) -> res option list list -> nat **)

let count p docs =
  length (filter p (concat docs))

(** val is_success : res option -> bool **)

let is_success = function
| Some r -> (match r with
             | Success -> true
             | _ -> false)
| None -> false

(** val is_skipped : res option -> bool **)

let is_skipped = function
| Some r -> (match r with
             | RSkipped -> true
             | _ -> false)
| None -> false

(** val is_reported : res option -> bool **)

let is_reported = function
| Some _ -> true
| None -> false

(** val script_first_stop : rstep list -> rstep option **)

let rec script_first_stop = function
| [] -> None
| r :: t ->
  (match r.status with
   | Code _ -> script_first_stop t
   | EDetached -> script_first_stop t
   | _ -> Some r)

(** val find_skip : z -> rstep list -> nat -> nat option **)

let rec find_skip skip rs i =
  match rs with
  | [] -> None
  | r :: t ->
    (match r.status with
     | Code c -> if Z.eqb c skip then Some i else find_skip skip t (S i)
     | _ -> find_skip skip t (S i))

(** val exec_script : z -> rstep list -> exec_result **)

let exec_script skip rs =
  match script_first_stop rs with
  | Some r ->
    (match r.status with
     | TimedOut -> ExTimeout (true, (r :: []))
     | ESkipped -> ExSkipped O
     | _ -> ExFailed O)
  | None ->
    (match find_skip skip rs O with
     | Some i -> ExSkipped i
     | None -> ExOk rs)

(** val before_stop : rstep list -> rstep list **)

let rec before_stop = function
| [] -> []
| r :: t ->
  (match r.status with
   | Code _ -> r :: (before_stop t)
   | EDetached -> r :: (before_stop t)
   | _ -> [])

(** val produced : rstep list -> nat option -> rstep list **)

let produced rs = function
| Some k -> firstn k rs
| None -> rs

(** val exec_script2 : z -> rstep list -> nat option -> exec_result **)

let exec_script2 skip rs early =
  let p = produced rs early in
  (match find_skip skip (before_stop p) O with
   | Some i -> ExSkipped i
   | None ->
     (match script_first_stop p with
      | Some r ->
        (match r.status with
         | TimedOut -> ExTimeout (true, (r :: []))
         | ESkipped -> ExSkipped O
         | _ -> ExFailed O)
      | None -> (match early with
                 | Some _ -> ExFailed O
                 | None -> ExOk rs)))

(** val run_docs :
    (tcase list * exec_result) list -> res option list list * bool **)

let rec run_docs = function
| [] -> ([], false)
| p :: r ->
  let (tcs, e) = p in
  (match e with
   | ExFailed _ -> ([], true)
   | _ -> let (l, b) = run_docs r in (((doc_results verdict tcs e) :: l), b))

(** val run_exit : (tcase list * exec_result) list -> z **)

let run_exit docs =
  let (l, err) = run_docs docs in if err then Zpos XH else exit_status l

(** val run_outcomes :
    (tcase list * exec_result) list -> res option list list **)

let run_outcomes docs =
  let (l, err) = run_docs docs in if err then [] else l

(** val stream_ok : n option -> bool -> bool -> bool **)

let stream_ok os stdout_ok stderr_ok =
  match os with
  | Some n0 ->
    (match n0 with
     | N0 -> stdout_ok
     | Npos p -> (match p with
                  | XH -> stderr_ok
                  | _ -> stdout_ok))
  | None -> stdout_ok

(** val is_scalar : n -> bool **)

let is_scalar c =
  (||)
    (N.ltb c (Npos (XO (XO (XO (XO (XO (XO (XO (XO (XO (XO (XO (XI (XI (XO
      (XI XH)))))))))))))))))
    ((&&)
      (N.leb (Npos (XO (XO (XO (XO (XO (XO (XO (XO (XO (XO (XO (XO (XO (XI
        (XI XH)))))))))))))))) c)
      (N.ltb c (Npos (XO (XO (XO (XO (XO (XO (XO (XO (XO (XO (XO (XO (XO (XO
        (XO (XO (XI (XO (XO (XO XH)))))))))))))))))))))))

(** val enc : n -> n list **)

let enc c =
  if N.ltb c (Npos (XO (XO (XO (XO (XO (XO (XO XH))))))))
  then c :: []
  else if N.ltb c (Npos (XO (XO (XO (XO (XO (XO (XO (XO (XO (XO (XO
            XH))))))))))))
       then (N.add (Npos (XO (XO (XO (XO (XO (XO (XI XH))))))))
              (N.div c (Npos (XO (XO (XO (XO (XO (XO XH))))))))) :: (
              (N.add (Npos (XO (XO (XO (XO (XO (XO (XO XH))))))))
                (N.modulo c (Npos (XO (XO (XO (XO (XO (XO XH))))))))) :: [])
       else if N.ltb c (Npos (XO (XO (XO (XO (XO (XO (XO (XO (XO (XO (XO (XO
                 (XO (XO (XO (XO XH)))))))))))))))))
            then (N.add (Npos (XO (XO (XO (XO (XO (XI (XI XH))))))))
                   (N.div c (Npos (XO (XO (XO (XO (XO (XO (XO (XO (XO (XO (XO
                     (XO XH))))))))))))))) :: ((N.add (Npos (XO (XO (XO (XO
                                                 (XO (XO (XO XH))))))))
                                                 (N.modulo
                                                   (N.div c (Npos (XO (XO (XO
                                                     (XO (XO (XO XH))))))))
                                                   (Npos (XO (XO (XO (XO (XO
                                                   (XO XH))))))))) :: (
                   (N.add (Npos (XO (XO (XO (XO (XO (XO (XO XH))))))))
                     (N.modulo c (Npos (XO (XO (XO (XO (XO (XO XH))))))))) :: []))
            else (N.add (Npos (XO (XO (XO (XO (XI (XI (XI XH))))))))
                   (N.div c (Npos (XO (XO (XO (XO (XO (XO (XO (XO (XO (XO (XO
                     (XO (XO (XO (XO (XO (XO (XO XH))))))))))))))))))))) :: (
                   (N.add (Npos (XO (XO (XO (XO (XO (XO (XO XH))))))))
                     (N.modulo
                       (N.div c (Npos (XO (XO (XO (XO (XO (XO (XO (XO (XO (XO
                         (XO (XO XH)))))))))))))) (Npos (XO (XO (XO (XO (XO
                       (XO XH))))))))) :: ((N.add (Npos (XO (XO (XO (XO (XO
                                             (XO (XO XH))))))))
                                             (N.modulo
                                               (N.div c (Npos (XO (XO (XO (XO
                                                 (XO (XO XH)))))))) (Npos (XO
                                               (XO (XO (XO (XO (XO XH))))))))) :: (
                   (N.add (Npos (XO (XO (XO (XO (XO (XO (XO XH))))))))
                     (N.modulo c (Npos (XO (XO (XO (XO (XO (XO XH))))))))) :: [])))

(** val cont : n -> bool **)

let cont b =
  (&&) (N.leb (Npos (XO (XO (XO (XO (XO (XO (XO XH)))))))) b)
    (N.ltb b (Npos (XO (XO (XO (XO (XO (XO (XI XH)))))))))

(** val dec1 : n list -> (n * n list) option **)

let dec1 = function
| [] -> None
| b0 :: r ->
  if N.ltb b0 (Npos (XO (XO (XO (XO (XO (XO (XO XH))))))))
  then Some (b0, r)
  else if N.ltb b0 (Npos (XO (XI (XO (XO (XO (XO (XI XH))))))))
       then None
       else if N.ltb b0 (Npos (XO (XO (XO (XO (XO (XI (XI XH))))))))
            then (match r with
                  | [] -> None
                  | b1 :: r1 ->
                    if cont b1
                    then Some
                           ((N.add
                              (N.mul
                                (N.sub b0 (Npos (XO (XO (XO (XO (XO (XO (XI
                                  XH))))))))) (Npos (XO (XO (XO (XO (XO (XO
                                XH))))))))
                              (N.sub b1 (Npos (XO (XO (XO (XO (XO (XO (XO
                                XH)))))))))), r1)
                    else None)
            else if N.ltb b0 (Npos (XO (XO (XO (XO (XI (XI (XI XH))))))))
                 then (match r with
                       | [] -> None
                       | b1 :: l ->
                         (match l with
                          | [] -> None
                          | b2 :: r2 ->
                            if (&&) (cont b1) (cont b2)
                            then let c =
                                   N.add
                                     (N.add
                                       (N.mul
                                         (N.sub b0 (Npos (XO (XO (XO (XO (XO
                                           (XI (XI XH))))))))) (Npos (XO (XO
                                         (XO (XO (XO (XO (XO (XO (XO (XO (XO
                                         (XO XH))))))))))))))
                                       (N.mul
                                         (N.sub b1 (Npos (XO (XO (XO (XO (XO
                                           (XO (XO XH))))))))) (Npos (XO (XO
                                         (XO (XO (XO (XO XH)))))))))
                                     (N.sub b2 (Npos (XO (XO (XO (XO (XO (XO
                                       (XO XH)))))))))
                                 in
                                 if (&&)
                                      (N.leb (Npos (XO (XO (XO (XO (XO (XO
                                        (XO (XO (XO (XO (XO XH)))))))))))) c)
                                      (is_scalar c)
                                 then Some (c, r2)
                                 else None
                            else None))
                 else if N.ltb b0 (Npos (XI (XO (XI (XO (XI (XI (XI XH))))))))
                      then (match r with
                            | [] -> None
                            | b1 :: l ->
                              (match l with
                               | [] -> None
                               | b2 :: l0 ->
                                 (match l0 with
                                  | [] -> None
                                  | b3 :: r3 ->
                                    if (&&) ((&&) (cont b1) (cont b2))
                                         (cont b3)
                                    then let c =
                                           N.add
                                             (N.add
                                               (N.add
                                                 (N.mul
                                                   (N.sub b0 (Npos (XO (XO
                                                     (XO (XO (XI (XI (XI
                                                     XH))))))))) (Npos (XO
                                                   (XO (XO (XO (XO (XO (XO
                                                   (XO (XO (XO (XO (XO (XO
                                                   (XO (XO (XO (XO (XO
                                                   XH))))))))))))))))))))
                                                 (N.mul
                                                   (N.sub b1 (Npos (XO (XO
                                                     (XO (XO (XO (XO (XO
                                                     XH))))))))) (Npos (XO
                                                   (XO (XO (XO (XO (XO (XO
                                                   (XO (XO (XO (XO (XO
                                                   XH)))))))))))))))
                                               (N.mul
                                                 (N.sub b2 (Npos (XO (XO (XO
                                                   (XO (XO (XO (XO XH)))))))))
                                                 (Npos (XO (XO (XO (XO (XO
                                                 (XO XH)))))))))
                                             (N.sub b3 (Npos (XO (XO (XO (XO
                                               (XO (XO (XO XH)))))))))
                                         in
                                         if (&&)
                                              (N.leb (Npos (XO (XO (XO (XO
                                                (XO (XO (XO (XO (XO (XO (XO
                                                (XO (XO (XO (XO (XO
                                                XH))))))))))))))))) c)
                                              (N.ltb c (Npos (XO (XO (XO (XO
                                                (XO (XO (XO (XO (XO (XO (XO
                                                (XO (XO (XO (XO (XO (XI (XO
                                                (XO (XO
                                                XH))))))))))))))))))))))
                                         then Some (c, r3)
                                         else None
                                    else None)))
                      else None

(** val dec_all : nat -> n list -> n list option **)

let rec dec_all fuel bs = match bs with
| [] -> Some []
| _ :: _ ->
  (match fuel with
   | O -> None
   | S f ->
     (match dec1 bs with
      | Some p -> let (c, r) = p in option_map (fun x -> c :: x) (dec_all f r)
      | None -> None))

(** val utf8_decode : n list -> n list option **)

let utf8_decode bs =
  dec_all (length bs) bs

(** val utf8_encode : n list -> n list **)

let utf8_encode cs =
  flat_map enc cs

(** val other_ranges : (n * n) list **)

let other_ranges =
  (N0, (Npos (XI (XI (XI (XI XH)))))) :: (((Npos (XI (XI (XI (XI (XI (XI
    XH))))))), (Npos (XI (XI (XI (XI (XI (XO (XO XH))))))))) :: (((Npos (XI
    (XO (XI (XI (XO (XI (XO XH)))))))), (Npos (XI (XO (XI (XI (XO (XI (XO
    XH))))))))) :: (((Npos (XO (XO (XO (XO (XO (XO (XO (XO (XO (XI
    XH))))))))))), (Npos (XI (XO (XI (XO (XO (XO (XO (XO (XO (XI
    XH)))))))))))) :: (((Npos (XO (XO (XI (XI (XI (XO (XO (XO (XO (XI
    XH))))))))))), (Npos (XO (XO (XI (XI (XI (XO (XO (XO (XO (XI
    XH)))))))))))) :: (((Npos (XI (XO (XI (XI (XI (XO (XI (XI (XO (XI
    XH))))))))))), (Npos (XI (XO (XI (XI (XI (XO (XI (XI (XO (XI
    XH)))))))))))) :: (((Npos (XI (XI (XI (XI (XO (XO (XO (XO (XI (XI
    XH))))))))))), (Npos (XI (XI (XI (XI (XO (XO (XO (XO (XI (XI
    XH)))))))))))) :: (((Npos (XO (XI (XI (XI (XO (XO (XO (XO (XO (XO (XO (XI
    XH))))))))))))), (Npos (XO (XI (XI (XI (XO (XO (XO (XO (XO (XO (XO (XI
    XH)))))))))))))) :: (((Npos (XI (XI (XO (XI (XO (XO (XO (XO (XO (XO (XO
    (XO (XO XH)))))))))))))), (Npos (XI (XI (XI (XI (XO (XO (XO (XO (XO (XO
    (XO (XO (XO XH))))))))))))))) :: (((Npos (XO (XI (XO (XI (XO (XI (XO (XO
    (XO (XO (XO (XO (XO XH)))))))))))))), (Npos (XO (XI (XI (XI (XO (XI (XO
    (XO (XO (XO (XO (XO (XO XH))))))))))))))) :: (((Npos (XO (XO (XO (XO (XO
    (XI (XI (XO (XO (XO (XO (XO (XO XH)))))))))))))), (Npos (XO (XO (XI (XO
    (XO (XI (XI (XO (XO (XO (XO (XO (XO XH))))))))))))))) :: (((Npos (XO (XI
    (XI (XO (XO (XI (XI (XO (XO (XO (XO (XO (XO XH)))))))))))))), (Npos (XI
    (XI (XI (XI (XO (XI (XI (XO (XO (XO (XO (XO (XO
    XH))))))))))))))) :: (((Npos (XO (XO (XO (XO (XO (XO (XO (XO (XO (XO (XO
    (XO (XO (XI (XI XH)))))))))))))))), (Npos (XI (XI (XI (XI (XI (XI (XI (XI
    (XO (XO (XO (XI (XI (XI (XI XH))))))))))))))))) :: (((Npos (XI (XI (XI
    (XI (XI (XI (XI (XI (XO (XI (XI (XI (XI (XI (XI XH)))))))))))))))), (Npos
    (XI (XI (XI (XI (XI (XI (XI (XI (XO (XI (XI (XI (XI (XI (XI
    XH))))))))))))))))) :: (((Npos (XI (XO (XO (XI (XI (XI (XI (XI (XI (XI
    (XI (XI (XI (XI (XI XH)))))))))))))))), (Npos (XI (XI (XO (XI (XI (XI (XI
    (XI (XI (XI (XI (XI (XI (XI (XI XH))))))))))))))))) :: (((Npos (XI (XO
    (XI (XI (XI (XI (XO (XI (XO (XO (XO (XO (XI (XO (XO (XO
    XH))))))))))))))))), (Npos (XI (XO (XI (XI (XI (XI (XO (XI (XO (XO (XO
    (XO (XI (XO (XO (XO XH)))))))))))))))))) :: (((Npos (XO (XO (XO (XO (XO
    (XI (XO (XI (XO (XO (XI (XI (XI (XI (XO (XI XH))))))))))))))))), (Npos
    (XI (XI (XO (XO (XO (XI (XO (XI (XO (XO (XI (XI (XI (XI (XO (XI
    XH)))))))))))))))))) :: (((Npos (XI (XI (XO (XO (XI (XI (XI (XO (XI (XO
    (XO (XO (XI (XO (XI (XI XH))))))))))))))))), (Npos (XO (XI (XO (XI (XI
    (XI (XI (XO (XI (XO (XO (XO (XI (XO (XI (XI
    XH)))))))))))))))))) :: (((Npos (XI (XO (XO (XO (XO (XO (XO (XO (XO (XO
    (XO (XO (XO (XO (XO (XO (XO (XI (XI XH)))))))))))))))))))), (Npos (XI (XO
    (XO (XO (XO (XO (XO (XO (XO (XO (XO (XO (XO (XO (XO (XO (XO (XI (XI
    XH))))))))))))))))))))) :: (((Npos (XO (XO (XO (XO (XO (XI (XO (XO (XO
    (XO (XO (XO (XO (XO (XO (XO (XO (XI (XI XH)))))))))))))))))))), (Npos (XI
    (XI (XI (XI (XI (XI (XI (XO (XO (XO (XO (XO (XO (XO (XO (XO (XO (XI (XI
    XH))))))))))))))))))))) :: (((Npos (XO (XO (XO (XO (XO (XO (XO (XO (XO
    (XO (XO (XO (XO (XO (XO (XO (XI (XI (XI XH)))))))))))))))))))), (Npos (XI
    (XO (XI (XI (XI (XI (XI (XI (XI (XI (XI (XI (XI (XI (XI (XI (XI (XI (XI
    XH))))))))))))))))))))) :: (((Npos (XO (XO (XO (XO (XO (XO (XO (XO (XO
    (XO (XO (XO (XO (XO (XO (XO (XO (XO (XO (XO XH))))))))))))))))))))),
    (Npos (XI (XO (XI (XI (XI (XI (XI (XI (XI (XI (XI (XI (XI (XI (XI (XI (XO
    (XO (XO (XO XH)))))))))))))))))))))) :: [])))))))))))))))))))))

(** val whitespace_ranges : (n * n) list **)

let whitespace_ranges =
  ((Npos (XI (XO (XO XH)))), (Npos (XI (XO (XI XH))))) :: (((Npos (XO (XO (XO
    (XO (XO XH)))))), (Npos (XO (XO (XO (XO (XO XH))))))) :: (((Npos (XI (XO
    (XI (XO (XO (XO (XO XH)))))))), (Npos (XI (XO (XI (XO (XO (XO (XO
    XH))))))))) :: (((Npos (XO (XO (XO (XO (XO (XI (XO XH)))))))), (Npos (XO
    (XO (XO (XO (XO (XI (XO XH))))))))) :: (((Npos (XO (XO (XO (XO (XO (XO
    (XO (XI (XO (XI (XI (XO XH))))))))))))), (Npos (XO (XO (XO (XO (XO (XO
    (XO (XI (XO (XI (XI (XO XH)))))))))))))) :: (((Npos (XO (XO (XO (XO (XO
    (XO (XO (XO (XO (XO (XO (XO (XO XH)))))))))))))), (Npos (XO (XI (XO (XI
    (XO (XO (XO (XO (XO (XO (XO (XO (XO XH))))))))))))))) :: (((Npos (XO (XO
    (XO (XI (XO (XI (XO (XO (XO (XO (XO (XO (XO XH)))))))))))))), (Npos (XI
    (XO (XO (XI (XO (XI (XO (XO (XO (XO (XO (XO (XO
    XH))))))))))))))) :: (((Npos (XI (XI (XI (XI (XO (XI (XO (XO (XO (XO (XO
    (XO (XO XH)))))))))))))), (Npos (XI (XI (XI (XI (XO (XI (XO (XO (XO (XO
    (XO (XO (XO XH))))))))))))))) :: (((Npos (XI (XI (XI (XI (XI (XO (XI (XO
    (XO (XO (XO (XO (XO XH)))))))))))))), (Npos (XI (XI (XI (XI (XI (XO (XI
    (XO (XO (XO (XO (XO (XO XH))))))))))))))) :: (((Npos (XO (XO (XO (XO (XO
    (XO (XO (XO (XO (XO (XO (XO (XI XH)))))))))))))), (Npos (XO (XO (XO (XO
    (XO (XO (XO (XO (XO (XO (XO (XO (XI XH))))))))))))))) :: [])))))))))

(** val letter_ranges : (n * n) list **)

let letter_ranges =
  ((Npos (XI (XO (XO (XO (XO (XO XH))))))), (Npos (XO (XI (XO (XI (XI (XO
    XH)))))))) :: (((Npos (XI (XO (XO (XO (XO (XI XH))))))), (Npos (XO (XI
    (XO (XI (XI (XI XH)))))))) :: (((Npos (XO (XI (XO (XI (XO (XI (XO
    XH)))))))), (Npos (XO (XI (XO (XI (XO (XI (XO XH))))))))) :: (((Npos (XI
    (XO (XI (XO (XI (XI (XO XH)))))))), (Npos (XI (XO (XI (XO (XI (XI (XO
    XH))))))))) :: (((Npos (XO (XI (XO (XI (XI (XI (XO XH)))))))), (Npos (XO
    (XI (XO (XI (XI (XI (XO XH))))))))) :: (((Npos (XO (XO (XO (XO (XO (XO
    (XI XH)))))))), (Npos (XO (XI (XI (XO (XI (XO (XI XH))))))))) :: (((Npos
    (XO (XO (XO (XI (XI (XO (XI XH)))))))), (Npos (XO (XI (XI (XO (XI (XI (XI
    XH))))))))) :: (((Npos (XO (XO (XO (XI (XI (XI (XI XH)))))))), (Npos (XI
    (XO (XO (XO (XO (XO (XI (XI (XO XH))))))))))) :: (((Npos (XO (XI (XI (XO
    (XO (XO (XI (XI (XO XH)))))))))), (Npos (XI (XO (XO (XO (XI (XO (XI (XI
    (XO XH))))))))))) :: (((Npos (XO (XO (XO (XO (XO (XI (XI (XI (XO
    XH)))))))))), (Npos (XO (XO (XI (XO (XO (XI (XI (XI (XO
    XH))))))))))) :: (((Npos (XO (XO (XI (XI (XO (XI (XI (XI (XO
    XH)))))))))), (Npos (XO (XO (XI (XI (XO (XI (XI (XI (XO
    XH))))))))))) :: (((Npos (XO (XI (XI (XI (XO (XI (XI (XI (XO
    XH)))))))))), (Npos (XO (XI (XI (XI (XO (XI (XI (XI (XO
    XH))))))))))) :: (((Npos (XO (XO (XO (XO (XI (XI (XI (XO (XI
    XH)))))))))), (Npos (XO (XO (XI (XO (XI (XI (XI (XO (XI
    XH))))))))))) :: (((Npos (XO (XI (XI (XO (XI (XI (XI (XO (XI
    XH)))))))))), (Npos (XI (XI (XI (XO (XI (XI (XI (XO (XI
    XH))))))))))) :: (((Npos (XO (XI (XO (XI (XI (XI (XI (XO (XI
    XH)))))))))), (Npos (XI (XO (XI (XI (XI (XI (XI (XO (XI
    XH))))))))))) :: (((Npos (XI (XI (XI (XI (XI (XI (XI (XO (XI
    XH)))))))))), (Npos (XI (XI (XI (XI (XI (XI (XI (XO (XI
    XH))))))))))) :: (((Npos (XO (XI (XI (XO (XO (XO (XO (XI (XI
    XH)))))))))), (Npos (XO (XI (XI (XO (XO (XO (XO (XI (XI
    XH))))))))))) :: (((Npos (XO (XO (XO (XI (XO (XO (XO (XI (XI
    XH)))))))))), (Npos (XO (XI (XO (XI (XO (XO (XO (XI (XI
    XH))))))))))) :: (((Npos (XO (XO (XI (XI (XO (XO (XO (XI (XI
    XH)))))))))), (Npos (XO (XO (XI (XI (XO (XO (XO (XI (XI
    XH))))))))))) :: (((Npos (XO (XI (XI (XI (XO (XO (XO (XI (XI
    XH)))))))))), (Npos (XI (XO (XO (XO (XO (XI (XO (XI (XI
    XH))))))))))) :: (((Npos (XI (XI (XO (XO (XO (XI (XO (XI (XI
    XH)))))))))), (Npos (XI (XO (XI (XO (XI (XI (XI (XI (XI
    XH))))))))))) :: (((Npos (XI (XI (XI (XO (XI (XI (XI (XI (XI
    XH)))))))))), (Npos (XI (XO (XO (XO (XO (XO (XO (XI (XO (XO
    XH)))))))))))) :: (((Npos (XO (XI (XO (XI (XO (XO (XO (XI (XO (XO
    XH))))))))))), (Npos (XI (XI (XI (XI (XO (XI (XO (XO (XI (XO
    XH)))))))))))) :: (((Npos (XI (XO (XO (XO (XI (XI (XO (XO (XI (XO
    XH))))))))))), (Npos (XO (XI (XI (XO (XI (XO (XI (XO (XI (XO
    XH)))))))))))) :: (((Npos (XI (XO (XO (XI (XI (XO (XI (XO (XI (XO
    XH))))))))))), (Npos (XI (XO (XO (XI (XI (XO (XI (XO (XI (XO
    XH)))))))))))) :: (((Npos (XO (XO (XO (XO (XO (XI (XI (XO (XI (XO
    XH))))))))))), (Npos (XO (XO (XO (XI (XO (XO (XO (XI (XI (XO
    XH)))))))))))) :: (((Npos (XO (XO (XO (XO (XI (XO (XI (XI (XI (XO
    XH))))))))))), (Npos (XO (XI (XO (XI (XO (XI (XI (XI (XI (XO
    XH)))))))))))) :: (((Npos (XI (XI (XI (XI (XO (XI (XI (XI (XI (XO
    XH))))))))))), (Npos (XO (XI (XO (XO (XI (XI (XI (XI (XI (XO
    XH)))))))))))) :: (((Npos (XO (XO (XO (XO (XO (XI (XO (XO (XO (XI
    XH))))))))))), (Npos (XO (XI (XO (XI (XO (XO (XI (XO (XO (XI
    XH)))))))))))) :: (((Npos (XO (XI (XI (XI (XO (XI (XI (XO (XO (XI
    XH))))))))))), (Npos (XI (XI (XI (XI (XO (XI (XI (XO (XO (XI
    XH)))))))))))) :: (((Npos (XI (XO (XO (XO (XI (XI (XI (XO (XO (XI
    XH))))))))))), (Npos (XI (XI (XO (XO (XI (XO (XI (XI (XO (XI
    XH)))))))))))) :: (((Npos (XI (XO (XI (XO (XI (XO (XI (XI (XO (XI
    XH))))))))))), (Npos (XI (XO (XI (XO (XI (XO (XI (XI (XO (XI
    XH)))))))))))) :: (((Npos (XI (XO (XI (XO (XO (XI (XI (XI (XO (XI
    XH))))))))))), (Npos (XO (XI (XI (XO (XO (XI (XI (XI (XO (XI
    XH)))))))))))) :: (((Npos (XO (XI (XI (XI (XO (XI (XI (XI (XO (XI
    XH))))))))))), (Npos (XI (XI (XI (XI (XO (XI (XI (XI (XO (XI
    XH)))))))))))) :: (((Npos (XO (XI (XO (XI (XI (XI (XI (XI (XO (XI
    XH))))))))))), (Npos (XO (XO (XI (XI (XI (XI (XI (XI (XO (XI
    XH)))))))))))) :: (((Npos (XI (XI (XI (XI (XI (XI (XI (XI (XO (XI
    XH))))))))))), (Npos (XI (XI (XI (XI (XI (XI (XI (XI (XO (XI
    XH)))))))))))) :: (((Npos (XO (XO (XO (XO (XI (XO (XO (XO (XI (XI
    XH))))))))))), (Npos (XO (XO (XO (XO (XI (XO (XO (XO (XI (XI
    XH)))))))))))) :: (((Npos (XO (XI (XO (XO (XI (XO (XO (XO (XI (XI
    XH))))))))))), (Npos (XI (XI (XI (XI (XO (XI (XO (XO (XI (XI
    XH)))))))))))) :: (((Npos (XI (XO (XI (XI (XO (XO (XI (XO (XI (XI
    XH))))))))))), (Npos (XI (XO (XI (XO (XO (XI (XO (XI (XI (XI
    XH)))))))))))) :: (((Npos (XI (XO (XO (XO (XI (XI (XO (XI (XI (XI
    XH))))))))))), (Npos (XI (XO (XO (XO (XI (XI (XO (XI (XI (XI
    XH)))))))))))) :: (((Npos (XO (XI (XO (XI (XO (XO (XI (XI (XI (XI
    XH))))))))))), (Npos (XO (XI (XO (XI (XO (XI (XI (XI (XI (XI
    XH)))))))))))) :: (((Npos (XO (XO (XI (XO (XI (XI (XI (XI (XI (XI
    XH))))))))))), (Npos (XI (XO (XI (XO (XI (XI (XI (XI (XI (XI
    XH)))))))))))) :: (((Npos (XO (XI (XO (XI (XI (XI (XI (XI (XI (XI
    XH))))))))))), (Npos (XO (XI (XO (XI (XI (XI (XI (XI (XI (XI
    XH)))))))))))) :: (((Npos (XO (XO (XO (XO (XO (XO (XO (XO (XO (XO (XO
    XH)))))))))))), (Npos (XI (XO (XI (XO (XI (XO (XO (XO (XO (XO (XO
    XH))))))))))))) :: (((Npos (XO (XI (XO (XI (XI (XO (XO (XO (XO (XO (XO
    XH)))))))))))), (Npos (XO (XI (XO (XI (XI (XO (XO (XO (XO (XO (XO
    XH))))))))))))) :: (((Npos (XO (XO (XI (XO (XO (XI (XO (XO (XO (XO (XO
    XH)))))))))))), (Npos (XO (XO (XI (XO (XO (XI (XO (XO (XO (XO (XO
    XH))))))))))))) :: (((Npos (XO (XO (XO (XI (XO (XI (XO (XO (XO (XO (XO
    XH)))))))))))), (Npos (XO (XO (XO (XI (XO (XI (XO (XO (XO (XO (XO
    XH))))))))))))) :: (((Npos (XO (XO (XO (XO (XO (XO (XI (XO (XO (XO (XO
    XH)))))))))))), (Npos (XO (XO (XO (XI (XI (XO (XI (XO (XO (XO (XO
    XH))))))))))))) :: (((Npos (XO (XO (XO (XO (XO (XI (XI (XO (XO (XO (XO
    XH)))))))))))), (Npos (XO (XI (XO (XI (XO (XI (XI (XO (XO (XO (XO
    XH))))))))))))) :: (((Npos (XO (XO (XO (XO (XI (XI (XI (XO (XO (XO (XO
    XH)))))))))))), (Npos (XI (XI (XI (XO (XO (XO (XO (XI (XO (XO (XO
    XH))))))))))))) :: (((Npos (XI (XO (XO (XI (XO (XO (XO (XI (XO (XO (XO
    XH)))))))))))), (Npos (XO (XI (XI (XI (XO (XO (XO (XI (XO (XO (XO
    XH))))))))))))) :: (((Npos (XO (XO (XO (XO (XO (XI (XO (XI (XO (XO (XO
    XH)))))))))))), (Npos (XI (XO (XO (XI (XO (XO (XI (XI (XO (XO (XO
    XH))))))))))))) :: (((Npos (XO (XO (XI (XO (XO (XO (XO (XO (XI (XO (XO
    XH)))))))))))), (Npos (XI (XO (XO (XI (XI (XI (XO (XO (XI (XO (XO
    XH))))))))))))) :: (((Npos (XI (XO (XI (XI (XI (XI (XO (XO (XI (XO (XO
    XH)))))))))))), (Npos (XI (XO (XI (XI (XI (XI (XO (XO (XI (XO (XO
    XH))))))))))))) :: (((Npos (XO (XO (XO (XO (XI (XO (XI (XO (XI (XO (XO
    XH)))))))))))), (Npos (XO (XO (XO (XO (XI (XO (XI (XO (XI (XO (XO
    XH))))))))))))) :: (((Npos (XO (XO (XO (XI (XI (XO (XI (XO (XI (XO (XO
    XH)))))))))))), (Npos (XI (XO (XO (XO (XO (XI (XI (XO (XI (XO (XO
    XH))))))))))))) :: (((Npos (XI (XO (XO (XO (XI (XI (XI (XO (XI (XO (XO
    XH)))))))))))), (Npos (XO (XO (XO (XO (XO (XO (XO (XI (XI (XO (XO
    XH))))))))))))) :: (((Npos (XI (XO (XI (XO (XO (XO (XO (XI (XI (XO (XO
    XH)))))))))))), (Npos (XO (XO (XI (XI (XO (XO (XO (XI (XI (XO (XO
    XH))))))))))))) :: (((Npos (XI (XI (XI (XI (XO (XO (XO (XI (XI (XO (XO
    XH)))))))))))), (Npos (XO (XO (XO (XO (XI (XO (XO (XI (XI (XO (XO
    XH))))))))))))) :: (((Npos (XI (XI (XO (XO (XI (XO (XO (XI (XI (XO (XO
    XH)))))))))))), (Npos (XO (XO (XO (XI (XO (XI (XO (XI (XI (XO (XO
    XH))))))))))))) :: (((Npos (XO (XI (XO (XI (XO (XI (XO (XI (XI (XO (XO
    XH)))))))))))), (Npos (XO (XO (XO (XO (XI (XI (XO (XI (XI (XO (XO
    XH))))))))))))) :: (((Npos (XO (XI (XO (XO (XI (XI (XO (XI (XI (XO (XO
    XH)))))))))))), (Npos (XO (XI (XO (XO (XI (XI (XO (XI (XI (XO (XO
    XH))))))))))))) :: (((Npos (XO (XI (XI (XO (XI (XI (XO (XI (XI (XO (XO
    XH)))))))))))), (Npos (XI (XO (XO (XI (XI (XI (XO (XI (XI (XO (XO
    XH))))))))))))) :: (((Npos (XI (XO (XI (XI (XI (XI (XO (XI (XI (XO (XO
    XH)))))))))))), (Npos (XI (XO (XI (XI (XI (XI (XO (XI (XI (XO (XO
    XH))))))))))))) :: (((Npos (XO (XI (XI (XI (XO (XO (XI (XI (XI (XO (XO
    XH)))))))))))), (Npos (XO (XI (XI (XI (XO (XO (XI (XI (XI (XO (XO
    XH))))))))))))) :: (((Npos (XO (XO (XI (XI (XI (XO (XI (XI (XI (XO (XO
    XH)))))))))))), (Npos (XI (XO (XI (XI (XI (XO (XI (XI (XI (XO (XO
    XH))))))))))))) :: (((Npos (XI (XI (XI (XI (XI (XO (XI (XI (XI (XO (XO
    XH)))))))))))), (Npos (XI (XO (XO (XO (XO (XI (XI (XI (XI (XO (XO
    XH))))))))))))) :: (((Npos (XO (XO (XO (XO (XI (XI (XI (XI (XI (XO (XO
    XH)))))))))))), (Npos (XI (XO (XO (XO (XI (XI (XI (XI (XI (XO (XO
    XH))))))))))))) :: (((Npos (XO (XO (XI (XI (XI (XI (XI (XI (XI (XO (XO
    XH)))))))))))), (Npos (XO (XO (XI (XI (XI (XI (XI (XI (XI (XO (XO
    XH))))))))))))) :: (((Npos (XI (XO (XI (XO (XO (XO (XO (XO (XO (XI (XO
    XH)))))))))))), (Npos (XO (XI (XO (XI (XO (XO (XO (XO (XO (XI (XO
    XH))))))))))))) :: (((Npos (XI (XI (XI (XI (XO (XO (XO (XO (XO (XI (XO
    XH)))))))))))), (Npos (XO (XO (XO (XO (XI (XO (XO (XO (XO (XI (XO
    XH))))))))))))) :: (((Npos (XI (XI (XO (XO (XI (XO (XO (XO (XO (XI (XO
    XH)))))))))))), (Npos (XO (XO (XO (XI (XO (XI (XO (XO (XO (XI (XO
    XH))))))))))))) :: (((Npos (XO (XI (XO (XI (XO (XI (XO (XO (XO (XI (XO
    XH)))))))))))), (Npos (XO (XO (XO (XO (XI (XI (XO (XO (XO (XI (XO
    XH))))))))))))) :: (((Npos (XO (XI (XO (XO (XI (XI (XO (XO (XO (XI (XO
    XH)))))))))))), (Npos (XI (XI (XO (XO (XI (XI (XO (XO (XO (XI (XO
    XH))))))))))))) :: (((Npos (XI (XO (XI (XO (XI (XI (XO (XO (XO (XI (XO
    XH)))))))))))), (Npos (XO (XI (XI (XO (XI (XI (XO (XO (XO (XI (XO
    XH))))))))))))) :: (((Npos (XO (XO (XO (XI (XI (XI (XO (XO (XO (XI (XO
    XH)))))))))))), (Npos (XI (XO (XO (XI (XI (XI (XO (XO (XO (XI (XO
    XH))))))))))))) :: (((Npos (XI (XO (XO (XI (XI (XO (XI (XO (XO (XI (XO
    XH)))))))))))), (Npos (XO (XO (XI (XI (XI (XO (XI (XO (XO (XI (XO
    XH))))))))))))) :: (((Npos (XO (XI (XI (XI (XI (XO (XI (XO (XO (XI (XO
    XH)))))))))))), (Npos (XO (XI (XI (XI (XI (XO (XI (XO (XO (XI (XO
    XH))))))))))))) :: (((Npos (XO (XI (XO (XO (XI (XI (XI (XO (XO (XI (XO
    XH)))))))))))), (Npos (XO (XO (XI (XO (XI (XI (XI (XO (XO (XI (XO
    XH))))))))))))) :: (((Npos (XI (XO (XI (XO (XO (XO (XO (XI (XO (XI (XO
    XH)))))))))))), (Npos (XI (XO (XI (XI (XO (XO (XO (XI (XO (XI (XO
    XH))))))))))))) :: (((Npos (XI (XI (XI (XI (XO (XO (XO (XI (XO (XI (XO
    XH)))))))))))), (Npos (XI (XO (XO (XO (XI (XO (XO (XI (XO (XI (XO
    XH))))))))))))) :: (((Npos (XI (XI (XO (XO (XI (XO (XO (XI (XO (XI (XO
    XH)))))))))))), (Npos (XO (XO (XO (XI (XO (XI (XO (XI (XO (XI (XO
    XH))))))))))))) :: (((Npos (XO (XI (XO (XI (XO (XI (XO (XI (XO (XI (XO
    XH)))))))))))), (Npos (XO (XO (XO (XO (XI (XI (XO (XI (XO (XI (XO
    XH))))))))))))) :: (((Npos (XO (XI (XO (XO (XI (XI (XO (XI (XO (XI (XO
    XH)))))))))))), (Npos (XI (XI (XO (XO (XI (XI (XO (XI (XO (XI (XO
    XH))))))))))))) :: (((Npos (XI (XO (XI (XO (XI (XI (XO (XI (XO (XI (XO
    XH)))))))))))), (Npos (XI (XO (XO (XI (XI (XI (XO (XI (XO (XI (XO
    XH))))))))))))) :: (((Npos (XI (XO (XI (XI (XI (XI (XO (XI (XO (XI (XO
    XH)))))))))))), (Npos (XI (XO (XI (XI (XI (XI (XO (XI (XO (XI (XO
    XH))))))))))))) :: (((Npos (XO (XO (XO (XO (XI (XO (XI (XI (XO (XI (XO
    XH)))))))))))), (Npos (XO (XO (XO (XO (XI (XO (XI (XI (XO (XI (XO
    XH))))))))))))) :: (((Npos (XO (XO (XO (XO (XO (XI (XI (XI (XO (XI (XO
    XH)))))))))))), (Npos (XI (XO (XO (XO (XO (XI (XI (XI (XO (XI (XO
    XH))))))))))))) :: (((Npos (XI (XO (XO (XI (XI (XI (XI (XI (XO (XI (XO
    XH)))))))))))), (Npos (XI (XO (XO (XI (XI (XI (XI (XI (XO (XI (XO
    XH))))))))))))) :: (((Npos (XI (XO (XI (XO (XO (XO (XO (XO (XI (XI (XO
    XH)))))))))))), (Npos (XO (XO (XI (XI (XO (XO (XO (XO (XI (XI (XO
    XH))))))))))))) :: (((Npos (XI (XI (XI (XI (XO (XO (XO (XO (XI (XI (XO
    XH)))))))))))), (Npos (XO (XO (XO (XO (XI (XO (XO (XO (XI (XI (XO
    XH))))))))))))) :: (((Npos (XI (XI (XO (XO (XI (XO (XO (XO (XI (XI (XO
    XH)))))))))))), (Npos (XO (XO (XO (XI (XO (XI (XO (XO (XI (XI (XO
    XH))))))))))))) :: (((Npos (XO (XI (XO (XI (XO (XI (XO (XO (XI (XI (XO
    XH)))))))))))), (Npos (XO (XO (XO (XO (XI (XI (XO (XO (XI (XI (XO
    XH))))))))))))) :: (((Npos (XO (XI (XO (XO (XI (XI (XO (XO (XI (XI (XO
    XH)))))))))))), (Npos (XI (XI (XO (XO (XI (XI (XO (XO (XI (XI (XO
    XH))))))))))))) :: (((Npos (XI (XO (XI (XO (XI (XI (XO (XO (XI (XI (XO
    XH)))))))))))), (Npos (XI (XO (XO (XI (XI (XI (XO (XO (XI (XI (XO
    XH))))))))))))) :: (((Npos (XI (XO (XI (XI (XI (XI (XO (XO (XI (XI (XO
    XH)))))))))))), (Npos (XI (XO (XI (XI (XI (XI (XO (XO (XI (XI (XO
    XH))))))))))))) :: (((Npos (XO (XO (XI (XI (XI (XO (XI (XO (XI (XI (XO
    XH)))))))))))), (Npos (XI (XO (XI (XI (XI (XO (XI (XO (XI (XI (XO
    XH))))))))))))) :: (((Npos (XI (XI (XI (XI (XI (XO (XI (XO (XI (XI (XO
    XH)))))))))))), (Npos (XI (XO (XO (XO (XO (XI (XI (XO (XI (XI (XO
    XH))))))))))))) :: (((Npos (XI (XO (XO (XO (XI (XI (XI (XO (XI (XI (XO
    XH)))))))))))), (Npos (XI (XO (XO (XO (XI (XI (XI (XO (XI (XI (XO
    XH))))))))))))) :: (((Npos (XI (XI (XO (XO (XO (XO (XO (XI (XI (XI (XO
    XH)))))))))))), (Npos (XI (XI (XO (XO (XO (XO (XO (XI (XI (XI (XO
    XH))))))))))))) :: (((Npos (XI (XO (XI (XO (XO (XO (XO (XI (XI (XI (XO
    XH)))))))))))), (Npos (XO (XI (XO (XI (XO (XO (XO (XI (XI (XI (XO
    XH))))))))))))) :: (((Npos (XO (XI (XI (XI (XO (XO (XO (XI (XI (XI (XO
    XH)))))))))))), (Npos (XO (XO (XO (XO (XI (XO (XO (XI (XI (XI (XO
    XH))))))))))))) :: (((Npos (XO (XI (XO (XO (XI (XO (XO (XI (XI (XI (XO
    XH)))))))))))), (Npos (XI (XO (XI (XO (XI (XO (XO (XI (XI (XI (XO
    XH))))))))))))) :: (((Npos (XI (XO (XO (XI (XI (XO (XO (XI (XI (XI (XO
    XH)))))))))))), (Npos (XO (XI (XO (XI (XI (XO (XO (XI (XI (XI (XO
    XH))))))))))))) :: (((Npos (XO (XO (XI (XI (XI (XO (XO (XI (XI (XI (XO
    XH)))))))))))), (Npos (XO (XO (XI (XI (XI (XO (XO (XI (XI (XI (XO
    XH))))))))))))) :: (((Npos (XO (XI (XI (XI (XI (XO (XO (XI (XI (XI (XO
    XH)))))))))))), (Npos (XI (XI (XI (XI (XI (XO (XO (XI (XI (XI (XO
    XH))))))))))))) :: (((Npos (XI (XI (XO (XO (XO (XI (XO (XI (XI (XI (XO
    XH)))))))))))), (Npos (XO (XO (XI (XO (XO (XI (XO (XI (XI (XI (XO
    XH))))))))))))) :: (((Npos (XO (XO (XO (XI (XO (XI (XO (XI (XI (XI (XO
    XH)))))))))))), (Npos (XO (XI (XO (XI (XO (XI (XO (XI (XI (XI (XO
    XH))))))))))))) :: (((Npos (XO (XI (XI (XI (XO (XI (XO (XI (XI (XI (XO
    XH)))))))))))), (Npos (XI (XO (XO (XI (XI (XI (XO (XI (XI (XI (XO
    XH))))))))))))) :: (((Npos (XO (XO (XO (XO (XI (XO (XI (XI (XI (XI (XO
    XH)))))))))))), (Npos (XO (XO (XO (XO (XI (XO (XI (XI (XI (XI (XO
    XH))))))))))))) :: (((Npos (XI (XO (XI (XO (XO (XO (XO (XO (XO (XO (XI
    XH)))))))))))), (Npos (XO (XO (XI (XI (XO (XO (XO (XO (XO (XO (XI
    XH))))))))))))) :: (((Npos (XO (XI (XI (XI (XO (XO (XO (XO (XO (XO (XI
    XH)))))))))))), (Npos (XO (XO (XO (XO (XI (XO (XO (XO (XO (XO (XI
    XH))))))))))))) :: (((Npos (XO (XI (XO (XO (XI (XO (XO (XO (XO (XO (XI
    XH)))))))))))), (Npos (XO (XO (XO (XI (XO (XI (XO (XO (XO (XO (XI
    XH))))))))))))) :: (((Npos (XO (XI (XO (XI (XO (XI (XO (XO (XO (XO (XI
    XH)))))))))))), (Npos (XI (XO (XO (XI (XI (XI (XO (XO (XO (XO (XI
    XH))))))))))))) :: (((Npos (XI (XO (XI (XI (XI (XI (XO (XO (XO (XO (XI
    XH)))))))))))), (Npos (XI (XO (XI (XI (XI (XI (XO (XO (XO (XO (XI
    XH))))))))))))) :: (((Npos (XO (XO (XO (XI (XI (XO (XI (XO (XO (XO (XI
    XH)))))))))))), (Npos (XO (XI (XO (XI (XI (XO (XI (XO (XO (XO (XI
    XH))))))))))))) :: (((Npos (XI (XO (XI (XI (XI (XO (XI (XO (XO (XO (XI
    XH)))))))))))), (Npos (XI (XO (XI (XI (XI (XO (XI (XO (XO (XO (XI
    XH))))))))))))) :: (((Npos (XO (XO (XO (XO (XO (XI (XI (XO (XO (XO (XI
    XH)))))))))))), (Npos (XI (XO (XO (XO (XO (XI (XI (XO (XO (XO (XI
    XH))))))))))))) :: (((Npos (XO (XO (XO (XO (XO (XO (XO (XI (XO (XO (XI
    XH)))))))))))), (Npos (XO (XO (XO (XO (XO (XO (XO (XI (XO (XO (XI
    XH))))))))))))) :: (((Npos (XI (XO (XI (XO (XO (XO (XO (XI (XO (XO (XI
    XH)))))))))))), (Npos (XO (XO (XI (XI (XO (XO (XO (XI (XO (XO (XI
    XH))))))))))))) :: (((Npos (XO (XI (XI (XI (XO (XO (XO (XI (XO (XO (XI
    XH)))))))))))), (Npos (XO (XO (XO (XO (XI (XO (XO (XI (XO (XO (XI
    XH))))))))))))) :: (((Npos (XO (XI (XO (XO (XI (XO (XO (XI (XO (XO (XI
    XH)))))))))))), (Npos (XO (XO (XO (XI (XO (XI (XO (XI (XO (XO (XI
    XH))))))))))))) :: (((Npos (XO (XI (XO (XI (XO (XI (XO (XI (XO (XO (XI
    XH)))))))))))), (Npos (XI (XI (XO (XO (XI (XI (XO (XI (XO (XO (XI
    XH))))))))))))) :: (((Npos (XI (XO (XI (XO (XI (XI (XO (XI (XO (XO (XI
    XH)))))))))))), (Npos (XI (XO (XO (XI (XI (XI (XO (XI (XO (XO (XI
    XH))))))))))))) :: (((Npos (XI (XO (XI (XI (XI (XI (XO (XI (XO (XO (XI
    XH)))))))))))), (Npos (XI (XO (XI (XI (XI (XI (XO (XI (XO (XO (XI
    XH))))))))))))) :: (((Npos (XI (XO (XI (XI (XI (XO (XI (XI (XO (XO (XI
    XH)))))))))))), (Npos (XO (XI (XI (XI (XI (XO (XI (XI (XO (XO (XI
    XH))))))))))))) :: (((Npos (XO (XO (XO (XO (XO (XI (XI (XI (XO (XO (XI
    XH)))))))))))), (Npos (XI (XO (XO (XO (XO (XI (XI (XI (XO (XO (XI
    XH))))))))))))) :: (((Npos (XI (XO (XO (XO (XI (XI (XI (XI (XO (XO (XI
    XH)))))))))))), (Npos (XO (XI (XO (XO (XI (XI (XI (XI (XO (XO (XI
    XH))))))))))))) :: (((Npos (XO (XO (XI (XO (XO (XO (XO (XO (XI (XO (XI
    XH)))))))))))), (Npos (XO (XO (XI (XI (XO (XO (XO (XO (XI (XO (XI
    XH))))))))))))) :: (((Npos (XO (XI (XI (XI (XO (XO (XO (XO (XI (XO (XI
    XH)))))))))))), (Npos (XO (XO (XO (XO (XI (XO (XO (XO (XI (XO (XI
    XH))))))))))))) :: (((Npos (XO (XI (XO (XO (XI (XO (XO (XO (XI (XO (XI
    XH)))))))))))), (Npos (XO (XI (XO (XI (XI (XI (XO (XO (XI (XO (XI
    XH))))))))))))) :: (((Npos (XI (XO (XI (XI (XI (XI (XO (XO (XI (XO (XI
    XH)))))))))))), (Npos (XI (XO (XI (XI (XI (XI (XO (XO (XI (XO (XI
    XH))))))))))))) :: (((Npos (XO (XI (XI (XI (XO (XO (XI (XO (XI (XO (XI
    XH)))))))))))), (Npos (XO (XI (XI (XI (XO (XO (XI (XO (XI (XO (XI
    XH))))))))))))) :: (((Npos (XO (XO (XI (XO (XI (XO (XI (XO (XI (XO (XI
    XH)))))))))))), (Npos (XO (XI (XI (XO (XI (XO (XI (XO (XI (XO (XI
    XH))))))))))))) :: (((Npos (XI (XI (XI (XI (XI (XO (XI (XO (XI (XO (XI
    XH)))))))))))), (Npos (XI (XO (XO (XO (XO (XI (XI (XO (XI (XO (XI
    XH))))))))))))) :: (((Npos (XO (XI (XO (XI (XI (XI (XI (XO (XI (XO (XI
    XH)))))))))))), (Npos (XI (XI (XI (XI (XI (XI (XI (XO (XI (XO (XI
    XH))))))))))))) :: (((Npos (XI (XO (XI (XO (XO (XO (XO (XI (XI (XO (XI
    XH)))))))))))), (Npos (XO (XI (XI (XO (XI (XO (XO (XI (XI (XO (XI
    XH))))))))))))) :: (((Npos (XO (XI (XO (XI (XI (XO (XO (XI (XI (XO (XI
    XH)))))))))))), (Npos (XI (XO (XO (XO (XI (XI (XO (XI (XI (XO (XI
    XH))))))))))))) :: (((Npos (XI (XI (XO (XO (XI (XI (XO (XI (XI (XO (XI
    XH)))))))))))), (Npos (XI (XI (XO (XI (XI (XI (XO (XI (XI (XO (XI
    XH))))))))))))) :: (((Npos (XI (XO (XI (XI (XI (XI (XO (XI (XI (XO (XI
    XH)))))))))))), (Npos (XI (XO (XI (XI (XI (XI (XO (XI (XI (XO (XI
    XH))))))))))))) :: (((Npos (XO (XO (XO (XO (XO (XO (XI (XI (XI (XO (XI
    XH)))))))))))), (Npos (XO (XI (XI (XO (XO (XO (XI (XI (XI (XO (XI
    XH))))))))))))) :: (((Npos (XI (XO (XO (XO (XO (XO (XO (XO (XO (XI (XI
    XH)))))))))))), (Npos (XO (XO (XO (XO (XI (XI (XO (XO (XO (XI (XI
    XH))))))))))))) :: (((Npos (XO (XI (XO (XO (XI (XI (XO (XO (XO (XI (XI
    XH)))))))))))), (Npos (XI (XI (XO (XO (XI (XI (XO (XO (XO (XI (XI
    XH))))))))))))) :: (((Npos (XO (XO (XO (XO (XO (XO (XI (XO (XO (XI (XI
    XH)))))))))))), (Npos (XO (XI (XI (XO (XO (XO (XI (XO (XO (XI (XI
    XH))))))))))))) :: (((Npos (XI (XO (XO (XO (XO (XO (XO (XI (XO (XI (XI
    XH)))))))))))), (Npos (XO (XI (XO (XO (XO (XO (XO (XI (XO (XI (XI
    XH))))))))))))) :: (((Npos (XO (XO (XI (XO (XO (XO (XO (XI (XO (XI (XI
    XH)))))))))))), (Npos (XO (XO (XI (XO (XO (XO (XO (XI (XO (XI (XI
    XH))))))))))))) :: (((Npos (XO (XI (XI (XO (XO (XO (XO (XI (XO (XI (XI
    XH)))))))))))), (Npos (XO (XI (XO (XI (XO (XO (XO (XI (XO (XI (XI
    XH))))))))))))) :: (((Npos (XO (XO (XI (XI (XO (XO (XO (XI (XO (XI (XI
    XH)))))))))))), (Npos (XI (XI (XO (XO (XO (XI (XO (XI (XO (XI (XI
    XH))))))))))))) :: (((Npos (XI (XO (XI (XO (XO (XI (XO (XI (XO (XI (XI
    XH)))))))))))), (Npos (XI (XO (XI (XO (XO (XI (XO (XI (XO (XI (XI
    XH))))))))))))) :: (((Npos (XI (XI (XI (XO (XO (XI (XO (XI (XO (XI (XI
    XH)))))))))))), (Npos (XO (XO (XO (XO (XI (XI (XO (XI (XO (XI (XI
    XH))))))))))))) :: (((Npos (XO (XI (XO (XO (XI (XI (XO (XI (XO (XI (XI
    XH)))))))))))), (Npos (XI (XI (XO (XO (XI (XI (XO (XI (XO (XI (XI
    XH))))))))))))) :: (((Npos (XI (XO (XI (XI (XI (XI (XO (XI (XO (XI (XI
    XH)))))))))))), (Npos (XI (XO (XI (XI (XI (XI (XO (XI (XO (XI (XI
    XH))))))))))))) :: (((Npos (XO (XO (XO (XO (XO (XO (XI (XI (XO (XI (XI
    XH)))))))))))), (Npos (XO (XO (XI (XO (XO (XO (XI (XI (XO (XI (XI
    XH))))))))))))) :: (((Npos (XO (XI (XI (XO (XO (XO (XI (XI (XO (XI (XI
    XH)))))))))))), (Npos (XO (XI (XI (XO (XO (XO (XI (XI (XO (XI (XI
    XH))))))))))))) :: (((Npos (XO (XO (XI (XI (XI (XO (XI (XI (XO (XI (XI
    XH)))))))))))), (Npos (XI (XI (XI (XI (XI (XO (XI (XI (XO (XI (XI
    XH))))))))))))) :: (((Npos (XO (XO (XO (XO (XO (XO (XO (XO (XI (XI (XI
    XH)))))))))))), (Npos (XO (XO (XO (XO (XO (XO (XO (XO (XI (XI (XI
    XH))))))))))))) :: (((Npos (XO (XO (XO (XO (XO (XO (XI (XO (XI (XI (XI
    XH)))))))))))), (Npos (XI (XI (XI (XO (XO (XO (XI (XO (XI (XI (XI
    XH))))))))))))) :: (((Npos (XI (XO (XO (XI (XO (XO (XI (XO (XI (XI (XI
    XH)))))))))))), (Npos (XO (XO (XI (XI (XO (XI (XI (XO (XI (XI (XI
    XH))))))))))))) :: (((Npos (XO (XO (XO (XI (XO (XO (XO (XI (XI (XI (XI
    XH)))))))))))), (Npos (XO (XO (XI (XI (XO (XO (XO (XI (XI (XI (XI
    XH))))))))))))) :: (((Npos (XO (XO (XO (XO (XO (XO (XO (XO (XO (XO (XO
    (XO XH))))))))))))), (Npos (XO (XI (XO (XI (XO (XI (XO (XO (XO (XO (XO
    (XO XH)))))))))))))) :: (((Npos (XI (XI (XI (XI (XI (XI (XO (XO (XO (XO
    (XO (XO XH))))))))))))), (Npos (XI (XI (XI (XI (XI (XI (XO (XO (XO (XO
    (XO (XO XH)))))))))))))) :: (((Npos (XO (XO (XO (XO (XI (XO (XI (XO (XO
    (XO (XO (XO XH))))))))))))), (Npos (XI (XO (XI (XO (XI (XO (XI (XO (XO
    (XO (XO (XO XH)))))))))))))) :: (((Npos (XO (XI (XO (XI (XI (XO (XI (XO
    (XO (XO (XO (XO XH))))))))))))), (Npos (XI (XO (XI (XI (XI (XO (XI (XO
    (XO (XO (XO (XO XH)))))))))))))) :: (((Npos (XI (XO (XO (XO (XO (XI (XI
    (XO (XO (XO (XO (XO XH))))))))))))), (Npos (XI (XO (XO (XO (XO (XI (XI
    (XO (XO (XO (XO (XO XH)))))))))))))) :: (((Npos (XI (XO (XI (XO (XO (XI
    (XI (XO (XO (XO (XO (XO XH))))))))))))), (Npos (XO (XI (XI (XO (XO (XI
    (XI (XO (XO (XO (XO (XO XH)))))))))))))) :: (((Npos (XO (XI (XI (XI (XO
    (XI (XI (XO (XO (XO (XO (XO XH))))))))))))), (Npos (XO (XO (XO (XO (XI
    (XI (XI (XO (XO (XO (XO (XO XH)))))))))))))) :: (((Npos (XI (XO (XI (XO
    (XI (XI (XI (XO (XO (XO (XO (XO XH))))))))))))), (Npos (XI (XO (XO (XO
    (XO (XO (XO (XI (XO (XO (XO (XO XH)))))))))))))) :: (((Npos (XO (XI (XI
    (XI (XO (XO (XO (XI (XO (XO (XO (XO XH))))))))))))), (Npos (XO (XI (XI
    (XI (XO (XO (XO (XI (XO (XO (XO (XO XH)))))))))))))) :: (((Npos (XO (XO
    (XO (XO (XO (XI (XO (XI (XO (XO (XO (XO XH))))))))))))), (Npos (XI (XO
    (XI (XO (XO (XO (XI (XI (XO (XO (XO (XO XH)))))))))))))) :: (((Npos (XI
    (XI (XI (XO (XO (XO (XI (XI (XO (XO (XO (XO XH))))))))))))), (Npos (XI
    (XI (XI (XO (XO (XO (XI (XI (XO (XO (XO (XO XH)))))))))))))) :: (((Npos
    (XI (XO (XI (XI (XO (XO (XI (XI (XO (XO (XO (XO XH))))))))))))), (Npos
    (XI (XO (XI (XI (XO (XO (XI (XI (XO (XO (XO (XO
    XH)))))))))))))) :: (((Npos (XO (XO (XO (XO (XI (XO (XI (XI (XO (XO (XO
    (XO XH))))))))))))), (Npos (XO (XI (XO (XI (XI (XI (XI (XI (XO (XO (XO
    (XO XH)))))))))))))) :: (((Npos (XO (XO (XI (XI (XI (XI (XI (XI (XO (XO
    (XO (XO XH))))))))))))), (Npos (XO (XO (XO (XI (XO (XO (XI (XO (XO (XI
    (XO (XO XH)))))))))))))) :: (((Npos (XO (XI (XO (XI (XO (XO (XI (XO (XO
    (XI (XO (XO XH))))))))))))), (Npos (XI (XO (XI (XI (XO (XO (XI (XO (XO
    (XI (XO (XO XH)))))))))))))) :: (((Npos (XO (XO (XO (XO (XI (XO (XI (XO
    (XO (XI (XO (XO XH))))))))))))), (Npos (XO (XI (XI (XO (XI (XO (XI (XO
    (XO (XI (XO (XO XH)))))))))))))) :: (((Npos (XO (XO (XO (XI (XI (XO (XI
    (XO (XO (XI (XO (XO XH))))))))))))), (Npos (XO (XO (XO (XI (XI (XO (XI
    (XO (XO (XI (XO (XO XH)))))))))))))) :: (((Npos (XO (XI (XO (XI (XI (XO
    (XI (XO (XO (XI (XO (XO XH))))))))))))), (Npos (XI (XO (XI (XI (XI (XO
    (XI (XO (XO (XI (XO (XO XH)))))))))))))) :: (((Npos (XO (XO (XO (XO (XO
    (XI (XI (XO (XO (XI (XO (XO XH))))))))))))), (Npos (XO (XO (XO (XI (XO
    (XO (XO (XI (XO (XI (XO (XO XH)))))))))))))) :: (((Npos (XO (XI (XO (XI
    (XO (XO (XO (XI (XO (XI (XO (XO XH))))))))))))), (Npos (XI (XO (XI (XI
    (XO (XO (XO (XI (XO (XI (XO (XO XH)))))))))))))) :: (((Npos (XO (XO (XO
    (XO (XI (XO (XO (XI (XO (XI (XO (XO XH))))))))))))), (Npos (XO (XO (XO
    (XO (XI (XI (XO (XI (XO (XI (XO (XO XH)))))))))))))) :: (((Npos (XO (XI
    (XO (XO (XI (XI (XO (XI (XO (XI (XO (XO XH))))))))))))), (Npos (XI (XO
    (XI (XO (XI (XI (XO (XI (XO (XI (XO (XO XH)))))))))))))) :: (((Npos (XO
    (XO (XO (XI (XI (XI (XO (XI (XO (XI (XO (XO XH))))))))))))), (Npos (XO
    (XI (XI (XI (XI (XI (XO (XI (XO (XI (XO (XO XH)))))))))))))) :: (((Npos
    (XO (XO (XO (XO (XO (XO (XI (XI (XO (XI (XO (XO XH))))))))))))), (Npos
    (XO (XO (XO (XO (XO (XO (XI (XI (XO (XI (XO (XO
    XH)))))))))))))) :: (((Npos (XO (XI (XO (XO (XO (XO (XI (XI (XO (XI (XO
    (XO XH))))))))))))), (Npos (XI (XO (XI (XO (XO (XO (XI (XI (XO (XI (XO
    (XO XH)))))))))))))) :: (((Npos (XO (XO (XO (XI (XO (XO (XI (XI (XO (XI
    (XO (XO XH))))))))))))), (Npos (XO (XI (XI (XO (XI (XO (XI (XI (XO (XI
    (XO (XO XH)))))))))))))) :: (((Npos (XO (XO (XO (XI (XI (XO (XI (XI (XO
    (XI (XO (XO XH))))))))))))), (Npos (XO (XO (XO (XO (XI (XO (XO (XO (XI
    (XI (XO (XO XH)))))))))))))) :: (((Npos (XO (XI (XO (XO (XI (XO (XO (XO
    (XI (XI (XO (XO XH))))))))))))), (Npos (XI (XO (XI (XO (XI (XO (XO (XO
    (XI (XI (XO (XO XH)))))))))))))) :: (((Npos (XO (XO (XO (XI (XI (XO (XO
    (XO (XI (XI (XO (XO XH))))))))))))), (Npos (XO (XI (XO (XI (XI (XO (XI
    (XO (XI (XI (XO (XO XH)))))))))))))) :: (((Npos (XO (XO (XO (XO (XO (XO
    (XO (XI (XI (XI (XO (XO XH))))))))))))), (Npos (XI (XI (XI (XI (XO (XO
    (XO (XI (XI (XI (XO (XO XH)))))))))))))) :: (((Npos (XO (XO (XO (XO (XO
    (XI (XO (XI (XI (XI (XO (XO XH))))))))))))), (Npos (XI (XO (XI (XO (XI
    (XI (XI (XI (XI (XI (XO (XO XH)))))))))))))) :: (((Npos (XO (XO (XO (XI
    (XI (XI (XI (XI (XI (XI (XO (XO XH))))))))))))), (Npos (XI (XO (XI (XI
    (XI (XI (XI (XI (XI (XI (XO (XO XH)))))))))))))) :: (((Npos (XI (XO (XO
    (XO (XO (XO (XO (XO (XO (XO (XI (XO XH))))))))))))), (Npos (XO (XO (XI
    (XI (XO (XI (XI (XO (XO (XI (XI (XO XH)))))))))))))) :: (((Npos (XI (XI
    (XI (XI (XO (XI (XI (XO (XO (XI (XI (XO XH))))))))))))), (Npos (XI (XI
    (XI (XI (XI (XI (XI (XO (XO (XI (XI (XO XH)))))))))))))) :: (((Npos (XI
    (XO (XO (XO (XO (XO (XO (XI (XO (XI (XI (XO XH))))))))))))), (Npos (XO
    (XI (XO (XI (XI (XO (XO (XI (XO (XI (XI (XO XH)))))))))))))) :: (((Npos
    (XO (XO (XO (XO (XO (XI (XO (XI (XO (XI (XI (XO XH))))))))))))), (Npos
    (XO (XI (XO (XI (XO (XI (XI (XI (XO (XI (XI (XO
    XH)))))))))))))) :: (((Npos (XI (XO (XO (XO (XI (XI (XI (XI (XO (XI (XI
    (XO XH))))))))))))), (Npos (XO (XO (XO (XI (XI (XI (XI (XI (XO (XI (XI
    (XO XH)))))))))))))) :: (((Npos (XO (XO (XO (XO (XO (XO (XO (XO (XI (XI
    (XI (XO XH))))))))))))), (Npos (XI (XO (XO (XO (XI (XO (XO (XO (XI (XI
    (XI (XO XH)))))))))))))) :: (((Npos (XI (XI (XI (XI (XI (XO (XO (XO (XI
    (XI (XI (XO XH))))))))))))), (Npos (XI (XO (XO (XO (XI (XI (XO (XO (XI
    (XI (XI (XO XH)))))))))))))) :: (((Npos (XO (XO (XO (XO (XO (XO (XI (XO
    (XI (XI (XI (XO XH))))))))))))), (Npos (XI (XO (XO (XO (XI (XO (XI (XO
    (XI (XI (XI (XO XH)))))))))))))) :: (((Npos (XO (XO (XO (XO (XO (XI (XI
    (XO (XI (XI (XI (XO XH))))))))))))), (Npos (XO (XO (XI (XI (XO (XI (XI
    (XO (XI (XI (XI (XO XH)))))))))))))) :: (((Npos (XO (XI (XI (XI (XO (XI
    (XI (XO (XI (XI (XI (XO XH))))))))))))), (Npos (XO (XO (XO (XO (XI (XI
    (XI (XO (XI (XI (XI (XO XH)))))))))))))) :: (((Npos (XO (XO (XO (XO (XO
    (XO (XO (XI (XI (XI (XI (XO XH))))))))))))), (Npos (XI (XI (XO (XO (XI
    (XI (XO (XI (XI (XI (XI (XO XH)))))))))))))) :: (((Npos (XI (XI (XI (XO
    (XI (XO (XI (XI (XI (XI (XI (XO XH))))))))))))), (Npos (XI (XI (XI (XO
    (XI (XO (XI (XI (XI (XI (XI (XO XH)))))))))))))) :: (((Npos (XO (XO (XI
    (XI (XI (XO (XI (XI (XI (XI (XI (XO XH))))))))))))), (Npos (XO (XO (XI
    (XI (XI (XO (XI (XI (XI (XI (XI (XO XH)))))))))))))) :: (((Npos (XO (XO
    (XO (XO (XO (XI (XO (XO (XO (XO (XO (XI XH))))))))))))), (Npos (XO (XO
    (XO (XI (XI (XI (XI (XO (XO (XO (XO (XI XH)))))))))))))) :: (((Npos (XO
    (XO (XO (XO (XO (XO (XO (XI (XO (XO (XO (XI XH))))))))))))), (Npos (XO
    (XO (XI (XO (XO (XO (XO (XI (XO (XO (XO (XI XH)))))))))))))) :: (((Npos
    (XI (XI (XI (XO (XO (XO (XO (XI (XO (XO (XO (XI XH))))))))))))), (Npos
    (XO (XO (XO (XI (XO (XI (XO (XI (XO (XO (XO (XI
    XH)))))))))))))) :: (((Npos (XO (XI (XO (XI (XO (XI (XO (XI (XO (XO (XO
    (XI XH))))))))))))), (Npos (XO (XI (XO (XI (XO (XI (XO (XI (XO (XO (XO
    (XI XH)))))))))))))) :: (((Npos (XO (XO (XO (XO (XI (XI (XO (XI (XO (XO
    (XO (XI XH))))))))))))), (Npos (XI (XO (XI (XO (XI (XI (XI (XI (XO (XO
    (XO (XI XH)))))))))))))) :: (((Npos (XO (XO (XO (XO (XO (XO (XO (XO (XI
    (XO (XO (XI XH))))))))))))), (Npos (XO (XI (XI (XI (XI (XO (XO (XO (XI
    (XO (XO (XI XH)))))))))))))) :: (((Npos (XO (XO (XO (XO (XI (XO (XI (XO
    (XI (XO (XO (XI XH))))))))))))), (Npos (XI (XO (XI (XI (XO (XI (XI (XO
    (XI (XO (XO (XI XH)))))))))))))) :: (((Npos (XO (XO (XO (XO (XI (XI (XI
    (XO (XI (XO (XO (XI XH))))))))))))), (Npos (XO (XO (XI (XO (XI (XI (XI
    (XO (XI (XO (XO (XI XH)))))))))))))) :: (((Npos (XO (XO (XO (XO (XO (XO
    (XO (XI (XI (XO (XO (XI XH))))))))))))), (Npos (XI (XI (XO (XI (XO (XI
    (XO (XI (XI (XO (XO (XI XH)))))))))))))) :: (((Npos (XO (XO (XO (XO (XI
    (XI (XO (XI (XI (XO (XO (XI XH))))))))))))), (Npos (XI (XO (XO (XI (XO
    (XO (XI (XI (XI (XO (XO (XI XH)))))))))))))) :: (((Npos (XO (XO (XO (XO
    (XO (XO (XO (XO (XO (XI (XO (XI XH))))))))))))), (Npos (XO (XI (XI (XO
    (XI (XO (XO (XO (XO (XI (XO (XI XH)))))))))))))) :: (((Npos (XO (XO (XO
    (XO (XO (XI (XO (XO (XO (XI (XO (XI XH))))))))))))), (Npos (XO (XO (XI
    (XO (XI (XO (XI (XO (XO (XI (XO (XI XH)))))))))))))) :: (((Npos (XI (XI
    (XI (XO (XO (XI (XO (XI (XO (XI (XO (XI XH))))))))))))), (Npos (XI (XI
    (XI (XO (XO (XI (XO (XI (XO (XI (XO (XI XH)))))))))))))) :: (((Npos (XI
    (XO (XI (XO (XO (XO (XO (XO (XI (XI (XO (XI XH))))))))))))), (Npos (XI
    (XI (XO (XO (XI (XI (XO (XO (XI (XI (XO (XI XH)))))))))))))) :: (((Npos
    (XI (XO (XI (XO (XO (XO (XI (XO (XI (XI (XO (XI XH))))))))))))), (Npos
    (XO (XO (XI (XI (XO (XO (XI (XO (XI (XI (XO (XI
    XH)))))))))))))) :: (((Npos (XI (XI (XO (XO (XO (XO (XO (XI (XI (XI (XO
    (XI XH))))))))))))), (Npos (XO (XO (XO (XO (XO (XI (XO (XI (XI (XI (XO
    (XI XH)))))))))))))) :: (((Npos (XO (XI (XI (XI (XO (XI (XO (XI (XI (XI
    (XO (XI XH))))))))))))), (Npos (XI (XI (XI (XI (XO (XI (XO (XI (XI (XI
    (XO (XI XH)))))))))))))) :: (((Npos (XO (XI (XO (XI (XI (XI (XO (XI (XI
    (XI (XO (XI XH))))))))))))), (Npos (XI (XO (XI (XO (XO (XI (XI (XI (XI
    (XI (XO (XI XH)))))))))))))) :: (((Npos (XO (XO (XO (XO (XO (XO (XO (XO
    (XO (XO (XI (XI XH))))))))))))), (Npos (XI (XI (XO (XO (XO (XI (XO (XO
    (XO (XO (XI (XI XH)))))))))))))) :: (((Npos (XI (XO (XI (XI (XO (XO (XI
    (XO (XO (XO (XI (XI XH))))))))))))), (Npos (XI (XI (XI (XI (XO (XO (XI
    (XO (XO (XO (XI (XI XH)))))))))))))) :: (((Npos (XO (XI (XO (XI (XI (XO
    (XI (XO (XO (XO (XI (XI XH))))))))))))), (Npos (XI (XO (XI (XI (XI (XI
    (XI (XO (XO (XO (XI (XI XH)))))))))))))) :: (((Npos (XO (XO (XO (XO (XO
    (XO (XO (XI (XO (XO (XI (XI XH))))))))))))), (Npos (XO (XI (XO (XI (XO
    (XO (XO (XI (XO (XO (XI (XI XH)))))))))))))) :: (((Npos (XO (XO (XO (XO
    (XI (XO (XO (XI (XO (XO (XI (XI XH))))))))))))), (Npos (XO (XI (XO (XI
    (XI (XI (XO (XI (XO (XO (XI (XI XH)))))))))))))) :: (((Npos (XI (XO (XI
    (XI (XI (XI (XO (XI (XO (XO (XI (XI XH))))))))))))), (Npos (XI (XI (XI
    (XI (XI (XI (XO (XI (XO (XO (XI (XI XH)))))))))))))) :: (((Npos (XI (XO
    (XO (XI (XO (XI (XI (XI (XO (XO (XI (XI XH))))))))))))), (Npos (XO (XO
    (XI (XI (XO (XI (XI (XI (XO (XO (XI (XI XH)))))))))))))) :: (((Npos (XO
    (XI (XI (XI (XO (XI (XI (XI (XO (XO (XI (XI XH))))))))))))), (Npos (XI
    (XI (XO (XO (XI (XI (XI (XI (XO (XO (XI (XI XH)))))))))))))) :: (((Npos
    (XI (XO (XI (XO (XI (XI (XI (XI (XO (XO (XI (XI XH))))))))))))), (Npos
    (XO (XI (XI (XO (XI (XI (XI (XI (XO (XO (XI (XI
    XH)))))))))))))) :: (((Npos (XO (XI (XO (XI (XI (XI (XI (XI (XO (XO (XI
    (XI XH))))))))))))), (Npos (XO (XI (XO (XI (XI (XI (XI (XI (XO (XO (XI
    (XI XH)))))))))))))) :: (((Npos (XO (XO (XO (XO (XO (XO (XO (XO (XI (XO
    (XI (XI XH))))))))))))), (Npos (XI (XI (XI (XI (XI (XI (XO (XI (XI (XO
    (XI (XI XH)))))))))))))) :: (((Npos (XO (XO (XO (XO (XO (XO (XO (XO (XO
    (XI (XI (XI XH))))))))))))), (Npos (XI (XO (XI (XO (XI (XO (XO (XO (XI
    (XI (XI (XI XH)))))))))))))) :: (((Npos (XO (XO (XO (XI (XI (XO (XO (XO
    (XI (XI (XI (XI XH))))))))))))), (Npos (XI (XO (XI (XI (XI (XO (XO (XO
    (XI (XI (XI (XI XH)))))))))))))) :: (((Npos (XO (XO (XO (XO (XO (XI (XO
    (XO (XI (XI (XI (XI XH))))))))))))), (Npos (XI (XO (XI (XO (XO (XO (XI
    (XO (XI (XI (XI (XI XH)))))))))))))) :: (((Npos (XO (XO (XO (XI (XO (XO
    (XI (XO (XI (XI (XI (XI XH))))))))))))), (Npos (XI (XO (XI (XI (XO (XO
    (XI (XO (XI (XI (XI (XI XH)))))))))))))) :: (((Npos (XO (XO (XO (XO (XI
    (XO (XI (XO (XI (XI (XI (XI XH))))))))))))), (Npos (XI (XI (XI (XO (XI
    (XO (XI (XO (XI (XI (XI (XI XH)))))))))))))) :: (((Npos (XI (XO (XO (XI
    (XI (XO (XI (XO (XI (XI (XI (XI XH))))))))))))), (Npos (XI (XO (XO (XI
    (XI (XO (XI (XO (XI (XI (XI (XI XH)))))))))))))) :: (((Npos (XI (XI (XO
    (XI (XI (XO (XI (XO (XI (XI (XI (XI XH))))))))))))), (Npos (XI (XI (XO
    (XI (XI (XO (XI (XO (XI (XI (XI (XI XH)))))))))))))) :: (((Npos (XI (XO
    (XI (XI (XI (XO (XI (XO (XI (XI (XI (XI XH))))))))))))), (Npos (XI (XO
    (XI (XI (XI (XO (XI (XO (XI (XI (XI (XI XH)))))))))))))) :: (((Npos (XI
    (XI (XI (XI (XI (XO (XI (XO (XI (XI (XI (XI XH))))))))))))), (Npos (XI
    (XO (XI (XI (XI (XI (XI (XO (XI (XI (XI (XI XH)))))))))))))) :: (((Npos
    (XO (XO (XO (XO (XO (XO (XO (XI (XI (XI (XI (XI XH))))))))))))), (Npos
    (XO (XO (XI (XO (XI (XI (XO (XI (XI (XI (XI (XI
    XH)))))))))))))) :: (((Npos (XO (XI (XI (XO (XI (XI (XO (XI (XI (XI (XI
    (XI XH))))))))))))), (Npos (XO (XO (XI (XI (XI (XI (XO (XI (XI (XI (XI
    (XI XH)))))))))))))) :: (((Npos (XO (XI (XI (XI (XI (XI (XO (XI (XI (XI
    (XI (XI XH))))))))))))), (Npos (XO (XI (XI (XI (XI (XI (XO (XI (XI (XI
    (XI (XI XH)))))))))))))) :: (((Npos (XO (XI (XO (XO (XO (XO (XI (XI (XI
    (XI (XI (XI XH))))))))))))), (Npos (XO (XO (XI (XO (XO (XO (XI (XI (XI
    (XI (XI (XI XH)))))))))))))) :: (((Npos (XO (XI (XI (XO (XO (XO (XI (XI
    (XI (XI (XI (XI XH))))))))))))), (Npos (XO (XO (XI (XI (XO (XO (XI (XI
    (XI (XI (XI (XI XH)))))))))))))) :: (((Npos (XO (XO (XO (XO (XI (XO (XI
    (XI (XI (XI (XI (XI XH))))))))))))), (Npos (XI (XI (XO (XO (XI (XO (XI
    (XI (XI (XI (XI (XI XH)))))))))))))) :: (((Npos (XO (XI (XI (XO (XI (XO
    (XI (XI (XI (XI (XI (XI XH))))))))))))), (Npos (XI (XI (XO (XI (XI (XO
    (XI (XI (XI (XI (XI (XI XH)))))))))))))) :: (((Npos (XO (XO (XO (XO (XO
    (XI (XI (XI (XI (XI (XI (XI XH))))))))))))), (Npos (XO (XO (XI (XI (XO
    (XI (XI (XI (XI (XI (XI (XI XH)))))))))))))) :: (((Npos (XO (XI (XO (XO
    (XI (XI (XI (XI (XI (XI (XI (XI XH))))))))))))), (Npos (XO (XO (XI (XO
    (XI (XI (XI (XI (XI (XI (XI (XI XH)))))))))))))) :: (((Npos (XO (XI (XI
    (XO (XI (XI (XI (XI (XI (XI (XI (XI XH))))))))))))), (Npos (XO (XO (XI
    (XI (XI (XI (XI (XI (XI (XI (XI (XI XH)))))))))))))) :: (((Npos (XI (XO
    (XO (XO (XI (XI (XI (XO (XO (XO (XO (XO (XO XH)))))))))))))), (Npos (XI
    (XO (XO (XO (XI (XI (XI (XO (XO (XO (XO (XO (XO
    XH))))))))))))))) :: (((Npos (XI (XI (XI (XI (XI (XI (XI (XO (XO (XO (XO
    (XO (XO XH)))))))))))))), (Npos (XI (XI (XI (XI (XI (XI (XI (XO (XO (XO
    (XO (XO (XO XH))))))))))))))) :: (((Npos (XO (XO (XO (XO (XI (XO (XO (XI
    (XO (XO (XO (XO (XO XH)))))))))))))), (Npos (XO (XO (XI (XI (XI (XO (XO
    (XI (XO (XO (XO (XO (XO XH))))))))))))))) :: (((Npos (XO (XI (XO (XO (XO
    (XO (XO (XO (XI (XO (XO (XO (XO XH)))))))))))))), (Npos (XO (XI (XO (XO
    (XO (XO (XO (XO (XI (XO (XO (XO (XO XH))))))))))))))) :: (((Npos (XI (XI
    (XI (XO (XO (XO (XO (XO (XI (XO (XO (XO (XO XH)))))))))))))), (Npos (XI
    (XI (XI (XO (XO (XO (XO (XO (XI (XO (XO (XO (XO
    XH))))))))))))))) :: (((Npos (XO (XI (XO (XI (XO (XO (XO (XO (XI (XO (XO
    (XO (XO XH)))))))))))))), (Npos (XI (XI (XO (XO (XI (XO (XO (XO (XI (XO
    (XO (XO (XO XH))))))))))))))) :: (((Npos (XI (XO (XI (XO (XI (XO (XO (XO
    (XI (XO (XO (XO (XO XH)))))))))))))), (Npos (XI (XO (XI (XO (XI (XO (XO
    (XO (XI (XO (XO (XO (XO XH))))))))))))))) :: (((Npos (XI (XO (XO (XI (XI
    (XO (XO (XO (XI (XO (XO (XO (XO XH)))))))))))))), (Npos (XI (XO (XI (XI
    (XI (XO (XO (XO (XI (XO (XO (XO (XO XH))))))))))))))) :: (((Npos (XO (XO
    (XI (XO (XO (XI (XO (XO (XI (XO (XO (XO (XO XH)))))))))))))), (Npos (XO
    (XO (XI (XO (XO (XI (XO (XO (XI (XO (XO (XO (XO
    XH))))))))))))))) :: (((Npos (XO (XI (XI (XO (XO (XI (XO (XO (XI (XO (XO
    (XO (XO XH)))))))))))))), (Npos (XO (XI (XI (XO (XO (XI (XO (XO (XI (XO
    (XO (XO (XO XH))))))))))))))) :: (((Npos (XO (XO (XO (XI (XO (XI (XO (XO
    (XI (XO (XO (XO (XO XH)))))))))))))), (Npos (XO (XO (XO (XI (XO (XI (XO
    (XO (XI (XO (XO (XO (XO XH))))))))))))))) :: (((Npos (XO (XI (XO (XI (XO
    (XI (XO (XO (XI (XO (XO (XO (XO XH)))))))))))))), (Npos (XI (XO (XI (XI
    (XO (XI (XO (XO (XI (XO (XO (XO (XO XH))))))))))))))) :: (((Npos (XI (XI
    (XI (XI (XO (XI (XO (XO (XI (XO (XO (XO (XO XH)))))))))))))), (Npos (XI
    (XO (XO (XI (XI (XI (XO (XO (XI (XO (XO (XO (XO
    XH))))))))))))))) :: (((Npos (XO (XO (XI (XI (XI (XI (XO (XO (XI (XO (XO
    (XO (XO XH)))))))))))))), (Npos (XI (XI (XI (XI (XI (XI (XO (XO (XI (XO
    (XO (XO (XO XH))))))))))))))) :: (((Npos (XI (XO (XI (XO (XO (XO (XI (XO
    (XI (XO (XO (XO (XO XH)))))))))))))), (Npos (XI (XO (XO (XI (XO (XO (XI
    (XO (XI (XO (XO (XO (XO XH))))))))))))))) :: (((Npos (XO (XI (XI (XI (XO
    (XO (XI (XO (XI (XO (XO (XO (XO XH)))))))))))))), (Npos (XO (XI (XI (XI
    (XO (XO (XI (XO (XI (XO (XO (XO (XO XH))))))))))))))) :: (((Npos (XI (XI
    (XO (XO (XO (XO (XO (XI (XI (XO (XO (XO (XO XH)))))))))))))), (Npos (XO
    (XO (XI (XO (XO (XO (XO (XI (XI (XO (XO (XO (XO
    XH))))))))))))))) :: (((Npos (XO (XO (XO (XO (XO (XO (XO (XO (XO (XO (XI
    (XI (XO XH)))))))))))))), (Npos (XO (XO (XI (XO (XO (XI (XI (XI (XO (XO
    (XI (XI (XO XH))))))))))))))) :: (((Npos (XI (XI (XO (XI (XO (XI (XI (XI
    (XO (XO (XI (XI (XO XH)))))))))))))), (Npos (XO (XI (XI (XI (XO (XI (XI
    (XI (XO (XO (XI (XI (XO XH))))))))))))))) :: (((Npos (XO (XI (XO (XO (XI
    (XI (XI (XI (XO (XO (XI (XI (XO XH)))))))))))))), (Npos (XI (XI (XO (XO
    (XI (XI (XI (XI (XO (XO (XI (XI (XO XH))))))))))))))) :: (((Npos (XO (XO
    (XO (XO (XO (XO (XO (XO (XI (XO (XI (XI (XO XH)))))))))))))), (Npos (XI
    (XO (XI (XO (XO (XI (XO (XO (XI (XO (XI (XI (XO
    XH))))))))))))))) :: (((Npos (XI (XI (XI (XO (XO (XI (XO (XO (XI (XO (XI
    (XI (XO XH)))))))))))))), (Npos (XI (XI (XI (XO (XO (XI (XO (XO (XI (XO
    (XI (XI (XO XH))))))))))))))) :: (((Npos (XI (XO (XI (XI (XO (XI (XO (XO
    (XI (XO (XI (XI (XO XH)))))))))))))), (Npos (XI (XO (XI (XI (XO (XI (XO
    (XO (XI (XO (XI (XI (XO XH))))))))))))))) :: (((Npos (XO (XO (XO (XO (XI
    (XI (XO (XO (XI (XO (XI (XI (XO XH)))))))))))))), (Npos (XI (XI (XI (XO
    (XO (XI (XI (XO (XI (XO (XI (XI (XO XH))))))))))))))) :: (((Npos (XI (XI
    (XI (XI (XO (XI (XI (XO (XI (XO (XI (XI (XO XH)))))))))))))), (Npos (XI
    (XI (XI (XI (XO (XI (XI (XO (XI (XO (XI (XI (XO
    XH))))))))))))))) :: (((Npos (XO (XO (XO (XO (XO (XO (XO (XI (XI (XO (XI
    (XI (XO XH)))))))))))))), (Npos (XO (XI (XI (XO (XI (XO (XO (XI (XI (XO
    (XI (XI (XO XH))))))))))))))) :: (((Npos (XO (XO (XO (XO (XO (XI (XO (XI
    (XI (XO (XI (XI (XO XH)))))))))))))), (Npos (XO (XI (XI (XO (XO (XI (XO
    (XI (XI (XO (XI (XI (XO XH))))))))))))))) :: (((Npos (XO (XO (XO (XI (XO
    (XI (XO (XI (XI (XO (XI (XI (XO XH)))))))))))))), (Npos (XO (XI (XI (XI
    (XO (XI (XO (XI (XI (XO (XI (XI (XO XH))))))))))))))) :: (((Npos (XO (XO
    (XO (XO (XI (XI (XO (XI (XI (XO (XI (XI (XO XH)))))))))))))), (Npos (XO
    (XI (XI (XO (XI (XI (XO (XI (XI (XO (XI (XI (XO
    XH))))))))))))))) :: (((Npos (XO (XO (XO (XI (XI (XI (XO (XI (XI (XO (XI
    (XI (XO XH)))))))))))))), (Npos (XO (XI (XI (XI (XI (XI (XO (XI (XI (XO
    (XI (XI (XO XH))))))))))))))) :: (((Npos (XO (XO (XO (XO (XO (XO (XI (XI
    (XI (XO (XI (XI (XO XH)))))))))))))), (Npos (XO (XI (XI (XO (XO (XO (XI
    (XI (XI (XO (XI (XI (XO XH))))))))))))))) :: (((Npos (XO (XO (XO (XI (XO
    (XO (XI (XI (XI (XO (XI (XI (XO XH)))))))))))))), (Npos (XO (XI (XI (XI
    (XO (XO (XI (XI (XI (XO (XI (XI (XO XH))))))))))))))) :: (((Npos (XO (XO
    (XO (XO (XI (XO (XI (XI (XI (XO (XI (XI (XO XH)))))))))))))), (Npos (XO
    (XI (XI (XO (XI (XO (XI (XI (XI (XO (XI (XI (XO
    XH))))))))))))))) :: (((Npos (XO (XO (XO (XI (XI (XO (XI (XI (XI (XO (XI
    (XI (XO XH)))))))))))))), (Npos (XO (XI (XI (XI (XI (XO (XI (XI (XI (XO
    (XI (XI (XO XH))))))))))))))) :: (((Npos (XI (XI (XI (XI (XO (XI (XO (XO
    (XO (XI (XI (XI (XO XH)))))))))))))), (Npos (XI (XI (XI (XI (XO (XI (XO
    (XO (XO (XI (XI (XI (XO XH))))))))))))))) :: (((Npos (XI (XO (XI (XO (XO
    (XO (XO (XO (XO (XO (XO (XO (XI XH)))))))))))))), (Npos (XO (XI (XI (XO
    (XO (XO (XO (XO (XO (XO (XO (XO (XI XH))))))))))))))) :: (((Npos (XI (XO
    (XO (XO (XI (XI (XO (XO (XO (XO (XO (XO (XI XH)))))))))))))), (Npos (XI
    (XO (XI (XO (XI (XI (XO (XO (XO (XO (XO (XO (XI
    XH))))))))))))))) :: (((Npos (XI (XI (XO (XI (XI (XI (XO (XO (XO (XO (XO
    (XO (XI XH)))))))))))))), (Npos (XO (XO (XI (XI (XI (XI (XO (XO (XO (XO
    (XO (XO (XI XH))))))))))))))) :: (((Npos (XI (XO (XO (XO (XO (XO (XI (XO
    (XO (XO (XO (XO (XI XH)))))))))))))), (Npos (XO (XI (XI (XO (XI (XO (XO
    (XI (XO (XO (XO (XO (XI XH))))))))))))))) :: (((Npos (XI (XO (XI (XI (XI
    (XO (XO (XI (XO (XO (XO (XO (XI XH)))))))))))))), (Npos (XI (XI (XI (XI
    (XI (XO (XO (XI (XO (XO (XO (XO (XI XH))))))))))))))) :: (((Npos (XI (XO
    (XO (XO (XO (XI (XO (XI (XO (XO (XO (XO (XI XH)))))))))))))), (Npos (XO
    (XI (XO (XI (XI (XI (XI (XI (XO (XO (XO (XO (XI
    XH))))))))))))))) :: (((Npos (XO (XO (XI (XI (XI (XI (XI (XI (XO (XO (XO
    (XO (XI XH)))))))))))))), (Npos (XI (XI (XI (XI (XI (XI (XI (XI (XO (XO
    (XO (XO (XI XH))))))))))))))) :: (((Npos (XI (XO (XI (XO (XO (XO (XO (XO
    (XI (XO (XO (XO (XI XH)))))))))))))), (Npos (XI (XI (XI (XI (XO (XI (XO
    (XO (XI (XO (XO (XO (XI XH))))))))))))))) :: (((Npos (XI (XO (XO (XO (XI
    (XI (XO (XO (XI (XO (XO (XO (XI XH)))))))))))))), (Npos (XO (XI (XI (XI
    (XO (XO (XO (XI (XI (XO (XO (XO (XI XH))))))))))))))) :: (((Npos (XO (XO
    (XO (XO (XO (XI (XO (XI (XI (XO (XO (XO (XI XH)))))))))))))), (Npos (XI
    (XI (XI (XI (XI (XI (XO (XI (XI (XO (XO (XO (XI
    XH))))))))))))))) :: (((Npos (XO (XO (XO (XO (XI (XI (XI (XI (XI (XO (XO
    (XO (XI XH)))))))))))))), (Npos (XI (XI (XI (XI (XI (XI (XI (XI (XI (XO
    (XO (XO (XI XH))))))))))))))) :: (((Npos (XO (XO (XO (XO (XO (XO (XO (XO
    (XO (XO (XI (XO (XI XH)))))))))))))), (Npos (XI (XI (XI (XI (XI (XI (XO
    (XI (XI (XO (XI (XI (XO (XO XH)))))))))))))))) :: (((Npos (XO (XO (XO (XO
    (XO (XO (XO (XO (XO (XI (XI (XI (XO (XO XH))))))))))))))), (Npos (XO (XO
    (XI (XI (XO (XO (XO (XI (XO (XO (XI (XO (XO (XI (XO
    XH))))))))))))))))) :: (((Npos (XO (XO (XO (XO (XI (XO (XI (XI (XO (XO
    (XI (XO (XO (XI (XO XH)))))))))))))))), (Npos (XI (XO (XI (XI (XI (XI (XI
    (XI (XO (XO (XI (XO (XO (XI (XO XH))))))))))))))))) :: (((Npos (XO (XO
    (XO (XO (XO (XO (XO (XO (XI (XO (XI (XO (XO (XI (XO XH)))))))))))))))),
    (Npos (XO (XO (XI (XI (XO (XO (XO (XO (XO (XI (XI (XO (XO (XI (XO
    XH))))))))))))))))) :: (((Npos (XO (XO (XO (XO (XI (XO (XO (XO (XO (XI
    (XI (XO (XO (XI (XO XH)))))))))))))))), (Npos (XI (XI (XI (XI (XI (XO (XO
    (XO (XO (XI (XI (XO (XO (XI (XO XH))))))))))))))))) :: (((Npos (XO (XI
    (XO (XI (XO (XI (XO (XO (XO (XI (XI (XO (XO (XI (XO XH)))))))))))))))),
    (Npos (XI (XI (XO (XI (XO (XI (XO (XO (XO (XI (XI (XO (XO (XI (XO
    XH))))))))))))))))) :: (((Npos (XO (XO (XO (XO (XO (XO (XI (XO (XO (XI
    (XI (XO (XO (XI (XO XH)))))))))))))))), (Npos (XO (XI (XI (XI (XO (XI (XI
    (XO (XO (XI (XI (XO (XO (XI (XO XH))))))))))))))))) :: (((Npos (XI (XI
    (XI (XI (XI (XI (XI (XO (XO (XI (XI (XO (XO (XI (XO XH)))))))))))))))),
    (Npos (XI (XO (XI (XI (XI (XO (XO (XI (XO (XI (XI (XO (XO (XI (XO
    XH))))))))))))))))) :: (((Npos (XO (XO (XO (XO (XO (XI (XO (XI (XO (XI
    (XI (XO (XO (XI (XO XH)))))))))))))))), (Npos (XI (XO (XI (XO (XO (XI (XI
    (XI (XO (XI (XI (XO (XO (XI (XO XH))))))))))))))))) :: (((Npos (XI (XI
    (XI (XO (XI (XO (XO (XO (XI (XI (XI (XO (XO (XI (XO XH)))))))))))))))),
    (Npos (XI (XI (XI (XI (XI (XO (XO (XO (XI (XI (XI (XO (XO (XI (XO
    XH))))))))))))))))) :: (((Npos (XO (XI (XO (XO (XO (XI (XO (XO (XI (XI
    (XI (XO (XO (XI (XO XH)))))))))))))))), (Npos (XO (XO (XO (XI (XO (XO (XO
    (XI (XI (XI (XI (XO (XO (XI (XO XH))))))))))))))))) :: (((Npos (XI (XI
    (XO (XI (XO (XO (XO (XI (XI (XI (XI (XO (XO (XI (XO XH)))))))))))))))),
    (Npos (XI (XO (XI (XI (XO (XO (XI (XI (XI (XI (XI (XO (XO (XI (XO
    XH))))))))))))))))) :: (((Npos (XO (XO (XO (XO (XI (XO (XI (XI (XI (XI
    (XI (XO (XO (XI (XO XH)))))))))))))))), (Npos (XI (XO (XO (XO (XI (XO (XI
    (XI (XI (XI (XI (XO (XO (XI (XO XH))))))))))))))))) :: (((Npos (XI (XI
    (XO (XO (XI (XO (XI (XI (XI (XI (XI (XO (XO (XI (XO XH)))))))))))))))),
    (Npos (XI (XI (XO (XO (XI (XO (XI (XI (XI (XI (XI (XO (XO (XI (XO
    XH))))))))))))))))) :: (((Npos (XI (XO (XI (XO (XI (XO (XI (XI (XI (XI
    (XI (XO (XO (XI (XO XH)))))))))))))))), (Npos (XO (XO (XI (XI (XI (XO (XI
    (XI (XI (XI (XI (XO (XO (XI (XO XH))))))))))))))))) :: (((Npos (XO (XI
    (XO (XO (XI (XI (XI (XI (XI (XI (XI (XO (XO (XI (XO XH)))))))))))))))),
    (Npos (XI (XO (XO (XO (XO (XO (XO (XO (XO (XO (XO (XI (XO (XI (XO
    XH))))))))))))))))) :: (((Npos (XI (XI (XO (XO (XO (XO (XO (XO (XO (XO
    (XO (XI (XO (XI (XO XH)))))))))))))))), (Npos (XI (XO (XI (XO (XO (XO (XO
    (XO (XO (XO (XO (XI (XO (XI (XO XH))))))))))))))))) :: (((Npos (XI (XI
    (XI (XO (XO (XO (XO (XO (XO (XO (XO (XI (XO (XI (XO XH)))))))))))))))),
    (Npos (XO (XI (XO (XI (XO (XO (XO (XO (XO (XO (XO (XI (XO (XI (XO
    XH))))))))))))))))) :: (((Npos (XO (XO (XI (XI (XO (XO (XO (XO (XO (XO
    (XO (XI (XO (XI (XO XH)))))))))))))))), (Npos (XO (XI (XO (XO (XO (XI (XO
    (XO (XO (XO (XO (XI (XO (XI (XO XH))))))))))))))))) :: (((Npos (XO (XO
    (XO (XO (XO (XO (XI (XO (XO (XO (XO (XI (XO (XI (XO XH)))))))))))))))),
    (Npos (XI (XI (XO (XO (XI (XI (XI (XO (XO (XO (XO (XI (XO (XI (XO
    XH))))))))))))))))) :: (((Npos (XO (XI (XO (XO (XO (XO (XO (XI (XO (XO
    (XO (XI (XO (XI (XO XH)))))))))))))))), (Npos (XI (XI (XO (XO (XI (XI (XO
    (XI (XO (XO (XO (XI (XO (XI (XO XH))))))))))))))))) :: (((Npos (XO (XI
    (XO (XO (XI (XI (XI (XI (XO (XO (XO (XI (XO (XI (XO XH)))))))))))))))),
    (Npos (XI (XI (XI (XO (XI (XI (XI (XI (XO (XO (XO (XI (XO (XI (XO
    XH))))))))))))))))) :: (((Npos (XI (XI (XO (XI (XI (XI (XI (XI (XO (XO
    (XO (XI (XO (XI (XO XH)))))))))))))))), (Npos (XI (XI (XO (XI (XI (XI (XI
    (XI (XO (XO (XO (XI (XO (XI (XO XH))))))))))))))))) :: (((Npos (XI (XO
    (XI (XI (XI (XI (XI (XI (XO (XO (XO (XI (XO (XI (XO XH)))))))))))))))),
    (Npos (XO (XI (XI (XI (XI (XI (XI (XI (XO (XO (XO (XI (XO (XI (XO
    XH))))))))))))))))) :: (((Npos (XO (XI (XO (XI (XO (XO (XO (XO (XI (XO
    (XO (XI (XO (XI (XO XH)))))))))))))))), (Npos (XI (XO (XI (XO (XO (XI (XO
    (XO (XI (XO (XO (XI (XO (XI (XO XH))))))))))))))))) :: (((Npos (XO (XO
    (XO (XO (XI (XI (XO (XO (XI (XO (XO (XI (XO (XI (XO XH)))))))))))))))),
    (Npos (XO (XI (XI (XO (XO (XO (XI (XO (XI (XO (XO (XI (XO (XI (XO
    XH))))))))))))))))) :: (((Npos (XO (XO (XO (XO (XO (XI (XI (XO (XI (XO
    (XO (XI (XO (XI (XO XH)))))))))))))))), (Npos (XO (XO (XI (XI (XI (XI (XI
    (XO (XI (XO (XO (XI (XO (XI (XO XH))))))))))))))))) :: (((Npos (XO (XO
    (XI (XO (XO (XO (XO (XI (XI (XO (XO (XI (XO (XI (XO XH)))))))))))))))),
    (Npos (XO (XI (XO (XO (XI (XI (XO (XI (XI (XO (XO (XI (XO (XI (XO
    XH))))))))))))))))) :: (((Npos (XI (XI (XI (XI (XO (XO (XI (XI (XI (XO
    (XO (XI (XO (XI (XO XH)))))))))))))))), (Npos (XI (XI (XI (XI (XO (XO (XI
    (XI (XI (XO (XO (XI (XO (XI (XO XH))))))))))))))))) :: (((Npos (XO (XO
    (XO (XO (XO (XI (XI (XI (XI (XO (XO (XI (XO (XI (XO XH)))))))))))))))),
    (Npos (XO (XO (XI (XO (XO (XI (XI (XI (XI (XO (XO (XI (XO (XI (XO
    XH))))))))))))))))) :: (((Npos (XO (XI (XI (XO (XO (XI (XI (XI (XI (XO
    (XO (XI (XO (XI (XO XH)))))))))))))))), (Npos (XI (XI (XI (XI (XO (XI (XI
    (XI (XI (XO (XO (XI (XO (XI (XO XH))))))))))))))))) :: (((Npos (XO (XI
    (XO (XI (XI (XI (XI (XI (XI (XO (XO (XI (XO (XI (XO XH)))))))))))))))),
    (Npos (XO (XI (XI (XI (XI (XI (XI (XI (XI (XO (XO (XI (XO (XI (XO
    XH))))))))))))))))) :: (((Npos (XO (XO (XO (XO (XO (XO (XO (XO (XO (XI
    (XO (XI (XO (XI (XO XH)))))))))))))))), (Npos (XO (XO (XO (XI (XO (XI (XO
    (XO (XO (XI (XO (XI (XO (XI (XO XH))))))))))))))))) :: (((Npos (XO (XO
    (XO (XO (XO (XO (XI (XO (XO (XI (XO (XI (XO (XI (XO XH)))))))))))))))),
    (Npos (XO (XI (XO (XO (XO (XO (XI (XO (XO (XI (XO (XI (XO (XI (XO
    XH))))))))))))))))) :: (((Npos (XO (XO (XI (XO (XO (XO (XI (XO (XO (XI
    (XO (XI (XO (XI (XO XH)))))))))))))))), (Npos (XI (XI (XO (XI (XO (XO (XI
    (XO (XO (XI (XO (XI (XO (XI (XO XH))))))))))))))))) :: (((Npos (XO (XO
    (XO (XO (XO (XI (XI (XO (XO (XI (XO (XI (XO (XI (XO XH)))))))))))))))),
    (Npos (XO (XI (XI (XO (XI (XI (XI (XO (XO (XI (XO (XI (XO (XI (XO
    XH))))))))))))))))) :: (((Npos (XO (XI (XO (XI (XI (XI (XI (XO (XO (XI
    (XO (XI (XO (XI (XO XH)))))))))))))))), (Npos (XO (XI (XO (XI (XI (XI (XI
    (XO (XO (XI (XO (XI (XO (XI (XO XH))))))))))))))))) :: (((Npos (XO (XI
    (XI (XI (XI (XI (XI (XO (XO (XI (XO (XI (XO (XI (XO XH)))))))))))))))),
    (Npos (XI (XI (XI (XI (XO (XI (XO (XI (XO (XI (XO (XI (XO (XI (XO
    XH))))))))))))))))) :: (((Npos (XI (XO (XO (XO (XI (XI (XO (XI (XO (XI
    (XO (XI (XO (XI (XO XH)))))))))))))))), (Npos (XI (XO (XO (XO (XI (XI (XO
    (XI (XO (XI (XO (XI (XO (XI (XO XH))))))))))))))))) :: (((Npos (XI (XO
    (XI (XO (XI (XI (XO (XI (XO (XI (XO (XI (XO (XI (XO XH)))))))))))))))),
    (Npos (XO (XI (XI (XO (XI (XI (XO (XI (XO (XI (XO (XI (XO (XI (XO
    XH))))))))))))))))) :: (((Npos (XI (XO (XO (XI (XI (XI (XO (XI (XO (XI
    (XO (XI (XO (XI (XO XH)))))))))))))))), (Npos (XI (XO (XI (XI (XI (XI (XO
    (XI (XO (XI (XO (XI (XO (XI (XO XH))))))))))))))))) :: (((Npos (XO (XO
    (XO (XO (XO (XO (XI (XI (XO (XI (XO (XI (XO (XI (XO XH)))))))))))))))),
    (Npos (XO (XO (XO (XO (XO (XO (XI (XI (XO (XI (XO (XI (XO (XI (XO
    XH))))))))))))))))) :: (((Npos (XO (XI (XO (XO (XO (XO (XI (XI (XO (XI
    (XO (XI (XO (XI (XO XH)))))))))))))))), (Npos (XO (XI (XO (XO (XO (XO (XI
    (XI (XO (XI (XO (XI (XO (XI (XO XH))))))))))))))))) :: (((Npos (XI (XI
    (XO (XI (XI (XO (XI (XI (XO (XI (XO (XI (XO (XI (XO XH)))))))))))))))),
    (Npos (XI (XO (XI (XI (XI (XO (XI (XI (XO (XI (XO (XI (XO (XI (XO
    XH))))))))))))))))) :: (((Npos (XO (XO (XO (XO (XO (XI (XI (XI (XO (XI
    (XO (XI (XO (XI (XO XH)))))))))))))))), (Npos (XO (XI (XO (XI (XO (XI (XI
    (XI (XO (XI (XO (XI (XO (XI (XO XH))))))))))))))))) :: (((Npos (XO (XI
    (XO (XO (XI (XI (XI (XI (XO (XI (XO (XI (XO (XI (XO XH)))))))))))))))),
    (Npos (XO (XO (XI (XO (XI (XI (XI (XI (XO (XI (XO (XI (XO (XI (XO
    XH))))))))))))))))) :: (((Npos (XI (XO (XO (XO (XO (XO (XO (XO (XI (XI
    (XO (XI (XO (XI (XO XH)))))))))))))))), (Npos (XO (XI (XI (XO (XO (XO (XO
    (XO (XI (XI (XO (XI (XO (XI (XO XH))))))))))))))))) :: (((Npos (XI (XO
    (XO (XI (XO (XO (XO (XO (XI (XI (XO (XI (XO (XI (XO XH)))))))))))))))),
    (Npos (XO (XI (XI (XI (XO (XO (XO (XO (XI (XI (XO (XI (XO (XI (XO
    XH))))))))))))))))) :: (((Npos (XI (XO (XO (XO (XI (XO (XO (XO (XI (XI
    (XO (XI (XO (XI (XO XH)))))))))))))))), (Npos (XO (XI (XI (XO (XI (XO (XO
    (XO (XI (XI (XO (XI (XO (XI (XO XH))))))))))))))))) :: (((Npos (XO (XO
    (XO (XO (XO (XI (XO (XO (XI (XI (XO (XI (XO (XI (XO XH)))))))))))))))),
    (Npos (XO (XI (XI (XO (XO (XI (XO (XO (XI (XI (XO (XI (XO (XI (XO
    XH))))))))))))))))) :: (((Npos (XO (XO (XO (XI (XO (XI (XO (XO (XI (XI
    (XO (XI (XO (XI (XO XH)))))))))))))))), (Npos (XO (XI (XI (XI (XO (XI (XO
    (XO (XI (XI (XO (XI (XO (XI (XO XH))))))))))))))))) :: (((Npos (XO (XO
    (XO (XO (XI (XI (XO (XO (XI (XI (XO (XI (XO (XI (XO XH)))))))))))))))),
    (Npos (XO (XI (XO (XI (XI (XO (XI (XO (XI (XI (XO (XI (XO (XI (XO
    XH))))))))))))))))) :: (((Npos (XO (XO (XI (XI (XI (XO (XI (XO (XI (XI
    (XO (XI (XO (XI (XO XH)))))))))))))))), (Npos (XI (XO (XO (XI (XO (XI (XI
    (XO (XI (XI (XO (XI (XO (XI (XO XH))))))))))))))))) :: (((Npos (XO (XO
    (XO (XO (XI (XI (XI (XO (XI (XI (XO (XI (XO (XI (XO XH)))))))))))))))),
    (Npos (XO (XI (XO (XO (XO (XI (XI (XI (XI (XI (XO (XI (XO (XI (XO
    XH))))))))))))))))) :: (((Npos (XO (XO (XO (XO (XO (XO (XO (XO (XO (XO
    (XI (XI (XO (XI (XO XH)))))))))))))))), (Npos (XI (XI (XO (XO (XO (XI (XO
    (XI (XI (XI (XI (XO (XI (XO (XI XH))))))))))))))))) :: (((Npos (XO (XO
    (XO (XO (XI (XI (XO (XI (XI (XI (XI (XO (XI (XO (XI XH)))))))))))))))),
    (Npos (XO (XI (XI (XO (XO (XO (XI (XI (XI (XI (XI (XO (XI (XO (XI
    XH))))))))))))))))) :: (((Npos (XI (XI (XO (XI (XO (XO (XI (XI (XI (XI
    (XI (XO (XI (XO (XI XH)))))))))))))))), (Npos (XI (XI (XO (XI (XI (XI (XI
    (XI (XI (XI (XI (XO (XI (XO (XI XH))))))))))))))))) :: (((Npos (XO (XO
    (XO (XO (XO (XO (XO (XO (XI (XO (XO (XI (XI (XI (XI XH)))))))))))))))),
    (Npos (XI (XO (XI (XI (XO (XI (XI (XO (XO (XI (XO (XI (XI (XI (XI
    XH))))))))))))))))) :: (((Npos (XO (XO (XO (XO (XI (XI (XI (XO (XO (XI
    (XO (XI (XI (XI (XI XH)))))))))))))))), (Npos (XI (XO (XO (XI (XI (XO (XI
    (XI (XO (XI (XO (XI (XI (XI (XI XH))))))))))))))))) :: (((Npos (XO (XO
    (XO (XO (XO (XO (XO (XO (XI (XI (XO (XI (XI (XI (XI XH)))))))))))))))),
    (Npos (XO (XI (XI (XO (XO (XO (XO (XO (XI (XI (XO (XI (XI (XI (XI
    XH))))))))))))))))) :: (((Npos (XI (XI (XO (XO (XI (XO (XO (XO (XI (XI
    (XO (XI (XI (XI (XI XH)))))))))))))))), (Npos (XI (XI (XI (XO (XI (XO (XO
    (XO (XI (XI (XO (XI (XI (XI (XI XH))))))))))))))))) :: (((Npos (XI (XO
    (XI (XI (XI (XO (XO (XO (XI (XI (XO (XI (XI (XI (XI XH)))))))))))))))),
    (Npos (XI (XO (XI (XI (XI (XO (XO (XO (XI (XI (XO (XI (XI (XI (XI
    XH))))))))))))))))) :: (((Npos (XI (XI (XI (XI (XI (XO (XO (XO (XI (XI
    (XO (XI (XI (XI (XI XH)))))))))))))))), (Npos (XO (XO (XO (XI (XO (XI (XO
    (XO (XI (XI (XO (XI (XI (XI (XI XH))))))))))))))))) :: (((Npos (XO (XI
    (XO (XI (XO (XI (XO (XO (XI (XI (XO (XI (XI (XI (XI XH)))))))))))))))),
    (Npos (XO (XI (XI (XO (XI (XI (XO (XO (XI (XI (XO (XI (XI (XI (XI
    XH))))))))))))))))) :: (((Npos (XO (XO (XO (XI (XI (XI (XO (XO (XI (XI
    (XO (XI (XI (XI (XI XH)))))))))))))))), (Npos (XO (XO (XI (XI (XI (XI (XO
    (XO (XI (XI (XO (XI (XI (XI (XI XH))))))))))))))))) :: (((Npos (XO (XI
    (XI (XI (XI (XI (XO (XO (XI (XI (XO (XI (XI (XI (XI XH)))))))))))))))),
    (Npos (XO (XI (XI (XI (XI (XI (XO (XO (XI (XI (XO (XI (XI (XI (XI
    XH))))))))))))))))) :: (((Npos (XO (XO (XO (XO (XO (XO (XI (XO (XI (XI
    (XO (XI (XI (XI (XI XH)))))))))))))))), (Npos (XI (XO (XO (XO (XO (XO (XI
    (XO (XI (XI (XO (XI (XI (XI (XI XH))))))))))))))))) :: (((Npos (XI (XI
    (XO (XO (XO (XO (XI (XO (XI (XI (XO (XI (XI (XI (XI XH)))))))))))))))),
    (Npos (XO (XO (XI (XO (XO (XO (XI (XO (XI (XI (XO (XI (XI (XI (XI
    XH))))))))))))))))) :: (((Npos (XO (XI (XI (XO (XO (XO (XI (XO (XI (XI
    (XO (XI (XI (XI (XI XH)))))))))))))))), (Npos (XI (XO (XO (XO (XI (XI (XO
    (XI (XI (XI (XO (XI (XI (XI (XI XH))))))))))))))))) :: (((Npos (XI (XI
    (XO (XO (XI (XO (XI (XI (XI (XI (XO (XI (XI (XI (XI XH)))))))))))))))),
    (Npos (XI (XO (XI (XI (XI (XI (XO (XO (XI (XO (XI (XI (XI (XI (XI
    XH))))))))))))))))) :: (((Npos (XO (XO (XO (XO (XI (XO (XI (XO (XI (XO
    (XI (XI (XI (XI (XI XH)))))))))))))))), (Npos (XI (XI (XI (XI (XO (XO (XO
    (XI (XI (XO (XI (XI (XI (XI (XI XH))))))))))))))))) :: (((Npos (XO (XI
    (XO (XO (XI (XO (XO (XI (XI (XO (XI (XI (XI (XI (XI XH)))))))))))))))),
    (Npos (XI (XI (XI (XO (XO (XO (XI (XI (XI (XO (XI (XI (XI (XI (XI
    XH))))))))))))))))) :: (((Npos (XO (XO (XO (XO (XI (XI (XI (XI (XI (XO
    (XI (XI (XI (XI (XI XH)))))))))))))))), (Npos (XI (XI (XO (XI (XI (XI (XI
    (XI (XI (XO (XI (XI (XI (XI (XI XH))))))))))))))))) :: (((Npos (XO (XO
    (XO (XO (XI (XI (XI (XO (XO (XI (XI (XI (XI (XI (XI XH)))))))))))))))),
    (Npos (XO (XO (XI (XO (XI (XI (XI (XO (XO (XI (XI (XI (XI (XI (XI
    XH))))))))))))))))) :: (((Npos (XO (XI (XI (XO (XI (XI (XI (XO (XO (XI
    (XI (XI (XI (XI (XI XH)))))))))))))))), (Npos (XO (XO (XI (XI (XI (XI (XI
    (XI (XO (XI (XI (XI (XI (XI (XI XH))))))))))))))))) :: (((Npos (XI (XO
    (XO (XO (XO (XI (XO (XO (XI (XI (XI (XI (XI (XI (XI XH)))))))))))))))),
    (Npos (XO (XI (XO (XI (XI (XI (XO (XO (XI (XI (XI (XI (XI (XI (XI
    XH))))))))))))))))) :: (((Npos (XI (XO (XO (XO (XO (XO (XI (XO (XI (XI
    (XI (XI (XI (XI (XI XH)))))))))))))))), (Npos (XO (XI (XO (XI (XI (XO (XI
    (XO (XI (XI (XI (XI (XI (XI (XI XH))))))))))))))))) :: (((Npos (XO (XI
    (XI (XO (XO (XI (XI (XO (XI (XI (XI (XI (XI (XI (XI XH)))))))))))))))),
    (Npos (XO (XI (XI (XI (XI (XI (XO (XI (XI (XI (XI (XI (XI (XI (XI
    XH))))))))))))))))) :: (((Npos (XO (XI (XO (XO (XO (XO (XI (XI (XI (XI
    (XI (XI (XI (XI (XI XH)))))))))))))))), (Npos (XI (XI (XI (XO (XO (XO (XI
    (XI (XI (XI (XI (XI (XI (XI (XI XH))))))))))))))))) :: (((Npos (XO (XI
    (XO (XI (XO (XO (XI (XI (XI (XI (XI (XI (XI (XI (XI XH)))))))))))))))),
    (Npos (XI (XI (XI (XI (XO (XO (XI (XI (XI (XI (XI (XI (XI (XI (XI
    XH))))))))))))))))) :: (((Npos (XO (XI (XO (XO (XI (XO (XI (XI (XI (XI
    (XI (XI (XI (XI (XI XH)))))))))))))))), (Npos (XI (XI (XI (XO (XI (XO (XI
    (XI (XI (XI (XI (XI (XI (XI (XI XH))))))))))))))))) :: (((Npos (XO (XI
    (XO (XI (XI (XO (XI (XI (XI (XI (XI (XI (XI (XI (XI XH)))))))))))))))),
    (Npos (XO (XO (XI (XI (XI (XO (XI (XI (XI (XI (XI (XI (XI (XI (XI
    XH))))))))))))))))) :: (((Npos (XO (XO (XO (XO (XO (XO (XO (XO (XO (XO
    (XO (XO (XO (XO (XO (XO XH))))))))))))))))), (Npos (XI (XI (XO (XI (XO
    (XO (XO (XO (XO (XO (XO (XO (XO (XO (XO (XO
    XH)))))))))))))))))) :: (((Npos (XI (XO (XI (XI (XO (XO (XO (XO (XO (XO
    (XO (XO (XO (XO (XO (XO XH))))))))))))))))), (Npos (XO (XI (XI (XO (XO
    (XI (XO (XO (XO (XO (XO (XO (XO (XO (XO (XO
    XH)))))))))))))))))) :: (((Npos (XO (XO (XO (XI (XO (XI (XO (XO (XO (XO
    (XO (XO (XO (XO (XO (XO XH))))))))))))))))), (Npos (XO (XI (XO (XI (XI
    (XI (XO (XO (XO (XO (XO (XO (XO (XO (XO (XO
    XH)))))))))))))))))) :: (((Npos (XO (XO (XI (XI (XI (XI (XO (XO (XO (XO
    (XO (XO (XO (XO (XO (XO XH))))))))))))))))), (Npos (XI (XO (XI (XI (XI
    (XI (XO (XO (XO (XO (XO (XO (XO (XO (XO (XO
    XH)))))))))))))))))) :: (((Npos (XI (XI (XI (XI (XI (XI (XO (XO (XO (XO
    (XO (XO (XO (XO (XO (XO XH))))))))))))))))), (Npos (XI (XO (XI (XI (XO
    (XO (XI (XO (XO (XO (XO (XO (XO (XO (XO (XO
    XH)))))))))))))))))) :: (((Npos (XO (XO (XO (XO (XI (XO (XI (XO (XO (XO
    (XO (XO (XO (XO (XO (XO XH))))))))))))))))), (Npos (XI (XO (XI (XI (XI
    (XO (XI (XO (XO (XO (XO (XO (XO (XO (XO (XO
    XH)))))))))))))))))) :: (((Npos (XO (XO (XO (XO (XO (XO (XO (XI (XO (XO
    (XO (XO (XO (XO (XO (XO XH))))))))))))))))), (Npos (XO (XI (XO (XI (XI
    (XI (XI (XI (XO (XO (XO (XO (XO (XO (XO (XO
    XH)))))))))))))))))) :: (((Npos (XO (XO (XO (XO (XO (XO (XO (XI (XO (XI
    (XO (XO (XO (XO (XO (XO XH))))))))))))))))), (Npos (XO (XO (XI (XI (XI
    (XO (XO (XI (XO (XI (XO (XO (XO (XO (XO (XO
    XH)))))))))))))))))) :: (((Npos (XO (XO (XO (XO (XO (XI (XO (XI (XO (XI
    (XO (XO (XO (XO (XO (XO XH))))))))))))))))), (Npos (XO (XO (XO (XO (XI
    (XO (XI (XI (XO (XI (XO (XO (XO (XO (XO (XO
    XH)))))))))))))))))) :: (((Npos (XO (XO (XO (XO (XO (XO (XO (XO (XI (XI
    (XO (XO (XO (XO (XO (XO XH))))))))))))))))), (Npos (XI (XI (XI (XI (XI
    (XO (XO (XO (XI (XI (XO (XO (XO (XO (XO (XO
    XH)))))))))))))))))) :: (((Npos (XI (XO (XI (XI (XO (XI (XO (XO (XI (XI
    (XO (XO (XO (XO (XO (XO XH))))))))))))))))), (Npos (XO (XO (XO (XO (XO
    (XO (XI (XO (XI (XI (XO (XO (XO (XO (XO (XO
    XH)))))))))))))))))) :: (((Npos (XO (XI (XO (XO (XO (XO (XI (XO (XI (XI
    (XO (XO (XO (XO (XO (XO XH))))))))))))))))), (Npos (XI (XO (XO (XI (XO
    (XO (XI (XO (XI (XI (XO (XO (XO (XO (XO (XO
    XH)))))))))))))))))) :: (((Npos (XO (XO (XO (XO (XI (XO (XI (XO (XI (XI
    (XO (XO (XO (XO (XO (XO XH))))))))))))))))), (Npos (XI (XO (XI (XO (XI
    (XI (XI (XO (XI (XI (XO (XO (XO (XO (XO (XO
    XH)))))))))))))))))) :: (((Npos (XO (XO (XO (XO (XO (XO (XO (XI (XI (XI
    (XO (XO (XO (XO (XO (XO XH))))))))))))))))), (Npos (XI (XO (XI (XI (XI
    (XO (XO (XI (XI (XI (XO (XO (XO (XO (XO (XO
    XH)))))))))))))))))) :: (((Npos (XO (XO (XO (XO (XO (XI (XO (XI (XI (XI
    (XO (XO (XO (XO (XO (XO XH))))))))))))))))), (Npos (XI (XI (XO (XO (XO
    (XO (XI (XI (XI (XI (XO (XO (XO (XO (XO (XO
    XH)))))))))))))))))) :: (((Npos (XO (XO (XO (XI (XO (XO (XI (XI (XI (XI
    (XO (XO (XO (XO (XO (XO XH))))))))))))))))), (Npos (XI (XI (XI (XI (XO
    (XO (XI (XI (XI (XI (XO (XO (XO (XO (XO (XO
    XH)))))))))))))))))) :: (((Npos (XO (XO (XO (XO (XO (XO (XO (XO (XO (XO
    (XI (XO (XO (XO (XO (XO XH))))))))))))))))), (Npos (XI (XO (XI (XI (XI
    (XO (XO (XI (XO (XO (XI (XO (XO (XO (XO (XO
    XH)))))))))))))))))) :: (((Npos (XO (XO (XO (XO (XI (XI (XO (XI (XO (XO
    (XI (XO (XO (XO (XO (XO XH))))))))))))))))), (Npos (XI (XI (XO (XO (XI
    (XO (XI (XI (XO (XO (XI (XO (XO (XO (XO (XO
    XH)))))))))))))))))) :: (((Npos (XO (XO (XO (XI (XI (XO (XI (XI (XO (XO
    (XI (XO (XO (XO (XO (XO XH))))))))))))))))), (Npos (XI (XI (XO (XI (XI
    (XI (XI (XI (XO (XO (XI (XO (XO (XO (XO (XO
    XH)))))))))))))))))) :: (((Npos (XO (XO (XO (XO (XO (XO (XO (XO (XI (XO
    (XI (XO (XO (XO (XO (XO XH))))))))))))))))), (Npos (XI (XI (XI (XO (XO
    (XI (XO (XO (XI (XO (XI (XO (XO (XO (XO (XO
    XH)))))))))))))))))) :: (((Npos (XO (XO (XO (XO (XI (XI (XO (XO (XI (XO
    (XI (XO (XO (XO (XO (XO XH))))))))))))))))), (Npos (XI (XI (XO (XO (XO
    (XI (XI (XO (XI (XO (XI (XO (XO (XO (XO (XO
    XH)))))))))))))))))) :: (((Npos (XO (XO (XO (XO (XI (XI (XI (XO (XI (XO
    (XI (XO (XO (XO (XO (XO XH))))))))))))))))), (Npos (XO (XI (XO (XI (XI
    (XI (XI (XO (XI (XO (XI (XO (XO (XO (XO (XO
    XH)))))))))))))))))) :: (((Npos (XO (XO (XI (XI (XI (XI (XI (XO (XI (XO
    (XI (XO (XO (XO (XO (XO XH))))))))))))))))), (Npos (XO (XI (XO (XI (XO
    (XO (XO (XI (XI (XO (XI (XO (XO (XO (XO (XO
    XH)))))))))))))))))) :: (((Npos (XO (XO (XI (XI (XO (XO (XO (XI (XI (XO
    (XI (XO (XO (XO (XO (XO XH))))))))))))))))), (Npos (XO (XI (XO (XO (XI
    (XO (XO (XI (XI (XO (XI (XO (XO (XO (XO (XO
    XH)))))))))))))))))) :: (((Npos (XO (XO (XI (XO (XI (XO (XO (XI (XI (XO
    (XI (XO (XO (XO (XO (XO XH))))))))))))))))), (Npos (XI (XO (XI (XO (XI
    (XO (XO (XI (XI (XO (XI (XO (XO (XO (XO (XO
    XH)))))))))))))))))) :: (((Npos (XI (XI (XI (XO (XI (XO (XO (XI (XI (XO
    (XI (XO (XO (XO (XO (XO XH))))))))))))))))), (Npos (XI (XO (XO (XO (XO
    (XI (XO (XI (XI (XO (XI (XO (XO (XO (XO (XO
    XH)))))))))))))))))) :: (((Npos (XI (XI (XO (XO (XO (XI (XO (XI (XI (XO
    (XI (XO (XO (XO (XO (XO XH))))))))))))))))), (Npos (XI (XO (XO (XO (XI
    (XI (XO (XI (XI (XO (XI (XO (XO (XO (XO (XO
    XH)))))))))))))))))) :: (((Npos (XI (XI (XO (XO (XI (XI (XO (XI (XI (XO
    (XI (XO (XO (XO (XO (XO XH))))))))))))))))), (Npos (XI (XO (XO (XI (XI
    (XI (XO (XI (XI (XO (XI (XO (XO (XO (XO (XO
    XH)))))))))))))))))) :: (((Npos (XI (XI (XO (XI (XI (XI (XO (XI (XI (XO
    (XI (XO (XO (XO (XO (XO XH))))))))))))))))), (Npos (XO (XO (XI (XI (XI
    (XI (XO (XI (XI (XO (XI (XO (XO (XO (XO (XO
    XH)))))))))))))))))) :: (((Npos (XO (XO (XO (XO (XO (XO (XI (XI (XI (XO
    (XI (XO (XO (XO (XO (XO XH))))))))))))))))), (Npos (XI (XI (XO (XO (XI
    (XI (XI (XI (XI (XO (XI (XO (XO (XO (XO (XO
    XH)))))))))))))))))) :: (((Npos (XO (XO (XO (XO (XO (XO (XO (XO (XO (XI
    (XI (XO (XO (XO (XO (XO XH))))))))))))))))), (Npos (XO (XI (XI (XO (XI
    (XI (XO (XO (XI (XI (XI (XO (XO (XO (XO (XO
    XH)))))))))))))))))) :: (((Npos (XO (XO (XO (XO (XO (XO (XI (XO (XI (XI
    (XI (XO (XO (XO (XO (XO XH))))))))))))))))), (Npos (XI (XO (XI (XO (XI
    (XO (XI (XO (XI (XI (XI (XO (XO (XO (XO (XO
    XH)))))))))))))))))) :: (((Npos (XO (XO (XO (XO (XO (XI (XI (XO (XI (XI
    (XI (XO (XO (XO (XO (XO XH))))))))))))))))), (Npos (XI (XI (XI (XO (XO
    (XI (XI (XO (XI (XI (XI (XO (XO (XO (XO (XO
    XH)))))))))))))))))) :: (((Npos (XO (XO (XO (XO (XO (XO (XO (XI (XI (XI
    (XI (XO (XO (XO (XO (XO XH))))))))))))))))), (Npos (XI (XO (XI (XO (XO
    (XO (XO (XI (XI (XI (XI (XO (XO (XO (XO (XO
    XH)))))))))))))))))) :: (((Npos (XI (XI (XI (XO (XO (XO (XO (XI (XI (XI
    (XI (XO (XO (XO (XO (XO XH))))))))))))))))), (Npos (XO (XO (XO (XO (XI
    (XI (XO (XI (XI (XI (XI (XO (XO (XO (XO (XO
    XH)))))))))))))))))) :: (((Npos (XO (XI (XO (XO (XI (XI (XO (XI (XI (XI
    (XI (XO (XO (XO (XO (XO XH))))))))))))))))), (Npos (XO (XI (XO (XI (XI
    (XI (XO (XI (XI (XI (XI (XO (XO (XO (XO (XO
    XH)))))))))))))))))) :: (((Npos (XO (XO (XO (XO (XO (XO (XO (XO (XO (XO
    (XO (XI (XO (XO (XO (XO XH))))))))))))))))), (Npos (XI (XO (XI (XO (XO
    (XO (XO (XO (XO (XO (XO (XI (XO (XO (XO (XO
    XH)))))))))))))))))) :: (((Npos (XO (XO (XO (XI (XO (XO (XO (XO (XO (XO
    (XO (XI (XO (XO (XO (XO XH))))))))))))))))), (Npos (XO (XO (XO (XI (XO
    (XO (XO (XO (XO (XO (XO (XI (XO (XO (XO (XO
    XH)))))))))))))))))) :: (((Npos (XO (XI (XO (XI (XO (XO (XO (XO (XO (XO
    (XO (XI (XO (XO (XO (XO XH))))))))))))))))), (Npos (XI (XO (XI (XO (XI
    (XI (XO (XO (XO (XO (XO (XI (XO (XO (XO (XO
    XH)))))))))))))))))) :: (((Npos (XI (XI (XI (XO (XI (XI (XO (XO (XO (XO
    (XO (XI (XO (XO (XO (XO XH))))))))))))))))), (Npos (XO (XO (XO (XI (XI
    (XI (XO (XO (XO (XO (XO (XI (XO (XO (XO (XO
    XH)))))))))))))))))) :: (((Npos (XO (XO (XI (XI (XI (XI (XO (XO (XO (XO
    (XO (XI (XO (XO (XO (XO XH))))))))))))))))), (Npos (XO (XO (XI (XI (XI
    (XI (XO (XO (XO (XO (XO (XI (XO (XO (XO (XO
    XH)))))))))))))))))) :: (((Npos (XI (XI (XI (XI (XI (XI (XO (XO (XO (XO
    (XO (XI (XO (XO (XO (XO XH))))))))))))))))), (Npos (XI (XO (XI (XO (XI
    (XO (XI (XO (XO (XO (XO (XI (XO (XO (XO (XO
    XH)))))))))))))))))) :: (((Npos (XO (XO (XO (XO (XO (XI (XI (XO (XO (XO
    (XO (XI (XO (XO (XO (XO XH))))))))))))))))), (Npos (XO (XI (XI (XO (XI
    (XI (XI (XO (XO (XO (XO (XI (XO (XO (XO (XO
    XH)))))))))))))))))) :: (((Npos (XO (XO (XO (XO (XO (XO (XO (XI (XO (XO
    (XO (XI (XO (XO (XO (XO XH))))))))))))))))), (Npos (XO (XI (XI (XI (XI
    (XO (XO (XI (XO (XO (XO (XI (XO (XO (XO (XO
    XH)))))))))))))))))) :: (((Npos (XO (XO (XO (XO (XO (XI (XI (XI (XO (XO
    (XO (XI (XO (XO (XO (XO XH))))))))))))))))), (Npos (XO (XI (XO (XO (XI
    (XI (XI (XI (XO (XO (XO (XI (XO (XO (XO (XO
    XH)))))))))))))))))) :: (((Npos (XO (XO (XI (XO (XI (XI (XI (XI (XO (XO
    (XO (XI (XO (XO (XO (XO XH))))))))))))))))), (Npos (XI (XO (XI (XO (XI
    (XI (XI (XI (XO (XO (XO (XI (XO (XO (XO (XO
    XH)))))))))))))))))) :: (((Npos (XO (XO (XO (XO (XO (XO (XO (XO (XI (XO
    (XO (XI (XO (XO (XO (XO XH))))))))))))))))), (Npos (XI (XO (XI (XO (XI
    (XO (XO (XO (XI (XO (XO (XI (XO (XO (XO (XO
    XH)))))))))))))))))) :: (((Npos (XO (XO (XO (XO (XO (XI (XO (XO (XI (XO
    (XO (XI (XO (XO (XO (XO XH))))))))))))))))), (Npos (XI (XO (XO (XI (XI
    (XI (XO (XO (XI (XO (XO (XI (XO (XO (XO (XO
    XH)))))))))))))))))) :: (((Npos (XO (XO (XO (XO (XO (XO (XO (XI (XI (XO
    (XO (XI (XO (XO (XO (XO XH))))))))))))))))), (Npos (XI (XI (XI (XO (XI
    (XI (XO (XI (XI (XO (XO (XI (XO (XO (XO (XO
    XH)))))))))))))))))) :: (((Npos (XO (XI (XI (XI (XI (XI (XO (XI (XI (XO
    (XO (XI (XO (XO (XO (XO XH))))))))))))))))), (Npos (XI (XI (XI (XI (XI
    (XI (XO (XI (XI (XO (XO (XI (XO (XO (XO (XO
    XH)))))))))))))))))) :: (((Npos (XO (XO (XO (XO (XO (XO (XO (XO (XO (XI
    (XO (XI (XO (XO (XO (XO XH))))))))))))))))), (Npos (XO (XO (XO (XO (XO
    (XO (XO (XO (XO (XI (XO (XI (XO (XO (XO (XO
    XH)))))))))))))))))) :: (((Npos (XO (XO (XO (XO (XI (XO (XO (XO (XO (XI
    (XO (XI (XO (XO (XO (XO XH))))))))))))))))), (Npos (XI (XI (XO (XO (XI
    (XO (XO (XO (XO (XI (XO (XI (XO (XO (XO (XO
    XH)))))))))))))))))) :: (((Npos (XI (XO (XI (XO (XI (XO (XO (XO (XO (XI
    (XO (XI (XO (XO (XO (XO XH))))))))))))))))), (Npos (XI (XI (XI (XO (XI
    (XO (XO (XO (XO (XI (XO (XI (XO (XO (XO (XO
    XH)))))))))))))))))) :: (((Npos (XI (XO (XO (XI (XI (XO (XO (XO (XO (XI
    (XO (XI (XO (XO (XO (XO XH))))))))))))))))), (Npos (XI (XO (XI (XO (XI
    (XI (XO (XO (XO (XI (XO (XI (XO (XO (XO (XO
    XH)))))))))))))))))) :: (((Npos (XO (XO (XO (XO (XO (XI (XI (XO (XO (XI
    (XO (XI (XO (XO (XO (XO XH))))))))))))))))), (Npos (XO (XO (XI (XI (XI
    (XI (XI (XO (XO (XI (XO (XI (XO (XO (XO (XO
    XH)))))))))))))))))) :: (((Npos (XO (XO (XO (XO (XO (XO (XO (XI (XO (XI
    (XO (XI (XO (XO (XO (XO XH))))))))))))))))), (Npos (XO (XO (XI (XI (XI
    (XO (XO (XI (XO (XI (XO (XI (XO (XO (XO (XO
    XH)))))))))))))))))) :: (((Npos (XO (XO (XO (XO (XO (XO (XI (XI (XO (XI
    (XO (XI (XO (XO (XO (XO XH))))))))))))))))), (Npos (XI (XI (XI (XO (XO
    (XO (XI (XI (XO (XI (XO (XI (XO (XO (XO (XO
    XH)))))))))))))))))) :: (((Npos (XI (XO (XO (XI (XO (XO (XI (XI (XO (XI
    (XO (XI (XO (XO (XO (XO XH))))))))))))))))), (Npos (XO (XO (XI (XO (XO
    (XI (XI (XI (XO (XI (XO (XI (XO (XO (XO (XO
    XH)))))))))))))))))) :: (((Npos (XO (XO (XO (XO (XO (XO (XO (XO (XI (XI
    (XO (XI (XO (XO (XO (XO XH))))))))))))))))), (Npos (XI (XO (XI (XO (XI
    (XI (XO (XO (XI (XI (XO (XI (XO (XO (XO (XO
    XH)))))))))))))))))) :: (((Npos (XO (XO (XO (XO (XO (XO (XI (XO (XI (XI
    (XO (XI (XO (XO (XO (XO XH))))))))))))))))), (Npos (XI (XO (XI (XO (XI
    (XO (XI (XO (XI (XI (XO (XI (XO (XO (XO (XO
    XH)))))))))))))))))) :: (((Npos (XO (XO (XO (XO (XO (XI (XI (XO (XI (XI
    (XO (XI (XO (XO (XO (XO XH))))))))))))))))), (Npos (XO (XI (XO (XO (XI
    (XI (XI (XO (XI (XI (XO (XI (XO (XO (XO (XO
    XH)))))))))))))))))) :: (((Npos (XO (XO (XO (XO (XO (XO (XO (XI (XI (XI
    (XO (XI (XO (XO (XO (XO XH))))))))))))))))), (Npos (XI (XO (XO (XO (XI
    (XO (XO (XI (XI (XI (XO (XI (XO (XO (XO (XO
    XH)))))))))))))))))) :: (((Npos (XO (XO (XO (XO (XO (XO (XO (XO (XO (XO
    (XI (XI (XO (XO (XO (XO XH))))))))))))))))), (Npos (XO (XO (XO (XI (XO
    (XO (XI (XO (XO (XO (XI (XI (XO (XO (XO (XO
    XH)))))))))))))))))) :: (((Npos (XO (XO (XO (XO (XO (XO (XO (XI (XO (XO
    (XI (XI (XO (XO (XO (XO XH))))))))))))))))), (Npos (XO (XI (XO (XO (XI
    (XI (XO (XI (XO (XO (XI (XI (XO (XO (XO (XO
    XH)))))))))))))))))) :: (((Npos (XO (XO (XO (XO (XO (XO (XI (XI (XO (XO
    (XI (XI (XO (XO (XO (XO XH))))))))))))))))), (Npos (XO (XI (XO (XO (XI
    (XI (XI (XI (XO (XO (XI (XI (XO (XO (XO (XO
    XH)))))))))))))))))) :: (((Npos (XO (XO (XO (XO (XO (XO (XO (XO (XI (XO
    (XI (XI (XO (XO (XO (XO XH))))))))))))))))), (Npos (XI (XI (XO (XO (XO
    (XI (XO (XO (XI (XO (XI (XI (XO (XO (XO (XO
    XH)))))))))))))))))) :: (((Npos (XO (XI (XO (XI (XO (XO (XI (XO (XI (XO
    (XI (XI (XO (XO (XO (XO XH))))))))))))))))), (Npos (XI (XO (XI (XO (XO
    (XI (XI (XO (XI (XO (XI (XI (XO (XO (XO (XO
    XH)))))))))))))))))) :: (((Npos (XI (XI (XI (XI (XO (XI (XI (XO (XI (XO
    (XI (XI (XO (XO (XO (XO XH))))))))))))))))), (Npos (XI (XO (XI (XO (XO
    (XO (XO (XI (XI (XO (XI (XI (XO (XO (XO (XO
    XH)))))))))))))))))) :: (((Npos (XO (XO (XO (XO (XO (XO (XO (XI (XO (XI
    (XI (XI (XO (XO (XO (XO XH))))))))))))))))), (Npos (XI (XO (XO (XI (XO
    (XI (XO (XI (XO (XI (XI (XI (XO (XO (XO (XO
    XH)))))))))))))))))) :: (((Npos (XO (XO (XO (XO (XI (XI (XO (XI (XO (XI
    (XI (XI (XO (XO (XO (XO XH))))))))))))))))), (Npos (XI (XO (XO (XO (XI
    (XI (XO (XI (XO (XI (XI (XI (XO (XO (XO (XO
    XH)))))))))))))))))) :: (((Npos (XO (XI (XO (XO (XO (XO (XI (XI (XO (XI
    (XI (XI (XO (XO (XO (XO XH))))))))))))))))), (Npos (XO (XO (XI (XO (XO
    (XO (XI (XI (XO (XI (XI (XI (XO (XO (XO (XO
    XH)))))))))))))))))) :: (((Npos (XO (XO (XO (XO (XO (XO (XO (XO (XI (XI
    (XI (XI (XO (XO (XO (XO XH))))))))))))))))), (Npos (XO (XO (XI (XI (XI
    (XO (XO (XO (XI (XI (XI (XI (XO (XO (XO (XO
    XH)))))))))))))))))) :: (((Npos (XI (XI (XI (XO (XO (XI (XO (XO (XI (XI
    (XI (XI (XO (XO (XO (XO XH))))))))))))))))), (Npos (XI (XI (XI (XO (XO
    (XI (XO (XO (XI (XI (XI (XI (XO (XO (XO (XO
    XH)))))))))))))))))) :: (((Npos (XO (XO (XO (XO (XI (XI (XO (XO (XI (XI
    (XI (XI (XO (XO (XO (XO XH))))))))))))))))), (Npos (XI (XO (XI (XO (XO
    (XO (XI (XO (XI (XI (XI (XI (XO (XO (XO (XO
    XH)))))))))))))))))) :: (((Npos (XO (XO (XO (XO (XI (XI (XI (XO (XI (XI
    (XI (XI (XO (XO (XO (XO XH))))))))))))))))), (Npos (XI (XO (XO (XO (XO
    (XO (XO (XI (XI (XI (XI (XI (XO (XO (XO (XO
    XH)))))))))))))))))) :: (((Npos (XO (XO (XO (XO (XI (XI (XO (XI (XI (XI
    (XI (XI (XO (XO (XO (XO XH))))))))))))))))), (Npos (XO (XO (XI (XO (XO
    (XO (XI (XI (XI (XI (XI (XI (XO (XO (XO (XO
    XH)))))))))))))))))) :: (((Npos (XO (XO (XO (XO (XO (XI (XI (XI (XI (XI
    (XI (XI (XO (XO (XO (XO XH))))))))))))))))), (Npos (XO (XI (XI (XO (XI
    (XI (XI (XI (XI (XI (XI (XI (XO (XO (XO (XO
    XH)))))))))))))))))) :: (((Npos (XI (XI (XO (XO (XO (XO (XO (XO (XO (XO
    (XO (XO (XI (XO (XO (XO XH))))))))))))))))), (Npos (XI (XI (XI (XO (XI
    (XI (XO (XO (XO (XO (XO (XO (XI (XO (XO (XO
    XH)))))))))))))))))) :: (((Npos (XI (XO (XO (XO (XI (XI (XI (XO (XO (XO
    (XO (XO (XI (XO (XO (XO XH))))))))))))))))), (Npos (XO (XI (XO (XO (XI
    (XI (XI (XO (XO (XO (XO (XO (XI (XO (XO (XO
    XH)))))))))))))))))) :: (((Npos (XI (XO (XI (XO (XI (XI (XI (XO (XO (XO
    (XO (XO (XI (XO (XO (XO XH))))))))))))))))), (Npos (XI (XO (XI (XO (XI
    (XI (XI (XO (XO (XO (XO (XO (XI (XO (XO (XO
    XH)))))))))))))))))) :: (((Npos (XI (XI (XO (XO (XO (XO (XO (XI (XO (XO
    (XO (XO (XI (XO (XO (XO XH))))))))))))))))), (Npos (XI (XI (XI (XI (XO
    (XI (XO (XI (XO (XO (XO (XO (XI (XO (XO (XO
    XH)))))))))))))))))) :: (((Npos (XO (XO (XO (XO (XI (XO (XI (XI (XO (XO
    (XO (XO (XI (XO (XO (XO XH))))))))))))))))), (Npos (XO (XO (XO (XI (XO
    (XI (XI (XI (XO (XO (XO (XO (XI (XO (XO (XO
    XH)))))))))))))))))) :: (((Npos (XI (XI (XO (XO (XO (XO (XO (XO (XI (XO
    (XO (XO (XI (XO (XO (XO XH))))))))))))))))), (Npos (XO (XI (XI (XO (XO
    (XI (XO (XO (XI (XO (XO (XO (XI (XO (XO (XO
    XH)))))))))))))))))) :: (((Npos (XO (XO (XI (XO (XO (XO (XI (XO (XI (XO
    (XO (XO (XI (XO (XO (XO XH))))))))))))))))), (Npos (XO (XO (XI (XO (XO
    (XO (XI (XO (XI (XO (XO (XO (XI (XO (XO (XO
    XH)))))))))))))))))) :: (((Npos (XI (XI (XI (XO (XO (XO (XI (XO (XI (XO
    (XO (XO (XI (XO (XO (XO XH))))))))))))))))), (Npos (XI (XI (XI (XO (XO
    (XO (XI (XO (XI (XO (XO (XO (XI (XO (XO (XO
    XH)))))))))))))))))) :: (((Npos (XO (XO (XO (XO (XI (XO (XI (XO (XI (XO
    (XO (XO (XI (XO (XO (XO XH))))))))))))))))), (Npos (XO (XI (XO (XO (XI
    (XI (XI (XO (XI (XO (XO (XO (XI (XO (XO (XO
    XH)))))))))))))))))) :: (((Npos (XO (XI (XI (XO (XI (XI (XI (XO (XI (XO
    (XO (XO (XI (XO (XO (XO XH))))))))))))))))), (Npos (XO (XI (XI (XO (XI
    (XI (XI (XO (XI (XO (XO (XO (XI (XO (XO (XO
    XH)))))))))))))))))) :: (((Npos (XI (XI (XO (XO (XO (XO (XO (XI (XI (XO
    (XO (XO (XI (XO (XO (XO XH))))))))))))))))), (Npos (XO (XI (XO (XO (XI
    (XI (XO (XI (XI (XO (XO (XO (XI (XO (XO (XO
    XH)))))))))))))))))) :: (((Npos (XI (XO (XO (XO (XO (XO (XI (XI (XI (XO
    (XO (XO (XI (XO (XO (XO XH))))))))))))))))), (Npos (XO (XO (XI (XO (XO
    (XO (XI (XI (XI (XO (XO (XO (XI (XO (XO (XO
    XH)))))))))))))))))) :: (((Npos (XO (XI (XO (XI (XI (XO (XI (XI (XI (XO
    (XO (XO (XI (XO (XO (XO XH))))))))))))))))), (Npos (XO (XI (XO (XI (XI
    (XO (XI (XI (XI (XO (XO (XO (XI (XO (XO (XO
    XH)))))))))))))))))) :: (((Npos (XO (XO (XI (XI (XI (XO (XI (XI (XI (XO
    (XO (XO (XI (XO (XO (XO XH))))))))))))))))), (Npos (XO (XO (XI (XI (XI
    (XO (XI (XI (XI (XO (XO (XO (XI (XO (XO (XO
    XH)))))))))))))))))) :: (((Npos (XO (XO (XO (XO (XO (XO (XO (XO (XO (XI
    (XO (XO (XI (XO (XO (XO XH))))))))))))))))), (Npos (XI (XO (XO (XO (XI
    (XO (XO (XO (XO (XI (XO (XO (XI (XO (XO (XO
    XH)))))))))))))))))) :: (((Npos (XI (XI (XO (XO (XI (XO (XO (XO (XO (XI
    (XO (XO (XI (XO (XO (XO XH))))))))))))))))), (Npos (XI (XI (XO (XI (XO
    (XI (XO (XO (XO (XI (XO (XO (XI (XO (XO (XO
    XH)))))))))))))))))) :: (((Npos (XI (XI (XI (XI (XI (XI (XO (XO (XO (XI
    (XO (XO (XI (XO (XO (XO XH))))))))))))))))), (Npos (XO (XO (XO (XO (XO
    (XO (XI (XO (XO (XI (XO (XO (XI (XO (XO (XO
    XH)))))))))))))))))) :: (((Npos (XO (XO (XO (XO (XO (XO (XO (XI (XO (XI
    (XO (XO (XI (XO (XO (XO XH))))))))))))))))), (Npos (XO (XI (XI (XO (XO
    (XO (XO (XI (XO (XI (XO (XO (XI (XO (XO (XO
    XH)))))))))))))))))) :: (((Npos (XO (XO (XO (XI (XO (XO (XO (XI (XO (XI
    (XO (XO (XI (XO (XO (XO XH))))))))))))))))), (Npos (XO (XO (XO (XI (XO
    (XO (XO (XI (XO (XI (XO (XO (XI (XO (XO (XO
    XH)))))))))))))))))) :: (((Npos (XO (XI (XO (XI (XO (XO (XO (XI (XO (XI
    (XO (XO (XI (XO (XO (XO XH))))))))))))))))), (Npos (XI (XO (XI (XI (XO
    (XO (XO (XI (XO (XI (XO (XO (XI (XO (XO (XO
    XH)))))))))))))))))) :: (((Npos (XI (XI (XI (XI (XO (XO (XO (XI (XO (XI
    (XO (XO (XI (XO (XO (XO XH))))))))))))))))), (Npos (XI (XO (XI (XI (XI
    (XO (XO (XI (XO (XI (XO (XO (XI (XO (XO (XO
    XH)))))))))))))))))) :: (((Npos (XI (XI (XI (XI (XI (XO (XO (XI (XO (XI
    (XO (XO (XI (XO (XO (XO XH))))))))))))))))), (Npos (XO (XO (XO (XI (XO
    (XI (XO (XI (XO (XI (XO (XO (XI (XO (XO (XO
    XH)))))))))))))))))) :: (((Npos (XO (XO (XO (XO (XI (XI (XO (XI (XO (XI
    (XO (XO (XI (XO (XO (XO XH))))))))))))))))), (Npos (XO (XI (XI (XI (XI
    (XO (XI (XI (XO (XI (XO (XO (XI (XO (XO (XO
    XH)))))))))))))))))) :: (((Npos (XI (XO (XI (XO (XO (XO (XO (XO (XI (XI
    (XO (XO (XI (XO (XO (XO XH))))))))))))))))), (Npos (XO (XO (XI (XI (XO
    (XO (XO (XO (XI (XI (XO (XO (XI (XO (XO (XO
    XH)))))))))))))))))) :: (((Npos (XI (XI (XI (XI (XO (XO (XO (XO (XI (XI
    (XO (XO (XI (XO (XO (XO XH))))))))))))))))), (Npos (XO (XO (XO (XO (XI
    (XO (XO (XO (XI (XI (XO (XO (XI (XO (XO (XO
    XH)))))))))))))))))) :: (((Npos (XI (XI (XO (XO (XI (XO (XO (XO (XI (XI
    (XO (XO (XI (XO (XO (XO XH))))))))))))))))), (Npos (XO (XO (XO (XI (XO
    (XI (XO (XO (XI (XI (XO (XO (XI (XO (XO (XO
    XH)))))))))))))))))) :: (((Npos (XO (XI (XO (XI (XO (XI (XO (XO (XI (XI
    (XO (XO (XI (XO (XO (XO XH))))))))))))))))), (Npos (XO (XO (XO (XO (XI
    (XI (XO (XO (XI (XI (XO (XO (XI (XO (XO (XO
    XH)))))))))))))))))) :: (((Npos (XO (XI (XO (XO (XI (XI (XO (XO (XI (XI
    (XO (XO (XI (XO (XO (XO XH))))))))))))))))), (Npos (XI (XI (XO (XO (XI
    (XI (XO (XO (XI (XI (XO (XO (XI (XO (XO (XO
    XH)))))))))))))))))) :: (((Npos (XI (XO (XI (XO (XI (XI (XO (XO (XI (XI
    (XO (XO (XI (XO (XO (XO XH))))))))))))))))), (Npos (XI (XO (XO (XI (XI
    (XI (XO (XO (XI (XI (XO (XO (XI (XO (XO (XO
    XH)))))))))))))))))) :: (((Npos (XI (XO (XI (XI (XI (XI (XO (XO (XI (XI
    (XO (XO (XI (XO (XO (XO XH))))))))))))))))), (Npos (XI (XO (XI (XI (XI
    (XI (XO (XO (XI (XI (XO (XO (XI (XO (XO (XO
    XH)))))))))))))))))) :: (((Npos (XO (XO (XO (XO (XI (XO (XI (XO (XI (XI
    (XO (XO (XI (XO (XO (XO XH))))))))))))))))), (Npos (XO (XO (XO (XO (XI
    (XO (XI (XO (XI (XI (XO (XO (XI (XO (XO (XO
    XH)))))))))))))))))) :: (((Npos (XI (XO (XI (XI (XI (XO (XI (XO (XI (XI
    (XO (XO (XI (XO (XO (XO XH))))))))))))))))), (Npos (XI (XO (XO (XO (XO
    (XI (XI (XO (XI (XI (XO (XO (XI (XO (XO (XO
    XH)))))))))))))))))) :: (((Npos (XO (XO (XO (XO (XO (XO (XO (XI (XI (XI
    (XO (XO (XI (XO (XO (XO XH))))))))))))))))), (Npos (XI (XO (XO (XI (XO
    (XO (XO (XI (XI (XI (XO (XO (XI (XO (XO (XO
    XH)))))))))))))))))) :: (((Npos (XI (XI (XO (XI (XO (XO (XO (XI (XI (XI
    (XO (XO (XI (XO (XO (XO XH))))))))))))))))), (Npos (XI (XI (XO (XI (XO
    (XO (XO (XI (XI (XI (XO (XO (XI (XO (XO (XO
    XH)))))))))))))))))) :: (((Npos (XO (XI (XI (XI (XO (XO (XO (XI (XI (XI
    (XO (XO (XI (XO (XO (XO XH))))))))))))))))), (Npos (XO (XI (XI (XI (XO
    (XO (XO (XI (XI (XI (XO (XO (XI (XO (XO (XO
    XH)))))))))))))))))) :: (((Npos (XO (XO (XO (XO (XI (XO (XO (XI (XI (XI
    (XO (XO (XI (XO (XO (XO XH))))))))))))))))), (Npos (XI (XO (XI (XO (XI
    (XI (XO (XI (XI (XI (XO (XO (XI (XO (XO (XO
    XH)))))))))))))))))) :: (((Npos (XI (XI (XI (XO (XI (XI (XO (XI (XI (XI
    (XO (XO (XI (XO (XO (XO XH))))))))))))))))), (Npos (XI (XI (XI (XO (XI
    (XI (XO (XI (XI (XI (XO (XO (XI (XO (XO (XO
    XH)))))))))))))))))) :: (((Npos (XI (XO (XO (XO (XI (XO (XI (XI (XI (XI
    (XO (XO (XI (XO (XO (XO XH))))))))))))))))), (Npos (XI (XO (XO (XO (XI
    (XO (XI (XI (XI (XI (XO (XO (XI (XO (XO (XO
    XH)))))))))))))))))) :: (((Npos (XI (XI (XO (XO (XI (XO (XI (XI (XI (XI
    (XO (XO (XI (XO (XO (XO XH))))))))))))))))), (Npos (XI (XI (XO (XO (XI
    (XO (XI (XI (XI (XI (XO (XO (XI (XO (XO (XO
    XH)))))))))))))))))) :: (((Npos (XO (XO (XO (XO (XO (XO (XO (XO (XO (XO
    (XI (XO (XI (XO (XO (XO XH))))))))))))))))), (Npos (XO (XO (XI (XO (XI
    (XI (XO (XO (XO (XO (XI (XO (XI (XO (XO (XO
    XH)))))))))))))))))) :: (((Npos (XI (XI (XI (XO (XO (XO (XI (XO (XO (XO
    (XI (XO (XI (XO (XO (XO XH))))))))))))))))), (Npos (XO (XI (XO (XI (XO
    (XO (XI (XO (XO (XO (XI (XO (XI (XO (XO (XO
    XH)))))))))))))))))) :: (((Npos (XI (XI (XI (XI (XI (XO (XI (XO (XO (XO
    (XI (XO (XI (XO (XO (XO XH))))))))))))))))), (Npos (XI (XO (XO (XO (XO
    (XI (XI (XO (XO (XO (XI (XO (XI (XO (XO (XO
    XH)))))))))))))))))) :: (((Npos (XO (XO (XO (XO (XO (XO (XO (XI (XO (XO
    (XI (XO (XI (XO (XO (XO XH))))))))))))))))), (Npos (XI (XI (XI (XI (XO
    (XI (XO (XI (XO (XO (XI (XO (XI (XO (XO (XO
    XH)))))))))))))))))) :: (((Npos (XO (XO (XI (XO (XO (XO (XI (XI (XO (XO
    (XI (XO (XI (XO (XO (XO XH))))))))))))))))), (Npos (XI (XO (XI (XO (XO
    (XO (XI (XI (XO (XO (XI (XO (XI (XO (XO (XO
    XH)))))))))))))))))) :: (((Npos (XI (XI (XI (XO (XO (XO (XI (XI (XO (XO
    (XI (XO (XI (XO (XO (XO XH))))))))))))))))), (Npos (XI (XI (XI (XO (XO
    (XO (XI (XI (XO (XO (XI (XO (XI (XO (XO (XO
    XH)))))))))))))))))) :: (((Npos (XO (XO (XO (XO (XO (XO (XO (XI (XI (XO
    (XI (XO (XI (XO (XO (XO XH))))))))))))))))), (Npos (XO (XI (XI (XI (XO
    (XI (XO (XI (XI (XO (XI (XO (XI (XO (XO (XO
    XH)))))))))))))))))) :: (((Npos (XO (XO (XO (XI (XI (XO (XI (XI (XI (XO
    (XI (XO (XI (XO (XO (XO XH))))))))))))))))), (Npos (XI (XI (XO (XI (XI
    (XO (XI (XI (XI (XO (XI (XO (XI (XO (XO (XO
    XH)))))))))))))))))) :: (((Npos (XO (XO (XO (XO (XO (XO (XO (XO (XO (XI
    (XI (XO (XI (XO (XO (XO XH))))))))))))))))), (Npos (XI (XI (XI (XI (XO
    (XI (XO (XO (XO (XI (XI (XO (XI (XO (XO (XO
    XH)))))))))))))))))) :: (((Npos (XO (XO (XI (XO (XO (XO (XI (XO (XO (XI
    (XI (XO (XI (XO (XO (XO XH))))))))))))))))), (Npos (XO (XO (XI (XO (XO
    (XO (XI (XO (XO (XI (XI (XO (XI (XO (XO (XO
    XH)))))))))))))))))) :: (((Npos (XO (XO (XO (XO (XO (XO (XO (XI (XO (XI
    (XI (XO (XI (XO (XO (XO XH))))))))))))))))), (Npos (XO (XI (XO (XI (XO
    (XI (XO (XI (XO (XI (XI (XO (XI (XO (XO (XO
    XH)))))))))))))))))) :: (((Npos (XO (XO (XO (XI (XI (XI (XO (XI (XO (XI
    (XI (XO (XI (XO (XO (XO XH))))))))))))))))), (Npos (XO (XO (XO (XI (XI
    (XI (XO (XI (XO (XI (XI (XO (XI (XO (XO (XO
    XH)))))))))))))))))) :: (((Npos (XO (XO (XO (XO (XO (XO (XO (XO (XI (XI
    (XI (XO (XI (XO (XO (XO XH))))))))))))))))), (Npos (XO (XI (XO (XI (XI
    (XO (XO (XO (XI (XI (XI (XO (XI (XO (XO (XO
    XH)))))))))))))))))) :: (((Npos (XO (XO (XO (XO (XO (XO (XI (XO (XI (XI
    (XI (XO (XI (XO (XO (XO XH))))))))))))))))), (Npos (XO (XI (XI (XO (XO
    (XO (XI (XO (XI (XI (XI (XO (XI (XO (XO (XO
    XH)))))))))))))))))) :: (((Npos (XO (XO (XO (XO (XO (XO (XO (XO (XO (XO
    (XO (XI (XI (XO (XO (XO XH))))))))))))))))), (Npos (XI (XI (XO (XI (XO
    (XI (XO (XO (XO (XO (XO (XI (XI (XO (XO (XO
    XH)))))))))))))))))) :: (((Npos (XO (XO (XO (XO (XO (XI (XO (XI (XO (XO
    (XO (XI (XI (XO (XO (XO XH))))))))))))))))), (Npos (XI (XI (XI (XI (XI
    (XO (XI (XI (XO (XO (XO (XI (XI (XO (XO (XO
    XH)))))))))))))))))) :: (((Npos (XI (XI (XI (XI (XI (XI (XI (XI (XO (XO
    (XO (XI (XI (XO (XO (XO XH))))))))))))))))), (Npos (XO (XI (XI (XO (XO
    (XO (XO (XO (XI (XO (XO (XI (XI (XO (XO (XO
    XH)))))))))))))))))) :: (((Npos (XI (XO (XO (XI (XO (XO (XO (XO (XI (XO
    (XO (XI (XI (XO (XO (XO XH))))))))))))))))), (Npos (XI (XO (XO (XI (XO
    (XO (XO (XO (XI (XO (XO (XI (XI (XO (XO (XO
    XH)))))))))))))))))) :: (((Npos (XO (XO (XI (XI (XO (XO (XO (XO (XI (XO
    (XO (XI (XI (XO (XO (XO XH))))))))))))))))), (Npos (XI (XI (XO (XO (XI
    (XO (XO (XO (XI (XO (XO (XI (XI (XO (XO (XO
    XH)))))))))))))))))) :: (((Npos (XI (XO (XI (XO (XI (XO (XO (XO (XI (XO
    (XO (XI (XI (XO (XO (XO XH))))))))))))))))), (Npos (XO (XI (XI (XO (XI
    (XO (XO (XO (XI (XO (XO (XI (XI (XO (XO (XO
    XH)))))))))))))))))) :: (((Npos (XO (XO (XO (XI (XI (XO (XO (XO (XI (XO
    (XO (XI (XI (XO (XO (XO XH))))))))))))))))), (Npos (XI (XI (XI (XI (XO
    (XI (XO (XO (XI (XO (XO (XI (XI (XO (XO (XO
    XH)))))))))))))))))) :: (((Npos (XI (XI (XI (XI (XI (XI (XO (XO (XI (XO
    (XO (XI (XI (XO (XO (XO XH))))))))))))))))), (Npos (XI (XI (XI (XI (XI
    (XI (XO (XO (XI (XO (XO (XI (XI (XO (XO (XO
    XH)))))))))))))))))) :: (((Npos (XI (XO (XO (XO (XO (XO (XI (XO (XI (XO
    (XO (XI (XI (XO (XO (XO XH))))))))))))))))), (Npos (XI (XO (XO (XO (XO
    (XO (XI (XO (XI (XO (XO (XI (XI (XO (XO (XO
    XH)))))))))))))))))) :: (((Npos (XO (XO (XO (XO (XO (XI (XO (XI (XI (XO
    (XO (XI (XI (XO (XO (XO XH))))))))))))))))), (Npos (XI (XI (XI (XO (XO
    (XI (XO (XI (XI (XO (XO (XI (XI (XO (XO (XO
    XH)))))))))))))))))) :: (((Npos (XO (XI (XO (XI (XO (XI (XO (XI (XI (XO
    (XO (XI (XI (XO (XO (XO XH))))))))))))))))), (Npos (XO (XO (XO (XO (XI
    (XO (XI (XI (XI (XO (XO (XI (XI (XO (XO (XO
    XH)))))))))))))))))) :: (((Npos (XI (XO (XO (XO (XO (XI (XI (XI (XI (XO
    (XO (XI (XI (XO (XO (XO XH))))))))))))))))), (Npos (XI (XO (XO (XO (XO
    (XI (XI (XI (XI (XO (XO (XI (XI (XO (XO (XO
    XH)))))))))))))))))) :: (((Npos (XI (XI (XO (XO (XO (XI (XI (XI (XI (XO
    (XO (XI (XI (XO (XO (XO XH))))))))))))))))), (Npos (XI (XI (XO (XO (XO
    (XI (XI (XI (XI (XO (XO (XI (XI (XO (XO (XO
    XH)))))))))))))))))) :: (((Npos (XO (XO (XO (XO (XO (XO (XO (XO (XO (XI
    (XO (XI (XI (XO (XO (XO XH))))))))))))))))), (Npos (XO (XO (XO (XO (XO
    (XO (XO (XO (XO (XI (XO (XI (XI (XO (XO (XO
    XH)))))))))))))))))) :: (((Npos (XI (XI (XO (XI (XO (XO (XO (XO (XO (XI
    (XO (XI (XI (XO (XO (XO XH))))))))))))))))), (Npos (XO (XI (XO (XO (XI
    (XI (XO (XO (XO (XI (XO (XI (XI (XO (XO (XO
    XH)))))))))))))))))) :: (((Npos (XO (XI (XO (XI (XI (XI (XO (XO (XO (XI
    (XO (XI (XI (XO (XO (XO XH))))))))))))))))), (Npos (XO (XI (XO (XI (XI
    (XI (XO (XO (XO (XI (XO (XI (XI (XO (XO (XO
    XH)))))))))))))))))) :: (((Npos (XO (XO (XO (XO (XI (XO (XI (XO (XO (XI
    (XO (XI (XI (XO (XO (XO XH))))))))))))))))), (Npos (XO (XO (XO (XO (XI
    (XO (XI (XO (XO (XI (XO (XI (XI (XO (XO (XO
    XH)))))))))))))))))) :: (((Npos (XO (XO (XI (XI (XI (XO (XI (XO (XO (XI
    (XO (XI (XI (XO (XO (XO XH))))))))))))))))), (Npos (XI (XO (XO (XI (XO
    (XO (XO (XI (XO (XI (XO (XI (XI (XO (XO (XO
    XH)))))))))))))))))) :: (((Npos (XI (XO (XI (XI (XI (XO (XO (XI (XO (XI
    (XO (XI (XI (XO (XO (XO XH))))))))))))))))), (Npos (XI (XO (XI (XI (XI
    (XO (XO (XI (XO (XI (XO (XI (XI (XO (XO (XO
    XH)))))))))))))))))) :: (((Npos (XO (XO (XO (XO (XI (XI (XO (XI (XO (XI
    (XO (XI (XI (XO (XO (XO XH))))))))))))))))), (Npos (XO (XO (XO (XI (XI
    (XI (XI (XI (XO (XI (XO (XI (XI (XO (XO (XO
    XH)))))))))))))))))) :: (((Npos (XO (XO (XO (XO (XO (XO (XI (XI (XI (XI
    (XO (XI (XI (XO (XO (XO XH))))))))))))))))), (Npos (XO (XO (XO (XO (XO
    (XI (XI (XI (XI (XI (XO (XI (XI (XO (XO (XO
    XH)))))))))))))))))) :: (((Npos (XO (XO (XO (XO (XO (XO (XO (XO (XO (XO
    (XI (XI (XI (XO (XO (XO XH))))))))))))))))), (Npos (XO (XO (XO (XI (XO
    (XO (XO (XO (XO (XO (XI (XI (XI (XO (XO (XO
    XH)))))))))))))))))) :: (((Npos (XO (XI (XO (XI (XO (XO (XO (XO (XO (XO
    (XI (XI (XI (XO (XO (XO XH))))))))))))))))), (Npos (XO (XI (XI (XI (XO
    (XI (XO (XO (XO (XO (XI (XI (XI (XO (XO (XO
    XH)))))))))))))))))) :: (((Npos (XO (XO (XO (XO (XO (XO (XI (XO (XO (XO
    (XI (XI (XI (XO (XO (XO XH))))))))))))))))), (Npos (XO (XO (XO (XO (XO
    (XO (XI (XO (XO (XO (XI (XI (XI (XO (XO (XO
    XH)))))))))))))))))) :: (((Npos (XO (XI (XO (XO (XI (XI (XI (XO (XO (XO
    (XI (XI (XI (XO (XO (XO XH))))))))))))))))), (Npos (XI (XI (XI (XI (XO
    (XO (XO (XI (XO (XO (XI (XI (XI (XO (XO (XO
    XH)))))))))))))))))) :: (((Npos (XO (XO (XO (XO (XO (XO (XO (XO (XI (XO
    (XI (XI (XI (XO (XO (XO XH))))))))))))))))), (Npos (XO (XI (XI (XO (XO
    (XO (XO (XO (XI (XO (XI (XI (XI (XO (XO (XO
    XH)))))))))))))))))) :: (((Npos (XO (XO (XO (XI (XO (XO (XO (XO (XI (XO
    (XI (XI (XI (XO (XO (XO XH))))))))))))))))), (Npos (XI (XO (XO (XI (XO
    (XO (XO (XO (XI (XO (XI (XI (XI (XO (XO (XO
    XH)))))))))))))))))) :: (((Npos (XI (XI (XO (XI (XO (XO (XO (XO (XI (XO
    (XI (XI (XI (XO (XO (XO XH))))))))))))))))), (Npos (XO (XO (XO (XO (XI
    (XI (XO (XO (XI (XO (XI (XI (XI (XO (XO (XO
    XH)))))))))))))))))) :: (((Npos (XO (XI (XI (XO (XO (XO (XI (XO (XI (XO
    (XI (XI (XI (XO (XO (XO XH))))))))))))))))), (Npos (XO (XI (XI (XO (XO
    (XO (XI (XO (XI (XO (XI (XI (XI (XO (XO (XO
    XH)))))))))))))))))) :: (((Npos (XO (XO (XO (XO (XO (XI (XI (XO (XI (XO
    (XI (XI (XI (XO (XO (XO XH))))))))))))))))), (Npos (XI (XO (XI (XO (XO
    (XI (XI (XO (XI (XO (XI (XI (XI (XO (XO (XO
    XH)))))))))))))))))) :: (((Npos (XI (XI (XI (XO (XO (XI (XI (XO (XI (XO
    (XI (XI (XI (XO (XO (XO XH))))))))))))))))), (Npos (XO (XO (XO (XI (XO
    (XI (XI (XO (XI (XO (XI (XI (XI (XO (XO (XO
    XH)))))))))))))))))) :: (((Npos (XO (XI (XO (XI (XO (XI (XI (XO (XI (XO
    (XI (XI (XI (XO (XO (XO XH))))))))))))))))), (Npos (XI (XO (XO (XI (XO
    (XO (XO (XI (XI (XO (XI (XI (XI (XO (XO (XO
    XH)))))))))))))))))) :: (((Npos (XO (XO (XO (XI (XI (XO (XO (XI (XI (XO
    (XI (XI (XI (XO (XO (XO XH))))))))))))))))), (Npos (XO (XO (XO (XI (XI
    (XO (XO (XI (XI (XO (XI (XI (XI (XO (XO (XO
    XH)))))))))))))))))) :: (((Npos (XO (XO (XO (XO (XO (XI (XI (XI (XO (XI
    (XI (XI (XI (XO (XO (XO XH))))))))))))))))), (Npos (XO (XI (XO (XO (XI
    (XI (XI (XI (XO (XI (XI (XI (XI (XO (XO (XO
    XH)))))))))))))))))) :: (((Npos (XO (XI (XO (XO (XO (XO (XO (XO (XI (XI
    (XI (XI (XI (XO (XO (XO XH))))))))))))))))), (Npos (XO (XI (XO (XO (XO
    (XO (XO (XO (XI (XI (XI (XI (XI (XO (XO (XO
    XH)))))))))))))))))) :: (((Npos (XO (XO (XI (XO (XO (XO (XO (XO (XI (XI
    (XI (XI (XI (XO (XO (XO XH))))))))))))))))), (Npos (XO (XO (XO (XO (XI
    (XO (XO (XO (XI (XI (XI (XI (XI (XO (XO (XO
    XH)))))))))))))))))) :: (((Npos (XO (XI (XO (XO (XI (XO (XO (XO (XI (XI
    (XI (XI (XI (XO (XO (XO XH))))))))))))))))), (Npos (XI (XI (XO (XO (XI
    (XI (XO (XO (XI (XI (XI (XI (XI (XO (XO (XO
    XH)))))))))))))))))) :: (((Npos (XO (XO (XO (XO (XI (XI (XO (XI (XI (XI
    (XI (XI (XI (XO (XO (XO XH))))))))))))))))), (Npos (XO (XO (XO (XO (XI
    (XI (XO (XI (XI (XI (XI (XI (XI (XO (XO (XO
    XH)))))))))))))))))) :: (((Npos (XO (XO (XO (XO (XO (XO (XO (XO (XO (XO
    (XO (XO (XO (XI (XO (XO XH))))))))))))))))), (Npos (XI (XO (XO (XI (XI
    (XO (XO (XI (XI (XI (XO (XO (XO (XI (XO (XO
    XH)))))))))))))))))) :: (((Npos (XO (XO (XO (XO (XO (XO (XO (XI (XO (XO
    (XI (XO (XO (XI (XO (XO XH))))))))))))))))), (Npos (XI (XI (XO (XO (XO
    (XO (XI (XO (XI (XO (XI (XO (XO (XI (XO (XO
    XH)))))))))))))))))) :: (((Npos (XO (XO (XO (XO (XI (XO (XO (XI (XI (XI
    (XI (XI (XO (XI (XO (XO XH))))))))))))))))), (Npos (XO (XO (XO (XO (XI
    (XI (XI (XI (XI (XI (XI (XI (XO (XI (XO (XO
    XH)))))))))))))))))) :: (((Npos (XO (XO (XO (XO (XO (XO (XO (XO (XO (XO
    (XO (XO (XI (XI (XO (XO XH))))))))))))))))), (Npos (XI (XI (XI (XI (XO
    (XI (XO (XO (XO (XO (XI (XO (XI (XI (XO (XO
    XH)))))))))))))))))) :: (((Npos (XI (XO (XO (XO (XO (XO (XI (XO (XO (XO
    (XI (XO (XI (XI (XO (XO XH))))))))))))))))), (Npos (XO (XI (XI (XO (XO
    (XO (XI (XO (XO (XO (XI (XO (XI (XI (XO (XO
    XH)))))))))))))))))) :: (((Npos (XO (XO (XO (XO (XO (XI (XI (XO (XO (XO
    (XI (XO (XI (XI (XO (XO XH))))))))))))))))), (Npos (XO (XI (XO (XI (XI
    (XI (XI (XI (XI (XI (XO (XO (XO (XO (XI (XO
    XH)))))))))))))))))) :: (((Npos (XO (XO (XO (XO (XO (XO (XO (XO (XO (XO
    (XI (XO (XO (XO (XI (XO XH))))))))))))))))), (Npos (XO (XI (XI (XO (XO
    (XO (XI (XO (XO (XI (XI (XO (XO (XO (XI (XO
    XH)))))))))))))))))) :: (((Npos (XO (XO (XO (XO (XO (XO (XO (XO (XI (XO
    (XO (XO (XO (XI (XI (XO XH))))))))))))))))), (Npos (XI (XO (XI (XI (XI
    (XO (XO (XO (XI (XO (XO (XO (XO (XI (XI (XO
    XH)))))))))))))))))) :: (((Npos (XO (XO (XO (XO (XO (XO (XO (XO (XO (XO
    (XO (XI (XO (XI (XI (XO XH))))))))))))))))), (Npos (XO (XO (XO (XI (XI
    (XI (XO (XO (XO (XI (XO (XI (XO (XI (XI (XO
    XH)))))))))))))))))) :: (((Npos (XO (XO (XO (XO (XO (XO (XI (XO (XO (XI
    (XO (XI (XO (XI (XI (XO XH))))))))))))))))), (Npos (XO (XI (XI (XI (XI
    (XO (XI (XO (XO (XI (XO (XI (XO (XI (XI (XO
    XH)))))))))))))))))) :: (((Npos (XO (XO (XO (XO (XI (XI (XI (XO (XO (XI
    (XO (XI (XO (XI (XI (XO XH))))))))))))))))), (Npos (XO (XI (XI (XI (XI
    (XI (XO (XI (XO (XI (XO (XI (XO (XI (XI (XO
    XH)))))))))))))))))) :: (((Npos (XO (XO (XO (XO (XI (XO (XI (XI (XO (XI
    (XO (XI (XO (XI (XI (XO XH))))))))))))))))), (Npos (XI (XO (XI (XI (XO
    (XI (XI (XI (XO (XI (XO (XI (XO (XI (XI (XO
    XH)))))))))))))))))) :: (((Npos (XO (XO (XO (XO (XO (XO (XO (XO (XI (XI
    (XO (XI (XO (XI (XI (XO XH))))))))))))))))), (Npos (XI (XI (XI (XI (XO
    (XI (XO (XO (XI (XI (XO (XI (XO (XI (XI (XO
    XH)))))))))))))))))) :: (((Npos (XO (XO (XO (XO (XO (XO (XI (XO (XI (XI
    (XO (XI (XO (XI (XI (XO XH))))))))))))))))), (Npos (XI (XI (XO (XO (XO
    (XO (XI (XO (XI (XI (XO (XI (XO (XI (XI (XO
    XH)))))))))))))))))) :: (((Npos (XI (XI (XO (XO (XO (XI (XI (XO (XI (XI
    (XO (XI (XO (XI (XI (XO XH))))))))))))))))), (Npos (XI (XI (XI (XO (XI
    (XI (XI (XO (XI (XI (XO (XI (XO (XI (XI (XO
    XH)))))))))))))))))) :: (((Npos (XI (XO (XI (XI (XI (XI (XI (XO (XI (XI
    (XO (XI (XO (XI (XI (XO XH))))))))))))))))), (Npos (XI (XI (XI (XI (XO
    (XO (XO (XI (XI (XI (XO (XI (XO (XI (XI (XO
    XH)))))))))))))))))) :: (((Npos (XO (XO (XO (XO (XO (XO (XI (XO (XI (XO
    (XI (XI (XO (XI (XI (XO XH))))))))))))))))), (Npos (XO (XO (XI (XI (XO
    (XI (XI (XO (XI (XO (XI (XI (XO (XI (XI (XO
    XH)))))))))))))))))) :: (((Npos (XO (XO (XO (XO (XO (XO (XI (XO (XO (XI
    (XI (XI (XO (XI (XI (XO XH))))))))))))))))), (Npos (XI (XI (XI (XI (XI
    (XI (XI (XO (XO (XI (XI (XI (XO (XI (XI (XO
    XH)))))))))))))))))) :: (((Npos (XO (XO (XO (XO (XO (XO (XO (XO (XI (XI
    (XI (XI (XO (XI (XI (XO XH))))))))))))))))), (Npos (XO (XI (XO (XI (XO
    (XO (XI (XO (XI (XI (XI (XI (XO (XI (XI (XO
    XH)))))))))))))))))) :: (((Npos (XO (XO (XO (XO (XI (XO (XI (XO (XI (XI
    (XI (XI (XO (XI (XI (XO XH))))))))))))))))), (Npos (XO (XO (XO (XO (XI
    (XO (XI (XO (XI (XI (XI (XI (XO (XI (XI (XO
    XH)))))))))))))))))) :: (((Npos (XI (XI (XO (XO (XI (XO (XO (XI (XI (XI
    (XI (XI (XO (XI (XI (XO XH))))))))))))))))), (Npos (XI (XI (XI (XI (XI
    (XO (XO (XI (XI (XI (XI (XI (XO (XI (XI (XO
    XH)))))))))))))))))) :: (((Npos (XO (XO (XO (XO (XO (XI (XI (XI (XI (XI
    (XI (XI (XO (XI (XI (XO XH))))))))))))))))), (Npos (XI (XO (XO (XO (XO
    (XI (XI (XI (XI (XI (XI (XI (XO (XI (XI (XO
    XH)))))))))))))))))) :: (((Npos (XI (XI (XO (XO (XO (XI (XI (XI (XI (XI
    (XI (XI (XO (XI (XI (XO XH))))))))))))))))), (Npos (XI (XI (XO (XO (XO
    (XI (XI (XI (XI (XI (XI (XI (XO (XI (XI (XO
    XH)))))))))))))))))) :: (((Npos (XO (XO (XO (XO (XO (XO (XO (XO (XO (XO
    (XO (XO (XI (XI (XI (XO XH))))))))))))))))), (Npos (XI (XI (XI (XO (XI
    (XI (XI (XI (XI (XI (XI (XO (XO (XO (XO (XI
    XH)))))))))))))))))) :: (((Npos (XO (XO (XO (XO (XO (XO (XO (XO (XO (XO
    (XO (XI (XO (XO (XO (XI XH))))))))))))))))), (Npos (XI (XO (XI (XO (XI
    (XO (XI (XI (XO (XO (XI (XI (XO (XO (XO (XI
    XH)))))))))))))))))) :: (((Npos (XI (XI (XI (XI (XI (XI (XI (XI (XO (XO
    (XI (XI (XO (XO (XO (XI XH))))))))))))))))), (Npos (XO (XO (XO (XI (XO
    (XO (XO (XO (XI (XO (XI (XI (XO (XO (XO (XI
    XH)))))))))))))))))) :: (((Npos (XO (XO (XO (XO (XI (XI (XI (XI (XI (XI
    (XI (XI (XO (XI (XO (XI XH))))))))))))))))), (Npos (XI (XI (XO (XO (XI
    (XI (XI (XI (XI (XI (XI (XI (XO (XI (XO (XI
    XH)))))))))))))))))) :: (((Npos (XI (XO (XI (XO (XI (XI (XI (XI (XI (XI
    (XI (XI (XO (XI (XO (XI XH))))))))))))))))), (Npos (XI (XI (XO (XI (XI
    (XI (XI (XI (XI (XI (XI (XI (XO (XI (XO (XI
    XH)))))))))))))))))) :: (((Npos (XI (XO (XI (XI (XI (XI (XI (XI (XI (XI
    (XI (XI (XO (XI (XO (XI XH))))))))))))))))), (Npos (XO (XI (XI (XI (XI
    (XI (XI (XI (XI (XI (XI (XI (XO (XI (XO (XI
    XH)))))))))))))))))) :: (((Npos (XO (XO (XO (XO (XO (XO (XO (XO (XO (XO
    (XO (XO (XI (XI (XO (XI XH))))))))))))))))), (Npos (XO (XI (XO (XO (XO
    (XI (XO (XO (XI (XO (XO (XO (XI (XI (XO (XI
    XH)))))))))))))))))) :: (((Npos (XO (XI (XO (XO (XI (XI (XO (XO (XI (XO
    (XO (XO (XI (XI (XO (XI XH))))))))))))))))), (Npos (XO (XI (XO (XO (XI
    (XI (XO (XO (XI (XO (XO (XO (XI (XI (XO (XI
    XH)))))))))))))))))) :: (((Npos (XO (XO (XO (XO (XI (XO (XI (XO (XI (XO
    (XO (XO (XI (XI (XO (XI XH))))))))))))))))), (Npos (XO (XI (XO (XO (XI
    (XO (XI (XO (XI (XO (XO (XO (XI (XI (XO (XI
    XH)))))))))))))))))) :: (((Npos (XI (XO (XI (XO (XI (XO (XI (XO (XI (XO
    (XO (XO (XI (XI (XO (XI XH))))))))))))))))), (Npos (XI (XO (XI (XO (XI
    (XO (XI (XO (XI (XO (XO (XO (XI (XI (XO (XI
    XH)))))))))))))))))) :: (((Npos (XO (XO (XI (XO (XO (XI (XI (XO (XI (XO
    (XO (XO (XI (XI (XO (XI XH))))))))))))))))), (Npos (XI (XI (XI (XO (XO
    (XI (XI (XO (XI (XO (XO (XO (XI (XI (XO (XI
    XH)))))))))))))))))) :: (((Npos (XO (XO (XO (XO (XI (XI (XI (XO (XI (XO
    (XO (XO (XI (XI (XO (XI XH))))))))))))))))), (Npos (XI (XI (XO (XI (XI
    (XI (XI (XI (XO (XI (XO (XO (XI (XI (XO (XI
    XH)))))))))))))))))) :: (((Npos (XO (XO (XO (XO (XO (XO (XO (XO (XO (XO
    (XI (XI (XI (XI (XO (XI XH))))))))))))))))), (Npos (XO (XI (XO (XI (XO
    (XI (XI (XO (XO (XO (XI (XI (XI (XI (XO (XI
    XH)))))))))))))))))) :: (((Npos (XO (XO (XO (XO (XI (XI (XI (XO (XO (XO
    (XI (XI (XI (XI (XO (XI XH))))))))))))))))), (Npos (XO (XO (XI (XI (XI
    (XI (XI (XO (XO (XO (XI (XI (XI (XI (XO (XI
    XH)))))))))))))))))) :: (((Npos (XO (XO (XO (XO (XO (XO (XO (XI (XO (XO
    (XI (XI (XI (XI (XO (XI XH))))))))))))))))), (Npos (XO (XO (XO (XI (XO
    (XO (XO (XI (XO (XO (XI (XI (XI (XI (XO (XI
    XH)))))))))))))))))) :: (((Npos (XO (XO (XO (XO (XI (XO (XO (XI (XO (XO
    (XI (XI (XI (XI (XO (XI XH))))))))))))))))), (Npos (XI (XO (XO (XI (XI
    (XO (XO (XI (XO (XO (XI (XI (XI (XI (XO (XI
    XH)))))))))))))))))) :: (((Npos (XO (XO (XO (XO (XO (XO (XO (XO (XO (XO
    (XI (XO (XI (XO (XI (XI XH))))))))))))))))), (Npos (XO (XO (XI (XO (XI
    (XO (XI (XO (XO (XO (XI (XO (XI (XO (XI (XI
    XH)))))))))))))))))) :: (((Npos (XO (XI (XI (XO (XI (XO (XI (XO (XO (XO
    (XI (XO (XI (XO (XI (XI XH))))))))))))))))), (Npos (XO (XO (XI (XI (XI
    (XO (XO (XI (XO (XO (XI (XO (XI (XO (XI (XI
    XH)))))))))))))))))) :: (((Npos (XO (XI (XI (XI (XI (XO (XO (XI (XO (XO
    (XI (XO (XI (XO (XI (XI XH))))))))))))))))), (Npos (XI (XI (XI (XI (XI
    (XO (XO (XI (XO (XO (XI (XO (XI (XO (XI (XI
    XH)))))))))))))))))) :: (((Npos (XO (XI (XO (XO (XO (XI (XO (XI (XO (XO
    (XI (XO (XI (XO (XI (XI XH))))))))))))))))), (Npos (XO (XI (XO (XO (XO
    (XI (XO (XI (XO (XO (XI (XO (XI (XO (XI (XI
    XH)))))))))))))))))) :: (((Npos (XI (XO (XI (XO (XO (XI (XO (XI (XO (XO
    (XI (XO (XI (XO (XI (XI XH))))))))))))))))), (Npos (XO (XI (XI (XO (XO
    (XI (XO (XI (XO (XO (XI (XO (XI (XO (XI (XI
    XH)))))))))))))))))) :: (((Npos (XI (XO (XO (XI (XO (XI (XO (XI (XO (XO
    (XI (XO (XI (XO (XI (XI XH))))))))))))))))), (Npos (XO (XO (XI (XI (XO
    (XI (XO (XI (XO (XO (XI (XO (XI (XO (XI (XI
    XH)))))))))))))))))) :: (((Npos (XO (XI (XI (XI (XO (XI (XO (XI (XO (XO
    (XI (XO (XI (XO (XI (XI XH))))))))))))))))), (Npos (XI (XO (XO (XI (XI
    (XI (XO (XI (XO (XO (XI (XO (XI (XO (XI (XI
    XH)))))))))))))))))) :: (((Npos (XI (XI (XO (XI (XI (XI (XO (XI (XO (XO
    (XI (XO (XI (XO (XI (XI XH))))))))))))))))), (Npos (XI (XI (XO (XI (XI
    (XI (XO (XI (XO (XO (XI (XO (XI (XO (XI (XI
    XH)))))))))))))))))) :: (((Npos (XI (XO (XI (XI (XI (XI (XO (XI (XO (XO
    (XI (XO (XI (XO (XI (XI XH))))))))))))))))), (Npos (XI (XI (XO (XO (XO
    (XO (XI (XI (XO (XO (XI (XO (XI (XO (XI (XI
    XH)))))))))))))))))) :: (((Npos (XI (XO (XI (XO (XO (XO (XI (XI (XO (XO
    (XI (XO (XI (XO (XI (XI XH))))))))))))))))), (Npos (XI (XO (XI (XO (XO
    (XO (XO (XO (XI (XO (XI (XO (XI (XO (XI (XI
    XH)))))))))))))))))) :: (((Npos (XI (XI (XI (XO (XO (XO (XO (XO (XI (XO
    (XI (XO (XI (XO (XI (XI XH))))))))))))))))), (Npos (XO (XI (XO (XI (XO
    (XO (XO (XO (XI (XO (XI (XO (XI (XO (XI (XI
    XH)))))))))))))))))) :: (((Npos (XI (XO (XI (XI (XO (XO (XO (XO (XI (XO
    (XI (XO (XI (XO (XI (XI XH))))))))))))))))), (Npos (XO (XO (XI (XO (XI
    (XO (XO (XO (XI (XO (XI (XO (XI (XO (XI (XI
    XH)))))))))))))))))) :: (((Npos (XO (XI (XI (XO (XI (XO (XO (XO (XI (XO
    (XI (XO (XI (XO (XI (XI XH))))))))))))))))), (Npos (XO (XO (XI (XI (XI
    (XO (XO (XO (XI (XO (XI (XO (XI (XO (XI (XI
    XH)))))))))))))))))) :: (((Npos (XO (XI (XI (XI (XI (XO (XO (XO (XI (XO
    (XI (XO (XI (XO (XI (XI XH))))))))))))))))), (Npos (XI (XO (XO (XI (XI
    (XI (XO (XO (XI (XO (XI (XO (XI (XO (XI (XI
    XH)))))))))))))))))) :: (((Npos (XI (XI (XO (XI (XI (XI (XO (XO (XI (XO
    (XI (XO (XI (XO (XI (XI XH))))))))))))))))), (Npos (XO (XI (XI (XI (XI
    (XI (XO (XO (XI (XO (XI (XO (XI (XO (XI (XI
    XH)))))))))))))))))) :: (((Npos (XO (XO (XO (XO (XO (XO (XI (XO (XI (XO
    (XI (XO (XI (XO (XI (XI XH))))))))))))))))), (Npos (XO (XO (XI (XO (XO
    (XO (XI (XO (XI (XO (XI (XO (XI (XO (XI (XI
    XH)))))))))))))))))) :: (((Npos (XO (XI (XI (XO (XO (XO (XI (XO (XI (XO
    (XI (XO (XI (XO (XI (XI XH))))))))))))))))), (Npos (XO (XI (XI (XO (XO
    (XO (XI (XO (XI (XO (XI (XO (XI (XO (XI (XI
    XH)))))))))))))))))) :: (((Npos (XO (XI (XO (XI (XO (XO (XI (XO (XI (XO
    (XI (XO (XI (XO (XI (XI XH))))))))))))))))), (Npos (XO (XO (XO (XO (XI
    (XO (XI (XO (XI (XO (XI (XO (XI (XO (XI (XI
    XH)))))))))))))))))) :: (((Npos (XO (XI (XO (XO (XI (XO (XI (XO (XI (XO
    (XI (XO (XI (XO (XI (XI XH))))))))))))))))), (Npos (XI (XO (XI (XO (XO
    (XI (XO (XI (XO (XI (XI (XO (XI (XO (XI (XI
    XH)))))))))))))))))) :: (((Npos (XO (XO (XO (XI (XO (XI (XO (XI (XO (XI
    (XI (XO (XI (XO (XI (XI XH))))))))))))))))), (Npos (XO (XO (XO (XO (XO
    (XO (XI (XI (XO (XI (XI (XO (XI (XO (XI (XI
    XH)))))))))))))))))) :: (((Npos (XO (XI (XO (XO (XO (XO (XI (XI (XO (XI
    (XI (XO (XI (XO (XI (XI XH))))))))))))))))), (Npos (XO (XI (XO (XI (XI
    (XO (XI (XI (XO (XI (XI (XO (XI (XO (XI (XI
    XH)))))))))))))))))) :: (((Npos (XO (XO (XI (XI (XI (XO (XI (XI (XO (XI
    (XI (XO (XI (XO (XI (XI XH))))))))))))))))), (Npos (XO (XI (XO (XI (XI
    (XI (XI (XI (XO (XI (XI (XO (XI (XO (XI (XI
    XH)))))))))))))))))) :: (((Npos (XO (XO (XI (XI (XI (XI (XI (XI (XO (XI
    (XI (XO (XI (XO (XI (XI XH))))))))))))))))), (Npos (XO (XO (XI (XO (XI
    (XO (XO (XO (XI (XI (XI (XO (XI (XO (XI (XI
    XH)))))))))))))))))) :: (((Npos (XO (XI (XI (XO (XI (XO (XO (XO (XI (XI
    (XI (XO (XI (XO (XI (XI XH))))))))))))))))), (Npos (XO (XO (XI (XO (XI
    (XI (XO (XO (XI (XI (XI (XO (XI (XO (XI (XI
    XH)))))))))))))))))) :: (((Npos (XO (XI (XI (XO (XI (XI (XO (XO (XI (XI
    (XI (XO (XI (XO (XI (XI XH))))))))))))))))), (Npos (XO (XI (XI (XI (XO
    (XO (XI (XO (XI (XI (XI (XO (XI (XO (XI (XI
    XH)))))))))))))))))) :: (((Npos (XO (XO (XO (XO (XI (XO (XI (XO (XI (XI
    (XI (XO (XI (XO (XI (XI XH))))))))))))))))), (Npos (XO (XI (XI (XI (XO
    (XI (XI (XO (XI (XI (XI (XO (XI (XO (XI (XI
    XH)))))))))))))))))) :: (((Npos (XO (XO (XO (XO (XI (XI (XI (XO (XI (XI
    (XI (XO (XI (XO (XI (XI XH))))))))))))))))), (Npos (XO (XO (XO (XI (XO
    (XO (XO (XI (XI (XI (XI (XO (XI (XO (XI (XI
    XH)))))))))))))))))) :: (((Npos (XO (XI (XO (XI (XO (XO (XO (XI (XI (XI
    (XI (XO (XI (XO (XI (XI XH))))))))))))))))), (Npos (XO (XO (XO (XI (XO
    (XI (XO (XI (XI (XI (XI (XO (XI (XO (XI (XI
    XH)))))))))))))))))) :: (((Npos (XO (XI (XO (XI (XO (XI (XO (XI (XI (XI
    (XI (XO (XI (XO (XI (XI XH))))))))))))))))), (Npos (XO (XI (XO (XO (XO
    (XO (XI (XI (XI (XI (XI (XO (XI (XO (XI (XI
    XH)))))))))))))))))) :: (((Npos (XO (XO (XI (XO (XO (XO (XI (XI (XI (XI
    (XI (XO (XI (XO (XI (XI XH))))))))))))))))), (Npos (XI (XI (XO (XI (XO
    (XO (XI (XI (XI (XI (XI (XO (XI (XO (XI (XI
    XH)))))))))))))))))) :: (((Npos (XO (XO (XO (XO (XO (XO (XO (XO (XI (XI
    (XI (XI (XI (XO (XI (XI XH))))))))))))))))), (Npos (XO (XI (XI (XI (XI
    (XO (XO (XO (XI (XI (XI (XI (XI (XO (XI (XI
    XH)))))))))))))))))) :: (((Npos (XI (XO (XI (XO (XO (XI (XO (XO (XI (XI
    (XI (XI (XI (XO (XI (XI XH))))))))))))))))), (Npos (XO (XI (XO (XI (XO
    (XI (XO (XO (XI (XI (XI (XI (XI (XO (XI (XI
    XH)))))))))))))))))) :: (((Npos (XO (XO (XO (XO (XI (XI (XO (XO (XO (XO
    (XO (XO (XO (XI (XI (XI XH))))))))))))))))), (Npos (XI (XO (XI (XI (XO
    (XI (XI (XO (XO (XO (XO (XO (XO (XI (XI (XI
    XH)))))))))))))))))) :: (((Npos (XO (XO (XO (XO (XO (XO (XO (XO (XI (XO
    (XO (XO (XO (XI (XI (XI XH))))))))))))))))), (Npos (XO (XO (XI (XI (XO
    (XI (XO (XO (XI (XO (XO (XO (XO (XI (XI (XI
    XH)))))))))))))))))) :: (((Npos (XI (XI (XI (XO (XI (XI (XO (XO (XI (XO
    (XO (XO (XO (XI (XI (XI XH))))))))))))))))), (Npos (XI (XO (XI (XI (XI
    (XI (XO (XO (XI (XO (XO (XO (XO (XI (XI (XI
    XH)))))))))))))))))) :: (((Npos (XO (XI (XI (XI (XO (XO (XI (XO (XI (XO
    (XO (XO (XO (XI (XI (XI XH))))))))))))))))), (Npos (XO (XI (XI (XI (XO
    (XO (XI (XO (XI (XO (XO (XO (XO (XI (XI (XI
    XH)))))))))))))))))) :: (((Npos (XO (XO (XO (XO (XI (XO (XO (XI (XO (XI
    (XO (XO (XO (XI (XI (XI XH))))))))))))))))), (Npos (XI (XO (XI (XI (XO
    (XI (XO (XI (XO (XI (XO (XO (XO (XI (XI (XI
    XH)))))))))))))))))) :: (((Npos (XO (XO (XO (XO (XO (XO (XI (XI (XO (XI
    (XO (XO (XO (XI (XI (XI XH))))))))))))))))), (Npos (XI (XI (XO (XI (XO
    (XI (XI (XI (XO (XI (XO (XO (XO (XI (XI (XI
    XH)))))))))))))))))) :: (((Npos (XO (XO (XO (XO (XI (XO (XI (XI (XO (XO
    (XI (XO (XO (XI (XI (XI XH))))))))))))))))), (Npos (XI (XI (XO (XI (XO
    (XI (XI (XI (XO (XO (XI (XO (XO (XI (XI (XI
    XH)))))))))))))))))) :: (((Npos (XO (XO (XO (XO (XI (XO (XI (XI (XI (XO
    (XI (XO (XO (XI (XI (XI XH))))))))))))))))), (Npos (XI (XO (XI (XI (XO
    (XI (XI (XI (XI (XO (XI (XO (XO (XI (XI (XI
    XH)))))))))))))))))) :: (((Npos (XO (XO (XO (XO (XI (XI (XI (XI (XI (XO
    (XI (XO (XO (XI (XI (XI XH))))))))))))))))), (Npos (XO (XO (XO (XO (XI
    (XI (XI (XI (XI (XO (XI (XO (XO (XI (XI (XI
    XH)))))))))))))))))) :: (((Npos (XO (XO (XO (XO (XO (XI (XI (XI (XI (XI
    (XI (XO (XO (XI (XI (XI XH))))))))))))))))), (Npos (XO (XI (XI (XO (XO
    (XI (XI (XI (XI (XI (XI (XO (XO (XI (XI (XI
    XH)))))))))))))))))) :: (((Npos (XO (XO (XO (XI (XO (XI (XI (XI (XI (XI
    (XI (XO (XO (XI (XI (XI XH))))))))))))))))), (Npos (XI (XI (XO (XI (XO
    (XI (XI (XI (XI (XI (XI (XO (XO (XI (XI (XI
    XH)))))))))))))))))) :: (((Npos (XI (XO (XI (XI (XO (XI (XI (XI (XI (XI
    (XI (XO (XO (XI (XI (XI XH))))))))))))))))), (Npos (XO (XI (XI (XI (XO
    (XI (XI (XI (XI (XI (XI (XO (XO (XI (XI (XI
    XH)))))))))))))))))) :: (((Npos (XO (XO (XO (XO (XI (XI (XI (XI (XI (XI
    (XI (XO (XO (XI (XI (XI XH))))))))))))))))), (Npos (XO (XI (XI (XI (XI
    (XI (XI (XI (XI (XI (XI (XO (XO (XI (XI (XI
    XH)))))))))))))))))) :: (((Npos (XO (XO (XO (XO (XO (XO (XO (XO (XO (XO
    (XO (XI (XO (XI (XI (XI XH))))))))))))))))), (Npos (XO (XO (XI (XO (XO
    (XO (XI (XI (XO (XO (XO (XI (XO (XI (XI (XI
    XH)))))))))))))))))) :: (((Npos (XO (XO (XO (XO (XO (XO (XO (XO (XI (XO
    (XO (XI (XO (XI (XI (XI XH))))))))))))))))), (Npos (XI (XI (XO (XO (XO
    (XO (XI (XO (XI (XO (XO (XI (XO (XI (XI (XI
    XH)))))))))))))))))) :: (((Npos (XI (XI (XO (XI (XO (XO (XI (XO (XI (XO
    (XO (XI (XO (XI (XI (XI XH))))))))))))))))), (Npos (XI (XI (XO (XI (XO
    (XO (XI (XO (XI (XO (XO (XI (XO (XI (XI (XI
    XH)))))))))))))))))) :: (((Npos (XO (XO (XO (XO (XO (XO (XO (XO (XO (XI
    (XI (XI (XO (XI (XI (XI XH))))))))))))))))), (Npos (XI (XI (XO (XO (XO
    (XO (XO (XO (XO (XI (XI (XI (XO (XI (XI (XI
    XH)))))))))))))))))) :: (((Npos (XI (XO (XI (XO (XO (XO (XO (XO (XO (XI
    (XI (XI (XO (XI (XI (XI XH))))))))))))))))), (Npos (XI (XI (XI (XI (XI
    (XO (XO (XO (XO (XI (XI (XI (XO (XI (XI (XI
    XH)))))))))))))))))) :: (((Npos (XI (XO (XO (XO (XO (XI (XO (XO (XO (XI
    (XI (XI (XO (XI (XI (XI XH))))))))))))))))), (Npos (XO (XI (XO (XO (XO
    (XI (XO (XO (XO (XI (XI (XI (XO (XI (XI (XI
    XH)))))))))))))))))) :: (((Npos (XO (XO (XI (XO (XO (XI (XO (XO (XO (XI
    (XI (XI (XO (XI (XI (XI XH))))))))))))))))), (Npos (XO (XO (XI (XO (XO
    (XI (XO (XO (XO (XI (XI (XI (XO (XI (XI (XI
    XH)))))))))))))))))) :: (((Npos (XI (XI (XI (XO (XO (XI (XO (XO (XO (XI
    (XI (XI (XO (XI (XI (XI XH))))))))))))))))), (Npos (XI (XI (XI (XO (XO
    (XI (XO (XO (XO (XI (XI (XI (XO (XI (XI (XI
    XH)))))))))))))))))) :: (((Npos (XI (XO (XO (XI (XO (XI (XO (XO (XO (XI
    (XI (XI (XO (XI (XI (XI XH))))))))))))))))), (Npos (XO (XI (XO (XO (XI
    (XI (XO (XO (XO (XI (XI (XI (XO (XI (XI (XI
    XH)))))))))))))))))) :: (((Npos (XO (XO (XI (XO (XI (XI (XO (XO (XO (XI
    (XI (XI (XO (XI (XI (XI XH))))))))))))))))), (Npos (XI (XI (XI (XO (XI
    (XI (XO (XO (XO (XI (XI (XI (XO (XI (XI (XI
    XH)))))))))))))))))) :: (((Npos (XI (XO (XO (XI (XI (XI (XO (XO (XO (XI
    (XI (XI (XO (XI (XI (XI XH))))))))))))))))), (Npos (XI (XO (XO (XI (XI
    (XI (XO (XO (XO (XI (XI (XI (XO (XI (XI (XI
    XH)))))))))))))))))) :: (((Npos (XI (XI (XO (XI (XI (XI (XO (XO (XO (XI
    (XI (XI (XO (XI (XI (XI XH))))))))))))))))), (Npos (XI (XI (XO (XI (XI
    (XI (XO (XO (XO (XI (XI (XI (XO (XI (XI (XI
    XH)))))))))))))))))) :: (((Npos (XO (XI (XO (XO (XO (XO (XI (XO (XO (XI
    (XI (XI (XO (XI (XI (XI XH))))))))))))))))), (Npos (XO (XI (XO (XO (XO
    (XO (XI (XO (XO (XI (XI (XI (XO (XI (XI (XI
    XH)))))))))))))))))) :: (((Npos (XI (XI (XI (XO (XO (XO (XI (XO (XO (XI
    (XI (XI (XO (XI (XI (XI XH))))))))))))))))), (Npos (XI (XI (XI (XO (XO
    (XO (XI (XO (XO (XI (XI (XI (XO (XI (XI (XI
    XH)))))))))))))))))) :: (((Npos (XI (XO (XO (XI (XO (XO (XI (XO (XO (XI
    (XI (XI (XO (XI (XI (XI XH))))))))))))))))), (Npos (XI (XO (XO (XI (XO
    (XO (XI (XO (XO (XI (XI (XI (XO (XI (XI (XI
    XH)))))))))))))))))) :: (((Npos (XI (XI (XO (XI (XO (XO (XI (XO (XO (XI
    (XI (XI (XO (XI (XI (XI XH))))))))))))))))), (Npos (XI (XI (XO (XI (XO
    (XO (XI (XO (XO (XI (XI (XI (XO (XI (XI (XI
    XH)))))))))))))))))) :: (((Npos (XI (XO (XI (XI (XO (XO (XI (XO (XO (XI
    (XI (XI (XO (XI (XI (XI XH))))))))))))))))), (Npos (XI (XI (XI (XI (XO
    (XO (XI (XO (XO (XI (XI (XI (XO (XI (XI (XI
    XH)))))))))))))))))) :: (((Npos (XI (XO (XO (XO (XI (XO (XI (XO (XO (XI
    (XI (XI (XO (XI (XI (XI XH))))))))))))))))), (Npos (XO (XI (XO (XO (XI
    (XO (XI (XO (XO (XI (XI (XI (XO (XI (XI (XI
    XH)))))))))))))))))) :: (((Npos (XO (XO (XI (XO (XI (XO (XI (XO (XO (XI
    (XI (XI (XO (XI (XI (XI XH))))))))))))))))), (Npos (XO (XO (XI (XO (XI
    (XO (XI (XO (XO (XI (XI (XI (XO (XI (XI (XI
    XH)))))))))))))))))) :: (((Npos (XI (XI (XI (XO (XI (XO (XI (XO (XO (XI
    (XI (XI (XO (XI (XI (XI XH))))))))))))))))), (Npos (XI (XI (XI (XO (XI
    (XO (XI (XO (XO (XI (XI (XI (XO (XI (XI (XI
    XH)))))))))))))))))) :: (((Npos (XI (XO (XO (XI (XI (XO (XI (XO (XO (XI
    (XI (XI (XO (XI (XI (XI XH))))))))))))))))), (Npos (XI (XO (XO (XI (XI
    (XO (XI (XO (XO (XI (XI (XI (XO (XI (XI (XI
    XH)))))))))))))))))) :: (((Npos (XI (XI (XO (XI (XI (XO (XI (XO (XO (XI
    (XI (XI (XO (XI (XI (XI XH))))))))))))))))), (Npos (XI (XI (XO (XI (XI
    (XO (XI (XO (XO (XI (XI (XI (XO (XI (XI (XI
    XH)))))))))))))))))) :: (((Npos (XI (XO (XI (XI (XI (XO (XI (XO (XO (XI
    (XI (XI (XO (XI (XI (XI XH))))))))))))))))), (Npos (XI (XO (XI (XI (XI
    (XO (XI (XO (XO (XI (XI (XI (XO (XI (XI (XI
    XH)))))))))))))))))) :: (((Npos (XI (XI (XI (XI (XI (XO (XI (XO (XO (XI
    (XI (XI (XO (XI (XI (XI XH))))))))))))))))), (Npos (XI (XI (XI (XI (XI
    (XO (XI (XO (XO (XI (XI (XI (XO (XI (XI (XI
    XH)))))))))))))))))) :: (((Npos (XI (XO (XO (XO (XO (XI (XI (XO (XO (XI
    (XI (XI (XO (XI (XI (XI XH))))))))))))))))), (Npos (XO (XI (XO (XO (XO
    (XI (XI (XO (XO (XI (XI (XI (XO (XI (XI (XI
    XH)))))))))))))))))) :: (((Npos (XO (XO (XI (XO (XO (XI (XI (XO (XO (XI
    (XI (XI (XO (XI (XI (XI XH))))))))))))))))), (Npos (XO (XO (XI (XO (XO
    (XI (XI (XO (XO (XI (XI (XI (XO (XI (XI (XI
    XH)))))))))))))))))) :: (((Npos (XI (XI (XI (XO (XO (XI (XI (XO (XO (XI
    (XI (XI (XO (XI (XI (XI XH))))))))))))))))), (Npos (XO (XI (XO (XI (XO
    (XI (XI (XO (XO (XI (XI (XI (XO (XI (XI (XI
    XH)))))))))))))))))) :: (((Npos (XO (XO (XI (XI (XO (XI (XI (XO (XO (XI
    (XI (XI (XO (XI (XI (XI XH))))))))))))))))), (Npos (XO (XI (XO (XO (XI
    (XI (XI (XO (XO (XI (XI (XI (XO (XI (XI (XI
    XH)))))))))))))))))) :: (((Npos (XO (XO (XI (XO (XI (XI (XI (XO (XO (XI
    (XI (XI (XO (XI (XI (XI XH))))))))))))))))), (Npos (XI (XI (XI (XO (XI
    (XI (XI (XO (XO (XI (XI (XI (XO (XI (XI (XI
    XH)))))))))))))))))) :: (((Npos (XI (XO (XO (XI (XI (XI (XI (XO (XO (XI
    (XI (XI (XO (XI (XI (XI XH))))))))))))))))), (Npos (XO (XO (XI (XI (XI
    (XI (XI (XO (XO (XI (XI (XI (XO (XI (XI (XI
    XH)))))))))))))))))) :: (((Npos (XO (XI (XI (XI (XI (XI (XI (XO (XO (XI
    (XI (XI (XO (XI (XI (XI XH))))))))))))))))), (Npos (XO (XI (XI (XI (XI
    (XI (XI (XO (XO (XI (XI (XI (XO (XI (XI (XI
    XH)))))))))))))))))) :: (((Npos (XO (XO (XO (XO (XO (XO (XO (XI (XO (XI
    (XI (XI (XO (XI (XI (XI XH))))))))))))))))), (Npos (XI (XO (XO (XI (XO
    (XO (XO (XI (XO (XI (XI (XI (XO (XI (XI (XI
    XH)))))))))))))))))) :: (((Npos (XI (XI (XO (XI (XO (XO (XO (XI (XO (XI
    (XI (XI (XO (XI (XI (XI XH))))))))))))))))), (Npos (XI (XI (XO (XI (XI
    (XO (XO (XI (XO (XI (XI (XI (XO (XI (XI (XI
    XH)))))))))))))))))) :: (((Npos (XI (XO (XO (XO (XO (XI (XO (XI (XO (XI
    (XI (XI (XO (XI (XI (XI XH))))))))))))))))), (Npos (XI (XI (XO (XO (XO
    (XI (XO (XI (XO (XI (XI (XI (XO (XI (XI (XI
    XH)))))))))))))))))) :: (((Npos (XI (XO (XI (XO (XO (XI (XO (XI (XO (XI
    (XI (XI (XO (XI (XI (XI XH))))))))))))))))), (Npos (XI (XO (XO (XI (XO
    (XI (XO (XI (XO (XI (XI (XI (XO (XI (XI (XI
    XH)))))))))))))))))) :: (((Npos (XI (XI (XO (XI (XO (XI (XO (XI (XO (XI
    (XI (XI (XO (XI (XI (XI XH))))))))))))))))), (Npos (XI (XI (XO (XI (XI
    (XI (XO (XI (XO (XI (XI (XI (XO (XI (XI (XI
    XH)))))))))))))))))) :: (((Npos (XO (XO (XO (XO (XO (XO (XO (XO (XO (XO
    (XO (XO (XO (XO (XO (XO (XO XH)))))))))))))))))), (Npos (XI (XI (XI (XI
    (XI (XO (XI (XI (XO (XI (XI (XO (XO (XI (XO (XI (XO
    XH))))))))))))))))))) :: (((Npos (XO (XO (XO (XO (XO (XO (XO (XO (XI (XI
    (XI (XO (XO (XI (XO (XI (XO XH)))))))))))))))))), (Npos (XI (XO (XO (XI
    (XI (XI (XO (XO (XI (XI (XI (XO (XI (XI (XO (XI (XO
    XH))))))))))))))))))) :: (((Npos (XO (XO (XO (XO (XO (XO (XI (XO (XI (XI
    (XI (XO (XI (XI (XO (XI (XO XH)))))))))))))))))), (Npos (XI (XO (XI (XI
    (XI (XO (XO (XO (XO (XO (XO (XI (XI (XI (XO (XI (XO
    XH))))))))))))))))))) :: (((Npos (XO (XO (XO (XO (XO (XI (XO (XO (XO (XO
    (XO (XI (XI (XI (XO (XI (XO XH)))))))))))))))))), (Npos (XI (XO (XO (XO
    (XO (XI (XO (XI (XO (XI (XI (XI (XO (XO (XI (XI (XO
    XH))))))))))))))))))) :: (((Npos (XO (XO (XO (XO (XI (XI (XO (XI (XO (XI
    (XI (XI (XO (XO (XI (XI (XO XH)))))))))))))))))), (Npos (XO (XO (XO (XO
    (XO (XI (XI (XI (XI (XI (XO (XI (XO (XI (XI (XI (XO
    XH))))))))))))))))))) :: (((Npos (XO (XO (XO (XO (XI (XI (XI (XI (XI (XI
    (XO (XI (XO (XI (XI (XI (XO XH)))))))))))))))))), (Npos (XI (XO (XI (XI
    (XI (XO (XI (XO (XO (XI (XI (XI (XO (XI (XI (XI (XO
    XH))))))))))))))))))) :: (((Npos (XO (XO (XO (XO (XO (XO (XO (XO (XO (XO
    (XO (XI (XI (XI (XI (XI (XO XH)))))))))))))))))), (Npos (XI (XO (XI (XI
    (XI (XO (XO (XO (XO (XI (XO (XI (XI (XI (XI (XI (XO
    XH))))))))))))))))))) :: (((Npos (XO (XO (XO (XO (XO (XO (XO (XO (XO (XO
    (XO (XO (XO (XO (XO (XO (XI XH)))))))))))))))))), (Npos (XO (XI (XO (XI
    (XO (XO (XI (XO (XI (XI (XO (XO (XI (XO (XO (XO (XI
    XH))))))))))))))))))) :: (((Npos (XO (XO (XO (XO (XI (XO (XI (XO (XI (XI
    (XO (XO (XI (XO (XO (XO (XI XH)))))))))))))))))), (Npos (XI (XI (XI (XI
    (XO (XI (XO (XI (XI (XI (XO (XO (XO (XI (XO (XO (XI
    XH))))))))))))))))))) :: []))))))))))))))))))))))))))))))))))))))))))))))))))))))))))))))))))))))))))))))))))))))))))))))))))))))))))))))))))))))))))))))))))))))))))))))))))))))))))))))))))))))))))))))))))))))))))))))))))))))))))))))))))))))))))))))))))))))))))))))))))))))))))))))))))))))))))))))))))))))))))))))))))))))))))))))))))))))))))))))))))))))))))))))))))))))))))))))))))))))))))))))))))))))))))))))))))))))))))))))))))))))))))))))))))))))))))))))))))))))))))))))))))))))))))))))))))))))))))))))))))))))))))))))))))))))))))))))))))))))))))))))))))))))))))))))))))))))))))))))))))))))))))))))))))))))))))))))))))))))))))))))))))))))))))))))))))))))))))))))))))))))))))))))))))))))))))))))))))))

(** val hexd : n -> n **)

let hexd d =
  if N.ltb d (Npos (XO (XI (XO XH))))
  then N.add (Npos (XO (XO (XO (XO (XI XH)))))) d
  else N.add (Npos (XI (XI (XI (XO (XI (XO XH))))))) d

(** val printable : n -> bool **)

let printable b =
  (&&) (N.leb (Npos (XO (XO (XO (XO (XO XH)))))) b)
    (N.leb b (Npos (XO (XI (XI (XI (XI (XI XH))))))))

(** val byte_to_ascii : n -> n list **)

let byte_to_ascii b =
  if N.eqb b (Npos (XO (XI (XO XH))))
  then (Npos (XO (XO (XI (XI (XI (XO XH))))))) :: ((Npos (XO (XI (XI (XI (XO
         (XI XH))))))) :: [])
  else if N.eqb b (Npos (XI (XO (XI XH))))
       then (Npos (XO (XO (XI (XI (XI (XO XH))))))) :: ((Npos (XO (XI (XO (XO
              (XI (XI XH))))))) :: [])
       else if N.eqb b (Npos (XI (XO (XO XH))))
            then (Npos (XO (XO (XI (XI (XI (XO XH))))))) :: ((Npos (XO (XO
                   (XI (XO (XI (XI XH))))))) :: [])
            else if N.eqb b (Npos (XI (XI XH)))
                 then (Npos (XO (XO (XI (XI (XI (XO XH))))))) :: ((Npos (XI
                        (XO (XO (XO (XO (XI XH))))))) :: [])
                 else if N.eqb b (Npos (XO (XO (XO XH))))
                      then (Npos (XO (XO (XI (XI (XI (XO XH))))))) :: ((Npos
                             (XO (XI (XO (XO (XO (XI XH))))))) :: [])
                      else if N.eqb b (Npos (XO (XO (XI XH))))
                           then (Npos (XO (XO (XI (XI (XI (XO
                                  XH))))))) :: ((Npos (XO (XI (XI (XO (XO (XI
                                  XH))))))) :: [])
                           else if N.eqb b (Npos (XI (XI (XO XH))))
                                then (Npos (XO (XO (XI (XI (XI (XO
                                       XH))))))) :: ((Npos (XO (XI (XI (XO
                                       (XI (XI XH))))))) :: [])
                                else if N.eqb b (Npos (XO (XO (XI (XI (XI (XO
                                          XH)))))))
                                     then (Npos (XO (XO (XI (XI (XI (XO
                                            XH))))))) :: ((Npos (XO (XO (XI
                                            (XI (XI (XO XH))))))) :: [])
                                     else if printable b
                                          then b :: []
                                          else (Npos (XO (XO (XI (XI (XI (XO
                                                 XH))))))) :: ((Npos (XO (XO
                                                 (XO (XI (XI (XI
                                                 XH))))))) :: ((hexd
                                                                 (N.div b
                                                                   (Npos (XO
                                                                   (XO (XO
                                                                   (XO
                                                                   XH))))))) :: (
                                                 (hexd
                                                   (N.modulo b (Npos (XO (XO
                                                     (XO (XO XH))))))) :: [])))

(** val has_unprintable_ascii : n list -> bool **)

let has_unprintable_ascii bs =
  existsb (fun b -> negb (printable b)) bs

(** val escaped_printable_ascii : n list -> n list **)

let escaped_printable_ascii bs =
  if has_unprintable_ascii bs then flat_map byte_to_ascii bs else bs

(** val in_ranges : (n * n) list -> n -> bool **)

let in_ranges rs c =
  existsb (fun r -> (&&) (N.leb (fst r) c) (N.leb c (snd r))) rs

(** val is_other : n -> bool **)

let is_other c =
  in_ranges other_ranges c

(** val esc_char : bool -> n -> n list **)

let esc_char esc c =
  if is_other c
  then escaped_printable_ascii (enc c)
  else if (&&) (N.eqb c (Npos (XO (XO (XI (XI (XI (XO XH)))))))) esc
       then (Npos (XO (XO (XI (XI (XI (XO XH))))))) :: ((Npos (XO (XO (XI (XI
              (XI (XO XH))))))) :: [])
       else c :: []

(** val escaped_printable_unicode : n list -> n list **)

let escaped_printable_unicode bs =
  match utf8_decode bs with
  | Some cs -> flat_map (esc_char (existsb is_other cs)) cs
  | None -> escaped_printable_ascii bs

(** val has_unprintable_unicode : n list -> bool **)

let has_unprintable_unicode bs =
  match utf8_decode bs with
  | Some cs -> existsb is_other cs
  | None -> true

type mode =
| Ascii
| Unicode

type written =
| Plain of n list
| Escaped of n list

(** val trim_newlines_rev : n list -> n list **)

let rec trim_newlines_rev r = match r with
| [] -> r
| n0 :: t ->
  (match n0 with
   | N0 -> r
   | Npos p ->
     (match p with
      | XO p0 ->
        (match p0 with
         | XI p1 ->
           (match p1 with
            | XO p2 -> (match p2 with
                        | XH -> trim_newlines_rev t
                        | _ -> r)
            | _ -> r)
         | _ -> r)
      | _ -> r))

(** val trim_newlines : n list -> n list **)

let trim_newlines l =
  rev (trim_newlines_rev (rev l))

(** val has_unprintable : mode -> n list -> bool **)

let has_unprintable m bs =
  match m with
  | Ascii -> has_unprintable_ascii bs
  | Unicode -> has_unprintable_unicode bs

(** val escaped_printable : mode -> n list -> n list **)

let escaped_printable m bs =
  match m with
  | Ascii -> escaped_printable_ascii bs
  | Unicode -> escaped_printable_unicode bs

(** val text_of : n list -> n list **)

let text_of bs =
  match utf8_decode bs with
  | Some cs -> cs
  | None -> bs

(** val escaped_expectation : mode -> n list -> written **)

let escaped_expectation m line =
  let t = trim_newlines line in
  if has_unprintable m t
  then Escaped (escaped_printable m t)
  else Plain (text_of t)

(** val sel : n -> n list **)

let sel c2 =
  if N.eqb c2 (Npos (XI (XO (XO (XO (XO (XI XH)))))))
  then (Npos (XI (XI XH))) :: []
  else if N.eqb c2 (Npos (XO (XI (XO (XO (XO (XI XH)))))))
       then (Npos (XO (XO (XO XH)))) :: []
       else if N.eqb c2 (Npos (XI (XO (XI (XO (XO (XI XH)))))))
            then (Npos (XI (XI (XO (XI XH))))) :: []
            else if N.eqb c2 (Npos (XO (XI (XI (XO (XO (XI XH)))))))
                 then (Npos (XO (XO (XI XH)))) :: []
                 else if N.eqb c2 (Npos (XO (XI (XO (XO (XI (XI XH)))))))
                      then (Npos (XI (XO (XI XH)))) :: []
                      else if N.eqb c2 (Npos (XO (XO (XI (XO (XI (XI XH)))))))
                           then (Npos (XI (XO (XO XH)))) :: []
                           else if N.eqb c2 (Npos (XO (XI (XI (XO (XI (XI
                                     XH)))))))
                                then (Npos (XI (XI (XO XH)))) :: []
                                else (Npos (XO (XO (XI (XI (XI (XO
                                       XH))))))) :: (c2 :: [])

(** val unescape_tabs : n list -> n list **)

let rec unescape_tabs = function
| [] -> []
| c :: r ->
  if N.eqb c (Npos (XO (XO (XI (XI (XI (XO XH)))))))
  then (match r with
        | [] -> (Npos (XO (XO (XI (XI (XI (XO XH))))))) :: []
        | c2 :: r' -> app (sel c2) (unescape_tabs r'))
  else c :: (unescape_tabs r)

(** val digit : n -> n -> n option **)

let digit radix c =
  let v =
    if (&&) (N.leb (Npos (XO (XO (XO (XO (XI XH)))))) c)
         (N.leb c (Npos (XI (XO (XO (XI (XI XH)))))))
    then Some (N.sub c (Npos (XO (XO (XO (XO (XI XH)))))))
    else if (&&) (N.leb (Npos (XI (XO (XO (XO (XO (XI XH))))))) c)
              (N.leb c (Npos (XO (XI (XO (XI (XI (XI XH))))))))
         then Some (N.sub c (Npos (XI (XI (XI (XO (XI (XO XH))))))))
         else if (&&) (N.leb (Npos (XI (XO (XO (XO (XO (XO XH))))))) c)
                   (N.leb c (Npos (XO (XI (XO (XI (XI (XO XH))))))))
              then Some (N.sub c (Npos (XI (XI (XI (XO (XI XH)))))))
              else None
  in
  (match v with
   | Some d -> if N.ltb d radix then Some d else None
   | None -> None)

(** val two : n -> n -> n -> n option **)

let two radix a b =
  if N.eqb a (Npos (XI (XI (XO (XI (XO XH))))))
  then digit radix b
  else (match digit radix a with
        | Some x ->
          (match digit radix b with
           | Some y -> Some (N.add (N.mul x radix) y)
           | None -> None)
        | None -> None)

(** val resolve : n list -> n list option **)

let rec resolve = function
| [] -> Some []
| c :: r ->
  if N.eqb c (Npos (XO (XO (XI (XI (XI (XO XH)))))))
  then (match r with
        | [] -> None
        | c2 :: r' ->
          if N.eqb c2 (Npos (XO (XO (XO (XO (XI XH))))))
          then (match r' with
                | [] -> None
                | a :: l ->
                  (match l with
                   | [] -> None
                   | b :: r'' ->
                     (match two (Npos (XO (XO (XO XH)))) a b with
                      | Some v -> option_map (fun x -> v :: x) (resolve r'')
                      | None -> None)))
          else if N.eqb c2 (Npos (XO (XO (XO (XI (XI (XI XH)))))))
               then (match r' with
                     | [] -> None
                     | a :: l ->
                       (match l with
                        | [] -> None
                        | b :: r'' ->
                          (match two (Npos (XO (XO (XO (XO XH))))) a b with
                           | Some v ->
                             option_map (fun x -> v :: x) (resolve r'')
                           | None -> None)))
               else if N.eqb c2 (Npos (XO (XO (XI (XI (XI (XO XH)))))))
                    then option_map (fun x -> (Npos (XO (XO (XI (XI (XI (XO
                           XH))))))) :: x) (resolve r')
                    else option_map (fun t -> (Npos (XO (XO (XI (XI (XI (XO
                           XH))))))) :: ((N.modulo c2 (Npos (XO (XO (XO (XO
                                           (XO (XO (XO (XO XH)))))))))) :: t))
                           (resolve r'))
  else option_map (app (enc c)) (resolve r)

(** val decode : n list -> n list option **)

let decode cs =
  resolve (unescape_tabs cs)

(** val list_eqb : n list -> n list -> bool **)

let rec list_eqb a b =
  match a with
  | [] -> (match b with
           | [] -> true
           | _ :: _ -> false)
  | x :: a' ->
    (match b with
     | [] -> false
     | y :: b' -> (&&) (N.eqb x y) (list_eqb a' b'))

(** val escaped_matches : n list -> n list -> bool option **)

let escaped_matches text0 line =
  match decode text0 with
  | Some bs -> Some (list_eqb bs (trim_newlines line))
  | None -> None

(** val starts_with : n list -> n list -> bool **)

let rec starts_with pat l =
  match pat with
  | [] -> true
  | p :: pat' ->
    (match l with
     | [] -> false
     | x :: l' -> (&&) (N.eqb p x) (starts_with pat' l'))

(** val repl : n list -> n list -> nat -> n list -> n list **)

let rec repl pat to0 skip l = match l with
| [] -> []
| x :: r ->
  (match skip with
   | O ->
     if starts_with pat l
     then app to0 (repl pat to0 (sub (length pat) (S O)) r)
     else x :: (repl pat to0 O r)
   | S k -> repl pat to0 k r)

(** val replace_all : n list -> n list -> n list -> n list **)

let replace_all pat to0 l =
  repl pat to0 O l

(** val occurs_at : n list -> n list -> nat -> bool **)

let occurs_at pat l k =
  starts_with pat (skipn k l)

(** val single_at : n list -> n list -> nat -> bool **)

let single_at pat l i =
  (&&)
    ((&&) (occurs_at pat l i)
      (forallb (fun k -> negb (occurs_at pat l k)) (seq O i)))
    (forallb (fun k -> negb (occurs_at pat l k))
      (seq (add i (length pat)) (sub (length l) (add i (length pat)))))

(** val render_chain :
    n list -> n list list -> nat list -> n list list -> n list **)

let render_chain template0 names order values0 =
  fold_left (fun t ph -> replace_all (nth ph names []) (nth ph values0 []) t)
    order template0

(** val template : n list **)

let template =
  (Npos (XI (XI (XO (XO (XO XH)))))) :: ((Npos (XO (XO (XO (XO (XO
    XH)))))) :: ((Npos (XO (XI (XI (XO (XI (XI XH))))))) :: ((Npos (XI (XO
    (XO (XI (XO (XI XH))))))) :: ((Npos (XI (XO (XI (XI (XO (XI
    XH))))))) :: ((Npos (XO (XI (XO (XI (XI XH)))))) :: ((Npos (XI (XI (XO
    (XO (XI (XI XH))))))) :: ((Npos (XI (XO (XI (XO (XO (XI
    XH))))))) :: ((Npos (XO (XO (XI (XO (XI (XI XH))))))) :: ((Npos (XO (XO
    (XO (XO (XO XH)))))) :: ((Npos (XO (XI (XI (XO (XO (XI
    XH))))))) :: ((Npos (XO (XO (XI (XO (XI (XI XH))))))) :: ((Npos (XI (XO
    (XI (XI (XI XH)))))) :: ((Npos (XO (XI (XO (XO (XO (XI
    XH))))))) :: ((Npos (XI (XO (XO (XO (XO (XI XH))))))) :: ((Npos (XI (XI
    (XO (XO (XI (XI XH))))))) :: ((Npos (XO (XO (XO (XI (XO (XI
    XH))))))) :: ((Npos (XO (XI (XO XH)))) :: ((Npos (XO (XI (XO
    XH)))) :: ((Npos (XI (XI (XO (XO (XO XH)))))) :: ((Npos (XO (XO (XO (XO
    (XO XH)))))) :: ((Npos (XI (XI (XO (XO (XO (XO XH))))))) :: ((Npos (XI
    (XI (XI (XI (XO (XI XH))))))) :: ((Npos (XO (XO (XO (XO (XI (XI
    XH))))))) :: ((Npos (XI (XO (XO (XI (XI (XI XH))))))) :: ((Npos (XO (XI
    (XO (XO (XI (XI XH))))))) :: ((Npos (XI (XO (XO (XI (XO (XI
    XH))))))) :: ((Npos (XI (XI (XI (XO (XO (XI XH))))))) :: ((Npos (XO (XO
    (XO (XI (XO (XI XH))))))) :: ((Npos (XO (XO (XI (XO (XI (XI
    XH))))))) :: ((Npos (XO (XO (XO (XO (XO XH)))))) :: ((Npos (XO (XO (XO
    (XI (XO XH)))))) :: ((Npos (XI (XI (XO (XO (XO (XI XH))))))) :: ((Npos
    (XI (XO (XO (XI (XO XH)))))) :: ((Npos (XO (XO (XO (XO (XO
    XH)))))) :: ((Npos (XI (XO (XI (XI (XO (XO XH))))))) :: ((Npos (XI (XO
    (XI (XO (XO (XI XH))))))) :: ((Npos (XO (XO (XI (XO (XI (XI
    XH))))))) :: ((Npos (XI (XO (XO (XO (XO (XI XH))))))) :: ((Npos (XO (XO
    (XO (XO (XO XH)))))) :: ((Npos (XO (XO (XO (XO (XI (XO
    XH))))))) :: ((Npos (XO (XO (XI (XI (XO (XI XH))))))) :: ((Npos (XI (XO
    (XO (XO (XO (XI XH))))))) :: ((Npos (XO (XO (XI (XO (XI (XI
    XH))))))) :: ((Npos (XO (XI (XI (XO (XO (XI XH))))))) :: ((Npos (XI (XI
    (XI (XI (XO (XI XH))))))) :: ((Npos (XO (XI (XO (XO (XI (XI
    XH))))))) :: ((Npos (XI (XO (XI (XI (XO (XI XH))))))) :: ((Npos (XI (XI
    (XO (XO (XI (XI XH))))))) :: ((Npos (XO (XO (XI (XI (XO
    XH)))))) :: ((Npos (XO (XO (XO (XO (XO XH)))))) :: ((Npos (XI (XO (XO (XI
    (XO (XO XH))))))) :: ((Npos (XO (XI (XI (XI (XO (XI XH))))))) :: ((Npos
    (XI (XI (XO (XO (XO (XI XH))))))) :: ((Npos (XO (XI (XI (XI (XO
    XH)))))) :: ((Npos (XO (XO (XO (XO (XO XH)))))) :: ((Npos (XI (XO (XO (XO
    (XO (XI XH))))))) :: ((Npos (XO (XI (XI (XI (XO (XI XH))))))) :: ((Npos
    (XO (XO (XI (XO (XO (XI XH))))))) :: ((Npos (XO (XO (XO (XO (XO
    XH)))))) :: ((Npos (XI (XO (XO (XO (XO (XI XH))))))) :: ((Npos (XO (XI
    (XI (XO (XO (XI XH))))))) :: ((Npos (XO (XI (XI (XO (XO (XI
    XH))))))) :: ((Npos (XI (XO (XO (XI (XO (XI XH))))))) :: ((Npos (XO (XO
    (XI (XI (XO (XI XH))))))) :: ((Npos (XI (XO (XO (XI (XO (XI
    XH))))))) :: ((Npos (XI (XO (XO (XO (XO (XI XH))))))) :: ((Npos (XO (XO
    (XI (XO (XI (XI XH))))))) :: ((Npos (XI (XO (XI (XO (XO (XI
    XH))))))) :: ((Npos (XI (XI (XO (XO (XI (XI XH))))))) :: ((Npos (XO (XI
    (XI (XI (XO XH)))))) :: ((Npos (XO (XI (XO XH)))) :: ((Npos (XI (XI (XO
    (XO (XO XH)))))) :: ((Npos (XO (XI (XO XH)))) :: ((Npos (XI (XI (XO (XO
    (XO XH)))))) :: ((Npos (XO (XO (XO (XO (XO XH)))))) :: ((Npos (XO (XO (XI
    (XO (XI (XO XH))))))) :: ((Npos (XO (XO (XO (XI (XO (XI
    XH))))))) :: ((Npos (XI (XO (XO (XI (XO (XI XH))))))) :: ((Npos (XI (XI
    (XO (XO (XI (XI XH))))))) :: ((Npos (XO (XO (XO (XO (XO
    XH)))))) :: ((Npos (XI (XI (XO (XO (XI (XI XH))))))) :: ((Npos (XI (XI
    (XI (XI (XO (XI XH))))))) :: ((Npos (XI (XO (XI (XO (XI (XI
    XH))))))) :: ((Npos (XO (XI (XO (XO (XI (XI XH))))))) :: ((Npos (XI (XI
    (XO (XO (XO (XI XH))))))) :: ((Npos (XI (XO (XI (XO (XO (XI
    XH))))))) :: ((Npos (XO (XO (XO (XO (XO XH)))))) :: ((Npos (XI (XI (XO
    (XO (XO (XI XH))))))) :: ((Npos (XI (XI (XI (XI (XO (XI
    XH))))))) :: ((Npos (XO (XO (XI (XO (XO (XI XH))))))) :: ((Npos (XI (XO
    (XI (XO (XO (XI XH))))))) :: ((Npos (XO (XO (XO (XO (XO
    XH)))))) :: ((Npos (XI (XO (XO (XI (XO (XI XH))))))) :: ((Npos (XI (XI
    (XO (XO (XI (XI XH))))))) :: ((Npos (XO (XO (XO (XO (XO
    XH)))))) :: ((Npos (XO (XO (XI (XI (XO (XI XH))))))) :: ((Npos (XI (XO
    (XO (XI (XO (XI XH))))))) :: ((Npos (XI (XI (XO (XO (XO (XI
    XH))))))) :: ((Npos (XI (XO (XI (XO (XO (XI XH))))))) :: ((Npos (XO (XI
    (XI (XI (XO (XI XH))))))) :: ((Npos (XI (XI (XO (XO (XI (XI
    XH))))))) :: ((Npos (XI (XO (XI (XO (XO (XI XH))))))) :: ((Npos (XO (XO
    (XI (XO (XO (XI XH))))))) :: ((Npos (XO (XO (XO (XO (XO
    XH)))))) :: ((Npos (XI (XO (XI (XO (XI (XI XH))))))) :: ((Npos (XO (XI
    (XI (XI (XO (XI XH))))))) :: ((Npos (XO (XO (XI (XO (XO (XI
    XH))))))) :: ((Npos (XI (XO (XI (XO (XO (XI XH))))))) :: ((Npos (XO (XI
    (XO (XO (XI (XI XH))))))) :: ((Npos (XO (XO (XO (XO (XO
    XH)))))) :: ((Npos (XO (XO (XI (XO (XI (XI XH))))))) :: ((Npos (XO (XO
    (XO (XI (XO (XI XH))))))) :: ((Npos (XI (XO (XI (XO (XO (XI
    XH))))))) :: ((Npos (XO (XO (XO (XO (XO XH)))))) :: ((Npos (XI (XO (XI
    (XI (XO (XO XH))))))) :: ((Npos (XI (XO (XO (XI (XO (XO
    XH))))))) :: ((Npos (XO (XO (XI (XO (XI (XO XH))))))) :: ((Npos (XO (XO
    (XO (XO (XO XH)))))) :: ((Npos (XO (XO (XI (XI (XO (XI
    XH))))))) :: ((Npos (XI (XO (XO (XI (XO (XI XH))))))) :: ((Npos (XI (XI
    (XO (XO (XO (XI XH))))))) :: ((Npos (XI (XO (XI (XO (XO (XI
    XH))))))) :: ((Npos (XO (XI (XI (XI (XO (XI XH))))))) :: ((Npos (XI (XI
    (XO (XO (XI (XI XH))))))) :: ((Npos (XI (XO (XI (XO (XO (XI
    XH))))))) :: ((Npos (XO (XO (XO (XO (XO XH)))))) :: ((Npos (XO (XI (XI
    (XO (XO (XI XH))))))) :: ((Npos (XI (XI (XI (XI (XO (XI
    XH))))))) :: ((Npos (XI (XO (XI (XO (XI (XI XH))))))) :: ((Npos (XO (XI
    (XI (XI (XO (XI XH))))))) :: ((Npos (XO (XO (XI (XO (XO (XI
    XH))))))) :: ((Npos (XO (XO (XO (XO (XO XH)))))) :: ((Npos (XI (XO (XO
    (XI (XO (XI XH))))))) :: ((Npos (XO (XI (XI (XI (XO (XI
    XH))))))) :: ((Npos (XO (XO (XO (XO (XO XH)))))) :: ((Npos (XO (XO (XI
    (XO (XI (XI XH))))))) :: ((Npos (XO (XO (XO (XI (XO (XI
    XH))))))) :: ((Npos (XI (XO (XI (XO (XO (XI XH))))))) :: ((Npos (XO (XI
    (XO XH)))) :: ((Npos (XI (XI (XO (XO (XO XH)))))) :: ((Npos (XO (XO (XO
    (XO (XO XH)))))) :: ((Npos (XO (XO (XI (XI (XO (XO XH))))))) :: ((Npos
    (XI (XO (XO (XI (XO (XO XH))))))) :: ((Npos (XI (XI (XO (XO (XO (XO
    XH))))))) :: ((Npos (XI (XO (XI (XO (XO (XO XH))))))) :: ((Npos (XO (XI
    (XI (XI (XO (XO XH))))))) :: ((Npos (XI (XI (XO (XO (XI (XO
    XH))))))) :: ((Npos (XI (XO (XI (XO (XO (XO XH))))))) :: ((Npos (XO (XO
    (XO (XO (XO XH)))))) :: ((Npos (XO (XI (XI (XO (XO (XI
    XH))))))) :: ((Npos (XI (XO (XO (XI (XO (XI XH))))))) :: ((Npos (XO (XO
    (XI (XI (XO (XI XH))))))) :: ((Npos (XI (XO (XI (XO (XO (XI
    XH))))))) :: ((Npos (XO (XO (XO (XO (XO XH)))))) :: ((Npos (XI (XO (XO
    (XI (XO (XI XH))))))) :: ((Npos (XO (XI (XI (XI (XO (XI
    XH))))))) :: ((Npos (XO (XO (XO (XO (XO XH)))))) :: ((Npos (XO (XO (XI
    (XO (XI (XI XH))))))) :: ((Npos (XO (XO (XO (XI (XO (XI
    XH))))))) :: ((Npos (XI (XO (XI (XO (XO (XI XH))))))) :: ((Npos (XO (XO
    (XO (XO (XO XH)))))) :: ((Npos (XO (XI (XO (XO (XI (XI
    XH))))))) :: ((Npos (XI (XI (XI (XI (XO (XI XH))))))) :: ((Npos (XI (XI
    (XI (XI (XO (XI XH))))))) :: ((Npos (XO (XO (XI (XO (XI (XI
    XH))))))) :: ((Npos (XO (XO (XO (XO (XO XH)))))) :: ((Npos (XO (XO (XI
    (XO (XO (XI XH))))))) :: ((Npos (XI (XO (XO (XI (XO (XI
    XH))))))) :: ((Npos (XO (XI (XO (XO (XI (XI XH))))))) :: ((Npos (XI (XO
    (XI (XO (XO (XI XH))))))) :: ((Npos (XI (XI (XO (XO (XO (XI
    XH))))))) :: ((Npos (XO (XO (XI (XO (XI (XI XH))))))) :: ((Npos (XI (XI
    (XI (XI (XO (XI XH))))))) :: ((Npos (XO (XI (XO (XO (XI (XI
    XH))))))) :: ((Npos (XI (XO (XO (XI (XI (XI XH))))))) :: ((Npos (XO (XO
    (XO (XO (XO XH)))))) :: ((Npos (XI (XI (XI (XI (XO (XI
    XH))))))) :: ((Npos (XO (XI (XI (XO (XO (XI XH))))))) :: ((Npos (XO (XO
    (XO (XO (XO XH)))))) :: ((Npos (XO (XO (XI (XO (XI (XI
    XH))))))) :: ((Npos (XO (XO (XO (XI (XO (XI XH))))))) :: ((Npos (XI (XO
    (XO (XI (XO (XI XH))))))) :: ((Npos (XI (XI (XO (XO (XI (XI
    XH))))))) :: ((Npos (XO (XO (XO (XO (XO XH)))))) :: ((Npos (XI (XI (XO
    (XO (XI (XI XH))))))) :: ((Npos (XI (XI (XI (XI (XO (XI
    XH))))))) :: ((Npos (XI (XO (XI (XO (XI (XI XH))))))) :: ((Npos (XO (XI
    (XO (XO (XI (XI XH))))))) :: ((Npos (XI (XI (XO (XO (XO (XI
    XH))))))) :: ((Npos (XI (XO (XI (XO (XO (XI XH))))))) :: ((Npos (XO (XO
    (XO (XO (XO XH)))))) :: ((Npos (XO (XO (XI (XO (XI (XI
    XH))))))) :: ((Npos (XO (XI (XO (XO (XI (XI XH))))))) :: ((Npos (XI (XO
    (XI (XO (XO (XI XH))))))) :: ((Npos (XI (XO (XI (XO (XO (XI
    XH))))))) :: ((Npos (XO (XI (XI (XI (XO XH)))))) :: ((Npos (XO (XI (XO
    XH)))) :: ((Npos (XO (XI (XO XH)))) :: ((Npos (XI (XI (XI (XI (XI (XO
    XH))))))) :: ((Npos (XI (XI (XI (XI (XI (XO XH))))))) :: ((Npos (XI (XI
    (XO (XO (XI (XO XH))))))) :: ((Npos (XI (XI (XO (XO (XO (XO
    XH))))))) :: ((Npos (XO (XI (XO (XO (XI (XO XH))))))) :: ((Npos (XI (XO
    (XI (XO (XI (XO XH))))))) :: ((Npos (XO (XO (XI (XO (XI (XO
    XH))))))) :: ((Npos (XI (XI (XI (XI (XI (XO XH))))))) :: ((Npos (XO (XO
    (XI (XO (XI (XO XH))))))) :: ((Npos (XI (XO (XI (XO (XO (XO
    XH))))))) :: ((Npos (XI (XO (XI (XI (XO (XO XH))))))) :: ((Npos (XO (XO
    (XO (XO (XI (XO XH))))))) :: ((Npos (XI (XI (XI (XI (XI (XO
    XH))))))) :: ((Npos (XI (XI (XO (XO (XI (XO XH))))))) :: ((Npos (XO (XO
    (XI (XO (XI (XO XH))))))) :: ((Npos (XI (XO (XO (XO (XO (XO
    XH))))))) :: ((Npos (XO (XO (XI (XO (XI (XO XH))))))) :: ((Npos (XI (XO
    (XI (XO (XO (XO XH))))))) :: ((Npos (XI (XI (XI (XI (XI (XO
    XH))))))) :: ((Npos (XO (XO (XO (XO (XI (XO XH))))))) :: ((Npos (XI (XO
    (XO (XO (XO (XO XH))))))) :: ((Npos (XO (XO (XI (XO (XI (XO
    XH))))))) :: ((Npos (XO (XO (XO (XI (XO (XO XH))))))) :: ((Npos (XI (XO
    (XI (XI (XI XH)))))) :: ((Npos (XO (XI (XO (XO (XO XH)))))) :: ((Npos (XI
    (XI (XO (XI (XI (XI XH))))))) :: ((Npos (XI (XI (XO (XO (XI (XI
    XH))))))) :: ((Npos (XO (XO (XI (XO (XI (XI XH))))))) :: ((Npos (XI (XO
    (XO (XO (XO (XI XH))))))) :: ((Npos (XO (XO (XI (XO (XI (XI
    XH))))))) :: ((Npos (XI (XO (XI (XO (XO (XI XH))))))) :: ((Npos (XI (XI
    (XI (XI (XI (XO XH))))))) :: ((Npos (XO (XO (XI (XO (XO (XI
    XH))))))) :: ((Npos (XI (XO (XO (XI (XO (XI XH))))))) :: ((Npos (XO (XI
    (XO (XO (XI (XI XH))))))) :: ((Npos (XI (XO (XI (XO (XO (XI
    XH))))))) :: ((Npos (XI (XI (XO (XO (XO (XI XH))))))) :: ((Npos (XO (XO
    (XI (XO (XI (XI XH))))))) :: ((Npos (XI (XI (XI (XI (XO (XI
    XH))))))) :: ((Npos (XO (XI (XO (XO (XI (XI XH))))))) :: ((Npos (XI (XO
    (XO (XI (XI (XI XH))))))) :: ((Npos (XI (XO (XI (XI (XI (XI
    XH))))))) :: ((Npos (XO (XI (XO (XO (XO XH)))))) :: ((Npos (XO (XI (XO
    XH)))) :: ((Npos (XO (XI (XO XH)))) :: ((Npos (XI (XI (XO (XO (XO
    XH)))))) :: ((Npos (XO (XO (XO (XO (XO XH)))))) :: ((Npos (XO (XO (XO (XO
    (XI (XI XH))))))) :: ((Npos (XI (XO (XI (XO (XO (XI XH))))))) :: ((Npos
    (XO (XI (XO (XO (XI (XI XH))))))) :: ((Npos (XI (XI (XO (XO (XI (XI
    XH))))))) :: ((Npos (XI (XO (XO (XI (XO (XI XH))))))) :: ((Npos (XI (XI
    (XO (XO (XI (XI XH))))))) :: ((Npos (XO (XO (XI (XO (XI (XI
    XH))))))) :: ((Npos (XO (XO (XO (XO (XO XH)))))) :: ((Npos (XO (XO (XI
    (XO (XI (XI XH))))))) :: ((Npos (XO (XO (XO (XI (XO (XI
    XH))))))) :: ((Npos (XI (XO (XI (XO (XO (XI XH))))))) :: ((Npos (XO (XO
    (XO (XO (XO XH)))))) :: ((Npos (XI (XI (XI (XO (XI (XI
    XH))))))) :: ((Npos (XO (XO (XO (XI (XO (XI XH))))))) :: ((Npos (XI (XI
    (XI (XI (XO (XI XH))))))) :: ((Npos (XO (XO (XI (XI (XO (XI
    XH))))))) :: ((Npos (XI (XO (XI (XO (XO (XI XH))))))) :: ((Npos (XO (XO
    (XO (XO (XO XH)))))) :: ((Npos (XI (XI (XO (XO (XI (XI
    XH))))))) :: ((Npos (XO (XO (XI (XO (XI (XI XH))))))) :: ((Npos (XI (XO
    (XO (XO (XO (XI XH))))))) :: ((Npos (XO (XO (XI (XO (XI (XI
    XH))))))) :: ((Npos (XI (XO (XI (XO (XO (XI XH))))))) :: ((Npos (XO (XO
    (XO (XO (XO XH)))))) :: ((Npos (XI (XI (XI (XI (XO XH)))))) :: ((Npos (XO
    (XO (XO (XO (XO XH)))))) :: ((Npos (XI (XI (XO (XO (XO (XI
    XH))))))) :: ((Npos (XI (XI (XI (XI (XO (XI XH))))))) :: ((Npos (XO (XI
    (XI (XI (XO (XI XH))))))) :: ((Npos (XO (XO (XI (XO (XI (XI
    XH))))))) :: ((Npos (XI (XO (XI (XO (XO (XI XH))))))) :: ((Npos (XO (XO
    (XO (XI (XI (XI XH))))))) :: ((Npos (XO (XO (XI (XO (XI (XI
    XH))))))) :: ((Npos (XO (XO (XO (XO (XO XH)))))) :: ((Npos (XI (XI (XI
    (XI (XO (XI XH))))))) :: ((Npos (XO (XI (XI (XO (XO (XI
    XH))))))) :: ((Npos (XO (XO (XO (XO (XO XH)))))) :: ((Npos (XO (XO (XI
    (XO (XI (XI XH))))))) :: ((Npos (XO (XO (XO (XI (XO (XI
    XH))))))) :: ((Npos (XI (XO (XI (XO (XO (XI XH))))))) :: ((Npos (XO (XO
    (XO (XO (XO XH)))))) :: ((Npos (XI (XO (XI (XO (XO (XI
    XH))))))) :: ((Npos (XO (XO (XO (XI (XI (XI XH))))))) :: ((Npos (XI (XO
    (XI (XO (XO (XI XH))))))) :: ((Npos (XI (XI (XO (XO (XO (XI
    XH))))))) :: ((Npos (XI (XO (XI (XO (XI (XI XH))))))) :: ((Npos (XO (XO
    (XI (XO (XI (XI XH))))))) :: ((Npos (XI (XO (XO (XI (XO (XI
    XH))))))) :: ((Npos (XI (XI (XI (XI (XO (XI XH))))))) :: ((Npos (XO (XI
    (XI (XI (XO (XI XH))))))) :: ((Npos (XO (XO (XO (XO (XO
    XH)))))) :: ((Npos (XI (XO (XO (XI (XO (XI XH))))))) :: ((Npos (XO (XI
    (XI (XI (XO (XI XH))))))) :: ((Npos (XO (XO (XO (XO (XO
    XH)))))) :: ((Npos (XI (XO (XO (XO (XO (XI XH))))))) :: ((Npos (XO (XO
    (XO (XO (XO XH)))))) :: ((Npos (XO (XI (XI (XO (XO (XI
    XH))))))) :: ((Npos (XI (XO (XO (XI (XO (XI XH))))))) :: ((Npos (XO (XO
    (XI (XI (XO (XI XH))))))) :: ((Npos (XI (XO (XI (XO (XO (XI
    XH))))))) :: ((Npos (XO (XO (XO (XO (XO XH)))))) :: ((Npos (XO (XO (XO
    (XO (XO (XI XH))))))) :: ((Npos (XI (XI (XO (XO (XI (XI
    XH))))))) :: ((Npos (XO (XO (XI (XO (XI (XI XH))))))) :: ((Npos (XI (XO
    (XO (XO (XO (XI XH))))))) :: ((Npos (XO (XO (XI (XO (XI (XI
    XH))))))) :: ((Npos (XI (XO (XI (XO (XO (XI XH))))))) :: ((Npos (XO (XO
    (XO (XO (XO (XI XH))))))) :: ((Npos (XO (XO (XI (XI (XO
    XH)))))) :: ((Npos (XO (XO (XO (XO (XO XH)))))) :: ((Npos (XI (XI (XO (XO
    (XI (XI XH))))))) :: ((Npos (XI (XI (XI (XI (XO (XI XH))))))) :: ((Npos
    (XO (XO (XO (XO (XO XH)))))) :: ((Npos (XO (XO (XI (XO (XI (XI
    XH))))))) :: ((Npos (XO (XO (XO (XI (XO (XI XH))))))) :: ((Npos (XI (XO
    (XO (XO (XO (XI XH))))))) :: ((Npos (XO (XO (XI (XO (XI (XI
    XH))))))) :: ((Npos (XO (XI (XO XH)))) :: ((Npos (XI (XI (XO (XO (XO
    XH)))))) :: ((Npos (XO (XO (XO (XO (XO XH)))))) :: ((Npos (XI (XO (XO (XI
    (XO (XI XH))))))) :: ((Npos (XO (XO (XI (XO (XI (XI XH))))))) :: ((Npos
    (XO (XO (XO (XO (XO XH)))))) :: ((Npos (XI (XI (XO (XO (XO (XI
    XH))))))) :: ((Npos (XI (XO (XO (XO (XO (XI XH))))))) :: ((Npos (XO (XI
    (XI (XI (XO (XI XH))))))) :: ((Npos (XO (XO (XO (XO (XO
    XH)))))) :: ((Npos (XO (XI (XO (XO (XO (XI XH))))))) :: ((Npos (XI (XO
    (XI (XO (XO (XI XH))))))) :: ((Npos (XO (XO (XO (XO (XO
    XH)))))) :: ((Npos (XO (XI (XO (XO (XI (XI XH))))))) :: ((Npos (XI (XO
    (XI (XO (XO (XI XH))))))) :: ((Npos (XI (XI (XO (XO (XO (XI
    XH))))))) :: ((Npos (XI (XI (XI (XI (XO (XI XH))))))) :: ((Npos (XO (XI
    (XI (XO (XI (XI XH))))))) :: ((Npos (XI (XO (XI (XO (XO (XI
    XH))))))) :: ((Npos (XO (XI (XO (XO (XI (XI XH))))))) :: ((Npos (XI (XO
    (XI (XO (XO (XI XH))))))) :: ((Npos (XO (XO (XI (XO (XO (XI
    XH))))))) :: ((Npos (XO (XO (XO (XO (XO XH)))))) :: ((Npos (XI (XO (XO
    (XI (XO (XI XH))))))) :: ((Npos (XO (XI (XI (XI (XO (XI
    XH))))))) :: ((Npos (XO (XO (XO (XO (XO XH)))))) :: ((Npos (XI (XO (XO
    (XO (XO (XI XH))))))) :: ((Npos (XO (XO (XO (XO (XO XH)))))) :: ((Npos
    (XI (XI (XO (XO (XI (XI XH))))))) :: ((Npos (XI (XO (XI (XO (XI (XI
    XH))))))) :: ((Npos (XO (XI (XO (XO (XO (XI XH))))))) :: ((Npos (XI (XI
    (XO (XO (XI (XI XH))))))) :: ((Npos (XI (XO (XI (XO (XO (XI
    XH))))))) :: ((Npos (XI (XO (XO (XO (XI (XI XH))))))) :: ((Npos (XI (XO
    (XI (XO (XI (XI XH))))))) :: ((Npos (XI (XO (XI (XO (XO (XI
    XH))))))) :: ((Npos (XO (XI (XI (XI (XO (XI XH))))))) :: ((Npos (XO (XO
    (XI (XO (XI (XI XH))))))) :: ((Npos (XO (XO (XO (XO (XO
    XH)))))) :: ((Npos (XI (XO (XI (XO (XO (XI XH))))))) :: ((Npos (XO (XO
    (XO (XI (XI (XI XH))))))) :: ((Npos (XI (XO (XI (XO (XO (XI
    XH))))))) :: ((Npos (XI (XI (XO (XO (XO (XI XH))))))) :: ((Npos (XI (XO
    (XI (XO (XI (XI XH))))))) :: ((Npos (XO (XO (XI (XO (XI (XI
    XH))))))) :: ((Npos (XI (XO (XO (XI (XO (XI XH))))))) :: ((Npos (XI (XI
    (XI (XI (XO (XI XH))))))) :: ((Npos (XO (XI (XI (XI (XO (XI
    XH))))))) :: ((Npos (XO (XO (XO (XO (XO XH)))))) :: ((Npos (XI (XO (XI
    (XO (XI (XI XH))))))) :: ((Npos (XI (XI (XO (XO (XI (XI
    XH))))))) :: ((Npos (XI (XO (XO (XI (XO (XI XH))))))) :: ((Npos (XO (XI
    (XI (XI (XO (XI XH))))))) :: ((Npos (XI (XI (XI (XO (XO (XI
    XH))))))) :: ((Npos (XO (XO (XO (XO (XO XH)))))) :: ((Npos (XO (XO (XO
    (XO (XO (XI XH))))))) :: ((Npos (XI (XI (XO (XO (XI (XI
    XH))))))) :: ((Npos (XI (XI (XI (XI (XO (XI XH))))))) :: ((Npos (XI (XO
    (XI (XO (XI (XI XH))))))) :: ((Npos (XO (XI (XO (XO (XI (XI
    XH))))))) :: ((Npos (XI (XI (XO (XO (XO (XI XH))))))) :: ((Npos (XI (XO
    (XI (XO (XO (XI XH))))))) :: ((Npos (XO (XO (XO (XO (XO
    XH)))))) :: ((Npos (XI (XI (XO (XO (XI (XI XH))))))) :: ((Npos (XO (XO
    (XI (XO (XI (XI XH))))))) :: ((Npos (XI (XO (XO (XO (XO (XI
    XH))))))) :: ((Npos (XO (XO (XI (XO (XI (XI XH))))))) :: ((Npos (XI (XO
    (XI (XO (XO (XI XH))))))) :: ((Npos (XO (XO (XO (XO (XO (XI
    XH))))))) :: ((Npos (XO (XI (XI (XI (XO XH)))))) :: ((Npos (XO (XI (XO
    XH)))) :: ((Npos (XO (XI (XI (XO (XO (XI XH))))))) :: ((Npos (XI (XO (XI
    (XO (XI (XI XH))))))) :: ((Npos (XO (XI (XI (XI (XO (XI
    XH))))))) :: ((Npos (XI (XI (XO (XO (XO (XI XH))))))) :: ((Npos (XO (XO
    (XI (XO (XI (XI XH))))))) :: ((Npos (XI (XO (XO (XI (XO (XI
    XH))))))) :: ((Npos (XI (XI (XI (XI (XO (XI XH))))))) :: ((Npos (XO (XI
    (XI (XI (XO (XI XH))))))) :: ((Npos (XO (XO (XO (XO (XO
    XH)))))) :: ((Npos (XI (XI (XI (XI (XI (XO XH))))))) :: ((Npos (XI (XI
    (XI (XI (XI (XO XH))))))) :: ((Npos (XI (XI (XO (XO (XI (XI
    XH))))))) :: ((Npos (XI (XI (XO (XO (XO (XI XH))))))) :: ((Npos (XO (XI
    (XO (XO (XI (XI XH))))))) :: ((Npos (XI (XO (XI (XO (XI (XI
    XH))))))) :: ((Npos (XO (XO (XI (XO (XI (XI XH))))))) :: ((Npos (XI (XI
    (XI (XI (XI (XO XH))))))) :: ((Npos (XO (XO (XO (XO (XI (XI
    XH))))))) :: ((Npos (XI (XO (XI (XO (XO (XI XH))))))) :: ((Npos (XO (XI
    (XO (XO (XI (XI XH))))))) :: ((Npos (XI (XI (XO (XO (XI (XI
    XH))))))) :: ((Npos (XI (XO (XO (XI (XO (XI XH))))))) :: ((Npos (XI (XI
    (XO (XO (XI (XI XH))))))) :: ((Npos (XO (XO (XI (XO (XI (XI
    XH))))))) :: ((Npos (XI (XI (XI (XI (XI (XO XH))))))) :: ((Npos (XI (XI
    (XO (XO (XI (XI XH))))))) :: ((Npos (XO (XO (XI (XO (XI (XI
    XH))))))) :: ((Npos (XI (XO (XO (XO (XO (XI XH))))))) :: ((Npos (XO (XO
    (XI (XO (XI (XI XH))))))) :: ((Npos (XI (XO (XI (XO (XO (XI
    XH))))))) :: ((Npos (XO (XO (XO (XO (XO XH)))))) :: ((Npos (XI (XI (XO
    (XI (XI (XI XH))))))) :: ((Npos (XO (XI (XO XH)))) :: ((Npos (XO (XO (XO
    (XO (XO XH)))))) :: ((Npos (XO (XO (XO (XO (XO XH)))))) :: ((Npos (XO (XO
    (XO (XO (XO XH)))))) :: ((Npos (XO (XO (XO (XO (XO XH)))))) :: ((Npos (XO
    (XO (XI (XI (XO (XI XH))))))) :: ((Npos (XI (XI (XI (XI (XO (XI
    XH))))))) :: ((Npos (XI (XI (XO (XO (XO (XI XH))))))) :: ((Npos (XI (XO
    (XO (XO (XO (XI XH))))))) :: ((Npos (XO (XO (XI (XI (XO (XI
    XH))))))) :: ((Npos (XO (XO (XO (XO (XO XH)))))) :: ((Npos (XI (XI (XI
    (XI (XI (XO XH))))))) :: ((Npos (XI (XI (XI (XI (XI (XO
    XH))))))) :: ((Npos (XI (XI (XO (XO (XI (XI XH))))))) :: ((Npos (XI (XI
    (XO (XO (XO (XI XH))))))) :: ((Npos (XO (XI (XO (XO (XI (XI
    XH))))))) :: ((Npos (XI (XO (XI (XO (XI (XI XH))))))) :: ((Npos (XO (XO
    (XI (XO (XI (XI XH))))))) :: ((Npos (XI (XI (XI (XI (XI (XO
    XH))))))) :: ((Npos (XI (XO (XI (XO (XO (XI XH))))))) :: ((Npos (XO (XO
    (XO (XI (XI (XI XH))))))) :: ((Npos (XI (XO (XO (XI (XO (XI
    XH))))))) :: ((Npos (XO (XO (XI (XO (XI (XI XH))))))) :: ((Npos (XI (XI
    (XI (XI (XI (XO XH))))))) :: ((Npos (XI (XI (XO (XO (XO (XI
    XH))))))) :: ((Npos (XI (XI (XI (XI (XO (XI XH))))))) :: ((Npos (XO (XO
    (XI (XO (XO (XI XH))))))) :: ((Npos (XI (XO (XI (XO (XO (XI
    XH))))))) :: ((Npos (XI (XO (XI (XI (XI XH)))))) :: ((Npos (XO (XO (XI
    (XO (XO XH)))))) :: ((Npos (XI (XI (XI (XI (XI XH)))))) :: ((Npos (XO (XI
    (XO XH)))) :: ((Npos (XO (XI (XO XH)))) :: ((Npos (XO (XO (XO (XO (XO
    XH)))))) :: ((Npos (XO (XO (XO (XO (XO XH)))))) :: ((Npos (XO (XO (XO (XO
    (XO XH)))))) :: ((Npos (XO (XO (XO (XO (XO XH)))))) :: ((Npos (XI (XI (XO
    (XO (XO XH)))))) :: ((Npos (XO (XO (XO (XO (XO XH)))))) :: ((Npos (XO (XO
    (XI (XO (XO (XI XH))))))) :: ((Npos (XI (XI (XI (XI (XO (XI
    XH))))))) :: ((Npos (XO (XO (XO (XO (XO XH)))))) :: ((Npos (XO (XI (XI
    (XI (XO (XI XH))))))) :: ((Npos (XI (XI (XI (XI (XO (XI
    XH))))))) :: ((Npos (XO (XO (XI (XO (XI (XI XH))))))) :: ((Npos (XO (XO
    (XO (XO (XO XH)))))) :: ((Npos (XO (XO (XO (XO (XI (XI
    XH))))))) :: ((Npos (XI (XO (XI (XO (XO (XI XH))))))) :: ((Npos (XO (XI
    (XO (XO (XI (XI XH))))))) :: ((Npos (XI (XI (XO (XO (XI (XI
    XH))))))) :: ((Npos (XI (XO (XO (XI (XO (XI XH))))))) :: ((Npos (XI (XI
    (XO (XO (XI (XI XH))))))) :: ((Npos (XO (XO (XI (XO (XI (XI
    XH))))))) :: ((Npos (XO (XO (XO (XO (XO XH)))))) :: ((Npos (XO (XO (XI
    (XO (XI (XI XH))))))) :: ((Npos (XO (XO (XO (XI (XO (XI
    XH))))))) :: ((Npos (XI (XO (XO (XI (XO (XI XH))))))) :: ((Npos (XI (XI
    (XO (XO (XI (XI XH))))))) :: ((Npos (XO (XO (XO (XO (XO
    XH)))))) :: ((Npos (XO (XO (XI (XO (XI (XI XH))))))) :: ((Npos (XO (XI
    (XO (XO (XI (XI XH))))))) :: ((Npos (XI (XO (XO (XO (XO (XI
    XH))))))) :: ((Npos (XO (XO (XO (XO (XI (XI XH))))))) :: ((Npos (XO (XI
    (XO XH)))) :: ((Npos (XO (XO (XO (XO (XO XH)))))) :: ((Npos (XO (XO (XO
    (XO (XO XH)))))) :: ((Npos (XO (XO (XO (XO (XO XH)))))) :: ((Npos (XO (XO
    (XO (XO (XO XH)))))) :: ((Npos (XI (XO (XI (XO (XI (XI
    XH))))))) :: ((Npos (XO (XI (XI (XI (XO (XI XH))))))) :: ((Npos (XI (XI
    (XO (XO (XI (XI XH))))))) :: ((Npos (XI (XO (XI (XO (XO (XI
    XH))))))) :: ((Npos (XO (XO (XI (XO (XI (XI XH))))))) :: ((Npos (XO (XO
    (XO (XO (XO XH)))))) :: ((Npos (XI (XO (XI (XI (XO XH)))))) :: ((Npos (XO
    (XI (XI (XO (XO (XI XH))))))) :: ((Npos (XO (XO (XO (XO (XO
    XH)))))) :: ((Npos (XI (XI (XI (XI (XI (XO XH))))))) :: ((Npos (XI (XI
    (XI (XI (XI (XO XH))))))) :: ((Npos (XI (XI (XO (XO (XI (XI
    XH))))))) :: ((Npos (XI (XI (XO (XO (XO (XI XH))))))) :: ((Npos (XO (XI
    (XO (XO (XI (XI XH))))))) :: ((Npos (XI (XO (XI (XO (XI (XI
    XH))))))) :: ((Npos (XO (XO (XI (XO (XI (XI XH))))))) :: ((Npos (XI (XI
    (XI (XI (XI (XO XH))))))) :: ((Npos (XO (XO (XO (XO (XI (XI
    XH))))))) :: ((Npos (XI (XO (XI (XO (XO (XI XH))))))) :: ((Npos (XO (XI
    (XO (XO (XI (XI XH))))))) :: ((Npos (XI (XI (XO (XO (XI (XI
    XH))))))) :: ((Npos (XI (XO (XO (XI (XO (XI XH))))))) :: ((Npos (XI (XI
    (XO (XO (XI (XI XH))))))) :: ((Npos (XO (XO (XI (XO (XI (XI
    XH))))))) :: ((Npos (XI (XI (XI (XI (XI (XO XH))))))) :: ((Npos (XI (XI
    (XO (XO (XI (XI XH))))))) :: ((Npos (XO (XO (XI (XO (XI (XI
    XH))))))) :: ((Npos (XI (XO (XO (XO (XO (XI XH))))))) :: ((Npos (XO (XO
    (XI (XO (XI (XI XH))))))) :: ((Npos (XI (XO (XI (XO (XO (XI
    XH))))))) :: ((Npos (XO (XI (XO XH)))) :: ((Npos (XO (XI (XO
    XH)))) :: ((Npos (XO (XO (XO (XO (XO XH)))))) :: ((Npos (XO (XO (XO (XO
    (XO XH)))))) :: ((Npos (XO (XO (XO (XO (XO XH)))))) :: ((Npos (XO (XO (XO
    (XO (XO XH)))))) :: ((Npos (XI (XI (XO (XO (XO XH)))))) :: ((Npos (XO (XO
    (XO (XO (XO XH)))))) :: ((Npos (XI (XO (XI (XO (XO (XI
    XH))))))) :: ((Npos (XO (XI (XI (XI (XO (XI XH))))))) :: ((Npos (XI (XI
    (XO (XO (XI (XI XH))))))) :: ((Npos (XI (XO (XI (XO (XI (XI
    XH))))))) :: ((Npos (XO (XI (XO (XO (XI (XI XH))))))) :: ((Npos (XI (XO
    (XI (XO (XO (XI XH))))))) :: ((Npos (XO (XO (XO (XO (XO
    XH)))))) :: ((Npos (XO (XO (XI (XO (XI (XI XH))))))) :: ((Npos (XO (XO
    (XO (XI (XO (XI XH))))))) :: ((Npos (XI (XO (XI (XO (XO (XI
    XH))))))) :: ((Npos (XO (XO (XO (XO (XO XH)))))) :: ((Npos (XI (XI (XO
    (XO (XI (XI XH))))))) :: ((Npos (XO (XO (XI (XO (XI (XI
    XH))))))) :: ((Npos (XI (XO (XO (XO (XO (XI XH))))))) :: ((Npos (XO (XO
    (XI (XO (XI (XI XH))))))) :: ((Npos (XI (XO (XI (XO (XO (XI
    XH))))))) :: ((Npos (XO (XO (XO (XO (XO XH)))))) :: ((Npos (XO (XO (XI
    (XO (XO (XI XH))))))) :: ((Npos (XI (XO (XO (XI (XO (XI
    XH))))))) :: ((Npos (XO (XI (XO (XO (XI (XI XH))))))) :: ((Npos (XI (XO
    (XI (XO (XO (XI XH))))))) :: ((Npos (XI (XI (XO (XO (XO (XI
    XH))))))) :: ((Npos (XO (XO (XI (XO (XI (XI XH))))))) :: ((Npos (XI (XI
    (XI (XI (XO (XI XH))))))) :: ((Npos (XO (XI (XO (XO (XI (XI
    XH))))))) :: ((Npos (XI (XO (XO (XI (XI (XI XH))))))) :: ((Npos (XO (XO
    (XO (XO (XO XH)))))) :: ((Npos (XI (XO (XI (XO (XO (XI
    XH))))))) :: ((Npos (XO (XO (XO (XI (XI (XI XH))))))) :: ((Npos (XI (XO
    (XO (XI (XO (XI XH))))))) :: ((Npos (XI (XI (XO (XO (XI (XI
    XH))))))) :: ((Npos (XO (XO (XI (XO (XI (XI XH))))))) :: ((Npos (XI (XI
    (XO (XO (XI (XI XH))))))) :: ((Npos (XO (XI (XO XH)))) :: ((Npos (XO (XO
    (XO (XO (XO XH)))))) :: ((Npos (XO (XO (XO (XO (XO XH)))))) :: ((Npos (XO
    (XO (XO (XO (XO XH)))))) :: ((Npos (XO (XO (XO (XO (XO XH)))))) :: ((Npos
    (XI (XO (XI (XI (XO (XI XH))))))) :: ((Npos (XI (XI (XO (XI (XO (XI
    XH))))))) :: ((Npos (XO (XO (XI (XO (XO (XI XH))))))) :: ((Npos (XI (XO
    (XO (XI (XO (XI XH))))))) :: ((Npos (XO (XI (XO (XO (XI (XI
    XH))))))) :: ((Npos (XO (XO (XO (XO (XO XH)))))) :: ((Npos (XI (XO (XI
    (XI (XO XH)))))) :: ((Npos (XO (XO (XO (XO (XI (XI XH))))))) :: ((Npos
    (XO (XO (XO (XO (XO XH)))))) :: ((Npos (XO (XI (XO (XO (XO
    XH)))))) :: ((Npos (XO (XO (XI (XO (XO XH)))))) :: ((Npos (XI (XI (XI (XI
    (XI (XO XH))))))) :: ((Npos (XI (XI (XI (XI (XI (XO XH))))))) :: ((Npos
    (XI (XI (XO (XO (XI (XO XH))))))) :: ((Npos (XI (XI (XO (XO (XO (XO
    XH))))))) :: ((Npos (XO (XI (XO (XO (XI (XO XH))))))) :: ((Npos (XI (XO
    (XI (XO (XI (XO XH))))))) :: ((Npos (XO (XO (XI (XO (XI (XO
    XH))))))) :: ((Npos (XI (XI (XI (XI (XI (XO XH))))))) :: ((Npos (XO (XO
    (XI (XO (XI (XO XH))))))) :: ((Npos (XI (XO (XI (XO (XO (XO
    XH))))))) :: ((Npos (XI (XO (XI (XI (XO (XO XH))))))) :: ((Npos (XO (XO
    (XO (XO (XI (XO XH))))))) :: ((Npos (XI (XI (XI (XI (XI (XO
    XH))))))) :: ((Npos (XI (XI (XO (XO (XI (XO XH))))))) :: ((Npos (XO (XO
    (XI (XO (XI (XO XH))))))) :: ((Npos (XI (XO (XO (XO (XO (XO
    XH))))))) :: ((Npos (XO (XO (XI (XO (XI (XO XH))))))) :: ((Npos (XI (XO
    (XI (XO (XO (XO XH))))))) :: ((Npos (XI (XI (XI (XI (XI (XO
    XH))))))) :: ((Npos (XO (XO (XO (XO (XI (XO XH))))))) :: ((Npos (XI (XO
    (XO (XO (XO (XO XH))))))) :: ((Npos (XO (XO (XI (XO (XI (XO
    XH))))))) :: ((Npos (XO (XO (XO (XI (XO (XO XH))))))) :: ((Npos (XO (XI
    (XO (XO (XO XH)))))) :: ((Npos (XO (XI (XO XH)))) :: ((Npos (XO (XI (XO
    XH)))) :: ((Npos (XO (XO (XO (XO (XO XH)))))) :: ((Npos (XO (XO (XO (XO
    (XO XH)))))) :: ((Npos (XO (XO (XO (XO (XO XH)))))) :: ((Npos (XO (XO (XO
    (XO (XO XH)))))) :: ((Npos (XI (XI (XO (XO (XO XH)))))) :: ((Npos (XO (XO
    (XO (XO (XO XH)))))) :: ((Npos (XO (XI (XI (XO (XO (XI
    XH))))))) :: ((Npos (XI (XI (XI (XI (XO (XI XH))))))) :: ((Npos (XO (XI
    (XO (XO (XI (XI XH))))))) :: ((Npos (XO (XO (XO (XO (XO
    XH)))))) :: ((Npos (XO (XI (XO (XO (XO (XI XH))))))) :: ((Npos (XI (XO
    (XO (XO (XO (XI XH))))))) :: ((Npos (XI (XI (XO (XO (XI (XI
    XH))))))) :: ((Npos (XO (XO (XO (XI (XO (XI XH))))))) :: ((Npos (XO (XO
    (XO (XO (XO XH)))))) :: ((Npos (XO (XO (XO (XI (XO XH)))))) :: ((Npos (XO
    (XO (XI (XI (XI XH)))))) :: ((Npos (XO (XO (XI (XO (XI XH)))))) :: ((Npos
    (XI (XO (XO (XI (XO XH)))))) :: ((Npos (XO (XI (XO (XI (XI
    XH)))))) :: ((Npos (XO (XO (XO (XO (XO XH)))))) :: ((Npos (XO (XI (XO (XO
    (XO XH)))))) :: ((Npos (XO (XO (XI (XO (XO (XI XH))))))) :: ((Npos (XI
    (XO (XI (XO (XO (XI XH))))))) :: ((Npos (XI (XI (XO (XO (XO (XI
    XH))))))) :: ((Npos (XO (XO (XI (XI (XO (XI XH))))))) :: ((Npos (XI (XO
    (XO (XO (XO (XI XH))))))) :: ((Npos (XO (XI (XO (XO (XI (XI
    XH))))))) :: ((Npos (XI (XO (XI (XO (XO (XI XH))))))) :: ((Npos (XO (XO
    (XO (XO (XO XH)))))) :: ((Npos (XI (XO (XI (XI (XO XH)))))) :: ((Npos (XO
    (XO (XO (XO (XI (XI XH))))))) :: ((Npos (XO (XI (XO (XO (XO
    XH)))))) :: ((Npos (XO (XO (XO (XO (XO XH)))))) :: ((Npos (XO (XI (XO (XO
    (XI (XI XH))))))) :: ((Npos (XI (XO (XI (XO (XO (XI XH))))))) :: ((Npos
    (XO (XO (XI (XO (XI (XI XH))))))) :: ((Npos (XI (XO (XI (XO (XI (XI
    XH))))))) :: ((Npos (XO (XI (XO (XO (XI (XI XH))))))) :: ((Npos (XO (XI
    (XI (XI (XO (XI XH))))))) :: ((Npos (XI (XI (XO (XO (XI (XI
    XH))))))) :: ((Npos (XO (XO (XO (XO (XO XH)))))) :: ((Npos (XI (XO (XI
    (XO (XO (XI XH))))))) :: ((Npos (XO (XO (XO (XI (XI (XI
    XH))))))) :: ((Npos (XO (XO (XO (XO (XI (XI XH))))))) :: ((Npos (XO (XI
    (XO (XO (XI (XI XH))))))) :: ((Npos (XI (XO (XI (XO (XO (XI
    XH))))))) :: ((Npos (XI (XI (XO (XO (XI (XI XH))))))) :: ((Npos (XI (XI
    (XO (XO (XI (XI XH))))))) :: ((Npos (XI (XO (XO (XI (XO (XI
    XH))))))) :: ((Npos (XI (XI (XI (XI (XO (XI XH))))))) :: ((Npos (XO (XI
    (XI (XI (XO (XI XH))))))) :: ((Npos (XI (XI (XO (XO (XI (XI
    XH))))))) :: ((Npos (XO (XO (XO (XO (XO XH)))))) :: ((Npos (XI (XI (XI
    (XI (XO (XI XH))))))) :: ((Npos (XO (XI (XI (XO (XO (XI
    XH))))))) :: ((Npos (XO (XO (XO (XO (XO XH)))))) :: ((Npos (XO (XO (XI
    (XO (XI (XI XH))))))) :: ((Npos (XO (XO (XO (XI (XO (XI
    XH))))))) :: ((Npos (XI (XO (XI (XO (XO (XI XH))))))) :: ((Npos (XO (XO
    (XO (XO (XO XH)))))) :: ((Npos (XO (XI (XI (XO (XO (XI
    XH))))))) :: ((Npos (XI (XI (XI (XI (XO (XI XH))))))) :: ((Npos (XO (XI
    (XO (XO (XI (XI XH))))))) :: ((Npos (XI (XO (XI (XI (XO (XI
    XH))))))) :: ((Npos (XO (XO (XO (XO (XO XH)))))) :: ((Npos (XO (XI (XO
    (XO (XO XH)))))) :: ((Npos (XO (XI (XI (XO (XI (XO XH))))))) :: ((Npos
    (XI (XO (XO (XO (XO (XO XH))))))) :: ((Npos (XO (XI (XO (XO (XI (XO
    XH))))))) :: ((Npos (XO (XI (XI (XI (XO (XO XH))))))) :: ((Npos (XI (XO
    (XO (XO (XO (XO XH))))))) :: ((Npos (XI (XO (XI (XI (XO (XO
    XH))))))) :: ((Npos (XI (XO (XI (XO (XO (XO XH))))))) :: ((Npos (XI (XO
    (XI (XI (XI XH)))))) :: ((Npos (XO (XI (XI (XO (XI (XO
    XH))))))) :: ((Npos (XI (XO (XO (XO (XO (XO XH))))))) :: ((Npos (XO (XI
    (XO (XO (XI (XO XH))))))) :: ((Npos (XO (XI (XI (XO (XI (XO
    XH))))))) :: ((Npos (XI (XO (XO (XO (XO (XO XH))))))) :: ((Npos (XO (XO
    (XI (XI (XO (XO XH))))))) :: ((Npos (XI (XO (XI (XO (XI (XO
    XH))))))) :: ((Npos (XI (XO (XI (XO (XO (XO XH))))))) :: ((Npos (XO (XI
    (XO (XO (XO XH)))))) :: ((Npos (XO (XO (XO (XO (XO XH)))))) :: ((Npos (XI
    (XO (XO (XO (XO (XI XH))))))) :: ((Npos (XI (XI (XO (XO (XI (XI
    XH))))))) :: ((Npos (XO (XO (XO (XO (XO XH)))))) :: ((Npos (XI (XI (XI
    (XI (XO (XI XH))))))) :: ((Npos (XO (XO (XO (XO (XI (XI
    XH))))))) :: ((Npos (XO (XO (XO (XO (XI (XI XH))))))) :: ((Npos (XI (XI
    (XI (XI (XO (XI XH))))))) :: ((Npos (XI (XI (XO (XO (XI (XI
    XH))))))) :: ((Npos (XI (XO (XI (XO (XO (XI XH))))))) :: ((Npos (XO (XO
    (XI (XO (XO (XI XH))))))) :: ((Npos (XO (XO (XO (XO (XO
    XH)))))) :: ((Npos (XO (XO (XI (XO (XI (XI XH))))))) :: ((Npos (XI (XI
    (XI (XI (XO (XI XH))))))) :: ((Npos (XO (XI (XO XH)))) :: ((Npos (XO (XO
    (XO (XO (XO XH)))))) :: ((Npos (XO (XO (XO (XO (XO XH)))))) :: ((Npos (XO
    (XO (XO (XO (XO XH)))))) :: ((Npos (XO (XO (XO (XO (XO XH)))))) :: ((Npos
    (XI (XI (XO (XO (XO XH)))))) :: ((Npos (XO (XO (XO (XO (XO
    XH)))))) :: ((Npos (XO (XO (XI (XO (XI (XI XH))))))) :: ((Npos (XO (XO
    (XO (XI (XO (XI XH))))))) :: ((Npos (XI (XO (XI (XO (XO (XI
    XH))))))) :: ((Npos (XO (XO (XO (XO (XO XH)))))) :: ((Npos (XO (XO (XI
    (XI (XO (XI XH))))))) :: ((Npos (XI (XI (XI (XI (XO (XI
    XH))))))) :: ((Npos (XO (XI (XI (XI (XO (XI XH))))))) :: ((Npos (XI (XI
    (XI (XO (XO (XI XH))))))) :: ((Npos (XI (XO (XI (XO (XO (XI
    XH))))))) :: ((Npos (XO (XI (XO (XO (XI (XI XH))))))) :: ((Npos (XO (XO
    (XO (XO (XO XH)))))) :: ((Npos (XO (XI (XI (XO (XO (XI
    XH))))))) :: ((Npos (XI (XI (XI (XI (XO (XI XH))))))) :: ((Npos (XO (XI
    (XO (XO (XI (XI XH))))))) :: ((Npos (XI (XO (XI (XI (XO (XI
    XH))))))) :: ((Npos (XO (XO (XO (XO (XO XH)))))) :: ((Npos (XO (XI (XO
    (XO (XO XH)))))) :: ((Npos (XO (XO (XI (XO (XO (XI XH))))))) :: ((Npos
    (XI (XO (XI (XO (XO (XI XH))))))) :: ((Npos (XI (XI (XO (XO (XO (XI
    XH))))))) :: ((Npos (XO (XO (XI (XI (XO (XI XH))))))) :: ((Npos (XI (XO
    (XO (XO (XO (XI XH))))))) :: ((Npos (XO (XI (XO (XO (XI (XI
    XH))))))) :: ((Npos (XI (XO (XI (XO (XO (XI XH))))))) :: ((Npos (XO (XO
    (XO (XO (XO XH)))))) :: ((Npos (XI (XO (XI (XI (XO XH)))))) :: ((Npos (XO
    (XO (XO (XI (XI (XI XH))))))) :: ((Npos (XO (XO (XO (XO (XO
    XH)))))) :: ((Npos (XO (XI (XI (XO (XI (XO XH))))))) :: ((Npos (XI (XO
    (XO (XO (XO (XO XH))))))) :: ((Npos (XO (XI (XO (XO (XI (XO
    XH))))))) :: ((Npos (XO (XI (XI (XI (XO (XO XH))))))) :: ((Npos (XI (XO
    (XO (XO (XO (XO XH))))))) :: ((Npos (XI (XO (XI (XI (XO (XO
    XH))))))) :: ((Npos (XI (XO (XI (XO (XO (XO XH))))))) :: ((Npos (XI (XO
    (XI (XI (XI XH)))))) :: ((Npos (XO (XI (XI (XO (XI (XO
    XH))))))) :: ((Npos (XI (XO (XO (XO (XO (XO XH))))))) :: ((Npos (XO (XI
    (XO (XO (XI (XO XH))))))) :: ((Npos (XO (XI (XI (XO (XI (XO
    XH))))))) :: ((Npos (XI (XO (XO (XO (XO (XO XH))))))) :: ((Npos (XO (XO
    (XI (XI (XO (XO XH))))))) :: ((Npos (XI (XO (XI (XO (XI (XO
    XH))))))) :: ((Npos (XI (XO (XI (XO (XO (XO XH))))))) :: ((Npos (XO (XI
    (XO (XO (XO XH)))))) :: ((Npos (XO (XI (XI (XI (XO XH)))))) :: ((Npos (XO
    (XO (XO (XO (XO XH)))))) :: ((Npos (XO (XI (XO (XO (XI (XO
    XH))))))) :: ((Npos (XI (XO (XI (XO (XO (XI XH))))))) :: ((Npos (XI (XO
    (XI (XI (XO XH)))))) :: ((Npos (XI (XO (XO (XI (XO (XI
    XH))))))) :: ((Npos (XI (XO (XI (XI (XO (XI XH))))))) :: ((Npos (XO (XO
    (XO (XO (XI (XI XH))))))) :: ((Npos (XI (XI (XI (XI (XO (XI
    XH))))))) :: ((Npos (XO (XI (XO (XO (XI (XI XH))))))) :: ((Npos (XO (XO
    (XI (XO (XI (XI XH))))))) :: ((Npos (XI (XO (XO (XI (XO (XI
    XH))))))) :: ((Npos (XO (XI (XI (XI (XO (XI XH))))))) :: ((Npos (XI (XI
    (XI (XO (XO (XI XH))))))) :: ((Npos (XO (XO (XO (XO (XO
    XH)))))) :: ((Npos (XO (XO (XI (XO (XI (XI XH))))))) :: ((Npos (XO (XO
    (XO (XI (XO (XI XH))))))) :: ((Npos (XI (XO (XI (XO (XO (XI
    XH))))))) :: ((Npos (XI (XI (XO (XO (XI (XI XH))))))) :: ((Npos (XI (XO
    (XI (XO (XO (XI XH))))))) :: ((Npos (XO (XO (XO (XO (XO
    XH)))))) :: ((Npos (XI (XI (XO (XO (XI (XI XH))))))) :: ((Npos (XO (XO
    (XI (XO (XI (XI XH))))))) :: ((Npos (XI (XO (XO (XO (XO (XI
    XH))))))) :: ((Npos (XO (XO (XI (XO (XI (XI XH))))))) :: ((Npos (XI (XO
    (XI (XO (XO (XI XH))))))) :: ((Npos (XI (XO (XI (XI (XO (XI
    XH))))))) :: ((Npos (XI (XO (XI (XO (XO (XI XH))))))) :: ((Npos (XO (XI
    (XI (XI (XO (XI XH))))))) :: ((Npos (XO (XO (XI (XO (XI (XI
    XH))))))) :: ((Npos (XI (XI (XO (XO (XI (XI XH))))))) :: ((Npos (XO (XO
    (XO (XO (XO XH)))))) :: ((Npos (XI (XI (XI (XO (XI (XI
    XH))))))) :: ((Npos (XI (XI (XI (XI (XO (XI XH))))))) :: ((Npos (XO (XI
    (XO (XO (XI (XI XH))))))) :: ((Npos (XI (XI (XO (XI (XO (XI
    XH))))))) :: ((Npos (XI (XI (XO (XO (XI (XI XH))))))) :: ((Npos (XO (XO
    (XI (XI (XO XH)))))) :: ((Npos (XO (XO (XO (XO (XO XH)))))) :: ((Npos (XO
    (XI (XO (XO (XO (XI XH))))))) :: ((Npos (XI (XO (XI (XO (XI (XI
    XH))))))) :: ((Npos (XO (XO (XI (XO (XI (XI XH))))))) :: ((Npos (XO (XO
    (XO (XO (XO XH)))))) :: ((Npos (XO (XO (XI (XO (XI (XI
    XH))))))) :: ((Npos (XO (XO (XO (XI (XO (XI XH))))))) :: ((Npos (XI (XO
    (XI (XO (XO (XI XH))))))) :: ((Npos (XO (XI (XO XH)))) :: ((Npos (XO (XO
    (XO (XO (XO XH)))))) :: ((Npos (XO (XO (XO (XO (XO XH)))))) :: ((Npos (XO
    (XO (XO (XO (XO XH)))))) :: ((Npos (XO (XO (XO (XO (XO XH)))))) :: ((Npos
    (XI (XI (XO (XO (XO XH)))))) :: ((Npos (XO (XO (XO (XO (XO
    XH)))))) :: ((Npos (XO (XI (XI (XO (XI (XI XH))))))) :: ((Npos (XI (XO
    (XO (XO (XO (XI XH))))))) :: ((Npos (XO (XI (XO (XO (XI (XI
    XH))))))) :: ((Npos (XI (XO (XO (XI (XO (XI XH))))))) :: ((Npos (XI (XO
    (XO (XO (XO (XI XH))))))) :: ((Npos (XO (XI (XO (XO (XO (XI
    XH))))))) :: ((Npos (XO (XO (XI (XI (XO (XI XH))))))) :: ((Npos (XI (XO
    (XI (XO (XO (XI XH))))))) :: ((Npos (XI (XI (XO (XO (XI (XI
    XH))))))) :: ((Npos (XO (XO (XO (XO (XO XH)))))) :: ((Npos (XI (XO (XO
    (XO (XO (XI XH))))))) :: ((Npos (XO (XI (XO (XO (XI (XI
    XH))))))) :: ((Npos (XI (XO (XI (XO (XO (XI XH))))))) :: ((Npos (XO (XO
    (XO (XO (XO XH)))))) :: ((Npos (XO (XI (XI (XI (XO (XI
    XH))))))) :: ((Npos (XI (XI (XI (XI (XO (XI XH))))))) :: ((Npos (XO (XO
    (XI (XO (XI (XI XH))))))) :: ((Npos (XO (XO (XO (XO (XO
    XH)))))) :: ((Npos (XI (XO (XI (XO (XO (XI XH))))))) :: ((Npos (XO (XO
    (XO (XI (XI (XI XH))))))) :: ((Npos (XO (XO (XO (XO (XI (XI
    XH))))))) :: ((Npos (XI (XI (XI (XI (XO (XI XH))))))) :: ((Npos (XO (XI
    (XO (XO (XI (XI XH))))))) :: ((Npos (XO (XO (XI (XO (XI (XI
    XH))))))) :: ((Npos (XI (XO (XI (XO (XO (XI XH))))))) :: ((Npos (XO (XO
    (XI (XO (XO (XI XH))))))) :: ((Npos (XO (XO (XO (XO (XO
    XH)))))) :: ((Npos (XO (XO (XI (XO (XI (XI XH))))))) :: ((Npos (XI (XI
    (XI (XI (XO (XI XH))))))) :: ((Npos (XO (XO (XO (XO (XO
    XH)))))) :: ((Npos (XO (XO (XI (XO (XI (XI XH))))))) :: ((Npos (XO (XO
    (XO (XI (XO (XI XH))))))) :: ((Npos (XI (XO (XI (XO (XO (XI
    XH))))))) :: ((Npos (XO (XO (XO (XO (XO XH)))))) :: ((Npos (XI (XO (XI
    (XO (XO (XI XH))))))) :: ((Npos (XO (XI (XI (XI (XO (XI
    XH))))))) :: ((Npos (XO (XI (XI (XO (XI (XI XH))))))) :: ((Npos (XI (XO
    (XO (XI (XO (XI XH))))))) :: ((Npos (XO (XI (XO (XO (XI (XI
    XH))))))) :: ((Npos (XI (XI (XI (XI (XO (XI XH))))))) :: ((Npos (XO (XI
    (XI (XI (XO (XI XH))))))) :: ((Npos (XI (XO (XI (XI (XO (XI
    XH))))))) :: ((Npos (XI (XO (XI (XO (XO (XI XH))))))) :: ((Npos (XO (XI
    (XI (XI (XO (XI XH))))))) :: ((Npos (XO (XO (XI (XO (XI (XI
    XH))))))) :: ((Npos (XO (XO (XI (XI (XO XH)))))) :: ((Npos (XO (XO (XO
    (XO (XO XH)))))) :: ((Npos (XI (XI (XI (XO (XI (XI XH))))))) :: ((Npos
    (XO (XO (XO (XI (XO (XI XH))))))) :: ((Npos (XI (XO (XO (XI (XO (XI
    XH))))))) :: ((Npos (XI (XI (XO (XO (XO (XI XH))))))) :: ((Npos (XO (XO
    (XO (XI (XO (XI XH))))))) :: ((Npos (XO (XO (XO (XO (XO
    XH)))))) :: ((Npos (XI (XI (XO (XO (XO (XI XH))))))) :: ((Npos (XO (XO
    (XO (XI (XO (XI XH))))))) :: ((Npos (XI (XO (XO (XO (XO (XI
    XH))))))) :: ((Npos (XO (XI (XI (XI (XO (XI XH))))))) :: ((Npos (XI (XI
    (XI (XO (XO (XI XH))))))) :: ((Npos (XI (XO (XI (XO (XO (XI
    XH))))))) :: ((Npos (XI (XI (XO (XO (XI (XI XH))))))) :: ((Npos (XO (XO
    (XO (XO (XO XH)))))) :: ((Npos (XO (XO (XI (XO (XI (XI
    XH))))))) :: ((Npos (XO (XO (XO (XI (XO (XI XH))))))) :: ((Npos (XI (XO
    (XI (XO (XO (XI XH))))))) :: ((Npos (XO (XO (XO (XO (XO
    XH)))))) :: ((Npos (XO (XI (XO (XO (XO (XI XH))))))) :: ((Npos (XI (XO
    (XI (XO (XO (XI XH))))))) :: ((Npos (XO (XO (XO (XI (XO (XI
    XH))))))) :: ((Npos (XI (XO (XO (XO (XO (XI XH))))))) :: ((Npos (XO (XI
    (XI (XO (XI (XI XH))))))) :: ((Npos (XI (XO (XO (XI (XO (XI
    XH))))))) :: ((Npos (XI (XI (XI (XI (XO (XI XH))))))) :: ((Npos (XO (XI
    (XO (XO (XI (XI XH))))))) :: ((Npos (XO (XO (XO (XO (XO
    XH)))))) :: ((Npos (XI (XI (XI (XI (XO (XI XH))))))) :: ((Npos (XO (XI
    (XI (XO (XO (XI XH))))))) :: ((Npos (XO (XO (XO (XO (XO
    XH)))))) :: ((Npos (XI (XI (XO (XO (XI (XO XH))))))) :: ((Npos (XI (XI
    (XO (XO (XO (XI XH))))))) :: ((Npos (XO (XI (XO (XO (XI (XI
    XH))))))) :: ((Npos (XI (XO (XI (XO (XI (XI XH))))))) :: ((Npos (XO (XO
    (XI (XO (XI (XI XH))))))) :: ((Npos (XO (XI (XI (XI (XO
    XH)))))) :: ((Npos (XO (XO (XO (XO (XO XH)))))) :: ((Npos (XO (XO (XI (XO
    (XI (XO XH))))))) :: ((Npos (XO (XO (XO (XI (XO (XI XH))))))) :: ((Npos
    (XI (XO (XI (XO (XO (XI XH))))))) :: ((Npos (XO (XI (XO XH)))) :: ((Npos
    (XO (XO (XO (XO (XO XH)))))) :: ((Npos (XO (XO (XO (XO (XO
    XH)))))) :: ((Npos (XO (XO (XO (XO (XO XH)))))) :: ((Npos (XO (XO (XO (XO
    (XO XH)))))) :: ((Npos (XI (XI (XO (XO (XO XH)))))) :: ((Npos (XO (XO (XO
    (XO (XO XH)))))) :: ((Npos (XO (XI (XI (XO (XO (XI XH))))))) :: ((Npos
    (XI (XI (XI (XI (XO (XI XH))))))) :: ((Npos (XO (XO (XI (XI (XO (XI
    XH))))))) :: ((Npos (XO (XO (XI (XI (XO (XI XH))))))) :: ((Npos (XI (XI
    (XI (XI (XO (XI XH))))))) :: ((Npos (XI (XI (XI (XO (XI (XI
    XH))))))) :: ((Npos (XI (XO (XO (XI (XO (XI XH))))))) :: ((Npos (XO (XI
    (XI (XI (XO (XI XH))))))) :: ((Npos (XI (XI (XI (XO (XO (XI
    XH))))))) :: ((Npos (XO (XO (XO (XO (XO XH)))))) :: ((Npos (XI (XO (XI
    (XO (XO (XI XH))))))) :: ((Npos (XO (XI (XI (XI (XO (XI
    XH))))))) :: ((Npos (XI (XI (XO (XO (XI (XI XH))))))) :: ((Npos (XI (XO
    (XI (XO (XI (XI XH))))))) :: ((Npos (XO (XI (XO (XO (XI (XI
    XH))))))) :: ((Npos (XI (XO (XI (XO (XO (XI XH))))))) :: ((Npos (XI (XI
    (XO (XO (XI (XI XH))))))) :: ((Npos (XO (XO (XO (XO (XO
    XH)))))) :: ((Npos (XO (XO (XI (XO (XI (XI XH))))))) :: ((Npos (XO (XO
    (XO (XI (XO (XI XH))))))) :: ((Npos (XI (XO (XI (XO (XO (XI
    XH))))))) :: ((Npos (XO (XO (XO (XO (XO XH)))))) :: ((Npos (XO (XI (XO
    (XO (XO XH)))))) :: ((Npos (XO (XO (XI (XO (XO (XI XH))))))) :: ((Npos
    (XI (XO (XI (XO (XO (XI XH))))))) :: ((Npos (XI (XI (XO (XO (XO (XI
    XH))))))) :: ((Npos (XO (XO (XI (XI (XO (XI XH))))))) :: ((Npos (XI (XO
    (XO (XO (XO (XI XH))))))) :: ((Npos (XO (XI (XO (XO (XI (XI
    XH))))))) :: ((Npos (XI (XO (XI (XO (XO (XI XH))))))) :: ((Npos (XO (XO
    (XO (XO (XO XH)))))) :: ((Npos (XI (XO (XI (XI (XO XH)))))) :: ((Npos (XO
    (XO (XO (XI (XI (XI XH))))))) :: ((Npos (XO (XI (XO (XO (XO
    XH)))))) :: ((Npos (XI (XO (XI (XI (XO XH)))))) :: ((Npos (XO (XI (XI (XO
    (XO (XI XH))))))) :: ((Npos (XI (XI (XI (XI (XO (XI XH))))))) :: ((Npos
    (XO (XI (XO (XO (XI (XI XH))))))) :: ((Npos (XI (XO (XI (XI (XO (XI
    XH))))))) :: ((Npos (XO (XO (XO (XO (XO XH)))))) :: ((Npos (XI (XO (XI
    (XO (XO (XI XH))))))) :: ((Npos (XO (XO (XO (XI (XI (XI
    XH))))))) :: ((Npos (XO (XO (XO (XO (XI (XI XH))))))) :: ((Npos (XI (XI
    (XI (XI (XO (XI XH))))))) :: ((Npos (XO (XI (XO (XO (XI (XI
    XH))))))) :: ((Npos (XO (XO (XI (XO (XI (XI XH))))))) :: ((Npos (XO (XO
    (XO (XO (XO XH)))))) :: ((Npos (XI (XI (XI (XI (XO (XI
    XH))))))) :: ((Npos (XO (XI (XI (XO (XO (XI XH))))))) :: ((Npos (XO (XO
    (XO (XO (XO XH)))))) :: ((Npos (XO (XI (XI (XO (XI (XI
    XH))))))) :: ((Npos (XI (XO (XO (XO (XO (XI XH))))))) :: ((Npos (XO (XI
    (XO (XO (XI (XI XH))))))) :: ((Npos (XI (XO (XO (XI (XO (XI
    XH))))))) :: ((Npos (XI (XO (XO (XO (XO (XI XH))))))) :: ((Npos (XO (XI
    (XO (XO (XO (XI XH))))))) :: ((Npos (XO (XO (XI (XI (XO (XI
    XH))))))) :: ((Npos (XI (XO (XI (XO (XO (XI XH))))))) :: ((Npos (XI (XI
    (XO (XO (XI (XI XH))))))) :: ((Npos (XO (XO (XO (XO (XO
    XH)))))) :: ((Npos (XI (XO (XO (XO (XO (XI XH))))))) :: ((Npos (XO (XI
    (XI (XI (XO (XI XH))))))) :: ((Npos (XO (XO (XI (XO (XO (XI
    XH))))))) :: ((Npos (XO (XO (XO (XO (XO XH)))))) :: ((Npos (XI (XO (XO
    (XO (XO (XI XH))))))) :: ((Npos (XO (XO (XI (XI (XO (XI
    XH))))))) :: ((Npos (XI (XO (XO (XI (XO (XI XH))))))) :: ((Npos (XI (XI
    (XI (XO (XO (XI XH))))))) :: ((Npos (XO (XI (XI (XI (XO (XI
    XH))))))) :: ((Npos (XI (XI (XO (XO (XI (XI XH))))))) :: ((Npos (XO (XO
    (XO (XO (XO XH)))))) :: ((Npos (XO (XO (XI (XO (XI (XI
    XH))))))) :: ((Npos (XO (XO (XO (XI (XO (XI XH))))))) :: ((Npos (XI (XO
    (XI (XO (XO (XI XH))))))) :: ((Npos (XO (XO (XO (XO (XO
    XH)))))) :: ((Npos (XO (XI (XO (XO (XO (XI XH))))))) :: ((Npos (XI (XO
    (XI (XO (XO (XI XH))))))) :: ((Npos (XO (XO (XO (XI (XO (XI
    XH))))))) :: ((Npos (XI (XO (XO (XO (XO (XI XH))))))) :: ((Npos (XO (XI
    (XI (XO (XI (XI XH))))))) :: ((Npos (XI (XO (XO (XI (XO (XI
    XH))))))) :: ((Npos (XI (XI (XI (XI (XO (XI XH))))))) :: ((Npos (XO (XI
    (XO (XO (XI (XI XH))))))) :: ((Npos (XO (XO (XO (XO (XO
    XH)))))) :: ((Npos (XI (XO (XO (XO (XO (XI XH))))))) :: ((Npos (XI (XI
    (XO (XO (XO (XI XH))))))) :: ((Npos (XI (XI (XO (XO (XO (XI
    XH))))))) :: ((Npos (XO (XI (XO (XO (XI (XI XH))))))) :: ((Npos (XI (XI
    (XI (XI (XO (XI XH))))))) :: ((Npos (XI (XI (XO (XO (XI (XI
    XH))))))) :: ((Npos (XI (XI (XO (XO (XI (XI XH))))))) :: ((Npos (XO (XI
    (XO XH)))) :: ((Npos (XO (XO (XO (XO (XO XH)))))) :: ((Npos (XO (XO (XO
    (XO (XO XH)))))) :: ((Npos (XO (XO (XO (XO (XO XH)))))) :: ((Npos (XO (XO
    (XO (XO (XO XH)))))) :: ((Npos (XI (XI (XO (XO (XO XH)))))) :: ((Npos (XO
    (XO (XO (XO (XO XH)))))) :: ((Npos (XO (XI (XO (XO (XO (XI
    XH))))))) :: ((Npos (XI (XO (XO (XO (XO (XI XH))))))) :: ((Npos (XI (XI
    (XO (XO (XI (XI XH))))))) :: ((Npos (XO (XO (XO (XI (XO (XI
    XH))))))) :: ((Npos (XO (XO (XO (XO (XO XH)))))) :: ((Npos (XO (XI (XI
    (XO (XI (XI XH))))))) :: ((Npos (XI (XO (XI (XO (XO (XI
    XH))))))) :: ((Npos (XO (XI (XO (XO (XI (XI XH))))))) :: ((Npos (XI (XI
    (XO (XO (XI (XI XH))))))) :: ((Npos (XI (XO (XO (XI (XO (XI
    XH))))))) :: ((Npos (XI (XI (XI (XI (XO (XI XH))))))) :: ((Npos (XO (XI
    (XI (XI (XO (XI XH))))))) :: ((Npos (XI (XI (XO (XO (XI (XI
    XH))))))) :: ((Npos (XO (XI (XI (XI (XO XH)))))) :: ((Npos (XO (XI (XO
    XH)))) :: ((Npos (XO (XO (XO (XO (XO XH)))))) :: ((Npos (XO (XO (XO (XO
    (XO XH)))))) :: ((Npos (XO (XO (XO (XO (XO XH)))))) :: ((Npos (XO (XO (XO
    (XO (XO XH)))))) :: ((Npos (XI (XI (XI (XI (XI (XO XH))))))) :: ((Npos
    (XI (XI (XI (XI (XI (XO XH))))))) :: ((Npos (XI (XI (XO (XO (XI (XO
    XH))))))) :: ((Npos (XI (XI (XO (XO (XO (XO XH))))))) :: ((Npos (XO (XI
    (XO (XO (XI (XO XH))))))) :: ((Npos (XI (XO (XI (XO (XI (XO
    XH))))))) :: ((Npos (XO (XO (XI (XO (XI (XO XH))))))) :: ((Npos (XI (XI
    (XI (XI (XI (XO XH))))))) :: ((Npos (XO (XO (XI (XO (XO (XO
    XH))))))) :: ((Npos (XI (XO (XI (XO (XO (XO XH))))))) :: ((Npos (XI (XI
    (XO (XO (XO (XO XH))))))) :: ((Npos (XO (XO (XI (XI (XO (XO
    XH))))))) :: ((Npos (XI (XO (XO (XO (XO (XO XH))))))) :: ((Npos (XO (XI
    (XO (XO (XI (XO XH))))))) :: ((Npos (XI (XO (XI (XO (XO (XO
    XH))))))) :: ((Npos (XI (XI (XI (XI (XI (XO XH))))))) :: ((Npos (XO (XI
    (XI (XO (XI (XO XH))))))) :: ((Npos (XI (XO (XO (XO (XO (XO
    XH))))))) :: ((Npos (XO (XI (XO (XO (XI (XO XH))))))) :: ((Npos (XI (XI
    (XO (XO (XI (XO XH))))))) :: ((Npos (XI (XI (XI (XI (XI (XO
    XH))))))) :: ((Npos (XI (XI (XO (XO (XO (XO XH))))))) :: ((Npos (XI (XO
    (XI (XI (XO (XO XH))))))) :: ((Npos (XO (XO (XI (XO (XO (XO
    XH))))))) :: ((Npos (XI (XO (XI (XI (XI XH)))))) :: ((Npos (XO (XI (XO
    (XO (XO XH)))))) :: ((Npos (XO (XO (XI (XO (XO (XI XH))))))) :: ((Npos
    (XI (XO (XI (XO (XO (XI XH))))))) :: ((Npos (XI (XI (XO (XO (XO (XI
    XH))))))) :: ((Npos (XO (XO (XI (XI (XO (XI XH))))))) :: ((Npos (XI (XO
    (XO (XO (XO (XI XH))))))) :: ((Npos (XO (XI (XO (XO (XI (XI
    XH))))))) :: ((Npos (XI (XO (XI (XO (XO (XI XH))))))) :: ((Npos (XO (XO
    (XO (XO (XO XH)))))) :: ((Npos (XI (XO (XI (XI (XO XH)))))) :: ((Npos (XO
    (XO (XO (XO (XI (XI XH))))))) :: ((Npos (XO (XI (XO (XO (XO
    XH)))))) :: ((Npos (XO (XI (XO XH)))) :: ((Npos (XO (XO (XO (XO (XO
    XH)))))) :: ((Npos (XO (XO (XO (XO (XO XH)))))) :: ((Npos (XO (XO (XO (XO
    (XO XH)))))) :: ((Npos (XO (XO (XO (XO (XO XH)))))) :: ((Npos (XI (XI (XO
    (XO (XO XH)))))) :: ((Npos (XO (XO (XO (XO (XO XH)))))) :: ((Npos (XO (XO
    (XO (XI (XO XH)))))) :: ((Npos (XI (XI (XI (XO (XO (XI
    XH))))))) :: ((Npos (XO (XI (XO (XO (XI (XI XH))))))) :: ((Npos (XI (XO
    (XI (XO (XO (XI XH))))))) :: ((Npos (XO (XO (XO (XO (XI (XI
    XH))))))) :: ((Npos (XO (XO (XO (XO (XO XH)))))) :: ((Npos (XO (XI (XO
    (XO (XI (XI XH))))))) :: ((Npos (XI (XO (XI (XO (XO (XI
    XH))))))) :: ((Npos (XI (XO (XO (XO (XO (XI XH))))))) :: ((Npos (XO (XO
    (XI (XO (XO (XI XH))))))) :: ((Npos (XI (XI (XO (XO (XI (XI
    XH))))))) :: ((Npos (XO (XO (XO (XO (XO XH)))))) :: ((Npos (XO (XO (XI
    (XO (XI (XI XH))))))) :: ((Npos (XI (XI (XI (XI (XO (XI
    XH))))))) :: ((Npos (XO (XO (XO (XO (XO XH)))))) :: ((Npos (XO (XO (XI
    (XO (XI (XI XH))))))) :: ((Npos (XO (XO (XO (XI (XO (XI
    XH))))))) :: ((Npos (XI (XO (XI (XO (XO (XI XH))))))) :: ((Npos (XO (XO
    (XO (XO (XO XH)))))) :: ((Npos (XI (XO (XI (XO (XO (XI
    XH))))))) :: ((Npos (XO (XI (XI (XI (XO (XI XH))))))) :: ((Npos (XO (XO
    (XI (XO (XO (XI XH))))))) :: ((Npos (XO (XI (XO (XI (XI
    XH)))))) :: ((Npos (XO (XO (XO (XO (XO XH)))))) :: ((Npos (XI (XI (XO (XO
    (XI (XI XH))))))) :: ((Npos (XO (XO (XI (XO (XI (XI XH))))))) :: ((Npos
    (XI (XI (XI (XI (XO (XI XH))))))) :: ((Npos (XO (XO (XO (XO (XI (XI
    XH))))))) :: ((Npos (XO (XO (XO (XO (XI (XI XH))))))) :: ((Npos (XI (XO
    (XO (XI (XO (XI XH))))))) :: ((Npos (XO (XI (XI (XI (XO (XI
    XH))))))) :: ((Npos (XI (XI (XI (XO (XO (XI XH))))))) :: ((Npos (XO (XO
    (XO (XO (XO XH)))))) :: ((Npos (XI (XO (XO (XO (XO (XI
    XH))))))) :: ((Npos (XO (XO (XI (XO (XI (XI XH))))))) :: ((Npos (XO (XO
    (XO (XO (XO XH)))))) :: ((Npos (XO (XO (XI (XO (XI (XI
    XH))))))) :: ((Npos (XO (XO (XO (XI (XO (XI XH))))))) :: ((Npos (XI (XO
    (XI (XO (XO (XI XH))))))) :: ((Npos (XO (XO (XO (XO (XO
    XH)))))) :: ((Npos (XO (XI (XI (XO (XO (XI XH))))))) :: ((Npos (XI (XO
    (XO (XI (XO (XI XH))))))) :: ((Npos (XO (XI (XO (XO (XI (XI
    XH))))))) :: ((Npos (XI (XI (XO (XO (XI (XI XH))))))) :: ((Npos (XO (XO
    (XI (XO (XI (XI XH))))))) :: ((Npos (XO (XO (XO (XO (XO
    XH)))))) :: ((Npos (XI (XO (XI (XI (XO (XI XH))))))) :: ((Npos (XI (XO
    (XO (XO (XO (XI XH))))))) :: ((Npos (XO (XO (XI (XO (XI (XI
    XH))))))) :: ((Npos (XI (XI (XO (XO (XO (XI XH))))))) :: ((Npos (XO (XO
    (XO (XI (XO (XI XH))))))) :: ((Npos (XO (XO (XO (XO (XO
    XH)))))) :: ((Npos (XI (XI (XI (XO (XI (XI XH))))))) :: ((Npos (XI (XI
    (XI (XI (XO (XI XH))))))) :: ((Npos (XI (XO (XI (XO (XI (XI
    XH))))))) :: ((Npos (XO (XO (XI (XI (XO (XI XH))))))) :: ((Npos (XO (XO
    (XI (XO (XO (XI XH))))))) :: ((Npos (XO (XO (XO (XO (XO
    XH)))))) :: ((Npos (XI (XI (XO (XI (XO (XI XH))))))) :: ((Npos (XI (XO
    (XO (XI (XO (XI XH))))))) :: ((Npos (XO (XO (XI (XI (XO (XI
    XH))))))) :: ((Npos (XO (XO (XI (XI (XO (XI XH))))))) :: ((Npos (XO (XO
    (XO (XO (XO XH)))))) :: ((Npos (XO (XO (XO (XO (XO (XI
    XH))))))) :: ((Npos (XO (XO (XI (XO (XO (XI XH))))))) :: ((Npos (XI (XO
    (XI (XO (XO (XI XH))))))) :: ((Npos (XI (XI (XO (XO (XO (XI
    XH))))))) :: ((Npos (XO (XO (XI (XI (XO (XI XH))))))) :: ((Npos (XI (XO
    (XO (XO (XO (XI XH))))))) :: ((Npos (XO (XI (XO (XO (XI (XI
    XH))))))) :: ((Npos (XI (XO (XI (XO (XO (XI XH))))))) :: ((Npos (XO (XO
    (XO (XO (XO XH)))))) :: ((Npos (XI (XO (XI (XI (XO XH)))))) :: ((Npos (XO
    (XO (XO (XO (XI (XI XH))))))) :: ((Npos (XO (XO (XO (XO (XO (XI
    XH))))))) :: ((Npos (XO (XI (XO XH)))) :: ((Npos (XO (XO (XO (XO (XO
    XH)))))) :: ((Npos (XO (XO (XO (XO (XO XH)))))) :: ((Npos (XO (XO (XO (XO
    (XO XH)))))) :: ((Npos (XO (XO (XO (XO (XO XH)))))) :: ((Npos (XI (XI (XO
    (XO (XO XH)))))) :: ((Npos (XO (XO (XO (XO (XO XH)))))) :: ((Npos (XI (XI
    (XI (XO (XI (XI XH))))))) :: ((Npos (XI (XO (XO (XI (XO (XI
    XH))))))) :: ((Npos (XO (XO (XI (XO (XI (XI XH))))))) :: ((Npos (XO (XO
    (XO (XI (XO (XI XH))))))) :: ((Npos (XO (XO (XO (XO (XO
    XH)))))) :: ((Npos (XI (XI (XO (XO (XI (XO XH))))))) :: ((Npos (XI (XO
    (XO (XI (XO (XO XH))))))) :: ((Npos (XI (XI (XI (XO (XO (XO
    XH))))))) :: ((Npos (XO (XO (XO (XO (XI (XO XH))))))) :: ((Npos (XI (XO
    (XO (XI (XO (XO XH))))))) :: ((Npos (XO (XO (XO (XO (XI (XO
    XH))))))) :: ((Npos (XI (XO (XI (XO (XO (XO XH))))))) :: ((Npos (XO (XO
    (XI (XI (XO XH)))))) :: ((Npos (XO (XO (XO (XO (XO XH)))))) :: ((Npos (XI
    (XI (XI (XO (XI (XI XH))))))) :: ((Npos (XO (XO (XO (XI (XO (XI
    XH))))))) :: ((Npos (XI (XO (XO (XI (XO (XI XH))))))) :: ((Npos (XI (XI
    (XO (XO (XO (XI XH))))))) :: ((Npos (XO (XO (XO (XI (XO (XI
    XH))))))) :: ((Npos (XO (XO (XO (XO (XO XH)))))) :: ((Npos (XO (XI (XI
    (XO (XO (XI XH))))))) :: ((Npos (XI (XO (XO (XO (XO (XI
    XH))))))) :: ((Npos (XI (XO (XO (XI (XO (XI XH))))))) :: ((Npos (XO (XO
    (XI (XI (XO (XI XH))))))) :: ((Npos (XI (XI (XO (XO (XI (XI
    XH))))))) :: ((Npos (XO (XO (XO (XO (XO XH)))))) :: ((Npos (XO (XO (XI
    (XO (XI (XI XH))))))) :: ((Npos (XO (XO (XO (XI (XO (XI
    XH))))))) :: ((Npos (XI (XO (XI (XO (XO (XI XH))))))) :: ((Npos (XO (XO
    (XO (XO (XO XH)))))) :: ((Npos (XO (XO (XO (XO (XI (XI
    XH))))))) :: ((Npos (XI (XO (XO (XI (XO (XI XH))))))) :: ((Npos (XO (XO
    (XO (XO (XI (XI XH))))))) :: ((Npos (XI (XO (XI (XO (XO (XI
    XH))))))) :: ((Npos (XO (XO (XI (XI (XO (XI XH))))))) :: ((Npos (XI (XO
    (XO (XI (XO (XI XH))))))) :: ((Npos (XO (XI (XI (XI (XO (XI
    XH))))))) :: ((Npos (XI (XO (XI (XO (XO (XI XH))))))) :: ((Npos (XO (XO
    (XO (XO (XO XH)))))) :: ((Npos (XI (XI (XI (XO (XI (XI
    XH))))))) :: ((Npos (XO (XO (XO (XI (XO (XI XH))))))) :: ((Npos (XI (XO
    (XI (XO (XO (XI XH))))))) :: ((Npos (XO (XI (XI (XI (XO (XI
    XH))))))) :: ((Npos (XO (XO (XO (XO (XO XH)))))) :: ((Npos (XO (XO (XI
    (XO (XI (XI XH))))))) :: ((Npos (XO (XO (XO (XI (XO (XI
    XH))))))) :: ((Npos (XI (XO (XI (XO (XO (XI XH))))))) :: ((Npos (XO (XO
    (XO (XO (XO XH)))))) :: ((Npos (XO (XO (XI (XO (XI (XI
    XH))))))) :: ((Npos (XI (XO (XI (XO (XO (XI XH))))))) :: ((Npos (XI (XI
    (XO (XO (XI (XI XH))))))) :: ((Npos (XO (XO (XI (XO (XI (XI
    XH))))))) :: ((Npos (XO (XO (XO (XO (XO XH)))))) :: ((Npos (XI (XI (XO
    (XO (XO (XI XH))))))) :: ((Npos (XI (XO (XO (XO (XO (XI
    XH))))))) :: ((Npos (XI (XI (XO (XO (XI (XI XH))))))) :: ((Npos (XI (XO
    (XI (XO (XO (XI XH))))))) :: ((Npos (XO (XO (XO (XO (XO
    XH)))))) :: ((Npos (XO (XO (XO (XI (XO (XI XH))))))) :: ((Npos (XI (XO
    (XO (XO (XO (XI XH))))))) :: ((Npos (XI (XI (XO (XO (XI (XI
    XH))))))) :: ((Npos (XO (XO (XO (XO (XO XH)))))) :: ((Npos (XI (XI (XO
    (XO (XI (XI XH))))))) :: ((Npos (XI (XO (XI (XO (XO (XI
    XH))))))) :: ((Npos (XO (XO (XI (XO (XI (XI XH))))))) :: ((Npos (XO (XO
    (XO (XO (XO XH)))))) :: ((Npos (XO (XO (XO (XO (XI (XI
    XH))))))) :: ((Npos (XI (XO (XO (XI (XO (XI XH))))))) :: ((Npos (XO (XO
    (XO (XO (XI (XI XH))))))) :: ((Npos (XI (XO (XI (XO (XO (XI
    XH))))))) :: ((Npos (XO (XI (XI (XO (XO (XI XH))))))) :: ((Npos (XI (XO
    (XO (XO (XO (XI XH))))))) :: ((Npos (XI (XO (XO (XI (XO (XI
    XH))))))) :: ((Npos (XO (XO (XI (XI (XO (XI XH))))))) :: ((Npos (XI (XO
    (XO (XI (XO XH)))))) :: ((Npos (XO (XI (XO XH)))) :: ((Npos (XO (XO (XO
    (XO (XO XH)))))) :: ((Npos (XO (XO (XO (XO (XO XH)))))) :: ((Npos (XO (XO
    (XO (XO (XO XH)))))) :: ((Npos (XO (XO (XO (XO (XO XH)))))) :: ((Npos (XI
    (XO (XO (XI (XO (XI XH))))))) :: ((Npos (XO (XI (XI (XO (XO (XI
    XH))))))) :: ((Npos (XO (XO (XO (XO (XO XH)))))) :: ((Npos (XI (XO (XO
    (XO (XO XH)))))) :: ((Npos (XO (XO (XO (XO (XO XH)))))) :: ((Npos (XO (XO
    (XI (XO (XO (XI XH))))))) :: ((Npos (XI (XO (XI (XO (XO (XI
    XH))))))) :: ((Npos (XI (XI (XO (XO (XO (XI XH))))))) :: ((Npos (XO (XO
    (XI (XI (XO (XI XH))))))) :: ((Npos (XI (XO (XO (XO (XO (XI
    XH))))))) :: ((Npos (XO (XI (XO (XO (XI (XI XH))))))) :: ((Npos (XI (XO
    (XI (XO (XO (XI XH))))))) :: ((Npos (XO (XO (XO (XO (XO
    XH)))))) :: ((Npos (XI (XO (XI (XI (XO XH)))))) :: ((Npos (XO (XO (XO (XO
    (XI (XI XH))))))) :: ((Npos (XO (XO (XO (XO (XO XH)))))) :: ((Npos (XO
    (XO (XI (XI (XI (XI XH))))))) :: ((Npos (XO (XO (XO (XO (XO
    XH)))))) :: ((Npos (XI (XI (XI (XO (XO (XI XH))))))) :: ((Npos (XO (XI
    (XO (XO (XI (XI XH))))))) :: ((Npos (XI (XO (XI (XO (XO (XI
    XH))))))) :: ((Npos (XO (XO (XO (XO (XI (XI XH))))))) :: ((Npos (XO (XO
    (XO (XO (XO XH)))))) :: ((Npos (XO (XI (XO (XO (XO XH)))))) :: ((Npos (XO
    (XI (XI (XI (XI (XO XH))))))) :: ((Npos (XO (XO (XI (XO (XO (XI
    XH))))))) :: ((Npos (XI (XO (XI (XO (XO (XI XH))))))) :: ((Npos (XI (XI
    (XO (XO (XO (XI XH))))))) :: ((Npos (XO (XO (XI (XI (XO (XI
    XH))))))) :: ((Npos (XI (XO (XO (XO (XO (XI XH))))))) :: ((Npos (XO (XI
    (XO (XO (XI (XI XH))))))) :: ((Npos (XI (XO (XI (XO (XO (XI
    XH))))))) :: ((Npos (XO (XO (XO (XO (XO XH)))))) :: ((Npos (XO (XI (XO
    (XO (XO XH)))))) :: ((Npos (XO (XO (XO (XO (XO XH)))))) :: ((Npos (XO (XI
    (XI (XI (XI XH)))))) :: ((Npos (XI (XI (XI (XI (XO XH)))))) :: ((Npos (XO
    (XO (XI (XO (XO (XI XH))))))) :: ((Npos (XI (XO (XI (XO (XO (XI
    XH))))))) :: ((Npos (XO (XI (XI (XO (XI (XI XH))))))) :: ((Npos (XI (XI
    (XI (XI (XO XH)))))) :: ((Npos (XO (XI (XI (XI (XO (XI
    XH))))))) :: ((Npos (XI (XO (XI (XO (XI (XI XH))))))) :: ((Npos (XO (XO
    (XI (XI (XO (XI XH))))))) :: ((Npos (XO (XO (XI (XI (XO (XI
    XH))))))) :: ((Npos (XI (XI (XO (XI (XI XH)))))) :: ((Npos (XO (XO (XO
    (XO (XO XH)))))) :: ((Npos (XO (XO (XI (XO (XI (XI XH))))))) :: ((Npos
    (XO (XO (XO (XI (XO (XI XH))))))) :: ((Npos (XI (XO (XI (XO (XO (XI
    XH))))))) :: ((Npos (XO (XI (XI (XI (XO (XI XH))))))) :: ((Npos (XO (XI
    (XO XH)))) :: ((Npos (XO (XO (XO (XO (XO XH)))))) :: ((Npos (XO (XO (XO
    (XO (XO XH)))))) :: ((Npos (XO (XO (XO (XO (XO XH)))))) :: ((Npos (XO (XO
    (XO (XO (XO XH)))))) :: ((Npos (XO (XO (XO (XO (XO XH)))))) :: ((Npos (XO
    (XO (XO (XO (XO XH)))))) :: ((Npos (XO (XO (XO (XO (XO XH)))))) :: ((Npos
    (XO (XO (XO (XO (XO XH)))))) :: ((Npos (XI (XI (XI (XI (XI (XO
    XH))))))) :: ((Npos (XI (XI (XI (XI (XI (XO XH))))))) :: ((Npos (XI (XI
    (XO (XO (XI (XO XH))))))) :: ((Npos (XI (XI (XO (XO (XO (XO
    XH))))))) :: ((Npos (XO (XI (XO (XO (XI (XO XH))))))) :: ((Npos (XI (XO
    (XI (XO (XI (XO XH))))))) :: ((Npos (XO (XO (XI (XO (XI (XO
    XH))))))) :: ((Npos (XI (XI (XI (XI (XI (XO XH))))))) :: ((Npos (XO (XO
    (XI (XO (XO (XO XH))))))) :: ((Npos (XI (XO (XI (XO (XO (XO
    XH))))))) :: ((Npos (XI (XI (XO (XO (XO (XO XH))))))) :: ((Npos (XO (XO
    (XI (XI (XO (XO XH))))))) :: ((Npos (XI (XO (XO (XO (XO (XO
    XH))))))) :: ((Npos (XO (XI (XO (XO (XI (XO XH))))))) :: ((Npos (XI (XO
    (XI (XO (XO (XO XH))))))) :: ((Npos (XI (XI (XI (XI (XI (XO
    XH))))))) :: ((Npos (XO (XI (XI (XO (XI (XO XH))))))) :: ((Npos (XI (XO
    (XO (XO (XO (XO XH))))))) :: ((Npos (XO (XI (XO (XO (XI (XO
    XH))))))) :: ((Npos (XI (XI (XO (XO (XI (XO XH))))))) :: ((Npos (XI (XI
    (XI (XI (XI (XO XH))))))) :: ((Npos (XI (XI (XO (XO (XO (XO
    XH))))))) :: ((Npos (XI (XO (XI (XI (XO (XO XH))))))) :: ((Npos (XO (XO
    (XI (XO (XO (XO XH))))))) :: ((Npos (XI (XO (XI (XI (XI
    XH)))))) :: ((Npos (XO (XI (XO (XO (XO XH)))))) :: ((Npos (XO (XO (XI (XO
    (XO (XI XH))))))) :: ((Npos (XI (XO (XI (XO (XO (XI XH))))))) :: ((Npos
    (XI (XI (XO (XO (XO (XI XH))))))) :: ((Npos (XO (XO (XI (XI (XO (XI
    XH))))))) :: ((Npos (XI (XO (XO (XO (XO (XI XH))))))) :: ((Npos (XO (XI
    (XO (XO (XI (XI XH))))))) :: ((Npos (XI (XO (XI (XO (XO (XI
    XH))))))) :: ((Npos (XO (XO (XO (XO (XO XH)))))) :: ((Npos (XI (XO (XI
    (XI (XO XH)))))) :: ((Npos (XO (XO (XO (XO (XI (XI XH))))))) :: ((Npos
    (XO (XO (XO (XO (XO XH)))))) :: ((Npos (XO (XO (XI (XI (XI (XI
    XH))))))) :: ((Npos (XO (XO (XO (XO (XO XH)))))) :: ((Npos (XI (XI (XO
    (XO (XI (XI XH))))))) :: ((Npos (XI (XO (XI (XO (XO (XI
    XH))))))) :: ((Npos (XO (XO (XI (XO (XO (XI XH))))))) :: ((Npos (XO (XO
    (XO (XO (XO XH)))))) :: ((Npos (XI (XO (XI (XI (XO XH)))))) :: ((Npos (XO
    (XI (XO (XO (XI (XI XH))))))) :: ((Npos (XI (XO (XI (XO (XO (XI
    XH))))))) :: ((Npos (XO (XO (XO (XO (XO XH)))))) :: ((Npos (XI (XI (XI
    (XO (XO XH)))))) :: ((Npos (XI (XI (XO (XO (XI (XI XH))))))) :: ((Npos
    (XI (XI (XI (XI (XO XH)))))) :: ((Npos (XO (XI (XI (XI (XI (XO
    XH))))))) :: ((Npos (XO (XO (XO (XI (XO XH)))))) :: ((Npos (XI (XI (XO
    (XI (XI (XO XH))))))) :: ((Npos (XI (XO (XO (XO (XO (XO
    XH))))))) :: ((Npos (XI (XO (XI (XI (XO XH)))))) :: ((Npos (XO (XI (XO
    (XI (XI (XO XH))))))) :: ((Npos (XI (XO (XO (XO (XO (XI
    XH))))))) :: ((Npos (XI (XO (XI (XI (XO XH)))))) :: ((Npos (XO (XI (XO
    (XI (XI (XI XH))))))) :: ((Npos (XO (XO (XO (XO (XI XH)))))) :: ((Npos
    (XI (XO (XI (XI (XO XH)))))) :: ((Npos (XI (XO (XO (XI (XI
    XH)))))) :: ((Npos (XI (XI (XI (XI (XI (XO XH))))))) :: ((Npos (XI (XO
    (XI (XI (XI (XO XH))))))) :: ((Npos (XI (XI (XO (XI (XO
    XH)))))) :: ((Npos (XI (XO (XO (XI (XO XH)))))) :: ((Npos (XI (XO (XI (XI
    (XI XH)))))) :: ((Npos (XI (XI (XI (XI (XO XH)))))) :: ((Npos (XO (XO (XI
    (XO (XO (XI XH))))))) :: ((Npos (XI (XO (XI (XO (XO (XI
    XH))))))) :: ((Npos (XI (XI (XO (XO (XO (XI XH))))))) :: ((Npos (XO (XO
    (XI (XI (XO (XI XH))))))) :: ((Npos (XI (XO (XO (XO (XO (XI
    XH))))))) :: ((Npos (XO (XI (XO (XO (XI (XI XH))))))) :: ((Npos (XI (XO
    (XI (XO (XO (XI XH))))))) :: ((Npos (XO (XO (XO (XO (XO
    XH)))))) :: ((Npos (XI (XO (XI (XI (XO XH)))))) :: ((Npos (XO (XO (XO (XI
    (XI (XI XH))))))) :: ((Npos (XO (XO (XO (XO (XO XH)))))) :: ((Npos (XO
    (XO (XI (XI (XI (XO XH))))))) :: ((Npos (XI (XO (XO (XO (XI
    XH)))))) :: ((Npos (XI (XO (XI (XI (XI XH)))))) :: ((Npos (XI (XI (XI (XI
    (XO XH)))))) :: ((Npos (XI (XI (XI (XO (XO XH)))))) :: ((Npos (XO (XI (XO
    (XO (XO XH)))))) :: ((Npos (XO (XI (XO XH)))) :: ((Npos (XO (XO (XO (XO
    (XO XH)))))) :: ((Npos (XO (XO (XO (XO (XO XH)))))) :: ((Npos (XO (XO (XO
    (XO (XO XH)))))) :: ((Npos (XO (XO (XO (XO (XO XH)))))) :: ((Npos (XO (XI
    (XI (XO (XO (XI XH))))))) :: ((Npos (XI (XO (XO (XI (XO (XI
    XH))))))) :: ((Npos (XO (XI (XO XH)))) :: ((Npos (XO (XI (XO
    XH)))) :: ((Npos (XO (XO (XO (XO (XO XH)))))) :: ((Npos (XO (XO (XO (XO
    (XO XH)))))) :: ((Npos (XO (XO (XO (XO (XO XH)))))) :: ((Npos (XO (XO (XO
    (XO (XO XH)))))) :: ((Npos (XO (XO (XO (XI (XO XH)))))) :: ((Npos (XO (XI
    (XO XH)))) :: ((Npos (XO (XO (XO (XO (XO XH)))))) :: ((Npos (XO (XO (XO
    (XO (XO XH)))))) :: ((Npos (XO (XO (XO (XO (XO XH)))))) :: ((Npos (XO (XO
    (XO (XO (XO XH)))))) :: ((Npos (XO (XO (XO (XO (XO XH)))))) :: ((Npos (XO
    (XO (XO (XO (XO XH)))))) :: ((Npos (XO (XO (XO (XO (XO XH)))))) :: ((Npos
    (XO (XO (XO (XO (XO XH)))))) :: ((Npos (XI (XI (XO (XO (XO
    XH)))))) :: ((Npos (XO (XO (XO (XO (XO XH)))))) :: ((Npos (XI (XI (XO (XO
    (XI (XI XH))))))) :: ((Npos (XO (XO (XI (XO (XI (XI XH))))))) :: ((Npos
    (XI (XI (XI (XI (XO (XI XH))))))) :: ((Npos (XO (XI (XO (XO (XI (XI
    XH))))))) :: ((Npos (XI (XO (XI (XO (XO (XI XH))))))) :: ((Npos (XO (XO
    (XO (XO (XO XH)))))) :: ((Npos (XI (XO (XO (XO (XO (XI
    XH))))))) :: ((Npos (XO (XO (XI (XI (XO (XI XH))))))) :: ((Npos (XO (XO
    (XI (XI (XO (XI XH))))))) :: ((Npos (XO (XO (XO (XO (XO
    XH)))))) :: ((Npos (XI (XI (XO (XO (XI (XI XH))))))) :: ((Npos (XI (XO
    (XI (XO (XO (XI XH))))))) :: ((Npos (XO (XO (XI (XO (XI (XI
    XH))))))) :: ((Npos (XO (XO (XI (XO (XI (XI XH))))))) :: ((Npos (XI (XO
    (XO (XI (XO (XI XH))))))) :: ((Npos (XO (XI (XI (XI (XO (XI
    XH))))))) :: ((Npos (XI (XI (XI (XO (XO (XI XH))))))) :: ((Npos (XI (XI
    (XO (XO (XI (XI XH))))))) :: ((Npos (XO (XO (XO (XO (XO
    XH)))))) :: ((Npos (XO (XO (XO (XI (XO XH)))))) :: ((Npos (XI (XI (XO (XO
    (XI (XI XH))))))) :: ((Npos (XO (XO (XO (XI (XO (XI XH))))))) :: ((Npos
    (XI (XO (XO (XI (XO XH)))))) :: ((Npos (XO (XI (XO XH)))) :: ((Npos (XO
    (XO (XO (XO (XO XH)))))) :: ((Npos (XO (XO (XO (XO (XO XH)))))) :: ((Npos
    (XO (XO (XO (XO (XO XH)))))) :: ((Npos (XO (XO (XO (XO (XO
    XH)))))) :: ((Npos (XO (XO (XO (XO (XO XH)))))) :: ((Npos (XO (XO (XO (XO
    (XO XH)))))) :: ((Npos (XO (XO (XO (XO (XO XH)))))) :: ((Npos (XO (XO (XO
    (XO (XO XH)))))) :: ((Npos (XI (XI (XO (XO (XI (XI XH))))))) :: ((Npos
    (XI (XO (XI (XO (XO (XI XH))))))) :: ((Npos (XO (XO (XI (XO (XI (XI
    XH))))))) :: ((Npos (XO (XO (XO (XO (XO XH)))))) :: ((Npos (XI (XI (XO
    (XI (XO XH)))))) :: ((Npos (XI (XI (XI (XI (XO (XI XH))))))) :: ((Npos
    (XO (XI (XO XH)))) :: ((Npos (XO (XI (XO XH)))) :: ((Npos (XO (XO (XO (XO
    (XO XH)))))) :: ((Npos (XO (XO (XO (XO (XO XH)))))) :: ((Npos (XO (XO (XO
    (XO (XO XH)))))) :: ((Npos (XO (XO (XO (XO (XO XH)))))) :: ((Npos (XO (XO
    (XO (XO (XO XH)))))) :: ((Npos (XO (XO (XO (XO (XO XH)))))) :: ((Npos (XO
    (XO (XO (XO (XO XH)))))) :: ((Npos (XO (XO (XO (XO (XO XH)))))) :: ((Npos
    (XI (XI (XO (XO (XO XH)))))) :: ((Npos (XO (XO (XO (XO (XO
    XH)))))) :: ((Npos (XI (XI (XO (XO (XI (XI XH))))))) :: ((Npos (XO (XO
    (XI (XO (XI (XI XH))))))) :: ((Npos (XI (XI (XI (XI (XO (XI
    XH))))))) :: ((Npos (XO (XI (XO (XO (XI (XI XH))))))) :: ((Npos (XI (XO
    (XI (XO (XO (XI XH))))))) :: ((Npos (XO (XO (XO (XO (XO
    XH)))))) :: ((Npos (XI (XO (XO (XO (XO (XI XH))))))) :: ((Npos (XO (XO
    (XI (XI (XO (XI XH))))))) :: ((Npos (XO (XO (XI (XI (XO (XI
    XH))))))) :: ((Npos (XO (XO (XO (XO (XO XH)))))) :: ((Npos (XO (XI (XI
    (XO (XO (XI XH))))))) :: ((Npos (XI (XO (XI (XO (XI (XI
    XH))))))) :: ((Npos (XO (XI (XI (XI (XO (XI XH))))))) :: ((Npos (XI (XI
    (XO (XO (XO (XI XH))))))) :: ((Npos (XO (XO (XI (XO (XI (XI
    XH))))))) :: ((Npos (XI (XO (XO (XI (XO (XI XH))))))) :: ((Npos (XI (XI
    (XI (XI (XO (XI XH))))))) :: ((Npos (XO (XI (XI (XI (XO (XI
    XH))))))) :: ((Npos (XI (XI (XO (XO (XI (XI XH))))))) :: ((Npos (XO (XO
    (XO (XO (XO XH)))))) :: ((Npos (XO (XO (XO (XI (XO XH)))))) :: ((Npos (XO
    (XI (XO (XO (XO (XI XH))))))) :: ((Npos (XI (XO (XI (XO (XO (XI
    XH))))))) :: ((Npos (XO (XI (XI (XO (XO (XI XH))))))) :: ((Npos (XI (XI
    (XI (XI (XO (XI XH))))))) :: ((Npos (XO (XI (XO (XO (XI (XI
    XH))))))) :: ((Npos (XI (XO (XI (XO (XO (XI XH))))))) :: ((Npos (XO (XO
    (XO (XO (XO XH)))))) :: ((Npos (XO (XO (XI (XO (XI (XI
    XH))))))) :: ((Npos (XO (XO (XO (XI (XO (XI XH))))))) :: ((Npos (XI (XO
    (XI (XO (XO (XI XH))))))) :: ((Npos (XO (XO (XO (XO (XO
    XH)))))) :: ((Npos (XI (XO (XO (XO (XO (XI XH))))))) :: ((Npos (XO (XO
    (XI (XI (XO (XI XH))))))) :: ((Npos (XI (XO (XO (XI (XO (XI
    XH))))))) :: ((Npos (XI (XO (XO (XO (XO (XI XH))))))) :: ((Npos (XI (XI
    (XO (XO (XI (XI XH))))))) :: ((Npos (XI (XO (XI (XO (XO (XI
    XH))))))) :: ((Npos (XI (XI (XO (XO (XI (XI XH))))))) :: ((Npos (XO (XI
    (XO (XI (XI XH)))))) :: ((Npos (XO (XO (XO (XO (XO XH)))))) :: ((Npos (XO
    (XO (XI (XO (XI (XI XH))))))) :: ((Npos (XO (XO (XO (XI (XO (XI
    XH))))))) :: ((Npos (XI (XO (XI (XO (XO (XI XH))))))) :: ((Npos (XO (XO
    (XO (XO (XO XH)))))) :: ((Npos (XO (XI (XO (XO (XO (XI
    XH))))))) :: ((Npos (XI (XI (XI (XI (XO (XI XH))))))) :: ((Npos (XO (XO
    (XI (XO (XO (XI XH))))))) :: ((Npos (XI (XO (XO (XI (XO (XI
    XH))))))) :: ((Npos (XI (XO (XI (XO (XO (XI XH))))))) :: ((Npos (XI (XI
    (XO (XO (XI (XI XH))))))) :: ((Npos (XO (XO (XO (XO (XO
    XH)))))) :: ((Npos (XI (XI (XI (XO (XI (XI XH))))))) :: ((Npos (XI (XO
    (XI (XO (XO (XI XH))))))) :: ((Npos (XO (XI (XO (XO (XI (XI
    XH))))))) :: ((Npos (XI (XO (XI (XO (XO (XI XH))))))) :: ((Npos (XO (XO
    (XO (XO (XO XH)))))) :: ((Npos (XO (XO (XO (XO (XI (XI
    XH))))))) :: ((Npos (XI (XO (XO (XO (XO (XI XH))))))) :: ((Npos (XO (XI
    (XO (XO (XI (XI XH))))))) :: ((Npos (XI (XI (XO (XO (XI (XI
    XH))))))) :: ((Npos (XI (XO (XI (XO (XO (XI XH))))))) :: ((Npos (XO (XO
    (XI (XO (XO (XI XH))))))) :: ((Npos (XO (XI (XO XH)))) :: ((Npos (XO (XO
    (XO (XO (XO XH)))))) :: ((Npos (XO (XO (XO (XO (XO XH)))))) :: ((Npos (XO
    (XO (XO (XO (XO XH)))))) :: ((Npos (XO (XO (XO (XO (XO XH)))))) :: ((Npos
    (XO (XO (XO (XO (XO XH)))))) :: ((Npos (XO (XO (XO (XO (XO
    XH)))))) :: ((Npos (XO (XO (XO (XO (XO XH)))))) :: ((Npos (XO (XO (XO (XO
    (XO XH)))))) :: ((Npos (XI (XI (XO (XO (XO XH)))))) :: ((Npos (XO (XO (XO
    (XO (XO XH)))))) :: ((Npos (XI (XO (XO (XO (XO (XI XH))))))) :: ((Npos
    (XO (XO (XI (XI (XO (XI XH))))))) :: ((Npos (XO (XI (XO (XO (XI (XI
    XH))))))) :: ((Npos (XI (XO (XI (XO (XO (XI XH))))))) :: ((Npos (XI (XO
    (XO (XO (XO (XI XH))))))) :: ((Npos (XO (XO (XI (XO (XO (XI
    XH))))))) :: ((Npos (XI (XO (XO (XI (XI (XI XH))))))) :: ((Npos (XO (XO
    (XO (XO (XO XH)))))) :: ((Npos (XI (XO (XO (XO (XO (XI
    XH))))))) :: ((Npos (XO (XI (XI (XI (XO (XI XH))))))) :: ((Npos (XO (XO
    (XI (XO (XO (XI XH))))))) :: ((Npos (XO (XO (XO (XO (XO
    XH)))))) :: ((Npos (XI (XO (XI (XI (XO (XI XH))))))) :: ((Npos (XI (XO
    (XI (XO (XI (XI XH))))))) :: ((Npos (XI (XI (XO (XO (XI (XI
    XH))))))) :: ((Npos (XO (XO (XI (XO (XI (XI XH))))))) :: ((Npos (XO (XO
    (XO (XO (XO XH)))))) :: ((Npos (XO (XI (XI (XI (XO (XI
    XH))))))) :: ((Npos (XI (XI (XI (XI (XO (XI XH))))))) :: ((Npos (XO (XO
    (XI (XO (XI (XI XH))))))) :: ((Npos (XO (XO (XO (XO (XO
    XH)))))) :: ((Npos (XO (XO (XO (XI (XO (XI XH))))))) :: ((Npos (XI (XO
    (XO (XO (XO (XI XH))))))) :: ((Npos (XO (XI (XI (XO (XI (XI
    XH))))))) :: ((Npos (XI (XO (XI (XO (XO (XI XH))))))) :: ((Npos (XO (XO
    (XO (XO (XO XH)))))) :: ((Npos (XI (XO (XO (XO (XO (XI
    XH))))))) :: ((Npos (XO (XO (XI (XI (XO (XI XH))))))) :: ((Npos (XI (XO
    (XO (XI (XO (XI XH))))))) :: ((Npos (XI (XO (XO (XO (XO (XI
    XH))))))) :: ((Npos (XI (XI (XO (XO (XI (XI XH))))))) :: ((Npos (XI (XO
    (XI (XO (XO (XI XH))))))) :: ((Npos (XI (XI (XO (XO (XI (XI
    XH))))))) :: ((Npos (XO (XO (XO (XO (XO XH)))))) :: ((Npos (XI (XO (XI
    (XO (XO (XI XH))))))) :: ((Npos (XO (XO (XO (XI (XI (XI
    XH))))))) :: ((Npos (XO (XO (XO (XO (XI (XI XH))))))) :: ((Npos (XI (XO
    (XO (XO (XO (XI XH))))))) :: ((Npos (XO (XI (XI (XI (XO (XI
    XH))))))) :: ((Npos (XO (XO (XI (XO (XO (XI XH))))))) :: ((Npos (XI (XO
    (XI (XO (XO (XI XH))))))) :: ((Npos (XO (XO (XI (XO (XO (XI
    XH))))))) :: ((Npos (XO (XO (XO (XO (XO XH)))))) :: ((Npos (XI (XO (XO
    (XI (XO (XI XH))))))) :: ((Npos (XO (XI (XI (XI (XO (XI
    XH))))))) :: ((Npos (XO (XO (XO (XO (XO XH)))))) :: ((Npos (XO (XO (XI
    (XO (XI (XI XH))))))) :: ((Npos (XO (XO (XO (XI (XO (XI
    XH))))))) :: ((Npos (XI (XO (XI (XO (XO (XI XH))))))) :: ((Npos (XI (XO
    (XI (XI (XO (XI XH))))))) :: ((Npos (XO (XO (XO (XO (XO
    XH)))))) :: ((Npos (XI (XI (XI (XI (XO (XI XH))))))) :: ((Npos (XO (XI
    (XI (XI (XO (XI XH))))))) :: ((Npos (XI (XI (XO (XO (XO (XI
    XH))))))) :: ((Npos (XI (XO (XI (XO (XO (XI XH))))))) :: ((Npos (XO (XO
    (XO (XO (XO XH)))))) :: ((Npos (XI (XO (XI (XI (XO (XI
    XH))))))) :: ((Npos (XI (XI (XI (XI (XO (XI XH))))))) :: ((Npos (XO (XI
    (XO (XO (XI (XI XH))))))) :: ((Npos (XI (XO (XI (XO (XO (XI
    XH))))))) :: ((Npos (XI (XI (XO (XI (XI XH)))))) :: ((Npos (XO (XO (XO
    (XO (XO XH)))))) :: ((Npos (XI (XI (XI (XO (XI (XI XH))))))) :: ((Npos
    (XI (XO (XO (XI (XO (XI XH))))))) :: ((Npos (XO (XO (XI (XO (XI (XI
    XH))))))) :: ((Npos (XO (XO (XO (XI (XO (XI XH))))))) :: ((Npos (XO (XI
    (XO XH)))) :: ((Npos (XO (XO (XO (XO (XO XH)))))) :: ((Npos (XO (XO (XO
    (XO (XO XH)))))) :: ((Npos (XO (XO (XO (XO (XO XH)))))) :: ((Npos (XO (XO
    (XO (XO (XO XH)))))) :: ((Npos (XO (XO (XO (XO (XO XH)))))) :: ((Npos (XO
    (XO (XO (XO (XO XH)))))) :: ((Npos (XO (XO (XO (XO (XO XH)))))) :: ((Npos
    (XO (XO (XO (XO (XO XH)))))) :: ((Npos (XI (XI (XO (XO (XO
    XH)))))) :: ((Npos (XO (XO (XO (XO (XO XH)))))) :: ((Npos (XI (XO (XI (XO
    (XO (XI XH))))))) :: ((Npos (XO (XO (XO (XI (XI (XI XH))))))) :: ((Npos
    (XO (XO (XI (XO (XI (XI XH))))))) :: ((Npos (XI (XI (XI (XO (XO (XI
    XH))))))) :: ((Npos (XO (XO (XI (XI (XO (XI XH))))))) :: ((Npos (XI (XI
    (XI (XI (XO (XI XH))))))) :: ((Npos (XO (XI (XO (XO (XO (XI
    XH))))))) :: ((Npos (XO (XO (XI (XI (XO XH)))))) :: ((Npos (XO (XO (XO
    (XO (XO XH)))))) :: ((Npos (XI (XI (XI (XI (XO (XI XH))))))) :: ((Npos
    (XO (XI (XO (XO (XI (XI XH))))))) :: ((Npos (XO (XO (XO (XO (XO
    XH)))))) :: ((Npos (XI (XO (XO (XO (XO (XI XH))))))) :: ((Npos (XO (XO
    (XO (XO (XO XH)))))) :: ((Npos (XO (XI (XO (XO (XO (XI
    XH))))))) :: ((Npos (XI (XI (XI (XI (XO (XI XH))))))) :: ((Npos (XO (XO
    (XI (XO (XO (XI XH))))))) :: ((Npos (XI (XO (XO (XI (XI (XI
    XH))))))) :: ((Npos (XO (XO (XO (XO (XO XH)))))) :: ((Npos (XO (XO (XI
    (XO (XI (XI XH))))))) :: ((Npos (XO (XO (XO (XI (XO (XI
    XH))))))) :: ((Npos (XI (XO (XO (XO (XO (XI XH))))))) :: ((Npos (XO (XO
    (XI (XO (XI (XI XH))))))) :: ((Npos (XO (XO (XO (XO (XO
    XH)))))) :: ((Npos (XI (XO (XI (XO (XI (XI XH))))))) :: ((Npos (XI (XI
    (XO (XO (XI (XI XH))))))) :: ((Npos (XI (XO (XI (XO (XO (XI
    XH))))))) :: ((Npos (XI (XI (XO (XO (XI (XI XH))))))) :: ((Npos (XO (XO
    (XO (XO (XO XH)))))) :: ((Npos (XI (XO (XO (XO (XO (XI
    XH))))))) :: ((Npos (XO (XI (XI (XI (XO (XI XH))))))) :: ((Npos (XO (XO
    (XO (XO (XO XH)))))) :: ((Npos (XI (XO (XI (XO (XO (XI
    XH))))))) :: ((Npos (XO (XO (XO (XI (XI (XI XH))))))) :: ((Npos (XO (XO
    (XI (XO (XI (XI XH))))))) :: ((Npos (XI (XO (XI (XO (XO (XI
    XH))))))) :: ((Npos (XO (XI (XI (XI (XO (XI XH))))))) :: ((Npos (XO (XO
    (XI (XO (XO (XI XH))))))) :: ((Npos (XI (XO (XI (XO (XO (XI
    XH))))))) :: ((Npos (XO (XO (XI (XO (XO (XI XH))))))) :: ((Npos (XO (XO
    (XO (XO (XO XH)))))) :: ((Npos (XO (XO (XO (XO (XI (XI
    XH))))))) :: ((Npos (XI (XO (XO (XO (XO (XI XH))))))) :: ((Npos (XO (XO
    (XI (XO (XI (XI XH))))))) :: ((Npos (XO (XO (XI (XO (XI (XI
    XH))))))) :: ((Npos (XI (XO (XI (XO (XO (XI XH))))))) :: ((Npos (XO (XI
    (XO (XO (XI (XI XH))))))) :: ((Npos (XO (XI (XI (XI (XO (XI
    XH))))))) :: ((Npos (XO (XO (XO (XO (XO XH)))))) :: ((Npos (XI (XI (XO
    (XO (XO (XI XH))))))) :: ((Npos (XI (XO (XO (XO (XO (XI
    XH))))))) :: ((Npos (XO (XI (XI (XI (XO (XI XH))))))) :: ((Npos (XO (XI
    (XI (XI (XO (XI XH))))))) :: ((Npos (XI (XI (XI (XI (XO (XI
    XH))))))) :: ((Npos (XO (XO (XI (XO (XI (XI XH))))))) :: ((Npos (XO (XO
    (XO (XO (XO XH)))))) :: ((Npos (XO (XI (XO (XO (XO (XI
    XH))))))) :: ((Npos (XI (XO (XI (XO (XO (XI XH))))))) :: ((Npos (XO (XO
    (XO (XO (XO XH)))))) :: ((Npos (XO (XO (XO (XO (XI (XI
    XH))))))) :: ((Npos (XI (XO (XO (XO (XO (XI XH))))))) :: ((Npos (XO (XI
    (XO (XO (XI (XI XH))))))) :: ((Npos (XI (XI (XO (XO (XI (XI
    XH))))))) :: ((Npos (XI (XO (XI (XO (XO (XI XH))))))) :: ((Npos (XO (XO
    (XI (XO (XO (XI XH))))))) :: ((Npos (XI (XO (XO (XI (XO
    XH)))))) :: ((Npos (XO (XI (XO XH)))) :: ((Npos (XO (XO (XO (XO (XO
    XH)))))) :: ((Npos (XO (XO (XO (XO (XO XH)))))) :: ((Npos (XO (XO (XO (XO
    (XO XH)))))) :: ((Npos (XO (XO (XO (XO (XO XH)))))) :: ((Npos (XO (XO (XO
    (XO (XO XH)))))) :: ((Npos (XO (XO (XO (XO (XO XH)))))) :: ((Npos (XO (XO
    (XO (XO (XO XH)))))) :: ((Npos (XO (XO (XO (XO (XO XH)))))) :: ((Npos (XI
    (XO (XI (XO (XO (XI XH))))))) :: ((Npos (XI (XI (XO (XO (XO (XI
    XH))))))) :: ((Npos (XO (XO (XO (XI (XO (XI XH))))))) :: ((Npos (XI (XI
    (XI (XI (XO (XI XH))))))) :: ((Npos (XO (XO (XO (XO (XO
    XH)))))) :: ((Npos (XO (XI (XO (XO (XO XH)))))) :: ((Npos (XI (XI (XO (XO
    (XI (XI XH))))))) :: ((Npos (XO (XO (XO (XI (XO (XI XH))))))) :: ((Npos
    (XI (XI (XI (XI (XO (XI XH))))))) :: ((Npos (XO (XO (XO (XO (XI (XI
    XH))))))) :: ((Npos (XO (XO (XI (XO (XI (XI XH))))))) :: ((Npos (XO (XO
    (XO (XO (XO XH)))))) :: ((Npos (XI (XO (XI (XI (XO XH)))))) :: ((Npos (XI
    (XI (XO (XO (XI (XI XH))))))) :: ((Npos (XO (XO (XO (XO (XO
    XH)))))) :: ((Npos (XI (XO (XI (XO (XO (XI XH))))))) :: ((Npos (XO (XO
    (XO (XI (XI (XI XH))))))) :: ((Npos (XO (XO (XI (XO (XI (XI
    XH))))))) :: ((Npos (XI (XI (XI (XO (XO (XI XH))))))) :: ((Npos (XO (XO
    (XI (XI (XO (XI XH))))))) :: ((Npos (XI (XI (XI (XI (XO (XI
    XH))))))) :: ((Npos (XO (XI (XO (XO (XO (XI XH))))))) :: ((Npos (XO (XI
    (XO (XO (XO XH)))))) :: ((Npos (XO (XI (XO XH)))) :: ((Npos (XO (XO (XO
    (XO (XO XH)))))) :: ((Npos (XO (XO (XO (XO (XO XH)))))) :: ((Npos (XO (XO
    (XO (XO (XO XH)))))) :: ((Npos (XO (XO (XO (XO (XO XH)))))) :: ((Npos (XO
    (XO (XO (XO (XO XH)))))) :: ((Npos (XO (XO (XO (XO (XO XH)))))) :: ((Npos
    (XO (XO (XO (XO (XO XH)))))) :: ((Npos (XO (XO (XO (XO (XO
    XH)))))) :: ((Npos (XO (XO (XI (XO (XO (XI XH))))))) :: ((Npos (XI (XO
    (XI (XO (XO (XI XH))))))) :: ((Npos (XI (XI (XO (XO (XO (XI
    XH))))))) :: ((Npos (XO (XO (XI (XI (XO (XI XH))))))) :: ((Npos (XI (XO
    (XO (XO (XO (XI XH))))))) :: ((Npos (XO (XI (XO (XO (XI (XI
    XH))))))) :: ((Npos (XI (XO (XI (XO (XO (XI XH))))))) :: ((Npos (XO (XO
    (XO (XO (XO XH)))))) :: ((Npos (XI (XO (XI (XI (XO XH)))))) :: ((Npos (XO
    (XI (XI (XO (XO (XI XH))))))) :: ((Npos (XO (XI (XO XH)))) :: ((Npos (XO
    (XI (XO XH)))) :: ((Npos (XO (XO (XO (XO (XO XH)))))) :: ((Npos (XO (XO
    (XO (XO (XO XH)))))) :: ((Npos (XO (XO (XO (XO (XO XH)))))) :: ((Npos (XO
    (XO (XO (XO (XO XH)))))) :: ((Npos (XO (XO (XO (XO (XO XH)))))) :: ((Npos
    (XO (XO (XO (XO (XO XH)))))) :: ((Npos (XO (XO (XO (XO (XO
    XH)))))) :: ((Npos (XO (XO (XO (XO (XO XH)))))) :: ((Npos (XI (XI (XO (XO
    (XO XH)))))) :: ((Npos (XO (XO (XO (XO (XO XH)))))) :: ((Npos (XI (XI (XO
    (XO (XI (XI XH))))))) :: ((Npos (XO (XO (XI (XO (XI (XI
    XH))))))) :: ((Npos (XI (XI (XI (XI (XO (XI XH))))))) :: ((Npos (XO (XI
    (XO (XO (XI (XI XH))))))) :: ((Npos (XI (XO (XI (XO (XO (XI
    XH))))))) :: ((Npos (XO (XO (XO (XO (XO XH)))))) :: ((Npos (XI (XO (XO
    (XO (XO (XI XH))))))) :: ((Npos (XO (XO (XI (XI (XO (XI
    XH))))))) :: ((Npos (XO (XO (XI (XI (XO (XI XH))))))) :: ((Npos (XO (XO
    (XO (XO (XO XH)))))) :: ((Npos (XI (XI (XO (XO (XI (XI
    XH))))))) :: ((Npos (XI (XO (XI (XO (XO (XI XH))))))) :: ((Npos (XO (XO
    (XI (XO (XI (XI XH))))))) :: ((Npos (XO (XO (XI (XO (XI (XI
    XH))))))) :: ((Npos (XI (XO (XO (XI (XO (XI XH))))))) :: ((Npos (XO (XI
    (XI (XI (XO (XI XH))))))) :: ((Npos (XI (XI (XI (XO (XO (XI
    XH))))))) :: ((Npos (XI (XI (XO (XO (XI (XI XH))))))) :: ((Npos (XO (XO
    (XO (XO (XO XH)))))) :: ((Npos (XO (XO (XO (XI (XO XH)))))) :: ((Npos (XO
    (XI (XO (XO (XO (XI XH))))))) :: ((Npos (XI (XO (XO (XO (XO (XI
    XH))))))) :: ((Npos (XI (XI (XO (XO (XI (XI XH))))))) :: ((Npos (XO (XO
    (XO (XI (XO (XI XH))))))) :: ((Npos (XI (XO (XO (XI (XO
    XH)))))) :: ((Npos (XO (XI (XO XH)))) :: ((Npos (XO (XO (XO (XO (XO
    XH)))))) :: ((Npos (XO (XO (XO (XO (XO XH)))))) :: ((Npos (XO (XO (XO (XO
    (XO XH)))))) :: ((Npos (XO (XO (XO (XO (XO XH)))))) :: ((Npos (XO (XO (XO
    (XO (XO XH)))))) :: ((Npos (XO (XO (XO (XO (XO XH)))))) :: ((Npos (XO (XO
    (XO (XO (XO XH)))))) :: ((Npos (XO (XO (XO (XO (XO XH)))))) :: ((Npos (XI
    (XI (XO (XO (XI (XI XH))))))) :: ((Npos (XO (XO (XO (XI (XO (XI
    XH))))))) :: ((Npos (XI (XI (XI (XI (XO (XI XH))))))) :: ((Npos (XO (XO
    (XO (XO (XI (XI XH))))))) :: ((Npos (XO (XO (XI (XO (XI (XI
    XH))))))) :: ((Npos (XO (XO (XO (XO (XO XH)))))) :: ((Npos (XI (XO (XI
    (XI (XO XH)))))) :: ((Npos (XO (XO (XO (XO (XI (XI XH))))))) :: ((Npos
    (XO (XI (XO XH)))) :: ((Npos (XO (XI (XO XH)))) :: ((Npos (XO (XO (XO (XO
    (XO XH)))))) :: ((Npos (XO (XO (XO (XO (XO XH)))))) :: ((Npos (XO (XO (XO
    (XO (XO XH)))))) :: ((Npos (XO (XO (XO (XO (XO XH)))))) :: ((Npos (XO (XO
    (XO (XO (XO XH)))))) :: ((Npos (XO (XO (XO (XO (XO XH)))))) :: ((Npos (XO
    (XO (XO (XO (XO XH)))))) :: ((Npos (XO (XO (XO (XO (XO XH)))))) :: ((Npos
    (XI (XI (XO (XO (XO XH)))))) :: ((Npos (XO (XO (XO (XO (XO
    XH)))))) :: ((Npos (XI (XI (XO (XO (XI (XI XH))))))) :: ((Npos (XO (XO
    (XI (XO (XI (XI XH))))))) :: ((Npos (XI (XI (XI (XI (XO (XI
    XH))))))) :: ((Npos (XO (XI (XO (XO (XI (XI XH))))))) :: ((Npos (XI (XO
    (XI (XO (XO (XI XH))))))) :: ((Npos (XO (XO (XO (XO (XO
    XH)))))) :: ((Npos (XI (XO (XO (XO (XO (XI XH))))))) :: ((Npos (XO (XO
    (XI (XI (XO (XI XH))))))) :: ((Npos (XO (XO (XI (XI (XO (XI
    XH))))))) :: ((Npos (XO (XO (XO (XO (XO XH)))))) :: ((Npos (XI (XO (XO
    (XO (XO (XI XH))))))) :: ((Npos (XO (XO (XI (XI (XO (XI
    XH))))))) :: ((Npos (XI (XO (XO (XI (XO (XI XH))))))) :: ((Npos (XI (XO
    (XO (XO (XO (XI XH))))))) :: ((Npos (XI (XI (XO (XO (XI (XI
    XH))))))) :: ((Npos (XI (XO (XI (XO (XO (XI XH))))))) :: ((Npos (XI (XI
    (XO (XO (XI (XI XH))))))) :: ((Npos (XO (XI (XO XH)))) :: ((Npos (XO (XO
    (XO (XO (XO XH)))))) :: ((Npos (XO (XO (XO (XO (XO XH)))))) :: ((Npos (XO
    (XO (XO (XO (XO XH)))))) :: ((Npos (XO (XO (XO (XO (XO XH)))))) :: ((Npos
    (XO (XO (XO (XO (XO XH)))))) :: ((Npos (XO (XO (XO (XO (XO
    XH)))))) :: ((Npos (XO (XO (XO (XO (XO XH)))))) :: ((Npos (XO (XO (XO (XO
    (XO XH)))))) :: ((Npos (XI (XO (XO (XO (XO (XI XH))))))) :: ((Npos (XO
    (XO (XI (XI (XO (XI XH))))))) :: ((Npos (XI (XO (XO (XI (XO (XI
    XH))))))) :: ((Npos (XI (XO (XO (XO (XO (XI XH))))))) :: ((Npos (XI (XI
    (XO (XO (XI (XI XH))))))) :: ((Npos (XO (XO (XO (XO (XO
    XH)))))) :: ((Npos (XI (XO (XI (XI (XO XH)))))) :: ((Npos (XO (XO (XO (XO
    (XI (XI XH))))))) :: ((Npos (XO (XI (XO XH)))) :: ((Npos (XO (XI (XO
    XH)))) :: ((Npos (XO (XO (XO (XO (XO XH)))))) :: ((Npos (XO (XO (XO (XO
    (XO XH)))))) :: ((Npos (XO (XO (XO (XO (XO XH)))))) :: ((Npos (XO (XO (XO
    (XO (XO XH)))))) :: ((Npos (XO (XO (XO (XO (XO XH)))))) :: ((Npos (XO (XO
    (XO (XO (XO XH)))))) :: ((Npos (XO (XO (XO (XO (XO XH)))))) :: ((Npos (XO
    (XO (XO (XO (XO XH)))))) :: ((Npos (XI (XI (XO (XO (XO XH)))))) :: ((Npos
    (XO (XO (XO (XO (XO XH)))))) :: ((Npos (XI (XI (XO (XO (XI (XI
    XH))))))) :: ((Npos (XO (XO (XI (XO (XI (XI XH))))))) :: ((Npos (XI (XI
    (XI (XI (XO (XI XH))))))) :: ((Npos (XO (XI (XO (XO (XI (XI
    XH))))))) :: ((Npos (XI (XO (XI (XO (XO (XI XH))))))) :: ((Npos (XO (XO
    (XO (XO (XO XH)))))) :: ((Npos (XI (XO (XO (XO (XO (XI
    XH))))))) :: ((Npos (XO (XO (XI (XI (XO (XI XH))))))) :: ((Npos (XO (XO
    (XI (XI (XO (XI XH))))))) :: ((Npos (XO (XO (XO (XO (XO
    XH)))))) :: ((Npos (XI (XI (XO (XO (XI (XI XH))))))) :: ((Npos (XO (XO
    (XO (XI (XO (XI XH))))))) :: ((Npos (XI (XO (XI (XO (XO (XI
    XH))))))) :: ((Npos (XO (XO (XI (XI (XO (XI XH))))))) :: ((Npos (XO (XO
    (XI (XI (XO (XI XH))))))) :: ((Npos (XO (XO (XO (XO (XO
    XH)))))) :: ((Npos (XI (XO (XO (XO (XO (XI XH))))))) :: ((Npos (XO (XI
    (XI (XI (XO (XI XH))))))) :: ((Npos (XO (XO (XI (XO (XO (XI
    XH))))))) :: ((Npos (XO (XO (XO (XO (XO XH)))))) :: ((Npos (XI (XO (XI
    (XO (XO (XI XH))))))) :: ((Npos (XO (XI (XI (XI (XO (XI
    XH))))))) :: ((Npos (XO (XI (XI (XO (XI (XI XH))))))) :: ((Npos (XI (XO
    (XO (XI (XO (XI XH))))))) :: ((Npos (XO (XI (XO (XO (XI (XI
    XH))))))) :: ((Npos (XI (XI (XI (XI (XO (XI XH))))))) :: ((Npos (XO (XI
    (XI (XI (XO (XI XH))))))) :: ((Npos (XI (XO (XI (XI (XO (XI
    XH))))))) :: ((Npos (XI (XO (XI (XO (XO (XI XH))))))) :: ((Npos (XO (XI
    (XI (XI (XO (XI XH))))))) :: ((Npos (XO (XO (XI (XO (XI (XI
    XH))))))) :: ((Npos (XO (XO (XO (XO (XO XH)))))) :: ((Npos (XO (XI (XI
    (XO (XI (XI XH))))))) :: ((Npos (XI (XO (XO (XO (XO (XI
    XH))))))) :: ((Npos (XO (XI (XO (XO (XI (XI XH))))))) :: ((Npos (XI (XO
    (XO (XI (XO (XI XH))))))) :: ((Npos (XI (XO (XO (XO (XO (XI
    XH))))))) :: ((Npos (XO (XI (XO (XO (XO (XI XH))))))) :: ((Npos (XO (XO
    (XI (XI (XO (XI XH))))))) :: ((Npos (XI (XO (XI (XO (XO (XI
    XH))))))) :: ((Npos (XI (XI (XO (XO (XI (XI XH))))))) :: ((Npos (XO (XI
    (XO XH)))) :: ((Npos (XO (XO (XO (XO (XO XH)))))) :: ((Npos (XO (XO (XO
    (XO (XO XH)))))) :: ((Npos (XO (XO (XO (XO (XO XH)))))) :: ((Npos (XO (XO
    (XO (XO (XO XH)))))) :: ((Npos (XO (XO (XO (XO (XO XH)))))) :: ((Npos (XO
    (XO (XO (XO (XO XH)))))) :: ((Npos (XO (XO (XO (XO (XO XH)))))) :: ((Npos
    (XO (XO (XO (XO (XO XH)))))) :: ((Npos (XI (XO (XI (XO (XO (XI
    XH))))))) :: ((Npos (XO (XI (XI (XO (XI (XI XH))))))) :: ((Npos (XI (XO
    (XO (XO (XO (XI XH))))))) :: ((Npos (XO (XO (XI (XI (XO (XI
    XH))))))) :: ((Npos (XO (XO (XO (XO (XO XH)))))) :: ((Npos (XO (XI (XO
    (XO (XO XH)))))) :: ((Npos (XO (XO (XI (XO (XO XH)))))) :: ((Npos (XI (XI
    (XI (XI (XI (XO XH))))))) :: ((Npos (XI (XI (XI (XI (XI (XO
    XH))))))) :: ((Npos (XI (XI (XO (XO (XI (XO XH))))))) :: ((Npos (XI (XI
    (XO (XO (XO (XO XH))))))) :: ((Npos (XO (XI (XO (XO (XI (XO
    XH))))))) :: ((Npos (XI (XO (XI (XO (XI (XO XH))))))) :: ((Npos (XO (XO
    (XI (XO (XI (XO XH))))))) :: ((Npos (XI (XI (XI (XI (XI (XO
    XH))))))) :: ((Npos (XO (XO (XI (XO (XO (XO XH))))))) :: ((Npos (XI (XO
    (XI (XO (XO (XO XH))))))) :: ((Npos (XI (XI (XO (XO (XO (XO
    XH))))))) :: ((Npos (XO (XO (XI (XI (XO (XO XH))))))) :: ((Npos (XI (XO
    (XO (XO (XO (XO XH))))))) :: ((Npos (XO (XI (XO (XO (XI (XO
    XH))))))) :: ((Npos (XI (XO (XI (XO (XO (XO XH))))))) :: ((Npos (XI (XI
    (XI (XI (XI (XO XH))))))) :: ((Npos (XO (XI (XI (XO (XI (XO
    XH))))))) :: ((Npos (XI (XO (XO (XO (XO (XO XH))))))) :: ((Npos (XO (XI
    (XO (XO (XI (XO XH))))))) :: ((Npos (XI (XI (XO (XO (XI (XO
    XH))))))) :: ((Npos (XI (XI (XI (XI (XI (XO XH))))))) :: ((Npos (XI (XI
    (XO (XO (XO (XO XH))))))) :: ((Npos (XI (XO (XI (XI (XO (XO
    XH))))))) :: ((Npos (XO (XO (XI (XO (XO (XO XH))))))) :: ((Npos (XO (XI
    (XO (XO (XO XH)))))) :: ((Npos (XO (XO (XO (XO (XO XH)))))) :: ((Npos (XO
    (XO (XI (XI (XI (XI XH))))))) :: ((Npos (XO (XO (XO (XO (XO
    XH)))))) :: ((Npos (XO (XO (XI (XI (XI (XO XH))))))) :: ((Npos (XO (XI
    (XO XH)))) :: ((Npos (XO (XO (XO (XO (XO XH)))))) :: ((Npos (XO (XO (XO
    (XO (XO XH)))))) :: ((Npos (XO (XO (XO (XO (XO XH)))))) :: ((Npos (XO (XO
    (XO (XO (XO XH)))))) :: ((Npos (XO (XO (XO (XO (XO XH)))))) :: ((Npos (XO
    (XO (XO (XO (XO XH)))))) :: ((Npos (XO (XO (XO (XO (XO XH)))))) :: ((Npos
    (XO (XO (XO (XO (XO XH)))))) :: ((Npos (XO (XO (XO (XO (XO
    XH)))))) :: ((Npos (XO (XO (XO (XO (XO XH)))))) :: ((Npos (XO (XO (XO (XO
    (XO XH)))))) :: ((Npos (XO (XO (XO (XO (XO XH)))))) :: ((Npos (XI (XI (XI
    (XO (XO (XI XH))))))) :: ((Npos (XO (XI (XO (XO (XI (XI
    XH))))))) :: ((Npos (XI (XO (XI (XO (XO (XI XH))))))) :: ((Npos (XO (XO
    (XO (XO (XI (XI XH))))))) :: ((Npos (XO (XO (XO (XO (XO
    XH)))))) :: ((Npos (XI (XO (XI (XI (XO XH)))))) :: ((Npos (XI (XO (XI (XO
    (XO (XO XH))))))) :: ((Npos (XO (XI (XI (XO (XI (XI XH))))))) :: ((Npos
    (XO (XO (XO (XO (XO XH)))))) :: ((Npos (XO (XI (XO (XO (XO
    XH)))))) :: ((Npos (XO (XI (XI (XI (XI (XO XH))))))) :: ((Npos (XO (XO
    (XI (XO (XO (XI XH))))))) :: ((Npos (XI (XO (XI (XO (XO (XI
    XH))))))) :: ((Npos (XI (XI (XO (XO (XO (XI XH))))))) :: ((Npos (XO (XO
    (XI (XI (XO (XI XH))))))) :: ((Npos (XI (XO (XO (XO (XO (XI
    XH))))))) :: ((Npos (XO (XI (XO (XO (XI (XI XH))))))) :: ((Npos (XI (XO
    (XI (XO (XO (XI XH))))))) :: ((Npos (XO (XO (XO (XO (XO
    XH)))))) :: ((Npos (XI (XO (XI (XI (XO XH)))))) :: ((Npos (XO (XI (XI (XI
    (XO XH)))))) :: ((Npos (XI (XI (XI (XI (XI XH)))))) :: ((Npos (XO (XI (XO
    (XO (XI (XI XH))))))) :: ((Npos (XO (XI (XO (XO (XO XH)))))) :: ((Npos
    (XO (XO (XO (XO (XO XH)))))) :: ((Npos (XO (XO (XI (XI (XI (XI
    XH))))))) :: ((Npos (XO (XO (XO (XO (XO XH)))))) :: ((Npos (XO (XO (XI
    (XI (XI (XO XH))))))) :: ((Npos (XO (XI (XO XH)))) :: ((Npos (XO (XO (XO
    (XO (XO XH)))))) :: ((Npos (XO (XO (XO (XO (XO XH)))))) :: ((Npos (XO (XO
    (XO (XO (XO XH)))))) :: ((Npos (XO (XO (XO (XO (XO XH)))))) :: ((Npos (XO
    (XO (XO (XO (XO XH)))))) :: ((Npos (XO (XO (XO (XO (XO XH)))))) :: ((Npos
    (XO (XO (XO (XO (XO XH)))))) :: ((Npos (XO (XO (XO (XO (XO
    XH)))))) :: ((Npos (XO (XO (XO (XO (XO XH)))))) :: ((Npos (XO (XO (XO (XO
    (XO XH)))))) :: ((Npos (XO (XO (XO (XO (XO XH)))))) :: ((Npos (XO (XO (XO
    (XO (XO XH)))))) :: ((Npos (XI (XI (XI (XO (XO (XI XH))))))) :: ((Npos
    (XO (XI (XO (XO (XI (XI XH))))))) :: ((Npos (XI (XO (XI (XO (XO (XI
    XH))))))) :: ((Npos (XO (XO (XO (XO (XI (XI XH))))))) :: ((Npos (XO (XO
    (XO (XO (XO XH)))))) :: ((Npos (XI (XO (XI (XI (XO XH)))))) :: ((Npos (XI
    (XO (XI (XO (XO (XO XH))))))) :: ((Npos (XO (XI (XI (XO (XI (XI
    XH))))))) :: ((Npos (XO (XO (XO (XO (XO XH)))))) :: ((Npos (XO (XI (XO
    (XO (XO XH)))))) :: ((Npos (XO (XI (XI (XI (XI (XO XH))))))) :: ((Npos
    (XO (XO (XI (XO (XO (XI XH))))))) :: ((Npos (XI (XO (XI (XO (XO (XI
    XH))))))) :: ((Npos (XI (XI (XO (XO (XO (XI XH))))))) :: ((Npos (XO (XO
    (XI (XI (XO (XI XH))))))) :: ((Npos (XI (XO (XO (XO (XO (XI
    XH))))))) :: ((Npos (XO (XI (XO (XO (XI (XI XH))))))) :: ((Npos (XI (XO
    (XI (XO (XO (XI XH))))))) :: ((Npos (XO (XO (XO (XO (XO
    XH)))))) :: ((Npos (XI (XO (XI (XI (XO XH)))))) :: ((Npos (XI (XI (XO (XI
    (XI (XO XH))))))) :: ((Npos (XI (XO (XO (XO (XO (XI XH))))))) :: ((Npos
    (XI (XO (XI (XI (XO XH)))))) :: ((Npos (XO (XI (XO (XI (XI (XI
    XH))))))) :: ((Npos (XI (XO (XO (XO (XO (XO XH))))))) :: ((Npos (XI (XO
    (XI (XI (XO XH)))))) :: ((Npos (XO (XI (XO (XI (XI (XO
    XH))))))) :: ((Npos (XI (XO (XI (XI (XO XH)))))) :: ((Npos (XI (XO (XI
    (XI (XI (XO XH))))))) :: ((Npos (XO (XI (XO (XI (XO XH)))))) :: ((Npos
    (XO (XO (XO (XO (XO XH)))))) :: ((Npos (XO (XO (XO (XI (XO
    XH)))))) :: ((Npos (XI (XI (XO (XI (XI (XI XH))))))) :: ((Npos (XI (XO
    (XI (XO (XO (XI XH))))))) :: ((Npos (XO (XO (XO (XI (XI (XI
    XH))))))) :: ((Npos (XI (XI (XO (XO (XO (XI XH))))))) :: ((Npos (XO (XO
    (XI (XI (XO (XI XH))))))) :: ((Npos (XI (XO (XI (XO (XI (XI
    XH))))))) :: ((Npos (XO (XO (XI (XO (XO (XI XH))))))) :: ((Npos (XI (XO
    (XI (XO (XO (XI XH))))))) :: ((Npos (XO (XO (XI (XO (XO (XI
    XH))))))) :: ((Npos (XI (XI (XI (XI (XI (XO XH))))))) :: ((Npos (XO (XI
    (XI (XO (XI (XI XH))))))) :: ((Npos (XI (XO (XO (XO (XO (XI
    XH))))))) :: ((Npos (XO (XI (XO (XO (XI (XI XH))))))) :: ((Npos (XI (XO
    (XO (XI (XO (XI XH))))))) :: ((Npos (XI (XO (XO (XO (XO (XI
    XH))))))) :: ((Npos (XO (XI (XO (XO (XO (XI XH))))))) :: ((Npos (XO (XO
    (XI (XI (XO (XI XH))))))) :: ((Npos (XI (XO (XI (XO (XO (XI
    XH))))))) :: ((Npos (XI (XI (XO (XO (XI (XI XH))))))) :: ((Npos (XI (XO
    (XI (XI (XI (XI XH))))))) :: ((Npos (XO (XO (XI (XI (XI (XI
    XH))))))) :: ((Npos (XI (XI (XO (XI (XI (XO XH))))))) :: ((Npos (XO (XI
    (XI (XI (XI (XO XH))))))) :: ((Npos (XI (XO (XI (XI (XI
    XH)))))) :: ((Npos (XI (XO (XI (XI (XI (XO XH))))))) :: ((Npos (XO (XI
    (XO (XI (XO XH)))))) :: ((Npos (XI (XI (XO (XI (XI (XO
    XH))))))) :: ((Npos (XO (XI (XI (XI (XI (XO XH))))))) :: ((Npos (XI (XO
    (XO (XO (XO (XI XH))))))) :: ((Npos (XI (XO (XI (XI (XO
    XH)))))) :: ((Npos (XO (XI (XO (XI (XI (XI XH))))))) :: ((Npos (XI (XO
    (XO (XO (XO (XO XH))))))) :: ((Npos (XI (XO (XI (XI (XO
    XH)))))) :: ((Npos (XO (XI (XO (XI (XI (XO XH))))))) :: ((Npos (XO (XO
    (XO (XO (XI XH)))))) :: ((Npos (XI (XO (XI (XI (XO XH)))))) :: ((Npos (XI
    (XO (XO (XI (XI XH)))))) :: ((Npos (XI (XI (XI (XI (XI (XO
    XH))))))) :: ((Npos (XI (XO (XI (XI (XI XH)))))) :: ((Npos (XI (XO (XI
    (XI (XI (XO XH))))))) :: ((Npos (XI (XI (XO (XI (XI (XO
    XH))))))) :: ((Npos (XO (XI (XI (XI (XI (XO XH))))))) :: ((Npos (XI (XO
    (XI (XI (XI XH)))))) :: ((Npos (XI (XO (XI (XI (XI (XO
    XH))))))) :: ((Npos (XO (XI (XO (XI (XO XH)))))) :: ((Npos (XI (XO (XO
    (XI (XO XH)))))) :: ((Npos (XO (XO (XO (XI (XO XH)))))) :: ((Npos (XI (XO
    (XI (XI (XI XH)))))) :: ((Npos (XO (XO (XI (XI (XI (XI
    XH))))))) :: ((Npos (XO (XO (XI (XI (XI (XO XH))))))) :: ((Npos (XO (XO
    (XI (XO (XO XH)))))) :: ((Npos (XI (XO (XO (XI (XO XH)))))) :: ((Npos (XO
    (XI (XO (XO (XO XH)))))) :: ((Npos (XO (XI (XO XH)))) :: ((Npos (XO (XI
    (XO XH)))) :: ((Npos (XO (XO (XO (XO (XO XH)))))) :: ((Npos (XO (XO (XO
    (XO (XO XH)))))) :: ((Npos (XO (XO (XO (XO (XO XH)))))) :: ((Npos (XO (XO
    (XO (XO (XO XH)))))) :: ((Npos (XO (XO (XO (XO (XO XH)))))) :: ((Npos (XO
    (XO (XO (XO (XO XH)))))) :: ((Npos (XO (XO (XO (XO (XO XH)))))) :: ((Npos
    (XO (XO (XO (XO (XO XH)))))) :: ((Npos (XI (XI (XO (XO (XO
    XH)))))) :: ((Npos (XO (XO (XO (XO (XO XH)))))) :: ((Npos (XI (XO (XI (XO
    (XO (XI XH))))))) :: ((Npos (XO (XI (XI (XI (XO (XI XH))))))) :: ((Npos
    (XI (XI (XO (XO (XI (XI XH))))))) :: ((Npos (XI (XO (XI (XO (XI (XI
    XH))))))) :: ((Npos (XO (XI (XO (XO (XI (XI XH))))))) :: ((Npos (XI (XO
    (XI (XO (XO (XI XH))))))) :: ((Npos (XO (XO (XO (XO (XO
    XH)))))) :: ((Npos (XO (XO (XI (XO (XO (XI XH))))))) :: ((Npos (XI (XO
    (XO (XI (XO (XI XH))))))) :: ((Npos (XO (XI (XO (XO (XI (XI
    XH))))))) :: ((Npos (XI (XO (XI (XO (XO (XI XH))))))) :: ((Npos (XI (XI
    (XO (XO (XO (XI XH))))))) :: ((Npos (XO (XO (XI (XO (XI (XI
    XH))))))) :: ((Npos (XI (XI (XI (XI (XO (XI XH))))))) :: ((Npos (XO (XI
    (XO (XO (XI (XI XH))))))) :: ((Npos (XI (XO (XO (XI (XI (XI
    XH))))))) :: ((Npos (XO (XO (XO (XO (XO XH)))))) :: ((Npos (XI (XI (XO
    (XO (XI (XI XH))))))) :: ((Npos (XO (XO (XI (XO (XI (XI
    XH))))))) :: ((Npos (XI (XO (XO (XO (XO (XI XH))))))) :: ((Npos (XI (XI
    (XO (XO (XO (XI XH))))))) :: ((Npos (XI (XI (XO (XI (XO (XI
    XH))))))) :: ((Npos (XO (XO (XO (XO (XO XH)))))) :: ((Npos (XI (XI (XO
    (XO (XI (XI XH))))))) :: ((Npos (XO (XO (XI (XO (XI (XI
    XH))))))) :: ((Npos (XI (XO (XO (XO (XO (XI XH))))))) :: ((Npos (XO (XI
    (XO (XO (XI (XI XH))))))) :: ((Npos (XO (XO (XI (XO (XI (XI
    XH))))))) :: ((Npos (XI (XI (XO (XO (XI (XI XH))))))) :: ((Npos (XO (XO
    (XO (XO (XO XH)))))) :: ((Npos (XI (XO (XO (XO (XO (XI
    XH))))))) :: ((Npos (XO (XO (XI (XO (XI (XI XH))))))) :: ((Npos (XO (XO
    (XO (XO (XO XH)))))) :: ((Npos (XI (XI (XO (XO (XI (XI
    XH))))))) :: ((Npos (XI (XO (XO (XO (XO (XI XH))))))) :: ((Npos (XI (XO
    (XI (XI (XO (XI XH))))))) :: ((Npos (XI (XO (XI (XO (XO (XI
    XH))))))) :: ((Npos (XO (XO (XO (XO (XO XH)))))) :: ((Npos (XO (XO (XO
    (XO (XI (XI XH))))))) :: ((Npos (XI (XI (XI (XI (XO (XI
    XH))))))) :: ((Npos (XI (XI (XO (XO (XI (XI XH))))))) :: ((Npos (XI (XO
    (XO (XI (XO (XI XH))))))) :: ((Npos (XO (XO (XI (XO (XI (XI
    XH))))))) :: ((Npos (XI (XO (XO (XI (XO (XI XH))))))) :: ((Npos (XI (XI
    (XI (XI (XO (XI XH))))))) :: ((Npos (XO (XI (XI (XI (XO (XI
    XH))))))) :: ((Npos (XO (XI (XO XH)))) :: ((Npos (XO (XO (XO (XO (XO
    XH)))))) :: ((Npos (XO (XO (XO (XO (XO XH)))))) :: ((Npos (XO (XO (XO (XO
    (XO XH)))))) :: ((Npos (XO (XO (XO (XO (XO XH)))))) :: ((Npos (XO (XO (XO
    (XO (XO XH)))))) :: ((Npos (XO (XO (XO (XO (XO XH)))))) :: ((Npos (XO (XO
    (XO (XO (XO XH)))))) :: ((Npos (XO (XO (XO (XO (XO XH)))))) :: ((Npos (XO
    (XO (XO (XO (XI (XI XH))))))) :: ((Npos (XO (XI (XO (XO (XI (XI
    XH))))))) :: ((Npos (XI (XO (XO (XI (XO (XI XH))))))) :: ((Npos (XO (XI
    (XI (XI (XO (XI XH))))))) :: ((Npos (XO (XO (XI (XO (XI (XI
    XH))))))) :: ((Npos (XO (XI (XI (XO (XO (XI XH))))))) :: ((Npos (XO (XO
    (XO (XO (XO XH)))))) :: ((Npos (XO (XI (XO (XO (XO XH)))))) :: ((Npos (XI
    (XI (XO (XO (XO (XI XH))))))) :: ((Npos (XO (XO (XI (XO (XO (XI
    XH))))))) :: ((Npos (XO (XO (XO (XO (XO XH)))))) :: ((Npos (XI (XO (XI
    (XO (XO XH)))))) :: ((Npos (XI (XO (XO (XO (XI (XI XH))))))) :: ((Npos
    (XO (XO (XO (XO (XO XH)))))) :: ((Npos (XO (XI (XO (XO (XI
    XH)))))) :: ((Npos (XO (XI (XI (XI (XI XH)))))) :: ((Npos (XI (XI (XI (XI
    (XO XH)))))) :: ((Npos (XO (XO (XI (XO (XO (XI XH))))))) :: ((Npos (XI
    (XO (XI (XO (XO (XI XH))))))) :: ((Npos (XO (XI (XI (XO (XI (XI
    XH))))))) :: ((Npos (XI (XI (XI (XI (XO XH)))))) :: ((Npos (XO (XI (XI
    (XI (XO (XI XH))))))) :: ((Npos (XI (XO (XI (XO (XI (XI
    XH))))))) :: ((Npos (XO (XO (XI (XI (XO (XI XH))))))) :: ((Npos (XO (XO
    (XI (XI (XO (XI XH))))))) :: ((Npos (XO (XO (XI (XI (XI (XO
    XH))))))) :: ((Npos (XO (XI (XI (XI (XO (XI XH))))))) :: ((Npos (XO (XI
    (XO (XO (XO XH)))))) :: ((Npos (XO (XO (XO (XO (XO XH)))))) :: ((Npos (XO
    (XI (XO (XO (XO XH)))))) :: ((Npos (XO (XO (XI (XO (XO XH)))))) :: ((Npos
    (XI (XI (XO (XI (XI (XI XH))))))) :: ((Npos (XO (XO (XI (XO (XO (XO
    XH))))))) :: ((Npos (XI (XO (XO (XI (XO (XO XH))))))) :: ((Npos (XO (XI
    (XO (XO (XI (XO XH))))))) :: ((Npos (XI (XI (XO (XO (XI (XO
    XH))))))) :: ((Npos (XO (XO (XI (XO (XI (XO XH))))))) :: ((Npos (XI (XO
    (XO (XO (XO (XO XH))))))) :: ((Npos (XI (XI (XO (XO (XO (XO
    XH))))))) :: ((Npos (XI (XI (XO (XI (XO (XO XH))))))) :: ((Npos (XI (XI
    (XO (XI (XI (XO XH))))))) :: ((Npos (XO (XO (XI (XO (XO
    XH)))))) :: ((Npos (XI (XI (XO (XI (XI (XI XH))))))) :: ((Npos (XI (XI
    (XO (XO (XO XH)))))) :: ((Npos (XO (XO (XI (XO (XO (XO
    XH))))))) :: ((Npos (XI (XO (XO (XI (XO (XO XH))))))) :: ((Npos (XO (XI
    (XO (XO (XI (XO XH))))))) :: ((Npos (XI (XI (XO (XO (XI (XO
    XH))))))) :: ((Npos (XO (XO (XI (XO (XI (XO XH))))))) :: ((Npos (XI (XO
    (XO (XO (XO (XO XH))))))) :: ((Npos (XI (XI (XO (XO (XO (XO
    XH))))))) :: ((Npos (XI (XI (XO (XI (XO (XO XH))))))) :: ((Npos (XI (XI
    (XO (XI (XI (XO XH))))))) :: ((Npos (XO (XO (XO (XO (XO (XO
    XH))))))) :: ((Npos (XI (XO (XI (XI (XI (XO XH))))))) :: ((Npos (XI (XO
    (XI (XI (XI (XI XH))))))) :: ((Npos (XO (XO (XO (XO (XO
    XH)))))) :: ((Npos (XI (XO (XI (XI (XO XH)))))) :: ((Npos (XO (XO (XO (XO
    (XO XH)))))) :: ((Npos (XI (XO (XO (XO (XI XH)))))) :: ((Npos (XI (XO (XI
    (XI (XI (XO XH))))))) :: ((Npos (XI (XO (XI (XI (XI (XI
    XH))))))) :: ((Npos (XO (XI (XO (XO (XO XH)))))) :: ((Npos (XO (XI (XO
    XH)))) :: ((Npos (XO (XI (XO XH)))) :: ((Npos (XO (XO (XO (XO (XO
    XH)))))) :: ((Npos (XO (XO (XO (XO (XO XH)))))) :: ((Npos (XO (XO (XO (XO
    (XO XH)))))) :: ((Npos (XO (XO (XO (XO (XO XH)))))) :: ((Npos (XO (XO (XO
    (XO (XO XH)))))) :: ((Npos (XO (XO (XO (XO (XO XH)))))) :: ((Npos (XO (XO
    (XO (XO (XO XH)))))) :: ((Npos (XO (XO (XO (XO (XO XH)))))) :: ((Npos (XI
    (XI (XO (XO (XO XH)))))) :: ((Npos (XO (XO (XO (XO (XO XH)))))) :: ((Npos
    (XI (XI (XO (XO (XI (XI XH))))))) :: ((Npos (XO (XO (XI (XO (XI (XI
    XH))))))) :: ((Npos (XI (XI (XI (XI (XO (XI XH))))))) :: ((Npos (XO (XI
    (XO (XO (XI (XI XH))))))) :: ((Npos (XI (XO (XI (XO (XO (XI
    XH))))))) :: ((Npos (XO (XO (XO (XO (XO XH)))))) :: ((Npos (XO (XO (XI
    (XO (XI (XI XH))))))) :: ((Npos (XO (XO (XO (XI (XO (XI
    XH))))))) :: ((Npos (XI (XO (XI (XO (XO (XI XH))))))) :: ((Npos (XO (XO
    (XO (XO (XO XH)))))) :: ((Npos (XI (XI (XO (XO (XO (XI
    XH))))))) :: ((Npos (XI (XO (XI (XO (XI (XI XH))))))) :: ((Npos (XO (XI
    (XO (XO (XI (XI XH))))))) :: ((Npos (XO (XI (XO (XO (XI (XI
    XH))))))) :: ((Npos (XI (XO (XI (XO (XO (XI XH))))))) :: ((Npos (XO (XI
    (XI (XI (XO (XI XH))))))) :: ((Npos (XO (XO (XI (XO (XI (XI
    XH))))))) :: ((Npos (XO (XO (XO (XO (XO XH)))))) :: ((Npos (XO (XO (XI
    (XO (XO (XI XH))))))) :: ((Npos (XI (XO (XO (XI (XO (XI
    XH))))))) :: ((Npos (XO (XI (XO (XO (XI (XI XH))))))) :: ((Npos (XI (XO
    (XI (XO (XO (XI XH))))))) :: ((Npos (XI (XI (XO (XO (XO (XI
    XH))))))) :: ((Npos (XO (XO (XI (XO (XI (XI XH))))))) :: ((Npos (XI (XI
    (XI (XI (XO (XI XH))))))) :: ((Npos (XO (XI (XO (XO (XI (XI
    XH))))))) :: ((Npos (XI (XO (XO (XI (XI (XI XH))))))) :: ((Npos (XO (XO
    (XO (XO (XO XH)))))) :: ((Npos (XI (XI (XO (XO (XI (XI
    XH))))))) :: ((Npos (XO (XO (XI (XO (XI (XI XH))))))) :: ((Npos (XI (XO
    (XO (XO (XO (XI XH))))))) :: ((Npos (XI (XI (XO (XO (XO (XI
    XH))))))) :: ((Npos (XI (XI (XO (XI (XO (XI XH))))))) :: ((Npos (XO (XO
    (XO (XO (XO XH)))))) :: ((Npos (XO (XO (XO (XI (XO XH)))))) :: ((Npos (XO
    (XO (XO (XO (XI (XI XH))))))) :: ((Npos (XI (XO (XI (XO (XI (XI
    XH))))))) :: ((Npos (XI (XI (XO (XO (XI (XI XH))))))) :: ((Npos (XO (XO
    (XO (XI (XO (XI XH))))))) :: ((Npos (XO (XO (XI (XO (XO (XI
    XH))))))) :: ((Npos (XO (XO (XO (XO (XO XH)))))) :: ((Npos (XI (XI (XI
    (XI (XO XH)))))) :: ((Npos (XO (XO (XO (XO (XO XH)))))) :: ((Npos (XO (XO
    (XO (XO (XI (XI XH))))))) :: ((Npos (XI (XI (XI (XI (XO (XI
    XH))))))) :: ((Npos (XO (XO (XO (XO (XI (XI XH))))))) :: ((Npos (XO (XO
    (XI (XO (XO (XI XH))))))) :: ((Npos (XI (XO (XO (XI (XO
    XH)))))) :: ((Npos (XO (XI (XO XH)))) :: ((Npos (XO (XO (XO (XO (XO
    XH)))))) :: ((Npos (XO (XO (XO (XO (XO XH)))))) :: ((Npos (XO (XO (XO (XO
    (XO XH)))))) :: ((Npos (XO (XO (XO (XO (XO XH)))))) :: ((Npos (XO (XO (XO
    (XO (XO XH)))))) :: ((Npos (XO (XO (XO (XO (XO XH)))))) :: ((Npos (XO (XO
    (XO (XO (XO XH)))))) :: ((Npos (XO (XO (XO (XO (XO XH)))))) :: ((Npos (XO
    (XO (XO (XO (XI (XI XH))))))) :: ((Npos (XO (XI (XO (XO (XI (XI
    XH))))))) :: ((Npos (XI (XO (XO (XI (XO (XI XH))))))) :: ((Npos (XO (XI
    (XI (XI (XO (XI XH))))))) :: ((Npos (XO (XO (XI (XO (XI (XI
    XH))))))) :: ((Npos (XO (XI (XI (XO (XO (XI XH))))))) :: ((Npos (XO (XO
    (XO (XO (XO XH)))))) :: ((Npos (XO (XI (XO (XO (XO XH)))))) :: ((Npos (XO
    (XO (XO (XO (XI (XI XH))))))) :: ((Npos (XI (XO (XI (XO (XI (XI
    XH))))))) :: ((Npos (XI (XI (XO (XO (XI (XI XH))))))) :: ((Npos (XO (XO
    (XO (XI (XO (XI XH))))))) :: ((Npos (XO (XO (XI (XO (XO (XI
    XH))))))) :: ((Npos (XO (XO (XO (XO (XO XH)))))) :: ((Npos (XI (XO (XI
    (XO (XO XH)))))) :: ((Npos (XI (XO (XO (XO (XI (XI XH))))))) :: ((Npos
    (XO (XO (XO (XO (XO XH)))))) :: ((Npos (XO (XI (XI (XI (XI
    XH)))))) :: ((Npos (XI (XI (XI (XI (XO XH)))))) :: ((Npos (XO (XO (XI (XO
    (XO (XI XH))))))) :: ((Npos (XI (XO (XI (XO (XO (XI XH))))))) :: ((Npos
    (XO (XI (XI (XO (XI (XI XH))))))) :: ((Npos (XI (XI (XI (XI (XO
    XH)))))) :: ((Npos (XO (XI (XI (XI (XO (XI XH))))))) :: ((Npos (XI (XO
    (XI (XO (XI (XI XH))))))) :: ((Npos (XO (XO (XI (XI (XO (XI
    XH))))))) :: ((Npos (XO (XO (XI (XI (XO (XI XH))))))) :: ((Npos (XO (XO
    (XO (XO (XO XH)))))) :: ((Npos (XO (XI (XO (XO (XI XH)))))) :: ((Npos (XO
    (XI (XI (XI (XI XH)))))) :: ((Npos (XI (XI (XI (XI (XO XH)))))) :: ((Npos
    (XO (XO (XI (XO (XO (XI XH))))))) :: ((Npos (XI (XO (XI (XO (XO (XI
    XH))))))) :: ((Npos (XO (XI (XI (XO (XI (XI XH))))))) :: ((Npos (XI (XI
    (XI (XI (XO XH)))))) :: ((Npos (XO (XI (XI (XI (XO (XI
    XH))))))) :: ((Npos (XI (XO (XI (XO (XI (XI XH))))))) :: ((Npos (XO (XO
    (XI (XI (XO (XI XH))))))) :: ((Npos (XO (XO (XI (XI (XO (XI
    XH))))))) :: ((Npos (XO (XO (XI (XI (XI (XO XH))))))) :: ((Npos (XO (XI
    (XI (XI (XO (XI XH))))))) :: ((Npos (XO (XI (XO (XO (XO
    XH)))))) :: ((Npos (XO (XO (XO (XO (XO XH)))))) :: ((Npos (XO (XI (XO (XO
    (XO XH)))))) :: ((Npos (XO (XO (XI (XO (XO XH)))))) :: ((Npos (XI (XI (XO
    (XI (XI (XI XH))))))) :: ((Npos (XO (XO (XI (XO (XO (XO
    XH))))))) :: ((Npos (XI (XO (XO (XI (XO (XO XH))))))) :: ((Npos (XO (XI
    (XO (XO (XI (XO XH))))))) :: ((Npos (XI (XI (XO (XO (XI (XO
    XH))))))) :: ((Npos (XO (XO (XI (XO (XI (XO XH))))))) :: ((Npos (XI (XO
    (XO (XO (XO (XO XH))))))) :: ((Npos (XI (XI (XO (XO (XO (XO
    XH))))))) :: ((Npos (XI (XI (XO (XI (XO (XO XH))))))) :: ((Npos (XI (XI
    (XO (XI (XI (XO XH))))))) :: ((Npos (XO (XO (XO (XO (XO (XO
    XH))))))) :: ((Npos (XI (XO (XI (XI (XI (XO XH))))))) :: ((Npos (XI (XO
    (XI (XI (XI (XI XH))))))) :: ((Npos (XO (XI (XO (XO (XO
    XH)))))) :: ((Npos (XO (XO (XO (XO (XO XH)))))) :: ((Npos (XO (XO (XI (XI
    (XI (XI XH))))))) :: ((Npos (XO (XO (XO (XO (XO XH)))))) :: ((Npos (XI
    (XI (XO (XO (XI (XI XH))))))) :: ((Npos (XI (XO (XI (XO (XO (XI
    XH))))))) :: ((Npos (XO (XO (XI (XO (XO (XI XH))))))) :: ((Npos (XO (XO
    (XO (XO (XO XH)))))) :: ((Npos (XI (XI (XI (XO (XO XH)))))) :: ((Npos (XI
    (XO (XO (XO (XI XH)))))) :: ((Npos (XI (XO (XO (XO (XO XH)))))) :: ((Npos
    (XI (XI (XI (XO (XO (XO XH))))))) :: ((Npos (XI (XI (XO (XI (XI
    XH)))))) :: ((Npos (XO (XO (XO (XI (XO (XI XH))))))) :: ((Npos (XI (XI
    (XO (XI (XI XH)))))) :: ((Npos (XO (XO (XI (XO (XO XH)))))) :: ((Npos (XI
    (XO (XO (XO (XO XH)))))) :: ((Npos (XO (XO (XI (XO (XO (XI
    XH))))))) :: ((Npos (XI (XI (XI (XO (XO XH)))))) :: ((Npos (XO (XO (XO
    (XO (XO XH)))))) :: ((Npos (XO (XO (XI (XI (XI (XI XH))))))) :: ((Npos
    (XO (XO (XO (XO (XO XH)))))) :: ((Npos (XO (XO (XI (XO (XI (XI
    XH))))))) :: ((Npos (XI (XO (XO (XO (XO (XI XH))))))) :: ((Npos (XI (XO
    (XO (XI (XO (XI XH))))))) :: ((Npos (XO (XO (XI (XI (XO (XI
    XH))))))) :: ((Npos (XO (XO (XO (XO (XO XH)))))) :: ((Npos (XI (XO (XI
    (XI (XO XH)))))) :: ((Npos (XO (XI (XI (XI (XO (XI XH))))))) :: ((Npos
    (XO (XO (XO (XO (XO XH)))))) :: ((Npos (XI (XI (XO (XI (XO
    XH)))))) :: ((Npos (XO (XI (XO (XO (XI XH)))))) :: ((Npos (XO (XI (XO
    XH)))) :: ((Npos (XO (XI (XO XH)))) :: ((Npos (XO (XO (XO (XO (XO
    XH)))))) :: ((Npos (XO (XO (XO (XO (XO XH)))))) :: ((Npos (XO (XO (XO (XO
    (XO XH)))))) :: ((Npos (XO (XO (XO (XO (XO XH)))))) :: ((Npos (XO (XO (XO
    (XO (XO XH)))))) :: ((Npos (XO (XO (XO (XO (XO XH)))))) :: ((Npos (XO (XO
    (XO (XO (XO XH)))))) :: ((Npos (XO (XO (XO (XO (XO XH)))))) :: ((Npos (XI
    (XI (XO (XO (XO XH)))))) :: ((Npos (XO (XO (XO (XO (XO XH)))))) :: ((Npos
    (XO (XO (XI (XO (XI (XI XH))))))) :: ((Npos (XO (XO (XO (XI (XO (XI
    XH))))))) :: ((Npos (XI (XO (XI (XO (XO (XI XH))))))) :: ((Npos (XO (XO
    (XO (XO (XO XH)))))) :: ((Npos (XO (XO (XI (XO (XO (XI
    XH))))))) :: ((Npos (XI (XO (XO (XI (XO (XI XH))))))) :: ((Npos (XO (XI
    (XO (XO (XI (XI XH))))))) :: ((Npos (XI (XO (XI (XO (XO (XI
    XH))))))) :: ((Npos (XI (XI (XO (XO (XO (XI XH))))))) :: ((Npos (XO (XO
    (XI (XO (XI (XI XH))))))) :: ((Npos (XI (XI (XI (XI (XO (XI
    XH))))))) :: ((Npos (XO (XI (XO (XO (XI (XI XH))))))) :: ((Npos (XI (XO
    (XO (XI (XI (XI XH))))))) :: ((Npos (XO (XO (XO (XO (XO
    XH)))))) :: ((Npos (XI (XI (XO (XO (XO (XI XH))))))) :: ((Npos (XO (XO
    (XO (XI (XO (XI XH))))))) :: ((Npos (XI (XO (XO (XO (XO (XI
    XH))))))) :: ((Npos (XO (XI (XI (XI (XO (XI XH))))))) :: ((Npos (XI (XI
    (XI (XO (XO (XI XH))))))) :: ((Npos (XI (XO (XI (XO (XO (XI
    XH))))))) :: ((Npos (XI (XI (XO (XO (XI (XI XH))))))) :: ((Npos (XO (XO
    (XO (XO (XO XH)))))) :: ((Npos (XI (XO (XO (XO (XO (XI
    XH))))))) :: ((Npos (XO (XI (XO (XO (XO (XI XH))))))) :: ((Npos (XI (XI
    (XI (XI (XO (XI XH))))))) :: ((Npos (XO (XI (XI (XO (XI (XI
    XH))))))) :: ((Npos (XI (XO (XI (XO (XO (XI XH))))))) :: ((Npos (XO (XO
    (XO (XO (XO XH)))))) :: ((Npos (XO (XO (XO (XI (XO (XI
    XH))))))) :: ((Npos (XI (XO (XO (XO (XO (XI XH))))))) :: ((Npos (XO (XI
    (XI (XO (XI (XI XH))))))) :: ((Npos (XI (XO (XI (XO (XO (XI
    XH))))))) :: ((Npos (XO (XO (XO (XO (XO XH)))))) :: ((Npos (XI (XI (XO
    (XO (XI (XI XH))))))) :: ((Npos (XI (XO (XI (XO (XO (XI
    XH))))))) :: ((Npos (XO (XO (XI (XO (XI (XI XH))))))) :: ((Npos (XO (XO
    (XO (XO (XO XH)))))) :: ((Npos (XI (XI (XI (XI (XO (XO
    XH))))))) :: ((Npos (XO (XO (XI (XI (XO (XO XH))))))) :: ((Npos (XO (XO
    (XI (XO (XO (XO XH))))))) :: ((Npos (XO (XO (XO (XO (XI (XO
    XH))))))) :: ((Npos (XI (XI (XI (XO (XI (XO XH))))))) :: ((Npos (XO (XO
    (XI (XO (XO (XO XH))))))) :: ((Npos (XO (XI (XO (XI (XI
    XH)))))) :: ((Npos (XO (XO (XO (XO (XO XH)))))) :: ((Npos (XO (XO (XO (XO
    (XI (XI XH))))))) :: ((Npos (XI (XO (XI (XO (XI (XI XH))))))) :: ((Npos
    (XO (XO (XI (XO (XI (XI XH))))))) :: ((Npos (XO (XO (XO (XO (XO
    XH)))))) :: ((Npos (XO (XI (XO (XO (XO (XI XH))))))) :: ((Npos (XI (XO
    (XO (XO (XO (XI XH))))))) :: ((Npos (XI (XI (XO (XO (XO (XI
    XH))))))) :: ((Npos (XI (XI (XO (XI (XO (XI XH))))))) :: ((Npos (XO (XO
    (XO (XO (XO XH)))))) :: ((Npos (XI (XI (XI (XO (XI (XI
    XH))))))) :: ((Npos (XO (XO (XO (XI (XO (XI XH))))))) :: ((Npos (XI (XO
    (XO (XO (XO (XI XH))))))) :: ((Npos (XO (XO (XI (XO (XI (XI
    XH))))))) :: ((Npos (XO (XO (XO (XO (XO XH)))))) :: ((Npos (XO (XO (XO
    (XO (XO (XI XH))))))) :: ((Npos (XI (XI (XO (XO (XO (XI
    XH))))))) :: ((Npos (XO (XO (XI (XO (XO (XI XH))))))) :: ((Npos (XO (XO
    (XO (XO (XO XH)))))) :: ((Npos (XI (XO (XI (XI (XO XH)))))) :: ((Npos (XO
    (XO (XO (XO (XO (XI XH))))))) :: ((Npos (XO (XO (XO (XO (XO
    XH)))))) :: ((Npos (XI (XI (XI (XO (XI (XI XH))))))) :: ((Npos (XI (XI
    (XI (XI (XO (XI XH))))))) :: ((Npos (XI (XO (XI (XO (XI (XI
    XH))))))) :: ((Npos (XO (XO (XI (XI (XO (XI XH))))))) :: ((Npos (XO (XO
    (XI (XO (XO (XI XH))))))) :: ((Npos (XO (XO (XO (XO (XO
    XH)))))) :: ((Npos (XI (XI (XI (XO (XO (XI XH))))))) :: ((Npos (XI (XI
    (XI (XI (XO (XI XH))))))) :: ((Npos (XO (XO (XO (XO (XO
    XH)))))) :: ((Npos (XO (XO (XI (XO (XI (XI XH))))))) :: ((Npos (XI (XI
    (XI (XI (XO (XI XH))))))) :: ((Npos (XO (XI (XO XH)))) :: ((Npos (XO (XO
    (XO (XO (XO XH)))))) :: ((Npos (XO (XO (XO (XO (XO XH)))))) :: ((Npos (XO
    (XO (XO (XO (XO XH)))))) :: ((Npos (XO (XO (XO (XO (XO XH)))))) :: ((Npos
    (XO (XO (XO (XO (XO XH)))))) :: ((Npos (XO (XO (XO (XO (XO
    XH)))))) :: ((Npos (XO (XO (XO (XO (XO XH)))))) :: ((Npos (XO (XO (XO (XO
    (XO XH)))))) :: ((Npos (XI (XO (XO (XI (XO (XI XH))))))) :: ((Npos (XO
    (XI (XI (XO (XO (XI XH))))))) :: ((Npos (XO (XO (XO (XO (XO
    XH)))))) :: ((Npos (XI (XI (XO (XI (XI (XO XH))))))) :: ((Npos (XO (XO
    (XO (XO (XO XH)))))) :: ((Npos (XI (XO (XI (XI (XO XH)))))) :: ((Npos (XO
    (XI (XI (XI (XO (XI XH))))))) :: ((Npos (XO (XO (XO (XO (XO
    XH)))))) :: ((Npos (XO (XI (XO (XO (XO XH)))))) :: ((Npos (XO (XO (XI (XO
    (XO XH)))))) :: ((Npos (XI (XI (XO (XI (XI (XI XH))))))) :: ((Npos (XI
    (XI (XI (XI (XO (XO XH))))))) :: ((Npos (XO (XO (XI (XI (XO (XO
    XH))))))) :: ((Npos (XO (XO (XI (XO (XO (XO XH))))))) :: ((Npos (XO (XO
    (XO (XO (XI (XO XH))))))) :: ((Npos (XI (XI (XI (XO (XI (XO
    XH))))))) :: ((Npos (XO (XO (XI (XO (XO (XO XH))))))) :: ((Npos (XI (XI
    (XO (XI (XO XH)))))) :: ((Npos (XO (XO (XO (XI (XI (XI
    XH))))))) :: ((Npos (XI (XO (XI (XI (XI (XI XH))))))) :: ((Npos (XO (XI
    (XO (XO (XO XH)))))) :: ((Npos (XO (XO (XO (XO (XO XH)))))) :: ((Npos (XI
    (XO (XI (XI (XI (XO XH))))))) :: ((Npos (XI (XI (XO (XI (XI
    XH)))))) :: ((Npos (XO (XO (XO (XO (XO XH)))))) :: ((Npos (XO (XO (XI (XO
    (XI (XI XH))))))) :: ((Npos (XO (XO (XO (XI (XO (XI XH))))))) :: ((Npos
    (XI (XO (XI (XO (XO (XI XH))))))) :: ((Npos (XO (XI (XI (XI (XO (XI
    XH))))))) :: ((Npos (XO (XO (XO (XO (XO XH)))))) :: ((Npos (XO (XO (XO
    (XO (XI (XI XH))))))) :: ((Npos (XO (XI (XO (XO (XI (XI
    XH))))))) :: ((Npos (XI (XO (XO (XI (XO (XI XH))))))) :: ((Npos (XO (XI
    (XI (XI (XO (XI XH))))))) :: ((Npos (XO (XO (XI (XO (XI (XI
    XH))))))) :: ((Npos (XO (XI (XI (XO (XO (XI XH))))))) :: ((Npos (XO (XO
    (XO (XO (XO XH)))))) :: ((Npos (XO (XI (XO (XO (XO XH)))))) :: ((Npos (XI
    (XI (XI (XI (XO (XO XH))))))) :: ((Npos (XO (XO (XI (XI (XO (XO
    XH))))))) :: ((Npos (XO (XO (XI (XO (XO (XO XH))))))) :: ((Npos (XO (XO
    (XO (XO (XI (XO XH))))))) :: ((Npos (XI (XI (XI (XO (XI (XO
    XH))))))) :: ((Npos (XO (XO (XI (XO (XO (XO XH))))))) :: ((Npos (XI (XO
    (XI (XI (XI XH)))))) :: ((Npos (XI (XO (XI (XO (XO XH)))))) :: ((Npos (XI
    (XO (XO (XO (XI (XI XH))))))) :: ((Npos (XO (XO (XI (XI (XI (XO
    XH))))))) :: ((Npos (XO (XI (XI (XI (XO (XI XH))))))) :: ((Npos (XO (XI
    (XO (XO (XO XH)))))) :: ((Npos (XO (XO (XO (XO (XO XH)))))) :: ((Npos (XO
    (XI (XO (XO (XO XH)))))) :: ((Npos (XO (XO (XI (XO (XO XH)))))) :: ((Npos
    (XI (XI (XI (XI (XO (XO XH))))))) :: ((Npos (XO (XO (XI (XI (XO (XO
    XH))))))) :: ((Npos (XO (XO (XI (XO (XO (XO XH))))))) :: ((Npos (XO (XO
    (XO (XO (XI (XO XH))))))) :: ((Npos (XI (XI (XI (XO (XI (XO
    XH))))))) :: ((Npos (XO (XO (XI (XO (XO (XO XH))))))) :: ((Npos (XO (XI
    (XO (XO (XO XH)))))) :: ((Npos (XI (XI (XO (XI (XI XH)))))) :: ((Npos (XO
    (XO (XO (XO (XO XH)))))) :: ((Npos (XI (XO (XI (XO (XO (XI
    XH))))))) :: ((Npos (XO (XO (XI (XI (XO (XI XH))))))) :: ((Npos (XI (XI
    (XO (XO (XI (XI XH))))))) :: ((Npos (XI (XO (XI (XO (XO (XI
    XH))))))) :: ((Npos (XO (XO (XO (XO (XO XH)))))) :: ((Npos (XI (XO (XI
    (XO (XO (XI XH))))))) :: ((Npos (XI (XI (XO (XO (XO (XI
    XH))))))) :: ((Npos (XO (XO (XO (XI (XO (XI XH))))))) :: ((Npos (XI (XI
    (XI (XI (XO (XI XH))))))) :: ((Npos (XO (XO (XO (XO (XO
    XH)))))) :: ((Npos (XO (XI (XO (XO (XO XH)))))) :: ((Npos (XI (XO (XI (XO
    (XI (XI XH))))))) :: ((Npos (XO (XI (XI (XI (XO (XI XH))))))) :: ((Npos
    (XI (XI (XO (XO (XI (XI XH))))))) :: ((Npos (XI (XO (XI (XO (XO (XI
    XH))))))) :: ((Npos (XO (XO (XI (XO (XI (XI XH))))))) :: ((Npos (XO (XO
    (XO (XO (XO XH)))))) :: ((Npos (XI (XI (XI (XI (XO (XO
    XH))))))) :: ((Npos (XO (XO (XI (XI (XO (XO XH))))))) :: ((Npos (XO (XO
    (XI (XO (XO (XO XH))))))) :: ((Npos (XO (XO (XO (XO (XI (XO
    XH))))))) :: ((Npos (XI (XI (XI (XO (XI (XO XH))))))) :: ((Npos (XO (XO
    (XI (XO (XO (XO XH))))))) :: ((Npos (XO (XI (XO (XO (XO
    XH)))))) :: ((Npos (XI (XI (XO (XI (XI XH)))))) :: ((Npos (XO (XO (XO (XO
    (XO XH)))))) :: ((Npos (XO (XI (XI (XO (XO (XI XH))))))) :: ((Npos (XI
    (XO (XO (XI (XO (XI XH))))))) :: ((Npos (XO (XI (XO XH)))) :: ((Npos (XO
    (XO (XO (XO (XO XH)))))) :: ((Npos (XO (XO (XO (XO (XO XH)))))) :: ((Npos
    (XO (XO (XO (XO (XO XH)))))) :: ((Npos (XO (XO (XO (XO (XO
    XH)))))) :: ((Npos (XI (XO (XO (XI (XO XH)))))) :: ((Npos (XO (XO (XO (XO
    (XO XH)))))) :: ((Npos (XO (XI (XI (XI (XI XH)))))) :: ((Npos (XO (XO (XI
    (XI (XI (XI XH))))))) :: ((Npos (XO (XO (XO (XO (XO XH)))))) :: ((Npos
    (XO (XI (XO (XO (XO XH)))))) :: ((Npos (XO (XO (XI (XO (XO
    XH)))))) :: ((Npos (XI (XI (XI (XI (XI (XO XH))))))) :: ((Npos (XI (XI
    (XI (XI (XI (XO XH))))))) :: ((Npos (XI (XI (XO (XO (XI (XO
    XH))))))) :: ((Npos (XI (XI (XO (XO (XO (XO XH))))))) :: ((Npos (XO (XI
    (XO (XO (XI (XO XH))))))) :: ((Npos (XI (XO (XI (XO (XI (XO
    XH))))))) :: ((Npos (XO (XO (XI (XO (XI (XO XH))))))) :: ((Npos (XI (XI
    (XI (XI (XI (XO XH))))))) :: ((Npos (XO (XO (XI (XO (XI (XO
    XH))))))) :: ((Npos (XI (XO (XI (XO (XO (XO XH))))))) :: ((Npos (XI (XO
    (XI (XI (XO (XO XH))))))) :: ((Npos (XO (XO (XO (XO (XI (XO
    XH))))))) :: ((Npos (XI (XI (XI (XI (XI (XO XH))))))) :: ((Npos (XI (XI
    (XO (XO (XI (XO XH))))))) :: ((Npos (XO (XO (XI (XO (XI (XO
    XH))))))) :: ((Npos (XI (XO (XO (XO (XO (XO XH))))))) :: ((Npos (XO (XO
    (XI (XO (XI (XO XH))))))) :: ((Npos (XI (XO (XI (XO (XO (XO
    XH))))))) :: ((Npos (XI (XI (XI (XI (XI (XO XH))))))) :: ((Npos (XO (XO
    (XO (XO (XI (XO XH))))))) :: ((Npos (XI (XO (XO (XO (XO (XO
    XH))))))) :: ((Npos (XO (XO (XI (XO (XI (XO XH))))))) :: ((Npos (XO (XO
    (XO (XI (XO (XO XH))))))) :: ((Npos (XI (XI (XI (XI (XO
    XH)))))) :: ((Npos (XI (XI (XO (XO (XI (XI XH))))))) :: ((Npos (XO (XO
    (XI (XO (XI (XI XH))))))) :: ((Npos (XI (XO (XO (XO (XO (XI
    XH))))))) :: ((Npos (XO (XO (XI (XO (XI (XI XH))))))) :: ((Npos (XI (XO
    (XI (XO (XO (XI XH))))))) :: ((Npos (XO (XI (XO (XO (XO
    XH)))))) :: ((Npos (XO (XI (XO XH)))) :: ((Npos (XO (XI (XO
    XH)))) :: ((Npos (XO (XO (XO (XO (XO XH)))))) :: ((Npos (XO (XO (XO (XO
    (XO XH)))))) :: ((Npos (XO (XO (XO (XO (XO XH)))))) :: ((Npos (XO (XO (XO
    (XO (XO XH)))))) :: ((Npos (XI (XO (XI (XO (XO (XI XH))))))) :: ((Npos
    (XO (XO (XO (XI (XI (XI XH))))))) :: ((Npos (XI (XO (XO (XI (XO (XI
    XH))))))) :: ((Npos (XO (XO (XI (XO (XI (XI XH))))))) :: ((Npos (XO (XO
    (XO (XO (XO XH)))))) :: ((Npos (XO (XO (XI (XO (XO XH)))))) :: ((Npos (XI
    (XI (XI (XI (XI (XO XH))))))) :: ((Npos (XI (XI (XI (XI (XI (XO
    XH))))))) :: ((Npos (XI (XI (XO (XO (XI (XI XH))))))) :: ((Npos (XI (XI
    (XO (XO (XO (XI XH))))))) :: ((Npos (XO (XI (XO (XO (XI (XI
    XH))))))) :: ((Npos (XI (XO (XI (XO (XI (XI XH))))))) :: ((Npos (XO (XO
    (XI (XO (XI (XI XH))))))) :: ((Npos (XI (XI (XI (XI (XI (XO
    XH))))))) :: ((Npos (XI (XO (XI (XO (XO (XI XH))))))) :: ((Npos (XO (XO
    (XO (XI (XI (XI XH))))))) :: ((Npos (XI (XO (XO (XI (XO (XI
    XH))))))) :: ((Npos (XO (XO (XI (XO (XI (XI XH))))))) :: ((Npos (XI (XI
    (XI (XI (XI (XO XH))))))) :: ((Npos (XI (XI (XO (XO (XO (XI
    XH))))))) :: ((Npos (XI (XI (XI (XI (XO (XI XH))))))) :: ((Npos (XO (XO
    (XI (XO (XO (XI XH))))))) :: ((Npos (XI (XO (XI (XO (XO (XI
    XH))))))) :: ((Npos (XO (XI (XO XH)))) :: ((Npos (XI (XO (XI (XI (XI (XI
    XH))))))) :: ((Npos (XO (XI (XO XH)))) :: ((Npos (XO (XI (XO
    XH)))) :: ((Npos (XI (XI (XO (XO (XO XH)))))) :: ((Npos (XO (XO (XO (XO
    (XO XH)))))) :: ((Npos (XO (XO (XI (XI (XO (XI XH))))))) :: ((Npos (XI
    (XI (XI (XI (XO (XI XH))))))) :: ((Npos (XI (XO (XO (XO (XO (XI
    XH))))))) :: ((Npos (XO (XO (XI (XO (XO (XI XH))))))) :: ((Npos (XO (XO
    (XO (XO (XO XH)))))) :: ((Npos (XO (XO (XI (XO (XI (XI
    XH))))))) :: ((Npos (XO (XO (XO (XI (XO (XI XH))))))) :: ((Npos (XI (XO
    (XI (XO (XO (XI XH))))))) :: ((Npos (XO (XO (XO (XO (XO
    XH)))))) :: ((Npos (XI (XI (XO (XO (XI (XI XH))))))) :: ((Npos (XO (XO
    (XI (XO (XI (XI XH))))))) :: ((Npos (XI (XO (XO (XO (XO (XI
    XH))))))) :: ((Npos (XO (XO (XI (XO (XI (XI XH))))))) :: ((Npos (XI (XO
    (XI (XO (XO (XI XH))))))) :: ((Npos (XO (XO (XO (XO (XO
    XH)))))) :: ((Npos (XO (XI (XI (XO (XO (XI XH))))))) :: ((Npos (XO (XI
    (XO (XO (XI (XI XH))))))) :: ((Npos (XI (XI (XI (XI (XO (XI
    XH))))))) :: ((Npos (XI (XO (XI (XI (XO (XI XH))))))) :: ((Npos (XO (XO
    (XO (XO (XO XH)))))) :: ((Npos (XO (XO (XI (XO (XI (XI
    XH))))))) :: ((Npos (XO (XO (XO (XI (XO (XI XH))))))) :: ((Npos (XI (XO
    (XI (XO (XO (XI XH))))))) :: ((Npos (XO (XO (XO (XO (XO
    XH)))))) :: ((Npos (XO (XO (XO (XO (XI (XI XH))))))) :: ((Npos (XO (XI
    (XO (XO (XI (XI XH))))))) :: ((Npos (XI (XO (XI (XO (XO (XI
    XH))))))) :: ((Npos (XO (XI (XI (XO (XI (XI XH))))))) :: ((Npos (XI (XO
    (XO (XI (XO (XI XH))))))) :: ((Npos (XI (XI (XI (XI (XO (XI
    XH))))))) :: ((Npos (XI (XO (XI (XO (XI (XI XH))))))) :: ((Npos (XI (XI
    (XO (XO (XI (XI XH))))))) :: ((Npos (XO (XO (XO (XO (XO
    XH)))))) :: ((Npos (XI (XO (XI (XO (XO (XI XH))))))) :: ((Npos (XO (XO
    (XO (XI (XI (XI XH))))))) :: ((Npos (XI (XO (XI (XO (XO (XI
    XH))))))) :: ((Npos (XI (XI (XO (XO (XO (XI XH))))))) :: ((Npos (XI (XO
    (XI (XO (XI (XI XH))))))) :: ((Npos (XO (XO (XI (XO (XI (XI
    XH))))))) :: ((Npos (XI (XO (XO (XI (XO (XI XH))))))) :: ((Npos (XI (XI
    (XI (XI (XO (XI XH))))))) :: ((Npos (XO (XI (XI (XI (XO (XI
    XH))))))) :: ((Npos (XO (XO (XI (XI (XO XH)))))) :: ((Npos (XO (XO (XO
    (XO (XO XH)))))) :: ((Npos (XI (XO (XO (XI (XO (XI XH))))))) :: ((Npos
    (XO (XI (XI (XO (XO (XI XH))))))) :: ((Npos (XO (XO (XO (XO (XO
    XH)))))) :: ((Npos (XI (XO (XO (XI (XO (XI XH))))))) :: ((Npos (XO (XO
    (XI (XO (XI (XI XH))))))) :: ((Npos (XO (XO (XO (XO (XO
    XH)))))) :: ((Npos (XI (XO (XI (XO (XO (XI XH))))))) :: ((Npos (XO (XO
    (XO (XI (XI (XI XH))))))) :: ((Npos (XI (XO (XO (XI (XO (XI
    XH))))))) :: ((Npos (XI (XI (XO (XO (XI (XI XH))))))) :: ((Npos (XO (XO
    (XI (XO (XI (XI XH))))))) :: ((Npos (XI (XI (XO (XO (XI (XI
    XH))))))) :: ((Npos (XO (XI (XO XH)))) :: ((Npos (XI (XI (XO (XO (XI (XI
    XH))))))) :: ((Npos (XO (XO (XO (XI (XO (XI XH))))))) :: ((Npos (XI (XI
    (XI (XI (XO (XI XH))))))) :: ((Npos (XO (XO (XO (XO (XI (XI
    XH))))))) :: ((Npos (XO (XO (XI (XO (XI (XI XH))))))) :: ((Npos (XO (XO
    (XO (XO (XO XH)))))) :: ((Npos (XI (XO (XI (XI (XO XH)))))) :: ((Npos (XI
    (XI (XO (XO (XI (XI XH))))))) :: ((Npos (XO (XO (XO (XO (XO
    XH)))))) :: ((Npos (XI (XO (XI (XO (XO (XI XH))))))) :: ((Npos (XO (XO
    (XO (XI (XI (XI XH))))))) :: ((Npos (XO (XO (XO (XO (XI (XI
    XH))))))) :: ((Npos (XI (XO (XO (XO (XO (XI XH))))))) :: ((Npos (XO (XI
    (XI (XI (XO (XI XH))))))) :: ((Npos (XO (XO (XI (XO (XO (XI
    XH))))))) :: ((Npos (XI (XI (XI (XI (XI (XO XH))))))) :: ((Npos (XI (XO
    (XO (XO (XO (XI XH))))))) :: ((Npos (XO (XO (XI (XI (XO (XI
    XH))))))) :: ((Npos (XI (XO (XO (XI (XO (XI XH))))))) :: ((Npos (XI (XO
    (XO (XO (XO (XI XH))))))) :: ((Npos (XI (XI (XO (XO (XI (XI
    XH))))))) :: ((Npos (XI (XO (XI (XO (XO (XI XH))))))) :: ((Npos (XI (XI
    (XO (XO (XI (XI XH))))))) :: ((Npos (XO (XI (XO XH)))) :: ((Npos (XI (XI
    (XO (XI (XI (XO XH))))))) :: ((Npos (XO (XO (XO (XO (XO
    XH)))))) :: ((Npos (XI (XO (XI (XI (XO XH)))))) :: ((Npos (XO (XI (XI (XO
    (XO (XI XH))))))) :: ((Npos (XO (XO (XO (XO (XO XH)))))) :: ((Npos (XO
    (XI (XO (XO (XO XH)))))) :: ((Npos (XO (XO (XI (XO (XO XH)))))) :: ((Npos
    (XI (XI (XI (XI (XI (XO XH))))))) :: ((Npos (XI (XI (XI (XI (XI (XO
    XH))))))) :: ((Npos (XI (XI (XO (XO (XI (XO XH))))))) :: ((Npos (XI (XI
    (XO (XO (XO (XO XH))))))) :: ((Npos (XO (XI (XO (XO (XI (XO
    XH))))))) :: ((Npos (XI (XO (XI (XO (XI (XO XH))))))) :: ((Npos (XO (XO
    (XI (XO (XI (XO XH))))))) :: ((Npos (XI (XI (XI (XI (XI (XO
    XH))))))) :: ((Npos (XO (XO (XI (XO (XI (XO XH))))))) :: ((Npos (XI (XO
    (XI (XO (XO (XO XH))))))) :: ((Npos (XI (XO (XI (XI (XO (XO
    XH))))))) :: ((Npos (XO (XO (XO (XO (XI (XO XH))))))) :: ((Npos (XI (XI
    (XI (XI (XI (XO XH))))))) :: ((Npos (XI (XI (XO (XO (XI (XO
    XH))))))) :: ((Npos (XO (XO (XI (XO (XI (XO XH))))))) :: ((Npos (XI (XO
    (XO (XO (XO (XO XH))))))) :: ((Npos (XO (XO (XI (XO (XI (XO
    XH))))))) :: ((Npos (XI (XO (XI (XO (XO (XO XH))))))) :: ((Npos (XI (XI
    (XI (XI (XI (XO XH))))))) :: ((Npos (XO (XO (XO (XO (XI (XO
    XH))))))) :: ((Npos (XI (XO (XO (XO (XO (XO XH))))))) :: ((Npos (XO (XO
    (XI (XO (XI (XO XH))))))) :: ((Npos (XO (XO (XO (XI (XO (XO
    XH))))))) :: ((Npos (XI (XI (XI (XI (XO XH)))))) :: ((Npos (XI (XI (XO
    (XO (XI (XI XH))))))) :: ((Npos (XO (XO (XI (XO (XI (XI
    XH))))))) :: ((Npos (XI (XO (XO (XO (XO (XI XH))))))) :: ((Npos (XO (XO
    (XI (XO (XI (XI XH))))))) :: ((Npos (XI (XO (XI (XO (XO (XI
    XH))))))) :: ((Npos (XO (XI (XO (XO (XO XH)))))) :: ((Npos (XO (XO (XO
    (XO (XO XH)))))) :: ((Npos (XI (XO (XI (XI (XI (XO XH))))))) :: ((Npos
    (XO (XO (XO (XO (XO XH)))))) :: ((Npos (XO (XI (XI (XO (XO
    XH)))))) :: ((Npos (XO (XI (XI (XO (XO XH)))))) :: ((Npos (XO (XO (XO (XO
    (XO XH)))))) :: ((Npos (XI (XI (XO (XO (XI (XI XH))))))) :: ((Npos (XI
    (XI (XI (XI (XO (XI XH))))))) :: ((Npos (XI (XO (XI (XO (XI (XI
    XH))))))) :: ((Npos (XO (XI (XO (XO (XI (XI XH))))))) :: ((Npos (XI (XI
    (XO (XO (XO (XI XH))))))) :: ((Npos (XI (XO (XI (XO (XO (XI
    XH))))))) :: ((Npos (XO (XO (XO (XO (XO XH)))))) :: ((Npos (XO (XI (XO
    (XO (XO XH)))))) :: ((Npos (XO (XO (XI (XO (XO XH)))))) :: ((Npos (XI (XI
    (XI (XI (XI (XO XH))))))) :: ((Npos (XI (XI (XI (XI (XI (XO
    XH))))))) :: ((Npos (XI (XI (XO (XO (XI (XO XH))))))) :: ((Npos (XI (XI
    (XO (XO (XO (XO XH))))))) :: ((Npos (XO (XI (XO (XO (XI (XO
    XH))))))) :: ((Npos (XI (XO (XI (XO (XI (XO XH))))))) :: ((Npos (XO (XO
    (XI (XO (XI (XO XH))))))) :: ((Npos (XI (XI (XI (XI (XI (XO
    XH))))))) :: ((Npos (XO (XO (XI (XO (XI (XO XH))))))) :: ((Npos (XI (XO
    (XI (XO (XO (XO XH))))))) :: ((Npos (XI (XO (XI (XI (XO (XO
    XH))))))) :: ((Npos (XO (XO (XO (XO (XI (XO XH))))))) :: ((Npos (XI (XI
    (XI (XI (XI (XO XH))))))) :: ((Npos (XI (XI (XO (XO (XI (XO
    XH))))))) :: ((Npos (XO (XO (XI (XO (XI (XO XH))))))) :: ((Npos (XI (XO
    (XO (XO (XO (XO XH))))))) :: ((Npos (XO (XO (XI (XO (XI (XO
    XH))))))) :: ((Npos (XI (XO (XI (XO (XO (XO XH))))))) :: ((Npos (XI (XI
    (XI (XI (XI (XO XH))))))) :: ((Npos (XO (XO (XO (XO (XI (XO
    XH))))))) :: ((Npos (XI (XO (XO (XO (XO (XO XH))))))) :: ((Npos (XO (XO
    (XI (XO (XI (XO XH))))))) :: ((Npos (XO (XO (XO (XI (XO (XO
    XH))))))) :: ((Npos (XI (XI (XI (XI (XO XH)))))) :: ((Npos (XI (XI (XO
    (XO (XI (XI XH))))))) :: ((Npos (XO (XO (XI (XO (XI (XI
    XH))))))) :: ((Npos (XI (XO (XO (XO (XO (XI XH))))))) :: ((Npos (XO (XO
    (XI (XO (XI (XI XH))))))) :: ((Npos (XI (XO (XI (XO (XO (XI
    XH))))))) :: ((Npos (XO (XI (XO (XO (XO XH)))))) :: ((Npos (XO (XI (XO
    XH)))) :: ((Npos (XO (XI (XO XH)))) :: ((Npos (XI (XI (XO (XO (XO
    XH)))))) :: ((Npos (XO (XO (XO (XO (XO XH)))))) :: ((Npos (XI (XO (XI (XO
    (XO (XI XH))))))) :: ((Npos (XO (XI (XI (XI (XO (XI XH))))))) :: ((Npos
    (XI (XI (XO (XO (XI (XI XH))))))) :: ((Npos (XI (XO (XI (XO (XI (XI
    XH))))))) :: ((Npos (XO (XI (XO (XO (XI (XI XH))))))) :: ((Npos (XI (XO
    (XI (XO (XO (XI XH))))))) :: ((Npos (XO (XO (XO (XO (XO
    XH)))))) :: ((Npos (XO (XO (XI (XO (XI (XI XH))))))) :: ((Npos (XO (XO
    (XO (XI (XO (XI XH))))))) :: ((Npos (XI (XO (XI (XO (XO (XI
    XH))))))) :: ((Npos (XO (XO (XO (XO (XO XH)))))) :: ((Npos (XI (XI (XO
    (XO (XI (XI XH))))))) :: ((Npos (XO (XO (XI (XO (XI (XI
    XH))))))) :: ((Npos (XI (XO (XO (XO (XO (XI XH))))))) :: ((Npos (XO (XO
    (XI (XO (XI (XI XH))))))) :: ((Npos (XI (XO (XI (XO (XO (XI
    XH))))))) :: ((Npos (XO (XO (XO (XO (XO XH)))))) :: ((Npos (XI (XI (XI
    (XI (XO (XI XH))))))) :: ((Npos (XO (XI (XI (XO (XO (XI
    XH))))))) :: ((Npos (XO (XO (XO (XO (XO XH)))))) :: ((Npos (XO (XO (XI
    (XO (XI (XI XH))))))) :: ((Npos (XO (XO (XO (XI (XO (XI
    XH))))))) :: ((Npos (XI (XO (XO (XI (XO (XI XH))))))) :: ((Npos (XI (XI
    (XO (XO (XI (XI XH))))))) :: ((Npos (XO (XO (XO (XO (XO
    XH)))))) :: ((Npos (XI (XO (XI (XO (XO (XI XH))))))) :: ((Npos (XO (XO
    (XO (XI (XI (XI XH))))))) :: ((Npos (XI (XO (XI (XO (XO (XI
    XH))))))) :: ((Npos (XI (XI (XO (XO (XO (XI XH))))))) :: ((Npos (XI (XO
    (XI (XO (XI (XI XH))))))) :: ((Npos (XO (XO (XI (XO (XI (XI
    XH))))))) :: ((Npos (XI (XO (XO (XI (XO (XI XH))))))) :: ((Npos (XI (XI
    (XI (XI (XO (XI XH))))))) :: ((Npos (XO (XI (XI (XI (XO (XI
    XH))))))) :: ((Npos (XO (XO (XO (XO (XO XH)))))) :: ((Npos (XI (XI (XI
    (XO (XI (XI XH))))))) :: ((Npos (XI (XO (XO (XI (XO (XI
    XH))))))) :: ((Npos (XO (XO (XI (XI (XO (XI XH))))))) :: ((Npos (XO (XO
    (XI (XI (XO (XI XH))))))) :: ((Npos (XO (XO (XO (XO (XO
    XH)))))) :: ((Npos (XO (XI (XO (XO (XO (XI XH))))))) :: ((Npos (XI (XO
    (XI (XO (XO (XI XH))))))) :: ((Npos (XO (XO (XO (XO (XO
    XH)))))) :: ((Npos (XO (XO (XO (XO (XI (XI XH))))))) :: ((Npos (XI (XO
    (XI (XO (XO (XI XH))))))) :: ((Npos (XO (XI (XO (XO (XI (XI
    XH))))))) :: ((Npos (XI (XI (XO (XO (XI (XI XH))))))) :: ((Npos (XI (XO
    (XO (XI (XO (XI XH))))))) :: ((Npos (XI (XI (XO (XO (XI (XI
    XH))))))) :: ((Npos (XO (XO (XI (XO (XI (XI XH))))))) :: ((Npos (XI (XO
    (XI (XO (XO (XI XH))))))) :: ((Npos (XO (XO (XI (XO (XO (XI
    XH))))))) :: ((Npos (XO (XO (XO (XO (XO XH)))))) :: ((Npos (XO (XI (XI
    (XO (XO (XI XH))))))) :: ((Npos (XI (XI (XI (XI (XO (XI
    XH))))))) :: ((Npos (XO (XI (XO (XO (XI (XI XH))))))) :: ((Npos (XO (XO
    (XO (XO (XO XH)))))) :: ((Npos (XO (XO (XI (XO (XI (XI
    XH))))))) :: ((Npos (XO (XO (XO (XI (XO (XI XH))))))) :: ((Npos (XI (XO
    (XI (XO (XO (XI XH))))))) :: ((Npos (XO (XO (XO (XO (XO
    XH)))))) :: ((Npos (XO (XI (XI (XI (XO (XI XH))))))) :: ((Npos (XI (XO
    (XI (XO (XO (XI XH))))))) :: ((Npos (XO (XO (XO (XI (XI (XI
    XH))))))) :: ((Npos (XO (XO (XI (XO (XI (XI XH))))))) :: ((Npos (XO (XO
    (XO (XO (XO XH)))))) :: ((Npos (XI (XO (XI (XO (XO (XI
    XH))))))) :: ((Npos (XO (XO (XO (XI (XI (XI XH))))))) :: ((Npos (XI (XO
    (XI (XO (XO (XI XH))))))) :: ((Npos (XI (XI (XO (XO (XO (XI
    XH))))))) :: ((Npos (XI (XO (XI (XO (XI (XI XH))))))) :: ((Npos (XO (XO
    (XI (XO (XI (XI XH))))))) :: ((Npos (XI (XO (XO (XI (XO (XI
    XH))))))) :: ((Npos (XI (XI (XI (XI (XO (XI XH))))))) :: ((Npos (XO (XI
    (XI (XI (XO (XI XH))))))) :: ((Npos (XO (XI (XO XH)))) :: ((Npos (XI (XI
    (XO (XI (XI (XO XH))))))) :: ((Npos (XO (XO (XO (XO (XO
    XH)))))) :: ((Npos (XI (XI (XO (XI (XI (XI XH))))))) :: ((Npos (XO (XO
    (XO (XO (XI (XI XH))))))) :: ((Npos (XI (XO (XI (XO (XO (XI
    XH))))))) :: ((Npos (XO (XI (XO (XO (XI (XI XH))))))) :: ((Npos (XI (XI
    (XO (XO (XI (XI XH))))))) :: ((Npos (XI (XO (XO (XI (XO (XI
    XH))))))) :: ((Npos (XI (XI (XO (XO (XI (XI XH))))))) :: ((Npos (XO (XO
    (XI (XO (XI (XI XH))))))) :: ((Npos (XI (XI (XI (XI (XI (XO
    XH))))))) :: ((Npos (XI (XI (XO (XO (XI (XI XH))))))) :: ((Npos (XO (XO
    (XI (XO (XI (XI XH))))))) :: ((Npos (XI (XO (XO (XO (XO (XI
    XH))))))) :: ((Npos (XO (XO (XI (XO (XI (XI XH))))))) :: ((Npos (XI (XO
    (XI (XO (XO (XI XH))))))) :: ((Npos (XI (XO (XI (XI (XI (XI
    XH))))))) :: ((Npos (XO (XO (XO (XO (XO XH)))))) :: ((Npos (XI (XO (XI
    (XI (XO XH)))))) :: ((Npos (XI (XO (XI (XO (XO (XI XH))))))) :: ((Npos
    (XI (XO (XO (XO (XI (XI XH))))))) :: ((Npos (XO (XO (XO (XO (XO
    XH)))))) :: ((Npos (XI (XO (XO (XO (XI XH)))))) :: ((Npos (XO (XO (XO (XO
    (XO XH)))))) :: ((Npos (XI (XO (XI (XI (XI (XO XH))))))) :: ((Npos (XO
    (XO (XO (XO (XO XH)))))) :: ((Npos (XO (XI (XI (XO (XO XH)))))) :: ((Npos
    (XO (XI (XI (XO (XO XH)))))) :: ((Npos (XO (XO (XO (XO (XO
    XH)))))) :: ((Npos (XO (XO (XI (XO (XI (XI XH))))))) :: ((Npos (XO (XI
    (XO (XO (XI (XI XH))))))) :: ((Npos (XI (XO (XO (XO (XO (XI
    XH))))))) :: ((Npos (XO (XO (XO (XO (XI (XI XH))))))) :: ((Npos (XO (XO
    (XO (XO (XO XH)))))) :: ((Npos (XI (XI (XI (XI (XI (XO
    XH))))))) :: ((Npos (XI (XI (XI (XI (XI (XO XH))))))) :: ((Npos (XI (XI
    (XO (XO (XI (XI XH))))))) :: ((Npos (XI (XI (XO (XO (XO (XI
    XH))))))) :: ((Npos (XO (XI (XO (XO (XI (XI XH))))))) :: ((Npos (XI (XO
    (XI (XO (XI (XI XH))))))) :: ((Npos (XO (XO (XI (XO (XI (XI
    XH))))))) :: ((Npos (XI (XI (XI (XI (XI (XO XH))))))) :: ((Npos (XO (XO
    (XO (XO (XI (XI XH))))))) :: ((Npos (XI (XO (XI (XO (XO (XI
    XH))))))) :: ((Npos (XO (XI (XO (XO (XI (XI XH))))))) :: ((Npos (XI (XI
    (XO (XO (XI (XI XH))))))) :: ((Npos (XI (XO (XO (XI (XO (XI
    XH))))))) :: ((Npos (XI (XI (XO (XO (XI (XI XH))))))) :: ((Npos (XO (XO
    (XI (XO (XI (XI XH))))))) :: ((Npos (XI (XI (XI (XI (XI (XO
    XH))))))) :: ((Npos (XI (XI (XO (XO (XI (XI XH))))))) :: ((Npos (XO (XO
    (XI (XO (XI (XI XH))))))) :: ((Npos (XI (XO (XO (XO (XO (XI
    XH))))))) :: ((Npos (XO (XO (XI (XO (XI (XI XH))))))) :: ((Npos (XI (XO
    (XI (XO (XO (XI XH))))))) :: ((Npos (XO (XO (XO (XO (XO
    XH)))))) :: ((Npos (XI (XO (XI (XO (XO (XO XH))))))) :: ((Npos (XO (XO
    (XO (XI (XI (XO XH))))))) :: ((Npos (XI (XO (XO (XI (XO (XO
    XH))))))) :: ((Npos (XO (XO (XI (XO (XI (XO XH))))))) :: ((Npos (XO (XI
    (XO XH)))) :: ((Npos (XO (XI (XO XH)))) :: ((Npos (XI (XI (XO (XO (XO
    XH)))))) :: ((Npos (XO (XO (XO (XO (XO XH)))))) :: ((Npos (XI (XO (XI (XO
    (XO (XI XH))))))) :: ((Npos (XO (XO (XO (XI (XI (XI XH))))))) :: ((Npos
    (XI (XO (XI (XO (XO (XI XH))))))) :: ((Npos (XI (XI (XO (XO (XO (XI
    XH))))))) :: ((Npos (XI (XO (XI (XO (XI (XI XH))))))) :: ((Npos (XO (XO
    (XI (XO (XI (XI XH))))))) :: ((Npos (XI (XO (XI (XO (XO (XI
    XH))))))) :: ((Npos (XO (XO (XO (XO (XO XH)))))) :: ((Npos (XO (XO (XI
    (XO (XI (XI XH))))))) :: ((Npos (XO (XO (XO (XI (XO (XI
    XH))))))) :: ((Npos (XI (XO (XI (XO (XO (XI XH))))))) :: ((Npos (XO (XO
    (XO (XO (XO XH)))))) :: ((Npos (XI (XI (XO (XO (XI (XI
    XH))))))) :: ((Npos (XO (XO (XO (XI (XO (XI XH))))))) :: ((Npos (XI (XO
    (XI (XO (XO (XI XH))))))) :: ((Npos (XO (XO (XI (XI (XO (XI
    XH))))))) :: ((Npos (XO (XO (XI (XI (XO (XI XH))))))) :: ((Npos (XO (XO
    (XO (XO (XO XH)))))) :: ((Npos (XI (XO (XI (XO (XO (XI
    XH))))))) :: ((Npos (XO (XO (XO (XI (XI (XI XH))))))) :: ((Npos (XO (XO
    (XO (XO (XI (XI XH))))))) :: ((Npos (XO (XI (XO (XO (XI (XI
    XH))))))) :: ((Npos (XI (XO (XI (XO (XO (XI XH))))))) :: ((Npos (XI (XI
    (XO (XO (XI (XI XH))))))) :: ((Npos (XI (XI (XO (XO (XI (XI
    XH))))))) :: ((Npos (XI (XO (XO (XI (XO (XI XH))))))) :: ((Npos (XI (XI
    (XI (XI (XO (XI XH))))))) :: ((Npos (XO (XI (XI (XI (XO (XI
    XH))))))) :: ((Npos (XO (XI (XO XH)))) :: ((Npos (XI (XI (XO (XI (XI (XI
    XH))))))) :: ((Npos (XI (XI (XO (XO (XI (XI XH))))))) :: ((Npos (XO (XO
    (XO (XI (XO (XI XH))))))) :: ((Npos (XI (XO (XI (XO (XO (XI
    XH))))))) :: ((Npos (XO (XO (XI (XI (XO (XI XH))))))) :: ((Npos (XO (XO
    (XI (XI (XO (XI XH))))))) :: ((Npos (XI (XI (XI (XI (XI (XO
    XH))))))) :: ((Npos (XI (XO (XI (XO (XO (XI XH))))))) :: ((Npos (XO (XO
    (XO (XI (XI (XI XH))))))) :: ((Npos (XO (XO (XO (XO (XI (XI
    XH))))))) :: ((Npos (XO (XI (XO (XO (XI (XI XH))))))) :: ((Npos (XI (XO
    (XI (XO (XO (XI XH))))))) :: ((Npos (XI (XI (XO (XO (XI (XI
    XH))))))) :: ((Npos (XI (XI (XO (XO (XI (XI XH))))))) :: ((Npos (XI (XO
    (XO (XI (XO (XI XH))))))) :: ((Npos (XI (XI (XI (XI (XO (XI
    XH))))))) :: ((Npos (XO (XI (XI (XI (XO (XI XH))))))) :: ((Npos (XI (XO
    (XI (XI (XI (XI XH))))))) :: ((Npos (XO (XI (XO
    XH)))) :: []))))))))))))))))))))))))))))))))))))))))))))))))))))))))))))))))))))))))))))))))))))))))))))))))))))))))))))))))))))))))))))))))))))))))))))))))))))))))))))))))))))))))))))))))))))))))))))))))))))))))))))))))))))))))))))))))))))))))))))))))))))))))))))))))))))))))))))))))))))))))))))))))))))))))))))))))))))))))))))))))))))))))))))))))))))))))))))))))))))))))))))))))))))))))))))))))))))))))))))))))))))))))))))))))))))))))))))))))))))))))))))))))))))))))))))))))))))))))))))))))))))))))))))))))))))))))))))))))))))))))))))))))))))))))))))))))))))))))))))))))))))))))))))))))))))))))))))))))))))))))))))))))))))))))))))))))))))))))))))))))))))))))))))))))))))))))))))))))))))))))))))))))))))))))))))))))))))))))))))))))))))))))))))))))))))))))))))))))))))))))))))))))))))))))))))))))))))))))))))))))))))))))))))))))))))))))))))))))))))))))))))))))))))))))))))))))))))))))))))))))))))))))))))))))))))))))))))))))))))))))))))))))))))))))))))))))))))))))))))))))))))))))))))))))))))))))))))))))))))))))))))))))))))))))))))))))))))))))))))))))))))))))))))))))))))))))))))))))))))))))))))))))))))))))))))))))))))))))))))))))))))))))))))))))))))))))))))))))))))))))))))))))))))))))))))))))))))))))))))))))))))))))))))))))))))))))))))))))))))))))))))))))))))))))))))))))))))))))))))))))))))))))))))))))))))))))))))))))))))))))))))))))))))))))))))))))))))))))))))))))))))))))))))))))))))))))))))))))))))))))))))))))))))))))))))))))))))))))))))))))))))))))))))))))))))))))))))))))))))))))))))))))))))))))))))))))))))))))))))))))))))))))))))))))))))))))))))))))))))))))))))))))))))))))))))))))))))))))))))))))))))))))))))))))))))))))))))))))))))))))))))))))))))))))))))))))))))))))))))))))))))))))))))))))))))))))))))))))))))))))))))))))))))))))))))))))))))))))))))))))))))))))))))))))))))))))))))))))))))))))))))))))))))))))))))))))))))))))))))))))))))))))))))))))))))))))))))))))))))))))))))))))))))))))))))))))))))))))))))))))))))))))))))))))))))))))))))))))))))))))))))))))))))))))))))))))))))))))))))))))))))))))))))))))))))))))))))))))))))))))))))))))))))))))))))))))))))))))))))))))))))))))))))))))))))))))))))))))))))))))))))))))))))))))))))))))))))))))))))))))))))))))))))))))))))))))))))))))))))))))))))))))))))))))))))))))))))))))))))))))))))))))))))))))))))))))))))))))))))))))))))))))))))))))))))))))))))))))))))))))))))))))))))))))))))))))))))))))))))))))))))))))))))))))))))))))))))))))))))))))))))))))))))))))))))))))))))))))))))))))))))))))))))))))))))))))))))))))))))))))))))))))))))))))))))))))))))))))))))))))))))))))))))))))))))))))))))))))))))))))))))))))))))))))))))))))))))))))))))))))))))))))))))))))))))))))))))))))))))))))))))))))))))))))))))))))))))))))))))))))))))))))))))))))))))))))))))))))))))))))))))))))))))))))))))))))))))))))))))))))))))))))))))))))))))))))))))))))))))))))))))))))))))))))))))))))))))))))))))))))))))))))))))))))))))))))))))))))))))))))))))))))))))))))))))))))))))))))))))))))))))))))))))))))))))))))))))))))))))))))

(** val ph_names : n list list **)

let ph_names =
  ((Npos (XI (XI (XO (XI (XI (XI XH))))))) :: ((Npos (XI (XI (XO (XO (XI (XI
    XH))))))) :: ((Npos (XO (XO (XI (XO (XI (XI XH))))))) :: ((Npos (XI (XO
    (XO (XO (XO (XI XH))))))) :: ((Npos (XO (XO (XI (XO (XI (XI
    XH))))))) :: ((Npos (XI (XO (XI (XO (XO (XI XH))))))) :: ((Npos (XI (XI
    (XI (XI (XI (XO XH))))))) :: ((Npos (XO (XO (XI (XO (XO (XI
    XH))))))) :: ((Npos (XI (XO (XO (XI (XO (XI XH))))))) :: ((Npos (XO (XI
    (XO (XO (XI (XI XH))))))) :: ((Npos (XI (XO (XI (XO (XO (XI
    XH))))))) :: ((Npos (XI (XI (XO (XO (XO (XI XH))))))) :: ((Npos (XO (XO
    (XI (XO (XI (XI XH))))))) :: ((Npos (XI (XI (XI (XI (XO (XI
    XH))))))) :: ((Npos (XO (XI (XO (XO (XI (XI XH))))))) :: ((Npos (XI (XO
    (XO (XI (XI (XI XH))))))) :: ((Npos (XI (XO (XI (XI (XI (XI
    XH))))))) :: []))))))))))))))))) :: (((Npos (XI (XI (XO (XI (XI (XI
    XH))))))) :: ((Npos (XO (XI (XI (XI (XO (XI XH))))))) :: ((Npos (XI (XO
    (XO (XO (XO (XI XH))))))) :: ((Npos (XI (XO (XI (XI (XO (XI
    XH))))))) :: ((Npos (XI (XO (XI (XO (XO (XI XH))))))) :: ((Npos (XI (XO
    (XI (XI (XI (XI XH))))))) :: [])))))) :: (((Npos (XI (XI (XO (XI (XI (XI
    XH))))))) :: ((Npos (XI (XI (XO (XO (XI (XI XH))))))) :: ((Npos (XO (XO
    (XO (XI (XO (XI XH))))))) :: ((Npos (XI (XO (XI (XO (XO (XI
    XH))))))) :: ((Npos (XO (XO (XI (XI (XO (XI XH))))))) :: ((Npos (XO (XO
    (XI (XI (XO (XI XH))))))) :: ((Npos (XI (XI (XI (XI (XI (XO
    XH))))))) :: ((Npos (XI (XO (XI (XO (XO (XI XH))))))) :: ((Npos (XO (XO
    (XO (XI (XI (XI XH))))))) :: ((Npos (XO (XO (XO (XO (XI (XI
    XH))))))) :: ((Npos (XO (XI (XO (XO (XI (XI XH))))))) :: ((Npos (XI (XO
    (XI (XO (XO (XI XH))))))) :: ((Npos (XI (XI (XO (XO (XI (XI
    XH))))))) :: ((Npos (XI (XI (XO (XO (XI (XI XH))))))) :: ((Npos (XI (XO
    (XO (XI (XO (XI XH))))))) :: ((Npos (XI (XI (XI (XI (XO (XI
    XH))))))) :: ((Npos (XO (XI (XI (XI (XO (XI XH))))))) :: ((Npos (XI (XO
    (XI (XI (XI (XI XH))))))) :: [])))))))))))))))))) :: (((Npos (XI (XI (XO
    (XI (XI (XI XH))))))) :: ((Npos (XI (XO (XI (XO (XO (XI
    XH))))))) :: ((Npos (XO (XO (XO (XI (XI (XI XH))))))) :: ((Npos (XI (XI
    (XO (XO (XO (XI XH))))))) :: ((Npos (XO (XO (XI (XI (XO (XI
    XH))))))) :: ((Npos (XI (XO (XI (XO (XI (XI XH))))))) :: ((Npos (XO (XO
    (XI (XO (XO (XI XH))))))) :: ((Npos (XI (XO (XI (XO (XO (XI
    XH))))))) :: ((Npos (XO (XO (XI (XO (XO (XI XH))))))) :: ((Npos (XI (XI
    (XI (XI (XI (XO XH))))))) :: ((Npos (XO (XI (XI (XO (XI (XI
    XH))))))) :: ((Npos (XI (XO (XO (XO (XO (XI XH))))))) :: ((Npos (XO (XI
    (XO (XO (XI (XI XH))))))) :: ((Npos (XI (XO (XO (XI (XO (XI
    XH))))))) :: ((Npos (XI (XO (XO (XO (XO (XI XH))))))) :: ((Npos (XO (XI
    (XO (XO (XO (XI XH))))))) :: ((Npos (XO (XO (XI (XI (XO (XI
    XH))))))) :: ((Npos (XI (XO (XI (XO (XO (XI XH))))))) :: ((Npos (XI (XI
    (XO (XO (XI (XI XH))))))) :: ((Npos (XI (XO (XI (XI (XI (XI
    XH))))))) :: [])))))))))))))))))))) :: (((Npos (XI (XI (XO (XI (XI (XI
    XH))))))) :: ((Npos (XO (XO (XO (XO (XI (XI XH))))))) :: ((Npos (XI (XO
    (XI (XO (XO (XI XH))))))) :: ((Npos (XO (XI (XO (XO (XI (XI
    XH))))))) :: ((Npos (XI (XI (XO (XO (XI (XI XH))))))) :: ((Npos (XI (XO
    (XO (XI (XO (XI XH))))))) :: ((Npos (XI (XI (XO (XO (XI (XI
    XH))))))) :: ((Npos (XO (XO (XI (XO (XI (XI XH))))))) :: ((Npos (XI (XI
    (XI (XI (XI (XO XH))))))) :: ((Npos (XI (XI (XO (XO (XI (XI
    XH))))))) :: ((Npos (XO (XO (XI (XO (XI (XI XH))))))) :: ((Npos (XI (XO
    (XO (XO (XO (XI XH))))))) :: ((Npos (XO (XO (XI (XO (XI (XI
    XH))))))) :: ((Npos (XI (XO (XI (XO (XO (XI XH))))))) :: ((Npos (XI (XO
    (XI (XI (XI (XI XH))))))) :: []))))))))))))))) :: []))))

(** val chain_order : nat list **)

let chain_order =
  O :: ((S O) :: ((S (S (S O))) :: ((S (S (S (S O)))) :: ((S (S O)) :: []))))

(** val excluded_value : n list **)

let excluded_value =
  (Npos (XI (XI (XI (XI (XI (XO XH))))))) :: ((Npos (XI (XI (XI (XI (XI (XO
    XH))))))) :: ((Npos (XI (XI (XO (XO (XI (XO XH))))))) :: ((Npos (XI (XI
    (XO (XO (XO (XO XH))))))) :: ((Npos (XO (XI (XO (XO (XI (XO
    XH))))))) :: ((Npos (XI (XO (XI (XO (XI (XO XH))))))) :: ((Npos (XO (XO
    (XI (XO (XI (XO XH))))))) :: ((Npos (XI (XI (XI (XI (XI (XO
    XH))))))) :: ((Npos (XO (XO (XI (XO (XO (XO XH))))))) :: ((Npos (XI (XO
    (XI (XO (XO (XO XH))))))) :: ((Npos (XI (XI (XO (XO (XO (XO
    XH))))))) :: ((Npos (XO (XO (XI (XI (XO (XO XH))))))) :: ((Npos (XI (XO
    (XO (XO (XO (XO XH))))))) :: ((Npos (XO (XI (XO (XO (XI (XO
    XH))))))) :: ((Npos (XI (XO (XI (XO (XO (XO XH))))))) :: ((Npos (XI (XI
    (XI (XI (XI (XO XH))))))) :: ((Npos (XO (XI (XI (XO (XI (XO
    XH))))))) :: ((Npos (XI (XO (XO (XO (XO (XO XH))))))) :: ((Npos (XO (XI
    (XO (XO (XI (XO XH))))))) :: ((Npos (XI (XI (XO (XO (XI (XO
    XH))))))) :: ((Npos (XI (XI (XI (XI (XI (XO XH))))))) :: ((Npos (XI (XI
    (XO (XO (XO (XO XH))))))) :: ((Npos (XI (XO (XI (XI (XO (XO
    XH))))))) :: ((Npos (XO (XO (XI (XO (XO (XO XH))))))) :: ((Npos (XO (XO
    (XI (XI (XI (XI XH))))))) :: ((Npos (XI (XI (XI (XI (XI (XO
    XH))))))) :: ((Npos (XI (XI (XI (XI (XI (XO XH))))))) :: ((Npos (XI (XI
    (XO (XO (XI (XO XH))))))) :: ((Npos (XI (XI (XO (XO (XO (XO
    XH))))))) :: ((Npos (XO (XI (XO (XO (XI (XO XH))))))) :: ((Npos (XI (XO
    (XI (XO (XI (XO XH))))))) :: ((Npos (XO (XO (XI (XO (XI (XO
    XH))))))) :: ((Npos (XI (XI (XI (XI (XI (XO XH))))))) :: ((Npos (XO (XO
    (XI (XO (XI (XO XH))))))) :: ((Npos (XI (XO (XI (XO (XO (XO
    XH))))))) :: ((Npos (XI (XO (XI (XI (XO (XO XH))))))) :: ((Npos (XO (XO
    (XO (XO (XI (XO XH))))))) :: ((Npos (XI (XI (XI (XI (XI (XO
    XH))))))) :: ((Npos (XI (XI (XO (XO (XI (XO XH))))))) :: ((Npos (XO (XO
    (XI (XO (XI (XO XH))))))) :: ((Npos (XI (XO (XO (XO (XO (XO
    XH))))))) :: ((Npos (XO (XO (XI (XO (XI (XO XH))))))) :: ((Npos (XI (XO
    (XI (XO (XO (XO XH))))))) :: ((Npos (XI (XI (XI (XI (XI (XO
    XH))))))) :: ((Npos (XO (XO (XO (XO (XI (XO XH))))))) :: ((Npos (XI (XO
    (XO (XO (XO (XO XH))))))) :: ((Npos (XO (XO (XI (XO (XI (XO
    XH))))))) :: ((Npos (XO (XO (XO (XI (XO (XO XH))))))) :: ((Npos (XO (XO
    (XI (XI (XI (XI XH))))))) :: ((Npos (XI (XI (XI (XI (XI (XO
    XH))))))) :: ((Npos (XI (XI (XI (XI (XI (XO XH))))))) :: ((Npos (XI (XI
    (XO (XO (XI (XI XH))))))) :: ((Npos (XI (XI (XO (XO (XO (XI
    XH))))))) :: ((Npos (XO (XI (XO (XO (XI (XI XH))))))) :: ((Npos (XI (XO
    (XI (XO (XI (XI XH))))))) :: ((Npos (XO (XO (XI (XO (XI (XI
    XH))))))) :: ((Npos (XI (XI (XI (XI (XI (XO XH))))))) :: ((Npos (XI (XO
    (XI (XO (XO (XI XH))))))) :: ((Npos (XO (XO (XO (XI (XI (XI
    XH))))))) :: ((Npos (XI (XO (XO (XI (XO (XI XH))))))) :: ((Npos (XO (XO
    (XI (XO (XI (XI XH))))))) :: ((Npos (XI (XI (XI (XI (XI (XO
    XH))))))) :: ((Npos (XI (XI (XO (XO (XO (XI XH))))))) :: ((Npos (XI (XI
    (XI (XI (XO (XI XH))))))) :: ((Npos (XO (XO (XI (XO (XO (XI
    XH))))))) :: ((Npos (XI (XO (XI (XO (XO (XI XH))))))) :: ((Npos (XO (XO
    (XI (XI (XI (XI XH))))))) :: ((Npos (XI (XI (XO (XO (XI (XO
    XH))))))) :: ((Npos (XI (XI (XO (XO (XO (XO XH))))))) :: ((Npos (XO (XI
    (XO (XO (XI (XO XH))))))) :: ((Npos (XI (XO (XI (XO (XI (XO
    XH))))))) :: ((Npos (XO (XO (XI (XO (XI (XO XH))))))) :: ((Npos (XI (XI
    (XI (XI (XI (XO XH))))))) :: ((Npos (XO (XO (XI (XO (XI (XO
    XH))))))) :: ((Npos (XI (XO (XI (XO (XO (XO XH))))))) :: ((Npos (XI (XI
    (XO (XO (XI (XO XH))))))) :: ((Npos (XO (XO (XI (XO (XI (XO
    XH))))))) :: ((Npos (XO (XO (XI (XI (XI (XI XH))))))) :: ((Npos (XO (XI
    (XO (XO (XO (XO XH))))))) :: ((Npos (XI (XO (XO (XO (XO (XO
    XH))))))) :: ((Npos (XI (XI (XO (XO (XI (XO XH))))))) :: ((Npos (XO (XO
    (XO (XI (XO (XO XH))))))) :: ((Npos (XI (XI (XI (XI (XO (XO
    XH))))))) :: ((Npos (XO (XO (XO (XO (XI (XO XH))))))) :: ((Npos (XO (XO
    (XI (XO (XI (XO XH))))))) :: ((Npos (XI (XI (XO (XO (XI (XO
    XH))))))) :: ((Npos (XO (XO (XI (XI (XI (XI XH))))))) :: ((Npos (XO (XI
    (XO (XO (XO (XO XH))))))) :: ((Npos (XI (XO (XO (XO (XO (XO
    XH))))))) :: ((Npos (XI (XI (XO (XO (XI (XO XH))))))) :: ((Npos (XO (XO
    (XO (XI (XO (XO XH))))))) :: ((Npos (XI (XI (XI (XI (XI (XO
    XH))))))) :: ((Npos (XI (XO (XO (XO (XO (XO XH))))))) :: ((Npos (XO (XO
    (XI (XI (XO (XO XH))))))) :: ((Npos (XI (XO (XO (XI (XO (XO
    XH))))))) :: ((Npos (XI (XO (XO (XO (XO (XO XH))))))) :: ((Npos (XI (XI
    (XO (XO (XI (XO XH))))))) :: ((Npos (XI (XO (XI (XO (XO (XO
    XH))))))) :: ((Npos (XI (XI (XO (XO (XI (XO XH))))))) :: ((Npos (XO (XO
    (XI (XI (XI (XI XH))))))) :: ((Npos (XO (XI (XO (XO (XO (XO
    XH))))))) :: ((Npos (XI (XO (XO (XO (XO (XO XH))))))) :: ((Npos (XI (XI
    (XO (XO (XI (XO XH))))))) :: ((Npos (XO (XO (XO (XI (XO (XO
    XH))))))) :: ((Npos (XI (XI (XI (XI (XI (XO XH))))))) :: ((Npos (XI (XO
    (XO (XO (XO (XO XH))))))) :: ((Npos (XO (XI (XO (XO (XI (XO
    XH))))))) :: ((Npos (XI (XI (XI (XO (XO (XO XH))))))) :: ((Npos (XI (XI
    (XO (XO (XO (XO XH))))))) :: ((Npos (XO (XO (XI (XI (XI (XI
    XH))))))) :: ((Npos (XO (XI (XO (XO (XO (XO XH))))))) :: ((Npos (XI (XO
    (XO (XO (XO (XO XH))))))) :: ((Npos (XI (XI (XO (XO (XI (XO
    XH))))))) :: ((Npos (XO (XO (XO (XI (XO (XO XH))))))) :: ((Npos (XI (XI
    (XI (XI (XI (XO XH))))))) :: ((Npos (XI (XO (XO (XO (XO (XO
    XH))))))) :: ((Npos (XO (XI (XO (XO (XI (XO XH))))))) :: ((Npos (XI (XI
    (XI (XO (XO (XO XH))))))) :: ((Npos (XO (XI (XI (XO (XI (XO
    XH))))))) :: ((Npos (XO (XO (XI (XI (XI (XI XH))))))) :: ((Npos (XO (XI
    (XO (XO (XO (XO XH))))))) :: ((Npos (XI (XO (XO (XO (XO (XO
    XH))))))) :: ((Npos (XI (XI (XO (XO (XI (XO XH))))))) :: ((Npos (XO (XO
    (XO (XI (XO (XO XH))))))) :: ((Npos (XI (XI (XI (XI (XI (XO
    XH))))))) :: ((Npos (XI (XO (XO (XO (XO (XO XH))))))) :: ((Npos (XO (XI
    (XO (XO (XI (XO XH))))))) :: ((Npos (XI (XI (XI (XO (XO (XO
    XH))))))) :: ((Npos (XO (XI (XI (XO (XI (XO XH))))))) :: ((Npos (XO (XO
    (XO (XO (XI XH)))))) :: ((Npos (XO (XO (XI (XI (XI (XI
    XH))))))) :: ((Npos (XO (XI (XO (XO (XO (XO XH))))))) :: ((Npos (XI (XO
    (XO (XO (XO (XO XH))))))) :: ((Npos (XI (XI (XO (XO (XI (XO
    XH))))))) :: ((Npos (XO (XO (XO (XI (XO (XO XH))))))) :: ((Npos (XI (XI
    (XI (XI (XI (XO XH))))))) :: ((Npos (XI (XI (XO (XO (XO (XO
    XH))))))) :: ((Npos (XI (XO (XI (XI (XO (XO XH))))))) :: ((Npos (XO (XO
    (XI (XO (XO (XO XH))))))) :: ((Npos (XI (XI (XO (XO (XI (XO
    XH))))))) :: ((Npos (XO (XO (XI (XI (XI (XI XH))))))) :: ((Npos (XO (XI
    (XO (XO (XO (XO XH))))))) :: ((Npos (XI (XO (XO (XO (XO (XO
    XH))))))) :: ((Npos (XI (XI (XO (XO (XI (XO XH))))))) :: ((Npos (XO (XO
    (XO (XI (XO (XO XH))))))) :: ((Npos (XI (XI (XI (XI (XI (XO
    XH))))))) :: ((Npos (XI (XI (XO (XO (XO (XO XH))))))) :: ((Npos (XI (XI
    (XI (XI (XO (XO XH))))))) :: ((Npos (XI (XO (XI (XI (XO (XO
    XH))))))) :: ((Npos (XI (XO (XI (XI (XO (XO XH))))))) :: ((Npos (XI (XO
    (XO (XO (XO (XO XH))))))) :: ((Npos (XO (XI (XI (XI (XO (XO
    XH))))))) :: ((Npos (XO (XO (XI (XO (XO (XO XH))))))) :: ((Npos (XO (XO
    (XI (XI (XI (XI XH))))))) :: ((Npos (XO (XI (XO (XO (XO (XO
    XH))))))) :: ((Npos (XI (XO (XO (XO (XO (XO XH))))))) :: ((Npos (XI (XI
    (XO (XO (XI (XO XH))))))) :: ((Npos (XO (XO (XO (XI (XO (XO
    XH))))))) :: ((Npos (XI (XI (XI (XI (XI (XO XH))))))) :: ((Npos (XI (XO
    (XI (XO (XO (XO XH))))))) :: ((Npos (XO (XO (XO (XI (XI (XO
    XH))))))) :: ((Npos (XI (XO (XI (XO (XO (XO XH))))))) :: ((Npos (XI (XI
    (XO (XO (XO (XO XH))))))) :: ((Npos (XI (XO (XI (XO (XI (XO
    XH))))))) :: ((Npos (XO (XO (XI (XO (XI (XO XH))))))) :: ((Npos (XI (XO
    (XO (XI (XO (XO XH))))))) :: ((Npos (XI (XI (XI (XI (XO (XO
    XH))))))) :: ((Npos (XO (XI (XI (XI (XO (XO XH))))))) :: ((Npos (XI (XI
    (XI (XI (XI (XO XH))))))) :: ((Npos (XI (XI (XO (XO (XI (XO
    XH))))))) :: ((Npos (XO (XO (XI (XO (XI (XO XH))))))) :: ((Npos (XO (XI
    (XO (XO (XI (XO XH))))))) :: ((Npos (XI (XO (XO (XI (XO (XO
    XH))))))) :: ((Npos (XO (XI (XI (XI (XO (XO XH))))))) :: ((Npos (XI (XI
    (XI (XO (XO (XO XH))))))) :: ((Npos (XO (XO (XI (XI (XI (XI
    XH))))))) :: ((Npos (XO (XI (XO (XO (XO (XO XH))))))) :: ((Npos (XI (XO
    (XO (XO (XO (XO XH))))))) :: ((Npos (XI (XI (XO (XO (XI (XO
    XH))))))) :: ((Npos (XO (XO (XO (XI (XO (XO XH))))))) :: ((Npos (XI (XI
    (XI (XI (XI (XO XH))))))) :: ((Npos (XO (XO (XI (XI (XO (XO
    XH))))))) :: ((Npos (XI (XO (XO (XI (XO (XO XH))))))) :: ((Npos (XO (XI
    (XI (XI (XO (XO XH))))))) :: ((Npos (XI (XO (XI (XO (XO (XO
    XH))))))) :: ((Npos (XO (XI (XI (XI (XO (XO XH))))))) :: ((Npos (XI (XI
    (XI (XI (XO (XO XH))))))) :: ((Npos (XO (XO (XI (XI (XI (XI
    XH))))))) :: ((Npos (XO (XI (XO (XO (XO (XO XH))))))) :: ((Npos (XI (XO
    (XO (XO (XO (XO XH))))))) :: ((Npos (XI (XI (XO (XO (XI (XO
    XH))))))) :: ((Npos (XO (XO (XO (XI (XO (XO XH))))))) :: ((Npos (XI (XI
    (XI (XI (XI (XO XH))))))) :: ((Npos (XO (XI (XO (XO (XI (XO
    XH))))))) :: ((Npos (XI (XO (XI (XO (XO (XO XH))))))) :: ((Npos (XI (XO
    (XI (XI (XO (XO XH))))))) :: ((Npos (XI (XO (XO (XO (XO (XO
    XH))))))) :: ((Npos (XO (XO (XI (XO (XI (XO XH))))))) :: ((Npos (XI (XI
    (XO (XO (XO (XO XH))))))) :: ((Npos (XO (XO (XO (XI (XO (XO
    XH))))))) :: ((Npos (XO (XO (XI (XI (XI (XI XH))))))) :: ((Npos (XO (XI
    (XO (XO (XO (XO XH))))))) :: ((Npos (XI (XO (XO (XO (XO (XO
    XH))))))) :: ((Npos (XI (XI (XO (XO (XI (XO XH))))))) :: ((Npos (XO (XO
    (XO (XI (XO (XO XH))))))) :: ((Npos (XI (XI (XI (XI (XI (XO
    XH))))))) :: ((Npos (XI (XI (XO (XO (XI (XO XH))))))) :: ((Npos (XI (XI
    (XI (XI (XO (XO XH))))))) :: ((Npos (XI (XO (XI (XO (XI (XO
    XH))))))) :: ((Npos (XO (XI (XO (XO (XI (XO XH))))))) :: ((Npos (XI (XI
    (XO (XO (XO (XO XH))))))) :: ((Npos (XI (XO (XI (XO (XO (XO
    XH))))))) :: ((Npos (XO (XO (XI (XI (XI (XI XH))))))) :: ((Npos (XO (XI
    (XO (XO (XO (XO XH))))))) :: ((Npos (XI (XO (XO (XO (XO (XO
    XH))))))) :: ((Npos (XI (XI (XO (XO (XI (XO XH))))))) :: ((Npos (XO (XO
    (XO (XI (XO (XO XH))))))) :: ((Npos (XI (XI (XI (XI (XI (XO
    XH))))))) :: ((Npos (XI (XI (XO (XO (XI (XO XH))))))) :: ((Npos (XI (XO
    (XI (XO (XI (XO XH))))))) :: ((Npos (XO (XI (XO (XO (XO (XO
    XH))))))) :: ((Npos (XI (XI (XO (XO (XI (XO XH))))))) :: ((Npos (XO (XO
    (XO (XI (XO (XO XH))))))) :: ((Npos (XI (XO (XI (XO (XO (XO
    XH))))))) :: ((Npos (XO (XO (XI (XI (XO (XO XH))))))) :: ((Npos (XO (XO
    (XI (XI (XO (XO XH))))))) :: ((Npos (XO (XO (XI (XI (XI (XI
    XH))))))) :: ((Npos (XO (XI (XO (XO (XO (XO XH))))))) :: ((Npos (XI (XO
    (XO (XO (XO (XO XH))))))) :: ((Npos (XI (XI (XO (XO (XI (XO
    XH))))))) :: ((Npos (XO (XO (XO (XI (XO (XO XH))))))) :: ((Npos (XI (XI
    (XI (XI (XI (XO XH))))))) :: ((Npos (XO (XI (XI (XO (XI (XO
    XH))))))) :: ((Npos (XI (XO (XI (XO (XO (XO XH))))))) :: ((Npos (XO (XI
    (XO (XO (XI (XO XH))))))) :: ((Npos (XI (XI (XO (XO (XI (XO
    XH))))))) :: ((Npos (XI (XO (XO (XI (XO (XO XH))))))) :: ((Npos (XO (XI
    (XI (XI (XO (XO XH))))))) :: ((Npos (XO (XI (XI (XO (XO (XO
    XH))))))) :: ((Npos (XI (XI (XI (XI (XO (XO XH))))))) :: ((Npos (XO (XO
    (XI (XI (XI (XI XH))))))) :: ((Npos (XI (XI (XO (XO (XO (XO
    XH))))))) :: ((Npos (XI (XI (XI (XI (XO (XO XH))))))) :: ((Npos (XO (XO
    (XO (XO (XI (XO XH))))))) :: ((Npos (XO (XI (XO (XO (XI (XO
    XH))))))) :: ((Npos (XI (XI (XI (XI (XO (XO XH))))))) :: ((Npos (XI (XI
    (XO (XO (XO (XO XH))))))) :: ((Npos (XO (XO (XI (XI (XI (XI
    XH))))))) :: ((Npos (XO (XO (XI (XO (XO (XO XH))))))) :: ((Npos (XI (XO
    (XO (XI (XO (XO XH))))))) :: ((Npos (XO (XI (XO (XO (XI (XO
    XH))))))) :: ((Npos (XI (XI (XO (XO (XI (XO XH))))))) :: ((Npos (XO (XO
    (XI (XO (XI (XO XH))))))) :: ((Npos (XI (XO (XO (XO (XO (XO
    XH))))))) :: ((Npos (XI (XI (XO (XO (XO (XO XH))))))) :: ((Npos (XI (XI
    (XO (XI (XO (XO XH))))))) :: ((Npos (XO (XO (XI (XI (XI (XI
    XH))))))) :: ((Npos (XI (XO (XI (XO (XO (XO XH))))))) :: ((Npos (XI (XO
    (XI (XO (XI (XO XH))))))) :: ((Npos (XI (XO (XO (XI (XO (XO
    XH))))))) :: ((Npos (XO (XO (XI (XO (XO (XO XH))))))) :: ((Npos (XO (XO
    (XI (XI (XI (XI XH))))))) :: ((Npos (XO (XI (XI (XO (XO (XO
    XH))))))) :: ((Npos (XI (XO (XI (XO (XI (XO XH))))))) :: ((Npos (XO (XI
    (XI (XI (XO (XO XH))))))) :: ((Npos (XI (XI (XO (XO (XO (XO
    XH))))))) :: ((Npos (XO (XI (XI (XI (XO (XO XH))))))) :: ((Npos (XI (XO
    (XO (XO (XO (XO XH))))))) :: ((Npos (XI (XO (XI (XI (XO (XO
    XH))))))) :: ((Npos (XI (XO (XI (XO (XO (XO XH))))))) :: ((Npos (XO (XO
    (XI (XI (XI (XI XH))))))) :: ((Npos (XO (XO (XI (XI (XO (XO
    XH))))))) :: ((Npos (XI (XO (XO (XI (XO (XO XH))))))) :: ((Npos (XO (XI
    (XI (XI (XO (XO XH))))))) :: ((Npos (XI (XO (XI (XO (XO (XO
    XH))))))) :: ((Npos (XO (XI (XI (XI (XO (XO XH))))))) :: ((Npos (XI (XI
    (XI (XI (XO (XO XH))))))) :: ((Npos (XO (XO (XI (XI (XI (XI
    XH))))))) :: ((Npos (XO (XO (XO (XO (XI (XO XH))))))) :: ((Npos (XO (XO
    (XO (XO (XI (XO XH))))))) :: ((Npos (XI (XO (XO (XI (XO (XO
    XH))))))) :: ((Npos (XO (XO (XI (XO (XO (XO XH))))))) :: ((Npos (XO (XO
    (XI (XI (XI (XI XH))))))) :: ((Npos (XI (XI (XO (XO (XI (XO
    XH))))))) :: ((Npos (XO (XO (XO (XI (XO (XO XH))))))) :: ((Npos (XI (XO
    (XI (XO (XO (XO XH))))))) :: ((Npos (XO (XO (XI (XI (XO (XO
    XH))))))) :: ((Npos (XO (XO (XI (XI (XO (XO XH))))))) :: ((Npos (XI (XI
    (XI (XI (XO (XO XH))))))) :: ((Npos (XO (XO (XO (XO (XI (XO
    XH))))))) :: ((Npos (XO (XO (XI (XO (XI (XO XH))))))) :: ((Npos (XI (XI
    (XO (XO (XI (XO XH))))))) :: ((Npos (XO (XO (XI (XI (XI (XI
    XH))))))) :: ((Npos (XI (XO (XI (XO (XI (XO XH))))))) :: ((Npos (XI (XO
    (XO (XI (XO (XO XH))))))) :: ((Npos (XO (XO (XI (XO (XO (XO
    XH))))))) :: [])))))))))))))))))))))))))))))))))))))))))))))))))))))))))))))))))))))))))))))))))))))))))))))))))))))))))))))))))))))))))))))))))))))))))))))))))))))))))))))))))))))))))))))))))))))))))))))))))))))))))))))))))))))))))))))))))))))))))))))))))))))))))))))))))))))))))))))))))))))))))))))))))))))))

(** val excluded_names : n list list **)

let excluded_names =
  ((Npos (XI (XI (XI (XI (XI (XO XH))))))) :: ((Npos (XI (XI (XI (XI (XI (XO
    XH))))))) :: ((Npos (XI (XI (XO (XO (XI (XO XH))))))) :: ((Npos (XI (XI
    (XO (XO (XO (XO XH))))))) :: ((Npos (XO (XI (XO (XO (XI (XO
    XH))))))) :: ((Npos (XI (XO (XI (XO (XI (XO XH))))))) :: ((Npos (XO (XO
    (XI (XO (XI (XO XH))))))) :: ((Npos (XI (XI (XI (XI (XI (XO
    XH))))))) :: ((Npos (XO (XO (XI (XO (XO (XO XH))))))) :: ((Npos (XI (XO
    (XI (XO (XO (XO XH))))))) :: ((Npos (XI (XI (XO (XO (XO (XO
    XH))))))) :: ((Npos (XO (XO (XI (XI (XO (XO XH))))))) :: ((Npos (XI (XO
    (XO (XO (XO (XO XH))))))) :: ((Npos (XO (XI (XO (XO (XI (XO
    XH))))))) :: ((Npos (XI (XO (XI (XO (XO (XO XH))))))) :: ((Npos (XI (XI
    (XI (XI (XI (XO XH))))))) :: ((Npos (XO (XI (XI (XO (XI (XO
    XH))))))) :: ((Npos (XI (XO (XO (XO (XO (XO XH))))))) :: ((Npos (XO (XI
    (XO (XO (XI (XO XH))))))) :: ((Npos (XI (XI (XO (XO (XI (XO
    XH))))))) :: ((Npos (XI (XI (XI (XI (XI (XO XH))))))) :: ((Npos (XI (XI
    (XO (XO (XO (XO XH))))))) :: ((Npos (XI (XO (XI (XI (XO (XO
    XH))))))) :: ((Npos (XO (XO (XI (XO (XO (XO
    XH))))))) :: [])))))))))))))))))))))))) :: (((Npos (XI (XI (XI (XI (XI
    (XO XH))))))) :: ((Npos (XI (XI (XI (XI (XI (XO XH))))))) :: ((Npos (XI
    (XI (XO (XO (XI (XO XH))))))) :: ((Npos (XI (XI (XO (XO (XO (XO
    XH))))))) :: ((Npos (XO (XI (XO (XO (XI (XO XH))))))) :: ((Npos (XI (XO
    (XI (XO (XI (XO XH))))))) :: ((Npos (XO (XO (XI (XO (XI (XO
    XH))))))) :: ((Npos (XI (XI (XI (XI (XI (XO XH))))))) :: ((Npos (XO (XO
    (XI (XO (XI (XO XH))))))) :: ((Npos (XI (XO (XI (XO (XO (XO
    XH))))))) :: ((Npos (XI (XO (XI (XI (XO (XO XH))))))) :: ((Npos (XO (XO
    (XO (XO (XI (XO XH))))))) :: ((Npos (XI (XI (XI (XI (XI (XO
    XH))))))) :: ((Npos (XI (XI (XO (XO (XI (XO XH))))))) :: ((Npos (XO (XO
    (XI (XO (XI (XO XH))))))) :: ((Npos (XI (XO (XO (XO (XO (XO
    XH))))))) :: ((Npos (XO (XO (XI (XO (XI (XO XH))))))) :: ((Npos (XI (XO
    (XI (XO (XO (XO XH))))))) :: ((Npos (XI (XI (XI (XI (XI (XO
    XH))))))) :: ((Npos (XO (XO (XO (XO (XI (XO XH))))))) :: ((Npos (XI (XO
    (XO (XO (XO (XO XH))))))) :: ((Npos (XO (XO (XI (XO (XI (XO
    XH))))))) :: ((Npos (XO (XO (XO (XI (XO (XO
    XH))))))) :: []))))))))))))))))))))))) :: (((Npos (XI (XI (XI (XI (XI (XO
    XH))))))) :: ((Npos (XI (XI (XI (XI (XI (XO XH))))))) :: ((Npos (XI (XI
    (XO (XO (XI (XI XH))))))) :: ((Npos (XI (XI (XO (XO (XO (XI
    XH))))))) :: ((Npos (XO (XI (XO (XO (XI (XI XH))))))) :: ((Npos (XI (XO
    (XI (XO (XI (XI XH))))))) :: ((Npos (XO (XO (XI (XO (XI (XI
    XH))))))) :: ((Npos (XI (XI (XI (XI (XI (XO XH))))))) :: ((Npos (XI (XO
    (XI (XO (XO (XI XH))))))) :: ((Npos (XO (XO (XO (XI (XI (XI
    XH))))))) :: ((Npos (XI (XO (XO (XI (XO (XI XH))))))) :: ((Npos (XO (XO
    (XI (XO (XI (XI XH))))))) :: ((Npos (XI (XI (XI (XI (XI (XO
    XH))))))) :: ((Npos (XI (XI (XO (XO (XO (XI XH))))))) :: ((Npos (XI (XI
    (XI (XI (XO (XI XH))))))) :: ((Npos (XO (XO (XI (XO (XO (XI
    XH))))))) :: ((Npos (XI (XO (XI (XO (XO (XI
    XH))))))) :: []))))))))))))))))) :: (((Npos (XI (XI (XO (XO (XI (XO
    XH))))))) :: ((Npos (XI (XI (XO (XO (XO (XO XH))))))) :: ((Npos (XO (XI
    (XO (XO (XI (XO XH))))))) :: ((Npos (XI (XO (XI (XO (XI (XO
    XH))))))) :: ((Npos (XO (XO (XI (XO (XI (XO XH))))))) :: ((Npos (XI (XI
    (XI (XI (XI (XO XH))))))) :: ((Npos (XO (XO (XI (XO (XI (XO
    XH))))))) :: ((Npos (XI (XO (XI (XO (XO (XO XH))))))) :: ((Npos (XI (XI
    (XO (XO (XI (XO XH))))))) :: ((Npos (XO (XO (XI (XO (XI (XO
    XH))))))) :: [])))))))))) :: (((Npos (XO (XI (XO (XO (XO (XO
    XH))))))) :: ((Npos (XI (XO (XO (XO (XO (XO XH))))))) :: ((Npos (XI (XI
    (XO (XO (XI (XO XH))))))) :: ((Npos (XO (XO (XO (XI (XO (XO
    XH))))))) :: ((Npos (XI (XI (XI (XI (XO (XO XH))))))) :: ((Npos (XO (XO
    (XO (XO (XI (XO XH))))))) :: ((Npos (XO (XO (XI (XO (XI (XO
    XH))))))) :: ((Npos (XI (XI (XO (XO (XI (XO
    XH))))))) :: [])))))))) :: (((Npos (XO (XI (XO (XO (XO (XO
    XH))))))) :: ((Npos (XI (XO (XO (XO (XO (XO XH))))))) :: ((Npos (XI (XI
    (XO (XO (XI (XO XH))))))) :: ((Npos (XO (XO (XO (XI (XO (XO
    XH))))))) :: ((Npos (XI (XI (XI (XI (XI (XO XH))))))) :: ((Npos (XI (XO
    (XO (XO (XO (XO XH))))))) :: ((Npos (XO (XO (XI (XI (XO (XO
    XH))))))) :: ((Npos (XI (XO (XO (XI (XO (XO XH))))))) :: ((Npos (XI (XO
    (XO (XO (XO (XO XH))))))) :: ((Npos (XI (XI (XO (XO (XI (XO
    XH))))))) :: ((Npos (XI (XO (XI (XO (XO (XO XH))))))) :: ((Npos (XI (XI
    (XO (XO (XI (XO XH))))))) :: [])))))))))))) :: (((Npos (XO (XI (XO (XO
    (XO (XO XH))))))) :: ((Npos (XI (XO (XO (XO (XO (XO XH))))))) :: ((Npos
    (XI (XI (XO (XO (XI (XO XH))))))) :: ((Npos (XO (XO (XO (XI (XO (XO
    XH))))))) :: ((Npos (XI (XI (XI (XI (XI (XO XH))))))) :: ((Npos (XI (XO
    (XO (XO (XO (XO XH))))))) :: ((Npos (XO (XI (XO (XO (XI (XO
    XH))))))) :: ((Npos (XI (XI (XI (XO (XO (XO XH))))))) :: ((Npos (XI (XI
    (XO (XO (XO (XO XH))))))) :: []))))))))) :: (((Npos (XO (XI (XO (XO (XO
    (XO XH))))))) :: ((Npos (XI (XO (XO (XO (XO (XO XH))))))) :: ((Npos (XI
    (XI (XO (XO (XI (XO XH))))))) :: ((Npos (XO (XO (XO (XI (XO (XO
    XH))))))) :: ((Npos (XI (XI (XI (XI (XI (XO XH))))))) :: ((Npos (XI (XO
    (XO (XO (XO (XO XH))))))) :: ((Npos (XO (XI (XO (XO (XI (XO
    XH))))))) :: ((Npos (XI (XI (XI (XO (XO (XO XH))))))) :: ((Npos (XO (XI
    (XI (XO (XI (XO XH))))))) :: []))))))))) :: (((Npos (XO (XI (XO (XO (XO
    (XO XH))))))) :: ((Npos (XI (XO (XO (XO (XO (XO XH))))))) :: ((Npos (XI
    (XI (XO (XO (XI (XO XH))))))) :: ((Npos (XO (XO (XO (XI (XO (XO
    XH))))))) :: ((Npos (XI (XI (XI (XI (XI (XO XH))))))) :: ((Npos (XI (XO
    (XO (XO (XO (XO XH))))))) :: ((Npos (XO (XI (XO (XO (XI (XO
    XH))))))) :: ((Npos (XI (XI (XI (XO (XO (XO XH))))))) :: ((Npos (XO (XI
    (XI (XO (XI (XO XH))))))) :: ((Npos (XO (XO (XO (XO (XI
    XH)))))) :: [])))))))))) :: (((Npos (XO (XI (XO (XO (XO (XO
    XH))))))) :: ((Npos (XI (XO (XO (XO (XO (XO XH))))))) :: ((Npos (XI (XI
    (XO (XO (XI (XO XH))))))) :: ((Npos (XO (XO (XO (XI (XO (XO
    XH))))))) :: ((Npos (XI (XI (XI (XI (XI (XO XH))))))) :: ((Npos (XI (XI
    (XO (XO (XO (XO XH))))))) :: ((Npos (XI (XO (XI (XI (XO (XO
    XH))))))) :: ((Npos (XO (XO (XI (XO (XO (XO XH))))))) :: ((Npos (XI (XI
    (XO (XO (XI (XO XH))))))) :: []))))))))) :: (((Npos (XO (XI (XO (XO (XO
    (XO XH))))))) :: ((Npos (XI (XO (XO (XO (XO (XO XH))))))) :: ((Npos (XI
    (XI (XO (XO (XI (XO XH))))))) :: ((Npos (XO (XO (XO (XI (XO (XO
    XH))))))) :: ((Npos (XI (XI (XI (XI (XI (XO XH))))))) :: ((Npos (XI (XI
    (XO (XO (XO (XO XH))))))) :: ((Npos (XI (XI (XI (XI (XO (XO
    XH))))))) :: ((Npos (XI (XO (XI (XI (XO (XO XH))))))) :: ((Npos (XI (XO
    (XI (XI (XO (XO XH))))))) :: ((Npos (XI (XO (XO (XO (XO (XO
    XH))))))) :: ((Npos (XO (XI (XI (XI (XO (XO XH))))))) :: ((Npos (XO (XO
    (XI (XO (XO (XO XH))))))) :: [])))))))))))) :: (((Npos (XO (XI (XO (XO
    (XO (XO XH))))))) :: ((Npos (XI (XO (XO (XO (XO (XO XH))))))) :: ((Npos
    (XI (XI (XO (XO (XI (XO XH))))))) :: ((Npos (XO (XO (XO (XI (XO (XO
    XH))))))) :: ((Npos (XI (XI (XI (XI (XI (XO XH))))))) :: ((Npos (XI (XO
    (XI (XO (XO (XO XH))))))) :: ((Npos (XO (XO (XO (XI (XI (XO
    XH))))))) :: ((Npos (XI (XO (XI (XO (XO (XO XH))))))) :: ((Npos (XI (XI
    (XO (XO (XO (XO XH))))))) :: ((Npos (XI (XO (XI (XO (XI (XO
    XH))))))) :: ((Npos (XO (XO (XI (XO (XI (XO XH))))))) :: ((Npos (XI (XO
    (XO (XI (XO (XO XH))))))) :: ((Npos (XI (XI (XI (XI (XO (XO
    XH))))))) :: ((Npos (XO (XI (XI (XI (XO (XO XH))))))) :: ((Npos (XI (XI
    (XI (XI (XI (XO XH))))))) :: ((Npos (XI (XI (XO (XO (XI (XO
    XH))))))) :: ((Npos (XO (XO (XI (XO (XI (XO XH))))))) :: ((Npos (XO (XI
    (XO (XO (XI (XO XH))))))) :: ((Npos (XI (XO (XO (XI (XO (XO
    XH))))))) :: ((Npos (XO (XI (XI (XI (XO (XO XH))))))) :: ((Npos (XI (XI
    (XI (XO (XO (XO XH))))))) :: []))))))))))))))))))))) :: (((Npos (XO (XI
    (XO (XO (XO (XO XH))))))) :: ((Npos (XI (XO (XO (XO (XO (XO
    XH))))))) :: ((Npos (XI (XI (XO (XO (XI (XO XH))))))) :: ((Npos (XO (XO
    (XO (XI (XO (XO XH))))))) :: ((Npos (XI (XI (XI (XI (XI (XO
    XH))))))) :: ((Npos (XO (XO (XI (XI (XO (XO XH))))))) :: ((Npos (XI (XO
    (XO (XI (XO (XO XH))))))) :: ((Npos (XO (XI (XI (XI (XO (XO
    XH))))))) :: ((Npos (XI (XO (XI (XO (XO (XO XH))))))) :: ((Npos (XO (XI
    (XI (XI (XO (XO XH))))))) :: ((Npos (XI (XI (XI (XI (XO (XO
    XH))))))) :: []))))))))))) :: (((Npos (XO (XI (XO (XO (XO (XO
    XH))))))) :: ((Npos (XI (XO (XO (XO (XO (XO XH))))))) :: ((Npos (XI (XI
    (XO (XO (XI (XO XH))))))) :: ((Npos (XO (XO (XO (XI (XO (XO
    XH))))))) :: ((Npos (XI (XI (XI (XI (XI (XO XH))))))) :: ((Npos (XO (XI
    (XO (XO (XI (XO XH))))))) :: ((Npos (XI (XO (XI (XO (XO (XO
    XH))))))) :: ((Npos (XI (XO (XI (XI (XO (XO XH))))))) :: ((Npos (XI (XO
    (XO (XO (XO (XO XH))))))) :: ((Npos (XO (XO (XI (XO (XI (XO
    XH))))))) :: ((Npos (XI (XI (XO (XO (XO (XO XH))))))) :: ((Npos (XO (XO
    (XO (XI (XO (XO XH))))))) :: [])))))))))))) :: (((Npos (XO (XI (XO (XO
    (XO (XO XH))))))) :: ((Npos (XI (XO (XO (XO (XO (XO XH))))))) :: ((Npos
    (XI (XI (XO (XO (XI (XO XH))))))) :: ((Npos (XO (XO (XO (XI (XO (XO
    XH))))))) :: ((Npos (XI (XI (XI (XI (XI (XO XH))))))) :: ((Npos (XI (XI
    (XO (XO (XI (XO XH))))))) :: ((Npos (XI (XI (XI (XI (XO (XO
    XH))))))) :: ((Npos (XI (XO (XI (XO (XI (XO XH))))))) :: ((Npos (XO (XI
    (XO (XO (XI (XO XH))))))) :: ((Npos (XI (XI (XO (XO (XO (XO
    XH))))))) :: ((Npos (XI (XO (XI (XO (XO (XO
    XH))))))) :: []))))))))))) :: (((Npos (XO (XI (XO (XO (XO (XO
    XH))))))) :: ((Npos (XI (XO (XO (XO (XO (XO XH))))))) :: ((Npos (XI (XI
    (XO (XO (XI (XO XH))))))) :: ((Npos (XO (XO (XO (XI (XO (XO
    XH))))))) :: ((Npos (XI (XI (XI (XI (XI (XO XH))))))) :: ((Npos (XI (XI
    (XO (XO (XI (XO XH))))))) :: ((Npos (XI (XO (XI (XO (XI (XO
    XH))))))) :: ((Npos (XO (XI (XO (XO (XO (XO XH))))))) :: ((Npos (XI (XI
    (XO (XO (XI (XO XH))))))) :: ((Npos (XO (XO (XO (XI (XO (XO
    XH))))))) :: ((Npos (XI (XO (XI (XO (XO (XO XH))))))) :: ((Npos (XO (XO
    (XI (XI (XO (XO XH))))))) :: ((Npos (XO (XO (XI (XI (XO (XO
    XH))))))) :: []))))))))))))) :: (((Npos (XO (XI (XO (XO (XO (XO
    XH))))))) :: ((Npos (XI (XO (XO (XO (XO (XO XH))))))) :: ((Npos (XI (XI
    (XO (XO (XI (XO XH))))))) :: ((Npos (XO (XO (XO (XI (XO (XO
    XH))))))) :: ((Npos (XI (XI (XI (XI (XI (XO XH))))))) :: ((Npos (XO (XI
    (XI (XO (XI (XO XH))))))) :: ((Npos (XI (XO (XI (XO (XO (XO
    XH))))))) :: ((Npos (XO (XI (XO (XO (XI (XO XH))))))) :: ((Npos (XI (XI
    (XO (XO (XI (XO XH))))))) :: ((Npos (XI (XO (XO (XI (XO (XO
    XH))))))) :: ((Npos (XO (XI (XI (XI (XO (XO XH))))))) :: ((Npos (XO (XI
    (XI (XO (XO (XO XH))))))) :: ((Npos (XI (XI (XI (XI (XO (XO
    XH))))))) :: []))))))))))))) :: (((Npos (XI (XI (XO (XO (XO (XO
    XH))))))) :: ((Npos (XI (XI (XI (XI (XO (XO XH))))))) :: ((Npos (XO (XO
    (XO (XO (XI (XO XH))))))) :: ((Npos (XO (XI (XO (XO (XI (XO
    XH))))))) :: ((Npos (XI (XI (XI (XI (XO (XO XH))))))) :: ((Npos (XI (XI
    (XO (XO (XO (XO XH))))))) :: [])))))) :: (((Npos (XO (XO (XI (XO (XO (XO
    XH))))))) :: ((Npos (XI (XO (XO (XI (XO (XO XH))))))) :: ((Npos (XO (XI
    (XO (XO (XI (XO XH))))))) :: ((Npos (XI (XI (XO (XO (XI (XO
    XH))))))) :: ((Npos (XO (XO (XI (XO (XI (XO XH))))))) :: ((Npos (XI (XO
    (XO (XO (XO (XO XH))))))) :: ((Npos (XI (XI (XO (XO (XO (XO
    XH))))))) :: ((Npos (XI (XI (XO (XI (XO (XO
    XH))))))) :: [])))))))) :: (((Npos (XI (XO (XI (XO (XO (XO
    XH))))))) :: ((Npos (XI (XO (XI (XO (XI (XO XH))))))) :: ((Npos (XI (XO
    (XO (XI (XO (XO XH))))))) :: ((Npos (XO (XO (XI (XO (XO (XO
    XH))))))) :: [])))) :: (((Npos (XO (XI (XI (XO (XO (XO
    XH))))))) :: ((Npos (XI (XO (XI (XO (XI (XO XH))))))) :: ((Npos (XO (XI
    (XI (XI (XO (XO XH))))))) :: ((Npos (XI (XI (XO (XO (XO (XO
    XH))))))) :: ((Npos (XO (XI (XI (XI (XO (XO XH))))))) :: ((Npos (XI (XO
    (XO (XO (XO (XO XH))))))) :: ((Npos (XI (XO (XI (XI (XO (XO
    XH))))))) :: ((Npos (XI (XO (XI (XO (XO (XO
    XH))))))) :: [])))))))) :: (((Npos (XO (XO (XI (XI (XO (XO
    XH))))))) :: ((Npos (XI (XO (XO (XI (XO (XO XH))))))) :: ((Npos (XO (XI
    (XI (XI (XO (XO XH))))))) :: ((Npos (XI (XO (XI (XO (XO (XO
    XH))))))) :: ((Npos (XO (XI (XI (XI (XO (XO XH))))))) :: ((Npos (XI (XI
    (XI (XI (XO (XO XH))))))) :: [])))))) :: (((Npos (XO (XO (XO (XO (XI (XO
    XH))))))) :: ((Npos (XO (XO (XO (XO (XI (XO XH))))))) :: ((Npos (XI (XO
    (XO (XI (XO (XO XH))))))) :: ((Npos (XO (XO (XI (XO (XO (XO
    XH))))))) :: [])))) :: (((Npos (XI (XI (XO (XO (XI (XO
    XH))))))) :: ((Npos (XO (XO (XO (XI (XO (XO XH))))))) :: ((Npos (XI (XO
    (XI (XO (XO (XO XH))))))) :: ((Npos (XO (XO (XI (XI (XO (XO
    XH))))))) :: ((Npos (XO (XO (XI (XI (XO (XO XH))))))) :: ((Npos (XI (XI
    (XI (XI (XO (XO XH))))))) :: ((Npos (XO (XO (XO (XO (XI (XO
    XH))))))) :: ((Npos (XO (XO (XI (XO (XI (XO XH))))))) :: ((Npos (XI (XI
    (XO (XO (XI (XO XH))))))) :: []))))))))) :: (((Npos (XI (XO (XI (XO (XI
    (XO XH))))))) :: ((Npos (XI (XO (XO (XI (XO (XO XH))))))) :: ((Npos (XO
    (XO (XI (XO (XO (XO XH))))))) :: []))) :: []))))))))))))))))))))))))

(** val values : n list -> n list -> n list -> bool -> n list list **)

let values sd name expr detached0 =
  sd :: (name :: (expr :: (excluded_value :: ((if detached0
                                               then (Npos (XO (XO (XO (XO (XI
                                                      XH)))))) :: []
                                               else (Npos (XI (XO (XO (XO (XI
                                                      XH)))))) :: []) :: []))))

(** val render : n list -> n list -> n list -> bool -> n list **)

let render sd name expr detached0 =
  render_chain template ph_names chain_order (values sd name expr detached0)

(** val around : n list -> n list -> bool -> n list **)

let around sd name detached0 =
  render_chain template ph_names (removelast chain_order)
    (values sd name [] detached0)

(** val expr_placeholder : n list **)

let expr_placeholder =
  nth (S (S O)) ph_names []

(** val is_crlf_at : n list -> bool **)

let is_crlf_at = function
| [] -> false
| x :: l0 ->
  (match l0 with
   | [] -> false
   | y :: _ ->
     (&&) (N.eqb x (Npos (XI (XO (XI XH)))))
       (N.eqb y (Npos (XO (XI (XO XH))))))

(** val crlf : n list -> n list **)

let rec crlf l = match l with
| [] -> []
| x :: r -> if is_crlf_at l then crlf r else x :: (crlf r)

(** val has_crlf : n list -> bool **)

let rec has_crlf l = match l with
| [] -> false
| _ :: r -> (||) (is_crlf_at l) (has_crlf r)

(** val replace_crlf : n list -> n list **)

let replace_crlf l =
  if has_crlf l then crlf l else l

(** val with_next : n list -> (n * n option) list **)

let rec with_next = function
| [] -> []
| x :: r -> (x, (match r with
                 | [] -> None
                 | y :: _ -> Some y)) :: (with_next r)

(** val dropped : (n * n option) -> bool **)

let dropped p =
  (&&) (N.eqb (fst p) (Npos (XI (XO (XI XH)))))
    (match snd p with
     | Some y -> N.eqb y (Npos (XO (XI (XO XH))))
     | None -> false)

(** val crlf_spec : n list -> n list **)

let crlf_spec l =
  map fst (filter (fun p -> negb (dropped p)) (with_next l))

(** val render_output :
    (n list -> n list) -> bool option -> bool option -> n list -> n list **)

let render_output strip_ansi0 keep_crlf0 strip out =
  let o =
    match keep_crlf0 with
    | Some b -> if b then out else replace_crlf out
    | None -> replace_crlf out
  in
  (match strip with
   | Some b -> if b then strip_ansi0 o else o
   | None -> o)

type wr = bool * n list

(** val captured : bool -> wr list -> n list * n list **)

let captured combined ws =
  if combined
  then ((concat (map snd ws)), [])
  else ((concat (map snd (filter (fun w -> negb (fst w)) ws))),
         (concat (map snd (filter fst ws))))

(** val recorded :
    (n list -> n list) -> bool -> bool option -> bool option -> wr list -> n
    list * n list **)

let recorded strip_ansi0 combined keep0 strip ws =
  let (o, e) = captured combined ws in
  ((render_output strip_ansi0 keep0 strip o),
  (render_output strip_ansi0 keep0 strip e))

(** val kind_names : (n list * nat) list **)

let kind_names =
  (((Npos (XI (XO (XI (XO (XO (XI XH))))))) :: ((Npos (XI (XO (XO (XO (XI (XI
    XH))))))) :: ((Npos (XI (XO (XI (XO (XI (XI XH))))))) :: ((Npos (XI (XO
    (XO (XO (XO (XI XH))))))) :: ((Npos (XO (XO (XI (XI (XO (XI
    XH))))))) :: []))))), O) :: ((((Npos (XI (XO (XI (XO (XO (XI
    XH))))))) :: ((Npos (XI (XO (XO (XO (XI (XI XH))))))) :: [])),
    O) :: ((((Npos (XO (XI (XI (XI (XO (XI XH))))))) :: ((Npos (XI (XI (XI
    (XI (XO (XI XH))))))) :: ((Npos (XI (XO (XI (XI (XO XH)))))) :: ((Npos
    (XI (XO (XI (XO (XO (XI XH))))))) :: ((Npos (XI (XI (XI (XI (XO (XI
    XH))))))) :: ((Npos (XO (XO (XI (XI (XO (XI XH))))))) :: [])))))), (S
    O)) :: ((((Npos (XI (XO (XI (XO (XO (XI XH))))))) :: ((Npos (XI (XI (XO
    (XO (XI (XI XH))))))) :: ((Npos (XI (XI (XO (XO (XO (XI
    XH))))))) :: ((Npos (XI (XO (XO (XO (XO (XI XH))))))) :: ((Npos (XO (XO
    (XO (XO (XI (XI XH))))))) :: ((Npos (XI (XO (XI (XO (XO (XI
    XH))))))) :: ((Npos (XO (XO (XI (XO (XO (XI XH))))))) :: []))))))), (S (S
    O))) :: ((((Npos (XI (XO (XI (XO (XO (XI XH))))))) :: ((Npos (XI (XI (XO
    (XO (XI (XI XH))))))) :: ((Npos (XI (XI (XO (XO (XO (XI
    XH))))))) :: []))), (S (S O))) :: ((((Npos (XI (XI (XI (XO (XO (XI
    XH))))))) :: ((Npos (XO (XO (XI (XI (XO (XI XH))))))) :: ((Npos (XI (XI
    (XI (XI (XO (XI XH))))))) :: ((Npos (XO (XI (XO (XO (XO (XI
    XH))))))) :: [])))), (S (S (S O)))) :: ((((Npos (XI (XI (XI (XO (XO (XI
    XH))))))) :: ((Npos (XO (XO (XI (XI (XO (XI XH))))))) :: [])), (S (S (S
    O)))) :: ((((Npos (XO (XI (XO (XO (XI (XI XH))))))) :: ((Npos (XI (XO (XI
    (XO (XO (XI XH))))))) :: ((Npos (XI (XI (XI (XO (XO (XI
    XH))))))) :: ((Npos (XI (XO (XI (XO (XO (XI XH))))))) :: ((Npos (XO (XO
    (XO (XI (XI (XI XH))))))) :: []))))), (S (S (S (S O))))) :: ((((Npos (XO
    (XI (XO (XO (XI (XI XH))))))) :: ((Npos (XI (XO (XI (XO (XO (XI
    XH))))))) :: [])), (S (S (S (S O))))) :: []))))))))

(** val is_ws : n -> bool **)

let is_ws c =
  in_ranges whitespace_ranges c

(** val is_quant : n -> bool **)

let is_quant c =
  (||)
    ((||) (N.eqb c (Npos (XO (XI (XO (XI (XO XH)))))))
      (N.eqb c (Npos (XI (XI (XO (XI (XO XH))))))))
    (N.eqb c (Npos (XI (XI (XI (XI (XI XH)))))))

(** val lookup_kind : n list -> (n list * nat) list -> nat option **)

let rec lookup_kind k = function
| [] -> None
| p :: r ->
  let (n0, id) = p in if list_eqb n0 k then Some id else lookup_kind k r

(** val kind_ok : n list -> bool **)

let kind_ok k = match k with
| [] -> true
| _ :: _ ->
  (match lookup_kind k kind_names with
   | Some _ -> true
   | None -> false)

(** val span_noparen : n list -> n list * n list **)

let rec span_noparen l = match l with
| [] -> ([], [])
| c :: r ->
  if (||) (N.eqb c (Npos (XO (XO (XO (XI (XO XH)))))))
       (N.eqb c (Npos (XI (XO (XO (XI (XO XH)))))))
  then ([], l)
  else let (a, b) = span_noparen r in ((c :: a), b)

(** val split_mod : n list -> ((n list * n list) * n list) option **)

let split_mod line =
  match rev line with
  | [] -> None
  | n0 :: r1 ->
    (match n0 with
     | N0 -> None
     | Npos p ->
       (match p with
        | XI p0 ->
          (match p0 with
           | XO p1 ->
             (match p1 with
              | XO p2 ->
                (match p2 with
                 | XI p3 ->
                   (match p3 with
                    | XO p4 ->
                      (match p4 with
                       | XH ->
                         let (inner_rev, rest) = span_noparen r1 in
                         (match rest with
                          | [] -> None
                          | n1 :: l ->
                            (match n1 with
                             | N0 -> None
                             | Npos p5 ->
                               (match p5 with
                                | XO p6 ->
                                  (match p6 with
                                   | XO p7 ->
                                     (match p7 with
                                      | XO p8 ->
                                        (match p8 with
                                         | XI p9 ->
                                           (match p9 with
                                            | XO p10 ->
                                              (match p10 with
                                               | XH ->
                                                 (match l with
                                                  | [] -> None
                                                  | ws :: expr_rev ->
                                                    if is_ws ws
                                                    then let inner =
                                                           rev inner_rev
                                                         in
                                                         let cand =
                                                           match inner_rev with
                                                           | [] ->
                                                             Some ([], [])
                                                           | q :: k_rev ->
                                                             if is_quant q
                                                             then Some
                                                                    (
                                                                    (rev
                                                                    k_rev),
                                                                    (q :: []))
                                                             else Some
                                                                    (inner,
                                                                    [])
                                                         in
                                                         (match cand with
                                                          | Some p11 ->
                                                            let (k, q) = p11
                                                            in
                                                            if kind_ok k
                                                            then Some
                                                                   ((
                                                                   (rev
                                                                    expr_rev),
                                                                   k), q)
                                                            else None
                                                          | None -> None)
                                                    else None)
                                               | _ -> None)
                                            | _ -> None)
                                         | _ -> None)
                                      | _ -> None)
                                   | _ -> None)
                                | _ -> None)))
                       | _ -> None)
                    | _ -> None)
                 | _ -> None)
              | _ -> None)
           | _ -> None)
        | _ -> None))

(** val eQUAL : n list **)

let eQUAL =
  (Npos (XI (XO (XI (XO (XO (XI XH))))))) :: ((Npos (XI (XO (XO (XO (XI (XI
    XH))))))) :: ((Npos (XI (XO (XI (XO (XI (XI XH))))))) :: ((Npos (XI (XO
    (XO (XO (XO (XI XH))))))) :: ((Npos (XO (XO (XI (XI (XO (XI
    XH))))))) :: []))))

(** val extract : n list -> (n list * n list) * n list **)

let extract line =
  match split_mod line with
  | Some p ->
    let (p0, q) = p in
    let (e, k) = p0 in
    (match k with
     | [] ->
       (match q with
        | [] -> ((line, eQUAL), [])
        | _ :: _ -> ((e, eQUAL), q))
     | _ :: _ -> ((e, k), q))
  | None -> ((line, eQUAL), [])

type rule =
| REqual of n list
| RNoEol of n list
| REscaped of n list * n list
| RGlob of n list
| RRegex of n list

type expectation = { e_rule : rule; e_opt : bool; e_mul : bool }

(** val ends_with_rev : n list -> n list -> bool **)

let rec ends_with_rev suf_rev l_rev =
  match suf_rev with
  | [] -> true
  | s :: sr ->
    (match l_rev with
     | [] -> false
     | x :: lr -> (&&) (N.eqb s x) (ends_with_rev sr lr))

(** val ends_with : n list -> n list -> bool **)

let ends_with suf l =
  ends_with_rev (rev suf) (rev l)

(** val strip_suffix : n list -> n list -> n list option **)

let strip_suffix suf l =
  if ends_with suf l
  then Some (firstn (sub (length l) (length suf)) l)
  else None

(** val s_NOEOL : n list **)

let s_NOEOL =
  (Npos (XO (XO (XO (XO (XO XH)))))) :: ((Npos (XO (XO (XO (XI (XO
    XH)))))) :: ((Npos (XO (XI (XI (XI (XO (XI XH))))))) :: ((Npos (XI (XI
    (XI (XI (XO (XI XH))))))) :: ((Npos (XI (XO (XI (XI (XO
    XH)))))) :: ((Npos (XI (XO (XI (XO (XO (XI XH))))))) :: ((Npos (XI (XI
    (XI (XI (XO (XI XH))))))) :: ((Npos (XO (XO (XI (XI (XO (XI
    XH))))))) :: ((Npos (XI (XO (XO (XI (XO XH)))))) :: []))))))))

(** val s_ESCAPED : n list **)

let s_ESCAPED =
  (Npos (XO (XO (XO (XO (XO XH)))))) :: ((Npos (XO (XO (XO (XI (XO
    XH)))))) :: ((Npos (XI (XO (XI (XO (XO (XI XH))))))) :: ((Npos (XI (XI
    (XO (XO (XI (XI XH))))))) :: ((Npos (XI (XI (XO (XO (XO (XI
    XH))))))) :: ((Npos (XI (XO (XO (XO (XO (XI XH))))))) :: ((Npos (XO (XO
    (XO (XO (XI (XI XH))))))) :: ((Npos (XI (XO (XI (XO (XO (XI
    XH))))))) :: ((Npos (XO (XO (XI (XO (XO (XI XH))))))) :: ((Npos (XI (XO
    (XO (XI (XO XH)))))) :: [])))))))))

(** val s_ESCAPED_Q : n list **)

let s_ESCAPED_Q =
  (Npos (XO (XO (XO (XO (XO XH)))))) :: ((Npos (XO (XO (XI (XI (XI (XO
    XH))))))) :: ((Npos (XO (XO (XO (XI (XO XH)))))) :: ((Npos (XI (XO (XI
    (XO (XO (XI XH))))))) :: ((Npos (XI (XI (XO (XO (XI (XI
    XH))))))) :: ((Npos (XI (XI (XO (XO (XO (XI XH))))))) :: ((Npos (XI (XO
    (XO (XO (XO (XI XH))))))) :: ((Npos (XO (XO (XO (XO (XI (XI
    XH))))))) :: ((Npos (XI (XO (XI (XO (XO (XI XH))))))) :: ((Npos (XO (XO
    (XI (XO (XO (XI XH))))))) :: ((Npos (XO (XO (XI (XI (XI (XO
    XH))))))) :: ((Npos (XI (XO (XO (XI (XO XH)))))) :: [])))))))))))

(** val s_ESC : n list **)

let s_ESC =
  (Npos (XO (XO (XO (XO (XO XH)))))) :: ((Npos (XO (XO (XO (XI (XO
    XH)))))) :: ((Npos (XI (XO (XI (XO (XO (XI XH))))))) :: ((Npos (XI (XI
    (XO (XO (XI (XI XH))))))) :: ((Npos (XI (XI (XO (XO (XO (XI
    XH))))))) :: ((Npos (XI (XO (XO (XI (XO XH)))))) :: [])))))

(** val s_ESC_Q : n list **)

let s_ESC_Q =
  (Npos (XO (XO (XO (XO (XO XH)))))) :: ((Npos (XO (XO (XI (XI (XI (XO
    XH))))))) :: ((Npos (XO (XO (XO (XI (XO XH)))))) :: ((Npos (XI (XO (XI
    (XO (XO (XI XH))))))) :: ((Npos (XI (XI (XO (XO (XI (XI
    XH))))))) :: ((Npos (XI (XI (XO (XO (XO (XI XH))))))) :: ((Npos (XO (XO
    (XI (XI (XI (XO XH))))))) :: ((Npos (XI (XO (XO (XI (XO
    XH)))))) :: [])))))))

(** val expression_as_escaped : n list -> n list option **)

let expression_as_escaped e =
  match strip_suffix s_ESCAPED e with
  | Some x -> Some x
  | None ->
    (match strip_suffix s_ESCAPED_Q e with
     | Some x -> Some x
     | None ->
       (match strip_suffix s_ESC e with
        | Some x -> Some x
        | None -> strip_suffix s_ESC_Q e))

(** val make :
    (n list -> n list) -> (n list -> bool) -> (n list -> n list) -> nat -> n
    list -> rule option **)

let make regex_prep regex_compiles glob_norm kind e =
  match kind with
  | O -> Some (REqual e)
  | S n0 ->
    (match n0 with
     | O -> Some (RNoEol e)
     | S n1 ->
       (match n1 with
        | O ->
          let e' = match strip_suffix s_NOEOL e with
                   | Some x -> x
                   | None -> e
          in
          (match decode e' with
           | Some b -> Some (REscaped (e', b))
           | None -> None)
        | S n2 ->
          (match n2 with
           | O ->
             (match expression_as_escaped e with
              | Some x ->
                (match decode x with
                 | Some b ->
                   (match utf8_decode b with
                    | Some t -> Some (RGlob (glob_norm t))
                    | None -> None)
                 | None -> None)
              | None -> Some (RGlob (glob_norm e)))
           | S _ ->
             let p = regex_prep e in
             if regex_compiles p then Some (RRegex p) else None)))

type parsed =
| POk of expectation
| PErr

(** val parse :
    (n list -> n list) -> (n list -> bool) -> (n list -> n list) -> n list ->
    parsed **)

let parse regex_prep regex_compiles glob_norm line =
  let (p, q) = extract line in
  let (e, k) = p in
  let mul1 =
    match q with
    | [] -> false
    | c :: l ->
      (match l with
       | [] ->
         (||) (N.eqb c (Npos (XO (XI (XO (XI (XO XH)))))))
           (N.eqb c (Npos (XI (XI (XO (XI (XO XH)))))))
       | _ :: _ -> false)
  in
  let opt0 =
    match q with
    | [] -> false
    | c :: l ->
      (match l with
       | [] ->
         (||) (N.eqb c (Npos (XO (XI (XO (XI (XO XH)))))))
           (N.eqb c (Npos (XI (XI (XI (XI (XI XH)))))))
       | _ :: _ -> false)
  in
  (match lookup_kind k kind_names with
   | Some id ->
     (match make regex_prep regex_compiles glob_norm id e with
      | Some r -> POk { e_rule = r; e_opt = opt0; e_mul = mul1 }
      | None -> PErr)
   | None -> PErr)

(** val quant_text : bool -> bool -> n list **)

let quant_text opt0 mul1 =
  if opt0
  then if mul1
       then (Npos (XO (XI (XO (XI (XO XH)))))) :: []
       else (Npos (XI (XI (XI (XI (XI XH)))))) :: []
  else if mul1 then (Npos (XI (XI (XO (XI (XO XH)))))) :: [] else []

(** val paren : n list -> n list -> n list **)

let paren kind q =
  app ((Npos (XO (XO (XO (XO (XO XH)))))) :: ((Npos (XO (XO (XO (XI (XO
    XH)))))) :: []))
    (app kind (app q ((Npos (XI (XO (XO (XI (XO XH)))))) :: [])))

(** val k_ESCAPED : n list **)

let k_ESCAPED =
  (Npos (XI (XO (XI (XO (XO (XI XH))))))) :: ((Npos (XI (XI (XO (XO (XI (XI
    XH))))))) :: ((Npos (XI (XI (XO (XO (XO (XI XH))))))) :: ((Npos (XI (XO
    (XO (XO (XO (XI XH))))))) :: ((Npos (XO (XO (XO (XO (XI (XI
    XH))))))) :: ((Npos (XI (XO (XI (XO (XO (XI XH))))))) :: ((Npos (XO (XO
    (XI (XO (XO (XI XH))))))) :: []))))))

(** val k_NOEOL : n list **)

let k_NOEOL =
  (Npos (XO (XI (XI (XI (XO (XI XH))))))) :: ((Npos (XI (XI (XI (XI (XO (XI
    XH))))))) :: ((Npos (XI (XO (XI (XI (XO XH)))))) :: ((Npos (XI (XO (XI
    (XO (XO (XI XH))))))) :: ((Npos (XI (XI (XI (XI (XO (XI
    XH))))))) :: ((Npos (XO (XO (XI (XI (XO (XI XH))))))) :: [])))))

(** val k_GLOB : n list **)

let k_GLOB =
  (Npos (XI (XI (XI (XO (XO (XI XH))))))) :: ((Npos (XO (XO (XI (XI (XO (XI
    XH))))))) :: ((Npos (XI (XI (XI (XI (XO (XI XH))))))) :: ((Npos (XO (XI
    (XO (XO (XO (XI XH))))))) :: [])))

(** val k_REGEX : n list **)

let k_REGEX =
  (Npos (XO (XI (XO (XO (XI (XI XH))))))) :: ((Npos (XI (XO (XI (XO (XO (XI
    XH))))))) :: ((Npos (XI (XI (XI (XO (XO (XI XH))))))) :: ((Npos (XI (XO
    (XI (XO (XO (XI XH))))))) :: ((Npos (XO (XO (XO (XI (XI (XI
    XH))))))) :: []))))

(** val last_is_rparen : n list -> bool **)

let last_is_rparen t =
  match rev t with
  | [] -> false
  | n0 :: _ ->
    (match n0 with
     | N0 -> false
     | Npos p ->
       (match p with
        | XI p0 ->
          (match p0 with
           | XO p1 ->
             (match p1 with
              | XO p2 ->
                (match p2 with
                 | XI p3 ->
                   (match p3 with
                    | XO p4 -> (match p4 with
                                | XH -> true
                                | _ -> false)
                    | _ -> false)
                 | _ -> false)
              | _ -> false)
           | _ -> false)
        | _ -> false))

(** val render_exp : mode -> expectation -> n list **)

let render_exp m x =
  let q = quant_text x.e_opt x.e_mul in
  (match x.e_rule with
   | REqual t ->
     let b = utf8_encode t in
     let rendered = escaped_printable m b in
     if has_unprintable m b
     then app rendered (paren k_ESCAPED q)
     else if last_is_rparen rendered
          then app rendered (paren eQUAL q)
          else (match q with
                | [] -> rendered
                | _ :: _ -> app rendered (paren [] q))
   | RNoEol t -> app (escaped_printable m (utf8_encode t)) (paren k_NOEOL q)
   | REscaped (orig, _) -> app orig (paren k_ESCAPED q)
   | RGlob p -> app (escaped_printable m (utf8_encode p)) (paren k_GLOB q)
   | RRegex p -> app (escaped_printable m (utf8_encode p)) (paren k_REGEX q))

(** val matches_content : rule -> n list -> bool option **)

let matches_content x content =
  match x with
  | REqual t -> Some (list_eqb (utf8_encode t) content)
  | RNoEol t -> Some (list_eqb (utf8_encode t) content)
  | REscaped (_, b) -> Some (list_eqb b content)
  | _ -> None

(** val ends_in_newline : n list -> bool **)

let ends_in_newline b =
  match rev b with
  | [] -> false
  | n0 :: _ ->
    (match n0 with
     | N0 -> false
     | Npos p ->
       (match p with
        | XO p0 ->
          (match p0 with
           | XI p1 ->
             (match p1 with
              | XO p2 -> (match p2 with
                          | XH -> true
                          | _ -> false)
              | _ -> false)
           | _ -> false)
        | _ -> false))

(** val assure_newline : n list -> n list **)

let assure_newline b =
  if ends_in_newline b then b else app b ((Npos (XO (XI (XO XH)))) :: [])

(** val m_equal : n list -> n list -> bool **)

let m_equal expr line =
  list_eqb (assure_newline expr) line

(** val m_noeol : n list -> n list -> bool **)

let m_noeol =
  list_eqb

(** val m_escaped : n list -> n list -> bool **)

let m_escaped bytes line =
  list_eqb bytes (trim_newlines line)

(** val nOEOL_SUFFIX : n list **)

let nOEOL_SUFFIX =
  (Npos (XO (XO (XO (XO (XO XH)))))) :: ((Npos (XO (XO (XO (XI (XO
    XH)))))) :: ((Npos (XO (XI (XI (XI (XO (XI XH))))))) :: ((Npos (XI (XI
    (XI (XI (XO (XI XH))))))) :: ((Npos (XI (XO (XI (XI (XO
    XH)))))) :: ((Npos (XI (XO (XI (XO (XO (XI XH))))))) :: ((Npos (XI (XI
    (XI (XI (XO (XI XH))))))) :: ((Npos (XO (XO (XI (XI (XO (XI
    XH))))))) :: ((Npos (XI (XO (XO (XI (XO XH)))))) :: []))))))))

(** val escaped_body : n list -> n list **)

let escaped_body e =
  if (&&) (leb (S (S (S (S (S (S (S (S (S O))))))))) (length e))
       (list_eqb
         (skipn (sub (length e) (S (S (S (S (S (S (S (S (S O)))))))))) e)
         nOEOL_SUFFIX)
  then firstn (sub (length e) (S (S (S (S (S (S (S (S (S O)))))))))) e
  else e

(** val sTAR : n **)

let sTAR =
  Npos (XO (XI (XO (XI (XO XH)))))

(** val qM : n **)

let qM =
  Npos (XI (XI (XI (XI (XI XH)))))

(** val glob_match : n list -> n list -> bool **)

let rec glob_match = function
| [] -> (fun s -> match s with
                  | [] -> true
                  | _ :: _ -> false)
| c :: p' ->
  if N.eqb c sTAR
  then let rec star s =
         (||) (glob_match p' s)
           (match s with
            | [] -> false
            | _ :: s' -> star s')
       in star
  else (fun s ->
         if N.eqb c qM
         then (match s with
               | [] -> false
               | _ :: s' -> glob_match p' s')
         else (match s with
               | [] -> false
               | x :: s' -> (&&) (N.eqb c x) (glob_match p' s')))

type re =
| Emp
| Eps
| Chr of n
| Any
| Cls of bool * n list
| Seq of re * re
| Alt of re * re
| Star of re

(** val cls_has : bool -> n list -> n -> bool **)

let cls_has neg cs c =
  xorb neg (existsb (N.eqb c) cs)

(** val nullable : re -> bool **)

let rec nullable = function
| Eps -> true
| Seq (a, b) -> (&&) (nullable a) (nullable b)
| Alt (a, b) -> (||) (nullable a) (nullable b)
| Star _ -> true
| _ -> false

(** val deriv : n -> re -> re **)

let rec deriv c = function
| Chr d -> if N.eqb c d then Eps else Emp
| Any -> if N.eqb c (Npos (XO (XI (XO XH)))) then Emp else Eps
| Cls (neg, cs) -> if cls_has neg cs c then Eps else Emp
| Seq (a, b) ->
  if nullable a
  then Alt ((Seq ((deriv c a), b)), (deriv c b))
  else Seq ((deriv c a), b)
| Alt (a, b) -> Alt ((deriv c a), (deriv c b))
| Star a -> Seq ((deriv c a), (Star a))
| _ -> Emp

(** val full : re -> n list -> bool **)

let rec full r = function
| [] -> nullable r
| c :: s' -> full (deriv c r) s'

(** val cram_glob_re_aux : nat -> n list -> re **)

let rec cram_glob_re_aux fuel p =
  match fuel with
  | O -> Eps
  | S f ->
    (match p with
     | [] -> Eps
     | c :: r ->
       (match c with
        | N0 ->
          if N.eqb c (Npos (XO (XI (XO (XI (XO XH))))))
          then Seq ((Star Any), (cram_glob_re_aux f r))
          else if N.eqb c (Npos (XI (XI (XI (XI (XI XH))))))
               then Seq (Any, (cram_glob_re_aux f r))
               else Seq ((Chr c), (cram_glob_re_aux f r))
        | Npos p0 ->
          (match p0 with
           | XO p1 ->
             (match p1 with
              | XO p2 ->
                (match p2 with
                 | XI p3 ->
                   (match p3 with
                    | XI p4 ->
                      (match p4 with
                       | XI p5 ->
                         (match p5 with
                          | XO p6 ->
                            (match p6 with
                             | XH ->
                               (match r with
                                | [] ->
                                  if N.eqb c (Npos (XO (XI (XO (XI (XO
                                       XH))))))
                                  then Seq ((Star Any),
                                         (cram_glob_re_aux f r))
                                  else if N.eqb c (Npos (XI (XI (XI (XI (XI
                                            XH))))))
                                       then Seq (Any, (cram_glob_re_aux f r))
                                       else Seq ((Chr c),
                                              (cram_glob_re_aux f r))
                                | c0 :: r0 ->
                                  if (||)
                                       ((||)
                                         (N.eqb c0 (Npos (XO (XI (XO (XI (XO
                                           XH)))))))
                                         (N.eqb c0 (Npos (XI (XI (XI (XI (XI
                                           XH))))))))
                                       (N.eqb c0 (Npos (XO (XO (XI (XI (XI
                                         (XO XH))))))))
                                  then Seq ((Chr c0), (cram_glob_re_aux f r0))
                                  else Seq ((Chr (Npos (XO (XO (XI (XI (XI
                                         (XO XH)))))))),
                                         (cram_glob_re_aux f (c0 :: r0))))
                             | _ ->
                               if N.eqb c (Npos (XO (XI (XO (XI (XO XH))))))
                               then Seq ((Star Any), (cram_glob_re_aux f r))
                               else if N.eqb c (Npos (XI (XI (XI (XI (XI
                                         XH))))))
                                    then Seq (Any, (cram_glob_re_aux f r))
                                    else Seq ((Chr c), (cram_glob_re_aux f r)))
                          | _ ->
                            if N.eqb c (Npos (XO (XI (XO (XI (XO XH))))))
                            then Seq ((Star Any), (cram_glob_re_aux f r))
                            else if N.eqb c (Npos (XI (XI (XI (XI (XI XH))))))
                                 then Seq (Any, (cram_glob_re_aux f r))
                                 else Seq ((Chr c), (cram_glob_re_aux f r)))
                       | _ ->
                         if N.eqb c (Npos (XO (XI (XO (XI (XO XH))))))
                         then Seq ((Star Any), (cram_glob_re_aux f r))
                         else if N.eqb c (Npos (XI (XI (XI (XI (XI XH))))))
                              then Seq (Any, (cram_glob_re_aux f r))
                              else Seq ((Chr c), (cram_glob_re_aux f r)))
                    | _ ->
                      if N.eqb c (Npos (XO (XI (XO (XI (XO XH))))))
                      then Seq ((Star Any), (cram_glob_re_aux f r))
                      else if N.eqb c (Npos (XI (XI (XI (XI (XI XH))))))
                           then Seq (Any, (cram_glob_re_aux f r))
                           else Seq ((Chr c), (cram_glob_re_aux f r)))
                 | _ ->
                   if N.eqb c (Npos (XO (XI (XO (XI (XO XH))))))
                   then Seq ((Star Any), (cram_glob_re_aux f r))
                   else if N.eqb c (Npos (XI (XI (XI (XI (XI XH))))))
                        then Seq (Any, (cram_glob_re_aux f r))
                        else Seq ((Chr c), (cram_glob_re_aux f r)))
              | _ ->
                if N.eqb c (Npos (XO (XI (XO (XI (XO XH))))))
                then Seq ((Star Any), (cram_glob_re_aux f r))
                else if N.eqb c (Npos (XI (XI (XI (XI (XI XH))))))
                     then Seq (Any, (cram_glob_re_aux f r))
                     else Seq ((Chr c), (cram_glob_re_aux f r)))
           | _ ->
             if N.eqb c (Npos (XO (XI (XO (XI (XO XH))))))
             then Seq ((Star Any), (cram_glob_re_aux f r))
             else if N.eqb c (Npos (XI (XI (XI (XI (XI XH))))))
                  then Seq (Any, (cram_glob_re_aux f r))
                  else Seq ((Chr c), (cram_glob_re_aux f r)))))

(** val cram_glob_re : n list -> re **)

let cram_glob_re p =
  cram_glob_re_aux (S (length p)) p

(** val is_meta : n -> bool **)

let is_meta c =
  existsb (N.eqb c) ((Npos (XO (XO (XI (XI (XI (XO XH))))))) :: ((Npos (XO
    (XI (XI (XI (XO XH)))))) :: ((Npos (XI (XI (XO (XI (XO XH)))))) :: ((Npos
    (XO (XI (XO (XI (XO XH)))))) :: ((Npos (XI (XI (XI (XI (XI
    XH)))))) :: ((Npos (XO (XO (XO (XI (XO XH)))))) :: ((Npos (XI (XO (XO (XI
    (XO XH)))))) :: ((Npos (XO (XO (XI (XI (XI (XI XH))))))) :: ((Npos (XI
    (XI (XO (XI (XI (XO XH))))))) :: ((Npos (XI (XO (XI (XI (XI (XO
    XH))))))) :: ((Npos (XI (XI (XO (XI (XI (XI XH))))))) :: ((Npos (XI (XO
    (XI (XI (XI (XI XH))))))) :: ((Npos (XO (XI (XI (XI (XI (XO
    XH))))))) :: ((Npos (XO (XO (XI (XO (XO XH)))))) :: ((Npos (XI (XI (XO
    (XO (XO XH)))))) :: ((Npos (XO (XI (XI (XO (XO XH)))))) :: ((Npos (XI (XO
    (XI (XI (XO XH)))))) :: ((Npos (XO (XI (XI (XI (XI (XI
    XH))))))) :: []))))))))))))))))))

(** val lit : n -> n list **)

let lit c =
  if is_meta c
  then (Npos (XO (XO (XI (XI (XI (XO XH))))))) :: (c :: [])
  else c :: []

(** val print : re -> n list **)

let rec print = function
| Emp ->
  (Npos (XI (XI (XO (XI (XI (XO XH))))))) :: ((Npos (XO (XI (XI (XI (XI (XO
    XH))))))) :: (N0 :: ((Npos (XI (XO (XI (XI (XO XH)))))) :: ((Npos (XI (XI
    (XI (XI (XI (XI (XI (XI (XI (XI (XI (XI (XI (XI (XI (XI (XO (XO (XO (XO
    XH))))))))))))))))))))) :: ((Npos (XI (XO (XI (XI (XI (XO
    XH))))))) :: [])))))
| Eps ->
  (Npos (XO (XO (XO (XI (XO XH)))))) :: ((Npos (XI (XI (XI (XI (XI
    XH)))))) :: ((Npos (XO (XI (XO (XI (XI XH)))))) :: ((Npos (XI (XO (XO (XI
    (XO XH)))))) :: [])))
| Chr c -> lit c
| Any -> (Npos (XO (XI (XI (XI (XO XH)))))) :: []
| Cls (neg, cs) ->
  app ((Npos (XI (XI (XO (XI (XI (XO XH))))))) :: [])
    (app (if neg then (Npos (XO (XI (XI (XI (XI (XO XH))))))) :: [] else [])
      (app (flat_map lit cs) ((Npos (XI (XO (XI (XI (XI (XO XH))))))) :: [])))
| Seq (a, b) -> app (print a) (print b)
| Alt (a, b) ->
  app ((Npos (XO (XO (XO (XI (XO XH)))))) :: ((Npos (XI (XI (XI (XI (XI
    XH)))))) :: ((Npos (XO (XI (XO (XI (XI XH)))))) :: [])))
    (app (print a)
      (app ((Npos (XO (XO (XI (XI (XI (XI XH))))))) :: [])
        (app (print b) ((Npos (XI (XO (XO (XI (XO XH)))))) :: []))))
| Star a ->
  app ((Npos (XO (XO (XO (XI (XO XH)))))) :: ((Npos (XI (XI (XI (XI (XI
    XH)))))) :: ((Npos (XO (XI (XO (XI (XI XH)))))) :: [])))
    (app (print a) ((Npos (XI (XO (XO (XI (XO XH)))))) :: ((Npos (XO (XI (XO
      (XI (XO XH)))))) :: [])))

(** val lit_user : n -> n list **)

let lit_user c =
  if N.eqb c (Npos (XI (XO (XI (XI (XI (XO XH))))))) then c :: [] else lit c

(** val lit_in_class : n -> n list **)

let lit_in_class c =
  if existsb (N.eqb c) ((Npos (XO (XO (XI (XI (XI (XO XH))))))) :: ((Npos (XI
       (XI (XO (XI (XI (XO XH))))))) :: ((Npos (XI (XO (XI (XI (XI (XO
       XH))))))) :: ((Npos (XO (XI (XI (XI (XI (XO XH))))))) :: ((Npos (XI
       (XO (XI (XI (XO XH)))))) :: [])))))
  then (Npos (XO (XO (XI (XI (XI (XO XH))))))) :: (c :: [])
  else c :: []

(** val print_user : re -> n list **)

let rec print_user r = match r with
| Chr c -> lit_user c
| Cls (neg, cs) ->
  app ((Npos (XI (XI (XO (XI (XI (XO XH))))))) :: [])
    (app (if neg then (Npos (XO (XI (XI (XI (XI (XO XH))))))) :: [] else [])
      (app (flat_map lit_in_class cs) ((Npos (XI (XO (XI (XI (XI (XO
        XH))))))) :: [])))
| Seq (a, b) -> app (print_user a) (print_user b)
| Alt (a, b) ->
  app ((Npos (XO (XO (XO (XI (XO XH)))))) :: ((Npos (XI (XI (XI (XI (XI
    XH)))))) :: ((Npos (XO (XI (XO (XI (XI XH)))))) :: [])))
    (app (print_user a)
      (app ((Npos (XO (XO (XI (XI (XI (XI XH))))))) :: [])
        (app (print_user b) ((Npos (XI (XO (XO (XI (XO XH)))))) :: []))))
| Star a ->
  app ((Npos (XO (XO (XO (XI (XO XH)))))) :: ((Npos (XI (XI (XI (XI (XI
    XH)))))) :: ((Npos (XO (XI (XO (XI (XI XH)))))) :: [])))
    (app (print_user a) ((Npos (XI (XO (XO (XI (XO XH)))))) :: ((Npos (XO (XI
      (XO (XI (XO XH)))))) :: [])))
| _ -> print r

(** val print_top : re -> n list **)

let print_top r = match r with
| Alt (a, b) ->
  app (print a)
    (app ((Npos (XO (XO (XI (XI (XI (XI XH))))))) :: []) (print b))
| _ -> print r

type text = n list

type ptest = { pt_title : text; pt_cmd : text list; pt_exps : text list;
               pt_code : n option; pt_line : nat }

type lp = { lp_title : text option; lp_cmd : text list; lp_exps : text list;
            lp_code : n option; lp_in_command : bool; lp_start : nat option;
            lp_cases : ptest list }

(** val lp_init : lp **)

let lp_init =
  { lp_title = None; lp_cmd = []; lp_exps = []; lp_code = None;
    lp_in_command = false; lp_start = None; lp_cases = [] }

type 'a lres =
| LOk of 'a
| LErr

(** val strip_prefix : text -> text -> text option **)

let strip_prefix p l =
  if starts_with p l then Some (skipn (length p) l) else None

(** val p_DOLLAR : text **)

let p_DOLLAR =
  (Npos (XO (XO (XI (XO (XO XH)))))) :: ((Npos (XO (XO (XO (XO (XO
    XH)))))) :: [])

(** val p_GT : text **)

let p_GT =
  (Npos (XO (XI (XI (XI (XI XH)))))) :: ((Npos (XO (XO (XO (XO (XO
    XH)))))) :: [])

(** val is_digit : n -> bool **)

let is_digit c =
  (&&) (N.leb (Npos (XO (XO (XO (XO (XI XH)))))) c)
    (N.leb c (Npos (XI (XO (XO (XI (XI XH)))))))

(** val digits_value : n -> n list -> n **)

let rec digits_value acc = function
| [] -> acc
| d :: r ->
  digits_value
    (N.add (N.mul acc (Npos (XO (XI (XO XH)))))
      (N.sub d (Npos (XO (XO (XO (XO (XI XH)))))))) r

(** val extract_exit_code : text -> n option **)

let extract_exit_code = function
| [] -> None
| n0 :: r ->
  (match n0 with
   | N0 -> None
   | Npos p ->
     (match p with
      | XI p0 ->
        (match p0 with
         | XI p1 ->
           (match p1 with
            | XO p2 ->
              (match p2 with
               | XI p3 ->
                 (match p3 with
                  | XI p4 ->
                    (match p4 with
                     | XO p5 ->
                       (match p5 with
                        | XH ->
                          (match rev r with
                           | [] -> None
                           | n1 :: ds_rev ->
                             (match n1 with
                              | N0 -> None
                              | Npos p6 ->
                                (match p6 with
                                 | XI p7 ->
                                   (match p7 with
                                    | XO p8 ->
                                      (match p8 with
                                       | XI p9 ->
                                         (match p9 with
                                          | XI p10 ->
                                            (match p10 with
                                             | XI p11 ->
                                               (match p11 with
                                                | XO p12 ->
                                                  (match p12 with
                                                   | XH ->
                                                     let ds = rev ds_rev in
                                                     (match ds with
                                                      | [] -> None
                                                      | _ :: _ ->
                                                        if forallb is_digit ds
                                                        then let v =
                                                               digits_value
                                                                 N0 ds
                                                             in
                                                             if N.leb v (Npos
                                                                  (XI (XI (XI
                                                                  (XI (XI (XI
                                                                  (XI (XI (XI
                                                                  (XI (XI (XI
                                                                  (XI (XI (XI
                                                                  (XI (XI (XI
                                                                  (XI (XI (XI
                                                                  (XI (XI (XI
                                                                  (XI (XI (XI
                                                                  (XI (XI (XI
                                                                  XH)))))))))))))))))))))))))))))))
                                                             then Some v
                                                             else None
                                                        else None)
                                                   | _ -> None)
                                                | _ -> None)
                                             | _ -> None)
                                          | _ -> None)
                                       | _ -> None)
                                    | _ -> None)
                                 | _ -> None)))
                        | _ -> None)
                     | _ -> None)
                  | _ -> None)
               | _ -> None)
            | _ -> None)
         | _ -> None)
      | _ -> None))

(** val flush : lp -> ptest list -> lp **)

let flush s cases =
  { lp_title = None; lp_cmd = []; lp_exps = []; lp_code = None;
    lp_in_command = s.lp_in_command; lp_start = None; lp_cases = cases }

(** val end_testcase : lp -> nat -> lp lres **)

let end_testcase s index =
  match s.lp_cmd with
  | [] ->
    (match s.lp_exps with
     | [] -> (match s.lp_code with
              | Some _ -> LErr
              | None -> LOk s)
     | _ :: _ -> LErr)
  | _ :: _ ->
    let tc = { pt_title = (match s.lp_title with
                           | Some t -> t
                           | None -> []); pt_cmd = s.lp_cmd; pt_exps =
      s.lp_exps; pt_code = s.lp_code; pt_line = (S
      (match s.lp_start with
       | Some i -> i
       | None -> index)) }
    in
    LOk (flush s (tc :: s.lp_cases))

(** val add_body : (text -> bool) -> bool -> lp -> text -> nat -> lp lres **)

let add_body pe_ok multi s line index =
  let try_start =
    if (||) multi (match s.lp_cmd with
                   | [] -> true
                   | _ :: _ -> false)
    then strip_prefix p_DOLLAR line
    else None
  in
  (match try_start with
   | Some rest ->
     let s1 = { lp_title = s.lp_title; lp_cmd = s.lp_cmd; lp_exps =
       s.lp_exps; lp_code = s.lp_code; lp_in_command = true; lp_start =
       s.lp_start; lp_cases = s.lp_cases }
     in
     (match match s1.lp_cmd with
            | [] -> LOk s1
            | _ :: _ -> end_testcase s1 index with
      | LOk s2 ->
        LOk { lp_title = s2.lp_title; lp_cmd = (app s2.lp_cmd (rest :: []));
          lp_exps = s2.lp_exps; lp_code = s2.lp_code; lp_in_command =
          s2.lp_in_command; lp_start =
          (match s2.lp_start with
           | Some n0 -> Some n0
           | None -> Some index); lp_cases = s2.lp_cases }
      | LErr -> LErr)
   | None ->
     (match if s.lp_in_command then strip_prefix p_GT line else None with
      | Some rest ->
        (match s.lp_cmd with
         | [] -> LErr
         | _ :: _ ->
           LOk { lp_title = s.lp_title; lp_cmd = (app s.lp_cmd (rest :: []));
             lp_exps = s.lp_exps; lp_code = s.lp_code; lp_in_command =
             s.lp_in_command; lp_start = s.lp_start; lp_cases = s.lp_cases })
      | None ->
        (match extract_exit_code line with
         | Some c ->
           (match s.lp_code with
            | Some _ -> LErr
            | None ->
              LOk { lp_title = s.lp_title; lp_cmd = s.lp_cmd; lp_exps =
                s.lp_exps; lp_code = (Some c); lp_in_command = false;
                lp_start = s.lp_start; lp_cases = s.lp_cases })
         | None ->
           if pe_ok line
           then LOk { lp_title = s.lp_title; lp_cmd = s.lp_cmd; lp_exps =
                  (app s.lp_exps (line :: [])); lp_code = s.lp_code;
                  lp_in_command = false; lp_start = s.lp_start; lp_cases =
                  s.lp_cases }
           else LErr)))

(** val set_title : lp -> text -> lp **)

let set_title s t =
  { lp_title = (Some t); lp_cmd = s.lp_cmd; lp_exps = s.lp_exps; lp_code =
    s.lp_code; lp_in_command = s.lp_in_command; lp_start = s.lp_start;
    lp_cases = s.lp_cases }

(** val has_body : lp -> bool **)

let has_body s =
  match s.lp_cmd with
  | [] ->
    (match s.lp_exps with
     | [] -> (match s.lp_code with
              | Some _ -> true
              | None -> false)
     | _ :: _ -> true)
  | _ :: _ -> true

(** val iNDENT : text **)

let iNDENT =
  (Npos (XO (XO (XO (XO (XO XH)))))) :: ((Npos (XO (XO (XO (XO (XO
    XH)))))) :: [])

(** val is_comment : text -> bool **)

let is_comment = function
| [] -> false
| n0 :: _ ->
  (match n0 with
   | N0 -> false
   | Npos p ->
     (match p with
      | XI p0 ->
        (match p0 with
         | XI p1 ->
           (match p1 with
            | XO p2 ->
              (match p2 with
               | XO p3 ->
                 (match p3 with
                  | XO p4 -> (match p4 with
                              | XH -> true
                              | _ -> false)
                  | _ -> false)
               | _ -> false)
            | _ -> false)
         | _ -> false)
      | _ -> false))

(** val cram_step : (text -> bool) -> lp -> text -> nat -> lp lres **)

let cram_step pe_ok s line index =
  if is_comment line
  then LOk s
  else (match line with
        | [] -> if has_body s then end_testcase s index else LOk s
        | _ :: _ ->
          (match strip_prefix iNDENT line with
           | Some rest -> add_body pe_ok true s rest index
           | None ->
             (match end_testcase s index with
              | LOk s' -> LOk (set_title s' line)
              | LErr -> LErr)))

(** val cram_loop : (text -> bool) -> lp -> text list -> nat -> lp lres **)

let rec cram_loop pe_ok s lines index =
  match lines with
  | [] -> if has_body s then end_testcase s index else LOk s
  | l :: r ->
    (match cram_step pe_ok s l index with
     | LOk s' -> cram_loop pe_ok s' r (S index)
     | LErr -> LErr)

(** val parse_cram : (text -> bool) -> text list -> ptest list lres **)

let parse_cram pe_ok lines =
  match cram_loop pe_ok lp_init lines O with
  | LOk s -> LOk (rev s.lp_cases)
  | LErr -> LErr

type bline =
| BExp of text
| BCode of text

type block =
| BTitle of text
| BComment of text
| BBlank
| BTest of text * text list * bline list

(** val render_bline : bline -> text **)

let render_bline = function
| BExp l -> app iNDENT l
| BCode ds ->
  app iNDENT
    (app ((Npos (XI (XI (XO (XI (XI (XO XH))))))) :: [])
      (app ds ((Npos (XI (XO (XI (XI (XI (XO XH))))))) :: [])))

(** val render_block : block -> text list **)

let render_block = function
| BTitle l -> l :: []
| BComment l -> l :: []
| BBlank -> [] :: []
| BTest (cmd, conts, body) ->
  app ((app iNDENT (app p_DOLLAR cmd)) :: [])
    (app (map (fun c -> app iNDENT (app p_GT c)) conts)
      (map render_bline body))

(** val render_cram : block list -> text list **)

let render_cram d =
  flat_map render_block d

(** val title_ok : text -> bool **)

let title_ok l = match l with
| [] -> false
| _ :: _ -> (&&) (negb (is_comment l)) (negb (starts_with iNDENT l))

(** val comment_ok : text -> bool **)

let comment_ok =
  is_comment

(** val exp_ok : (text -> bool) -> text -> bool **)

let exp_ok pe_ok l =
  (&&)
    ((&&) (negb (starts_with p_DOLLAR l))
      (match extract_exit_code l with
       | Some _ -> false
       | None -> true)) (pe_ok l)

(** val code_ok : text -> bool **)

let code_ok ds = match ds with
| [] -> false
| _ :: _ ->
  (&&) (forallb is_digit ds)
    (N.leb (digits_value N0 ds) (Npos (XI (XI (XI (XI (XI (XI (XI (XI (XI (XI
      (XI (XI (XI (XI (XI (XI (XI (XI (XI (XI (XI (XI (XI (XI (XI (XI (XI (XI
      (XI (XI XH))))))))))))))))))))))))))))))))

(** val count_codes : bline list -> nat **)

let rec count_codes = function
| [] -> O
| b :: r ->
  (match b with
   | BExp _ -> count_codes r
   | BCode _ -> S (count_codes r))

(** val body_ok : (text -> bool) -> bline list -> bool **)

let body_ok pe_ok body =
  (&&)
    ((&&)
      (forallb (fun b ->
        match b with
        | BExp l -> exp_ok pe_ok l
        | BCode n0 -> code_ok n0) body) (leb (count_codes body) (S O)))
    (match body with
     | [] -> true
     | b :: _ ->
       (match b with
        | BExp l -> negb (starts_with p_GT l)
        | BCode _ -> true))

(** val no_lf : text -> bool **)

let no_lf l =
  forallb (fun c ->
    (&&) (negb (N.eqb c (Npos (XO (XI (XO XH))))))
      (negb (N.eqb c (Npos (XI (XO (XI XH))))))) l

(** val block_ok : (text -> bool) -> block -> bool **)

let block_ok pe_ok = function
| BTitle l -> (&&) (title_ok l) (no_lf l)
| BComment l -> (&&) (comment_ok l) (no_lf l)
| BBlank -> true
| BTest (cmd, conts, body) ->
  (&&) ((&&) ((&&) (body_ok pe_ok body) (no_lf cmd)) (forallb no_lf conts))
    (forallb (fun b0 -> match b0 with
                        | BExp l -> no_lf l
                        | BCode _ -> true) body)

(** val wf_cram : (text -> bool) -> block list -> bool **)

let wf_cram pe_ok d =
  forallb (block_ok pe_ok) d

(** val exps_of0 : bline list -> text list **)

let exps_of0 body =
  flat_map (fun b -> match b with
                     | BExp l -> l :: []
                     | BCode _ -> []) body

(** val code_of : bline list -> n option **)

let code_of body =
  match flat_map (fun b ->
          match b with
          | BExp _ -> []
          | BCode ds -> (digits_value N0 ds) :: []) body with
  | [] -> None
  | n0 :: _ -> Some n0

(** val tests_from : block list -> nat -> text option -> ptest list **)

let rec tests_from d line title =
  match d with
  | [] -> []
  | b :: r ->
    (match b with
     | BTitle l -> tests_from r (S line) (Some l)
     | BTest (cmd, conts, body) ->
       { pt_title = (match title with
                     | Some t -> t
                     | None -> []); pt_cmd = (cmd :: conts); pt_exps =
         (exps_of0 body); pt_code = (code_of body); pt_line = (S
         line) } :: (tests_from r
                      (add (add (add line (S O)) (length conts))
                        (length body)) None)
     | _ -> tests_from r (S line) title)

(** val cram_tests_of : block list -> ptest list **)

let cram_tests_of d =
  tests_from d O None

(** val is_white : n -> bool **)

let is_white c =
  in_ranges whitespace_ranges c

(** val is_letter : n -> bool **)

let is_letter c =
  in_ranges letter_ranges c

(** val bT : n **)

let bT =
  Npos (XO (XO (XO (XO (XO (XI XH))))))

(** val drop_while : (n -> bool) -> text -> text **)

let rec drop_while p l = match l with
| [] -> []
| c :: r -> if p c then drop_while p r else l

(** val trim_start : text -> text **)

let trim_start l =
  drop_while is_white l

(** val trim_end : text -> text **)

let trim_end l =
  rev (drop_while is_white (rev l))

(** val trim : text -> text **)

let trim l =
  trim_end (trim_start l)

(** val count_bt : text -> nat **)

let rec count_bt = function
| [] -> O
| c :: r -> if N.eqb c bT then S (count_bt r) else O

(** val split_at_brace : text -> text * text option **)

let rec split_at_brace l = match l with
| [] -> ([], None)
| c :: r ->
  if N.eqb c (Npos (XI (XI (XO (XI (XI (XI XH)))))))
  then ([], (Some l))
  else let (a, b) = split_at_brace r in ((c :: a), b)

(** val extract_code_block_start : text -> ((nat * text) * text) option **)

let extract_code_block_start line =
  let n0 = count_bt line in
  let rest = skipn n0 line in
  (match rest with
   | [] ->
     if eqb n0 (S (S (S O))) then Some (((S (S (S O))), []), []) else None
   | _ :: _ ->
     if ltb n0 (S (S (S O)))
     then None
     else let (lang, o) = split_at_brace rest in
          (match o with
           | Some cfg -> Some ((n0, (trim_end lang)), (trim_end cfg))
           | None -> Some ((n0, (trim_end lang)), [])))

(** val closes : nat -> text -> bool **)

let closes n0 line =
  leb n0 (count_bt line)

(** val sCRUT : text **)

let sCRUT =
  (Npos (XI (XI (XO (XO (XI (XI XH))))))) :: ((Npos (XI (XI (XO (XO (XO (XI
    XH))))))) :: ((Npos (XO (XI (XO (XO (XI (XI XH))))))) :: ((Npos (XI (XO
    (XI (XO (XI (XI XH))))))) :: ((Npos (XO (XO (XI (XO (XI (XI
    XH))))))) :: []))))

(** val dASHES : text **)

let dASHES =
  (Npos (XI (XO (XI (XI (XO XH)))))) :: ((Npos (XI (XO (XI (XI (XO
    XH)))))) :: ((Npos (XI (XO (XI (XI (XO XH)))))) :: []))

(** val inner_config : text -> text option **)

let inner_config = function
| [] -> None
| n0 :: r ->
  (match n0 with
   | N0 -> None
   | Npos p ->
     (match p with
      | XI p0 ->
        (match p0 with
         | XI p1 ->
           (match p1 with
            | XO p2 ->
              (match p2 with
               | XI p3 ->
                 (match p3 with
                  | XI p4 ->
                    (match p4 with
                     | XI p5 ->
                       (match p5 with
                        | XH ->
                          (match rev r with
                           | [] -> None
                           | n1 :: m ->
                             (match n1 with
                              | N0 -> None
                              | Npos p6 ->
                                (match p6 with
                                 | XI p7 ->
                                   (match p7 with
                                    | XO p8 ->
                                      (match p8 with
                                       | XI p9 ->
                                         (match p9 with
                                          | XI p10 ->
                                            (match p10 with
                                             | XI p11 ->
                                               (match p11 with
                                                | XI p12 ->
                                                  (match p12 with
                                                   | XH ->
                                                     (match rev m with
                                                      | [] -> None
                                                      | n2 :: l ->
                                                        Some (n2 :: l))
                                                   | _ -> None)
                                                | _ -> None)
                                             | _ -> None)
                                          | _ -> None)
                                       | _ -> None)
                                    | _ -> None)
                                 | _ -> None)))
                        | _ -> None)
                     | _ -> None)
                  | _ -> None)
               | _ -> None)
            | _ -> None)
         | _ -> None)
      | _ -> None))

type token =
| TLine of nat * text
| TFront of text list * text list
| TVerb of nat * text * text list
| TTest of text option * text list * (nat * text) list * text list

(** val tok_raw : token -> text list **)

let tok_raw = function
| TLine (_, l) -> l :: []
| TFront (_, r) -> r
| TVerb (_, _, r) -> r
| TTest (_, _, _, r) -> r

type mstate =
| Top of bool
| InFront of text list * text list
| InVerb of nat * nat * text * text list
| InTest of nat * text option * text list * (nat * text) list * text list

(** val mstep : mstate -> nat -> text -> mstate * token list **)

let mstep s idx l =
  match s with
  | Top cs ->
    if (&&) (negb cs) (list_eqb l dASHES)
    then ((InFront ([], (l :: []))), [])
    else (match extract_code_block_start l with
          | Some p ->
            let (p0, cfg) = p in
            let (n0, lang) = p0 in
            if list_eqb lang sCRUT
            then ((InTest (n0, (inner_config cfg), [], [], (l :: []))), [])
            else ((InVerb (n0, idx, lang, (l :: []))), [])
          | None ->
            ((Top
              ((||) cs
                (negb (match trim l with
                       | [] -> true
                       | _ :: _ -> false)))), ((TLine (idx, l)) :: [])))
  | InFront (acc, raw) ->
    if list_eqb l dASHES
    then ((Top false), ((TFront (acc, (app raw (l :: [])))) :: []))
    else ((InFront ((app acc (l :: [])), (app raw (l :: [])))), [])
  | InVerb (n0, start, lang, raw) ->
    if closes n0 l
    then ((Top true), ((TVerb (start, lang, (app raw (l :: [])))) :: []))
    else ((InVerb (n0, start, lang, (app raw (l :: [])))), [])
  | InTest (n0, cfg, cm, code, raw) ->
    (match code with
     | [] ->
       if is_comment l
       then ((InTest (n0, cfg, (app cm (l :: [])), [], (app raw (l :: [])))),
              [])
       else if closes n0 l
            then ((Top true), ((TTest (cfg, cm, [],
                   (app raw (l :: [])))) :: []))
            else ((InTest (n0, cfg, cm, ((idx, l) :: []),
                   (app raw (l :: [])))), [])
     | _ :: _ ->
       if closes n0 l
       then ((Top true), ((TTest (cfg, cm, code, (app raw (l :: [])))) :: []))
       else ((InTest (n0, cfg, cm, (app code ((idx, l) :: [])),
              (app raw (l :: [])))), []))

(** val mflush : mstate -> token list **)

let mflush = function
| Top _ -> []
| InFront (acc, raw) -> (TFront (acc, raw)) :: []
| InVerb (_, start, lang, raw) -> (TVerb (start, lang, raw)) :: []
| InTest (_, cfg, cm, code, raw) -> (TTest (cfg, cm, code, raw)) :: []

(** val mrun : mstate -> nat -> text list -> token list **)

let rec mrun s idx = function
| [] -> mflush s
| l :: r -> let (s', out) = mstep s idx l in app out (mrun s' (S idx) r)

(** val md_tokens : text list -> token list **)

let md_tokens ls =
  mrun (Top false) O ls

(** val drop_hashes : text -> text **)

let rec drop_hashes l = match l with
| [] -> l
| n0 :: r ->
  (match n0 with
   | N0 -> l
   | Npos p ->
     (match p with
      | XI p0 ->
        (match p0 with
         | XI p1 ->
           (match p1 with
            | XO p2 ->
              (match p2 with
               | XO p3 ->
                 (match p3 with
                  | XO p4 -> (match p4 with
                              | XH -> drop_hashes r
                              | _ -> l)
                  | _ -> l)
               | _ -> l)
            | _ -> l)
         | _ -> l)
      | _ -> l))

(** val extract_title : text -> text option **)

let extract_title line =
  let t = trim line in
  (match t with
   | [] -> None
   | c :: _ ->
     if is_letter c
     then Some t
     else if N.eqb c (Npos (XI (XI (XO (XO (XO XH))))))
          then let r = drop_hashes t in
               (match r with
                | [] -> None
                | w :: _ ->
                  if is_white w
                  then (match trim_start r with
                        | [] -> None
                        | n0 :: l -> Some (n0 :: l))
                  else None)
          else None)

(** val join_nl : text list -> text **)

let rec join_nl = function
| [] -> []
| x :: r ->
  (match r with
   | [] -> x
   | _ :: _ -> app x (app ((Npos (XO (XI (XO XH)))) :: []) (join_nl r)))

type mtest = { mt_test : ptest; mt_cfg : text option }

(** val feed_code : (text -> bool) -> lp -> (nat * text) list -> lp lres **)

let rec feed_code pe_ok s = function
| [] -> LOk s
| p :: r ->
  let (idx, l) = p in
  (match add_body pe_ok false s l idx with
   | LOk s' -> feed_code pe_ok s' r
   | LErr -> LErr)

(** val last_idx : (nat * text) list -> nat **)

let rec last_idx = function
| [] -> O
| p :: r -> let (i, _) = p in (match r with
                               | [] -> i
                               | _ :: _ -> last_idx r)

(** val parse_tokens :
    (text -> bool) -> (text list -> bool) -> (text -> bool) -> token list ->
    lp -> text list -> text option list -> (lp * text option list) lres **)

let rec parse_tokens pe_ok front_ok cfg_ok ts s para cfgs =
  match ts with
  | [] -> LOk (s, cfgs)
  | t :: r ->
    (match t with
     | TLine (_, l) ->
       (match extract_title l with
        | Some t0 ->
          let para' = app para (t0 :: []) in
          parse_tokens pe_ok front_ok cfg_ok r (set_title s (join_nl para'))
            para' cfgs
        | None -> parse_tokens pe_ok front_ok cfg_ok r s [] cfgs)
     | TFront (lines, _) ->
       if front_ok lines
       then parse_tokens pe_ok front_ok cfg_ok r s para cfgs
       else LErr
     | TVerb (_, lang, _) ->
       (match lang with
        | [] -> LErr
        | _ :: _ -> parse_tokens pe_ok front_ok cfg_ok r s [] cfgs)
     | TTest (cfg, _, code, _) ->
       if match cfg with
          | Some c -> cfg_ok c
          | None -> true
       then (match feed_code pe_ok s code with
             | LOk s1 ->
               (match end_testcase s1 (last_idx code) with
                | LOk s2 ->
                  let pushed = ltb (length s1.lp_cases) (length s2.lp_cases)
                  in
                  parse_tokens pe_ok front_ok cfg_ok r s2 []
                    (if pushed then cfg :: cfgs else cfgs)
                | LErr -> LErr)
             | LErr -> LErr)
       else LErr)

(** val parse_md :
    (text -> bool) -> (text list -> bool) -> (text -> bool) -> text list ->
    mtest list lres **)

let parse_md pe_ok front_ok cfg_ok ls =
  match parse_tokens pe_ok front_ok cfg_ok (md_tokens ls) lp_init [] [] with
  | LOk a ->
    let (s, cfgs) = a in
    LOk
    (map (fun p -> { mt_test = (fst p); mt_cfg = (snd p) })
      (combine (rev s.lp_cases) (rev cfgs)))
  | LErr -> LErr

type elem =
| EFront of text list
| EProse of text
| EHeading of nat * text
| EBlank
| EForeign of nat * text * text list * text
| EScrut of nat * text option * text * text list
   * ((text * text list) * bline list) option * text

(** val fence : nat -> text **)

let fence n0 =
  repeat bT n0

(** val hashes : nat -> text **)

let hashes k =
  repeat (Npos (XI (XI (XO (XO (XO XH)))))) k

(** val render_body : bline -> text **)

let render_body = function
| BExp l -> l
| BCode ds ->
  app ((Npos (XI (XI (XO (XI (XI (XO XH))))))) :: [])
    (app ds ((Npos (XI (XO (XI (XI (XI (XO XH))))))) :: []))

(** val render_elem : elem -> text list **)

let render_elem = function
| EFront lines -> app (dASHES :: []) (app lines (dASHES :: []))
| EProse l -> l :: []
| EHeading (k, t) ->
  (app (hashes k) (app ((Npos (XO (XO (XO (XO (XO XH)))))) :: []) t)) :: []
| EBlank -> [] :: []
| EForeign (n0, lang, body, tail) ->
  app ((app (fence n0) lang) :: []) (app body ((app (fence n0) tail) :: []))
| EScrut (n0, cfg, hs, comments, cmd, tail) ->
  app
    ((app (fence n0)
       (app sCRUT
         (app
           (match cfg with
            | Some c ->
              app ((Npos (XO (XO (XO (XO (XO XH)))))) :: ((Npos (XI (XI (XO
                (XI (XI (XI XH))))))) :: []))
                (app c ((Npos (XI (XO (XI (XI (XI (XI XH))))))) :: []))
            | None -> []) hs))) :: [])
    (app comments
      (app
        (match cmd with
         | Some p ->
           let (p0, body) = p in
           let (c, conts) = p0 in
           app ((app p_DOLLAR c) :: [])
             (app (map (fun x -> app p_GT x) conts) (map render_body body))
         | None -> []) ((app (fence n0) tail) :: [])))

(** val render_md : elem list -> text list **)

let render_md d =
  flat_map render_elem d

type tstate = { ts_para : text list; ts_title : text option }

(** val title_line : tstate -> text -> tstate **)

let title_line st line =
  match extract_title line with
  | Some t ->
    let p = app st.ts_para (t :: []) in
    { ts_para = p; ts_title = (Some (join_nl p)) }
  | None -> { ts_para = []; ts_title = st.ts_title }

(** val md_tests_from : elem list -> nat -> tstate -> mtest list **)

let rec md_tests_from d line st =
  match d with
  | [] -> []
  | e :: r ->
    let next = add line (length (render_elem e)) in
    (match e with
     | EFront _ -> md_tests_from r next st
     | EProse l -> md_tests_from r next (title_line st l)
     | EHeading (k, t) ->
       md_tests_from r next
         (title_line st
           (app (hashes k) (app ((Npos (XO (XO (XO (XO (XO XH)))))) :: []) t)))
     | EBlank -> md_tests_from r next (title_line st [])
     | EForeign (_, _, _, _) ->
       md_tests_from r next { ts_para = []; ts_title = st.ts_title }
     | EScrut (_, cfg, _, comments, cmd, _) ->
       (match cmd with
        | Some p ->
          let (p0, body) = p in
          let (c, conts) = p0 in
          { mt_test = { pt_title =
          (match st.ts_title with
           | Some t -> t
           | None -> []); pt_cmd = (c :: conts); pt_exps = (exps_of0 body);
          pt_code = (code_of body); pt_line = (S
          (add (add line (S O)) (length comments))) }; mt_cfg =
          cfg } :: (md_tests_from r next { ts_para = []; ts_title = None })
        | None ->
          md_tests_from r next { ts_para = []; ts_title = st.ts_title }))

(** val md_tests_of : elem list -> mtest list **)

let md_tests_of d =
  md_tests_from d O { ts_para = []; ts_title = None }

(** val not_fence_start : text -> bool **)

let not_fence_start l =
  match extract_code_block_start l with
  | Some _ -> false
  | None -> true

(** val no_nl : text -> bool **)

let no_nl l =
  forallb (fun c ->
    (&&) (negb (N.eqb c (Npos (XO (XI (XO XH))))))
      (negb (N.eqb c (Npos (XI (XO (XI XH))))))) l

(** val md_exp_ok : (text -> bool) -> nat -> text -> bool **)

let md_exp_ok pe_ok n0 l =
  (&&)
    ((&&)
      ((&&) (match extract_exit_code l with
             | Some _ -> false
             | None -> true) (pe_ok l)) (negb (closes n0 l))) (no_nl l)

(** val md_body_ok : (text -> bool) -> nat -> bline list -> bool **)

let md_body_ok pe_ok n0 body =
  (&&)
    ((&&)
      (forallb (fun b ->
        match b with
        | BExp l -> md_exp_ok pe_ok n0 l
        | BCode ds -> code_ok ds) body) (leb (count_codes body) (S O)))
    (match body with
     | [] -> true
     | b :: _ ->
       (match b with
        | BExp l -> negb (starts_with p_GT l)
        | BCode _ -> true))

(** val lang_of : text -> text **)

let lang_of lang =
  let (a, _) = split_at_brace lang in trim_end a

(** val lang_ok : text -> bool **)

let lang_ok lang =
  (&&)
    ((&&)
      ((&&) (match lang with
             | [] -> false
             | c :: _ -> negb (N.eqb c bT))
        (negb (list_eqb (lang_of lang) sCRUT))) (no_nl lang))
    (match lang_of lang with
     | [] -> false
     | _ :: _ -> true)

(** val cfg_text_ok : (text -> bool) -> text -> bool **)

let cfg_text_ok cfg_ok c =
  (&&) ((&&) (match c with
              | [] -> false
              | _ :: _ -> true) (cfg_ok c)) (no_nl c)

(** val elem_ok :
    (text -> bool) -> (text list -> bool) -> (text -> bool) -> bool -> elem
    -> bool **)

let elem_ok pe_ok front_ok cfg_ok first = function
| EFront lines ->
  (&&) ((&&) first (front_ok lines))
    (forallb (fun l -> (&&) (negb (list_eqb l dASHES)) (no_nl l)) lines)
| EProse l ->
  (&&) ((&&) (not_fence_start l) (no_nl l))
    (negb ((&&) first (list_eqb l dASHES)))
| EHeading (k, t) ->
  (&&) ((&&) (ltb O k) (no_nl t)) (match t with
                                   | [] -> false
                                   | _ :: _ -> true)
| EBlank -> true
| EForeign (n0, lang, body, tail) ->
  (&&)
    ((&&) ((&&) (leb (S (S (S O))) n0) (lang_ok lang))
      (forallb (fun l -> (&&) (negb (closes n0 l)) (no_nl l)) body))
    (no_nl tail)
| EScrut (n0, cfg, hs, comments, cmd, tail) ->
  (&&)
    ((&&)
      ((&&)
        ((&&) ((&&) (leb (S (S (S O))) n0) (no_nl tail))
          (match cfg with
           | Some c -> cfg_text_ok cfg_ok c
           | None -> true))
        (forallb (fun l -> (&&) (is_comment l) (no_nl l)) comments))
      (match cmd with
       | Some p ->
         let (p0, body) = p in
         let (c, conts) = p0 in
         (&&) ((&&) (no_nl c) (forallb no_nl conts))
           (md_body_ok pe_ok n0 body)
       | None -> true)) ((&&) (forallb is_white hs) (no_nl hs))

(** val wf_md_from :
    (text -> bool) -> (text list -> bool) -> (text -> bool) -> bool -> elem
    list -> bool **)

let rec wf_md_from pe_ok front_ok cfg_ok first = function
| [] -> true
| e :: r ->
  (&&) (elem_ok pe_ok front_ok cfg_ok first e)
    (wf_md_from pe_ok front_ok cfg_ok
      ((&&) first
        (match e with
         | EFront _ -> true
         | EProse l -> (match trim l with
                        | [] -> true
                        | _ :: _ -> false)
         | EBlank -> true
         | _ -> false)) r)

(** val wf_md :
    (text -> bool) -> (text list -> bool) -> (text -> bool) -> elem list ->
    bool **)

let wf_md pe_ok front_ok cfg_ok d =
  wf_md_from pe_ok front_ok cfg_ok true d

(** val ends_with_lf : n list -> bool **)

let ends_with_lf line =
  match rev line with
  | [] -> false
  | n0 :: _ ->
    (match n0 with
     | N0 -> false
     | Npos p ->
       (match p with
        | XO p0 ->
          (match p0 with
           | XI p1 ->
             (match p1 with
              | XO p2 -> (match p2 with
                          | XH -> true
                          | _ -> false)
              | _ -> false)
           | _ -> false)
        | _ -> false))

(** val s_EQUAL : n list **)

let s_EQUAL =
  (Npos (XO (XO (XO (XO (XO XH)))))) :: ((Npos (XO (XO (XO (XI (XO
    XH)))))) :: ((Npos (XI (XO (XI (XO (XO (XI XH))))))) :: ((Npos (XI (XO
    (XO (XO (XI (XI XH))))))) :: ((Npos (XI (XO (XI (XO (XI (XI
    XH))))))) :: ((Npos (XI (XO (XO (XO (XO (XI XH))))))) :: ((Npos (XO (XO
    (XI (XI (XO (XI XH))))))) :: ((Npos (XI (XO (XO (XI (XO
    XH)))))) :: [])))))))

(** val needs_kind : n list -> bool **)

let needs_kind content =
  match rev content with
  | [] -> false
  | n0 :: _ ->
    (match n0 with
     | N0 -> false
     | Npos p ->
       (match p with
        | XI p0 ->
          (match p0 with
           | XO p1 ->
             (match p1 with
              | XI p2 ->
                (match p2 with
                 | XI p3 ->
                   (match p3 with
                    | XI p4 ->
                      (match p4 with
                       | XO p5 -> (match p5 with
                                   | XH -> true
                                   | _ -> false)
                       | _ -> false)
                    | _ -> false)
                 | _ -> false)
              | XO p2 ->
                (match p2 with
                 | XI p3 ->
                   (match p3 with
                    | XO p4 -> (match p4 with
                                | XH -> true
                                | _ -> false)
                    | _ -> false)
                 | _ -> false)
              | XH -> false)
           | _ -> false)
        | _ -> false))

(** val expectation_line : mode -> n list -> text **)

let expectation_line m line =
  let content = trim_newlines line in
  if has_unprintable m content
  then app (escaped_printable m content) s_ESCAPED
  else let t = text_of content in
       if negb (ends_with_lf line)
       then app t s_NOEOL
       else if needs_kind content then app t s_EQUAL else t

(** val x29 : n list **)

let x29 =
  (Npos (XO (XO (XI (XI (XI (XO XH))))))) :: ((Npos (XO (XO (XO (XI (XI (XI
    XH))))))) :: ((Npos (XO (XI (XO (XO (XI XH)))))) :: ((Npos (XI (XO (XO
    (XI (XI XH)))))) :: [])))

(** val guard_noeol : text -> text **)

let guard_noeol t =
  match strip_suffix s_NOEOL t with
  | Some h ->
    app h
      (app ((Npos (XO (XO (XO (XO (XO XH)))))) :: ((Npos (XO (XO (XO (XI (XO
        XH)))))) :: ((Npos (XO (XI (XI (XI (XO (XI XH))))))) :: ((Npos (XI
        (XI (XI (XI (XO (XI XH))))))) :: ((Npos (XI (XO (XI (XI (XO
        XH)))))) :: ((Npos (XI (XO (XI (XO (XO (XI XH))))))) :: ((Npos (XI
        (XI (XI (XI (XO (XI XH))))))) :: ((Npos (XO (XO (XI (XI (XO (XI
        XH))))))) :: [])))))))) x29)
  | None -> t

(** val written_line : mode -> n list -> text **)

let written_line m line =
  let content = trim_newlines line in
  if has_unprintable m content
  then app (guard_noeol (escaped_printable m content)) s_ESCAPED
  else expectation_line m line

(** val guarded_line : bool -> bool -> mode -> n list -> text **)

let guarded_line first cram m line =
  let w = written_line m line in
  if (||) ((&&) first (starts_with p_GT w))
       ((&&) cram (starts_with p_DOLLAR w))
  then (match trim_newlines line with
        | [] -> w
        | c :: rest ->
          app
            (guard_noeol
              (app ((Npos (XO (XO (XI (XI (XI (XO XH))))))) :: ((Npos (XO (XO
                (XO (XI (XI (XI
                XH))))))) :: ((hexd (N.div c (Npos (XO (XO (XO (XO XH))))))) :: (
                (hexd (N.modulo c (Npos (XO (XO (XO (XO XH))))))) :: []))))
                (skipn (S (S (S (S O))))
                  (escaped_printable m ((Npos XH) :: rest))))) s_ESCAPED)
  else w

(** val guarded_lines : bool -> mode -> n list list -> text list **)

let guarded_lines cram m = function
| [] -> []
| l :: r ->
  (guarded_line true cram m l) :: (map (guarded_line false cram m) r)

(** val rule_matches : rule -> n list -> bool **)

let rule_matches r line =
  match r with
  | REqual t -> m_equal (utf8_encode t) line
  | RNoEol t -> m_noeol (utf8_encode t) line
  | REscaped (_, b) -> m_escaped b line
  | _ -> false

(** val has_command : (nat * text) list -> bool **)

let has_command code =
  existsb (fun p -> starts_with p_DOLLAR (snd p)) code

(** val max_bt : nat -> text list -> nat **)

let rec max_bt acc = function
| [] -> acc
| l :: r -> max_bt (max acc (count_bt l)) r

(** val fence_for : text list -> text **)

let fence_for body =
  repeat bT (S (max_bt (S (S O)) body))

(** val header : text option -> text **)

let header cfg =
  app sCRUT
    (match cfg with
     | Some c ->
       app ((Npos (XO (XO (XO (XO (XO XH)))))) :: ((Npos (XI (XI (XO (XI (XI
         (XI XH))))))) :: []))
         (app (trim_start c) ((Npos (XI (XO (XI (XI (XI (XI XH))))))) :: []))
     | None -> [])

(** val update_tok : token -> text list list -> text list * text list list **)

let update_tok t bodies =
  match t with
  | TLine (_, l) -> ((l :: []), bodies)
  | TFront (lines, _) ->
    ((app (dASHES :: []) (app lines (dASHES :: []))), bodies)
  | TVerb (_, _, raw) -> (raw, bodies)
  | TTest (cfg, comments, code, _) ->
    if has_command code
    then (match bodies with
          | [] -> ([], [])
          | b :: rest ->
            let f = fence_for b in
            ((app ((app f (header cfg)) :: [])
               (app comments (app b (f :: [])))), rest))
    else let b = map snd code in
         let f = fence_for b in
         ((app ((app f (header cfg)) :: []) (app comments (app b (f :: [])))),
         bodies)

(** val update_toks : token list -> text list list -> text list **)

let rec update_toks ts bodies =
  match ts with
  | [] -> []
  | t :: r ->
    let (ls, rest) = update_tok t bodies in app ls (update_toks r rest)

(** val update_md : text list -> text list list -> text list **)

let update_md doc0 bodies = match bodies with
| [] -> doc0
| _ :: _ -> update_toks (md_tokens doc0) bodies

(** val is_test : token -> bool **)

let is_test = function
| TTest (_, _, _, _) -> true
| _ -> false

(** val outside : token list -> text list **)

let outside ts =
  concat (map tok_raw (filter (fun t -> negb (is_test t)) ts))

(** val needs_u_escape : n -> bool **)

let needs_u_escape c =
  (||)
    ((||)
      ((||)
        ((||)
          ((||)
            ((||) (N.ltb c (Npos (XO (XO (XO (XO (XO XH)))))))
              ((&&) (N.leb (Npos (XI (XI (XI (XI (XI (XI XH))))))) c)
                (N.leb c (Npos (XI (XI (XI (XI (XI (XO (XO XH)))))))))))
            (N.eqb c (Npos (XO (XO (XO (XI (XO (XI (XO (XO (XO (XO (XO (XO
              (XO XH))))))))))))))))
          (N.eqb c (Npos (XI (XO (XO (XI (XO (XI (XO (XO (XO (XO (XO (XO (XO
            XH))))))))))))))))
        (N.eqb c (Npos (XI (XI (XI (XI (XI (XI (XI (XI (XO (XI (XI (XI (XI
          (XI (XI XH))))))))))))))))))
      (N.eqb c (Npos (XO (XI (XI (XI (XI (XI (XI (XI (XI (XI (XI (XI (XI (XI
        (XI XH))))))))))))))))))
    (N.eqb c (Npos (XI (XI (XI (XI (XI (XI (XI (XI (XI (XI (XI (XI (XI (XI
      (XI XH)))))))))))))))))

(** val hex4 : n -> n list **)

let hex4 c =
  (hexd
    (N.div c (Npos (XO (XO (XO (XO (XO (XO (XO (XO (XO (XO (XO (XO
      XH))))))))))))))) :: ((hexd
                              (N.modulo
                                (N.div c (Npos (XO (XO (XO (XO (XO (XO (XO
                                  (XO XH)))))))))) (Npos (XO (XO (XO (XO
                                XH))))))) :: ((hexd
                                                (N.modulo
                                                  (N.div c (Npos (XO (XO (XO
                                                    (XO XH)))))) (Npos (XO
                                                  (XO (XO (XO XH))))))) :: (
    (hexd (N.modulo c (Npos (XO (XO (XO (XO XH))))))) :: [])))

(** val quote_char : n -> n list **)

let quote_char c =
  if N.eqb c (Npos (XO (XI (XO (XO (XO XH))))))
  then (Npos (XO (XO (XI (XI (XI (XO XH))))))) :: ((Npos (XO (XI (XO (XO (XO
         XH)))))) :: [])
  else if N.eqb c (Npos (XO (XO (XI (XI (XI (XO XH)))))))
       then (Npos (XO (XO (XI (XI (XI (XO XH))))))) :: ((Npos (XO (XO (XI (XI
              (XI (XO XH))))))) :: [])
       else if needs_u_escape c
            then app ((Npos (XO (XO (XI (XI (XI (XO XH))))))) :: ((Npos (XI
                   (XO (XI (XO (XI (XI XH))))))) :: [])) (hex4 c)
            else c :: []

(** val yaml_quoted : n list -> n list **)

let yaml_quoted t =
  app ((Npos (XO (XI (XO (XO (XO XH)))))) :: [])
    (app (flat_map quote_char t) ((Npos (XO (XI (XO (XO (XO XH)))))) :: []))

(** val hexval : n -> n option **)

let hexval c =
  if (&&) (N.leb (Npos (XO (XO (XO (XO (XI XH)))))) c)
       (N.leb c (Npos (XI (XO (XO (XI (XI XH)))))))
  then Some (N.sub c (Npos (XO (XO (XO (XO (XI XH)))))))
  else if (&&) (N.leb (Npos (XI (XO (XO (XO (XO (XI XH))))))) c)
            (N.leb c (Npos (XO (XI (XI (XO (XO (XI XH))))))))
       then Some (N.sub c (Npos (XI (XI (XI (XO (XI (XO XH))))))))
       else if (&&) (N.leb (Npos (XI (XO (XO (XO (XO (XO XH))))))) c)
                 (N.leb c (Npos (XO (XI (XI (XO (XO (XO XH))))))))
            then Some (N.sub c (Npos (XI (XI (XI (XO (XI XH)))))))
            else None

type qst =
| QN
| QB
| QU of nat * n

(** val rq : qst -> n list -> n list -> (n list * n list) option **)

let rec rq st out_rev = function
| [] -> None
| c :: r ->
  (match st with
   | QN ->
     if N.eqb c (Npos (XO (XI (XO (XO (XO XH))))))
     then Some ((rev out_rev), r)
     else if N.eqb c (Npos (XO (XO (XI (XI (XI (XO XH)))))))
          then rq QB out_rev r
          else rq QN (c :: out_rev) r
   | QB ->
     if N.eqb c (Npos (XO (XI (XO (XO (XO XH))))))
     then rq QN ((Npos (XO (XI (XO (XO (XO XH)))))) :: out_rev) r
     else if N.eqb c (Npos (XO (XO (XI (XI (XI (XO XH)))))))
          then rq QN ((Npos (XO (XO (XI (XI (XI (XO XH))))))) :: out_rev) r
          else if N.eqb c (Npos (XI (XO (XI (XO (XI (XI XH)))))))
               then rq (QU (O, N0)) out_rev r
               else None
   | QU (k, acc) ->
     (match hexval c with
      | Some v ->
        if eqb k (S (S (S O)))
        then rq QN
               ((N.add (N.mul acc (Npos (XO (XO (XO (XO XH)))))) v) :: out_rev)
               r
        else rq (QU ((S k),
               (N.add (N.mul acc (Npos (XO (XO (XO (XO XH)))))) v))) out_rev r
      | None -> None))

(** val yaml_unquote : n list -> n list option **)

let yaml_unquote = function
| [] -> None
| n0 :: body ->
  (match n0 with
   | N0 -> None
   | Npos p ->
     (match p with
      | XO p0 ->
        (match p0 with
         | XI p1 ->
           (match p1 with
            | XO p2 ->
              (match p2 with
               | XO p3 ->
                 (match p3 with
                  | XO p4 ->
                    (match p4 with
                     | XH ->
                       (match rq QN [] body with
                        | Some p5 ->
                          let (t, l) = p5 in
                          (match l with
                           | [] -> Some t
                           | _ :: _ -> None)
                        | None -> None)
                     | _ -> None)
                  | _ -> None)
               | _ -> None)
            | _ -> None)
         | _ -> None)
      | _ -> None))

(** val is_alpha : n -> bool **)

let is_alpha c =
  (||)
    ((&&) (N.leb (Npos (XI (XO (XO (XO (XO (XO XH))))))) c)
      (N.leb c (Npos (XO (XI (XO (XI (XI (XO XH)))))))))
    ((&&) (N.leb (Npos (XI (XO (XO (XO (XO (XI XH))))))) c)
      (N.leb c (Npos (XO (XI (XO (XI (XI (XI XH)))))))))

(** val is_digit_c : n -> bool **)

let is_digit_c c =
  (&&) (N.leb (Npos (XO (XO (XO (XO (XI XH)))))) c)
    (N.leb c (Npos (XI (XO (XO (XI (XI XH)))))))

(** val plain_first : n -> bool **)

let plain_first c =
  (||)
    ((||) ((||) (is_alpha c) (N.eqb c (Npos (XI (XI (XI (XI (XO XH))))))))
      (N.eqb c (Npos (XO (XI (XI (XI (XO XH))))))))
    (N.eqb c (Npos (XI (XI (XI (XI (XI (XO XH))))))))

(** val plain_char : n -> bool **)

let plain_char c =
  (||)
    ((||)
      ((||)
        ((||) ((||) (is_alpha c) (is_digit_c c))
          (N.eqb c (Npos (XI (XI (XI (XI (XO XH))))))))
        (N.eqb c (Npos (XO (XI (XI (XI (XO XH))))))))
      (N.eqb c (Npos (XI (XI (XI (XI (XI (XO XH)))))))))
    (N.eqb c (Npos (XI (XO (XI (XI (XO XH)))))))

(** val lower : n -> n **)

let lower c =
  if (&&) (N.leb (Npos (XI (XO (XO (XO (XO (XO XH))))))) c)
       (N.leb c (Npos (XO (XI (XO (XI (XI (XO XH))))))))
  then N.add c (Npos (XO (XO (XO (XO (XO XH))))))
  else c

(** val kEYWORDS : n list list **)

let kEYWORDS =
  ((Npos (XO (XO (XI (XO (XI (XI XH))))))) :: ((Npos (XO (XI (XO (XO (XI (XI
    XH))))))) :: ((Npos (XI (XO (XI (XO (XI (XI XH))))))) :: ((Npos (XI (XO
    (XI (XO (XO (XI XH))))))) :: [])))) :: (((Npos (XO (XI (XI (XO (XO (XI
    XH))))))) :: ((Npos (XI (XO (XO (XO (XO (XI XH))))))) :: ((Npos (XO (XO
    (XI (XI (XO (XI XH))))))) :: ((Npos (XI (XI (XO (XO (XI (XI
    XH))))))) :: ((Npos (XI (XO (XI (XO (XO (XI
    XH))))))) :: []))))) :: (((Npos (XO (XI (XI (XI (XO (XI
    XH))))))) :: ((Npos (XI (XO (XI (XO (XI (XI XH))))))) :: ((Npos (XO (XO
    (XI (XI (XO (XI XH))))))) :: ((Npos (XO (XO (XI (XI (XO (XI
    XH))))))) :: [])))) :: (((Npos (XI (XO (XO (XI (XI (XI
    XH))))))) :: ((Npos (XI (XO (XI (XO (XO (XI XH))))))) :: ((Npos (XI (XI
    (XO (XO (XI (XI XH))))))) :: []))) :: (((Npos (XO (XI (XI (XI (XO (XI
    XH))))))) :: ((Npos (XI (XI (XI (XI (XO (XI XH))))))) :: [])) :: (((Npos
    (XI (XI (XI (XI (XO (XI XH))))))) :: ((Npos (XO (XI (XI (XI (XO (XI
    XH))))))) :: [])) :: (((Npos (XI (XI (XI (XI (XO (XI XH))))))) :: ((Npos
    (XO (XI (XI (XO (XO (XI XH))))))) :: ((Npos (XO (XI (XI (XO (XO (XI
    XH))))))) :: []))) :: (((Npos (XI (XO (XO (XI (XI (XI
    XH))))))) :: []) :: (((Npos (XO (XI (XI (XI (XO (XI
    XH))))))) :: []) :: []))))))))

(** val is_plain : n list -> bool **)

let is_plain t = match t with
| [] -> false
| c :: _ ->
  (&&) ((&&) (plain_first c) (forallb plain_char t))
    (negb (existsb (list_eqb (map lower t)) kEYWORDS))

(** val yaml_scalar : n list -> n list **)

let yaml_scalar t =
  if is_plain t then t else yaml_quoted t

(** val read_scalar : n list -> n list option **)

let read_scalar s = match s with
| [] -> Some s
| n0 :: _ ->
  (match n0 with
   | N0 -> Some s
   | Npos p ->
     (match p with
      | XO p0 ->
        (match p0 with
         | XI p1 ->
           (match p1 with
            | XO p2 ->
              (match p2 with
               | XO p3 ->
                 (match p3 with
                  | XO p4 ->
                    (match p4 with
                     | XH -> yaml_unquote s
                     | _ -> Some s)
                  | _ -> Some s)
               | _ -> Some s)
            | _ -> Some s)
         | _ -> Some s)
      | _ -> Some s))

(** val sEP : n list **)

let sEP =
  (Npos (XO (XO (XI (XI (XO XH)))))) :: ((Npos (XO (XO (XO (XO (XO
    XH)))))) :: [])

(** val cOLON : n list **)

let cOLON =
  (Npos (XO (XI (XO (XI (XI XH)))))) :: ((Npos (XO (XO (XO (XO (XO
    XH)))))) :: [])

(** val join_sep : n list list -> n list **)

let rec join_sep = function
| [] -> []
| x :: r -> (match r with
             | [] -> x
             | _ :: _ -> app x (app sEP (join_sep r)))

(** val env_entry : (n list * n list) -> n list **)

let env_entry kv =
  app (yaml_scalar (fst kv)) (app cOLON (yaml_quoted (snd kv)))

(** val env_text : (n list * n list) list -> n list **)

let env_text env0 =
  app ((Npos (XI (XI (XO (XI (XI (XI XH))))))) :: [])
    (app (join_sep (map env_entry env0)) ((Npos (XI (XO (XI (XI (XI (XI
      XH))))))) :: []))

(** val starts2 : n -> n -> n list -> bool **)

let starts2 a b = function
| [] -> false
| x :: l ->
  (match l with
   | [] -> false
   | y :: _ -> (&&) (N.eqb x a) (N.eqb y b))

(** val head_is : n -> n list -> bool **)

let head_is a = function
| [] -> false
| x :: _ -> N.eqb x a

(** val split_colon : n list -> (n list * n list) option **)

let rec split_colon s = match s with
| [] -> None
| c :: r ->
  if starts2 (Npos (XO (XI (XO (XI (XI XH)))))) (Npos (XO (XO (XO (XO (XO
       XH)))))) s
  then Some ([], (tl r))
  else (match split_colon r with
        | Some p -> let (k, rest) = p in Some ((c :: k), rest)
        | None -> None)

(** val read_key : n list -> (n list * n list) option **)

let read_key s =
  if head_is (Npos (XO (XI (XO (XO (XO XH)))))) s
  then (match rq QN [] (tl s) with
        | Some p ->
          let (k, r) = p in
          if starts2 (Npos (XO (XI (XO (XI (XI XH)))))) (Npos (XO (XO (XO (XO
               (XO XH)))))) r
          then Some (k, (skipn (S (S O)) r))
          else None
        | None -> None)
  else (match split_colon s with
        | Some p ->
          let (l, l0) = p in
          (match l with
           | [] -> None
           | n0 :: l1 -> Some ((n0 :: l1), l0))
        | None -> None)

(** val read_value : n list -> (n list * n list) option **)

let read_value s =
  if head_is (Npos (XO (XI (XO (XO (XO XH)))))) s
  then rq QN [] (tl s)
  else None

(** val read_entries :
    nat -> n list -> ((n list * n list) list * n list) option **)

let rec read_entries fuel s =
  match fuel with
  | O -> None
  | S f ->
    (match read_key s with
     | Some p ->
       let (k, r1) = p in
       (match read_value r1 with
        | Some p0 ->
          let (v, r2) = p0 in
          if head_is (Npos (XI (XO (XI (XI (XI (XI XH))))))) r2
          then Some (((k, v) :: []), (tl r2))
          else if starts2 (Npos (XO (XO (XI (XI (XO XH)))))) (Npos (XO (XO
                    (XO (XO (XO XH)))))) r2
               then (match read_entries f (skipn (S (S O)) r2) with
                     | Some p1 ->
                       let (m, rest) = p1 in Some (((k, v) :: m), rest)
                     | None -> None)
               else None
        | None -> None)
     | None -> None)

(** val read_env : n list -> ((n list * n list) list * n list) option **)

let read_env s =
  if head_is (Npos (XI (XI (XO (XI (XI (XI XH))))))) s
  then if head_is (Npos (XI (XO (XI (XI (XI (XI XH))))))) (tl s)
       then Some ([], (tl (tl s)))
       else read_entries (length s) (tl s)
  else None

(** val dec_aux : nat -> n -> n list -> n list **)

let rec dec_aux fuel n0 acc =
  match fuel with
  | O -> acc
  | S f ->
    let acc' =
      (N.add (Npos (XO (XO (XO (XO (XI XH))))))
        (N.modulo n0 (Npos (XO (XI (XO XH)))))) :: acc
    in
    if N.ltb n0 (Npos (XO (XI (XO XH))))
    then acc'
    else dec_aux f (N.div n0 (Npos (XO (XI (XO XH))))) acc'

(** val dec : n -> n list **)

let dec n0 =
  dec_aux (S (N.size_nat n0)) n0 []

(** val decz : z -> n list **)

let decz z0 = match z0 with
| Zneg p -> (Npos (XI (XO (XI (XI (XO XH)))))) :: (dec (Npos p))
| _ -> dec (Z.to_N z0)

type dline =
| DMatched of n * bool * n list * n option
| DUnmatched of n * bool * n list * n list
| DUnexpected of (n * n list) list

type result =
| OSuccess
| OMalformed of n * dline list
| OExit of z * z
| OInternal of n list
| OTimeout
| OSkipped

type outcome = { o_location : n list option; o_title : n list;
                 o_expr : n list; o_line : n; o_nexps : n; o_exit : z option;
                 o_cram : bool; o_esc : mode; o_stdout : n list;
                 o_stderr : n list; o_res : result }

type rr =
| RendOk of n list
| RendErr
| RendPanic

(** val sP : n **)

let sP =
  Npos (XO (XO (XO (XO (XO XH)))))

(** val join : n list -> n list list -> n list **)

let rec join sep = function
| [] -> []
| x :: r -> (match r with
             | [] -> x
             | _ :: _ -> app x (app sep (join sep r)))

(** val split_on_lf : n list -> n list -> n list list **)

let rec split_on_lf cur = function
| [] -> (rev cur) :: []
| c :: r ->
  if N.eqb c (Npos (XO (XI (XO XH))))
  then (rev cur) :: (split_on_lf [] r)
  else split_on_lf (c :: cur) r

(** val count_lf : n list -> n **)

let count_lf t =
  N.of_nat (length (filter (fun c -> N.eqb c (Npos (XO (XI (XO XH))))) t))

(** val shell_expression_lines : outcome -> n **)

let shell_expression_lines o =
  N.add (count_lf o.o_expr) (Npos XH)

(** val ends_lf : n list -> bool **)

let rec ends_lf = function
| [] -> false
| c :: r ->
  (match r with
   | [] -> N.eqb c (Npos (XO (XI (XO XH))))
   | _ :: _ -> ends_lf r)

(** val assure_nl : n list -> n list **)

let assure_nl t =
  if ends_lf t then t else app t ((Npos (XO (XI (XO XH)))) :: [])

(** val written_text : written -> n list **)

let written_text = function
| Plain t -> t
| Escaped t -> app t s_ESCAPED

(** val p_OUT : n list **)

let p_OUT =
  (Npos (XI (XI (XO (XO (XO XH)))))) :: ((Npos (XO (XI (XI (XI (XI
    XH)))))) :: ((Npos (XO (XO (XO (XO (XO XH)))))) :: []))

(** val to_output_string : mode -> n list -> n list **)

let to_output_string m bytes =
  flat_map (fun l ->
    app p_OUT (app (expectation_line m l) ((Npos (XO (XI (XO XH)))) :: [])))
    (split_lines bytes)

(** val h_STDOUT : n list **)

let h_STDOUT =
  (Npos (XI (XI (XO (XO (XO XH)))))) :: ((Npos (XI (XI (XO (XO (XO
    XH)))))) :: ((Npos (XO (XO (XO (XO (XO XH)))))) :: ((Npos (XI (XI (XO (XO
    (XI (XO XH))))))) :: ((Npos (XO (XO (XI (XO (XI (XO XH))))))) :: ((Npos
    (XO (XO (XI (XO (XO (XO XH))))))) :: ((Npos (XI (XI (XI (XI (XO (XO
    XH))))))) :: ((Npos (XI (XO (XI (XO (XI (XO XH))))))) :: ((Npos (XO (XO
    (XI (XO (XI (XO XH))))))) :: ((Npos (XO (XI (XO XH)))) :: [])))))))))

(** val h_STDERR : n list **)

let h_STDERR =
  (Npos (XI (XI (XO (XO (XO XH)))))) :: ((Npos (XI (XI (XO (XO (XO
    XH)))))) :: ((Npos (XO (XO (XO (XO (XO XH)))))) :: ((Npos (XI (XI (XO (XO
    (XI (XO XH))))))) :: ((Npos (XO (XO (XI (XO (XI (XO XH))))))) :: ((Npos
    (XO (XO (XI (XO (XO (XO XH))))))) :: ((Npos (XI (XO (XI (XO (XO (XO
    XH))))))) :: ((Npos (XO (XI (XO (XO (XI (XO XH))))))) :: ((Npos (XO (XI
    (XO (XO (XI (XO XH))))))) :: ((Npos (XO (XI (XO XH)))) :: [])))))))))

(** val to_error_string : outcome -> n list **)

let to_error_string o =
  app h_STDOUT
    (app (to_output_string o.o_esc o.o_stdout)
      (app h_STDERR (to_output_string o.o_esc o.o_stderr)))

(** val rtrim_ws : n list -> n list **)

let rec rtrim_ws = function
| [] -> []
| c :: r ->
  (match rtrim_ws r with
   | [] -> if is_ws c then [] else c :: []
   | n0 :: l -> c :: (n0 :: l))

(** val blen : n list -> nat **)

let blen t =
  length (utf8_encode t)

(** val split_at_byte : n list -> nat -> (n list * n list) option **)

let rec split_at_byte t k = match k with
| O -> Some ([], t)
| S _ ->
  (match t with
   | [] -> None
   | c :: r ->
     let n0 = length (enc c) in
     if Nat.leb n0 k
     then (match split_at_byte r (sub k n0) with
           | Some p -> let (a, b) = p in Some ((c :: a), b)
           | None -> None)
     else None)

(** val vis : n -> n **)

let vis c =
  if N.eqb c (Npos (XI (XO (XO XH))))
  then Npos (XO (XI (XI (XO (XO (XI (XO (XI (XI (XO (XO (XO (XO
         XH)))))))))))))
  else if N.eqb c (Npos (XO (XO (XO (XO (XO XH))))))
       then Npos (XI (XO (XI (XO (XI (XI (XO (XI (XI (XI (XO (XO (XO
              XH)))))))))))))
       else Npos (XO (XO (XO (XO (XI (XI (XI (XO (XI (XI (XO (XO (XO
              XH)))))))))))))

(** val space_start_index : n list -> nat **)

let space_start_index t =
  blen (rtrim_ws t)

(** val highlight : n list -> n list option **)

let highlight t =
  let idx = space_start_index t in
  if Nat.ltb idx (blen t)
  then (match split_at_byte t idx with
        | Some p0 -> let (p, s) = p0 in Some (app p (map vis s))
        | None -> None)
  else Some t

(** val out_num : nat -> n option -> n list option **)

let out_num w = function
| Some n0 ->
  let s = if N.eqb n0 N0 then [] else dec n0 in
  let p = if N.eqb n0 N0 then Npos (XI (XI (XO (XI (XO XH))))) else sP in
  if Nat.leb (length s) w
  then Some (app (repeat p (sub w (length s))) s)
  else None
| None -> Some (repeat sP w)

(** val exp_num : nat -> n option -> bool -> n list option **)

let exp_num w num mul1 =
  match out_num w num with
  | Some s ->
    Some
      (app s ((if mul1 then Npos (XI (XI (XO (XI (XO XH))))) else sP) :: []))
  | None -> None

(** val bAR : n list **)

let bAR =
  (Npos (XO (XO (XO (XO (XO XH)))))) :: ((Npos (XO (XO (XO (XO (XO
    XH)))))) :: ((Npos (XO (XO (XI (XI (XI (XI XH))))))) :: ((Npos (XO (XO
    (XO (XO (XO XH)))))) :: [])))

(** val row :
    nat -> n option -> n option -> bool -> n -> n list -> n list option **)

let row w ln en mul1 sym content =
  match exp_num w en mul1 with
  | Some a ->
    (match out_num w ln with
     | Some b ->
       Some
         (assure_nl
           (app a
             (app (sP :: [])
               (app b (app bAR (app (sym :: (sP :: [])) content))))))
     | None -> None)
  | None -> None

type pparams = { max_sur : nat; absolute : bool; summarize : bool }

(** val is_err_line : dline -> bool **)

let is_err_line = function
| DMatched (_, _, _, _) -> false
| _ -> true

(** val find_pos : ('a1 -> bool) -> 'a1 list -> nat option **)

let rec find_pos p = function
| [] -> None
| x :: r -> if p x then Some O else option_map (fun x0 -> S x0) (find_pos p r)

(** val next_err : dline list -> nat -> nat option **)

let next_err ds from =
  option_map (fun v -> add v from) (find_pos is_err_line (skipn from ds))

(** val nOEOL_B : n list **)

let nOEOL_B =
  s_NOEOL

(** val dOTS : n list **)

let dOTS =
  (Npos (XO (XI (XI (XI (XO XH)))))) :: ((Npos (XO (XI (XI (XI (XO
    XH)))))) :: ((Npos (XO (XI (XI (XI (XO XH)))))) :: ((Npos (XO (XI (XO
    XH)))) :: [])))

(** val unexpected_rows :
    nat -> mode -> n -> (n * n list) list -> n list option **)

let rec unexpected_rows w m base = function
| [] -> Some []
| p :: r ->
  let (li, bytes) = p in
  let line = if ends_with_lf bytes then bytes else app bytes nOEOL_B in
  (match highlight (written_text (escaped_expectation m line)) with
   | Some content ->
     (match row w (Some (N.add (N.add base li) (Npos XH))) None false (Npos
              (XI (XI (XO (XI (XO XH)))))) content with
      | Some a ->
        (match unexpected_rows w m base r with
         | Some b -> Some (app a b)
         | None -> None)
      | None -> None)
   | None -> None)

(** val pretty_lines :
    pparams -> nat -> mode -> n -> dline list -> nat -> nat option -> dline
    list -> n list option **)

let rec pretty_lines pp w m base all di last = function
| [] -> Some []
| d :: r ->
  (match d with
   | DMatched (idx, mul1, expr, first) ->
     let skip =
       if Nat.ltb O pp.max_sur
       then let a =
              match last with
              | Some le -> Nat.leb di (add le pp.max_sur)
              | None -> false
            in
            let b =
              match next_err all (S di) with
              | Some ne -> Nat.leb ne (add di pp.max_sur)
              | None -> false
            in
            negb ((||) a b)
       else false
     in
     let first_skip =
       if Nat.ltb O pp.max_sur
       then (match last with
             | Some le ->
               (&&) (negb (Nat.leb di (add le pp.max_sur)))
                 (Nat.eqb (add (add le pp.max_sur) (S O)) di)
             | None -> false)
       else false
     in
     let here =
       if negb skip
       then if mul1
            then let ln = Some N0 in
                 row w ln (Some (N.add (N.add base idx) (Npos XH))) mul1 sP
                   expr
            else (match first with
                  | Some f ->
                    let ln = Some (N.add (N.add base f) (Npos XH)) in
                    row w ln (Some (N.add (N.add base idx) (Npos XH))) mul1
                      sP expr
                  | None -> None)
       else if first_skip then Some dOTS else Some []
     in
     (match here with
      | Some a ->
        (match pretty_lines pp w m base all (S di) last r with
         | Some b -> Some (app a b)
         | None -> None)
      | None -> None)
   | DUnmatched (idx, mul1, expr, _) ->
     (match highlight expr with
      | Some content ->
        (match row w None (Some (N.add (N.add base idx) (Npos XH))) mul1
                 (Npos (XI (XO (XI (XI (XO XH)))))) content with
         | Some a ->
           (match pretty_lines pp w m base all (S di) (Some di) r with
            | Some b -> Some (app a b)
            | None -> None)
         | None -> None)
      | None -> None)
   | DUnexpected ls ->
     (match unexpected_rows w m base ls with
      | Some a ->
        (match pretty_lines pp w m base all (S di)
                 (match ls with
                  | [] -> last
                  | _ :: _ -> Some di) r with
         | Some b -> Some (app a b)
         | None -> None)
      | None -> None))

(** val line_base : pparams -> outcome -> n **)

let line_base pp o =
  if pp.absolute
  then N.sub (N.add o.o_line (shell_expression_lines o)) (Npos XH)
  else N0

(** val width : pparams -> outcome -> n -> nat **)

let width pp o count_lines =
  length (dec (N.add (line_base pp o) (N.max count_lines o.o_nexps)))

(** val pretty_malformed :
    pparams -> outcome -> n -> dline list -> n list option **)

let pretty_malformed pp o count_lines d =
  pretty_lines pp (width pp o count_lines) o.o_esc (line_base pp o) d O None d

(** val sLASHES : n list **)

let sLASHES =
  (Npos (XI (XI (XI (XI (XO XH)))))) :: ((Npos (XI (XI (XI (XI (XO
    XH)))))) :: [])

(** val header_to_title : n -> n list -> n list **)

let header_to_title first t =
  let rec go0 i = function
  | [] -> []
  | l :: r ->
    app sLASHES
      (app (sP :: ((if Nat.eqb i O then first else sP) :: (sP :: [])))
        (app l (app ((Npos (XO (XI (XO XH)))) :: []) (go0 (S i) r))))
  in go0 O (split_on_lf [] t)

(** val divider : n -> n list **)

let divider c =
  app sLASHES
    (app (sP :: [])
      (app
        (repeat c (S (S (S (S (S (S (S (S (S (S (S (S (S (S (S (S (S (S (S (S
          (S (S (S (S (S (S (S (S (S (S (S (S (S (S (S (S (S (S (S (S (S (S
          (S (S (S (S (S (S (S (S (S (S (S (S (S (S (S (S (S (S (S (S (S (S
          (S (S (S (S (S (S (S (S (S (S (S (S (S
          O))))))))))))))))))))))))))))))))))))))))))))))))))))))))))))))))))))))))))))))
        ((Npos (XO (XI (XO XH)))) :: [])))

(** val s_LINE : n list **)

let s_LINE =
  (Npos (XO (XO (XI (XI (XO (XO XH))))))) :: ((Npos (XI (XO (XO (XI (XO (XI
    XH))))))) :: ((Npos (XO (XI (XI (XI (XO (XI XH))))))) :: ((Npos (XI (XO
    (XI (XO (XO (XI XH))))))) :: ((Npos (XO (XO (XO (XO (XO XH)))))) :: []))))

(** val render_header : outcome -> n list **)

let render_header o =
  let at_ =
    match o.o_location with
    | Some l ->
      header_to_title (Npos (XO (XO (XO (XO (XO (XO XH)))))))
        (app l
          (app ((Npos (XO (XI (XO (XI (XI XH)))))) :: []) (dec o.o_line)))
    | None ->
      header_to_title (Npos (XO (XO (XO (XO (XO (XO XH)))))))
        (app s_LINE (dec o.o_line))
  in
  let ti =
    match o.o_title with
    | [] -> []
    | n0 :: l ->
      (header_to_title (Npos (XI (XI (XO (XO (XO XH)))))) (n0 :: l)) :: []
  in
  let headers =
    app (at_ :: [])
      (app ti
        ((header_to_title (Npos (XO (XO (XI (XO (XO XH)))))) o.o_expr) :: []))
  in
  app (divider (Npos (XI (XO (XI (XI (XI XH)))))))
    (app (join (divider (Npos (XI (XO (XI (XI (XO XH))))))) headers)
      (app (divider (Npos (XI (XO (XI (XI (XI XH))))))) ((Npos (XO (XI (XO
        XH)))) :: [])))

(** val t_UNEXPECTED_EXIT : n list **)

let t_UNEXPECTED_EXIT =
  (Npos (XI (XO (XI (XO (XI (XI XH))))))) :: ((Npos (XO (XI (XI (XI (XO (XI
    XH))))))) :: ((Npos (XI (XO (XI (XO (XO (XI XH))))))) :: ((Npos (XO (XO
    (XO (XI (XI (XI XH))))))) :: ((Npos (XO (XO (XO (XO (XI (XI
    XH))))))) :: ((Npos (XI (XO (XI (XO (XO (XI XH))))))) :: ((Npos (XI (XI
    (XO (XO (XO (XI XH))))))) :: ((Npos (XO (XO (XI (XO (XI (XI
    XH))))))) :: ((Npos (XI (XO (XI (XO (XO (XI XH))))))) :: ((Npos (XO (XO
    (XI (XO (XO (XI XH))))))) :: ((Npos (XO (XO (XO (XO (XO
    XH)))))) :: ((Npos (XI (XO (XI (XO (XO (XI XH))))))) :: ((Npos (XO (XO
    (XO (XI (XI (XI XH))))))) :: ((Npos (XI (XO (XO (XI (XO (XI
    XH))))))) :: ((Npos (XO (XO (XI (XO (XI (XI XH))))))) :: ((Npos (XO (XO
    (XO (XO (XO XH)))))) :: ((Npos (XI (XI (XO (XO (XO (XI
    XH))))))) :: ((Npos (XI (XI (XI (XI (XO (XI XH))))))) :: ((Npos (XO (XO
    (XI (XO (XO (XI XH))))))) :: ((Npos (XI (XO (XI (XO (XO (XI
    XH))))))) :: ((Npos (XO (XI (XO XH)))) :: []))))))))))))))))))))

(** val t_EXPECTED : n list **)

let t_EXPECTED =
  (Npos (XO (XO (XO (XO (XO XH)))))) :: ((Npos (XO (XO (XO (XO (XO
    XH)))))) :: ((Npos (XI (XO (XI (XO (XO (XI XH))))))) :: ((Npos (XO (XO
    (XO (XI (XI (XI XH))))))) :: ((Npos (XO (XO (XO (XO (XI (XI
    XH))))))) :: ((Npos (XI (XO (XI (XO (XO (XI XH))))))) :: ((Npos (XI (XI
    (XO (XO (XO (XI XH))))))) :: ((Npos (XO (XO (XI (XO (XI (XI
    XH))))))) :: ((Npos (XI (XO (XI (XO (XO (XI XH))))))) :: ((Npos (XO (XO
    (XI (XO (XO (XI XH))))))) :: ((Npos (XO (XI (XO (XI (XI
    XH)))))) :: ((Npos (XO (XO (XO (XO (XO XH)))))) :: [])))))))))))

(** val t_ACTUAL : n list **)

let t_ACTUAL =
  (Npos (XO (XO (XO (XO (XO XH)))))) :: ((Npos (XO (XO (XO (XO (XO
    XH)))))) :: ((Npos (XI (XO (XO (XO (XO (XI XH))))))) :: ((Npos (XI (XI
    (XO (XO (XO (XI XH))))))) :: ((Npos (XO (XO (XI (XO (XI (XI
    XH))))))) :: ((Npos (XI (XO (XI (XO (XI (XI XH))))))) :: ((Npos (XI (XO
    (XO (XO (XO (XI XH))))))) :: ((Npos (XO (XO (XI (XI (XO (XI
    XH))))))) :: ((Npos (XO (XI (XO (XI (XI XH)))))) :: ((Npos (XO (XO (XO
    (XO (XO XH)))))) :: ((Npos (XO (XO (XO (XO (XO XH)))))) :: ((Npos (XO (XO
    (XO (XO (XO XH)))))) :: [])))))))))))

(** val t_TIMEOUT : n list **)

let t_TIMEOUT =
  (Npos (XO (XO (XI (XO (XI (XI XH))))))) :: ((Npos (XI (XO (XO (XI (XO (XI
    XH))))))) :: ((Npos (XI (XO (XI (XI (XO (XI XH))))))) :: ((Npos (XI (XO
    (XI (XO (XO (XI XH))))))) :: ((Npos (XI (XI (XI (XI (XO (XI
    XH))))))) :: ((Npos (XI (XO (XI (XO (XI (XI XH))))))) :: ((Npos (XO (XO
    (XI (XO (XI (XI XH))))))) :: ((Npos (XO (XO (XO (XO (XO
    XH)))))) :: ((Npos (XI (XO (XO (XI (XO (XI XH))))))) :: ((Npos (XO (XI
    (XI (XI (XO (XI XH))))))) :: ((Npos (XO (XO (XO (XO (XO
    XH)))))) :: ((Npos (XI (XO (XI (XO (XO (XI XH))))))) :: ((Npos (XO (XO
    (XO (XI (XI (XI XH))))))) :: ((Npos (XI (XO (XI (XO (XO (XI
    XH))))))) :: ((Npos (XI (XI (XO (XO (XO (XI XH))))))) :: ((Npos (XI (XO
    (XI (XO (XI (XI XH))))))) :: ((Npos (XO (XO (XI (XO (XI (XI
    XH))))))) :: ((Npos (XI (XO (XO (XI (XO (XI XH))))))) :: ((Npos (XI (XI
    (XI (XI (XO (XI XH))))))) :: ((Npos (XO (XI (XI (XI (XO (XI
    XH))))))) :: ((Npos (XO (XI (XO XH)))) :: []))))))))))))))))))))

(** val t_ERROR : n list **)

let t_ERROR =
  (Npos (XI (XO (XI (XO (XO (XI XH))))))) :: ((Npos (XO (XI (XO (XO (XI (XI
    XH))))))) :: ((Npos (XO (XI (XO (XO (XI (XI XH))))))) :: ((Npos (XI (XI
    (XI (XI (XO (XI XH))))))) :: ((Npos (XO (XI (XO (XO (XI (XI
    XH))))))) :: ((Npos (XO (XI (XO (XI (XI XH)))))) :: ((Npos (XO (XO (XO
    (XO (XO XH)))))) :: []))))))

(** val pretty_error : pparams -> outcome -> n list option **)

let pretty_error pp o =
  match o.o_res with
  | OMalformed (n0, d) -> pretty_malformed pp o n0 d
  | OExit (a, e) ->
    Some
      (app t_UNEXPECTED_EXIT
        (app t_EXPECTED
          (app (decz e)
            (app ((Npos (XO (XI (XO XH)))) :: [])
              (app t_ACTUAL
                (app (decz a)
                  (app ((Npos (XO (XI (XO XH)))) :: [])
                    (app ((Npos (XO (XI (XO XH)))) :: []) (to_error_string o)))))))))
  | OInternal msg ->
    Some (app t_ERROR (app msg ((Npos (XO (XI (XO XH)))) :: [])))
  | OTimeout ->
    Some
      (app t_TIMEOUT
        (app ((Npos (XO (XI (XO XH)))) :: []) (to_error_string o)))
  | _ -> Some []

(** val res_failure : result -> bool **)

let res_failure = function
| OSuccess -> false
| OSkipped -> false
| _ -> true

(** val res_skipped : result -> bool **)

let res_skipped = function
| OSkipped -> true
| _ -> false

(** val res_success : result -> bool **)

let res_success = function
| OSuccess -> true
| _ -> false

(** val pretty_section : pparams -> outcome -> n list option **)

let pretty_section pp o =
  if res_failure o.o_res
  then (match pretty_error pp o with
        | Some b ->
          Some
            (app (render_header o)
              (app b ((Npos (XO (XI (XO XH)))) :: ((Npos (XO (XI (XO
                XH)))) :: []))))
        | None -> None)
  else Some []

(** val pretty_sections : pparams -> outcome list -> n list option **)

let rec pretty_sections pp = function
| [] -> Some []
| o :: r ->
  (match pretty_section pp o with
   | Some a ->
     (match pretty_sections pp r with
      | Some b -> Some (app a b)
      | None -> None)
   | None -> None)

(** val text_eqb : n list -> n list -> bool **)

let rec text_eqb a b =
  match a with
  | [] -> (match b with
           | [] -> true
           | _ :: _ -> false)
  | x :: a' ->
    (match b with
     | [] -> false
     | y :: b' -> (&&) (N.eqb x y) (text_eqb a' b'))

(** val distinct_count : n list list -> n list list -> nat **)

let rec distinct_count seen = function
| [] -> length seen
| x :: r ->
  if existsb (text_eqb x) seen
  then distinct_count seen r
  else distinct_count (x :: seen) r

(** val locations : outcome list -> n list list **)

let locations os =
  flat_map (fun o -> match o.o_location with
                     | Some l -> l :: []
                     | None -> []) os

(** val count_if : (result -> bool) -> outcome list -> n **)

let count_if p os =
  N.of_nat (length (filter (fun o -> p o.o_res) os))

(** val t_RESULT : n list **)

let t_RESULT =
  (Npos (XO (XI (XO (XO (XI (XO XH))))))) :: ((Npos (XI (XO (XI (XO (XO (XI
    XH))))))) :: ((Npos (XI (XI (XO (XO (XI (XI XH))))))) :: ((Npos (XI (XO
    (XI (XO (XI (XI XH))))))) :: ((Npos (XO (XO (XI (XI (XO (XI
    XH))))))) :: ((Npos (XO (XO (XI (XO (XI (XI XH))))))) :: ((Npos (XO (XI
    (XO (XI (XI XH)))))) :: ((Npos (XO (XO (XO (XO (XO XH)))))) :: [])))))))

(** val t_DOCS : n list **)

let t_DOCS =
  (Npos (XO (XO (XO (XO (XO XH)))))) :: ((Npos (XO (XO (XI (XO (XO (XI
    XH))))))) :: ((Npos (XI (XI (XI (XI (XO (XI XH))))))) :: ((Npos (XI (XI
    (XO (XO (XO (XI XH))))))) :: ((Npos (XI (XO (XI (XO (XI (XI
    XH))))))) :: ((Npos (XI (XO (XI (XI (XO (XI XH))))))) :: ((Npos (XI (XO
    (XI (XO (XO (XI XH))))))) :: ((Npos (XO (XI (XI (XI (XO (XI
    XH))))))) :: ((Npos (XO (XO (XI (XO (XI (XI XH))))))) :: ((Npos (XO (XO
    (XO (XI (XO XH)))))) :: ((Npos (XI (XI (XO (XO (XI (XI
    XH))))))) :: ((Npos (XI (XO (XO (XI (XO XH)))))) :: ((Npos (XO (XO (XO
    (XO (XO XH)))))) :: ((Npos (XI (XI (XI (XO (XI (XI XH))))))) :: ((Npos
    (XI (XO (XO (XI (XO (XI XH))))))) :: ((Npos (XO (XO (XI (XO (XI (XI
    XH))))))) :: ((Npos (XO (XO (XO (XI (XO (XI XH))))))) :: ((Npos (XO (XO
    (XO (XO (XO XH)))))) :: [])))))))))))))))))

(** val t_TESTS : n list **)

let t_TESTS =
  (Npos (XO (XO (XO (XO (XO XH)))))) :: ((Npos (XO (XO (XI (XO (XI (XI
    XH))))))) :: ((Npos (XI (XO (XI (XO (XO (XI XH))))))) :: ((Npos (XI (XI
    (XO (XO (XI (XI XH))))))) :: ((Npos (XO (XO (XI (XO (XI (XI
    XH))))))) :: ((Npos (XI (XI (XO (XO (XO (XI XH))))))) :: ((Npos (XI (XO
    (XO (XO (XO (XI XH))))))) :: ((Npos (XI (XI (XO (XO (XI (XI
    XH))))))) :: ((Npos (XI (XO (XI (XO (XO (XI XH))))))) :: ((Npos (XO (XO
    (XO (XI (XO XH)))))) :: ((Npos (XI (XI (XO (XO (XI (XI
    XH))))))) :: ((Npos (XI (XO (XO (XI (XO XH)))))) :: ((Npos (XO (XI (XO
    (XI (XI XH)))))) :: ((Npos (XO (XO (XO (XO (XO XH)))))) :: [])))))))))))))

(** val t_SUCC : n list **)

let t_SUCC =
  (Npos (XO (XO (XO (XO (XO XH)))))) :: ((Npos (XI (XI (XO (XO (XI (XI
    XH))))))) :: ((Npos (XI (XO (XI (XO (XI (XI XH))))))) :: ((Npos (XI (XI
    (XO (XO (XO (XI XH))))))) :: ((Npos (XI (XI (XO (XO (XO (XI
    XH))))))) :: ((Npos (XI (XO (XI (XO (XO (XI XH))))))) :: ((Npos (XI (XO
    (XI (XO (XO (XI XH))))))) :: ((Npos (XO (XO (XI (XO (XO (XI
    XH))))))) :: ((Npos (XI (XO (XI (XO (XO (XI XH))))))) :: ((Npos (XO (XO
    (XI (XO (XO (XI XH))))))) :: ((Npos (XO (XO (XI (XI (XO
    XH)))))) :: ((Npos (XO (XO (XO (XO (XO XH)))))) :: [])))))))))))

(** val t_FAILED : n list **)

let t_FAILED =
  (Npos (XO (XO (XO (XO (XO XH)))))) :: ((Npos (XO (XI (XI (XO (XO (XI
    XH))))))) :: ((Npos (XI (XO (XO (XO (XO (XI XH))))))) :: ((Npos (XI (XO
    (XO (XI (XO (XI XH))))))) :: ((Npos (XO (XO (XI (XI (XO (XI
    XH))))))) :: ((Npos (XI (XO (XI (XO (XO (XI XH))))))) :: ((Npos (XO (XO
    (XI (XO (XO (XI XH))))))) :: ((Npos (XO (XO (XO (XO (XO
    XH)))))) :: ((Npos (XI (XO (XO (XO (XO (XI XH))))))) :: ((Npos (XO (XI
    (XI (XI (XO (XI XH))))))) :: ((Npos (XO (XO (XI (XO (XO (XI
    XH))))))) :: ((Npos (XO (XO (XO (XO (XO XH)))))) :: [])))))))))))

(** val t_SKIPPED : n list **)

let t_SKIPPED =
  (Npos (XO (XO (XO (XO (XO XH)))))) :: ((Npos (XI (XI (XO (XO (XI (XI
    XH))))))) :: ((Npos (XI (XI (XO (XI (XO (XI XH))))))) :: ((Npos (XI (XO
    (XO (XI (XO (XI XH))))))) :: ((Npos (XO (XO (XO (XO (XI (XI
    XH))))))) :: ((Npos (XO (XO (XO (XO (XI (XI XH))))))) :: ((Npos (XI (XO
    (XI (XO (XO (XI XH))))))) :: ((Npos (XO (XO (XI (XO (XO (XI
    XH))))))) :: ((Npos (XO (XI (XO XH)))) :: []))))))))

(** val pretty_summary : outcome list -> n list **)

let pretty_summary os =
  let ok = count_if res_success os in
  let er = count_if res_failure os in
  let sk = count_if res_skipped os in
  app t_RESULT
    (app (dec (N.of_nat (distinct_count [] (locations os))))
      (app t_DOCS
        (app (dec (N.add (N.add ok er) sk))
          (app t_TESTS
            (app (dec ok)
              (app t_SUCC
                (app (dec er) (app t_FAILED (app (dec sk) t_SKIPPED)))))))))

(** val render_pretty : pparams -> outcome list -> rr **)

let render_pretty pp os =
  match pretty_sections pp os with
  | Some s -> RendOk (app s (if pp.summarize then pretty_summary os else []))
  | None -> RendPanic

(** val text_ltb : n list -> n list -> bool **)

let rec text_ltb a b =
  match a with
  | [] -> (match b with
           | [] -> false
           | _ :: _ -> true)
  | x :: a' ->
    (match b with
     | [] -> false
     | y :: b' ->
       if N.ltb x y then true else if N.ltb y x then false else text_ltb a' b')

(** val key_leb : outcome -> outcome -> bool **)

let key_leb a b =
  match a.o_location with
  | Some la ->
    (match b.o_location with
     | Some lb ->
       if text_ltb la lb
       then true
       else if text_ltb lb la then false else N.leb a.o_line b.o_line
     | None -> false)
  | None -> true

(** val insert_sorted : outcome -> outcome list -> outcome list **)

let rec insert_sorted o l = match l with
| [] -> o :: []
| x :: r -> if key_leb o x then o :: l else x :: (insert_sorted o r)

(** val stable_sort : outcome list -> outcome list **)

let stable_sort l =
  fold_right insert_sorted [] l

(** val length_suffix : nat -> n list **)

let length_suffix n0 =
  if Nat.eqb n0 (S O)
  then []
  else (Npos (XO (XO (XI (XI (XO XH)))))) :: (dec (N.of_nat n0))

(** val t_EXITK : n list **)

let t_EXITK =
  (Npos (XI (XO (XO (XI (XO (XI XH))))))) :: ((Npos (XO (XI (XI (XI (XO (XI
    XH))))))) :: ((Npos (XO (XI (XI (XO (XI (XI XH))))))) :: ((Npos (XI (XO
    (XO (XO (XO (XI XH))))))) :: ((Npos (XO (XO (XI (XI (XO (XI
    XH))))))) :: ((Npos (XI (XO (XO (XI (XO (XI XH))))))) :: ((Npos (XO (XO
    (XI (XO (XO (XI XH))))))) :: ((Npos (XO (XO (XO (XO (XO
    XH)))))) :: ((Npos (XI (XO (XI (XO (XO (XI XH))))))) :: ((Npos (XO (XO
    (XO (XI (XI (XI XH))))))) :: ((Npos (XI (XO (XO (XI (XO (XI
    XH))))))) :: ((Npos (XO (XO (XI (XO (XI (XI XH))))))) :: ((Npos (XO (XO
    (XO (XO (XO XH)))))) :: ((Npos (XI (XI (XO (XO (XO (XI
    XH))))))) :: ((Npos (XI (XI (XI (XI (XO (XI XH))))))) :: ((Npos (XO (XO
    (XI (XO (XO (XI XH))))))) :: ((Npos (XI (XO (XI (XO (XO (XI
    XH))))))) :: []))))))))))))))))

(** val t_MALK : n list **)

let t_MALK =
  (Npos (XI (XO (XI (XI (XO (XI XH))))))) :: ((Npos (XI (XO (XO (XO (XO (XI
    XH))))))) :: ((Npos (XO (XO (XI (XI (XO (XI XH))))))) :: ((Npos (XO (XI
    (XI (XO (XO (XI XH))))))) :: ((Npos (XI (XI (XI (XI (XO (XI
    XH))))))) :: ((Npos (XO (XI (XO (XO (XI (XI XH))))))) :: ((Npos (XI (XO
    (XI (XI (XO (XI XH))))))) :: ((Npos (XI (XO (XI (XO (XO (XI
    XH))))))) :: ((Npos (XO (XO (XI (XO (XO (XI XH))))))) :: ((Npos (XO (XO
    (XO (XO (XO XH)))))) :: ((Npos (XI (XI (XI (XI (XO (XI
    XH))))))) :: ((Npos (XI (XO (XI (XO (XI (XI XH))))))) :: ((Npos (XO (XO
    (XI (XO (XI (XI XH))))))) :: ((Npos (XO (XO (XO (XO (XI (XI
    XH))))))) :: ((Npos (XI (XO (XI (XO (XI (XI XH))))))) :: ((Npos (XO (XO
    (XI (XO (XI (XI XH))))))) :: [])))))))))))))))

(** val diff_header : n -> nat -> n -> nat -> n list -> n list -> n list **)

let diff_header old_start old_len new_start new_len kind title =
  app ((Npos (XO (XO (XO (XO (XO (XO XH))))))) :: ((Npos (XO (XO (XO (XO (XO
    (XO XH))))))) :: ((Npos (XO (XO (XO (XO (XO XH)))))) :: ((Npos (XI (XO
    (XI (XI (XO XH)))))) :: []))))
    (app (dec old_start)
      (app (length_suffix old_len)
        (app ((Npos (XO (XO (XO (XO (XO XH)))))) :: ((Npos (XI (XI (XO (XI
          (XO XH)))))) :: []))
          (app (dec new_start)
            (app (length_suffix new_len)
              (app ((Npos (XO (XO (XO (XO (XO XH)))))) :: ((Npos (XO (XO (XO
                (XO (XO (XO XH))))))) :: ((Npos (XO (XO (XO (XO (XO (XO
                XH))))))) :: ((Npos (XO (XO (XO (XO (XO XH)))))) :: []))))
                (app kind
                  (app ((Npos (XO (XI (XO (XI (XI XH)))))) :: ((Npos (XO (XO
                    (XO (XO (XO XH)))))) :: []))
                    (app title ((Npos (XO (XI (XO XH)))) :: []))))))))))

(** val join_multiline : n list -> n list **)

let join_multiline t =
  join ((Npos (XO (XO (XO (XO (XO XH)))))) :: ((Npos (XO (XI (XO (XI (XO
    XH)))))) :: ((Npos (XO (XO (XO (XO (XO XH)))))) :: []))) (str_lines t)

(** val line_prefix : outcome -> n list **)

let line_prefix o =
  if o.o_cram
  then (Npos (XO (XO (XO (XO (XO XH)))))) :: ((Npos (XO (XO (XO (XO (XO
         XH)))))) :: [])
  else []

type hunk = { um_start : n option; um_lines : n list list;
              ux_start : n option; ux_lines : n list list }

(** val hunk_empty : hunk **)

let hunk_empty =
  { um_start = None; um_lines = []; ux_start = None; ux_lines = [] }

(** val in_rng : n -> n -> n -> bool **)

let in_rng lo hi b =
  (&&) (N.leb lo b) (N.leb b hi)

(** val second3 : n -> n -> bool **)

let second3 b0 b1 =
  if N.eqb b0 (Npos (XO (XO (XO (XO (XO (XI (XI XH))))))))
  then in_rng (Npos (XO (XO (XO (XO (XO (XI (XO XH)))))))) (Npos (XI (XI (XI
         (XI (XI (XI (XO XH)))))))) b1
  else if N.eqb b0 (Npos (XI (XO (XI (XI (XO (XI (XI XH))))))))
       then in_rng (Npos (XO (XO (XO (XO (XO (XO (XO XH)))))))) (Npos (XI (XI
              (XI (XI (XI (XO (XO XH)))))))) b1
       else in_rng (Npos (XO (XO (XO (XO (XO (XO (XO XH)))))))) (Npos (XI (XI
              (XI (XI (XI (XI (XO XH)))))))) b1

(** val second4 : n -> n -> bool **)

let second4 b0 b1 =
  if N.eqb b0 (Npos (XO (XO (XO (XO (XI (XI (XI XH))))))))
  then in_rng (Npos (XO (XO (XO (XO (XI (XO (XO XH)))))))) (Npos (XI (XI (XI
         (XI (XI (XI (XO XH)))))))) b1
  else if N.eqb b0 (Npos (XO (XO (XI (XO (XI (XI (XI XH))))))))
       then in_rng (Npos (XO (XO (XO (XO (XO (XO (XO XH)))))))) (Npos (XI (XI
              (XI (XI (XO (XO (XO XH)))))))) b1
       else in_rng (Npos (XO (XO (XO (XO (XO (XO (XO XH)))))))) (Npos (XI (XI
              (XI (XI (XI (XI (XO XH)))))))) b1

(** val rEPL : n **)

let rEPL =
  Npos (XI (XO (XI (XI (XI (XI (XI (XI (XI (XI (XI (XI (XI (XI (XI
    XH)))))))))))))))

(** val utf8_lossy : n list -> n list **)

let rec utf8_lossy = function
| [] -> []
| b0 :: r0 ->
  if N.ltb b0 (Npos (XO (XO (XO (XO (XO (XO (XO XH))))))))
  then b0 :: (utf8_lossy r0)
  else if in_rng (Npos (XO (XI (XO (XO (XO (XO (XI XH)))))))) (Npos (XI (XI
            (XI (XI (XI (XO (XI XH)))))))) b0
       then (match r0 with
             | [] -> rEPL :: []
             | b1 :: r1 ->
               if cont b1
               then (N.add
                      (N.mul
                        (N.sub b0 (Npos (XO (XO (XO (XO (XO (XO (XI
                          XH))))))))) (Npos (XO (XO (XO (XO (XO (XO XH))))))))
                      (N.sub b1 (Npos (XO (XO (XO (XO (XO (XO (XO XH)))))))))) :: 
                      (utf8_lossy r1)
               else rEPL :: (utf8_lossy r0))
       else if in_rng (Npos (XO (XO (XO (XO (XO (XI (XI XH)))))))) (Npos (XI
                 (XI (XI (XI (XO (XI (XI XH)))))))) b0
            then (match r0 with
                  | [] -> rEPL :: []
                  | b1 :: r1 ->
                    if second3 b0 b1
                    then (match r1 with
                          | [] -> rEPL :: []
                          | b2 :: r2 ->
                            if cont b2
                            then (N.add
                                   (N.add
                                     (N.mul
                                       (N.sub b0 (Npos (XO (XO (XO (XO (XO
                                         (XI (XI XH))))))))) (Npos (XO (XO
                                       (XO (XO (XO (XO (XO (XO (XO (XO (XO
                                       (XO XH))))))))))))))
                                     (N.mul
                                       (N.sub b1 (Npos (XO (XO (XO (XO (XO
                                         (XO (XO XH))))))))) (Npos (XO (XO
                                       (XO (XO (XO (XO XH)))))))))
                                   (N.sub b2 (Npos (XO (XO (XO (XO (XO (XO
                                     (XO XH)))))))))) :: (utf8_lossy r2)
                            else rEPL :: (utf8_lossy r1))
                    else rEPL :: (utf8_lossy r0))
            else if in_rng (Npos (XO (XO (XO (XO (XI (XI (XI XH)))))))) (Npos
                      (XO (XO (XI (XO (XI (XI (XI XH)))))))) b0
                 then (match r0 with
                       | [] -> rEPL :: []
                       | b1 :: r1 ->
                         if second4 b0 b1
                         then (match r1 with
                               | [] -> rEPL :: []
                               | b2 :: r2 ->
                                 if cont b2
                                 then (match r2 with
                                       | [] -> rEPL :: []
                                       | b3 :: r3 ->
                                         if cont b3
                                         then (N.add
                                                (N.add
                                                  (N.add
                                                    (N.mul
                                                      (N.sub b0 (Npos (XO (XO
                                                        (XO (XO (XI (XI (XI
                                                        XH))))))))) (Npos (XO
                                                      (XO (XO (XO (XO (XO (XO
                                                      (XO (XO (XO (XO (XO (XO
                                                      (XO (XO (XO (XO (XO
                                                      XH))))))))))))))))))))
                                                    (N.mul
                                                      (N.sub b1 (Npos (XO (XO
                                                        (XO (XO (XO (XO (XO
                                                        XH))))))))) (Npos (XO
                                                      (XO (XO (XO (XO (XO (XO
                                                      (XO (XO (XO (XO (XO
                                                      XH)))))))))))))))
                                                  (N.mul
                                                    (N.sub b2 (Npos (XO (XO
                                                      (XO (XO (XO (XO (XO
                                                      XH))))))))) (Npos (XO
                                                    (XO (XO (XO (XO (XO
                                                    XH)))))))))
                                                (N.sub b3 (Npos (XO (XO (XO
                                                  (XO (XO (XO (XO XH)))))))))) :: 
                                                (utf8_lossy r3)
                                         else rEPL :: (utf8_lossy r2))
                                 else rEPL :: (utf8_lossy r1))
                         else rEPL :: (utf8_lossy r0))
                 else rEPL :: (utf8_lossy r0)

(** val lossy_line : n list -> n list **)

let lossy_line bytes =
  utf8_lossy (trim_newlines bytes)

(** val emit_hunk : outcome -> n -> n list -> hunk -> n list **)

let emit_hunk o lnum title h =
  match h.um_start with
  | Some _ ->
    let us =
      match h.um_start with
      | Some u -> u
      | None -> (match h.ux_start with
                 | Some x -> x
                 | None -> N0)
    in
    let xs =
      match h.um_start with
      | Some u -> (match h.ux_start with
                   | Some x -> x
                   | None -> u)
      | None -> (match h.ux_start with
                 | Some x -> x
                 | None -> N0)
    in
    app
      (diff_header (N.add us lnum) (length h.um_lines) (N.add xs lnum)
        (length h.ux_lines) t_MALK title)
      (app
        (flat_map (fun l ->
          app ((Npos (XI (XO (XI (XI (XO XH)))))) :: [])
            (app (line_prefix o) (app l ((Npos (XO (XI (XO XH)))) :: []))))
          h.um_lines)
        (flat_map (fun l ->
          app ((Npos (XI (XI (XO (XI (XO XH)))))) :: [])
            (app (line_prefix o) (app l ((Npos (XO (XI (XO XH)))) :: []))))
          h.ux_lines))
  | None ->
    (match h.ux_start with
     | Some _ ->
       let us =
         match h.um_start with
         | Some u -> u
         | None -> (match h.ux_start with
                    | Some x -> x
                    | None -> N0)
       in
       let xs =
         match h.um_start with
         | Some u -> (match h.ux_start with
                      | Some x -> x
                      | None -> u)
         | None -> (match h.ux_start with
                    | Some x -> x
                    | None -> N0)
       in
       app
         (diff_header (N.add us lnum) (length h.um_lines) (N.add xs lnum)
           (length h.ux_lines) t_MALK title)
         (app
           (flat_map (fun l ->
             app ((Npos (XI (XO (XI (XI (XO XH)))))) :: [])
               (app (line_prefix o) (app l ((Npos (XO (XI (XO XH)))) :: []))))
             h.um_lines)
           (flat_map (fun l ->
             app ((Npos (XI (XI (XO (XI (XO XH)))))) :: [])
               (app (line_prefix o) (app l ((Npos (XO (XI (XO XH)))) :: []))))
             h.ux_lines))
     | None -> [])

(** val hunks_of : n -> hunk -> dline list -> hunk list **)

let rec hunks_of ei h = function
| [] -> h :: []
| d :: r ->
  (match d with
   | DMatched (idx, _, _, _) -> h :: (hunks_of idx hunk_empty r)
   | DUnmatched (idx, _, _, orig) ->
     hunks_of idx { um_start =
       (match h.um_start with
        | Some n0 -> Some n0
        | None -> Some idx); um_lines = (app h.um_lines (orig :: []));
       ux_start = h.ux_start; ux_lines = h.ux_lines } r
   | DUnexpected ls ->
     let h' = { um_start = h.um_start; um_lines = h.um_lines; ux_start =
       (match h.ux_start with
        | Some n0 -> Some n0
        | None -> Some ei); ux_lines =
       (app h.ux_lines (map (fun p -> lossy_line (snd p)) ls)) }
     in
     (match h'.um_start with
      | Some _ -> h' :: (hunks_of ei hunk_empty r)
      | None -> hunks_of ei h' r))

(** val unified : outcome -> n -> n list -> dline list -> n list **)

let unified o lnum title ds =
  flat_map (emit_hunk o lnum title) (hunks_of N0 hunk_empty ds)

(** val t_INTERNAL : n list **)

let t_INTERNAL =
  (Npos (XI (XI (XO (XO (XO XH)))))) :: ((Npos (XO (XO (XO (XO (XO
    XH)))))) :: ((Npos (XI (XO (XI (XI (XO XH)))))) :: ((Npos (XI (XO (XI (XI
    (XO XH)))))) :: ((Npos (XI (XO (XI (XI (XO XH)))))) :: ((Npos (XI (XO (XI
    (XI (XO XH)))))) :: ((Npos (XO (XO (XO (XO (XO XH)))))) :: ((Npos (XI (XO
    (XO (XI (XO (XO XH))))))) :: ((Npos (XO (XI (XI (XI (XO (XO
    XH))))))) :: ((Npos (XO (XO (XI (XO (XI (XO XH))))))) :: ((Npos (XI (XO
    (XI (XO (XO (XO XH))))))) :: ((Npos (XO (XI (XO (XO (XI (XO
    XH))))))) :: ((Npos (XO (XI (XI (XI (XO (XO XH))))))) :: ((Npos (XI (XO
    (XO (XO (XO (XO XH))))))) :: ((Npos (XO (XO (XI (XI (XO (XO
    XH))))))) :: ((Npos (XO (XO (XO (XO (XO XH)))))) :: ((Npos (XI (XO (XI
    (XO (XO (XO XH))))))) :: ((Npos (XO (XI (XO (XO (XI (XO
    XH))))))) :: ((Npos (XO (XI (XO (XO (XI (XO XH))))))) :: ((Npos (XI (XI
    (XI (XI (XO (XO XH))))))) :: ((Npos (XO (XI (XO (XO (XI (XO
    XH))))))) :: ((Npos (XO (XO (XO (XO (XO XH)))))) :: ((Npos (XI (XO (XI
    (XI (XO XH)))))) :: ((Npos (XI (XO (XI (XI (XO XH)))))) :: ((Npos (XI (XO
    (XI (XI (XO XH)))))) :: ((Npos (XI (XO (XI (XI (XO XH)))))) :: ((Npos (XO
    (XI (XO XH)))) :: []))))))))))))))))))))))))))

(** val t_PATH : n list **)

let t_PATH =
  (Npos (XI (XI (XO (XO (XO XH)))))) :: ((Npos (XO (XO (XO (XO (XO
    XH)))))) :: ((Npos (XO (XO (XO (XO (XI (XO XH))))))) :: ((Npos (XI (XO
    (XO (XO (XO (XO XH))))))) :: ((Npos (XO (XO (XI (XO (XI (XO
    XH))))))) :: ((Npos (XO (XO (XO (XI (XO (XO XH))))))) :: ((Npos (XO (XI
    (XO (XI (XI XH)))))) :: ((Npos (XO (XO (XO (XO (XO XH)))))) :: ((Npos (XO
    (XO (XO (XO (XO XH)))))) :: []))))))))

(** val t_TITLE : n list **)

let t_TITLE =
  (Npos (XI (XI (XO (XO (XO XH)))))) :: ((Npos (XO (XO (XO (XO (XO
    XH)))))) :: ((Npos (XO (XO (XI (XO (XI (XO XH))))))) :: ((Npos (XI (XO
    (XO (XI (XO (XO XH))))))) :: ((Npos (XO (XO (XI (XO (XI (XO
    XH))))))) :: ((Npos (XO (XO (XI (XI (XO (XO XH))))))) :: ((Npos (XI (XO
    (XI (XO (XO (XO XH))))))) :: ((Npos (XO (XI (XO (XI (XI
    XH)))))) :: ((Npos (XO (XO (XO (XO (XO XH)))))) :: []))))))))

(** val t_ERRORL : n list **)

let t_ERRORL =
  (Npos (XI (XI (XO (XO (XO XH)))))) :: ((Npos (XO (XO (XO (XO (XO
    XH)))))) :: ((Npos (XI (XO (XI (XO (XO (XO XH))))))) :: ((Npos (XO (XI
    (XO (XO (XI (XO XH))))))) :: ((Npos (XO (XI (XO (XO (XI (XO
    XH))))))) :: ((Npos (XI (XI (XI (XI (XO (XO XH))))))) :: ((Npos (XO (XI
    (XO (XO (XI (XO XH))))))) :: ((Npos (XO (XI (XO (XI (XI
    XH)))))) :: ((Npos (XO (XO (XO (XO (XO XH)))))) :: []))))))))

(** val diff_error : outcome -> n list **)

let diff_error o =
  match o.o_res with
  | OMalformed (_, d) ->
    unified o (N.add o.o_line (shell_expression_lines o))
      (join_multiline o.o_title) d
  | OExit (actual, _) ->
    let ln = N.add (N.add o.o_line (shell_expression_lines o)) o.o_nexps in
    app
      (diff_header ln (match o.o_exit with
                       | Some _ -> S O
                       | None -> O) ln (S O) t_EXITK
        (join_multiline o.o_title))
      (app
        (match o.o_exit with
         | Some c ->
           app ((Npos (XI (XO (XI (XI (XO XH)))))) :: [])
             (app (line_prefix o)
               (app ((Npos (XI (XI (XO (XI (XI (XO XH))))))) :: [])
                 (app (decz c) ((Npos (XI (XO (XI (XI (XI (XO
                   XH))))))) :: ((Npos (XO (XI (XO XH)))) :: [])))))
         | None -> [])
        (app ((Npos (XI (XI (XO (XI (XO XH)))))) :: [])
          (app (line_prefix o)
            (app ((Npos (XI (XI (XO (XI (XI (XO XH))))))) :: [])
              (app (decz actual) ((Npos (XI (XO (XI (XI (XI (XO
                XH))))))) :: ((Npos (XO (XI (XO XH)))) :: [])))))))
  | OInternal msg ->
    app t_INTERNAL
      (app
        (match o.o_location with
         | Some l -> app t_PATH (app l ((Npos (XO (XI (XO XH)))) :: []))
         | None -> [])
        (app t_TITLE
          (app (join_multiline o.o_title)
            (app ((Npos (XO (XI (XO XH)))) :: [])
              (app
                (flat_map (fun l ->
                  app t_ERRORL (app l ((Npos (XO (XI (XO XH)))) :: [])))
                  (str_lines msg)) t_INTERNAL)))))
  | _ -> []

(** val opt_text_eqb : n list option -> n list option -> bool **)

let opt_text_eqb a b =
  match a with
  | Some x -> (match b with
               | Some y -> text_eqb x y
               | None -> false)
  | None -> (match b with
             | Some _ -> false
             | None -> true)

(** val t_NEW : n list **)

let t_NEW =
  (Npos (XO (XI (XI (XI (XO XH)))))) :: ((Npos (XO (XI (XI (XI (XO (XI
    XH))))))) :: ((Npos (XI (XO (XI (XO (XO (XI XH))))))) :: ((Npos (XI (XI
    (XI (XO (XI (XI XH))))))) :: [])))

(** val diff_body : n list option -> outcome list -> n list **)

let rec diff_body last = function
| [] -> []
| o :: r ->
  if res_success o.o_res
  then diff_body last r
  else let changed = negb (opt_text_eqb o.o_location last) in
       let hdr =
         if changed
         then (match o.o_location with
               | Some l ->
                 app
                   (match last with
                    | Some _ -> (Npos (XO (XI (XO XH)))) :: []
                    | None -> [])
                   (app ((Npos (XI (XO (XI (XI (XO XH)))))) :: ((Npos (XI (XO
                     (XI (XI (XO XH)))))) :: ((Npos (XI (XO (XI (XI (XO
                     XH)))))) :: ((Npos (XO (XO (XO (XO (XO
                     XH)))))) :: []))))
                     (app l
                       (app ((Npos (XO (XI (XO XH)))) :: [])
                         (app ((Npos (XI (XI (XO (XI (XO XH)))))) :: ((Npos
                           (XI (XI (XO (XI (XO XH)))))) :: ((Npos (XI (XI (XO
                           (XI (XO XH)))))) :: ((Npos (XO (XO (XO (XO (XO
                           XH)))))) :: []))))
                           (app l
                             (app t_NEW ((Npos (XO (XI (XO XH)))) :: [])))))))
               | None -> [])
         else []
       in
       let last' =
         if changed
         then (match o.o_location with
               | Some l -> Some l
               | None -> last)
         else last
       in
       app hdr (app (diff_error o) (diff_body last' r))

(** val render_diff : outcome list -> rr **)

let render_diff os =
  let n0 = length (locations os) in
  if (&&) (Nat.ltb O n0) (negb (Nat.eqb n0 (length os)))
  then RendErr
  else RendOk (diff_body None (if Nat.ltb O n0 then stable_sort os else os))

(** val k_SUCCESS : n list **)

let k_SUCCESS =
  (Npos (XI (XI (XO (XO (XI (XI XH))))))) :: ((Npos (XI (XO (XI (XO (XI (XI
    XH))))))) :: ((Npos (XI (XI (XO (XO (XO (XI XH))))))) :: ((Npos (XI (XI
    (XO (XO (XO (XI XH))))))) :: ((Npos (XI (XO (XI (XO (XO (XI
    XH))))))) :: ((Npos (XI (XI (XO (XO (XI (XI XH))))))) :: ((Npos (XI (XI
    (XO (XO (XI (XI XH))))))) :: []))))))

(** val k_MALFORMED : n list **)

let k_MALFORMED =
  (Npos (XI (XO (XI (XI (XO (XI XH))))))) :: ((Npos (XI (XO (XO (XO (XO (XI
    XH))))))) :: ((Npos (XO (XO (XI (XI (XO (XI XH))))))) :: ((Npos (XO (XI
    (XI (XO (XO (XI XH))))))) :: ((Npos (XI (XI (XI (XI (XO (XI
    XH))))))) :: ((Npos (XO (XI (XO (XO (XI (XI XH))))))) :: ((Npos (XI (XO
    (XI (XI (XO (XI XH))))))) :: ((Npos (XI (XO (XI (XO (XO (XI
    XH))))))) :: ((Npos (XO (XO (XI (XO (XO (XI XH))))))) :: ((Npos (XI (XI
    (XI (XI (XI (XO XH))))))) :: ((Npos (XI (XI (XI (XI (XO (XI
    XH))))))) :: ((Npos (XI (XO (XI (XO (XI (XI XH))))))) :: ((Npos (XO (XO
    (XI (XO (XI (XI XH))))))) :: ((Npos (XO (XO (XO (XO (XI (XI
    XH))))))) :: ((Npos (XI (XO (XI (XO (XI (XI XH))))))) :: ((Npos (XO (XO
    (XI (XO (XI (XI XH))))))) :: [])))))))))))))))

(** val k_EXIT : n list **)

let k_EXIT =
  (Npos (XI (XO (XO (XI (XO (XI XH))))))) :: ((Npos (XO (XI (XI (XI (XO (XI
    XH))))))) :: ((Npos (XO (XI (XI (XO (XI (XI XH))))))) :: ((Npos (XI (XO
    (XO (XO (XO (XI XH))))))) :: ((Npos (XO (XO (XI (XI (XO (XI
    XH))))))) :: ((Npos (XI (XO (XO (XI (XO (XI XH))))))) :: ((Npos (XO (XO
    (XI (XO (XO (XI XH))))))) :: ((Npos (XI (XI (XI (XI (XI (XO
    XH))))))) :: ((Npos (XI (XO (XI (XO (XO (XI XH))))))) :: ((Npos (XO (XO
    (XO (XI (XI (XI XH))))))) :: ((Npos (XI (XO (XO (XI (XO (XI
    XH))))))) :: ((Npos (XO (XO (XI (XO (XI (XI XH))))))) :: ((Npos (XI (XI
    (XI (XI (XI (XO XH))))))) :: ((Npos (XI (XI (XO (XO (XO (XI
    XH))))))) :: ((Npos (XI (XI (XI (XI (XO (XI XH))))))) :: ((Npos (XO (XO
    (XI (XO (XO (XI XH))))))) :: ((Npos (XI (XO (XI (XO (XO (XI
    XH))))))) :: []))))))))))))))))

(** val k_INTERNAL : n list **)

let k_INTERNAL =
  (Npos (XI (XO (XO (XI (XO (XI XH))))))) :: ((Npos (XO (XI (XI (XI (XO (XI
    XH))))))) :: ((Npos (XO (XO (XI (XO (XI (XI XH))))))) :: ((Npos (XI (XO
    (XI (XO (XO (XI XH))))))) :: ((Npos (XO (XI (XO (XO (XI (XI
    XH))))))) :: ((Npos (XO (XI (XI (XI (XO (XI XH))))))) :: ((Npos (XI (XO
    (XO (XO (XO (XI XH))))))) :: ((Npos (XO (XO (XI (XI (XO (XI
    XH))))))) :: ((Npos (XI (XI (XI (XI (XI (XO XH))))))) :: ((Npos (XI (XO
    (XI (XO (XO (XI XH))))))) :: ((Npos (XO (XI (XO (XO (XI (XI
    XH))))))) :: ((Npos (XO (XI (XO (XO (XI (XI XH))))))) :: ((Npos (XI (XI
    (XI (XI (XO (XI XH))))))) :: ((Npos (XO (XI (XO (XO (XI (XI
    XH))))))) :: [])))))))))))))

(** val k_TIMEOUT : n list **)

let k_TIMEOUT =
  (Npos (XO (XO (XI (XO (XI (XI XH))))))) :: ((Npos (XI (XO (XO (XI (XO (XI
    XH))))))) :: ((Npos (XI (XO (XI (XI (XO (XI XH))))))) :: ((Npos (XI (XO
    (XI (XO (XO (XI XH))))))) :: ((Npos (XI (XI (XI (XI (XO (XI
    XH))))))) :: ((Npos (XI (XO (XI (XO (XI (XI XH))))))) :: ((Npos (XO (XO
    (XI (XO (XI (XI XH))))))) :: []))))))

(** val k_SKIPPED : n list **)

let k_SKIPPED =
  (Npos (XI (XI (XO (XO (XI (XI XH))))))) :: ((Npos (XI (XI (XO (XI (XO (XI
    XH))))))) :: ((Npos (XI (XO (XO (XI (XO (XI XH))))))) :: ((Npos (XO (XO
    (XO (XO (XI (XI XH))))))) :: ((Npos (XO (XO (XO (XO (XI (XI
    XH))))))) :: ((Npos (XI (XO (XI (XO (XO (XI XH))))))) :: ((Npos (XO (XO
    (XI (XO (XO (XI XH))))))) :: []))))))

(** val kind_of : result -> n list **)

let kind_of = function
| OSuccess -> k_SUCCESS
| OMalformed (_, _) -> k_MALFORMED
| OExit (_, _) -> k_EXIT
| OInternal _ -> k_INTERNAL
| OTimeout -> k_TIMEOUT
| OSkipped -> k_SKIPPED

(** val dkind : dline -> n **)

let dkind = function
| DMatched (_, _, _, _) -> N0
| DUnmatched (_, _, _, _) -> Npos XH
| DUnexpected _ -> Npos (XO XH)

type sentry = { se_location : n list option; se_kind : n list;
                se_diff : n list }

(** val structured : outcome list -> sentry list **)

let structured os =
  map (fun o -> { se_location = o.o_location; se_kind = (kind_of o.o_res);
    se_diff =
    (match o.o_res with
     | OMalformed (_, d) -> map dkind d
     | _ -> []) }) os

(** val dline_ok : n -> n -> dline -> bool **)

let dline_ok nexps count_lines = function
| DMatched (idx, mul1, _, first) ->
  (&&) (N.ltb idx nexps)
    (match first with
     | Some f -> N.ltb f count_lines
     | None -> mul1)
| DUnmatched (idx, _, _, _) -> N.ltb idx nexps
| DUnexpected ls -> forallb (fun p -> N.ltb (fst p) count_lines) ls

(** val result_ok : outcome -> bool **)

let result_ok o =
  match o.o_res with
  | OMalformed (n0, d) -> forallb (dline_ok o.o_nexps n0) d
  | _ -> true

(** val env_always : (n list * n list option) list **)

let env_always =
  (((Npos (XO (XO (XI (XO (XI (XO XH))))))) :: ((Npos (XI (XO (XI (XO (XO (XO
    XH))))))) :: ((Npos (XI (XI (XO (XO (XI (XO XH))))))) :: ((Npos (XO (XO
    (XI (XO (XI (XO XH))))))) :: ((Npos (XO (XO (XI (XO (XO (XO
    XH))))))) :: ((Npos (XI (XO (XO (XI (XO (XO XH))))))) :: ((Npos (XO (XI
    (XO (XO (XI (XO XH))))))) :: []))))))), None) :: ((((Npos (XO (XO (XI (XO
    (XI (XO XH))))))) :: ((Npos (XI (XO (XI (XO (XO (XO XH))))))) :: ((Npos
    (XI (XI (XO (XO (XI (XO XH))))))) :: ((Npos (XO (XO (XI (XO (XI (XO
    XH))))))) :: ((Npos (XO (XI (XI (XO (XO (XO XH))))))) :: ((Npos (XI (XO
    (XO (XI (XO (XO XH))))))) :: ((Npos (XO (XO (XI (XI (XO (XO
    XH))))))) :: ((Npos (XI (XO (XI (XO (XO (XO XH))))))) :: [])))))))),
    None) :: ((((Npos (XO (XO (XI (XO (XI (XO XH))))))) :: ((Npos (XI (XO (XI
    (XI (XO (XO XH))))))) :: ((Npos (XO (XO (XO (XO (XI (XO
    XH))))))) :: ((Npos (XO (XO (XI (XO (XO (XO XH))))))) :: ((Npos (XI (XO
    (XO (XI (XO (XO XH))))))) :: ((Npos (XO (XI (XO (XO (XI (XO
    XH))))))) :: [])))))), None) :: ((((Npos (XO (XO (XI (XO (XI (XO
    XH))))))) :: ((Npos (XI (XO (XI (XO (XO (XO XH))))))) :: ((Npos (XI (XI
    (XO (XO (XI (XO XH))))))) :: ((Npos (XO (XO (XI (XO (XI (XO
    XH))))))) :: ((Npos (XI (XI (XO (XO (XI (XO XH))))))) :: ((Npos (XO (XO
    (XO (XI (XO (XO XH))))))) :: ((Npos (XI (XO (XI (XO (XO (XO
    XH))))))) :: ((Npos (XO (XO (XI (XI (XO (XO XH))))))) :: ((Npos (XO (XO
    (XI (XI (XO (XO XH))))))) :: []))))))))), None) :: ((((Npos (XO (XO (XI
    (XI (XO (XO XH))))))) :: ((Npos (XI (XO (XO (XO (XO (XO
    XH))))))) :: ((Npos (XO (XI (XI (XI (XO (XO XH))))))) :: ((Npos (XI (XI
    (XI (XO (XO (XO XH))))))) :: [])))), (Some ((Npos (XI (XI (XO (XO (XO (XO
    XH))))))) :: []))) :: ((((Npos (XO (XO (XI (XI (XO (XO
    XH))))))) :: ((Npos (XI (XO (XO (XO (XO (XO XH))))))) :: ((Npos (XO (XI
    (XI (XI (XO (XO XH))))))) :: ((Npos (XI (XI (XI (XO (XO (XO
    XH))))))) :: ((Npos (XI (XO (XI (XO (XI (XO XH))))))) :: ((Npos (XI (XO
    (XO (XO (XO (XO XH))))))) :: ((Npos (XI (XI (XI (XO (XO (XO
    XH))))))) :: ((Npos (XI (XO (XI (XO (XO (XO XH))))))) :: [])))))))),
    (Some ((Npos (XI (XI (XO (XO (XO (XO XH))))))) :: []))) :: ((((Npos (XO
    (XO (XI (XI (XO (XO XH))))))) :: ((Npos (XI (XI (XO (XO (XO (XO
    XH))))))) :: ((Npos (XI (XI (XI (XI (XI (XO XH))))))) :: ((Npos (XI (XO
    (XO (XO (XO (XO XH))))))) :: ((Npos (XO (XO (XI (XI (XO (XO
    XH))))))) :: ((Npos (XO (XO (XI (XI (XO (XO XH))))))) :: [])))))), (Some
    ((Npos (XI (XI (XO (XO (XO (XO XH))))))) :: []))) :: ((((Npos (XO (XO (XI
    (XO (XI (XO XH))))))) :: ((Npos (XO (XI (XO (XI (XI (XO
    XH))))))) :: [])), (Some ((Npos (XI (XI (XI (XO (XO (XO
    XH))))))) :: ((Npos (XI (XO (XI (XI (XO (XO XH))))))) :: ((Npos (XO (XO
    (XI (XO (XI (XO XH))))))) :: []))))) :: ((((Npos (XI (XI (XO (XO (XO (XO
    XH))))))) :: ((Npos (XI (XI (XI (XI (XO (XO XH))))))) :: ((Npos (XO (XO
    (XI (XI (XO (XO XH))))))) :: ((Npos (XI (XO (XI (XO (XI (XO
    XH))))))) :: ((Npos (XI (XO (XI (XI (XO (XO XH))))))) :: ((Npos (XO (XI
    (XI (XI (XO (XO XH))))))) :: ((Npos (XI (XI (XO (XO (XI (XO
    XH))))))) :: []))))))), (Some ((Npos (XO (XO (XO (XI (XI
    XH)))))) :: ((Npos (XO (XO (XO (XO (XI XH)))))) :: [])))) :: ((((Npos (XI
    (XI (XO (XO (XO (XO XH))))))) :: ((Npos (XO (XO (XI (XO (XO (XO
    XH))))))) :: ((Npos (XO (XO (XO (XO (XI (XO XH))))))) :: ((Npos (XI (XO
    (XO (XO (XO (XO XH))))))) :: ((Npos (XO (XO (XI (XO (XI (XO
    XH))))))) :: ((Npos (XO (XO (XO (XI (XO (XO XH))))))) :: [])))))), (Some
    [])) :: ((((Npos (XI (XI (XI (XO (XO (XO XH))))))) :: ((Npos (XO (XI (XO
    (XO (XI (XO XH))))))) :: ((Npos (XI (XO (XI (XO (XO (XO
    XH))))))) :: ((Npos (XO (XO (XO (XO (XI (XO XH))))))) :: ((Npos (XI (XI
    (XI (XI (XI (XO XH))))))) :: ((Npos (XI (XI (XI (XI (XO (XO
    XH))))))) :: ((Npos (XO (XO (XO (XO (XI (XO XH))))))) :: ((Npos (XO (XO
    (XI (XO (XI (XO XH))))))) :: ((Npos (XI (XO (XO (XI (XO (XO
    XH))))))) :: ((Npos (XI (XI (XI (XI (XO (XO XH))))))) :: ((Npos (XO (XI
    (XI (XI (XO (XO XH))))))) :: ((Npos (XI (XI (XO (XO (XI (XO
    XH))))))) :: [])))))))))))), (Some [])) :: []))))))))))

(** val env_cram_compat : (n list * n list option) list **)

let env_cram_compat =
  (((Npos (XI (XI (XO (XO (XO (XO XH))))))) :: ((Npos (XO (XI (XO (XO (XI (XO
    XH))))))) :: ((Npos (XI (XO (XO (XO (XO (XO XH))))))) :: ((Npos (XI (XO
    (XI (XI (XO (XO XH))))))) :: ((Npos (XO (XO (XI (XO (XI (XO
    XH))))))) :: ((Npos (XI (XO (XI (XI (XO (XO XH))))))) :: ((Npos (XO (XO
    (XO (XO (XI (XO XH))))))) :: []))))))), None) :: ((((Npos (XO (XO (XI (XO
    (XI (XO XH))))))) :: ((Npos (XI (XO (XI (XI (XO (XO XH))))))) :: ((Npos
    (XO (XO (XO (XO (XI (XO XH))))))) :: []))), None) :: ((((Npos (XO (XO (XI
    (XO (XI (XO XH))))))) :: ((Npos (XI (XO (XI (XO (XO (XO
    XH))))))) :: ((Npos (XI (XO (XI (XI (XO (XO XH))))))) :: ((Npos (XO (XO
    (XO (XO (XI (XO XH))))))) :: [])))), None) :: []))

(** val mem : n list -> n list list -> bool **)

let rec mem x = function
| [] -> false
| y :: r -> (||) (text_eqb x y) (mem x r)

(** val candidate : n list -> nat -> n list **)

let candidate name k = match k with
| O -> name
| S _ ->
  app name (app ((Npos (XI (XO (XI (XI (XO XH)))))) :: []) (dec (N.of_nat k)))

(** val search :
    nat -> n list list -> n list list -> n list -> nat -> n list option **)

let rec search fuel names exists_ name k =
  match fuel with
  | O -> None
  | S f ->
    let c = candidate name k in
    if (||) (mem c names) (mem c exists_)
    then search f names exists_ name (S k)
    else Some c

(** val next_name :
    n list list -> n list list -> n list -> (n list * n list list) option **)

let next_name names exists_ name =
  match search (S (S (add (length names) (length exists_)))) names exists_
          name O with
  | Some c -> Some (c, (c :: names))
  | None -> None

(** val next_names :
    n list list -> n list list -> n list list -> n list list option **)

let rec next_names names exists_ = function
| [] -> Some []
| r :: rest ->
  (match next_name names exists_ r with
   | Some p ->
     let (c, names') = p in
     option_map (fun x -> c :: x) (next_names names' exists_ rest)
   | None -> None)

type flag =
| FDefault
| FWork
| FKeep

type dclass =
| DRun
| DBadInclude
| DExecError

type seg =
| SExec of nat
| STemp of nat
| SState of nat
| STmpSub
| SDoc of n list
| SFile of nat
| SGiven

type path = seg list

(** val seg_eqb : seg -> seg -> bool **)

let seg_eqb a b =
  match a with
  | SExec i -> (match b with
                | SExec j -> Nat.eqb i j
                | _ -> false)
  | STemp i -> (match b with
                | STemp j -> Nat.eqb i j
                | _ -> false)
  | SState i -> (match b with
                 | SState j -> Nat.eqb i j
                 | _ -> false)
  | STmpSub -> (match b with
                | STmpSub -> true
                | _ -> false)
  | SDoc x -> (match b with
               | SDoc y -> text_eqb x y
               | _ -> false)
  | SFile i -> (match b with
                | SFile j -> Nat.eqb i j
                | _ -> false)
  | SGiven -> (match b with
               | SGiven -> true
               | _ -> false)

(** val is_prefix : path -> path -> bool **)

let rec is_prefix p q =
  match p with
  | [] -> true
  | a :: p' ->
    (match q with
     | [] -> false
     | b :: q' -> (&&) (seg_eqb a b) (is_prefix p' q'))

type fs = path list

(** val create : path -> fs -> fs **)

let create p s =
  p :: s

(** val remove_tree : path -> fs -> fs **)

let remove_tree p s =
  filter (fun q -> negb (is_prefix p q)) s

(** val env_create : flag -> nat -> fs -> fs **)

let env_create f i s =
  match f with
  | FDefault ->
    create ((SExec i) :: (STmpSub :: [])) (create ((SExec i) :: []) s)
  | FWork -> create (SGiven :: ((STemp i) :: [])) s
  | FKeep -> create ((STemp i) :: []) (create ((SExec i) :: []) s)

(** val env_drop : flag -> nat -> fs -> fs **)

let env_drop f i s =
  match f with
  | FDefault -> remove_tree ((SExec i) :: []) s
  | FWork -> remove_tree (SGiven :: ((STemp i) :: [])) s
  | FKeep -> s

(** val work_dir : flag -> nat -> n list -> path **)

let work_dir f i name =
  match f with
  | FWork -> SGiven :: []
  | _ -> (SExec i) :: ((SDoc name) :: [])

(** val tmp_dir : flag -> nat -> path **)

let tmp_dir f i =
  match f with
  | FDefault -> (SExec i) :: (STmpSub :: [])
  | FWork -> SGiven :: ((STemp i) :: [])
  | FKeep -> (STemp i) :: []

type doc = { d_name : n list; d_class : dclass; d_work_files : nat list;
             d_tmp_files : nat list }

(** val dir_run_doc : flag -> nat -> doc -> fs -> fs * bool **)

let dir_run_doc f i d s =
  let s1 = env_create f i s in
  (match d.d_class with
   | DRun ->
     let wd = work_dir f i d.d_name in
     let s2 = match f with
              | FWork -> s1
              | _ -> create wd s1 in
     let s3 = create (app (tmp_dir f i) ((SState i) :: [])) s2 in
     let s4 =
       fold_right (fun id acc -> create (app wd ((SFile id) :: [])) acc) s3
         d.d_work_files
     in
     let s5 =
       fold_right (fun id acc ->
         create (app (tmp_dir f i) ((SFile id) :: [])) acc) s4 d.d_tmp_files
     in
     let s6 = remove_tree (app (tmp_dir f i) ((SState i) :: [])) s5 in
     ((env_drop f i s6), true)
   | DBadInclude -> ((env_drop f i s1), false)
   | DExecError ->
     let wd = work_dir f i d.d_name in
     let s2 = match f with
              | FWork -> s1
              | _ -> create wd s1 in
     let s3 = create (app (tmp_dir f i) ((SState i) :: [])) s2 in
     let s4 =
       fold_right (fun id acc -> create (app wd ((SFile id) :: [])) acc) s3
         d.d_work_files
     in
     let s5 =
       fold_right (fun id acc ->
         create (app (tmp_dir f i) ((SFile id) :: [])) acc) s4 d.d_tmp_files
     in
     let s6 = remove_tree (app (tmp_dir f i) ((SState i) :: [])) s5 in
     ((env_drop f i s6), false))

(** val dir_run_docs : flag -> nat -> doc list -> fs -> fs **)

let rec dir_run_docs f i ds s =
  match ds with
  | [] -> s
  | d :: r ->
    let (s', go0) = dir_run_doc f i d s in
    if go0 then dir_run_docs f (S i) r s' else s'

(** val dir_processed : doc list -> nat **)

let rec dir_processed = function
| [] -> O
| d :: r -> (match d.d_class with
             | DRun -> S (dir_processed r)
             | _ -> S O)

(** val scrut_test_value : n list -> n -> n list **)

let scrut_test_value file line =
  app file (app ((Npos (XO (XI (XO (XI (XI XH)))))) :: []) (dec line))

type 'a assoc = (n list * 'a) list

(** val lookup0 : n list -> 'a1 assoc -> 'a1 option **)

let rec lookup0 n0 = function
| [] -> None
| p :: r -> let (k, v) = p in if text_eqb n0 k then Some v else lookup0 n0 r

(** val name_mem : n list -> n list list -> bool **)

let rec name_mem n0 = function
| [] -> false
| x :: r -> (||) (text_eqb n0 x) (name_mem n0 r)

(** val excluded : n list -> bool **)

let excluded n0 =
  name_mem n0 excluded_names

(** val persisted_names : n list list -> n list list -> n list list **)

let persisted_names all readonly_ =
  filter (fun n0 -> (&&) (negb (name_mem n0 readonly_)) (negb (excluded n0)))
    all

(** val pREFIX : n list **)

let pREFIX =
  (Npos (XO (XI (XI (XI (XI (XI XH))))))) :: ((Npos (XO (XI (XI (XI (XI (XI
    XH))))))) :: ((Npos (XO (XI (XI (XI (XI (XI XH))))))) :: ((Npos (XO (XI
    (XI (XI (XI (XI XH))))))) :: ((Npos (XO (XI (XI (XI (XI (XI
    XH))))))) :: ((Npos (XO (XI (XI (XI (XI (XI XH))))))) :: ((Npos (XO (XI
    (XI (XI (XI (XI XH))))))) :: ((Npos (XO (XI (XI (XI (XI (XI
    XH))))))) :: ((Npos (XI (XO (XI (XO (XO (XO XH))))))) :: ((Npos (XO (XO
    (XO (XI (XI (XO XH))))))) :: ((Npos (XI (XO (XI (XO (XO (XO
    XH))))))) :: ((Npos (XI (XI (XO (XO (XO (XO XH))))))) :: ((Npos (XO (XO
    (XI (XO (XO (XO XH))))))) :: ((Npos (XI (XO (XO (XI (XO (XO
    XH))))))) :: ((Npos (XO (XI (XI (XO (XI (XO XH))))))) :: ((Npos (XI (XO
    (XO (XI (XO (XO XH))))))) :: ((Npos (XO (XO (XI (XO (XO (XO
    XH))))))) :: ((Npos (XI (XO (XI (XO (XO (XO XH))))))) :: ((Npos (XO (XI
    (XO (XO (XI (XO XH))))))) :: ((Npos (XO (XI (XO (XI (XI
    XH)))))) :: ((Npos (XO (XI (XO (XI (XI XH)))))) :: []))))))))))))))))))))

(** val cOLONS : n list **)

let cOLONS =
  (Npos (XO (XI (XO (XI (XI XH)))))) :: ((Npos (XO (XI (XO (XI (XI
    XH)))))) :: [])

(** val starts : n list -> n list -> bool **)

let rec starts p l =
  match p with
  | [] -> true
  | a :: p' ->
    (match l with
     | [] -> false
     | b :: l' -> (&&) (N.eqb a b) (starts p' l'))

(** val find_sub : n list -> n list -> nat option **)

let rec find_sub p l =
  if starts p l
  then Some O
  else (match l with
        | [] -> None
        | _ :: r -> option_map (fun x -> S x) (find_sub p r))

(** val strip_nl_rev : n list -> n list **)

let rec strip_nl_rev r = match r with
| [] -> r
| n0 :: t ->
  (match n0 with
   | N0 -> r
   | Npos p ->
     (match p with
      | XO p0 ->
        (match p0 with
         | XI p1 ->
           (match p1 with
            | XO p2 -> (match p2 with
                        | XH -> strip_nl_rev t
                        | _ -> r)
            | _ -> r)
         | _ -> r)
      | _ -> r))

(** val trim_nl : n list -> n list **)

let trim_nl l =
  rev (strip_nl_rev (rev l))

(** val is_digit0 : n -> bool **)

let is_digit0 c =
  (&&) (N.leb (Npos (XO (XO (XO (XO (XI XH)))))) c)
    (N.leb c (Npos (XI (XO (XO (XI (XI XH)))))))

(** val value : n list -> n **)

let value t =
  fold_left (fun a c ->
    N.add (N.mul a (Npos (XO (XI (XO XH)))))
      (N.sub c (Npos (XO (XO (XO (XO (XI XH)))))))) t N0

(** val all_digits : n list -> bool **)

let all_digits t = match t with
| [] -> false
| _ :: _ -> forallb is_digit0 t

(** val parse_usize : n list -> n option **)

let parse_usize t =
  let d =
    match t with
    | [] -> t
    | n0 :: r ->
      (match n0 with
       | N0 -> t
       | Npos p ->
         (match p with
          | XI p0 ->
            (match p0 with
             | XI p1 ->
               (match p1 with
                | XO p2 ->
                  (match p2 with
                   | XI p3 ->
                     (match p3 with
                      | XO p4 -> (match p4 with
                                  | XH -> r
                                  | _ -> t)
                      | _ -> t)
                   | _ -> t)
                | _ -> t)
             | _ -> t)
          | _ -> t))
  in
  if (&&) (all_digits d)
       (N.ltb (value d) (Npos (XO (XO (XO (XO (XO (XO (XO (XO (XO (XO (XO (XO
         (XO (XO (XO (XO (XO (XO (XO (XO (XO (XO (XO (XO (XO (XO (XO (XO (XO
         (XO (XO (XO (XO (XO (XO (XO (XO (XO (XO (XO (XO (XO (XO (XO (XO (XO
         (XO (XO (XO (XO (XO (XO (XO (XO (XO (XO (XO (XO (XO (XO (XO (XO (XO
         (XO
         XH))))))))))))))))))))))))))))))))))))))))))))))))))))))))))))))))))
  then Some (value d)
  else None

(** val parse_i32 : n list -> z option **)

let parse_i32 t = match t with
| [] ->
  if (&&) (all_digits t)
       (N.ltb (value t) (Npos (XO (XO (XO (XO (XO (XO (XO (XO (XO (XO (XO (XO
         (XO (XO (XO (XO (XO (XO (XO (XO (XO (XO (XO (XO (XO (XO (XO (XO (XO
         (XO (XO XH)))))))))))))))))))))))))))))))))
  then Some (Z.of_N (value t))
  else None
| n0 :: r ->
  (match n0 with
   | N0 ->
     if (&&) (all_digits t)
          (N.ltb (value t) (Npos (XO (XO (XO (XO (XO (XO (XO (XO (XO (XO (XO
            (XO (XO (XO (XO (XO (XO (XO (XO (XO (XO (XO (XO (XO (XO (XO (XO
            (XO (XO (XO (XO XH)))))))))))))))))))))))))))))))))
     then Some (Z.of_N (value t))
     else None
   | Npos p ->
     (match p with
      | XI p0 ->
        (match p0 with
         | XI p1 ->
           (match p1 with
            | XO p2 ->
              (match p2 with
               | XI p3 ->
                 (match p3 with
                  | XO p4 ->
                    (match p4 with
                     | XH ->
                       if (&&) (all_digits r)
                            (N.ltb (value r) (Npos (XO (XO (XO (XO (XO (XO
                              (XO (XO (XO (XO (XO (XO (XO (XO (XO (XO (XO (XO
                              (XO (XO (XO (XO (XO (XO (XO (XO (XO (XO (XO (XO
                              (XO XH)))))))))))))))))))))))))))))))))
                       then Some (Z.of_N (value r))
                       else None
                     | _ ->
                       if (&&) (all_digits t)
                            (N.ltb (value t) (Npos (XO (XO (XO (XO (XO (XO
                              (XO (XO (XO (XO (XO (XO (XO (XO (XO (XO (XO (XO
                              (XO (XO (XO (XO (XO (XO (XO (XO (XO (XO (XO (XO
                              (XO XH)))))))))))))))))))))))))))))))))
                       then Some (Z.of_N (value t))
                       else None)
                  | _ ->
                    if (&&) (all_digits t)
                         (N.ltb (value t) (Npos (XO (XO (XO (XO (XO (XO (XO
                           (XO (XO (XO (XO (XO (XO (XO (XO (XO (XO (XO (XO
                           (XO (XO (XO (XO (XO (XO (XO (XO (XO (XO (XO (XO
                           XH)))))))))))))))))))))))))))))))))
                    then Some (Z.of_N (value t))
                    else None)
               | _ ->
                 if (&&) (all_digits t)
                      (N.ltb (value t) (Npos (XO (XO (XO (XO (XO (XO (XO (XO
                        (XO (XO (XO (XO (XO (XO (XO (XO (XO (XO (XO (XO (XO
                        (XO (XO (XO (XO (XO (XO (XO (XO (XO (XO
                        XH)))))))))))))))))))))))))))))))))
                 then Some (Z.of_N (value t))
                 else None)
            | _ ->
              if (&&) (all_digits t)
                   (N.ltb (value t) (Npos (XO (XO (XO (XO (XO (XO (XO (XO (XO
                     (XO (XO (XO (XO (XO (XO (XO (XO (XO (XO (XO (XO (XO (XO
                     (XO (XO (XO (XO (XO (XO (XO (XO
                     XH)))))))))))))))))))))))))))))))))
              then Some (Z.of_N (value t))
              else None)
         | XO p1 ->
           (match p1 with
            | XI p2 ->
              (match p2 with
               | XI p3 ->
                 (match p3 with
                  | XO p4 ->
                    (match p4 with
                     | XH ->
                       if (&&) (all_digits r)
                            (N.leb (value r) (Npos (XO (XO (XO (XO (XO (XO
                              (XO (XO (XO (XO (XO (XO (XO (XO (XO (XO (XO (XO
                              (XO (XO (XO (XO (XO (XO (XO (XO (XO (XO (XO (XO
                              (XO XH)))))))))))))))))))))))))))))))))
                       then Some (Z.opp (Z.of_N (value r)))
                       else None
                     | _ ->
                       if (&&) (all_digits t)
                            (N.ltb (value t) (Npos (XO (XO (XO (XO (XO (XO
                              (XO (XO (XO (XO (XO (XO (XO (XO (XO (XO (XO (XO
                              (XO (XO (XO (XO (XO (XO (XO (XO (XO (XO (XO (XO
                              (XO XH)))))))))))))))))))))))))))))))))
                       then Some (Z.of_N (value t))
                       else None)
                  | _ ->
                    if (&&) (all_digits t)
                         (N.ltb (value t) (Npos (XO (XO (XO (XO (XO (XO (XO
                           (XO (XO (XO (XO (XO (XO (XO (XO (XO (XO (XO (XO
                           (XO (XO (XO (XO (XO (XO (XO (XO (XO (XO (XO (XO
                           XH)))))))))))))))))))))))))))))))))
                    then Some (Z.of_N (value t))
                    else None)
               | _ ->
                 if (&&) (all_digits t)
                      (N.ltb (value t) (Npos (XO (XO (XO (XO (XO (XO (XO (XO
                        (XO (XO (XO (XO (XO (XO (XO (XO (XO (XO (XO (XO (XO
                        (XO (XO (XO (XO (XO (XO (XO (XO (XO (XO
                        XH)))))))))))))))))))))))))))))))))
                 then Some (Z.of_N (value t))
                 else None)
            | _ ->
              if (&&) (all_digits t)
                   (N.ltb (value t) (Npos (XO (XO (XO (XO (XO (XO (XO (XO (XO
                     (XO (XO (XO (XO (XO (XO (XO (XO (XO (XO (XO (XO (XO (XO
                     (XO (XO (XO (XO (XO (XO (XO (XO
                     XH)))))))))))))))))))))))))))))))))
              then Some (Z.of_N (value t))
              else None)
         | XH ->
           if (&&) (all_digits t)
                (N.ltb (value t) (Npos (XO (XO (XO (XO (XO (XO (XO (XO (XO
                  (XO (XO (XO (XO (XO (XO (XO (XO (XO (XO (XO (XO (XO (XO (XO
                  (XO (XO (XO (XO (XO (XO (XO
                  XH)))))))))))))))))))))))))))))))))
           then Some (Z.of_N (value t))
           else None)
      | _ ->
        if (&&) (all_digits t)
             (N.ltb (value t) (Npos (XO (XO (XO (XO (XO (XO (XO (XO (XO (XO
               (XO (XO (XO (XO (XO (XO (XO (XO (XO (XO (XO (XO (XO (XO (XO
               (XO (XO (XO (XO (XO (XO XH)))))))))))))))))))))))))))))))))
        then Some (Z.of_N (value t))
        else None))

type dsearch =
| NotFound
| Found of n list * n * z
| Bad

(** val parse_divider : n list -> dsearch **)

let parse_divider line =
  let line0 = trim_nl line in
  (match find_sub pREFIX line0 with
   | Some i ->
     let rest = skipn (add i (length pREFIX)) line0 in
     (match find_sub cOLONS rest with
      | Some j ->
        let rest2 = skipn (add j (S (S O))) rest in
        (match find_sub cOLONS rest2 with
         | Some k ->
           (match parse_usize (firstn k rest2) with
            | Some n0 ->
              (match parse_i32 (skipn (add k (S (S O))) rest2) with
               | Some c -> Found ((firstn i line0), n0, c)
               | None -> Bad)
            | None -> Bad)
         | None -> Bad)
      | None -> Bad)
   | None -> NotFound)

(** val parse_salted : n list -> n list -> dsearch **)

let parse_salted salt line =
  let line0 = trim_nl line in
  (match find_sub (app pREFIX (app salt cOLONS)) line0 with
   | Some i ->
     (match parse_divider (skipn i line0) with
      | Found (_, n0, c) -> Found ((firstn i line0), n0, c)
      | x -> x)
   | None -> NotFound)

(** val iterate :
    n list -> n list list -> n list -> n -> (n list * z) list option **)

let rec iterate salt lines buffer expected0 =
  match lines with
  | [] -> Some []
  | l :: r ->
    (match parse_salted salt l with
     | NotFound -> iterate salt r (app buffer l) expected0
     | Found (prefix, idx, code) ->
       if N.eqb idx expected0
       then (match iterate salt r [] (N.add expected0 (Npos XH)) with
             | Some rest -> Some (((app buffer prefix), code) :: rest)
             | None -> None)
       else None
     | Bad -> None)

(** val split_outputs : n list -> n list -> (n list * z) list option **)

let split_outputs salt stream =
  iterate salt (split_lines stream) [] N0

(** val finished_lines :
    n list -> z -> n list list -> n -> n option -> n * n option **)

let rec finished_lines salt code lines n0 first =
  match lines with
  | [] -> (n0, first)
  | l :: r ->
    (match parse_salted salt l with
     | Found (_, _, c) ->
       finished_lines salt code r (N.add n0 (Npos XH))
         (match first with
          | Some _ -> first
          | None -> if Z.eqb c code then Some n0 else None)
     | _ -> finished_lines salt code r n0 first)

(** val finished : n list -> z -> n list -> n * n option **)

let finished salt code stream =
  finished_lines salt code (split_lines stream) N0 None

type sverdict =
| VSkip of n
| VOuts of (n list * z) list
| VErr

(** val first_code : z -> (n list * z) list -> n -> n option **)

let rec first_code code outs i =
  match outs with
  | [] -> None
  | p :: r ->
    let (_, c) = p in
    if Z.eqb c code then Some i else first_code code r (N.add i (Npos XH))

(** val script_verdict : n list -> z -> n -> z -> n list -> sverdict **)

let script_verdict salt skip ntests exit0 stream =
  let (fin, o) = finished salt skip stream in
  (match o with
   | Some i -> VSkip i
   | None ->
     if (&&) (Z.eqb exit0 skip) (N.ltb fin ntests)
     then VSkip N0
     else (match split_outputs salt stream with
           | Some outs ->
             (match first_code skip outs N0 with
              | Some i -> VSkip i
              | None ->
                if N.eqb (N.of_nat (length outs)) ntests
                then VOuts outs
                else VErr)
           | None -> VErr))

(** val divider_line : n list -> n -> z -> n list **)

let divider_line salt i code =
  app pREFIX
    (app salt
      (app cOLONS
        (app (dec i)
          (app cOLONS (app (decz code) ((Npos (XO (XI (XO XH)))) :: []))))))

(** val ideal : n list -> n -> (n list * z) list -> n list **)

let rec ideal salt i = function
| [] -> []
| p0 :: r ->
  let (p, c) = p0 in
  app p (app (divider_line salt i c) (ideal salt (N.add i (Npos XH)) r))

(** val u64 : n **)

let u64 =
  Npos (XO (XO (XO (XO (XO (XO (XO (XO (XO (XO (XO (XO (XO (XO (XO (XO (XO
    (XO (XO (XO (XO (XO (XO (XO (XO (XO (XO (XO (XO (XO (XO (XO (XO (XO (XO
    (XO (XO (XO (XO (XO (XO (XO (XO (XO (XO (XO (XO (XO (XO (XO (XO (XO (XO
    (XO (XO (XO (XO (XO (XO (XO (XO (XO (XO (XO
    XH))))))))))))))))))))))))))))))))))))))))))))))))))))))))))))))))

(** val nANOS : n **)

let nANOS =
  Npos (XO (XO (XO (XO (XO (XO (XO (XO (XO (XI (XO (XI (XO (XO (XI (XI (XO
    (XI (XO (XI (XI (XO (XO (XI (XI (XI (XO (XI (XI
    XH)))))))))))))))))))))))))))))

(** val y_SECS : n **)

let y_SECS =
  Npos (XO (XO (XO (XO (XO (XI (XI (XI (XI (XI (XI (XO (XO (XO (XO (XI (XI
    (XO (XO (XO (XO (XI (XI (XI XH))))))))))))))))))))))))

(** val mO_SECS : n **)

let mO_SECS =
  Npos (XO (XO (XO (XO (XO (XO (XO (XI (XI (XO (XO (XO (XO (XI (XO (XO (XO
    (XO (XO (XI (XO XH)))))))))))))))))))))

(** val s_YEAR : n list **)

let s_YEAR =
  (Npos (XI (XO (XO (XI (XI (XI XH))))))) :: ((Npos (XI (XO (XI (XO (XO (XI
    XH))))))) :: ((Npos (XI (XO (XO (XO (XO (XI XH))))))) :: ((Npos (XO (XI
    (XO (XO (XI (XI XH))))))) :: [])))

(** val s_MONTH : n list **)

let s_MONTH =
  (Npos (XI (XO (XI (XI (XO (XI XH))))))) :: ((Npos (XI (XI (XI (XI (XO (XI
    XH))))))) :: ((Npos (XO (XI (XI (XI (XO (XI XH))))))) :: ((Npos (XO (XO
    (XI (XO (XI (XI XH))))))) :: ((Npos (XO (XO (XO (XI (XO (XI
    XH))))))) :: []))))

(** val s_DAY : n list **)

let s_DAY =
  (Npos (XO (XO (XI (XO (XO (XI XH))))))) :: ((Npos (XI (XO (XO (XO (XO (XI
    XH))))))) :: ((Npos (XI (XO (XO (XI (XI (XI XH))))))) :: []))

(** val s_H : n list **)

let s_H =
  (Npos (XO (XO (XO (XI (XO (XI XH))))))) :: []

(** val s_M : n list **)

let s_M =
  (Npos (XI (XO (XI (XI (XO (XI XH))))))) :: []

(** val s_S : n list **)

let s_S =
  (Npos (XI (XI (XO (XO (XI (XI XH))))))) :: []

(** val s_MS : n list **)

let s_MS =
  (Npos (XI (XO (XI (XI (XO (XI XH))))))) :: ((Npos (XI (XI (XO (XO (XI (XI
    XH))))))) :: [])

(** val s_US : n list **)

let s_US =
  (Npos (XI (XO (XI (XO (XI (XI XH))))))) :: ((Npos (XI (XI (XO (XO (XI (XI
    XH))))))) :: [])

(** val s_NS : n list **)

let s_NS =
  (Npos (XO (XI (XI (XI (XO (XI XH))))))) :: ((Npos (XI (XI (XO (XO (XI (XI
    XH))))))) :: [])

(** val item_text : n -> n list -> bool -> n list **)

let item_text v name plural =
  app (dec v)
    (app name
      (if (&&) plural (N.ltb (Npos XH) v)
       then (Npos (XI (XI (XO (XO (XI (XI XH))))))) :: []
       else []))

(** val dchain : bool -> ((n * n list) * bool) list -> n list **)

let rec dchain started = function
| [] -> []
| p :: r ->
  let (p0, pl) = p in
  let (v, name) = p0 in
  if N.ltb N0 v
  then app (if started then (Npos (XO (XO (XO (XO (XO XH)))))) :: [] else [])
         (app (item_text v name pl) (dchain true r))
  else dchain started r

(** val dur_items : n -> n -> ((n * n list) * bool) list **)

let dur_items secs nanos =
  let years = N.div secs y_SECS in
  let ydays = N.modulo secs y_SECS in
  let months = N.div ydays mO_SECS in
  let mdays = N.modulo ydays mO_SECS in
  let days =
    N.div mdays (Npos (XO (XO (XO (XO (XO (XO (XO (XI (XI (XO (XO (XO (XI (XO
      (XI (XO XH)))))))))))))))))
  in
  let day_secs =
    N.modulo mdays (Npos (XO (XO (XO (XO (XO (XO (XO (XI (XI (XO (XO (XO (XI
      (XO (XI (XO XH)))))))))))))))))
  in
  let hours =
    N.div day_secs (Npos (XO (XO (XO (XO (XI (XO (XO (XO (XO (XI (XI
      XH))))))))))))
  in
  let minutes =
    N.div
      (N.modulo day_secs (Npos (XO (XO (XO (XO (XI (XO (XO (XO (XO (XI (XI
        XH))))))))))))) (Npos (XO (XO (XI (XI (XI XH))))))
  in
  let seconds = N.modulo day_secs (Npos (XO (XO (XI (XI (XI XH)))))) in
  let millis =
    N.div nanos (Npos (XO (XO (XO (XO (XO (XO (XI (XO (XO (XI (XO (XO (XO (XO
      (XI (XO (XI (XI (XI XH))))))))))))))))))))
  in
  let micros =
    N.modulo
      (N.div nanos (Npos (XO (XO (XO (XI (XO (XI (XI (XI (XI XH)))))))))))
      (Npos (XO (XO (XO (XI (XO (XI (XI (XI (XI XH))))))))))
  in
  let nanosec =
    N.modulo nanos (Npos (XO (XO (XO (XI (XO (XI (XI (XI (XI XH))))))))))
  in
  ((years, s_YEAR), true) :: (((months, s_MONTH), true) :: (((days, s_DAY),
  true) :: (((hours, s_H), false) :: (((minutes, s_M), false) :: (((seconds,
  s_S), false) :: (((millis, s_MS), false) :: (((micros, s_US),
  false) :: (((nanosec, s_NS), false) :: []))))))))

(** val format_duration : n -> n -> n list **)

let format_duration secs nanos =
  if (&&) (N.eqb secs N0) (N.eqb nanos N0)
  then (Npos (XO (XO (XO (XO (XI XH)))))) :: ((Npos (XI (XI (XO (XO (XI (XI
         XH))))))) :: [])
  else dchain false (dur_items secs nanos)

type unit_t =
| UNano
| UMicro
| UMilli
| USec
| UMin
| UHour
| UDay
| UWeek
| UMonth
| UYear

(** val unit_table : (n list * unit_t) list **)

let unit_table =
  (((Npos (XO (XI (XI (XI (XO (XI XH))))))) :: ((Npos (XI (XO (XO (XO (XO (XI
    XH))))))) :: ((Npos (XO (XI (XI (XI (XO (XI XH))))))) :: ((Npos (XI (XI
    (XI (XI (XO (XI XH))))))) :: ((Npos (XI (XI (XO (XO (XI (XI
    XH))))))) :: []))))), UNano) :: ((((Npos (XO (XI (XI (XI (XO (XI
    XH))))))) :: ((Npos (XI (XI (XO (XO (XI (XI XH))))))) :: ((Npos (XI (XO
    (XI (XO (XO (XI XH))))))) :: ((Npos (XI (XI (XO (XO (XO (XI
    XH))))))) :: [])))), UNano) :: ((((Npos (XO (XI (XI (XI (XO (XI
    XH))))))) :: ((Npos (XI (XI (XO (XO (XI (XI XH))))))) :: [])),
    UNano) :: ((((Npos (XI (XO (XI (XO (XI (XI XH))))))) :: ((Npos (XI (XI
    (XO (XO (XI (XI XH))))))) :: ((Npos (XI (XO (XI (XO (XO (XI
    XH))))))) :: ((Npos (XI (XI (XO (XO (XO (XI XH))))))) :: [])))),
    UMicro) :: ((((Npos (XI (XO (XI (XO (XI (XI XH))))))) :: ((Npos (XI (XI
    (XO (XO (XI (XI XH))))))) :: [])), UMicro) :: ((((Npos (XI (XO (XI (XO
    (XI (XI (XO XH)))))))) :: ((Npos (XI (XI (XO (XO (XI (XI
    XH))))))) :: [])), UMicro) :: ((((Npos (XI (XO (XI (XI (XO (XI
    XH))))))) :: ((Npos (XI (XO (XO (XI (XO (XI XH))))))) :: ((Npos (XO (XO
    (XI (XI (XO (XI XH))))))) :: ((Npos (XO (XO (XI (XI (XO (XI
    XH))))))) :: ((Npos (XI (XO (XO (XI (XO (XI XH))))))) :: ((Npos (XI (XI
    (XO (XO (XI (XI XH))))))) :: [])))))), UMilli) :: ((((Npos (XI (XO (XI
    (XI (XO (XI XH))))))) :: ((Npos (XI (XI (XO (XO (XI (XI
    XH))))))) :: ((Npos (XI (XO (XI (XO (XO (XI XH))))))) :: ((Npos (XI (XI
    (XO (XO (XO (XI XH))))))) :: [])))), UMilli) :: ((((Npos (XI (XO (XI (XI
    (XO (XI XH))))))) :: ((Npos (XI (XI (XO (XO (XI (XI XH))))))) :: [])),
    UMilli) :: ((((Npos (XI (XI (XO (XO (XI (XI XH))))))) :: ((Npos (XI (XO
    (XI (XO (XO (XI XH))))))) :: ((Npos (XI (XI (XO (XO (XO (XI
    XH))))))) :: ((Npos (XI (XI (XI (XI (XO (XI XH))))))) :: ((Npos (XO (XI
    (XI (XI (XO (XI XH))))))) :: ((Npos (XO (XO (XI (XO (XO (XI
    XH))))))) :: ((Npos (XI (XI (XO (XO (XI (XI XH))))))) :: []))))))),
    USec) :: ((((Npos (XI (XI (XO (XO (XI (XI XH))))))) :: ((Npos (XI (XO (XI
    (XO (XO (XI XH))))))) :: ((Npos (XI (XI (XO (XO (XO (XI
    XH))))))) :: ((Npos (XI (XI (XI (XI (XO (XI XH))))))) :: ((Npos (XO (XI
    (XI (XI (XO (XI XH))))))) :: ((Npos (XO (XO (XI (XO (XO (XI
    XH))))))) :: [])))))), USec) :: ((((Npos (XI (XI (XO (XO (XI (XI
    XH))))))) :: ((Npos (XI (XO (XI (XO (XO (XI XH))))))) :: ((Npos (XI (XI
    (XO (XO (XO (XI XH))))))) :: ((Npos (XI (XI (XO (XO (XI (XI
    XH))))))) :: [])))), USec) :: ((((Npos (XI (XI (XO (XO (XI (XI
    XH))))))) :: ((Npos (XI (XO (XI (XO (XO (XI XH))))))) :: ((Npos (XI (XI
    (XO (XO (XO (XI XH))))))) :: []))), USec) :: ((((Npos (XI (XI (XO (XO (XI
    (XI XH))))))) :: []), USec) :: ((((Npos (XI (XO (XI (XI (XO (XI
    XH))))))) :: ((Npos (XI (XO (XO (XI (XO (XI XH))))))) :: ((Npos (XO (XI
    (XI (XI (XO (XI XH))))))) :: ((Npos (XI (XO (XI (XO (XI (XI
    XH))))))) :: ((Npos (XO (XO (XI (XO (XI (XI XH))))))) :: ((Npos (XI (XO
    (XI (XO (XO (XI XH))))))) :: ((Npos (XI (XI (XO (XO (XI (XI
    XH))))))) :: []))))))), UMin) :: ((((Npos (XI (XO (XI (XI (XO (XI
    XH))))))) :: ((Npos (XI (XO (XO (XI (XO (XI XH))))))) :: ((Npos (XO (XI
    (XI (XI (XO (XI XH))))))) :: ((Npos (XI (XO (XI (XO (XI (XI
    XH))))))) :: ((Npos (XO (XO (XI (XO (XI (XI XH))))))) :: ((Npos (XI (XO
    (XI (XO (XO (XI XH))))))) :: [])))))), UMin) :: ((((Npos (XI (XO (XI (XI
    (XO (XI XH))))))) :: ((Npos (XI (XO (XO (XI (XO (XI XH))))))) :: ((Npos
    (XO (XI (XI (XI (XO (XI XH))))))) :: []))), UMin) :: ((((Npos (XI (XO (XI
    (XI (XO (XI XH))))))) :: ((Npos (XI (XO (XO (XI (XO (XI
    XH))))))) :: ((Npos (XO (XI (XI (XI (XO (XI XH))))))) :: ((Npos (XI (XI
    (XO (XO (XI (XI XH))))))) :: [])))), UMin) :: ((((Npos (XI (XO (XI (XI
    (XO (XI XH))))))) :: []), UMin) :: ((((Npos (XO (XO (XO (XI (XO (XI
    XH))))))) :: ((Npos (XI (XI (XI (XI (XO (XI XH))))))) :: ((Npos (XI (XO
    (XI (XO (XI (XI XH))))))) :: ((Npos (XO (XI (XO (XO (XI (XI
    XH))))))) :: ((Npos (XI (XI (XO (XO (XI (XI XH))))))) :: []))))),
    UHour) :: ((((Npos (XO (XO (XO (XI (XO (XI XH))))))) :: ((Npos (XI (XI
    (XI (XI (XO (XI XH))))))) :: ((Npos (XI (XO (XI (XO (XI (XI
    XH))))))) :: ((Npos (XO (XI (XO (XO (XI (XI XH))))))) :: [])))),
    UHour) :: ((((Npos (XO (XO (XO (XI (XO (XI XH))))))) :: ((Npos (XO (XI
    (XO (XO (XI (XI XH))))))) :: [])), UHour) :: ((((Npos (XO (XO (XO (XI (XO
    (XI XH))))))) :: ((Npos (XO (XI (XO (XO (XI (XI XH))))))) :: ((Npos (XI
    (XI (XO (XO (XI (XI XH))))))) :: []))), UHour) :: ((((Npos (XO (XO (XO
    (XI (XO (XI XH))))))) :: []), UHour) :: ((((Npos (XO (XO (XI (XO (XO (XI
    XH))))))) :: ((Npos (XI (XO (XO (XO (XO (XI XH))))))) :: ((Npos (XI (XO
    (XO (XI (XI (XI XH))))))) :: ((Npos (XI (XI (XO (XO (XI (XI
    XH))))))) :: [])))), UDay) :: ((((Npos (XO (XO (XI (XO (XO (XI
    XH))))))) :: ((Npos (XI (XO (XO (XO (XO (XI XH))))))) :: ((Npos (XI (XO
    (XO (XI (XI (XI XH))))))) :: []))), UDay) :: ((((Npos (XO (XO (XI (XO (XO
    (XI XH))))))) :: []), UDay) :: ((((Npos (XI (XI (XI (XO (XI (XI
    XH))))))) :: ((Npos (XI (XO (XI (XO (XO (XI XH))))))) :: ((Npos (XI (XO
    (XI (XO (XO (XI XH))))))) :: ((Npos (XI (XI (XO (XI (XO (XI
    XH))))))) :: ((Npos (XI (XI (XO (XO (XI (XI XH))))))) :: []))))),
    UWeek) :: ((((Npos (XI (XI (XI (XO (XI (XI XH))))))) :: ((Npos (XI (XO
    (XI (XO (XO (XI XH))))))) :: ((Npos (XI (XO (XI (XO (XO (XI
    XH))))))) :: ((Npos (XI (XI (XO (XI (XO (XI XH))))))) :: [])))),
    UWeek) :: ((((Npos (XI (XI (XI (XO (XI (XI XH))))))) :: ((Npos (XI (XI
    (XO (XI (XO (XI XH))))))) :: [])), UWeek) :: ((((Npos (XI (XI (XI (XO (XI
    (XI XH))))))) :: ((Npos (XI (XI (XO (XI (XO (XI XH))))))) :: ((Npos (XI
    (XI (XO (XO (XI (XI XH))))))) :: []))), UWeek) :: ((((Npos (XI (XI (XI
    (XO (XI (XI XH))))))) :: []), UWeek) :: ((((Npos (XI (XO (XI (XI (XO (XI
    XH))))))) :: ((Npos (XI (XI (XI (XI (XO (XI XH))))))) :: ((Npos (XO (XI
    (XI (XI (XO (XI XH))))))) :: ((Npos (XO (XO (XI (XO (XI (XI
    XH))))))) :: ((Npos (XO (XO (XO (XI (XO (XI XH))))))) :: ((Npos (XI (XI
    (XO (XO (XI (XI XH))))))) :: [])))))), UMonth) :: ((((Npos (XI (XO (XI
    (XI (XO (XI XH))))))) :: ((Npos (XI (XI (XI (XI (XO (XI
    XH))))))) :: ((Npos (XO (XI (XI (XI (XO (XI XH))))))) :: ((Npos (XO (XO
    (XI (XO (XI (XI XH))))))) :: ((Npos (XO (XO (XO (XI (XO (XI
    XH))))))) :: []))))), UMonth) :: ((((Npos (XI (XO (XI (XI (XO (XO
    XH))))))) :: []), UMonth) :: ((((Npos (XI (XO (XO (XI (XI (XI
    XH))))))) :: ((Npos (XI (XO (XI (XO (XO (XI XH))))))) :: ((Npos (XI (XO
    (XO (XO (XO (XI XH))))))) :: ((Npos (XO (XI (XO (XO (XI (XI
    XH))))))) :: ((Npos (XI (XI (XO (XO (XI (XI XH))))))) :: []))))),
    UYear) :: ((((Npos (XI (XO (XO (XI (XI (XI XH))))))) :: ((Npos (XI (XO
    (XI (XO (XO (XI XH))))))) :: ((Npos (XI (XO (XO (XO (XO (XI
    XH))))))) :: ((Npos (XO (XI (XO (XO (XI (XI XH))))))) :: [])))),
    UYear) :: ((((Npos (XI (XO (XO (XI (XI (XI XH))))))) :: ((Npos (XO (XI
    (XO (XO (XI (XI XH))))))) :: [])), UYear) :: ((((Npos (XI (XO (XO (XI (XI
    (XI XH))))))) :: ((Npos (XO (XI (XO (XO (XI (XI XH))))))) :: ((Npos (XI
    (XI (XO (XO (XI (XI XH))))))) :: []))), UYear) :: ((((Npos (XI (XO (XO
    (XI (XI (XI XH))))))) :: []),
    UYear) :: [])))))))))))))))))))))))))))))))))))))))

(** val lookup_unit : (n list * unit_t) list -> n list -> unit_t option **)

let rec lookup_unit tbl s =
  match tbl with
  | [] -> None
  | p :: r ->
    let (k, u) = p in if text_eqb k s then Some u else lookup_unit r s

(** val unit_of : n list -> unit_t option **)

let unit_of s =
  lookup_unit unit_table s

(** val chk : n -> n option **)

let chk x =
  if N.ltb x u64 then Some x else None

(** val duration_new : n -> n -> (n * n) option **)

let duration_new sec nsec =
  match chk (N.add sec (N.div nsec nANOS)) with
  | Some s -> Some (s, (N.modulo nsec nANOS))
  | None -> None

(** val add_current : n -> n -> (n * n) -> (n * n) option **)

let add_current sec nsec out =
  match chk (N.add (snd out) nsec) with
  | Some ns ->
    let carried =
      if N.ltb nANOS ns
      then ((chk (N.add sec (N.div ns nANOS))), (N.modulo ns nANOS))
      else ((Some sec), ns)
    in
    (match fst carried with
     | Some sec1 ->
       (match chk (N.add (fst out) sec1) with
        | Some sec2 -> duration_new sec2 (snd carried)
        | None -> None)
     | None -> None)
  | None -> None

(** val unit_amount : unit_t -> n -> (n * n) option **)

let unit_amount u n0 =
  match u with
  | UNano -> Some (N0, n0)
  | UMicro ->
    option_map (fun x -> (N0, x))
      (chk (N.mul n0 (Npos (XO (XO (XO (XI (XO (XI (XI (XI (XI XH))))))))))))
  | UMilli ->
    option_map (fun x -> (N0, x))
      (chk
        (N.mul n0 (Npos (XO (XO (XO (XO (XO (XO (XI (XO (XO (XI (XO (XO (XO
          (XO (XI (XO (XI (XI (XI XH))))))))))))))))))))))
  | USec -> Some (n0, N0)
  | UMin ->
    option_map (fun x -> (x, N0))
      (chk (N.mul n0 (Npos (XO (XO (XI (XI (XI XH))))))))
  | UHour ->
    option_map (fun x -> (x, N0))
      (chk
        (N.mul n0 (Npos (XO (XO (XO (XO (XI (XO (XO (XO (XO (XI (XI
          XH))))))))))))))
  | UDay ->
    option_map (fun x -> (x, N0))
      (chk
        (N.mul n0 (Npos (XO (XO (XO (XO (XO (XO (XO (XI (XI (XO (XO (XO (XI
          (XO (XI (XO XH)))))))))))))))))))
  | UWeek ->
    option_map (fun x -> (x, N0))
      (chk
        (N.mul n0 (Npos (XO (XO (XO (XO (XO (XO (XO (XI (XO (XI (XO (XI (XI
          (XI (XO (XO (XI (XO (XO XH))))))))))))))))))))))
  | UMonth -> option_map (fun x -> (x, N0)) (chk (N.mul n0 mO_SECS))
  | UYear -> option_map (fun x -> (x, N0)) (chk (N.mul n0 y_SECS))

(** val parse_unit : n -> n list -> (n * n) -> (n * n) option **)

let parse_unit n0 unit0 out =
  match unit_of unit0 with
  | Some u ->
    (match unit_amount u n0 with
     | Some p -> let (s, ns) = p in add_current s ns out
     | None -> None)
  | None -> None

(** val is_white0 : n -> bool **)

let is_white0 c =
  (||)
    ((||)
      ((||)
        ((||)
          ((||)
            ((||)
              ((||)
                ((||)
                  ((||)
                    ((||)
                      ((&&) (N.leb (Npos (XI (XO (XO XH)))) c)
                        (N.leb c (Npos (XI (XO (XI XH))))))
                      (N.eqb c (Npos (XO (XO (XO (XO (XO XH))))))))
                    (N.eqb c (Npos (XI (XO (XI (XO (XO (XO (XO XH))))))))))
                  (N.eqb c (Npos (XO (XO (XO (XO (XO (XI (XO XH))))))))))
                (N.eqb c (Npos (XO (XO (XO (XO (XO (XO (XO (XI (XO (XI (XI
                  (XO XH)))))))))))))))
              ((&&)
                (N.leb (Npos (XO (XO (XO (XO (XO (XO (XO (XO (XO (XO (XO (XO
                  (XO XH)))))))))))))) c)
                (N.leb c (Npos (XO (XI (XO (XI (XO (XO (XO (XO (XO (XO (XO
                  (XO (XO XH)))))))))))))))))
            (N.eqb c (Npos (XO (XO (XO (XI (XO (XI (XO (XO (XO (XO (XO (XO
              (XO XH))))))))))))))))
          (N.eqb c (Npos (XI (XO (XO (XI (XO (XI (XO (XO (XO (XO (XO (XO (XO
            XH))))))))))))))))
        (N.eqb c (Npos (XI (XI (XI (XI (XO (XI (XO (XO (XO (XO (XO (XO (XO
          XH))))))))))))))))
      (N.eqb c (Npos (XI (XI (XI (XI (XI (XO (XI (XO (XO (XO (XO (XO (XO
        XH))))))))))))))))
    (N.eqb c (Npos (XO (XO (XO (XO (XO (XO (XO (XO (XO (XO (XO (XO (XI
      XH)))))))))))))))

(** val is_unit_letter : n -> bool **)

let is_unit_letter c =
  (||)
    ((||)
      ((&&) (N.leb (Npos (XI (XO (XO (XO (XO (XI XH))))))) c)
        (N.leb c (Npos (XO (XI (XO (XI (XI (XI XH)))))))))
      ((&&) (N.leb (Npos (XI (XO (XO (XO (XO (XO XH))))))) c)
        (N.leb c (Npos (XO (XI (XO (XI (XI (XO XH))))))))))
    (N.eqb c (Npos (XI (XO (XI (XO (XI (XI (XO XH)))))))))

type pstate =
| SFirst
| SNum of n
| SUnit of n * n list

type pres =
| DOk of n * n
| DErr
| DUnsupported

(** val pgo : n list -> pstate -> (n * n) -> bool -> pres **)

let rec pgo s st out nothing_yet =
  match s with
  | [] ->
    (match st with
     | SFirst -> if nothing_yet then DErr else DOk ((fst out), (snd out))
     | SNum _ -> DErr
     | SUnit (n0, u) ->
       (match parse_unit n0 (rev u) out with
        | Some o -> DOk ((fst o), (snd o))
        | None -> DErr))
  | c :: r ->
    (match st with
     | SFirst ->
       if is_digit0 c
       then pgo r (SNum (N.sub c (Npos (XO (XO (XO (XO (XI XH)))))))) out
              false
       else if is_white0 c then pgo r SFirst out nothing_yet else DErr
     | SNum n0 ->
       if is_digit0 c
       then (match chk
                     (N.add (N.mul n0 (Npos (XO (XI (XO XH)))))
                       (N.sub c (Npos (XO (XO (XO (XO (XI XH)))))))) with
             | Some n' -> pgo r (SNum n') out false
             | None -> DErr)
       else if is_white0 c
            then pgo r (SNum n0) out false
            else if is_unit_letter c
                 then pgo r (SUnit (n0, (c :: []))) out false
                 else if N.eqb c (Npos (XO (XI (XI (XI (XO XH))))))
                      then DUnsupported
                      else DErr
     | SUnit (n0, u) ->
       if is_digit0 c
       then (match parse_unit n0 (rev u) out with
             | Some o ->
               pgo r (SNum (N.sub c (Npos (XO (XO (XO (XO (XI XH)))))))) o
                 false
             | None -> DErr)
       else if is_white0 c
            then (match parse_unit n0 (rev u) out with
                  | Some o -> pgo r SFirst o false
                  | None -> DErr)
            else if is_unit_letter c
                 then pgo r (SUnit (n0, (c :: u))) out false
                 else DErr)

(** val parse_duration : n list -> pres **)

let parse_duration s =
  if text_eqb s ((Npos (XO (XO (XO (XO (XI XH)))))) :: [])
  then DOk (N0, N0)
  else pgo s SFirst (N0, N0) true

type ycfg = { y_os : n option; y_kc : bool option; y_to : (n * n) option;
              y_de : bool option; y_sk : z option; y_sa : bool option;
              y_wa : ((n * n) * n list option) option;
              y_env : (n list * n list) list }

(** val yempty : ycfg **)

let yempty =
  { y_os = None; y_kc = None; y_to = None; y_de = None; y_sk = None; y_sa =
    None; y_wa = None; y_env = [] }

(** val k_OS : n list **)

let k_OS =
  (Npos (XI (XI (XI (XI (XO (XI XH))))))) :: ((Npos (XI (XO (XI (XO (XI (XI
    XH))))))) :: ((Npos (XO (XO (XI (XO (XI (XI XH))))))) :: ((Npos (XO (XO
    (XO (XO (XI (XI XH))))))) :: ((Npos (XI (XO (XI (XO (XI (XI
    XH))))))) :: ((Npos (XO (XO (XI (XO (XI (XI XH))))))) :: ((Npos (XI (XI
    (XI (XI (XI (XO XH))))))) :: ((Npos (XI (XI (XO (XO (XI (XI
    XH))))))) :: ((Npos (XO (XO (XI (XO (XI (XI XH))))))) :: ((Npos (XO (XI
    (XO (XO (XI (XI XH))))))) :: ((Npos (XI (XO (XI (XO (XO (XI
    XH))))))) :: ((Npos (XI (XO (XO (XO (XO (XI XH))))))) :: ((Npos (XI (XO
    (XI (XI (XO (XI XH))))))) :: []))))))))))))

(** val k_KC : n list **)

let k_KC =
  (Npos (XI (XI (XO (XI (XO (XI XH))))))) :: ((Npos (XI (XO (XI (XO (XO (XI
    XH))))))) :: ((Npos (XI (XO (XI (XO (XO (XI XH))))))) :: ((Npos (XO (XO
    (XO (XO (XI (XI XH))))))) :: ((Npos (XI (XI (XI (XI (XI (XO
    XH))))))) :: ((Npos (XI (XI (XO (XO (XO (XI XH))))))) :: ((Npos (XO (XI
    (XO (XO (XI (XI XH))))))) :: ((Npos (XO (XO (XI (XI (XO (XI
    XH))))))) :: ((Npos (XO (XI (XI (XO (XO (XI XH))))))) :: []))))))))

(** val k_TO : n list **)

let k_TO =
  (Npos (XO (XO (XI (XO (XI (XI XH))))))) :: ((Npos (XI (XO (XO (XI (XO (XI
    XH))))))) :: ((Npos (XI (XO (XI (XI (XO (XI XH))))))) :: ((Npos (XI (XO
    (XI (XO (XO (XI XH))))))) :: ((Npos (XI (XI (XI (XI (XO (XI
    XH))))))) :: ((Npos (XI (XO (XI (XO (XI (XI XH))))))) :: ((Npos (XO (XO
    (XI (XO (XI (XI XH))))))) :: []))))))

(** val k_DE : n list **)

let k_DE =
  (Npos (XO (XO (XI (XO (XO (XI XH))))))) :: ((Npos (XI (XO (XI (XO (XO (XI
    XH))))))) :: ((Npos (XO (XO (XI (XO (XI (XI XH))))))) :: ((Npos (XI (XO
    (XO (XO (XO (XI XH))))))) :: ((Npos (XI (XI (XO (XO (XO (XI
    XH))))))) :: ((Npos (XO (XO (XO (XI (XO (XI XH))))))) :: ((Npos (XI (XO
    (XI (XO (XO (XI XH))))))) :: ((Npos (XO (XO (XI (XO (XO (XI
    XH))))))) :: [])))))))

(** val k_SK : n list **)

let k_SK =
  (Npos (XI (XI (XO (XO (XI (XI XH))))))) :: ((Npos (XI (XI (XO (XI (XO (XI
    XH))))))) :: ((Npos (XI (XO (XO (XI (XO (XI XH))))))) :: ((Npos (XO (XO
    (XO (XO (XI (XI XH))))))) :: ((Npos (XI (XI (XI (XI (XI (XO
    XH))))))) :: ((Npos (XO (XO (XI (XO (XO (XI XH))))))) :: ((Npos (XI (XI
    (XI (XI (XO (XI XH))))))) :: ((Npos (XI (XI (XO (XO (XO (XI
    XH))))))) :: ((Npos (XI (XO (XI (XO (XI (XI XH))))))) :: ((Npos (XI (XO
    (XI (XI (XO (XI XH))))))) :: ((Npos (XI (XO (XI (XO (XO (XI
    XH))))))) :: ((Npos (XO (XI (XI (XI (XO (XI XH))))))) :: ((Npos (XO (XO
    (XI (XO (XI (XI XH))))))) :: ((Npos (XI (XI (XI (XI (XI (XO
    XH))))))) :: ((Npos (XI (XI (XO (XO (XO (XI XH))))))) :: ((Npos (XI (XI
    (XI (XI (XO (XI XH))))))) :: ((Npos (XO (XO (XI (XO (XO (XI
    XH))))))) :: ((Npos (XI (XO (XI (XO (XO (XI
    XH))))))) :: [])))))))))))))))))

(** val k_SA : n list **)

let k_SA =
  (Npos (XI (XI (XO (XO (XI (XI XH))))))) :: ((Npos (XO (XO (XI (XO (XI (XI
    XH))))))) :: ((Npos (XO (XI (XO (XO (XI (XI XH))))))) :: ((Npos (XI (XO
    (XO (XI (XO (XI XH))))))) :: ((Npos (XO (XO (XO (XO (XI (XI
    XH))))))) :: ((Npos (XI (XI (XI (XI (XI (XO XH))))))) :: ((Npos (XI (XO
    (XO (XO (XO (XI XH))))))) :: ((Npos (XO (XI (XI (XI (XO (XI
    XH))))))) :: ((Npos (XI (XI (XO (XO (XI (XI XH))))))) :: ((Npos (XI (XO
    (XO (XI (XO (XI XH))))))) :: ((Npos (XI (XI (XI (XI (XI (XO
    XH))))))) :: ((Npos (XI (XO (XI (XO (XO (XI XH))))))) :: ((Npos (XI (XI
    (XO (XO (XI (XI XH))))))) :: ((Npos (XI (XI (XO (XO (XO (XI
    XH))))))) :: ((Npos (XI (XO (XO (XO (XO (XI XH))))))) :: ((Npos (XO (XO
    (XO (XO (XI (XI XH))))))) :: ((Npos (XI (XO (XO (XI (XO (XI
    XH))))))) :: ((Npos (XO (XI (XI (XI (XO (XI XH))))))) :: ((Npos (XI (XI
    (XI (XO (XO (XI XH))))))) :: []))))))))))))))))))

(** val k_WA : n list **)

let k_WA =
  (Npos (XI (XI (XI (XO (XI (XI XH))))))) :: ((Npos (XI (XO (XO (XO (XO (XI
    XH))))))) :: ((Npos (XI (XO (XO (XI (XO (XI XH))))))) :: ((Npos (XO (XO
    (XI (XO (XI (XI XH))))))) :: [])))

(** val k_ENV : n list **)

let k_ENV =
  (Npos (XI (XO (XI (XO (XO (XI XH))))))) :: ((Npos (XO (XI (XI (XI (XO (XI
    XH))))))) :: ((Npos (XO (XI (XI (XO (XI (XI XH))))))) :: ((Npos (XI (XO
    (XO (XI (XO (XI XH))))))) :: ((Npos (XO (XI (XO (XO (XI (XI
    XH))))))) :: ((Npos (XI (XI (XI (XI (XO (XI XH))))))) :: ((Npos (XO (XI
    (XI (XI (XO (XI XH))))))) :: ((Npos (XI (XO (XI (XI (XO (XI
    XH))))))) :: ((Npos (XI (XO (XI (XO (XO (XI XH))))))) :: ((Npos (XO (XI
    (XI (XI (XO (XI XH))))))) :: ((Npos (XO (XO (XI (XO (XI (XI
    XH))))))) :: []))))))))))

(** val t_TRUE : n list **)

let t_TRUE =
  (Npos (XO (XO (XI (XO (XI (XI XH))))))) :: ((Npos (XO (XI (XO (XO (XI (XI
    XH))))))) :: ((Npos (XI (XO (XI (XO (XI (XI XH))))))) :: ((Npos (XI (XO
    (XI (XO (XO (XI XH))))))) :: [])))

(** val t_FALSE : n list **)

let t_FALSE =
  (Npos (XO (XI (XI (XO (XO (XI XH))))))) :: ((Npos (XI (XO (XO (XO (XO (XI
    XH))))))) :: ((Npos (XO (XO (XI (XI (XO (XI XH))))))) :: ((Npos (XI (XI
    (XO (XO (XI (XI XH))))))) :: ((Npos (XI (XO (XI (XO (XO (XI
    XH))))))) :: []))))

(** val t_STDOUT : n list **)

let t_STDOUT =
  (Npos (XI (XI (XO (XO (XI (XI XH))))))) :: ((Npos (XO (XO (XI (XO (XI (XI
    XH))))))) :: ((Npos (XO (XO (XI (XO (XO (XI XH))))))) :: ((Npos (XI (XI
    (XI (XI (XO (XI XH))))))) :: ((Npos (XI (XO (XI (XO (XI (XI
    XH))))))) :: ((Npos (XO (XO (XI (XO (XI (XI XH))))))) :: [])))))

(** val t_STDERR : n list **)

let t_STDERR =
  (Npos (XI (XI (XO (XO (XI (XI XH))))))) :: ((Npos (XO (XO (XI (XO (XI (XI
    XH))))))) :: ((Npos (XO (XO (XI (XO (XO (XI XH))))))) :: ((Npos (XI (XO
    (XI (XO (XO (XI XH))))))) :: ((Npos (XO (XI (XO (XO (XI (XI
    XH))))))) :: ((Npos (XO (XI (XO (XO (XI (XI XH))))))) :: [])))))

(** val t_COMBINED : n list **)

let t_COMBINED =
  (Npos (XI (XI (XO (XO (XO (XI XH))))))) :: ((Npos (XI (XI (XI (XI (XO (XI
    XH))))))) :: ((Npos (XI (XO (XI (XI (XO (XI XH))))))) :: ((Npos (XO (XI
    (XO (XO (XO (XI XH))))))) :: ((Npos (XI (XO (XO (XI (XO (XI
    XH))))))) :: ((Npos (XO (XI (XI (XI (XO (XI XH))))))) :: ((Npos (XI (XO
    (XI (XO (XO (XI XH))))))) :: ((Npos (XO (XO (XI (XO (XO (XI
    XH))))))) :: [])))))))

(** val wAIT_OPEN : n list **)

let wAIT_OPEN =
  (Npos (XI (XI (XO (XI (XI (XI XH))))))) :: ((Npos (XO (XO (XI (XO (XI (XI
    XH))))))) :: ((Npos (XI (XO (XO (XI (XO (XI XH))))))) :: ((Npos (XI (XO
    (XI (XI (XO (XI XH))))))) :: ((Npos (XI (XO (XI (XO (XO (XI
    XH))))))) :: ((Npos (XI (XI (XI (XI (XO (XI XH))))))) :: ((Npos (XI (XO
    (XI (XO (XI (XI XH))))))) :: ((Npos (XO (XO (XI (XO (XI (XI
    XH))))))) :: ((Npos (XO (XI (XO (XI (XI XH)))))) :: ((Npos (XO (XO (XO
    (XO (XO XH)))))) :: [])))))))))

(** val wAIT_PATH : n list **)

let wAIT_PATH =
  (Npos (XO (XO (XI (XI (XO XH)))))) :: ((Npos (XO (XO (XO (XO (XO
    XH)))))) :: ((Npos (XO (XO (XO (XO (XI (XI XH))))))) :: ((Npos (XI (XO
    (XO (XO (XO (XI XH))))))) :: ((Npos (XO (XO (XI (XO (XI (XI
    XH))))))) :: ((Npos (XO (XO (XO (XI (XO (XI XH))))))) :: ((Npos (XO (XI
    (XO (XI (XI XH)))))) :: ((Npos (XO (XO (XO (XO (XO XH)))))) :: [])))))))

type fval =
| FStream of n
| FBool of bool
| FDur of n * n
| FInt of z
| FWait of n * n * n list option
| FEnv of (n list * n list) list

(** val stream_name : n -> n list **)

let stream_name n0 =
  if N.eqb n0 N0
  then t_STDOUT
  else if N.eqb n0 (Npos XH) then t_STDERR else t_COMBINED

(** val bool_text : bool -> n list **)

let bool_text = function
| true -> t_TRUE
| false -> t_FALSE

(** val value_text : fval -> n list **)

let value_text = function
| FStream n0 -> stream_name n0
| FBool b -> bool_text b
| FDur (s, ns) -> format_duration s ns
| FInt z0 -> decz z0
| FWait (s, ns, path0) ->
  (match path0 with
   | Some p ->
     app wAIT_OPEN
       (app (format_duration s ns)
         (app wAIT_PATH
           (app (yaml_scalar p) ((Npos (XI (XO (XI (XI (XI (XI
             XH))))))) :: []))))
   | None -> format_duration s ns)
| FEnv e -> env_text e

(** val entry_text : (n list * fval) -> n list **)

let entry_text kv =
  app (fst kv) (app cOLON (value_text (snd kv)))

(** val opt_entry :
    n list -> ('a1 -> fval) -> 'a1 option -> (n list * fval) list **)

let opt_entry k f = function
| Some x -> (k, (f x)) :: []
| None -> []

(** val entries_of : ycfg -> (n list * fval) list **)

let entries_of c =
  app (opt_entry k_OS (fun x -> FStream x) c.y_os)
    (app (opt_entry k_KC (fun x -> FBool x) c.y_kc)
      (app (opt_entry k_TO (fun d -> FDur ((fst d), (snd d))) c.y_to)
        (app (opt_entry k_DE (fun x -> FBool x) c.y_de)
          (app (opt_entry k_SK (fun x -> FInt x) c.y_sk)
            (app (opt_entry k_SA (fun x -> FBool x) c.y_sa)
              (app
                (opt_entry k_WA (fun w -> FWait ((fst (fst w)),
                  (snd (fst w)), (snd w))) c.y_wa)
                (match c.y_env with
                 | [] -> []
                 | p :: l -> (k_ENV, (FEnv (p :: l))) :: [])))))))

(** val one_liner : ycfg -> n list **)

let one_liner c =
  app ((Npos (XI (XI (XO (XI (XI (XI XH))))))) :: [])
    (app (join_sep (map entry_text (entries_of c))) ((Npos (XI (XO (XI (XI
      (XI (XI XH))))))) :: []))

(** val take_plain : n list -> n list * n list **)

let rec take_plain s = match s with
| [] -> ([], [])
| c :: r ->
  if (||) (N.eqb c (Npos (XO (XO (XI (XI (XO XH)))))))
       (N.eqb c (Npos (XI (XO (XI (XI (XI (XI XH))))))))
  then ([], s)
  else let (a, b) = take_plain r in ((c :: a), b)

(** val ystrip : n list -> n list -> n list option **)

let rec ystrip p s =
  match p with
  | [] -> Some s
  | a :: p' ->
    (match s with
     | [] -> None
     | b :: s' -> if N.eqb a b then ystrip p' s' else None)

(** val read_dur : n list -> ((n * n) * n list) option **)

let read_dur s =
  let (t, r) = take_plain s in
  (match parse_duration t with
   | DOk (a, b) -> Some ((a, b), r)
   | _ -> None)

(** val read_bool : n list -> (bool * n list) option **)

let read_bool s =
  let (t, r) = take_plain s in
  if text_eqb t t_TRUE
  then Some (true, r)
  else if text_eqb t t_FALSE then Some (false, r) else None

(** val read_stream : n list -> (n * n list) option **)

let read_stream s =
  let (t, r) = take_plain s in
  if text_eqb t t_STDOUT
  then Some (N0, r)
  else if text_eqb t t_STDERR
       then Some ((Npos XH), r)
       else if text_eqb t t_COMBINED then Some ((Npos (XO XH)), r) else None

(** val read_flow_scalar : n list -> (n list * n list) option **)

let read_flow_scalar s =
  if head_is (Npos (XO (XI (XO (XO (XO XH)))))) s
  then rq QN [] (tl s)
  else Some (take_plain s)

type ykind =
| KStream
| KBool
| KDur
| KInt
| KWait
| KEnv

(** val key_kind : n list -> ykind option **)

let key_kind k =
  if text_eqb k k_OS
  then Some KStream
  else if (||) ((||) (text_eqb k k_KC) (text_eqb k k_DE)) (text_eqb k k_SA)
       then Some KBool
       else if text_eqb k k_TO
            then Some KDur
            else if text_eqb k k_SK
                 then Some KInt
                 else if text_eqb k k_WA
                      then Some KWait
                      else if text_eqb k k_ENV then Some KEnv else None

(** val read_wait : n list -> (fval * n list) option **)

let read_wait s =
  match ystrip wAIT_OPEN s with
  | Some s1 ->
    (match read_dur s1 with
     | Some p ->
       let (p0, s2) = p in
       let (a, b) = p0 in
       (match ystrip wAIT_PATH s2 with
        | Some s3 ->
          (match read_flow_scalar s3 with
           | Some p1 ->
             let (p2, s4) = p1 in
             if head_is (Npos (XI (XO (XI (XI (XI (XI XH))))))) s4
             then Some ((FWait (a, b, (Some p2))), (tl s4))
             else None
           | None -> None)
        | None -> None)
     | None -> None)
  | None ->
    (match read_dur s with
     | Some p ->
       let (p0, r) = p in let (a, b) = p0 in Some ((FWait (a, b, None)), r)
     | None -> None)

(** val read_kind : ykind -> n list -> (fval * n list) option **)

let read_kind kd s =
  match kd with
  | KStream ->
    (match read_stream s with
     | Some p -> let (n0, r) = p in Some ((FStream n0), r)
     | None -> None)
  | KBool ->
    (match read_bool s with
     | Some p -> let (b, r) = p in Some ((FBool b), r)
     | None -> None)
  | KDur ->
    (match read_dur s with
     | Some p -> let (p0, r) = p in let (a, b) = p0 in Some ((FDur (a, b)), r)
     | None -> None)
  | KInt ->
    let (t, r) = take_plain s in
    (match parse_i32 t with
     | Some z0 -> Some ((FInt z0), r)
     | None -> None)
  | KWait -> read_wait s
  | KEnv ->
    (match read_env s with
     | Some p -> let (e, r) = p in Some ((FEnv e), r)
     | None -> None)

(** val read_fval : n list -> n list -> (fval * n list) option **)

let read_fval k s =
  match key_kind k with
  | Some kd -> read_kind kd s
  | None -> None

(** val read_items :
    nat -> n list -> ((n list * fval) list * n list) option **)

let rec read_items fuel s =
  match fuel with
  | O -> None
  | S f ->
    (match split_colon s with
     | Some p ->
       let (k, r1) = p in
       (match read_fval k r1 with
        | Some p0 ->
          let (v, r2) = p0 in
          if head_is (Npos (XI (XO (XI (XI (XI (XI XH))))))) r2
          then Some (((k, v) :: []), (tl r2))
          else if starts2 (Npos (XO (XO (XI (XI (XO XH)))))) (Npos (XO (XO
                    (XO (XO (XO XH)))))) r2
               then (match read_items f (skipn (S (S O)) r2) with
                     | Some p1 ->
                       let (m, rest) = p1 in Some (((k, v) :: m), rest)
                     | None -> None)
               else None
        | None -> None)
     | None -> None)

(** val read_mapping : n list -> ((n list * fval) list * n list) option **)

let read_mapping s =
  if head_is (Npos (XI (XI (XO (XI (XI (XI XH))))))) s
  then if head_is (Npos (XI (XO (XI (XI (XI (XI XH))))))) (tl s)
       then Some ([], (tl (tl s)))
       else read_items (length s) (tl s)
  else None

(** val set_field : ycfg -> (n list * fval) -> ycfg option **)

let set_field c = function
| (k, v) ->
  (match v with
   | FStream n0 ->
     if text_eqb k k_OS
     then (match c.y_os with
           | Some _ -> None
           | None ->
             Some { y_os = (Some n0); y_kc = c.y_kc; y_to = c.y_to; y_de =
               c.y_de; y_sk = c.y_sk; y_sa = c.y_sa; y_wa = c.y_wa; y_env =
               c.y_env })
     else None
   | FBool b ->
     if text_eqb k k_KC
     then (match c.y_kc with
           | Some _ -> None
           | None ->
             Some { y_os = c.y_os; y_kc = (Some b); y_to = c.y_to; y_de =
               c.y_de; y_sk = c.y_sk; y_sa = c.y_sa; y_wa = c.y_wa; y_env =
               c.y_env })
     else if text_eqb k k_DE
          then (match c.y_de with
                | Some _ -> None
                | None ->
                  Some { y_os = c.y_os; y_kc = c.y_kc; y_to = c.y_to; y_de =
                    (Some b); y_sk = c.y_sk; y_sa = c.y_sa; y_wa = c.y_wa;
                    y_env = c.y_env })
          else if text_eqb k k_SA
               then (match c.y_sa with
                     | Some _ -> None
                     | None ->
                       Some { y_os = c.y_os; y_kc = c.y_kc; y_to = c.y_to;
                         y_de = c.y_de; y_sk = c.y_sk; y_sa = (Some b);
                         y_wa = c.y_wa; y_env = c.y_env })
               else None
   | FDur (a, b) ->
     if text_eqb k k_TO
     then (match c.y_to with
           | Some _ -> None
           | None ->
             Some { y_os = c.y_os; y_kc = c.y_kc; y_to = (Some (a, b));
               y_de = c.y_de; y_sk = c.y_sk; y_sa = c.y_sa; y_wa = c.y_wa;
               y_env = c.y_env })
     else None
   | FInt z0 ->
     if text_eqb k k_SK
     then (match c.y_sk with
           | Some _ -> None
           | None ->
             Some { y_os = c.y_os; y_kc = c.y_kc; y_to = c.y_to; y_de =
               c.y_de; y_sk = (Some z0); y_sa = c.y_sa; y_wa = c.y_wa;
               y_env = c.y_env })
     else None
   | FWait (a, b, p) ->
     if text_eqb k k_WA
     then (match c.y_wa with
           | Some _ -> None
           | None ->
             Some { y_os = c.y_os; y_kc = c.y_kc; y_to = c.y_to; y_de =
               c.y_de; y_sk = c.y_sk; y_sa = c.y_sa; y_wa = (Some ((a, b),
               p)); y_env = c.y_env })
     else None
   | FEnv e ->
     if text_eqb k k_ENV
     then (match c.y_env with
           | [] ->
             Some { y_os = c.y_os; y_kc = c.y_kc; y_to = c.y_to; y_de =
               c.y_de; y_sk = c.y_sk; y_sa = c.y_sa; y_wa = c.y_wa; y_env =
               e }
           | _ :: _ -> None)
     else None)

(** val assemble : (n list * fval) list -> ycfg -> ycfg option **)

let rec assemble l c =
  match l with
  | [] -> Some c
  | kv :: r ->
    (match set_field c kv with
     | Some c' -> assemble r c'
     | None -> None)

(** val read_one_liner : n list -> ycfg option **)

let read_one_liner s =
  match read_mapping s with
  | Some p ->
    let (l, l0) = p in
    (match l0 with
     | [] -> assemble l yempty
     | _ :: _ -> None)
  | None -> None

(** val oeqb : ('a1 -> 'a1 -> bool) -> 'a1 option -> 'a1 option -> bool **)

let oeqb eqb1 a b =
  match a with
  | Some x -> (match b with
               | Some y -> eqb1 x y
               | None -> false)
  | None -> (match b with
             | Some _ -> false
             | None -> true)

(** val pair_eqb : (n * n) -> (n * n) -> bool **)

let pair_eqb a b =
  (&&) (N.eqb (fst a) (fst b)) (N.eqb (snd a) (snd b))

(** val wait_eqb :
    ((n * n) * n list option) -> ((n * n) * n list option) -> bool **)

let wait_eqb a b =
  (&&) (pair_eqb (fst a) (fst b)) (oeqb text_eqb (snd a) (snd b))

(** val env_get : n list -> (n list * n list) list -> n list option **)

let rec env_get k = function
| [] -> None
| p :: r -> let (k', v) = p in if text_eqb k k' then Some v else env_get k r

(** val env_eqb : (n list * n list) list -> (n list * n list) list -> bool **)

let env_eqb a b =
  forallb (fun kv -> oeqb text_eqb (env_get (fst kv) a) (env_get (fst kv) b))
    (app a b)

(** val keep :
    ('a1 -> 'a1 -> bool) -> 'a1 option -> 'a1 option -> 'a1 option **)

let keep eqb1 a b =
  if oeqb eqb1 a b then None else a

(** val ydiff : ycfg -> ycfg -> ycfg **)

let ydiff c d =
  { y_os = (keep N.eqb c.y_os d.y_os); y_kc = (keep eqb0 c.y_kc d.y_kc);
    y_to = (keep pair_eqb c.y_to d.y_to); y_de = (keep eqb0 c.y_de d.y_de);
    y_sk = (keep Z.eqb c.y_sk d.y_sk); y_sa = (keep eqb0 c.y_sa d.y_sa);
    y_wa = (keep wait_eqb c.y_wa d.y_wa); y_env =
    (if env_eqb c.y_env d.y_env
     then []
     else filter (fun kv ->
            match env_get (fst kv) d.y_env with
            | Some v -> text_eqb v (snd kv)
            | None -> true) c.y_env) }

(** val oor : 'a1 option -> 'a1 option -> 'a1 option **)

let oor a b =
  match a with
  | Some _ -> a
  | None -> b

(** val ywith_defaults : ycfg -> ycfg -> ycfg **)

let ywith_defaults s d =
  { y_os = (oor s.y_os d.y_os); y_kc = (oor s.y_kc d.y_kc); y_to =
    (oor s.y_to d.y_to); y_de = (oor s.y_de d.y_de); y_sk =
    (oor s.y_sk d.y_sk); y_sa = (oor s.y_sa d.y_sa); y_wa =
    (oor s.y_wa d.y_wa); y_env =
    (app
      (filter (fun kv ->
        match env_get (fst kv) s.y_env with
        | Some _ -> false
        | None -> true) d.y_env) s.y_env) }

(** val ycfg_is_empty : ycfg -> bool **)

let ycfg_is_empty c =
  match c.y_os with
  | Some _ -> false
  | None ->
    (match c.y_kc with
     | Some _ -> false
     | None ->
       (match c.y_to with
        | Some _ -> false
        | None ->
          (match c.y_de with
           | Some _ -> false
           | None ->
             (match c.y_sk with
              | Some _ -> false
              | None ->
                (match c.y_sa with
                 | Some _ -> false
                 | None ->
                   (match c.y_wa with
                    | Some _ -> false
                    | None ->
                      (match c.y_env with
                       | [] -> true
                       | _ :: _ -> false)))))))

(** val gen_config_suffix : ycfg -> ycfg -> n list **)

let gen_config_suffix c d =
  let x = ydiff c d in
  if ycfg_is_empty x
  then []
  else (Npos (XO (XO (XO (XO (XO XH)))))) :: (one_liner x)

(** val gen_cram_block :
    mode -> n list -> n list list -> n list list -> n -> block **)

let gen_cram_block m cmd conts lines code =
  BTest (cmd, conts,
    (app (map (fun l -> BExp (expectation_line m l)) lines)
      (if N.eqb code N0 then [] else (BCode (dec code)) :: [])))

(** val gen_cram_doc :
    mode -> n list option -> n list -> n list list -> n list list -> n ->
    block list **)

let gen_cram_doc m title cmd conts lines code =
  app (match title with
       | Some t -> (BTitle t) :: []
       | None -> []) ((gen_cram_block m cmd conts lines code) :: [])

(** val gen_cram_doc_g :
    mode -> n list option -> n list -> n list list -> n list list -> n ->
    block list **)

let gen_cram_doc_g m title cmd conts lines code =
  app (match title with
       | Some t -> (BTitle t) :: []
       | None -> []) ((BTest (cmd, conts,
    (app (map (fun x -> BExp x) (guarded_lines true m lines))
      (if N.eqb code N0 then [] else (BCode (dec code)) :: [])))) :: [])

(** val gen_body : mode -> n list list -> n -> bline list **)

let gen_body m lines code =
  app (map (fun l -> BExp (expectation_line m l)) lines)
    (if N.eqb code N0 then [] else (BCode (dec code)) :: [])

(** val md_block_text : n list -> n list list -> bline list -> n list list **)

let md_block_text cmd conts body =
  app ((app p_DOLLAR cmd) :: [])
    (app (map (fun x -> app p_GT x) conts) (map render_body body))

(** val gen_md_doc :
    mode -> n list option -> n list -> n list list -> n list list -> n ->
    elem list **)

let gen_md_doc m title cmd conts lines code =
  app
    (match title with
     | Some t -> (EHeading ((S O), t)) :: (EBlank :: [])
     | None -> []) ((EScrut ((S
    (max_bt (S (S O)) (md_block_text cmd conts (gen_body m lines code)))),
    None, [], [], (Some ((cmd, conts), (gen_body m lines code))), [])) :: [])

(** val gen_body_g : mode -> n list list -> n -> bline list **)

let gen_body_g m lines code =
  app (map (fun x -> BExp x) (guarded_lines true m lines))
    (if N.eqb code N0 then [] else (BCode (dec code)) :: [])

(** val gen_md_doc_g :
    mode -> n list option -> n list option -> n list -> n list list -> n list
    list -> n -> elem list **)

let gen_md_doc_g m cfg title cmd conts lines code =
  app
    (match title with
     | Some t -> (EHeading ((S O), t)) :: (EBlank :: [])
     | None -> []) ((EScrut ((S
    (max_bt (S (S O)) (md_block_text cmd conts (gen_body_g m lines code)))),
    cfg, [], [], (Some ((cmd, conts), (gen_body_g m lines code))), [])) :: [])

type gtest = { g_title : n list option; g_cmd : n list;
               g_conts : n list list; g_lines : n list list; g_code : 
               n }

(** val gen_cram_one : mode -> gtest -> block list **)

let gen_cram_one m t =
  gen_cram_doc m t.g_title t.g_cmd t.g_conts t.g_lines t.g_code

(** val gen_cram_docs : mode -> gtest list -> block list **)

let rec gen_cram_docs m = function
| [] -> []
| t :: r ->
  (match r with
   | [] -> gen_cram_one m t
   | _ :: _ ->
     app (gen_cram_one m t)
       (app (BBlank :: (BBlank :: [])) (gen_cram_docs m r)))

(** val gen_cram_one_g : mode -> gtest -> block list **)

let gen_cram_one_g m t =
  gen_cram_doc_g m t.g_title t.g_cmd t.g_conts t.g_lines t.g_code

(** val gen_cram_docs_g : mode -> gtest list -> block list **)

let rec gen_cram_docs_g m = function
| [] -> []
| t :: r ->
  (match r with
   | [] -> gen_cram_one_g m t
   | _ :: _ ->
     app (gen_cram_one_g m t)
       (app (BBlank :: (BBlank :: [])) (gen_cram_docs_g m r)))

(** val gen_md_one_g : mode -> n list option -> gtest -> elem list **)

let gen_md_one_g m cfg t =
  gen_md_doc_g m cfg t.g_title t.g_cmd t.g_conts t.g_lines t.g_code

(** val gen_md_docs_g : mode -> n list option -> gtest list -> elem list **)

let rec gen_md_docs_g m cfg = function
| [] -> []
| t :: r ->
  (match r with
   | [] -> gen_md_one_g m cfg t
   | _ :: _ ->
     app (gen_md_one_g m cfg t)
       (app (EBlank :: (EBlank :: [])) (gen_md_docs_g m cfg r)))

(** val gen_md_one : mode -> n list option -> gtest -> elem list **)

let gen_md_one m cfg t =
  app
    (match t.g_title with
     | Some x -> (EHeading ((S O), x)) :: (EBlank :: [])
     | None -> []) ((EScrut ((S
    (max_bt (S (S O))
      (md_block_text t.g_cmd t.g_conts (gen_body m t.g_lines t.g_code)))),
    cfg, [], [], (Some ((t.g_cmd, t.g_conts),
    (gen_body m t.g_lines t.g_code))), [])) :: [])

(** val gen_md_docs : mode -> n list option -> gtest list -> elem list **)

let rec gen_md_docs m cfg = function
| [] -> []
| t :: r ->
  (match r with
   | [] -> gen_md_one m cfg t
   | _ :: _ ->
     app (gen_md_one m cfg t)
       (app (EBlank :: (EBlank :: [])) (gen_md_docs m cfg r)))

(** val is_az : n -> bool **)

let is_az c =
  (||)
    ((&&) (N.leb (Npos (XI (XO (XO (XO (XO (XI XH))))))) c)
      (N.leb c (Npos (XO (XI (XO (XI (XI (XI XH)))))))))
    ((&&) (N.leb (Npos (XI (XO (XO (XO (XO (XO XH))))))) c)
      (N.leb c (Npos (XO (XI (XO (XI (XI (XO XH)))))))))

(** val is_09 : n -> bool **)

let is_09 c =
  (&&) (N.leb (Npos (XO (XO (XO (XO (XI XH)))))) c)
    (N.leb c (Npos (XI (XO (XO (XI (XI XH)))))))

(** val keeps_escape : n -> bool **)

let keeps_escape c =
  (||)
    (existsb (N.eqb c) ((Npos (XI (XI (XO (XI (XI (XO XH))))))) :: ((Npos (XI
      (XO (XI (XI (XI (XO XH))))))) :: ((Npos (XI (XI (XO (XI (XI (XI
      XH))))))) :: ((Npos (XI (XO (XI (XI (XI (XI XH))))))) :: ((Npos (XO (XO
      (XO (XI (XO XH)))))) :: ((Npos (XI (XO (XO (XI (XO XH)))))) :: ((Npos
      (XO (XO (XI (XI (XI (XI XH))))))) :: ((Npos (XI (XI (XI (XI (XI
      XH)))))) :: ((Npos (XO (XI (XO (XI (XO XH)))))) :: ((Npos (XI (XI (XO
      (XI (XO XH)))))) :: ((Npos (XI (XO (XI (XI (XO XH)))))) :: ((Npos (XO
      (XI (XI (XI (XO XH)))))) :: ((Npos (XO (XI (XI (XI (XI (XO
      XH))))))) :: ((Npos (XO (XO (XI (XO (XO XH)))))) :: ((Npos (XO (XO (XI
      (XI (XI (XO XH))))))) :: [])))))))))))))))) (is_az c)

(** val cleanup : n list -> n list **)

let rec cleanup = function
| [] -> []
| c :: r ->
  if N.eqb c (Npos (XO (XO (XI (XI (XI (XO XH)))))))
  then (match r with
        | [] -> (Npos (XO (XO (XI (XI (XI (XO XH))))))) :: []
        | c2 :: r2 ->
          app
            (if keeps_escape c2
             then (Npos (XO (XO (XI (XI (XI (XO XH))))))) :: (c2 :: [])
             else c2 :: []) (cleanup r2))
  else c :: (cleanup r)

(** val take_digits : n list -> n list * n list **)

let rec take_digits s = match s with
| [] -> ([], [])
| c :: r ->
  if is_09 c
  then let (d, rest) = take_digits r in ((c :: d), rest)
  else ([], s)

(** val quantifier_body : n list -> (n list * n list) option **)

let quantifier_body s =
  let (d1, r1) = take_digits s in
  (match d1 with
   | [] -> None
   | _ :: _ ->
     (match r1 with
      | [] -> None
      | n0 :: r2 ->
        (match n0 with
         | N0 -> None
         | Npos p ->
           (match p with
            | XI p0 ->
              (match p0 with
               | XO p1 ->
                 (match p1 with
                  | XI p2 ->
                    (match p2 with
                     | XI p3 ->
                       (match p3 with
                        | XI p4 ->
                          (match p4 with
                           | XI p5 ->
                             (match p5 with
                              | XH -> Some (d1, r2)
                              | _ -> None)
                           | _ -> None)
                        | _ -> None)
                     | _ -> None)
                  | _ -> None)
               | _ -> None)
            | XO p0 ->
              (match p0 with
               | XO p1 ->
                 (match p1 with
                  | XI p2 ->
                    (match p2 with
                     | XI p3 ->
                       (match p3 with
                        | XO p4 ->
                          (match p4 with
                           | XH ->
                             let (d2, r3) = take_digits r2 in
                             (match r3 with
                              | [] -> None
                              | n1 :: rest ->
                                (match n1 with
                                 | N0 -> None
                                 | Npos p5 ->
                                   (match p5 with
                                    | XI p6 ->
                                      (match p6 with
                                       | XO p7 ->
                                         (match p7 with
                                          | XI p8 ->
                                            (match p8 with
                                             | XI p9 ->
                                               (match p9 with
                                                | XI p10 ->
                                                  (match p10 with
                                                   | XI p11 ->
                                                     (match p11 with
                                                      | XH ->
                                                        Some
                                                          ((app d1
                                                             (app ((Npos (XO
                                                               (XO (XI (XI
                                                               (XO
                                                               XH)))))) :: [])
                                                               d2)), rest)
                                                      | _ -> None)
                                                   | _ -> None)
                                                | _ -> None)
                                             | _ -> None)
                                          | _ -> None)
                                       | _ -> None)
                                    | _ -> None)))
                           | _ -> None)
                        | _ -> None)
                     | _ -> None)
                  | _ -> None)
               | _ -> None)
            | XH -> None))))

(** val takes_braces : n -> bool **)

let takes_braces c =
  (||)
    ((||)
      ((||)
        ((||) (N.eqb c (Npos (XO (XO (XO (XO (XI (XI XH))))))))
          (N.eqb c (Npos (XO (XO (XO (XO (XI (XO XH)))))))))
        (N.eqb c (Npos (XO (XO (XO (XI (XI (XI XH)))))))))
      (N.eqb c (Npos (XI (XO (XI (XO (XI (XI XH)))))))))
    (N.eqb c (Npos (XI (XO (XI (XO (XI (XO XH))))))))

(** val split_close : n list -> (n list * n list) option **)

let rec split_close = function
| [] -> None
| c :: r ->
  if N.eqb c (Npos (XI (XO (XI (XI (XI (XI XH)))))))
  then Some ((c :: []), r)
  else (match split_close r with
        | Some p -> let (a, b) = p in Some ((c :: a), b)
        | None -> None)

(** val is_quantifier_start : n list -> bool **)

let is_quantifier_start = function
| [] -> false
| c :: r ->
  (&&) (N.eqb c (Npos (XI (XI (XO (XI (XI (XI XH))))))))
    (match quantifier_body r with
     | Some _ -> true
     | None -> false)

(** val misused_rep : nat -> n list -> n list **)

let rec misused_rep fuel s =
  match fuel with
  | O -> s
  | S f ->
    (match s with
     | [] -> []
     | c :: r ->
       if N.eqb c (Npos (XI (XI (XO (XI (XI (XI XH)))))))
       then (match quantifier_body r with
             | Some p ->
               let (inner, rest) = p in
               app ((Npos (XI (XI (XO (XI (XI (XI XH))))))) :: [])
                 (app inner
                   (app ((Npos (XI (XO (XI (XI (XI (XI XH))))))) :: [])
                     (misused_rep f rest)))
             | None ->
               (Npos (XO (XO (XI (XI (XI (XO XH))))))) :: ((Npos (XI (XI (XO
                 (XI (XI (XI XH))))))) :: (misused_rep f r)))
       else if N.eqb c (Npos (XI (XO (XI (XI (XI (XI XH)))))))
            then (Npos (XO (XO (XI (XI (XI (XO XH))))))) :: ((Npos (XI (XO
                   (XI (XI (XI (XI XH))))))) :: (misused_rep f r))
            else if N.eqb c (Npos (XO (XO (XI (XI (XI (XO XH)))))))
                 then (match r with
                       | [] -> (Npos (XO (XO (XI (XI (XI (XO XH))))))) :: []
                       | c2 :: r2 ->
                         if is_quantifier_start r
                         then (Npos (XO (XO (XI (XI (XI (XO
                                XH))))))) :: (misused_rep f r)
                         else if (&&) (takes_braces c2)
                                   (match r2 with
                                    | [] -> false
                                    | n0 :: _ ->
                                      (match n0 with
                                       | N0 -> false
                                       | Npos p ->
                                         (match p with
                                          | XI p0 ->
                                            (match p0 with
                                             | XI p1 ->
                                               (match p1 with
                                                | XO p2 ->
                                                  (match p2 with
                                                   | XI p3 ->
                                                     (match p3 with
                                                      | XI p4 ->
                                                        (match p4 with
                                                         | XI p5 ->
                                                           (match p5 with
                                                            | XH -> true
                                                            | _ -> false)
                                                         | _ -> false)
                                                      | _ -> false)
                                                   | _ -> false)
                                                | _ -> false)
                                             | _ -> false)
                                          | _ -> false)))
                              then (match split_close r2 with
                                    | Some p ->
                                      let (inner, rest) = p in
                                      (Npos (XO (XO (XI (XI (XI (XO
                                      XH))))))) :: (c2 :: (app inner
                                                            (misused_rep f
                                                              rest)))
                                    | None ->
                                      (Npos (XO (XO (XI (XI (XI (XO
                                        XH))))))) :: (c2 :: (misused_rep f r2)))
                              else (Npos (XO (XO (XI (XI (XI (XO
                                     XH))))))) :: (c2 :: (misused_rep f r2)))
                 else c :: (misused_rep f r))

(** val misused_repetition : n list -> n list **)

let misused_repetition s =
  misused_rep (S (length s)) s

(** val class_closes_later : n -> n list -> bool **)

let rec class_closes_later prev = function
| [] -> false
| c :: r ->
  if negb (N.eqb prev (Npos (XO (XO (XI (XI (XI (XO XH))))))))
  then if N.eqb c (Npos (XI (XO (XI (XI (XI (XO XH)))))))
       then true
       else if N.eqb c (Npos (XI (XI (XO (XI (XI (XO XH)))))))
            then false
            else class_closes_later c r
  else class_closes_later c r

(** val misused_class : bool -> n list -> n list **)

let rec misused_class in_cc = function
| [] -> []
| c :: r ->
  if N.eqb c (Npos (XO (XO (XI (XI (XI (XO XH)))))))
  then c :: (match r with
             | [] -> []
             | c2 :: r2 -> c2 :: (misused_class in_cc r2))
  else if N.eqb c (Npos (XI (XI (XO (XI (XI (XO XH)))))))
       then app
              (if in_cc
               then (Npos (XO (XO (XI (XI (XI (XO XH))))))) :: ((Npos (XI (XI
                      (XO (XI (XI (XO XH))))))) :: [])
               else (Npos (XI (XI (XO (XI (XI (XO XH))))))) :: [])
              (misused_class true r)
       else if N.eqb c (Npos (XI (XO (XI (XI (XI (XO XH)))))))
            then if (&&) in_cc
                      (negb
                        (class_closes_later (Npos (XI (XO (XI (XI (XI (XO
                          XH))))))) r))
                 then (Npos (XI (XO (XI (XI (XI (XO
                        XH))))))) :: (misused_class false r)
                 else (Npos (XO (XO (XI (XI (XI (XO XH))))))) :: ((Npos (XI
                        (XO (XI (XI (XI (XO
                        XH))))))) :: (misused_class in_cc r))
            else c :: (misused_class in_cc r)

(** val regex_prepare : n list -> n list **)

let regex_prepare e =
  misused_class false (misused_repetition (cleanup e))

(** val regex_effective : (n list -> bool) -> n list -> n list **)

let regex_effective compiles e =
  let c = cleanup e in if compiles c then c else regex_prepare e

(** val sh_safe : n -> bool **)

let sh_safe c =
  (||)
    ((||)
      ((||)
        ((||)
          ((||)
            ((||)
              ((||)
                ((||)
                  ((||)
                    ((&&) (N.leb (Npos (XI (XO (XO (XO (XO (XI XH))))))) c)
                      (N.leb c (Npos (XO (XI (XO (XI (XI (XI XH)))))))))
                    ((&&) (N.leb (Npos (XI (XO (XO (XO (XO (XO XH))))))) c)
                      (N.leb c (Npos (XO (XI (XO (XI (XI (XO XH))))))))))
                  ((&&) (N.leb (Npos (XO (XO (XO (XO (XI XH)))))) c)
                    (N.leb c (Npos (XI (XO (XO (XI (XI XH)))))))))
                (N.eqb c (Npos (XI (XO (XI (XI (XO XH))))))))
              (N.eqb c (Npos (XI (XI (XI (XI (XI (XO XH)))))))))
            (N.eqb c (Npos (XI (XO (XI (XI (XI XH))))))))
          (N.eqb c (Npos (XI (XI (XI (XI (XO XH))))))))
        (N.eqb c (Npos (XO (XO (XI (XI (XO XH))))))))
      (N.eqb c (Npos (XO (XI (XI (XI (XO XH))))))))
    (N.eqb c (Npos (XI (XI (XO (XI (XO XH)))))))

(** val sh_escape : n list -> n list **)

let sh_escape s = match s with
| [] ->
  (Npos (XI (XI (XI (XO (XO XH)))))) :: ((Npos (XI (XI (XI (XO (XO
    XH)))))) :: [])
| _ :: _ ->
  if forallb sh_safe s
  then s
  else app ((Npos (XI (XI (XI (XO (XO XH)))))) :: [])
         (app
           (flat_map (fun c ->
             if (||) (N.eqb c (Npos (XI (XI (XI (XO (XO XH)))))))
                  (N.eqb c (Npos (XI (XO (XO (XO (XO XH)))))))
             then (Npos (XI (XI (XI (XO (XO XH)))))) :: ((Npos (XO (XO (XI
                    (XI (XI (XO XH))))))) :: (c :: ((Npos (XI (XI (XI (XO (XO
                    XH)))))) :: [])))
             else c :: []) s) ((Npos (XI (XI (XI (XO (XO XH)))))) :: []))

(** val t_EXPORT : n list **)

let t_EXPORT =
  (Npos (XI (XO (XI (XO (XO (XI XH))))))) :: ((Npos (XO (XO (XO (XI (XI (XI
    XH))))))) :: ((Npos (XO (XO (XO (XO (XI (XI XH))))))) :: ((Npos (XI (XI
    (XI (XI (XO (XI XH))))))) :: ((Npos (XO (XI (XO (XO (XI (XI
    XH))))))) :: ((Npos (XO (XO (XI (XO (XI (XI XH))))))) :: ((Npos (XO (XO
    (XO (XO (XO XH)))))) :: []))))))

(** val t_ECHO : n list **)

let t_ECHO =
  (Npos (XI (XO (XI (XO (XO (XI XH))))))) :: ((Npos (XI (XI (XO (XO (XO (XI
    XH))))))) :: ((Npos (XO (XO (XO (XI (XO (XI XH))))))) :: ((Npos (XI (XI
    (XI (XI (XO (XI XH))))))) :: ((Npos (XO (XO (XO (XO (XO
    XH)))))) :: ((Npos (XO (XI (XO (XO (XO XH)))))) :: [])))))

(** val t_ECHO2 : n list **)

let t_ECHO2 =
  (Npos (XI (XO (XO (XO (XI XH)))))) :: ((Npos (XO (XI (XI (XI (XI
    XH)))))) :: ((Npos (XO (XI (XI (XO (XO XH)))))) :: ((Npos (XO (XI (XO (XO
    (XI XH)))))) :: ((Npos (XO (XO (XO (XO (XO XH)))))) :: ((Npos (XI (XO (XI
    (XO (XO (XI XH))))))) :: ((Npos (XI (XI (XO (XO (XO (XI
    XH))))))) :: ((Npos (XO (XO (XO (XI (XO (XI XH))))))) :: ((Npos (XI (XI
    (XI (XI (XO (XI XH))))))) :: ((Npos (XO (XO (XO (XO (XO
    XH)))))) :: ((Npos (XO (XI (XO (XO (XO XH)))))) :: []))))))))))

(** val footer : n list -> n -> n list **)

let footer salt i =
  app pREFIX
    (app salt
      (app cOLONS
        (app (dec i) ((Npos (XO (XI (XO (XI (XI XH)))))) :: ((Npos (XO (XI
          (XO (XI (XI XH)))))) :: ((Npos (XO (XO (XI (XO (XO
          XH)))))) :: ((Npos (XI (XI (XI (XI (XI XH)))))) :: [])))))))

(** val export_lines : (n list * n list) list -> n list list option **)

let export_lines env0 =
  if forallb (fun kv -> text_eqb (sh_escape (fst kv)) (fst kv)) env0
  then Some
         (map (fun kv ->
           app t_EXPORT
             (app (fst kv)
               (app ((Npos (XI (XO (XI (XI (XI XH)))))) :: [])
                 (sh_escape (snd kv))))) env0)
  else None

(** val test_blocks : n list -> bool -> n -> n list list -> n list list **)

let rec test_blocks salt combined i = function
| [] -> []
| e :: r ->
  app
    (e :: ([] :: ((app t_ECHO
                    (app (footer salt i) ((Npos (XO (XI (XO (XO (XO
                      XH)))))) :: []))) :: [])))
    (app
      (if combined
       then []
       else (app t_ECHO2
              (app (footer salt i) ((Npos (XO (XI (XO (XO (XO XH)))))) :: []))) :: [])
      (test_blocks salt combined (N.add i (Npos XH)) r))

(** val script_join : n list list -> n list **)

let rec script_join = function
| [] -> []
| x :: r ->
  (match r with
   | [] -> x
   | _ :: _ -> app x (app ((Npos (XO (XI (XO XH)))) :: []) (script_join r)))

(** val compile_script :
    n list -> bool -> (n list * n list) list -> n list list -> n list option **)

let compile_script salt combined env0 exprs = match exprs with
| [] -> Some []
| _ :: _ ->
  (match export_lines env0 with
   | Some ex ->
     Some (script_join (app ex (test_blocks salt combined N0 exprs)))
   | None -> None)

(** val is_param : n -> bool **)

let is_param c =
  (||)
    ((&&) (N.leb (Npos (XO (XO (XO (XO (XI XH)))))) c)
      (N.leb c (Npos (XI (XO (XO (XI (XI XH))))))))
    (N.eqb c (Npos (XI (XI (XO (XI (XI XH)))))))

(** val sgr_tail : n list -> n list option **)

let rec sgr_tail = function
| [] -> None
| c :: r ->
  if is_param c
  then sgr_tail r
  else if N.eqb c (Npos (XI (XO (XI (XI (XO (XI XH)))))))
       then Some r
       else None

(** val strip_f : nat -> n list -> n list **)

let rec strip_f fuel l =
  match fuel with
  | O -> l
  | S f ->
    (match l with
     | [] -> []
     | a :: t ->
       (match t with
        | [] -> a :: []
        | b :: r ->
          if (&&) (N.eqb a (Npos (XI (XI (XO (XI XH))))))
               (N.eqb b (Npos (XI (XI (XO (XI (XI (XO XH))))))))
          then (match sgr_tail r with
                | Some r' -> strip_f f r'
                | None -> a :: (strip_f f t))
          else a :: (strip_f f t)))

(** val strip_sgr : n list -> n list **)

let strip_sgr l =
  strip_f (S (length l)) l

(** val sgr_text_f : nat -> n list -> bool **)

let rec sgr_text_f fuel l =
  match fuel with
  | O -> false
  | S f ->
    (match l with
     | [] -> true
     | a :: t ->
       (match t with
        | [] ->
          (||) (N.eqb a (Npos (XO (XI (XO XH)))))
            ((&&) (N.leb (Npos (XO (XO (XO (XO (XO XH)))))) a)
              (N.ltb a (Npos (XI (XI (XI (XI (XI (XI XH)))))))))
        | b :: r ->
          if (&&) (N.eqb a (Npos (XI (XI (XO (XI XH))))))
               (N.eqb b (Npos (XI (XI (XO (XI (XI (XO XH))))))))
          then (match sgr_tail r with
                | Some r' -> sgr_text_f f r'
                | None -> false)
          else (&&)
                 ((||) (N.eqb a (Npos (XO (XI (XO XH)))))
                   ((&&) (N.leb (Npos (XO (XO (XO (XO (XO XH)))))) a)
                     (N.ltb a (Npos (XI (XI (XI (XI (XI (XI XH))))))))))
                 (sgr_text_f f t)))

(** val sgr_text : n list -> bool **)

let sgr_text l =
  sgr_text_f (S (length l)) l

(** val make_exp : bool -> bool -> (nat -> bool) -> nat exp **)

let make_exp o m f =
  { opt = o; mul0 = m; mt = f }

(** val exp_opt : nat exp -> bool **)

let exp_opt e =
  e.opt

(** val exp_mul : nat exp -> bool **)

let exp_mul e =
  e.mul0
