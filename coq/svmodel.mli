
val xorb : bool -> bool -> bool

val negb : bool -> bool

type nat =
| O
| S of nat

val option_map : ('a1 -> 'a2) -> 'a1 option -> 'a2 option

val fst : ('a1 * 'a2) -> 'a1

val snd : ('a1 * 'a2) -> 'a2

val length : 'a1 list -> nat

val app : 'a1 list -> 'a1 list -> 'a1 list

type comparison =
| Eq
| Lt
| Gt

val add : nat -> nat -> nat

val sub : nat -> nat -> nat

val eqb : nat -> nat -> bool

val leb : nat -> nat -> bool

val ltb : nat -> nat -> bool

val max : nat -> nat -> nat

val eqb0 : bool -> bool -> bool

module Nat :
 sig
  val eqb : nat -> nat -> bool

  val leb : nat -> nat -> bool

  val ltb : nat -> nat -> bool
 end

val tl : 'a1 list -> 'a1 list

val nth : nat -> 'a1 list -> 'a1 -> 'a1

val nth_error : 'a1 list -> nat -> 'a1 option

val removelast : 'a1 list -> 'a1 list

val rev : 'a1 list -> 'a1 list

val concat : 'a1 list list -> 'a1 list

val map : ('a1 -> 'a2) -> 'a1 list -> 'a2 list

val flat_map : ('a1 -> 'a2 list) -> 'a1 list -> 'a2 list

val fold_left : ('a1 -> 'a2 -> 'a1) -> 'a2 list -> 'a1 -> 'a1

val fold_right : ('a2 -> 'a1 -> 'a1) -> 'a1 -> 'a2 list -> 'a1

val existsb : ('a1 -> bool) -> 'a1 list -> bool

val forallb : ('a1 -> bool) -> 'a1 list -> bool

val filter : ('a1 -> bool) -> 'a1 list -> 'a1 list

val combine : 'a1 list -> 'a2 list -> ('a1 * 'a2) list

val firstn : nat -> 'a1 list -> 'a1 list

val skipn : nat -> 'a1 list -> 'a1 list

val seq : nat -> nat -> nat list

val repeat : 'a1 -> nat -> 'a1 list

type positive =
| XI of positive
| XO of positive
| XH

type n =
| N0
| Npos of positive

type z =
| Z0
| Zpos of positive
| Zneg of positive

module Pos :
 sig
  type mask =
  | IsNul
  | IsPos of positive
  | IsNeg
 end

module Coq_Pos :
 sig
  val succ : positive -> positive

  val add : positive -> positive -> positive

  val add_carry : positive -> positive -> positive

  val pred_double : positive -> positive

  type mask = Pos.mask =
  | IsNul
  | IsPos of positive
  | IsNeg

  val succ_double_mask : mask -> mask

  val double_mask : mask -> mask

  val double_pred_mask : positive -> mask

  val sub_mask : positive -> positive -> mask

  val sub_mask_carry : positive -> positive -> mask

  val mul : positive -> positive -> positive

  val size_nat : positive -> nat

  val compare_cont : comparison -> positive -> positive -> comparison

  val compare : positive -> positive -> comparison

  val eqb : positive -> positive -> bool

  val of_succ_nat : nat -> positive
 end

module N :
 sig
  val succ_double : n -> n

  val double : n -> n

  val add : n -> n -> n

  val sub : n -> n -> n

  val mul : n -> n -> n

  val compare : n -> n -> comparison

  val eqb : n -> n -> bool

  val leb : n -> n -> bool

  val ltb : n -> n -> bool

  val max : n -> n -> n

  val size_nat : n -> nat

  val pos_div_eucl : positive -> n -> n * n

  val div_eucl : n -> n -> n * n

  val div : n -> n -> n

  val modulo : n -> n -> n

  val of_nat : nat -> n
 end

module Z :
 sig
  val opp : z -> z

  val eqb : z -> z -> bool

  val to_N : z -> n

  val of_N : n -> z
 end

type 'line exp = { opt : bool; mul0 : bool; mt : ('line -> bool) }

type 'line entry =
| EMatched of nat * (nat * 'line) list
| EUnmatched of nat
| EUnexpected of (nat * 'line) list

val is_nil : 'a1 list -> bool

val find_idx : ('a1 -> bool) -> 'a1 list -> nat option

val unmatched : nat -> 'a1 exp list -> 'a1 entry list

val number : nat -> 'a1 list -> (nat * 'a1) list

val loop :
  nat -> 'a1 exp list -> nat -> 'a1 list -> nat -> (nat * 'a1) list -> 'a1
  entry list option

val diff : 'a1 exp list -> 'a1 list -> 'a1 entry list option

val is_matched : 'a1 entry -> bool

val accepts : 'a1 exp list -> 'a1 list -> bool

val followers : 'a1 exp list -> nat list

val cands : 'a1 exp list -> bool -> nat list

val matches_at : 'a1 exp list -> 'a1 -> nat -> bool

val step : 'a1 exp list -> nat -> 'a1 exp list * bool

val detb : 'a1 exp list -> bool -> 'a1 list -> bool

val e_lines : 'a1 entry -> (nat * 'a1) list

val e_exps : 'a1 entry -> nat list

val lines_of : 'a1 entry list -> (nat * 'a1) list

val exps_of : 'a1 entry list -> nat list

val go : 'a1 exp -> ('a1 list -> bool) -> bool -> 'a1 list -> bool

val describedb : 'a1 exp list -> 'a1 list -> bool

val ssortedb : nat list -> bool

val pairs_eqb :
  ('a1 -> 'a1 -> bool) -> (nat * 'a1) list -> (nat * 'a1) list -> bool

val entry_okb : 'a1 exp list -> 'a1 entry -> bool

val conservation_b :
  ('a1 -> 'a1 -> bool) -> 'a1 exp list -> 'a1 list -> 'a1 entry list -> bool

type byte = n

val nL : byte

val split_aux : byte list -> byte list -> byte list list

val split_lines : byte list -> byte list list

val lines_aux : n list -> n list -> n list list

val str_lines : n list -> n list list

val orelse : 'a1 option -> 'a1 option -> 'a1 option

val first_some : 'a1 option list -> 'a1 option

type env = (n * n) list

val lookup : n -> env -> n option

type tcfg = { output_stream : n option; keep_crlf : bool option;
              timeout : n option; detached : bool option;
              skip_code : z option; strip_ansi : bool option;
              wait : n option; environment : env }

val with_defaults : tcfg -> tcfg -> tcfg

val with_overrides : tcfg -> tcfg -> tcfg

val with_environment : tcfg -> env -> tcfg

val tempty : tcfg

type dcfg = { d_append : n list; d_defaults : tcfg; d_prepend : n list;
              d_shell : n option; d_total_timeout : n option }

val dwith_defaults : dcfg -> dcfg -> dcfg

val dwith_overrides : dcfg -> dcfg -> dcfg

val dempty : dcfg

val effective : tcfg -> tcfg -> tcfg -> tcfg -> env -> tcfg

val opt_eqb : ('a1 -> 'a1 -> bool) -> 'a1 option -> 'a1 option -> bool

val precedence_b :
  tcfg -> tcfg -> tcfg -> tcfg -> env -> n list -> tcfg -> bool

val default_skip_document_code : z

val default_document_timeout_ms : n

val tc_default_markdown : tcfg

val tc_default_cram : tcfg

type exit =
| Code of z
| TimedOut
| ESkipped
| EDetached
| Unknown
| RunnerErr

type rstep = { status : exit; out_ok : bool }

type tcase = { expected : z option; t_skip : z; per_timeout : n option;
               empty_ok : bool }

type exec_result =
| ExOk of rstep list
| ExSkipped of nat
| ExTimeout of bool * rstep list
| ExFailed of nat

val cons_res : rstep -> exec_result -> exec_result

val exec : tcase list -> rstep list -> bool list -> nat -> exec_result

type res =
| Success
| Failed
| FailedTimeout
| RSkipped

val verdict : tcase -> rstep -> res

val zip_with : ('a1 -> 'a2 -> 'a3) -> 'a1 list -> 'a2 list -> 'a3 list

val doc_results :
  (tcase -> rstep -> res) -> tcase list -> exec_result -> res option list

val is_failure : res option -> bool

val exit_status : res option list list -> z

val effective_limit : n option -> n option -> (n * bool) option

val time_left : n option -> n -> n option

val gs_of : tcase list -> n option -> n list -> bool list

val limits_of : tcase list -> n option -> n list -> n option list

val exec_timed : tcase list -> rstep list -> n option -> n list -> exec_result

val count : (res option -> bool) -> res option list list -> nat

val is_success : res option -> bool

val is_skipped : res option -> bool

val is_reported : res option -> bool

val script_first_stop : rstep list -> rstep option

val find_skip : z -> rstep list -> nat -> nat option

val exec_script : z -> rstep list -> exec_result

val before_stop : rstep list -> rstep list

val produced : rstep list -> nat option -> rstep list

val exec_script2 : z -> rstep list -> nat option -> exec_result

val run_docs : (tcase list * exec_result) list -> res option list list * bool

val run_exit : (tcase list * exec_result) list -> z

val run_outcomes : (tcase list * exec_result) list -> res option list list

val stream_ok : n option -> bool -> bool -> bool

val is_scalar : n -> bool

val enc : n -> n list

val cont : n -> bool

val dec1 : n list -> (n * n list) option

val dec_all : nat -> n list -> n list option

val utf8_decode : n list -> n list option

val utf8_encode : n list -> n list

val other_ranges : (n * n) list

val whitespace_ranges : (n * n) list

val letter_ranges : (n * n) list

val hexd : n -> n

val printable : n -> bool

val byte_to_ascii : n -> n list

val has_unprintable_ascii : n list -> bool

val escaped_printable_ascii : n list -> n list

val in_ranges : (n * n) list -> n -> bool

val is_other : n -> bool

val esc_char : bool -> n -> n list

val escaped_printable_unicode : n list -> n list

val has_unprintable_unicode : n list -> bool

type mode =
| Ascii
| Unicode

type written =
| Plain of n list
| Escaped of n list

val trim_newlines_rev : n list -> n list

val trim_newlines : n list -> n list

val has_unprintable : mode -> n list -> bool

val escaped_printable : mode -> n list -> n list

val text_of : n list -> n list

val escaped_expectation : mode -> n list -> written

val sel : n -> n list

val unescape_tabs : n list -> n list

val digit : n -> n -> n option

val two : n -> n -> n -> n option

val resolve : n list -> n list option

val decode : n list -> n list option

val list_eqb : n list -> n list -> bool

val escaped_matches : n list -> n list -> bool option

val starts_with : n list -> n list -> bool

val repl : n list -> n list -> nat -> n list -> n list

val replace_all : n list -> n list -> n list -> n list

val occurs_at : n list -> n list -> nat -> bool

val single_at : n list -> n list -> nat -> bool

val render_chain : n list -> n list list -> nat list -> n list list -> n list

val template : n list

val ph_names : n list list

val chain_order : nat list

val excluded_value : n list

val excluded_names : n list list

val values : n list -> n list -> n list -> bool -> n list list

val render : n list -> n list -> n list -> bool -> n list

val around : n list -> n list -> bool -> n list

val expr_placeholder : n list

val is_crlf_at : n list -> bool

val crlf : n list -> n list

val has_crlf : n list -> bool

val replace_crlf : n list -> n list

val with_next : n list -> (n * n option) list

val dropped : (n * n option) -> bool

val crlf_spec : n list -> n list

val render_output :
  (n list -> n list) -> bool option -> bool option -> n list -> n list

type wr = bool * n list

val captured : bool -> wr list -> n list * n list

val recorded :
  (n list -> n list) -> bool -> bool option -> bool option -> wr list -> n
  list * n list

val kind_names : (n list * nat) list

val is_ws : n -> bool

val is_quant : n -> bool

val lookup_kind : n list -> (n list * nat) list -> nat option

val kind_ok : n list -> bool

val span_noparen : n list -> n list * n list

val split_mod : n list -> ((n list * n list) * n list) option

val eQUAL : n list

val extract : n list -> (n list * n list) * n list

type rule =
| REqual of n list
| RNoEol of n list
| REscaped of n list * n list
| RGlob of n list
| RRegex of n list

type expectation = { e_rule : rule; e_opt : bool; e_mul : bool }

val ends_with_rev : n list -> n list -> bool

val ends_with : n list -> n list -> bool

val strip_suffix : n list -> n list -> n list option

val s_NOEOL : n list

val s_ESCAPED : n list

val s_ESCAPED_Q : n list

val s_ESC : n list

val s_ESC_Q : n list

val expression_as_escaped : n list -> n list option

val make :
  (n list -> n list) -> (n list -> bool) -> (n list -> n list) -> nat -> n
  list -> rule option

type parsed =
| POk of expectation
| PErr

val parse :
  (n list -> n list) -> (n list -> bool) -> (n list -> n list) -> n list ->
  parsed

val quant_text : bool -> bool -> n list

val paren : n list -> n list -> n list

val k_ESCAPED : n list

val k_NOEOL : n list

val k_GLOB : n list

val k_REGEX : n list

val last_is_rparen : n list -> bool

val render_exp : mode -> expectation -> n list

val matches_content : rule -> n list -> bool option

val ends_in_newline : n list -> bool

val assure_newline : n list -> n list

val m_equal : n list -> n list -> bool

val m_noeol : n list -> n list -> bool

val m_escaped : n list -> n list -> bool

val nOEOL_SUFFIX : n list

val escaped_body : n list -> n list

val sTAR : n

val qM : n

val glob_match : n list -> n list -> bool

type re =
| Emp
| Eps
| Chr of n
| Any
| Cls of bool * n list
| Seq of re * re
| Alt of re * re
| Star of re

val cls_has : bool -> n list -> n -> bool

val nullable : re -> bool

val deriv : n -> re -> re

val full : re -> n list -> bool

val cram_glob_re_aux : nat -> n list -> re

val cram_glob_re : n list -> re

val is_meta : n -> bool

val lit : n -> n list

val print : re -> n list

val lit_user : n -> n list

val lit_in_class : n -> n list

val print_user : re -> n list

val print_top : re -> n list

type text = n list

type ptest = { pt_title : text; pt_cmd : text list; pt_exps : text list;
               pt_code : n option; pt_line : nat }

type lp = { lp_title : text option; lp_cmd : text list; lp_exps : text list;
            lp_code : n option; lp_in_command : bool; lp_start : nat option;
            lp_cases : ptest list }

val lp_init : lp

type 'a lres =
| LOk of 'a
| LErr

val strip_prefix : text -> text -> text option

val p_DOLLAR : text

val p_GT : text

val is_digit : n -> bool

val digits_value : n -> n list -> n

val extract_exit_code : text -> n option

val flush : lp -> ptest list -> lp

val end_testcase : lp -> nat -> lp lres

val add_body : (text -> bool) -> bool -> lp -> text -> nat -> lp lres

val set_title : lp -> text -> lp

val has_body : lp -> bool

val iNDENT : text

val is_comment : text -> bool

val cram_step : (text -> bool) -> lp -> text -> nat -> lp lres

val cram_loop : (text -> bool) -> lp -> text list -> nat -> lp lres

val parse_cram : (text -> bool) -> text list -> ptest list lres

type bline =
| BExp of text
| BCode of text

type block =
| BTitle of text
| BComment of text
| BBlank
| BTest of text * text list * bline list

val render_bline : bline -> text

val render_block : block -> text list

val render_cram : block list -> text list

val title_ok : text -> bool

val comment_ok : text -> bool

val exp_ok : (text -> bool) -> text -> bool

val code_ok : text -> bool

val count_codes : bline list -> nat

val body_ok : (text -> bool) -> bline list -> bool

val no_lf : text -> bool

val block_ok : (text -> bool) -> block -> bool

val wf_cram : (text -> bool) -> block list -> bool

val exps_of0 : bline list -> text list

val code_of : bline list -> n option

val tests_from : block list -> nat -> text option -> ptest list

val cram_tests_of : block list -> ptest list

val is_white : n -> bool

val is_letter : n -> bool

val bT : n

val drop_while : (n -> bool) -> text -> text

val trim_start : text -> text

val trim_end : text -> text

val trim : text -> text

val count_bt : text -> nat

val split_at_brace : text -> text * text option

val extract_code_block_start : text -> ((nat * text) * text) option

val closes : nat -> text -> bool

val sCRUT : text

val dASHES : text

val inner_config : text -> text option

type token =
| TLine of nat * text
| TFront of text list * text list
| TVerb of nat * text * text list
| TTest of text option * text list * (nat * text) list * text list

val tok_raw : token -> text list

type mstate =
| Top of bool
| InFront of text list * text list
| InVerb of nat * nat * text * text list
| InTest of nat * text option * text list * (nat * text) list * text list

val mstep : mstate -> nat -> text -> mstate * token list

val mflush : mstate -> token list

val mrun : mstate -> nat -> text list -> token list

val md_tokens : text list -> token list

val drop_hashes : text -> text

val extract_title : text -> text option

val join_nl : text list -> text

type mtest = { mt_test : ptest; mt_cfg : text option }

val feed_code : (text -> bool) -> lp -> (nat * text) list -> lp lres

val last_idx : (nat * text) list -> nat

val parse_tokens :
  (text -> bool) -> (text list -> bool) -> (text -> bool) -> token list -> lp
  -> text list -> text option list -> (lp * text option list) lres

val parse_md :
  (text -> bool) -> (text list -> bool) -> (text -> bool) -> text list ->
  mtest list lres

type elem =
| EFront of text list
| EProse of text
| EHeading of nat * text
| EBlank
| EForeign of nat * text * text list * text
| EScrut of nat * text option * text * text list
   * ((text * text list) * bline list) option * text

val fence : nat -> text

val hashes : nat -> text

val render_body : bline -> text

val render_elem : elem -> text list

val render_md : elem list -> text list

type tstate = { ts_para : text list; ts_title : text option }

val title_line : tstate -> text -> tstate

val md_tests_from : elem list -> nat -> tstate -> mtest list

val md_tests_of : elem list -> mtest list

val not_fence_start : text -> bool

val no_nl : text -> bool

val md_exp_ok : (text -> bool) -> nat -> text -> bool

val md_body_ok : (text -> bool) -> nat -> bline list -> bool

val lang_of : text -> text

val lang_ok : text -> bool

val cfg_text_ok : (text -> bool) -> text -> bool

val elem_ok :
  (text -> bool) -> (text list -> bool) -> (text -> bool) -> bool -> elem ->
  bool

val wf_md_from :
  (text -> bool) -> (text list -> bool) -> (text -> bool) -> bool -> elem
  list -> bool

val wf_md :
  (text -> bool) -> (text list -> bool) -> (text -> bool) -> elem list -> bool

val ends_with_lf : n list -> bool

val s_EQUAL : n list

val needs_kind : n list -> bool

val expectation_line : mode -> n list -> text

val x29 : n list

val guard_noeol : text -> text

val written_line : mode -> n list -> text

val guarded_line : bool -> bool -> mode -> n list -> text

val guarded_lines : bool -> mode -> n list list -> text list

val rule_matches : rule -> n list -> bool

val has_command : (nat * text) list -> bool

val max_bt : nat -> text list -> nat

val fence_for : text list -> text

val header : text option -> text

val update_tok : token -> text list list -> text list * text list list

val update_toks : token list -> text list list -> text list

val update_md : text list -> text list list -> text list

val is_test : token -> bool

val outside : token list -> text list

val needs_u_escape : n -> bool

val hex4 : n -> n list

val quote_char : n -> n list

val yaml_quoted : n list -> n list

val hexval : n -> n option

type qst =
| QN
| QB
| QU of nat * n

val rq : qst -> n list -> n list -> (n list * n list) option

val yaml_unquote : n list -> n list option

val is_alpha : n -> bool

val is_digit_c : n -> bool

val plain_first : n -> bool

val plain_char : n -> bool

val lower : n -> n

val kEYWORDS : n list list

val is_plain : n list -> bool

val yaml_scalar : n list -> n list

val read_scalar : n list -> n list option

val sEP : n list

val cOLON : n list

val join_sep : n list list -> n list

val env_entry : (n list * n list) -> n list

val env_text : (n list * n list) list -> n list

val starts2 : n -> n -> n list -> bool

val head_is : n -> n list -> bool

val split_colon : n list -> (n list * n list) option

val read_key : n list -> (n list * n list) option

val read_value : n list -> (n list * n list) option

val read_entries : nat -> n list -> ((n list * n list) list * n list) option

val read_env : n list -> ((n list * n list) list * n list) option

val dec_aux : nat -> n -> n list -> n list

val dec : n -> n list

val decz : z -> n list

type dline =
| DMatched of n * bool * n list * n option
| DUnmatched of n * bool * n list * n list
| DUnexpected of (n * n list) list

type result =
| OSuccess
| OMalformed of n * dline list
| OExit of z * z
| OInternal of n list
| OTimeout
| OSkipped

type outcome = { o_location : n list option; o_title : n list;
                 o_expr : n list; o_line : n; o_nexps : n; o_exit : z option;
                 o_cram : bool; o_esc : mode; o_stdout : n list;
                 o_stderr : n list; o_res : result }

type rr =
| RendOk of n list
| RendErr
| RendPanic

val sP : n

val join : n list -> n list list -> n list

val split_on_lf : n list -> n list -> n list list

val count_lf : n list -> n

val shell_expression_lines : outcome -> n

val ends_lf : n list -> bool

val assure_nl : n list -> n list

val written_text : written -> n list

val p_OUT : n list

val to_output_string : mode -> n list -> n list

val h_STDOUT : n list

val h_STDERR : n list

val to_error_string : outcome -> n list

val rtrim_ws : n list -> n list

val blen : n list -> nat

val split_at_byte : n list -> nat -> (n list * n list) option

val vis : n -> n

val space_start_index : n list -> nat

val highlight : n list -> n list option

val out_num : nat -> n option -> n list option

val exp_num : nat -> n option -> bool -> n list option

val bAR : n list

val row : nat -> n option -> n option -> bool -> n -> n list -> n list option

type pparams = { max_sur : nat; absolute : bool; summarize : bool }

val is_err_line : dline -> bool

val find_pos : ('a1 -> bool) -> 'a1 list -> nat option

val next_err : dline list -> nat -> nat option

val nOEOL_B : n list

val dOTS : n list

val unexpected_rows : nat -> mode -> n -> (n * n list) list -> n list option

val pretty_lines :
  pparams -> nat -> mode -> n -> dline list -> nat -> nat option -> dline
  list -> n list option

val line_base : pparams -> outcome -> n

val width : pparams -> outcome -> n -> nat

val pretty_malformed : pparams -> outcome -> n -> dline list -> n list option

val sLASHES : n list

val header_to_title : n -> n list -> n list

val divider : n -> n list

val s_LINE : n list

val render_header : outcome -> n list

val t_UNEXPECTED_EXIT : n list

val t_EXPECTED : n list

val t_ACTUAL : n list

val t_TIMEOUT : n list

val t_ERROR : n list

val pretty_error : pparams -> outcome -> n list option

val res_failure : result -> bool

val res_skipped : result -> bool

val res_success : result -> bool

val pretty_section : pparams -> outcome -> n list option

val pretty_sections : pparams -> outcome list -> n list option

val text_eqb : n list -> n list -> bool

val distinct_count : n list list -> n list list -> nat

val locations : outcome list -> n list list

val count_if : (result -> bool) -> outcome list -> n

val t_RESULT : n list

val t_DOCS : n list

val t_TESTS : n list

val t_SUCC : n list

val t_FAILED : n list

val t_SKIPPED : n list

val pretty_summary : outcome list -> n list

val render_pretty : pparams -> outcome list -> rr

val text_ltb : n list -> n list -> bool

val key_leb : outcome -> outcome -> bool

val insert_sorted : outcome -> outcome list -> outcome list

val stable_sort : outcome list -> outcome list

val length_suffix : nat -> n list

val t_EXITK : n list

val t_MALK : n list

val diff_header : n -> nat -> n -> nat -> n list -> n list -> n list

val join_multiline : n list -> n list

val line_prefix : outcome -> n list

type hunk = { um_start : n option; um_lines : n list list;
              ux_start : n option; ux_lines : n list list }

val hunk_empty : hunk

val in_rng : n -> n -> n -> bool

val second3 : n -> n -> bool

val second4 : n -> n -> bool

val rEPL : n

val utf8_lossy : n list -> n list

val lossy_line : n list -> n list

val emit_hunk : outcome -> n -> n list -> hunk -> n list

val hunks_of : n -> hunk -> dline list -> hunk list

val unified : outcome -> n -> n list -> dline list -> n list

val t_INTERNAL : n list

val t_PATH : n list

val t_TITLE : n list

val t_ERRORL : n list

val diff_error : outcome -> n list

val opt_text_eqb : n list option -> n list option -> bool

val t_NEW : n list

val diff_body : n list option -> outcome list -> n list

val render_diff : outcome list -> rr

val k_SUCCESS : n list

val k_MALFORMED : n list

val k_EXIT : n list

val k_INTERNAL : n list

val k_TIMEOUT : n list

val k_SKIPPED : n list

val kind_of : result -> n list

val dkind : dline -> n

type sentry = { se_location : n list option; se_kind : n list;
                se_diff : n list }

val structured : outcome list -> sentry list

val dline_ok : n -> n -> dline -> bool

val result_ok : outcome -> bool

val env_always : (n list * n list option) list

val env_cram_compat : (n list * n list option) list

val mem : n list -> n list list -> bool

val candidate : n list -> nat -> n list

val search :
  nat -> n list list -> n list list -> n list -> nat -> n list option

val next_name :
  n list list -> n list list -> n list -> (n list * n list list) option

val next_names :
  n list list -> n list list -> n list list -> n list list option

type flag =
| FDefault
| FWork
| FKeep

type dclass =
| DRun
| DBadInclude
| DExecError

type seg =
| SExec of nat
| STemp of nat
| SState of nat
| STmpSub
| SDoc of n list
| SFile of nat
| SGiven

type path = seg list

val seg_eqb : seg -> seg -> bool

val is_prefix : path -> path -> bool

type fs = path list

val create : path -> fs -> fs

val remove_tree : path -> fs -> fs

val env_create : flag -> nat -> fs -> fs

val env_drop : flag -> nat -> fs -> fs

val work_dir : flag -> nat -> n list -> path

val tmp_dir : flag -> nat -> path

type doc = { d_name : n list; d_class : dclass; d_work_files : nat list;
             d_tmp_files : nat list }

val dir_run_doc : flag -> nat -> doc -> fs -> fs * bool

val dir_run_docs : flag -> nat -> doc list -> fs -> fs

val dir_processed : doc list -> nat

val scrut_test_value : n list -> n -> n list

type 'a assoc = (n list * 'a) list

val lookup0 : n list -> 'a1 assoc -> 'a1 option

val name_mem : n list -> n list list -> bool

val excluded : n list -> bool

val persisted_names : n list list -> n list list -> n list list

val pREFIX : n list

val cOLONS : n list

val starts : n list -> n list -> bool

val find_sub : n list -> n list -> nat option

val strip_nl_rev : n list -> n list

val trim_nl : n list -> n list

val is_digit0 : n -> bool

val value : n list -> n

val all_digits : n list -> bool

val parse_usize : n list -> n option

val parse_i32 : n list -> z option

type dsearch =
| NotFound
| Found of n list * n * z
| Bad

val parse_divider : n list -> dsearch

val parse_salted : n list -> n list -> dsearch

val iterate : n list -> n list list -> n list -> n -> (n list * z) list option

val split_outputs : n list -> n list -> (n list * z) list option

val finished_lines :
  n list -> z -> n list list -> n -> n option -> n * n option

val finished : n list -> z -> n list -> n * n option

type sverdict =
| VSkip of n
| VOuts of (n list * z) list
| VErr

val first_code : z -> (n list * z) list -> n -> n option

val script_verdict : n list -> z -> n -> z -> n list -> sverdict

val divider_line : n list -> n -> z -> n list

val ideal : n list -> n -> (n list * z) list -> n list

val u64 : n

val nANOS : n

val y_SECS : n

val mO_SECS : n

val s_YEAR : n list

val s_MONTH : n list

val s_DAY : n list

val s_H : n list

val s_M : n list

val s_S : n list

val s_MS : n list

val s_US : n list

val s_NS : n list

val item_text : n -> n list -> bool -> n list

val dchain : bool -> ((n * n list) * bool) list -> n list

val dur_items : n -> n -> ((n * n list) * bool) list

val format_duration : n -> n -> n list

type unit_t =
| UNano
| UMicro
| UMilli
| USec
| UMin
| UHour
| UDay
| UWeek
| UMonth
| UYear

val unit_table : (n list * unit_t) list

val lookup_unit : (n list * unit_t) list -> n list -> unit_t option

val unit_of : n list -> unit_t option

val chk : n -> n option

val duration_new : n -> n -> (n * n) option

val add_current : n -> n -> (n * n) -> (n * n) option

val unit_amount : unit_t -> n -> (n * n) option

val parse_unit : n -> n list -> (n * n) -> (n * n) option

val is_white0 : n -> bool

val is_unit_letter : n -> bool

type pstate =
| SFirst
| SNum of n
| SUnit of n * n list

type pres =
| DOk of n * n
| DErr
| DUnsupported

val pgo : n list -> pstate -> (n * n) -> bool -> pres

val parse_duration : n list -> pres

type ycfg = { y_os : n option; y_kc : bool option; y_to : (n * n) option;
              y_de : bool option; y_sk : z option; y_sa : bool option;
              y_wa : ((n * n) * n list option) option;
              y_env : (n list * n list) list }

val yempty : ycfg

val k_OS : n list

val k_KC : n list

val k_TO : n list

val k_DE : n list

val k_SK : n list

val k_SA : n list

val k_WA : n list

val k_ENV : n list

val t_TRUE : n list

val t_FALSE : n list

val t_STDOUT : n list

val t_STDERR : n list

val t_COMBINED : n list

val wAIT_OPEN : n list

val wAIT_PATH : n list

type fval =
| FStream of n
| FBool of bool
| FDur of n * n
| FInt of z
| FWait of n * n * n list option
| FEnv of (n list * n list) list

val stream_name : n -> n list

val bool_text : bool -> n list

val value_text : fval -> n list

val entry_text : (n list * fval) -> n list

val opt_entry : n list -> ('a1 -> fval) -> 'a1 option -> (n list * fval) list

val entries_of : ycfg -> (n list * fval) list

val one_liner : ycfg -> n list

val take_plain : n list -> n list * n list

val ystrip : n list -> n list -> n list option

val read_dur : n list -> ((n * n) * n list) option

val read_bool : n list -> (bool * n list) option

val read_stream : n list -> (n * n list) option

val read_flow_scalar : n list -> (n list * n list) option

type ykind =
| KStream
| KBool
| KDur
| KInt
| KWait
| KEnv

val key_kind : n list -> ykind option

val read_wait : n list -> (fval * n list) option

val read_kind : ykind -> n list -> (fval * n list) option

val read_fval : n list -> n list -> (fval * n list) option

val read_items : nat -> n list -> ((n list * fval) list * n list) option

val read_mapping : n list -> ((n list * fval) list * n list) option

val set_field : ycfg -> (n list * fval) -> ycfg option

val assemble : (n list * fval) list -> ycfg -> ycfg option

val read_one_liner : n list -> ycfg option

val oeqb : ('a1 -> 'a1 -> bool) -> 'a1 option -> 'a1 option -> bool

val pair_eqb : (n * n) -> (n * n) -> bool

val wait_eqb : ((n * n) * n list option) -> ((n * n) * n list option) -> bool

val env_get : n list -> (n list * n list) list -> n list option

val env_eqb : (n list * n list) list -> (n list * n list) list -> bool

val keep : ('a1 -> 'a1 -> bool) -> 'a1 option -> 'a1 option -> 'a1 option

val ydiff : ycfg -> ycfg -> ycfg

val oor : 'a1 option -> 'a1 option -> 'a1 option

val ywith_defaults : ycfg -> ycfg -> ycfg

val ycfg_is_empty : ycfg -> bool

val gen_config_suffix : ycfg -> ycfg -> n list

val gen_cram_block :
  mode -> n list -> n list list -> n list list -> n -> block

val gen_cram_doc :
  mode -> n list option -> n list -> n list list -> n list list -> n -> block
  list

val gen_cram_doc_g :
  mode -> n list option -> n list -> n list list -> n list list -> n -> block
  list

val gen_body : mode -> n list list -> n -> bline list

val md_block_text : n list -> n list list -> bline list -> n list list

val gen_md_doc :
  mode -> n list option -> n list -> n list list -> n list list -> n -> elem
  list

val gen_body_g : mode -> n list list -> n -> bline list

val gen_md_doc_g :
  mode -> n list option -> n list option -> n list -> n list list -> n list
  list -> n -> elem list

type gtest = { g_title : n list option; g_cmd : n list;
               g_conts : n list list; g_lines : n list list; g_code : 
               n }

val gen_cram_one : mode -> gtest -> block list

val gen_cram_docs : mode -> gtest list -> block list

val gen_cram_one_g : mode -> gtest -> block list

val gen_cram_docs_g : mode -> gtest list -> block list

val gen_md_one_g : mode -> n list option -> gtest -> elem list

val gen_md_docs_g : mode -> n list option -> gtest list -> elem list

val gen_md_one : mode -> n list option -> gtest -> elem list

val gen_md_docs : mode -> n list option -> gtest list -> elem list

val is_az : n -> bool

val is_09 : n -> bool

val keeps_escape : n -> bool

val cleanup : n list -> n list

val take_digits : n list -> n list * n list

val quantifier_body : n list -> (n list * n list) option

val takes_braces : n -> bool

val split_close : n list -> (n list * n list) option

val is_quantifier_start : n list -> bool

val misused_rep : nat -> n list -> n list

val misused_repetition : n list -> n list

val class_closes_later : n -> n list -> bool

val misused_class : bool -> n list -> n list

val regex_prepare : n list -> n list

val regex_effective : (n list -> bool) -> n list -> n list

val sh_safe : n -> bool

val sh_escape : n list -> n list

val t_EXPORT : n list

val t_ECHO : n list

val t_ECHO2 : n list

val footer : n list -> n -> n list

val export_lines : (n list * n list) list -> n list list option

val test_blocks : n list -> bool -> n -> n list list -> n list list

val script_join : n list list -> n list

val compile_script :
  n list -> bool -> (n list * n list) list -> n list list -> n list option

val is_param : n -> bool

val sgr_tail : n list -> n list option

val strip_f : nat -> n list -> n list

val strip_sgr : n list -> n list

val sgr_text_f : nat -> n list -> bool

val sgr_text : n list -> bool

val make_exp : bool -> bool -> (nat -> bool) -> nat exp

val exp_opt : nat exp -> bool

val exp_mul : nat exp -> bool
