(* C13: the one class of ANSI escape sequences whose removal is decided by the checks: colour / style sequences
   ESC [ <digits and semicolons> m in otherwise plain text.  [strip_sgr] removes exactly those.  Definitions only. *)
From Coq Require Import List NArith Bool.
Import ListNotations.
Local Open Scope N_scope.

Definition is_param (c : N) : bool := ((48 <=? c) && (c <=? 57)) || (c =? 59).
(* [l] begins right after `ESC [`: the rest after the closing `m`, if the sequence is well formed *)
Fixpoint sgr_tail (l : list N) : option (list N) :=
  match l with
  | c :: r => if is_param c then sgr_tail r else if c =? 109 then Some r else None
  | [] => None
  end.
Fixpoint strip_f (fuel : nat) (l : list N) : list N :=
  match fuel with
  | O => l
  | S f =>
    match l with
    | [] => []
    | a :: t =>
      match t with
      | b :: r =>
        if (a =? 27) && (b =? 91) then match sgr_tail r with Some r' => strip_f f r' | None => a :: strip_f f t end
        else a :: strip_f f t
      | [] => [a]
      end
    end
  end.
Definition strip_sgr (l : list N) : list N := strip_f (S (length l)) l.

(* text in the class: printable ASCII and LF, and well-formed sequences *)
Fixpoint sgr_text_f (fuel : nat) (l : list N) : bool :=
  match fuel with
  | O => false
  | S f =>
    match l with
    | [] => true
    | a :: t =>
      match t with
      | b :: r =>
        if (a =? 27) && (b =? 91) then match sgr_tail r with Some r' => sgr_text_f f r' | None => false end
        else ((a =? 10) || ((32 <=? a) && (a <? 127))) && sgr_text_f f t
      | [] => (a =? 10) || ((32 <=? a) && (a <? 127))
      end
    end
  end.
Definition sgr_text (l : list N) : bool := sgr_text_f (S (length l)) l.

(* the specification side: a stream of text pieces and sequences *)
Inductive tok := TText (t : list N) | TSgr (params : list N).
Definition render_tok (k : tok) : list N := match k with TText t => t | TSgr p => [27; 91] ++ p ++ [109] end.
Definition text_of_tok (k : tok) : list N := match k with TText t => t | TSgr _ => [] end.
Definition tok_ok (k : tok) : bool :=
  match k with TText t => forallb (fun c => negb (c =? 27)) t | TSgr p => forallb is_param p end.
