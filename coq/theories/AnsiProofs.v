(* C13: [strip_sgr] removes exactly the colour / style sequences: for every stream of text pieces (free of ESC) and well-formed
   sequences, what is left is the text pieces in order; text without ESC is left as it is; stripping is idempotent. *)
From Coq Require Import List NArith Bool Lia Arith ZifyBool ZifyNat ZifyN.
Import ListNotations.
From SV Require Import Ansi.
Local Open Scope N_scope.

Lemma sgr_tail_params : forall p rest, forallb is_param p = true -> sgr_tail (p ++ 109 :: rest) = Some rest.
Proof.
  induction p as [|c p IH]; intros rest H; cbn [app sgr_tail].
  - change (is_param 109) with false. cbv iota. change (109 =? 109) with true. reflexivity.
  - cbn [forallb] in H. apply andb_true_iff in H. destruct H as [H1 H2]. rewrite H1. apply IH. exact H2.
Qed.
Lemma sgr_tail_len : forall l r, sgr_tail l = Some r -> (length r < length l)%nat.
Proof.
  induction l as [|c l IH]; intros r H; [discriminate|]. cbn [sgr_tail] in H.
  destruct (is_param c).
  - specialize (IH r H). cbn [length]. lia.
  - destruct (c =? 109); [|discriminate]. injection H as <-. cbn [length]. lia.
Qed.
Lemma strip_f_nil : forall f, strip_f f [] = [].
Proof. destruct f; reflexivity. Qed.
Lemma strip_f_cons_plain : forall f a l, a <> 27 -> strip_f (S f) (a :: l) = a :: strip_f f l.
Proof.
  intros f a l H. destruct l as [|b r]; cbn [strip_f].
  - rewrite strip_f_nil. reflexivity.
  - assert (E: (a =? 27) = false) by lia. rewrite E. reflexivity.
Qed.
(* more fuel than the length changes nothing *)
Lemma strip_f_enough : forall f g l, (length l < f)%nat -> (length l < g)%nat -> strip_f f l = strip_f g l.
Proof.
  induction f as [|f IH]; intros g l Hf Hg; [lia|]. destruct g as [|g]; [lia|].
  destruct l as [|a t]; [reflexivity|]. destruct t as [|b r]; [reflexivity|]. cbn [strip_f]. cbn [length] in Hf, Hg.
  destruct ((a =? 27) && (b =? 91)).
  - destruct (sgr_tail r) as [r'|] eqn:E.
    + pose proof (sgr_tail_len r r' E). apply IH; lia.
    + apply f_equal. apply IH; cbn [length]; lia.
  - apply f_equal. apply IH; cbn [length]; lia.
Qed.

Lemma strip_tokens_f : forall toks f, Forall (fun k => tok_ok k = true) toks -> (length (flat_map render_tok toks) < f)%nat ->
  strip_f f (flat_map render_tok toks) = flat_map text_of_tok toks.
Proof.
  induction toks as [|k toks IH]; intros f H Hf; [apply strip_f_nil|].
  apply Forall_cons_iff in H. destruct H as [Hk Hr]. cbn [flat_map] in *. rewrite app_length in Hf.
  destruct k as [t|p]; cbn [render_tok text_of_tok tok_ok] in *.
  - revert f Hf. induction t as [|a t IHt]; intros f Hf; cbn [app]; [apply IH; [exact Hr|cbn [length] in Hf; lia]|].
    cbn [forallb] in Hk. apply andb_true_iff in Hk. destruct Hk as [Ha Ht].
    destruct f as [|f]; [lia|]. rewrite strip_f_cons_plain by lia. apply f_equal. apply IHt; [exact Ht|cbn [length] in Hf; lia].
  - cbn [app]. destruct f as [|f]; [lia|]. cbn [app length] in Hf. rewrite app_length in Hf. cbn [length] in Hf.
    change (strip_f (S f) (27 :: 91 :: (p ++ [109]) ++ flat_map render_tok toks))
      with (match sgr_tail ((p ++ [109]) ++ flat_map render_tok toks) with Some r' => strip_f f r' | None => 27 :: strip_f f (91 :: (p ++ [109]) ++ flat_map render_tok toks) end).
    rewrite <- app_assoc. cbn [app]. rewrite sgr_tail_params by exact Hk. apply IH; [exact Hr|lia].
Qed.

Theorem strip_tokens : forall toks, Forall (fun k => tok_ok k = true) toks ->
  strip_sgr (flat_map render_tok toks) = flat_map text_of_tok toks.
Proof. intros toks H. unfold strip_sgr. apply strip_tokens_f; [exact H|lia]. Qed.

Theorem strip_plain : forall l, forallb (fun c => negb (c =? 27)) l = true -> strip_sgr l = l.
Proof.
  intros l H. pose proof (strip_tokens [TText l]) as T. cbn [flat_map render_tok text_of_tok] in T. rewrite !app_nil_r in T.
  apply T. constructor; [exact H|constructor].
Qed.

(* what is left holds no ESC, so stripping again changes nothing *)
Lemma texts_plain : forall toks, Forall (fun k => tok_ok k = true) toks ->
  forallb (fun c => negb (c =? 27)) (flat_map text_of_tok toks) = true.
Proof.
  induction toks as [|k toks IH]; intros H; [reflexivity|]. apply Forall_cons_iff in H. destruct H as [Hk Hr].
  cbn [flat_map]. rewrite forallb_app, (IH Hr). destruct k; cbn [text_of_tok tok_ok] in *; [rewrite Hk|]; reflexivity.
Qed.
Theorem strip_idempotent : forall toks, Forall (fun k => tok_ok k = true) toks ->
  strip_sgr (strip_sgr (flat_map render_tok toks)) = strip_sgr (flat_map render_tok toks).
Proof. intros toks H. rewrite (strip_tokens toks H). apply strip_plain. apply texts_plain. exact H. Qed.

Example strip_instance :
  strip_sgr [97; 27; 91; 51; 49; 109; 114; 101; 100; 27; 91; 48; 109; 98; 10] = [97; 114; 101; 100; 98; 10]
  /\ strip_sgr [97; 27; 91; 120; 109] = [97; 27; 91; 120; 109]          (* not a colour sequence: left alone *)
  /\ sgr_text [97; 27; 91; 50; 59; 53; 109; 10] = true /\ sgr_text [97; 27; 91; 120] = false /\ sgr_text [13] = false.
Proof. repeat split; vm_compute; reflexivity. Qed.
