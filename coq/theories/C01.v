(* C01 — No false pass.  This file holds statements only: each is closed by [exact], pinned by [Check],
   accompanied by a non-vacuity [Example] and followed by [Print Assumptions]. *)
From Coq Require Import List Arith Bool NArith.
Import ListNotations.
From SV Require Import Diff DiffProofs DiffOracle Lines.

(* Described es ls: the lines can be cut, in order and without gaps, into one block per expectation;
   every line of a block matches its expectation, a block is non-empty unless optional, has at most one
   line unless multiline.  [accepts] is the model of "DiffTool::diff reports no differences". *)
Theorem C01_no_false_pass :
  forall (line : Type) (es : list (exp line)) (ls : list line),
    accepts line es ls = true -> Described line es ls.
Proof. exact SV.DiffProofs.C01_no_false_pass. Qed.

(* the executable oracle evaluated on the implementation's verdict is exactly the specification *)
Theorem C01_oracle_exact :
  forall (line : Type) (es : list (exp line)) (ls : list line),
    describedb line es ls = true <-> Described line es ls.
Proof. exact describedb_spec. Qed.

(* byte level: the lines fed to the matcher are a partition of the stream *)
Theorem C01_stream_is_its_lines :
  forall bs : list byte, concat (split_lines bs) = bs /\ Forall line_ok (split_lines bs).
Proof. intros bs. split; [exact (split_lines_concat bs)|exact (split_lines_ok bs)]. Qed.


Check C01_no_false_pass :
  forall (line : Type) (es : list (exp line)) (ls : list line),
    accepts line es ls = true -> Described line es ls.
Check C01_oracle_exact :
  forall (line : Type) (es : list (exp line)) (ls : list line),
    describedb line es ls = true <-> Described line es ls.

(* non-vacuity: a quantified list accepts a three-line output, and rejects one it does not describe *)
Definition ex_es : list (exp nat) :=
  [ mkExp nat false true (fun l => Nat.eqb l 1)      
  ; mkExp nat true false (fun l => Nat.eqb l 2)      
  ; mkExp nat false false (fun l => Nat.eqb l 3) ].  
Example C01_premise_satisfiable : accepts nat ex_es [1; 1; 3] = true /\ accepts nat ex_es [1; 2; 2; 3] = false.
Proof. split; vm_compute; reflexivity. Qed.

Print Assumptions C01_no_false_pass.
Print Assumptions C01_oracle_exact.
Print Assumptions C01_stream_is_its_lines.
