(* C02 — the diff accounts for every output line and every expectation exactly once; it terminates. *)
From Coq Require Import List Arith Bool NArith Sorted.
Import ListNotations.
From SV Require Import Diff DiffProofs DetProofs Cons DiffOracle Lines.

(* [diff] returns [None] only when its fuel is exhausted; [exists d, diff es ls = Some d] is termination.
   lines_of d = number 0 ls : every output line exactly once, in order, under its own index;
   sorted_in 0 |es| (exps_of d) : expectation indices strictly increasing and in range (at most once, in order);
   every non-optional expectation occurs; every entry is well-formed (matched lines really match, one line
   unless multiline, no empty entries). *)
Theorem C02_conservation :
  forall (line : Type) (es : list (exp line)) (ls : list line),
    exists d, diff line es ls = Some d
      /\ lines_of line d = number line 0 ls
      /\ sorted_in 0 (length es) (exps_of line d)
      /\ (forall k e, nth_error es k = Some e -> opt line e = false -> In k (exps_of line d))
      /\ Forall (entry_ok line 0 es) d.
Proof. exact SV.Cons.C02_conservation. Qed.

Theorem C02_terminates :
  forall (line : Type) fuel (es : list (exp line)) ei ls li run,
    length es + length ls < fuel -> loop line fuel es ei ls li run <> None.
Proof. exact SV.Cons.loop_fuel_enough. Qed.

Theorem C02_oracle_exact :
  forall (line : Type) (leqb : line -> line -> bool), (forall a b, leqb a b = true <-> a = b) ->
  forall es ls d, conservation_b line leqb es ls d = true <-> ConsProp line es ls d.
Proof. exact conservation_b_spec. Qed.

Theorem C02_bytes_conserved : forall bs : list byte, concat (split_lines bs) = bs.
Proof. exact split_lines_concat. Qed.

Check C02_conservation :
  forall (line : Type) (es : list (exp line)) (ls : list line),
    exists d, diff line es ls = Some d
      /\ lines_of line d = number line 0 ls
      /\ sorted_in 0 (length es) (exps_of line d)
      /\ (forall k e, nth_error es k = Some e -> opt line e = false -> In k (exps_of line d))
      /\ Forall (entry_ok line 0 es) d.

Example C02_instance :
  diff nat [mkExp nat false false (Nat.eqb 7); mkExp nat true true (Nat.eqb 8); mkExp nat false false (Nat.eqb 9)] [5; 7; 8; 8]
  = Some [EUnexpected nat [(0, 5)]; EMatched nat 0 [(1, 7)]; EMatched nat 1 [(2, 8); (3, 8)]; EUnmatched nat 2].
Proof. vm_compute. reflexivity. Qed.

Print Assumptions C02_conservation.
Print Assumptions C02_terminates.
Print Assumptions C02_oracle_exact.
Print Assumptions C02_bytes_conserved.
