(* C03 — no false failure when the expectations are deterministic for the output. *)
From Coq Require Import List Arith Bool.
Import ListNotations.
From SV Require Import Diff Det DiffProofs DetProofs DetExtra.

(* detb es false ls: reading ls left to right, at every line at most one of the expectations that may
   legally come next (the open multiline one, then the following ones up to and including the first
   non-optional one) matches the line. *)
Theorem C03_complete_when_deterministic :
  forall (line : Type) (es : list (exp line)) (ls : list line),
    detb line es false ls = true -> (accepts line es ls = true <-> Described line es ls).
Proof. exact SV.DetProofs.C03_complete_when_deterministic. Qed.

Theorem C03_no_quantifiers_deterministic :
  forall (line : Type) (ls : list line) (es : list (exp line)),
    Forall (plain line) es -> detb line es false ls = true.
Proof. exact no_quantifiers_deterministic. Qed.

Theorem C03_own_lines_pass :
  forall (line : Type) (es : list (exp line)) (ls : list line),
    Forall (plain line) es -> Forall2 (fun e l => mt line e l = true) es ls -> accepts line es ls = true.
Proof. exact own_lines_pass. Qed.

Check C03_complete_when_deterministic :
  forall (line : Type) (es : list (exp line)) (ls : list line),
    detb line es false ls = true -> (accepts line es ls = true <-> Described line es ls).

(* the hypothesis is needed: the greedy matcher rejects an optional-multiline foo followed by a plain foo on two foo lines, which is described *)
Example C03_greedy_incomplete_without_determinism :
  let es := [mkExp nat true true (Nat.eqb 1); mkExp nat false false (Nat.eqb 1)] in
  detb nat es false [1; 1] = false /\ accepts nat es [1; 1] = false
  /\ Described nat es [1; 1].
Proof.
  cbv zeta. split; [vm_compute; reflexivity|]. split; [vm_compute; reflexivity|].
  exists [[1]; [1]]. split; [|reflexivity].
  constructor; [|constructor; [|constructor]].
  - split; [repeat constructor|]. split; intros; discriminate.
  - split; [repeat constructor|]. split; [intros _; discriminate|]. intros _. cbn. auto.
Qed.

Example C03_premise_satisfiable :
  let es := [mkExp nat false true (Nat.eqb 1); mkExp nat true false (Nat.eqb 2); mkExp nat false false (Nat.eqb 3)] in
  detb nat es false [1; 1; 2; 3] = true /\ accepts nat es [1; 1; 2; 3] = true.
Proof. split; vm_compute; reflexivity. Qed.

Print Assumptions C03_complete_when_deterministic.
Print Assumptions C03_no_quantifiers_deterministic.
Print Assumptions C03_own_lines_pass.
