(* C04 — each expectation kind matches exactly the lines the documentation says. *)
From Coq Require Import List NArith Bool.
Import ListNotations.
From SV Require Import Escape EscapeProofs Rules RulesProofs.
From SV Require Import CramGlobProofs RegexPrep RegexPrepProofs.
Local Open Scope N_scope.

(* equal: the expression followed by a newline (for an expression that does not itself end in a newline) *)
Theorem C04_equal : forall x l, ends_in_newline x = false -> (m_equal x l = true <-> l = x ++ [10]).
Proof. exact equal_iff. Qed.
(* no-eol: exactly the expression *)
Theorem C04_no_eol : forall x l, m_noeol x l = true <-> l = x.
Proof. exact noeol_iff. Qed.
(* escaped: the line, final newlines ignored, equals the expression with its escape sequences resolved *)
Theorem C04_escaped : forall b l, m_escaped b l = true <-> trim_newlines l = b.
Proof. exact escaped_iff. Qed.
(* glob: ? is exactly one character, * any run of characters, anything else itself; the whole line *)
Theorem C04_glob : forall p s, glob_match p s = true <-> GMatch p s.
Proof. exact glob_match_spec. Qed.
(* regex: the matcher used as the reference semantics decides membership of the WHOLE line in the language *)
Theorem C04_regex_whole_line : forall s r, full r s = true <-> Lang r s.
Proof. exact full_spec. Qed.

(* the crate law the correspondence checks on every run, and its consequence for the rule (partial: the regex
   crate itself is a premise) *)
Theorem C04_regex_rule_partial : forall (crate_is_match : list N -> list N -> bool),
  (forall r s, crate_is_match ([94; 40; 63; 58] ++ print_top r ++ [41; 36]) s = full r s) ->
  forall r l, crate_is_match ([94; 40; 63; 58] ++ print_top r ++ [41; 36]) (trim_newlines l) = true <-> Lang r (trim_newlines l).
Proof. intros cm H r l. rewrite H. apply full_spec. Qed.

(* before the regex crate sees it a regex expression goes through three compatibility passes (unrecognised escapes,
   curly brackets that are no quantifier, square brackets inside a character class), transcribed in RegexPrep.v and compared
   with the implementation on every run.  On an expression without backslash, curly or square bracket they change
   nothing: the crate is given the expression as written *)
Theorem C04_regex_prepare_plain : forall e, forallb plain_char e = true -> regex_prepare e = e.
Proof. exact prepare_plain. Qed.

(* since 5e93dbf the passes are applied only to expressions the regex crate does not take as they stand: a regular expression
   without unknown escapes is handed to the crate as written, whatever brackets it holds *)
Theorem C04_regex_used_as_written : forall compiles e, cleanup e = e -> compiles e = true -> regex_effective compiles e = e.
Proof. exact effective_as_written. Qed.
Print Assumptions C04_regex_used_as_written.

(* the former known finding (regex-class-heuristic), now confined to expressions that are not regular expressions as they stand:
   the third pass takes a `]` that stands for itself after a complete class into
   that class.  As written, [a]b] is the class [a], then b, then ]: its language holds ab].  What the crate is given is one class
   of three characters, whose language does not hold ab] *)
Example C04_regex_class_heuristic_refuted :
  regex_prepare [91; 97; 93; 98; 93] = [91; 97; 92; 93; 98; 93]
  /\ full (Seq (Cls false [97]) (Seq (Chr 98) (Chr 93))) [97; 98; 93] = true
  /\ full (Cls false [97; 93; 98]) [97; 98; 93] = false.
Proof. repeat split; vm_compute; reflexivity. Qed.

Check C04_glob : forall p s, glob_match p s = true <-> GMatch p s.
Check C04_regex_whole_line : forall s r, full r s = true <-> Lang r s.

(* a|b must not match "axyz" (the unanchored alternation the unrepaired wrapper produced did) *)
Example C04_instances :
  full (Alt (Chr 97) (Chr 98)) [97; 120; 121; 122] = false /\ full (Alt (Chr 97) (Chr 98)) [98] = true
  /\ glob_match [97; 42; 63] [97; 120; 121] = true /\ glob_match [97; 63] [97] = false
  /\ m_equal [102] [102; 10] = true /\ m_equal [102] [102] = false /\ m_noeol [102] [102] = true.
Proof. repeat split; vm_compute; reflexivity. Qed.

(* the Cram flavour of glob (Cram documents; glob_cram.rs translates the pattern into a regular expression): the
   translated expression matches a whole line exactly when the line is an instance of the pattern -- `*` any run of
   characters, `?` exactly one, `\*` `\?` `\\` the literal character, a lone backslash itself -- no LF inside *)
Theorem C04_cram_glob : forall p s, full (cram_glob_re p) s = true <-> CGMatch p s.
Proof. exact cram_glob_spec. Qed.
Example C04_cram_glob_instance :     (* a\*b?  matches  a*bX  and not  aXbX *)
  full (cram_glob_re [97; 92; 42; 98; 63]) [97; 42; 98; 88] = true /\ full (cram_glob_re [97; 92; 42; 98; 63]) [97; 88; 98; 88] = false.
Proof. split; vm_compute; reflexivity. Qed.

Print Assumptions C04_equal.
Print Assumptions C04_no_eol.
Print Assumptions C04_escaped.
Print Assumptions C04_glob.
Print Assumptions C04_regex_whole_line.
Print Assumptions C04_regex_rule_partial.
Print Assumptions C04_cram_glob.
Print Assumptions C04_regex_prepare_plain.

(* what the curly-bracket pass takes for a repetition quantifier -- and therefore leaves to the regex crate as written: `{n}`,
   `{n,m}` and `{n,}` for numbers n, m of any length; a bracket not followed by a number is text *)
Theorem C04_regex_quantifier_forms : forall d1 d2 rest, d1 <> [] -> forallb is_09 d1 = true -> forallb is_09 d2 = true ->
  quantifier_body (d1 ++ 125 :: rest) = Some (d1, rest)
  /\ quantifier_body (d1 ++ 44 :: d2 ++ 125 :: rest) = Some (d1 ++ [44] ++ d2, rest).
Proof. intros d1 d2 rest Hne H1 H2. split; [exact (quantifier_exact d1 rest Hne H1)|exact (quantifier_range d1 d2 rest Hne H1 H2)]. Qed.
Print Assumptions C04_regex_quantifier_forms.
