(* C05 — a test passes only if it completed with the expected exit code and output. *)
From Coq Require Import List ZArith NArith Bool Arith.
Import ListNotations.
From SV Require Import Exec ExecProofs.

(* [verdict] models TestCase::validate on what the verdict depends on: the runner's status, the expected code and
   whether the matcher (C01-C03) accepts the configured stream. *)
Theorem C05_pass_iff : forall tc r,
  verdict tc r = Success <-> exists c, status r = Code c /\ c = expected_code tc /\ out_ok r = true.
Proof. exact verdict_pass_iff. Qed.

Theorem C05_wrong_code_wins : forall tc r c, status r = Code c -> c <> expected_code tc -> verdict tc r = Failed.
Proof. exact wrong_code_wins. Qed.

Theorem C05_no_exit_code_never_passes : forall tc r, (forall c, status r <> Code c) -> verdict tc r = Failed.
Proof. exact no_code_never_passes. Qed.

(* run level: in the results of a document, a test whose command produced no exit code, and every test after it
   (which consequently did not run), is not reported as succeeded *)
Theorem C05_no_exit_code_never_succeeds : forall tcs rs gs outs n r,
  exec tcs rs gs 0 = ExOk outs -> nth_error outs n = Some r -> status r = Unknown ->
  forall m, n <= m -> nth_error (doc_results verdict tcs (ExOk outs)) m <> Some (Some Success).
Proof. exact SV.ExecProofs.C05_no_exit_code_never_succeeds. Qed.

Check C05_pass_iff : forall tc r,
  verdict tc r = Success <-> exists c, status r = Code c /\ c = expected_code tc /\ out_ok r = true.

Example C05_instance :
  let tc := {| expected := None; t_skip := 80; per_timeout := None; empty_ok := true |} in
  let killed := {| status := Unknown; out_ok := true |} in
  let fine := {| status := Code 0; out_ok := true |} in
  doc_results verdict [tc; tc] (exec [tc; tc] [killed; fine] [false; false] 0) = [Some Failed; Some Failed]
  /\ doc_results verdict [tc; tc] (exec [tc; tc] [fine; fine] [false; false] 0) = [Some Success; Some Success].
Proof. split; vm_compute; reflexivity. Qed.

Print Assumptions C05_pass_iff.
Print Assumptions C05_wrong_code_wins.
Print Assumptions C05_no_exit_code_never_passes.
Print Assumptions C05_no_exit_code_never_succeeds.
