(* C06 — Markdown: every scrut block becomes exactly one test; nothing is dropped. *)
From Coq Require Import List NArith Bool.
Import ListNotations.
From SV Require Import Template gen_Unicode Escape LineParser CramSpec Markdown MarkdownProofs MdSpec.
From SV Require MdParseProofs.
Local Open Scope N_scope.

(* the tokenizer (model of MarkdownIterator, end-of-document flush included) is lossless: every line of every document,
   well-formed, malformed or truncated, ends up in exactly one token, in order -- nothing after any construct is lost *)
Theorem C06_nothing_dropped : forall ls, concat (map tok_raw (md_tokens ls)) = ls.
Proof. exact tokens_lossless. Qed.

(* only a line that STARTS with at least three backticks can open a code block: inline code, text containing
   backticks and lines that start with one or two backticks never create, hide or truncate tests *)
Theorem C06_fence_needs_three : forall l n lang cfg, extract_code_block_start l = Some (n, lang, cfg) -> (3 <= n)%nat.
Proof. exact fence_needs_three. Qed.
Theorem C06_backticks_inside_are_inert : forall c r, c <> BT -> extract_code_block_start (c :: r) = None.
Proof. exact backticks_inside_are_inert. Qed.

(* the grammar round trip: for EVERY well-formed document AST -- front-matter, prose (also lines starting with one or two
   backticks or containing backticks anywhere), headings, blank lines, other code blocks, scrut blocks with inline
   configuration, comments, continuations, expectation lines, exit codes, closing fences longer than the opening one or
   followed by text -- the parser returns exactly the tests the AST denotes: command with continuations, expectation
   lines, exit code, raw inline configuration, 1-based line of the `$` line, title = nearest preceding paragraph or
   heading.  Proved via the tokens of the rendered document (MdParseProofs.tokens_render) and an invariant of the
   line parser over them. *)
Theorem C06_parse_render : forall pe_ok front_ok cfg_ok d, wf_md pe_ok front_ok cfg_ok d = true ->
  parse_md pe_ok front_ok cfg_ok (render_md d) = LOk (md_tests_of d).
Proof. exact MdParseProofs.parse_render_md. Qed.

(* non-vacuity: a document with every kind of element *)
Example C06_parse_render_instance :
  let d := [EFront [[120]]; EHeading 1 [84]; EBlank;
            EProse [96; 105; 96; 32; 120];
            EForeign 3 [115; 104] [[36; 32; 110; 111]; [96; 96]] [96; 32];
            EScrut 4 (Some [97]) [32; 9] [[35]] (Some ([99], [[100]], [BExp [96; 96; 96]; BExp [36; 32; 122]; BCode [55]])) [96; 106];
            EScrut 3 None [] [] None [];
            EProse [80; 32; 49]; EProse [80; 32; 50]; EScrut 3 None [32] [] (Some ([101], [], [])) [32; 120]] in
  wf_md (fun _ => true) (fun _ => true) (fun _ => true) d = true
  /\ parse_md (fun _ => true) (fun _ => true) (fun _ => true) (render_md d) = LOk (md_tests_of d)
  /\ map (fun t => (pt_title (mt_test t), pt_line (mt_test t), mt_cfg t)) (md_tests_of d)
     = [([84], 13%nat, Some [97]); ([80; 32; 49; 10; 80; 32; 50], 24%nat, None)].
Proof. repeat split; vm_compute; reflexivity. Qed.

Check C06_parse_render : forall pe_ok front_ok cfg_ok d, wf_md pe_ok front_ok cfg_ok d = true ->
  parse_md pe_ok front_ok cfg_ok (render_md d) = LOk (md_tests_of d).
Check C06_nothing_dropped : forall ls, concat (map tok_raw (md_tokens ls)) = ls.

(* truncation: an unterminated scrut block is read to the end of the document and still yields its test *)
Example C06_truncated_block_kept :
  map (fun t => pt_cmd (mt_test t))
      (match parse_md (fun _ => true) (fun _ => true) (fun _ => true) [[96; 96; 96; 115; 99; 114; 117; 116]; [36; 32; 120]; [111]] with LOk l => l | LErr => [] end)
  = [[[120]]].
Proof. vm_compute. reflexivity. Qed.

Print Assumptions C06_nothing_dropped.
Print Assumptions C06_fence_needs_three.
Print Assumptions C06_backticks_inside_are_inert.
Print Assumptions C06_parse_render.
