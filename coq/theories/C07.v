(* C07 — Cram documents: indented `$` blocks become the written tests, in order. *)
From Coq Require Import List NArith Bool.
Import ListNotations.
From SV Require Import Template LineParser CramSpec CramProofs Config gen_Consts.
Local Open Scope N_scope.

(* [render_cram d] is the text of a document built from the grammar: title lines, # comment lines, blank lines and
   test blocks (two-space indented `$ command`, `> continuation` lines, expectation / `[code]` lines).
   [cram_tests_of d] are the tests it denotes.  [pe_ok] says which expectation lines ExpectationMaker accepts (C08).
   wf_cram: a title is a non-empty unindented line not starting with #; an expectation line does not start with `$ `,
   is not of the form [digits], is accepted by the expectation parser, and the first one after the command does not
   start with `> `; at most one exit-code line per test (more is a documented error); no line contains CR/LF. *)
Theorem C07_parse_render : forall pe_ok d, wf_cram pe_ok d = true ->
  parse_cram pe_ok (render_cram d) = LOk (cram_tests_of d).
Proof. exact parse_render. Qed.

(* every test gets the Cram defaults (regenerated from /repo on this run): combined output, CRLF kept *)
Theorem C07_defaults : output_stream tc_default_cram = Some 2 /\ keep_crlf tc_default_cram = Some true.
Proof. split; vm_compute; reflexivity. Qed.

Check C07_parse_render : forall pe_ok d, wf_cram pe_ok d = true ->
  parse_cram pe_ok (render_cram d) = LOk (cram_tests_of d).

(* non-vacuity: a document with a title, a comment, two consecutive commands (the second without title), a
   continuation, whitespace-only and `$`-initial expectations and an exit code *)
Example C07_instance :
  let d := [BTitle [84]; BComment [35; 120];
            BTest [97] [[98]] [BExp [32]; BExp [36; 120]; BCode [48; 51]];
            BTest [99] [] []; BBlank; BTitle [85]; BTest [100] [] [BExp []]] in
  wf_cram (fun _ => true) d = true
  /\ parse_cram (fun _ => true) (render_cram d)
     = LOk [mkPT [84] [[97]; [98]] [[32]; [36; 120]] (Some 3) 3; mkPT [] [[99]] [] None 8; mkPT [85] [[100]] [[]] None 11].
Proof. split; vm_compute; reflexivity. Qed.

Print Assumptions C07_parse_render.
Print Assumptions C07_defaults.
