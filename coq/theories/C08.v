(* C08 — expectation lines parse per the documented grammar and print back equivalently. *)
From Coq Require Import List NArith Bool.
Import ListNotations.
From SV Require Import Utf8 gen_Unicode gen_Kinds Escape EscapeProofs ExpGrammar ExpGrammarProofs.
Local Open Scope N_scope.

(* [split_mod] is the model of the grammar regex + capture counting.  A line has a modifier exactly when it is
   expression ++ [whitespace] ++ "(" ++ kind ++ quantifier ++ ")" with a registered kind name (or none) and at most
   one quantifier character; the expression is everything before, verbatim. *)
Theorem C08_grammar_complete : forall e ws k q,
  is_ws ws = true -> kind_ok k = true -> quant_ok q ->
  split_mod (e ++ [ws] ++ [40] ++ k ++ q ++ [41]) = Some (e, k, q).
Proof. exact split_mod_complete. Qed.

Theorem C08_grammar_sound : forall line e k q, split_mod line = Some (e, k, q) ->
  exists ws, line = e ++ [ws] ++ [40] ++ k ++ q ++ [41] /\ is_ws ws = true /\ kind_ok k = true /\ quant_ok q.
Proof. exact split_mod_sound. Qed.

(* any other line -- also one ending in `()` -- is an equal expectation for the whole line *)
Theorem C08_other_lines_are_equal :
  (forall line, split_mod line = None -> extract line = (line, EQUAL, []))
  /\ (forall e ws, is_ws ws = true -> extract (e ++ [ws] ++ [40] ++ [] ++ [] ++ [41]) = (e ++ [ws] ++ [40] ++ [] ++ [] ++ [41], EQUAL, [])).
Proof. split; [exact extract_plain|exact extract_empty_parens]. Qed.

Theorem C08_modifier_extracted : forall e ws k q,
  is_ws ws = true -> kind_ok k = true -> quant_ok q -> (k <> [] \/ q <> []) ->
  extract (e ++ [ws] ++ [40] ++ k ++ q ++ [41]) = (e, match k with [] => EQUAL | _ => k end, q).
Proof. exact extract_modifier. Qed.

(* parsing fails only inside [make] of an escaped, escaped-glob or regex expression: equal and no-eol never fail *)
Theorem C08_fails_only_when_marked : forall rp rc gn line,
  parse rp rc gn line = PErr ->
  let '(e, k, q) := extract line in
  match lookup_kind k kind_names with
  | Some 0%nat | Some 1%nat | None => False             (* never for equal / no-eol, never for an unknown kind *)
  | Some 3%nat => expression_as_escaped e <> None         (* a glob only when it is an escaped glob *)
  | Some _ => True                                        (* escaped, regex *)
  end.
Proof.
  intros rp rc gn line H. unfold parse in H. destruct (extract line) as [[e k] q] eqn:E.
  assert (KO : exists id, lookup_kind k kind_names = Some id).
  { unfold extract in E. destruct (split_mod line) as [[[e' k'] q']|] eqn:S.
    - destruct (split_mod_sound _ _ _ _ S) as (ws & _ & _ & Hk & _).
      destruct k' as [|c k'']; destruct q' as [|d q'']; inversion E; subst; try (exists 0%nat; vm_compute; reflexivity).
      + unfold kind_ok in Hk. destruct (lookup_kind (c :: k'') kind_names) as [id|]; [exists id; reflexivity|discriminate].
      + unfold kind_ok in Hk. destruct (lookup_kind (c :: k'') kind_names) as [id|]; [exists id; reflexivity|discriminate].
    - inversion E; subst. exists 0%nat. vm_compute. reflexivity. }
  destruct KO as [id KO]. rewrite KO in *. destruct id as [|[|[|[|id]]]]; cbn [make] in H; try discriminate; try exact I.
  destruct (expression_as_escaped e); [discriminate|]. discriminate.
Qed.

(* ---------- round trip: canonical form, parsed again ---------- *)
Theorem C08_round_trip_equal : forall rp rc gn m t o mu, Forall (fun c => is_scalar c = true) t ->
  has_unprintable m (utf8_encode t) = false ->
  parse rp rc gn (render_exp m (mkE (REqual t) o mu)) = POk (mkE (REqual t) o mu).
Proof. exact round_trip_equal_plain. Qed.

Theorem C08_round_trip_equal_unprintable : forall rp rc gn m t o mu,
  content_ok (utf8_encode t) -> has_unprintable m (utf8_encode t) = true ->
  strip_suffix S_NOEOL (escaped_printable m (utf8_encode t)) = None ->
  parse rp rc gn (render_exp m (mkE (REqual t) o mu))
    = POk (mkE (REscaped (escaped_printable m (utf8_encode t)) (utf8_encode t)) o mu)
  /\ forall c, matches_content (REscaped (escaped_printable m (utf8_encode t)) (utf8_encode t)) c = matches_content (REqual t) c.
Proof. exact round_trip_equal_unprintable. Qed.

Theorem C08_round_trip_escaped : forall rp rc gn m orig b o mu,
  decode orig = Some b -> strip_suffix S_NOEOL orig = None ->
  parse rp rc gn (render_exp m (mkE (REscaped orig b) o mu)) = POk (mkE (REscaped orig b) o mu).
Proof. exact round_trip_escaped. Qed.

Theorem C08_round_trip_noeol : forall rp rc gn m t o mu, Forall (fun c => is_scalar c = true) t ->
  has_unprintable m (utf8_encode t) = false ->
  parse rp rc gn (render_exp m (mkE (RNoEol t) o mu)) = POk (mkE (RNoEol t) o mu).
Proof. exact round_trip_noeol. Qed.

(* glob and regex: the external crates' normalisation must be a fixed point on the stored expression (section
   hypotheses about wildmatch / scrut's regex preparation; exercised by the correspondence) *)
Theorem C08_round_trip_glob_partial : forall rp rc gn m p o mu, Forall (fun c => is_scalar c = true) p ->
  has_unprintable m (utf8_encode p) = false -> expression_as_escaped p = None -> gn p = p ->
  parse rp rc gn (render_exp m (mkE (RGlob p) o mu)) = POk (mkE (RGlob p) o mu).
Proof. exact round_trip_glob. Qed.
Theorem C08_round_trip_regex_partial : forall rp rc gn m p o mu, Forall (fun c => is_scalar c = true) p ->
  has_unprintable m (utf8_encode p) = false -> rp p = p -> rc p = true ->
  parse rp rc gn (render_exp m (mkE (RRegex p) o mu)) = POk (mkE (RRegex p) o mu).
Proof. exact round_trip_regex. Qed.

(* the hypotheses above are needed: the listed known findings, as closed witnesses on the faithful model *)
Example C08_known_unprintable_nonequal :
  parse (fun x => x) (fun _ => true) (fun x => x) (render_exp Unicode (mkE (RGlob [97; 9]) false false))
  = POk (mkE (RGlob [97; 92; 116]) false false).
Proof. vm_compute. reflexivity. Qed.
Example C08_known_suffix_collision :
  exists orig b, decode orig = Some b
    /\ parse (fun x => x) (fun _ => true) (fun x => x) (render_exp Unicode (mkE (REscaped orig b) false false))
       <> POk (mkE (REscaped orig b) false false).
Proof.
  exists ([97] ++ S_NOEOL), ([97] ++ S_NOEOL). split; [vm_compute; reflexivity|]. vm_compute. discriminate.
Qed.

Check C08_grammar_sound : forall line e k q, split_mod line = Some (e, k, q) ->
  exists ws, line = e ++ [ws] ++ [40] ++ k ++ q ++ [41] /\ is_ws ws = true /\ kind_ok k = true /\ quant_ok q.

Example C08_instances :

  extract [102;111;111;32;40;103;108;111;98;41;32;40;103;108;111;98;43;41] = ([102;111;111;32;40;103;108;111;98;41], K_GLOB, [43])

  /\ extract [102;111;111;32;40;41] = ([102;111;111;32;40;41], EQUAL, [])
  /\ extract [102;111;111;32;40;98;97;114;41] = ([102;111;111;32;40;98;97;114;41], EQUAL, []).
Proof. repeat split; vm_compute; reflexivity. Qed.

Print Assumptions C08_grammar_complete.
Print Assumptions C08_grammar_sound.
Print Assumptions C08_other_lines_are_equal.
Print Assumptions C08_modifier_extracted.
Print Assumptions C08_fails_only_when_marked.
Print Assumptions C08_round_trip_equal.
Print Assumptions C08_round_trip_equal_unprintable.
Print Assumptions C08_round_trip_escaped.
Print Assumptions C08_round_trip_noeol.
Print Assumptions C08_round_trip_glob_partial.
Print Assumptions C08_round_trip_regex_partial.
