(* C09 — generated tests pass against the very output they were generated from. *)
From Coq Require Import List NArith Bool Arith Lia.
Import ListNotations.
From SV Require Import Utf8 Escape EscapeProofs ExpGrammar ExpGrammarProofs Rules LineParser Generate GenerateProofs
                       Diff Det DiffProofs DetProofs DetExtra Regen Template CramSpec GenBlock GenBlockProofs GenDocs GenDocsProofs GuardProofs Markdown MdSpec Update.
Local Open Scope N_scope.

(* [expectation_line m line] is the text create/update write for one line of output; out_line content line: the line is
   its content (bytes < 256, no LF) followed by nothing or one LF.  Read back through the expectation grammar it is an
   expectation without quantifier that matches that very line.  The premise excludes one listed known finding: an
   escaped rendering that itself ends in ` (no-eol)`. *)
Theorem C09_line_round_trip : forall rp rc gn m content line,
  out_line content line ->
  (has_unprintable m content = true -> strip_suffix S_NOEOL (escaped_printable m content) = None) ->
  exists r, parse rp rc gn (expectation_line m line) = POk (mkE r false false) /\ rule_matches r line = true.
Proof. exact line_round_trip. Qed.

(* and the line parser never takes it for an exit-code line *)
Theorem C09_line_not_exit_code : forall m line, extract_exit_code (expectation_line m line) = None.
Proof. exact (line_not_exit_code (fun x => x) (fun _ => true) (fun x => x)). Qed.

(* update of a failing test: kept expectations + literal expectations for the unexpected lines always DESCRIBE the
   output (for every diff the matcher can return) ... *)
Theorem C09_regen_described : forall (line : Type) (leqb : line -> line -> bool),
  (forall a b, leqb a b = true <-> a = b) ->
  forall es ls d, diff line es ls = Some d -> Described line (regen line leqb es d) ls.
Proof. exact regen_described. Qed.

(* ... hence the regenerated test passes whenever the regenerated list is deterministic for the output (C03) *)
Theorem C09_regen_accepts_when_deterministic : forall (line : Type) (leqb : line -> line -> bool),
  (forall a b, leqb a b = true <-> a = b) ->
  forall es ls d, diff line es ls = Some d ->
  detb line (regen line leqb es d) false ls = true -> accepts line (regen line leqb es d) ls = true.
Proof.
  intros line leqb H es ls d Hd Hdet.
  apply (proj2 (C03_complete_when_deterministic line _ ls Hdet)). apply (regen_described line leqb H es ls d Hd).
Qed.

(* composed over a whole output: the expectation lines `scrut create` writes for the lines of an output parse back to
   a list of unquantified expectations that the matcher accepts on that very output (C09_line_round_trip per line, then
   C03_own_lines_pass) -- any number of lines, both escaping modes *)
Theorem C09_generated_expectations_pass : forall rp rc gn m (contents ls : list (list N)),
  Forall2 out_line contents ls ->
  Forall (fun content => has_unprintable m content = true -> strip_suffix S_NOEOL (escaped_printable m content) = None) contents ->
  exists rs, Forall2 (fun l r => parse rp rc gn (expectation_line m l) = POk (mkE r false false)) ls rs
             /\ accepts (list N) (map (fun r => mkExp (list N) false false (rule_matches r)) rs) ls = true.
Proof.
  intros rp rc gn m contents ls H2 Hk.
  assert (E: exists rs, Forall2 (fun l r => parse rp rc gn (expectation_line m l) = POk (mkE r false false)) ls rs
                        /\ Forall2 (fun e l => mt (list N) e l = true) (map (fun r => mkExp (list N) false false (rule_matches r)) rs) ls).
  { induction H2 as [|content l contents ls Hl H2 IH]; [exists []; split; constructor|].
    inversion Hk as [|x y Hk1 Hk2]; subst.
    destruct (C09_line_round_trip rp rc gn m content l Hl Hk1) as [r [Hp Hm]].
    destruct (IH Hk2) as [rs [F1 F2]]. exists (r :: rs). split; constructor; assumption. }
  destruct E as [rs [F1 F2]]. exists rs. split; [exact F1|].
  apply own_lines_pass; [|exact F2].
  apply Forall_forall. intros e He. apply in_map_iff in He. destruct He as [r [<- _]]. split; reflexivity.
Qed.

(* the whole generated test, Cram format.  What `scrut create` writes for a command (first line and further lines), the
   lines of its output and its exit code -- optional title line, `  $ ...`, `  > ...`, one expectation line per line of output,
   `  [code]` unless the code is 0 -- is read back by the Cram parser as exactly ONE test with that title, the same command
   lines, the written expectation lines (which by C09_generated_expectations_pass accept the output) and that exit code.
   The premises name the two listed known findings of this property (an expectation line that starts with `$ `, a first
   one that starts with `> `) and what the expectation grammar accepts (C09_line_round_trip gives it for the real grammar). *)
Theorem C09_cram_test_reads_back : forall pe m title cmd conts lines code,
  (match title with Some t => title_ok t = true /\ no_lf t = true | None => True end) ->
  no_lf cmd = true -> forallb no_lf conts = true ->
  Forall (fun l => content_ok (trim_newlines l)) lines -> code <= 2147483647 ->
  Forall (fun l => starts_with P_DOLLAR (expectation_line m l) = false) lines ->
  (match lines with l :: _ => starts_with P_GT (expectation_line m l) = false | [] => True end) ->
  Forall (fun l => pe (expectation_line m l) = true) lines ->
  parse_cram pe (render_cram (gen_cram_doc m title cmd conts lines code))
  = LOk [mkPT (match title with Some t => t | None => [] end) (cmd :: conts) (map (expectation_line m) lines)
              (if code =? 0 then None else Some code) (match title with Some _ => 2 | None => 1 end)].
Proof. exact cram_doc_reads_back. Qed.
(* the same in Markdown format: `# title` and a blank line, then a scrut block fenced by one backtick more than the longest run
   of backticks that starts a line of its body (at least three) -- so that no line of the output can close the block,
   whatever it contains.  The block reads back (C06) as ONE test: same command lines, the written expectation lines, the exit
   code, no inline configuration.  Only one listed known finding is a premise here (a first expectation starting with `> `) *)
Theorem C09_markdown_test_reads_back : forall pe front_ok cfg_ok m title cmd conts lines code,
  (match title with Some t => no_nl t = true /\ t <> [] | None => True end) ->
  no_nl cmd = true -> forallb no_nl conts = true ->
  Forall (fun l => content_ok (trim_newlines l)) lines -> code <= 2147483647 ->
  (match lines with l :: _ => starts_with P_GT (expectation_line m l) = false | [] => True end) ->
  Forall (fun l => pe (expectation_line m l) = true) lines ->
  exists ttl ln,
    parse_md pe front_ok cfg_ok (render_md (gen_md_doc m title cmd conts lines code))
    = LOk [mkMT (mkPT ttl (cmd :: conts) (map (expectation_line m) lines) (if code =? 0 then None else Some code) ln) None].
Proof. exact md_doc_reads_back. Qed.
Example C09_markdown_test_instance :     (* output: a line of four backticks, then `x`; exit code 0: the fence gets five *)
  render_md (gen_md_doc Unicode (Some [84]) [97] [] [[96;96;96;96;10]; [120;10]] 0)
  = [[35;32;84]; []; [96;96;96;96;96] ++ SCRUT; [36;32;97]; [96;96;96;96]; [120]; [96;96;96;96;96]]
  /\ parse_md (fun _ => true) (fun _ => true) (fun _ => true) (render_md (gen_md_doc Unicode (Some [84]) [97] [] [[96;96;96;96;10]; [120;10]] 0))
     = LOk [mkMT (mkPT [84] [[97]] [[96;96;96;96]; [120]] None 4) None].
Proof. split; vm_compute; reflexivity. Qed.

Example C09_cram_test_instance :     (* title T, command `a` continued by `b`, output "x (glob)\n" "\t" (no final newline), exit code 3 *)
  render_cram (gen_cram_doc Unicode (Some [84]) [97] [[98]] [[120; 32; 40; 103; 108; 111; 98; 41; 10]; [9]] 3)
  = [[84]; [32;32;36;32;97]; [32;32;62;32;98]; [32;32;120;32;40;103;108;111;98;41] ++ S_EQUAL; [32;32;92;116] ++ S_ESCAPED; [32;32;91;51;93]]
  /\ parse_cram (fun _ => true) (render_cram (gen_cram_doc Unicode (Some [84]) [97] [[98]] [[120; 32; 40; 103; 108; 111; 98; 41; 10]; [9]] 3))
     = LOk [mkPT [84] [[97]; [98]] [[120;32;40;103;108;111;98;41] ++ S_EQUAL; [92;116] ++ S_ESCAPED] (Some 3) 2].
Proof. split; vm_compute; reflexivity. Qed.

(* documents of SEVERAL generated tests (`scrut update --convert`, generate_testcases over a list of outcomes): the tests one after
   the other, two blank lines between them.  Cram: the document reads back (C07) as exactly those tests, in order, each with its
   title, command lines, written expectation lines, exit code and the line its `$` stands on. *)
Theorem C09_cram_tests_read_back : forall pe m ts, Forall (g_ok pe m) ts ->
  parse_cram pe (render_cram (gen_cram_docs m ts)) = LOk (g_tests m ts 0).
Proof. exact cram_docs_read_back. Qed.
(* Markdown, where every header may carry an inline configuration (a converted Cram test carries what differs from the Markdown
   defaults): as many tests as elements, in order, each with the command lines, written expectation lines and exit code of its
   element and that configuration *)
Theorem C09_markdown_tests_read_back : forall pe front_ok cfg_ok m cfg ts, Forall (g_ok_md pe m) ts -> cfg_fine cfg_ok cfg ->
  exists rs, parse_md pe front_ok cfg_ok (render_md (gen_md_docs m cfg ts)) = LOk rs /\ Forall2 (same_test m cfg) ts rs.
Proof. exact md_docs_read_back. Qed.
Example C09_tests_instance :     (* two tests: title T, `a`, output "x\n", code 0; no title, `b`, no output, code 3 *)
  let ts := [mkG (Some [84]) [97] [] [[120; 10]] 0; mkG None [98] [] [] 3] in
  Forall (g_ok (fun _ => true) Ascii) ts /\ Forall (g_ok_md (fun _ => true) Ascii) ts
  /\ render_cram (gen_cram_docs Ascii ts) = [[84]; [32;32;36;32;97]; [32;32;120]; []; []; [32;32;36;32;98]; [32;32;91;51;93]]
  /\ parse_cram (fun _ => true) (render_cram (gen_cram_docs Ascii ts)) = LOk [mkPT [84] [[97]] [[120]] None 2; mkPT [] [[98]] [] (Some 3) 6]
  /\ parse_md (fun _ => true) (fun _ => true) (fun _ => true) (render_md (gen_md_docs Ascii (Some [107; 58; 32; 118]) ts))
     = LOk [mkMT (mkPT [84] [[97]] [[120]] None 4) (Some [107; 58; 32; 118]); mkMT (mkPT [] [[98]] [] (Some 3) 10) (Some [107; 58; 32; 118])].
Proof.
  cbv zeta. split; [|split; [|split; [vm_compute; reflexivity|split; vm_compute; reflexivity]]].
  - repeat constructor; vm_compute; try reflexivity; try (intros; discriminate); lia.
  - repeat constructor; vm_compute; try reflexivity; try (intros; discriminate); try congruence; lia.
Qed.

(* the guards of the generator (9eeab85): a first line that starts with `> `, a line that starts with `$ ` and an escaped rendering
   that ends in ` (no-eol)` are written with one character as an escape sequence (Generate.guarded_line / written_line).  Where no
   guard applies -- the premises of the read-back theorems above, which used to name listed known findings -- the documents the
   implementation writes are the documents of those theorems. *)
Theorem C09_guarded_cram_document_same : forall m title cmd conts lines code, Forall (no_suffix_collision m) lines ->
  (match lines with l :: _ => starts_with P_GT (expectation_line m l) = false | [] => True end) ->
  Forall (fun l => starts_with P_DOLLAR (expectation_line m l) = false) lines ->
  gen_cram_doc_g m title cmd conts lines code = gen_cram_doc m title cmd conts lines code.
Proof. exact gen_cram_doc_g_same. Qed.
Theorem C09_guarded_markdown_document_same : forall m title cmd conts lines code, Forall (no_suffix_collision m) lines ->
  (match lines with l :: _ => starts_with P_GT (expectation_line m l) = false | [] => True end) ->
  Forall (fun l => starts_with P_DOLLAR (expectation_line m l) = false) lines ->
  gen_md_doc_g m None title cmd conts lines code = gen_md_doc m title cmd conts lines code.
Proof. exact gen_md_doc_g_same. Qed.
(* .. and where the first guard applies, what is written reads back (expectation grammar) as an escaped expectation without quantifier
   that matches the very line it was written for -- for every line; the premise is the one collision the second guard takes care of *)
Theorem C09_guarded_line_reads_back : forall rp rc gn first cram m c rest line, out_line (c :: rest) line ->
  (first && starts_with P_GT (written_line m line)) || (cram && starts_with P_DOLLAR (written_line m line)) = true ->
  strip_suffix S_NOEOL ([92; 120; hexd (c / 16); hexd (c mod 16)] ++ skipn 4 (escaped_printable m (1 :: rest))) = None ->
  exists r, parse rp rc gn (guarded_line first cram m line) = POk (mkE r false false) /\ rule_matches r line = true.
Proof. exact guarded_line_reads_back. Qed.
Print Assumptions C09_guarded_line_reads_back.
(* the second guard leaves nothing for the escaped rule to drop: what it returns never ends in ` (no-eol)` *)
Theorem C09_no_eol_guard_keeps_ending : forall t, strip_suffix S_NOEOL (guard_noeol t) = None.
Proof. exact guard_noeol_keeps_ending. Qed.
Print Assumptions C09_no_eol_guard_keeps_ending.
Example C09_guard_instances :
  guarded_line true false Unicode [62; 32; 102; 10] = [92; 120; 51; 101; 32; 102] ++ S_ESCAPED                 (* > f   ->  \x3e f (escaped) *)
  /\ guarded_line false true Ascii [36; 32; 121; 10] = [92; 120; 50; 52; 32; 121] ++ S_ESCAPED                 (* $ y   ->  \x24 y (escaped) *)
  /\ guarded_line false false Unicode [62; 32; 102; 10] = [62; 32; 102]                                        (* not the first line: as it is *)
  /\ written_line Unicode ([9; 102] ++ S_NOEOL ++ [10]) = [92; 116; 102; 32; 40; 110; 111; 45; 101; 111; 108] ++ X29 ++ S_ESCAPED
  /\ (exists r, parse (fun x => x) (fun _ => true) (fun x => x) (guarded_line true false Unicode [62; 32; 102; 10]) = POk (mkE r false false)
                /\ rule_matches r [62; 32; 102; 10] = true /\ rule_matches r [62; 32; 103; 10] = false)
  /\ (exists r, parse (fun x => x) (fun _ => true) (fun x => x) (written_line Unicode ([9; 102] ++ S_NOEOL ++ [10])) = POk (mkE r false false)
                /\ rule_matches r ([9; 102] ++ S_NOEOL ++ [10]) = true /\ rule_matches r [9; 102; 10] = false).
Proof.
  repeat split; try (vm_compute; reflexivity).
  - eexists. split; [vm_compute; reflexivity|]. split; vm_compute; reflexivity.
  - eexists. split; [vm_compute; reflexivity|]. split; vm_compute; reflexivity.
Qed.

(* the determinism premise is needed -- the listed known finding: a kept optional-multiline expectation followed by an
   overlapping one.  lines 1 2; expectations  1(optional multiline), 9, any-single-line *)
Example C09_regen_greedy_refuted :
  let es := [mkExp nat true true (Nat.eqb 1); mkExp nat false false (Nat.eqb 9); mkExp nat false false (fun _ => true)] in
  exists d, diff nat es [1; 2]%nat = Some d
    /\ accepts nat (regen nat Nat.eqb es d) [1; 2]%nat = false
    /\ detb nat (regen nat Nat.eqb es d) false [1; 2]%nat = false.
Proof. cbv zeta. eexists. split; [vm_compute; reflexivity|]. split; vm_compute; reflexivity. Qed.

Check C09_line_round_trip : forall rp rc gn m content line,
  out_line content line ->
  (has_unprintable m content = true -> strip_suffix S_NOEOL (escaped_printable m content) = None) ->
  exists r, parse rp rc gn (expectation_line m line) = POk (mkE r false false) /\ rule_matches r line = true.

(* lines that look like a modifier or an exit code get an explicit kind; an unterminated unprintable line is (escaped) *)
Example C09_instances :
  expectation_line Unicode [102; 111; 111; 32; 40; 103; 108; 111; 98; 41; 10]
    = [102; 111; 111; 32; 40; 103; 108; 111; 98; 41] ++ S_EQUAL
  /\ expectation_line Ascii [91; 49; 93; 10] = [91; 49; 93] ++ S_EQUAL
  /\ expectation_line Unicode [97; 9; 98] = [97; 92; 116; 98] ++ S_ESCAPED
  /\ expectation_line Unicode [102; 111; 111] = [102; 111; 111] ++ S_NOEOL
  /\ expectation_line Unicode [102; 111; 111; 10] = [102; 111; 111].
Proof. repeat split; vm_compute; reflexivity. Qed.

Check C09_cram_tests_read_back : forall pe m ts, Forall (g_ok pe m) ts ->
  parse_cram pe (render_cram (gen_cram_docs m ts)) = LOk (g_tests m ts 0).
Check C09_markdown_tests_read_back : forall pe front_ok cfg_ok m cfg ts, Forall (g_ok_md pe m) ts -> cfg_fine cfg_ok cfg ->
  exists rs, parse_md pe front_ok cfg_ok (render_md (gen_md_docs m cfg ts)) = LOk rs /\ Forall2 (same_test m cfg) ts rs.

Print Assumptions C09_line_round_trip.
Print Assumptions C09_line_not_exit_code.
Print Assumptions C09_regen_described.
Print Assumptions C09_regen_accepts_when_deterministic.
Print Assumptions C09_generated_expectations_pass.
Print Assumptions C09_cram_test_reads_back.
Print Assumptions C09_markdown_test_reads_back.
Print Assumptions C09_cram_tests_read_back.
Print Assumptions C09_guarded_cram_document_same.
Print Assumptions C09_guarded_markdown_document_same.
Print Assumptions C09_markdown_tests_read_back.
