(* C09 — generated tests pass against the very output they were generated from. *)
From Coq Require Import List NArith Bool Arith.
Import ListNotations.
From SV Require Import Utf8 Escape EscapeProofs ExpGrammar ExpGrammarProofs Rules LineParser Generate GenerateProofs
                       Diff Det DiffProofs DetProofs DetExtra Regen.
Local Open Scope N_scope.

(* [expectation_line m line] is the text create/update write for one line of output; out_line content line: the line is
   its content (bytes < 256, no LF) followed by nothing or one LF.  Read back through the expectation grammar it is an
   expectation without quantifier that matches that very line.  The premise excludes one listed known finding: an
   escaped rendering that itself ends in ` (no-eol)`. *)
Theorem C09_line_round_trip : forall rp rc gn m content line,
  out_line content line ->
  (has_unprintable m content = true -> strip_suffix S_NOEOL (escaped_printable m content) = None) ->
  exists r, parse rp rc gn (expectation_line m line) = POk (mkE r false false) /\ rule_matches r line = true.
Proof. exact line_round_trip. Qed.

(* and the line parser never takes it for an exit-code line *)
Theorem C09_line_not_exit_code : forall m line, extract_exit_code (expectation_line m line) = None.
Proof. exact (line_not_exit_code (fun x => x) (fun _ => true) (fun x => x)). Qed.

(* update of a failing test: kept expectations + literal expectations for the unexpected lines always DESCRIBE the
   output (for every diff the matcher can return) ... *)
Theorem C09_regen_described : forall (line : Type) (leqb : line -> line -> bool),
  (forall a b, leqb a b = true <-> a = b) ->
  forall es ls d, diff line es ls = Some d -> Described line (regen line leqb es d) ls.
Proof. exact regen_described. Qed.

(* ... hence the regenerated test passes whenever the regenerated list is deterministic for the output (C03) *)
Theorem C09_regen_accepts_when_deterministic : forall (line : Type) (leqb : line -> line -> bool),
  (forall a b, leqb a b = true <-> a = b) ->
  forall es ls d, diff line es ls = Some d ->
  detb line (regen line leqb es d) false ls = true -> accepts line (regen line leqb es d) ls = true.
Proof.
  intros line leqb H es ls d Hd Hdet.
  apply (proj2 (C03_complete_when_deterministic line _ ls Hdet)). apply (regen_described line leqb H es ls d Hd).
Qed.

(* composed over a whole output: the expectation lines `scrut create` writes for the lines of an output parse back to
   a list of unquantified expectations that the matcher accepts on that very output (C09_line_round_trip per line, then
   C03_own_lines_pass) -- any number of lines, both escaping modes *)
Theorem C09_generated_expectations_pass : forall rp rc gn m (contents ls : list (list N)),
  Forall2 out_line contents ls ->
  Forall (fun content => has_unprintable m content = true -> strip_suffix S_NOEOL (escaped_printable m content) = None) contents ->
  exists rs, Forall2 (fun l r => parse rp rc gn (expectation_line m l) = POk (mkE r false false)) ls rs
             /\ accepts (list N) (map (fun r => mkExp (list N) false false (rule_matches r)) rs) ls = true.
Proof.
  intros rp rc gn m contents ls H2 Hk.
  assert (E: exists rs, Forall2 (fun l r => parse rp rc gn (expectation_line m l) = POk (mkE r false false)) ls rs
                        /\ Forall2 (fun e l => mt (list N) e l = true) (map (fun r => mkExp (list N) false false (rule_matches r)) rs) ls).
  { induction H2 as [|content l contents ls Hl H2 IH]; [exists []; split; constructor|].
    inversion Hk as [|x y Hk1 Hk2]; subst.
    destruct (C09_line_round_trip rp rc gn m content l Hl Hk1) as [r [Hp Hm]].
    destruct (IH Hk2) as [rs [F1 F2]]. exists (r :: rs). split; constructor; assumption. }
  destruct E as [rs [F1 F2]]. exists rs. split; [exact F1|].
  apply own_lines_pass; [|exact F2].
  apply Forall_forall. intros e He. apply in_map_iff in He. destruct He as [r [<- _]]. split; reflexivity.
Qed.

(* the determinism premise is needed -- the listed known finding: a kept optional-multiline expectation followed by an
   overlapping one.  lines 1 2; expectations  1(optional multiline), 9, any-single-line *)
Example C09_regen_greedy_refuted :
  let es := [mkExp nat true true (Nat.eqb 1); mkExp nat false false (Nat.eqb 9); mkExp nat false false (fun _ => true)] in
  exists d, diff nat es [1; 2]%nat = Some d
    /\ accepts nat (regen nat Nat.eqb es d) [1; 2]%nat = false
    /\ detb nat (regen nat Nat.eqb es d) false [1; 2]%nat = false.
Proof. cbv zeta. eexists. split; [vm_compute; reflexivity|]. split; vm_compute; reflexivity. Qed.

Check C09_line_round_trip : forall rp rc gn m content line,
  out_line content line ->
  (has_unprintable m content = true -> strip_suffix S_NOEOL (escaped_printable m content) = None) ->
  exists r, parse rp rc gn (expectation_line m line) = POk (mkE r false false) /\ rule_matches r line = true.

(* lines that look like a modifier or an exit code get an explicit kind; an unterminated unprintable line is (escaped) *)
Example C09_instances :
  expectation_line Unicode [102; 111; 111; 32; 40; 103; 108; 111; 98; 41; 10]
    = [102; 111; 111; 32; 40; 103; 108; 111; 98; 41] ++ S_EQUAL
  /\ expectation_line Ascii [91; 49; 93; 10] = [91; 49; 93] ++ S_EQUAL
  /\ expectation_line Unicode [97; 9; 98] = [97; 92; 116; 98] ++ S_ESCAPED
  /\ expectation_line Unicode [102; 111; 111] = [102; 111; 111] ++ S_NOEOL
  /\ expectation_line Unicode [102; 111; 111; 10] = [102; 111; 111].
Proof. repeat split; vm_compute; reflexivity. Qed.

Print Assumptions C09_line_round_trip.
Print Assumptions C09_line_not_exit_code.
Print Assumptions C09_regen_described.
Print Assumptions C09_regen_accepts_when_deterministic.
Print Assumptions C09_generated_expectations_pass.
