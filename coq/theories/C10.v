(* C10 — `update` rewrites only failing expectations and is idempotent. *)
From Coq Require Import List NArith Bool.
Import ListNotations.
From SV Require Import Template Escape LineParser CramSpec Markdown MdSpec MarkdownProofs MdParseProofs Update UpdateProofs UpdateAstProofs.
Local Open Scope N_scope.

(* The update generator works on the token stream of C06, which accounts for every line of every document
   (C06_nothing_dropped).  For every token that is not a scrut block it writes the token's own lines back, byte for
   byte and in order; the only addition is the closing `---` of a front-matter that the document left open. *)
Theorem C10_outside_preserved : forall t bodies, is_test t = false -> front_shape t ->
  let out := fst (update_tok t bodies) in
  (out = tok_raw t \/ out = tok_raw t ++ [DASHES]) /\ snd (update_tok t bodies) = bodies.
Proof. exact update_tok_outside. Qed.

(* the premise about front-matter tokens holds for every token the tokenizer can produce *)
Theorem C10_tokens_well_shaped : forall ls, Forall front_shape (md_tokens ls).
Proof. exact tokens_front_shape. Qed.

Theorem C10_nothing_truncated : forall ls, concat (map tok_raw (md_tokens ls)) = ls.
Proof. exact tokens_lossless. Qed.

(* the fence written around a regenerated body has at least three backticks and is longer than the leading backticks of
   any line in it: no line of the body closes the block early, nothing after it is swallowed *)
Theorem C10_fence_safe : forall body,
  (3 <= S (max_bt 2 body))%nat /\ forall l, In l body -> closes (S (max_bt 2 body)) l = false.
Proof. intros body. split; [apply fence_at_least_three|apply fence_not_closed_by_body]. Qed.

(* Over the document grammar of C06: updating the rendering of a well-formed document d with new bodies for its tests
   is the rendering of [subst d bs] -- the same elements in the same order, prose / headings / front-matter / other
   code blocks untouched, every scrut block with its comments and its (re-rendered) inline configuration, a new fence,
   and for the blocks with a command the same command and continuations followed by the new body ... *)
Theorem C10_update_is_substitution : forall d idx bs, length bs = commands d ->
  update_toks (tokens_from idx d) (bodies_for d bs) = render_md (subst d bs).
Proof. exact update_render. Qed.

(* ... hence, by the round trip of C06, the updated document parses to tests with the SAME titles and commands as the
   original, whenever the substituted document is well formed (its new fence is never closed by a body line:
   C10_fence_safe; what remains are the conditions on the new expectation lines -- parse as expectations, not an exit
   code, the first one not starting with `> `: the listed known finding) *)
Theorem C10_same_commands : forall pe_ok front_ok cfg_ok d bs,
  wf_md pe_ok front_ok cfg_ok d = true -> length bs = commands d -> wf_md pe_ok front_ok cfg_ok (subst d bs) = true ->
  exists ts, parse_md pe_ok front_ok cfg_ok (update_md (render_md d) (bodies_for d bs)) = LOk ts
             /\ map (fun t => (pt_title (mt_test t), pt_cmd (mt_test t))) ts
                = map (fun t => (pt_title (mt_test t), pt_cmd (mt_test t))) (md_tests_of d).
Proof. exact update_same_commands. Qed.

(* idempotence over the document grammar: updating the updated document again with the same bodies (a test that now
   passes keeps its lines: C09) returns the very same document -- the new fences, the re-rendered configuration and the
   closing lines are fixed points *)
Theorem C10_idempotent : forall pe_ok front_ok cfg_ok d bs,
  wf_md pe_ok front_ok cfg_ok d = true -> length bs = commands d -> wf_md pe_ok front_ok cfg_ok (subst d bs) = true ->
  bodies_for d bs <> [] ->
  update_md (update_md (render_md d) (bodies_for d bs)) (bodies_for d bs) = update_md (render_md d) (bodies_for d bs).
Proof. exact update_idempotent. Qed.

Example C10_same_commands_instance :   (* heading, a test with a continuation whose new body holds a fence line, trailing prose *)
  let d := [EHeading 1 [84]; EBlank; EScrut 3 (Some [32; 97]) [32] [[35]] (Some ([99], [[100]], [BExp [111]])) []; EProse [80]] in
  let bs := [[BExp [96; 96; 96]; BCode [51]]] in
  wf_md (fun _ => true) (fun _ => true) (fun _ => true) d = true /\ length bs = commands d
  /\ wf_md (fun _ => true) (fun _ => true) (fun _ => true) (subst d bs) = true
  /\ render_md (subst d bs) = [[35; 32; 84]; []; [96; 96; 96; 96; 115; 99; 114; 117; 116; 32; 123; 97; 125]; [35]; [36; 32; 99]; [62; 32; 100];
                               [96; 96; 96]; [91; 51; 93]; [96; 96; 96; 96]; [80]].
Proof. cbv zeta. repeat split; vm_compute; reflexivity. Qed.

Check C10_outside_preserved : forall t bodies, is_test t = false -> front_shape t ->
  let out := fst (update_tok t bodies) in
  (out = tok_raw t \/ out = tok_raw t ++ [DASHES]) /\ snd (update_tok t bodies) = bodies.

(* a document with prose around, a foreign block, a block without command and a test whose new body contains a fence *)
Example C10_instance :
  let doc := [[80]; [96; 96; 96; 115; 104]; [120]; [96; 96; 96]; [96; 96; 96; 115; 99; 114; 117; 116]; [35]; [96; 96; 96];
              [96; 96; 96; 115; 99; 114; 117; 116]; [36; 32; 99]; [111]; [96; 96; 96]; [84]] in
  update_md doc [[[36; 32; 99]; [96; 96; 96]]]
  = [[80]; [96; 96; 96; 115; 104]; [120]; [96; 96; 96]; [96; 96; 96; 115; 99; 114; 117; 116]; [35]; [96; 96; 96];
     [96; 96; 96; 96; 115; 99; 114; 117; 116]; [36; 32; 99]; [96; 96; 96]; [96; 96; 96; 96]; [84]].
Proof. vm_compute. reflexivity. Qed.

Print Assumptions C10_outside_preserved.
Print Assumptions C10_tokens_well_shaped.
Print Assumptions C10_nothing_truncated.
Print Assumptions C10_fence_safe.
Print Assumptions C10_update_is_substitution.
Print Assumptions C10_same_commands.
Print Assumptions C10_idempotent.
