(* C10 — `update` rewrites only failing expectations and is idempotent. *)
From Coq Require Import List NArith Bool.
Import ListNotations.
From SV Require Import Template Escape LineParser Markdown MarkdownProofs Update UpdateProofs.
Local Open Scope N_scope.

(* The update generator works on the token stream of C06, which accounts for every line of every document
   (C06_nothing_dropped).  For every token that is not a scrut block it writes the token's own lines back, byte for
   byte and in order; the only addition is the closing `---` of a front-matter that the document left open. *)
Theorem C10_outside_preserved : forall t bodies, is_test t = false -> front_shape t ->
  let out := fst (update_tok t bodies) in
  (out = tok_raw t \/ out = tok_raw t ++ [DASHES]) /\ snd (update_tok t bodies) = bodies.
Proof. exact update_tok_outside. Qed.

(* the premise about front-matter tokens holds for every token the tokenizer can produce *)
Theorem C10_tokens_well_shaped : forall ls, Forall front_shape (md_tokens ls).
Proof. exact tokens_front_shape. Qed.

Theorem C10_nothing_truncated : forall ls, concat (map tok_raw (md_tokens ls)) = ls.
Proof. exact tokens_lossless. Qed.

(* the fence written around a regenerated body has at least three backticks and is longer than the leading backticks of
   any line in it: no line of the body closes the block early, nothing after it is swallowed *)
Theorem C10_fence_safe : forall body,
  (3 <= S (max_bt 2 body))%nat /\ forall l, In l body -> closes (S (max_bt 2 body)) l = false.
Proof. intros body. split; [apply fence_at_least_three|apply fence_not_closed_by_body]. Qed.

Check C10_outside_preserved : forall t bodies, is_test t = false -> front_shape t ->
  let out := fst (update_tok t bodies) in
  (out = tok_raw t \/ out = tok_raw t ++ [DASHES]) /\ snd (update_tok t bodies) = bodies.

(* a document with prose around, a foreign block, a block without command and a test whose new body contains a fence *)
Example C10_instance :
  let doc := [[80]; [96; 96; 96; 115; 104]; [120]; [96; 96; 96]; [96; 96; 96; 115; 99; 114; 117; 116]; [35]; [96; 96; 96];
              [96; 96; 96; 115; 99; 114; 117; 116]; [36; 32; 99]; [111]; [96; 96; 96]; [84]] in
  update_md doc [[[36; 32; 99]; [96; 96; 96]]]
  = [[80]; [96; 96; 96; 115; 104]; [120]; [96; 96; 96]; [96; 96; 96; 115; 99; 114; 117; 116]; [35]; [96; 96; 96];
     [96; 96; 96; 96; 115; 99; 114; 117; 116]; [36; 32; 99]; [96; 96; 96]; [96; 96; 96; 96]; [84]].
Proof. vm_compute. reflexivity. Qed.

Print Assumptions C10_outside_preserved.
Print Assumptions C10_tokens_well_shaped.
Print Assumptions C10_nothing_truncated.
Print Assumptions C10_fence_safe.
