(* C11 — escaping is lossless and produces printable text (both modes). *)
From Coq Require Import List NArith Bool.
Import ListNotations.
From SV Require Import Utf8 gen_Unicode Escape EscapeProofs.
Local Open Scope N_scope.

(* [escaped_expectation m line] is what scrut writes for a line of output: the line itself when that is printable
   text, otherwise an escaped rendering (written with the suffix ` (escaped)`).  [decode] is the reader of escaped
   expectations, [escaped_matches] the resulting rule.  content_ok: bytes < 256, no LF inside the content
   (lines are split at LF, the final one is trimmed). *)
Theorem C11_lossless : forall m line, content_ok (trim_newlines line) ->
  match escaped_expectation m line with
  | Escaped txt => decode txt = Some (trim_newlines line)
  | Plain txt => utf8_encode txt = trim_newlines line
  end.
Proof. exact lossless. Qed.

(* printable ASCII in ascii mode; in unicode mode no character for which the linked unicode_categories crate
   answers is_other (Cc, Cf, Co; the table is regenerated from the crate on every run) *)
Theorem C11_printable : forall m line, content_ok (trim_newlines line) ->
  Forall (printable_in m) (text_written (escaped_expectation m line)).
Proof. exact written_printable. Qed.

(* read back as an escaped expectation it matches exactly the lines with that content *)
Theorem C11_exact : forall txt t, decode txt = Some t ->
  forall l', escaped_matches txt l' = Some true <-> trim_newlines l' = t.
Proof. exact escaped_exact. Qed.

Theorem C11_utf8_round_trip :
  (forall cs, Forall (fun c => is_scalar c = true) cs -> utf8_decode (utf8_encode cs) = Some cs)
  /\ (forall bs cs, utf8_decode bs = Some cs -> utf8_encode cs = bs /\ Forall (fun c => is_scalar c = true) cs).
Proof. split; [exact utf8_decode_encode|exact utf8_decode_sound]. Qed.

Check C11_lossless : forall m line, content_ok (trim_newlines line) ->
  match escaped_expectation m line with
  | Escaped txt => decode txt = Some (trim_newlines line)
  | Plain txt => utf8_encode txt = trim_newlines line
  end.

(* a TAB next to a backslash: the case the unrepaired unicode escaper got wrong *)
Example C11_instance :
  escaped_expectation Unicode [97; 9; 67; 58; 92; 116; 10] = Escaped [97; 92; 116; 67; 58; 92; 92; 116]
  /\ decode [97; 92; 116; 67; 58; 92; 92; 116] = Some [97; 9; 67; 58; 92; 116]
  /\ escaped_expectation Unicode [67; 58; 92; 116; 10] = Plain [67; 58; 92; 116]
  /\ content_ok (trim_newlines [97; 9; 67; 58; 92; 116; 10]).
Proof.
  repeat split; try (vm_compute; reflexivity).
  vm_compute. repeat constructor; discriminate.
Qed.

Print Assumptions C11_lossless.
Print Assumptions C11_printable.
Print Assumptions C11_exact.
Print Assumptions C11_utf8_round_trip.
