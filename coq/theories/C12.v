(* C12 — shell state carries from one test case to the next as if run in one shell. *)
From Coq Require Import List NArith Bool.
Import ListNotations.
From SV Require Import gen_Template Render StateCarry StateCarryProofs.
Local Open Scope N_scope.

(* The carrier: persist = what the EXIT trap writes (everything except read-only variables and the excluded names, the list
   regenerated from bash_runner.rs on this run); restore = a fresh process sourcing it.  For every state that is
   carriable -- no visible read-only variable, nothing unset that a fresh process defines by itself -- the next process
   observes exactly that state: all visible variables with value, export flag and attributes, all functions, aliases,
   options, the directory and the directory stack. *)
Theorem C12_restore_persist : forall boot s, carriable boot s -> veq (restore boot (persist s)) s.
Proof. exact restore_persist. Qed.

(* Whatever bash does with a snippet (step is arbitrary, provided it cannot observe the excluded variables): for every
   history -- any number of test cases, detached ones anywhere -- whose states are carriable, running each test case
   in its own process with the state file in between yields the outputs of one single session. *)
Theorem C12_carry : forall (snippet out : Type) (step : snippet -> shell -> shell * out) (boot : shell),
  (forall c s1 s2, veq s1 s2 -> veq (fst (step c s1)) (fst (step c s2)) /\ snd (step c s1) = snd (step c s2)) ->
  forall h, transparent snippet out step boot boot h ->
    per_process snippet out step boot None h = session snippet out step boot h.
Proof. exact carry. Qed.

Theorem C12_detached_leaves_nothing : forall (snippet out : Type) (step : snippet -> shell -> shell * out) boot c r file,
  per_process snippet out step boot file ((c, true) :: r) = None :: per_process snippet out step boot file r.
Proof. exact detached_leaves_nothing. Qed.

(* the premise is needed: the two listed findings *)
Example C12_unset_not_carried_refuted :
  let boot := mkSh [(X, mkVar [49] true false [])] [] [] [] [] [] in
  let s := mkSh [] [] [] [] [] [] in
  lookup X (vars (restore boot (persist s))) <> lookup X (vars s) /\ excluded X = false.
Proof. exact unset_not_carried. Qed.
Example C12_readonly_not_carried_refuted :
  let boot := mkSh [] [] [] [] [] [] in
  let s := mkSh [(X, mkVar [49] false true [])] [] [] [] [] [] in
  lookup X (vars (restore boot (persist s))) <> lookup X (vars s).
Proof. exact readonly_not_carried. Qed.

(* whole names are excluded, not prefixes *)
Example C12_prefix_names_are_persisted :
  persisted_names [[85;73;68]; [85;73;68;95;77;73;78]; [83;67;82;85;84;95;84;69;83;84;95;88]; [76;73;78;69;78;79]; [86;49]] [[86;49]]
  = [[85;73;68;95;77;73;78]; [83;67;82;85;84;95;84;69;83;84;95;88]].
Proof. exact prefix_names_are_persisted. Qed.

Check C12_carry : forall (snippet out : Type) (step : snippet -> shell -> shell * out) (boot : shell),
  (forall c s1 s2, veq s1 s2 -> veq (fst (step c s1)) (fst (step c s2)) /\ snd (step c s1) = snd (step c s2)) ->
  forall h, transparent snippet out step boot boot h ->
    per_process snippet out step boot None h = session snippet out step boot h.

(* non-vacuity: a step function that sets a variable and echoes another; three test cases, the middle one detached *)
Example C12_instance :
  let V := [86] in let W := [87] in
  let step := fun (c : N) (s : shell) =>
    (mkSh ((V, mkVar [c] false false []) :: vars s) (funs s) (aliases s) (opts s) (cwd s) (dstack s),
     match lookup V (vars s) with Some v => v_value v | None => [] end) in
  let boot := mkSh [(W, mkVar [48] true false [])] [] [] [([117], false)] [47] [] in
  per_process N (list N) step boot None [(1, false); (2, true); (3, false)] = [Some []; None; Some [1]]
  /\ session N (list N) step boot [(1, false); (2, true); (3, false)] = [Some []; None; Some [1]].
Proof. cbv zeta. split; vm_compute; reflexivity. Qed.

Print Assumptions C12_restore_persist.
Print Assumptions C12_carry.
Print Assumptions C12_detached_leaves_nothing.

(* ---------- the state file and the script around it: the order of their parts (read off the template regenerated from /repo) ----------
   The state file is written in this order: sh options; functions, read under extglob (their bodies may use extended patterns)
   and before the aliases (which must not be expanded in them once more); bash options; aliases; variables; directory,
   directory stack; OLDPWD last (the directory changes set it).  The persist function is defined before the carried state is
   sourced (carried aliases cannot reach into it), and the shell expression comes last. *)
From SV Require Import ScriptExec.
Definition N_SET : list N := [10; 32; 32; 32; 32; 32; 32; 32; 32; 115; 101; 116; 32; 43; 111; 10].
Definition N_EXTGLOB : list N := [10; 32; 32; 32; 32; 32; 32; 32; 32; 101; 99; 104; 111; 32; 34; 115; 104; 111; 112; 116; 32; 45; 115; 32; 101; 120; 116; 103; 108; 111; 98; 34; 10].
Definition N_FUNS : list N := [10; 32; 32; 32; 32; 32; 32; 32; 32; 100; 101; 99; 108; 97; 114; 101; 32; 45; 102; 10].
Definition N_SHOPT : list N := [10; 32; 32; 32; 32; 32; 32; 32; 32; 115; 104; 111; 112; 116; 32; 45; 112; 10].
Definition N_ALIAS : list N := [10; 32; 32; 32; 32; 32; 32; 32; 32; 97; 108; 105; 97; 115; 32; 45; 112; 10].
Definition N_VARS : list N := [101; 118; 97; 108; 32; 34; 36; 95; 95; 83; 67; 82; 85; 84; 95; 68; 69; 67; 76; 65; 82; 69; 95; 86; 65; 82; 83; 95; 67; 77; 68; 34].
Definition N_CD : list N := [112; 114; 105; 110; 116; 102; 32; 34; 99; 100; 32; 37; 113].
Definition N_PUSHD : list N := [112; 114; 105; 110; 116; 102; 32; 34; 112; 117; 115; 104; 100; 32; 37; 113].
Definition N_OLDPWD : list N := [112; 114; 105; 110; 116; 102; 32; 34; 79; 76; 68; 80; 87; 68; 61; 37; 113].
Definition N_SOURCE : list N := [115; 111; 117; 114; 99; 101; 32; 34; 36; 95; 95; 83; 67; 82; 85; 84; 95; 84; 69; 77; 80; 95; 83; 84; 65; 84; 69; 95; 80; 65; 84; 72; 47; 115; 116; 97; 116; 101; 34].
Definition N_TRAPDEF : list N := [102; 117; 110; 99; 116; 105; 111; 110; 32; 95; 95; 115; 99; 114; 117; 116; 95; 112; 101; 114; 115; 105; 115; 116; 95; 115; 116; 97; 116; 101; 32; 123].
Definition N_EXPR : list N := [123; 115; 104; 101; 108; 108; 95; 101; 120; 112; 114; 101; 115; 115; 105; 111; 110; 125].
Definition at_ (needle : list N) : option nat := find_sub needle template.
Definition ordered (l : list (option nat)) : bool :=
  (fix go (prev : option nat) (l : list (option nat)) : bool :=
     match l with
     | [] => true
     | None :: _ => false
     | Some k :: r => match prev with Some p => Nat.ltb p k && go (Some k) r | None => go (Some k) r end
     end) None l.
Theorem C12_state_file_order :
  ordered [at_ N_TRAPDEF; at_ N_SET; at_ N_EXTGLOB; at_ N_FUNS; at_ N_SHOPT; at_ N_ALIAS; at_ N_VARS; at_ N_CD; at_ N_PUSHD; at_ N_OLDPWD;
           at_ N_SOURCE; at_ N_EXPR] = true.
Proof. vm_compute. reflexivity. Qed.
Print Assumptions C12_state_file_order.
