(* C12 — shell state carries from one test case to the next as if run in one shell. *)
From Coq Require Import List NArith Bool.
Import ListNotations.
From SV Require Import gen_Template Render StateCarry StateCarryProofs.
Local Open Scope N_scope.

(* The carrier: persist = what the EXIT trap writes (everything except read-only variables and the excluded names, the list
   regenerated from bash_runner.rs on this run); restore = a fresh process sourcing it.  For every state that is
   carriable -- no visible read-only variable, nothing unset that a fresh process defines by itself -- the next process
   observes exactly that state: all visible variables with value, export flag and attributes, all functions, aliases,
   options, the directory and the directory stack. *)
Theorem C12_restore_persist : forall boot s, carriable boot s -> veq (restore boot (persist s)) s.
Proof. exact restore_persist. Qed.

(* Whatever bash does with a snippet (step is arbitrary, provided it cannot observe the excluded variables): for every
   history -- any number of test cases, detached ones anywhere -- whose states are carriable, running each test case
   in its own process with the state file in between yields the outputs of one single session. *)
Theorem C12_carry : forall (snippet out : Type) (step : snippet -> shell -> shell * out) (boot : shell),
  (forall c s1 s2, veq s1 s2 -> veq (fst (step c s1)) (fst (step c s2)) /\ snd (step c s1) = snd (step c s2)) ->
  forall h, transparent snippet out step boot boot h ->
    per_process snippet out step boot None h = session snippet out step boot h.
Proof. exact carry. Qed.

Theorem C12_detached_leaves_nothing : forall (snippet out : Type) (step : snippet -> shell -> shell * out) boot c r file,
  per_process snippet out step boot file ((c, true) :: r) = None :: per_process snippet out step boot file r.
Proof. exact detached_leaves_nothing. Qed.

(* the premise is needed: the two listed findings *)
Example C12_unset_not_carried_refuted :
  let boot := mkSh [(X, mkVar [49] true false [])] [] [] [] [] [] in
  let s := mkSh [] [] [] [] [] [] in
  lookup X (vars (restore boot (persist s))) <> lookup X (vars s) /\ excluded X = false.
Proof. exact unset_not_carried. Qed.
Example C12_readonly_not_carried_refuted :
  let boot := mkSh [] [] [] [] [] [] in
  let s := mkSh [(X, mkVar [49] false true [])] [] [] [] [] [] in
  lookup X (vars (restore boot (persist s))) <> lookup X (vars s).
Proof. exact readonly_not_carried. Qed.

(* whole names are excluded, not prefixes *)
Example C12_prefix_names_are_persisted :
  persisted_names [[85;73;68]; [85;73;68;95;77;73;78]; [83;67;82;85;84;95;84;69;83;84;95;88]; [76;73;78;69;78;79]; [86;49]] [[86;49]]
  = [[85;73;68;95;77;73;78]; [83;67;82;85;84;95;84;69;83;84;95;88]].
Proof. exact prefix_names_are_persisted. Qed.

Check C12_carry : forall (snippet out : Type) (step : snippet -> shell -> shell * out) (boot : shell),
  (forall c s1 s2, veq s1 s2 -> veq (fst (step c s1)) (fst (step c s2)) /\ snd (step c s1) = snd (step c s2)) ->
  forall h, transparent snippet out step boot boot h ->
    per_process snippet out step boot None h = session snippet out step boot h.

(* non-vacuity: a step function that sets a variable and echoes another; three test cases, the middle one detached *)
Example C12_instance :
  let V := [86] in let W := [87] in
  let step := fun (c : N) (s : shell) =>
    (mkSh ((V, mkVar [c] false false []) :: vars s) (funs s) (aliases s) (opts s) (cwd s) (dstack s),
     match lookup V (vars s) with Some v => v_value v | None => [] end) in
  let boot := mkSh [(W, mkVar [48] true false [])] [] [] [([117], false)] [47] [] in
  per_process N (list N) step boot None [(1, false); (2, true); (3, false)] = [Some []; None; Some [1]]
  /\ session N (list N) step boot [(1, false); (2, true); (3, false)] = [Some []; None; Some [1]].
Proof. cbv zeta. split; vm_compute; reflexivity. Qed.

Print Assumptions C12_restore_persist.
Print Assumptions C12_carry.
Print Assumptions C12_detached_leaves_nothing.
