(* C13 — commands run verbatim; only the documented output transformations.  (a) script template, (b) CRLF. *)
From Coq Require Import List NArith ZArith Bool Arith Lia.
Import ListNotations.
From SV Require Import Template TemplateProofs gen_Template TemplateModel Crlf CrlfProofs.
From SV Require Import Lines ScriptExec ScriptExecProofs Render.
Local Open Scope N_scope.

(* the expression is substituted last (checked against the order regenerated from bash_runner.rs on this run) *)
Theorem C13_expression_last : last chain_order 99%nat = 2%nat /\ ~ In 2%nat (removelast chain_order).
Proof. split; [vm_compute; reflexivity|]. vm_compute. intuition discriminate. Qed.

(* hence: whenever the rest of the script contains the expression placeholder exactly once (a computable
   condition on state directory and name, see the Example), bash receives  pre ++ expression ++ post  where pre
   and post do not depend on the expression: the user's text appears verbatim, nothing inside it is rewritten *)
Opaque template.
Theorem C13_expression_verbatim : forall sd name detached i,
  single_at expr_placeholder (around sd name detached) i = true ->
  forall expr, render sd name expr detached
               = firstn i (around sd name detached) ++ expr ++ skipn (i + length expr_placeholder) (around sd name detached).
Proof.
  intros sd name detached i H expr. unfold render.
  destruct C13_expression_last as [L NI].
  assert (E : chain_order = removelast chain_order ++ [2%nat]).
  { rewrite <- L. apply app_removelast_last. vm_compute. discriminate. }
  rewrite E at 1. rewrite render_chain_snoc.
  rewrite (chain_indep ph_names (removelast chain_order) template (values sd name expr detached) (values sd name [] detached)).
  2:{ intros ph Hph. destruct ph as [|[|[|[|[|ph]]]]]; try reflexivity. contradiction. }
  assert (NE : expr_placeholder <> []) by (vm_compute; discriminate).
  change (render_chain template ph_names (removelast chain_order) (values sd name [] detached)) with (around sd name detached).
 
  unfold values at 1. cbn [nth].
  fold expr_placeholder.
  apply replace_single; assumption.
Qed.

Transparent template.

(* the hypothesis holds for the kind of state directory and name scrut generates; and text that looks like one of
   scrut's own placeholders inside the expression reaches bash untouched *)
Example C13_instance :
  let sd := [47; 116; 109; 112; 47; 46; 115; 116; 97; 116; 101; 46; 120] in         
  let name := [101; 120; 101; 99; 49] in                                                
  exists i, single_at expr_placeholder (around sd name false) i = true
    /\ render sd name (nth 4 ph_names []) false
       = firstn i (around sd name false) ++ nth 4 ph_names [] ++ skipn (i + length expr_placeholder) (around sd name false).
Proof.
  cbv zeta.
  assert (H : exists i, single_at expr_placeholder (around [47; 116; 109; 112; 47; 46; 115; 116; 97; 116; 101; 46; 120] [101; 120; 101; 99; 49] false) i = true).
  { exists (Nat.sub (length (around [47; 116; 109; 112; 47; 46; 115; 116; 97; 116; 101; 46; 120] [101; 120; 101; 99; 49] false)) 19). vm_compute. reflexivity. }
  destruct H as [i H]. exists i. split; [exact H|]. apply C13_expression_verbatim. exact H.
Qed.

(* ---------- (b) CR LF ---------- *)
(* replace_crlf removes exactly the CRs that are immediately followed by LF, for outputs of any length *)
Theorem C13_replace_crlf : forall out, replace_crlf out = crlf_spec out.
Proof. exact replace_crlf_is_spec. Qed.

(* TestCase::render_output: CRLF translation unless keep_crlf = true; ANSI stripping only under its flag *)
Theorem C13_render_output : forall strip_ansi keep strip out,
  render_output strip_ansi keep strip out =
    let o := match keep with Some true => out | _ => crlf_spec out end in
    match strip with Some true => strip_ansi o | _ => o end.
Proof. exact render_output_spec. Qed.

Check C13_expression_verbatim : forall sd name detached i,
  single_at expr_placeholder (around sd name detached) i = true ->
  forall expr, render sd name expr detached
               = firstn i (around sd name detached) ++ expr ++ skipn (i + length expr_placeholder) (around sd name detached).

Example C13_crlf_instance : replace_crlf [97; 13; 10; 13; 13; 10; 98; 13] = [97; 10; 13; 10; 98; 13].
Proof. vm_compute. reflexivity. Qed.

(* (c) Cram documents run as ONE script; the outputs of the test cases are separated by divider lines.  What an ideal
   bash prints for the compiled script -- every payload, wherever it ends (with or without a final newline, any
   bytes), followed by the divider line with the index and the exit code -- is split back into exactly those
   payloads and exit codes, for any number of test cases, provided no payload contains the divider prefix (the salt
   is alphanumeric; indices below 2^64, codes in the i32 range).  Only a divider that carries the salt of the execution
   is read as one (parse_salted). *)
Theorem C13_divider_split_ideal : forall salt outs i, salt_ok salt -> Forall payload_ok outs ->
  i + N.of_nat (length outs) <= 18446744073709551616 ->
  iterate salt (split_lines (ideal salt i outs)) [] i = Some outs.
Proof. exact split_ideal. Qed.
(* the premise is stronger than needed since the salt is compared (it used not to be: the former known finding
   cram-divider-prefix-in-output): a payload line that looks like a divider with another salt is output like any other *)
Example C13_divider_with_another_salt_is_output :
  let spoof := PREFIX ++ [120; 58; 58; 48; 58; 58; 48; 10] in              (* ~~~~~~~~EXECDIVIDER::x::0::0 *)
  split_outputs [115] (ideal [115] 0 [(spoof, 0%Z)]) = Some [(spoof, 0%Z)]
  /\ parse_salted [115] spoof = NotFound /\ parse_divider spoof = Found [] 0 0%Z.
Proof. cbv zeta. repeat split; vm_compute; reflexivity. Qed.
(* ... and that is a theorem: the payloads may hold the divider prefix, even whole divider lines of another execution; only
   the needle of THIS execution (prefix, salt, `::`) must not occur in them (the salt holds no `~`, `:` or line feed: it is
   alphanumeric).  The needle is not a constant, its freedom from self-overlap is proved from that of the prefix. *)
From SV Require Import ScriptExecSalted.
Theorem C13_divider_split_salted : forall salt outs i, salt_plain salt -> Forall (payload_salted salt) outs ->
  i + N.of_nat (length outs) <= 18446744073709551616 ->
  iterate salt (split_lines (ideal salt i outs)) [] i = Some outs.
Proof. exact split_ideal_salted. Qed.
Theorem C13_divider_needle_never_straddles : forall salt t r, salt_plain salt ->
  (0 < length t)%nat -> (length t < length (needle salt))%nat -> starts (needle salt) (t ++ needle salt ++ r) = false.
Proof. intros salt t r H. exact (needle_no_overlap salt H t r). Qed.
Check payload_ok_salted : forall salt pc, payload_ok pc -> payload_salted salt pc.      (* the former premise implies the new one *)
(* the premise that is left is needed: a payload that prints the needle of this very execution (it would have to guess 20 random
   alphanumeric characters) followed by an index and a code is taken for a divider -- here the split reports an error
   (index 1 where 0 is expected) *)
Example C13_divider_needle_premise_needed :
  let salt := [115%N] in
  let forged := PREFIX ++ salt ++ COLONS ++ [49%N] ++ COLONS ++ [48%N; 10%N] in           (* ~~~~~~~~EXECDIVIDER::s::1::0 *)
  ~ payload_salted salt (forged, 0%Z) /\ split_outputs salt (ideal salt 0 [(forged, 0%Z)]) = None.
Proof. cbv zeta. split; [intros [H _]; vm_compute in H; discriminate|vm_compute; reflexivity]. Qed.
Print Assumptions C13_divider_split_salted.
Print Assumptions C13_divider_needle_never_straddles.
Example C13_divider_instance :          (* two test cases: "a\nb" without final newline and exit code 3, then nothing and 0 *)
  split_outputs [115; 65; 55] (ideal [115; 65; 55] 0 [([97; 10; 98], 3%Z); ([], 0%Z)]) = Some [([97; 10; 98], 3%Z); ([], 0%Z)].
Proof. vm_compute. reflexivity. Qed.

Print Assumptions C13_expression_last.
Print Assumptions C13_expression_verbatim.
Print Assumptions C13_replace_crlf.
Print Assumptions C13_render_output.

(* ---------- (d) capture: nothing but the documented transformations (specification the executors are run against) ---------- *)
From SV Require Import Capture.
Theorem C13_capture_untouched : forall strip_ansi combined ws,
  recorded strip_ansi combined (Some true) None ws = captured combined ws.
Proof. intros. unfold recorded. destruct (captured combined ws) as [o e]. reflexivity. Qed.

Theorem C13_capture_conserves_bytes : forall ws,
  (length (fst (captured false ws)) + length (snd (captured false ws)) = length (concat (map snd ws)))%nat
  /\ fst (captured true ws) = concat (map snd ws).
Proof.
  intros ws. split; [|reflexivity]. unfold captured. cbn [fst snd].
  induction ws as [|[f b] ws IH]; [reflexivity|]. cbn [filter map concat fst snd negb].
  destruct f; cbn [negb filter map concat snd]; rewrite !app_length; lia.
Qed.
Print Assumptions C13_capture_untouched.
Print Assumptions C13_capture_conserves_bytes.
Print Assumptions C13_divider_split_ideal.

(* Cram documents, the script itself (compile_script transcribed in ScriptCompile.v and compared with the script the real
   executor hands to its shell): every shell expression stands in the script exactly as written, followed by an empty line
   and the echo of its divider with its index; cutting the script at the dividers returns the expressions verbatim and in
   order -- whatever they contain (quotes, line breaks, here-documents) except the divider prefix itself *)
From SV Require Import ScriptCompile ScriptCompileProofs.
Theorem C13_script_reads_back : forall exprs salt combined i, exprs <> [] ->
  Forall (fun e => find_sub PREFIX e = None) exprs ->
  read_blocks (S (length exprs)) salt combined i (script_join (test_blocks salt combined i exprs)) = Some exprs.
Proof. exact read_blocks_spec. Qed.
Example C13_script_instance :      (* two commands, the first over two lines with quotes; streams not combined *)
  compile_script [83] false [([75], [118; 32; 39])] [[101; 10; 34; 39]; [102]]
  = Some (T_EXPORT ++ [75; 61] ++ [39; 118; 32; 39; 92; 39; 39; 39] ++ [10]
          ++ [101; 10; 34; 39] ++ [10; 10] ++ T_ECHO ++ footer [83] 0 ++ [34; 10] ++ T_ECHO2 ++ footer [83] 0 ++ [34; 10]
          ++ [102] ++ [10; 10] ++ T_ECHO ++ footer [83] 1 ++ [34; 10] ++ T_ECHO2 ++ footer [83] 1 ++ [34])
  /\ read_blocks 3 [83] false 0 (script_join (test_blocks [83] false 0 [[101; 10; 34; 39]; [102]])) = Some [[101; 10; 34; 39]; [102]].
Proof. split; vm_compute; reflexivity. Qed.
Print Assumptions C13_script_reads_back.

(* "ANSI escape sequences are removed only when strip_ansi_escaping is set": the class of sequences in which the checks decide
   the removal -- colour / style sequences ESC [ digits-and-semicolons m -- has an executable specification, [strip_sgr], that
   removes exactly them: from any stream of ESC-free text pieces and well-formed sequences the text pieces remain, in order;
   ESC-free text is left as it is.  The real stripping (crate strip-ansi-escapes) is compared with it on every payload of the
   class, through both executors. *)
From SV Require Import Ansi AnsiProofs.
Theorem C13_strip_exactly_colour_sequences : forall toks, Forall (fun k => tok_ok k = true) toks ->
  strip_sgr (flat_map render_tok toks) = flat_map text_of_tok toks.
Proof. exact strip_tokens. Qed.
Theorem C13_strip_leaves_plain_text : forall l, forallb (fun c => negb (c =? 27)%N) l = true -> strip_sgr l = l.
Proof. exact strip_plain. Qed.
Print Assumptions C13_strip_exactly_colour_sequences.
Print Assumptions C13_strip_leaves_plain_text.
