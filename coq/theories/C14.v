(* C14 — timeouts bound execution and surface as failures. *)
From Coq Require Import List ZArith NArith Bool Arith Lia ZifyBool ZifyN.
Import ListNotations.
From SV Require Import Exec ExecProofs gen_Consts Config.
Local Open Scope N_scope.

(* the limit a test case runs under is the smaller of its own timeout and what is left of the document limit,
   whatever else is configured ... *)
Theorem C14_effective_is_min : forall per left, option_map fst (effective_limit per left) = omin per left.
Proof. exact effective_is_min. Qed.

(* ... and the kind of limit that is reported is the one that is actually the smaller *)
Theorem C14_effective_kind : forall per left d g, effective_limit per left = Some (d, g) ->
  if g then left = Some d /\ (forall p, per = Some p -> d < p)
  else per = Some d /\ (forall l, left = Some l -> d <= l).
Proof. exact effective_kind. Qed.

(* when the runner reports a timeout for test n, the results are: the validated tests before it, the timeout,
   and skipped for everything after; the run exits with 50 *)
Theorem C14_timeout_surfaces : forall v tcs rs gs g outs,
  length rs = length tcs -> length gs = length tcs ->
  exec tcs rs gs 0 = ExTimeout g outs ->
  exists n, (n < length tcs)%nat /\ length outs = S n
    /\ nth_error (doc_results v tcs (ExTimeout g outs)) n = Some (Some FailedTimeout)
    /\ (forall j, (n < j)%nat -> (j < length tcs)%nat -> nth_error (doc_results v tcs (ExTimeout g outs)) j = Some (Some RSkipped))
    /\ exit_status [doc_results v tcs (ExTimeout g outs)] = 50%Z.
Proof. exact SV.ExecProofs.C14_timeout_surfaces. Qed.

(* a timeout is reported only if the runner reported one *)
Theorem C14_no_spurious : forall tcs rs gs i g outs, exec tcs rs gs i = ExTimeout g outs ->
  exists j r, nth_error rs j = Some r /\ status r = TimedOut.
Proof. exact no_spurious_timeout. Qed.

(* once the document limit has run out -- also BETWEEN two test cases, e.g. while scrut waited before one -- the next test
   case starts under a limit of exactly zero, attributed to the document: a limit that is set never becomes `no limit`,
   and (with C14_timeout_surfaces) that test case is the timeout, the rest are skipped *)
Theorem C14_deadline_passed : forall per t elapsed, t <= elapsed -> (forall p, per = Some p -> 0 < p) ->
  effective_limit per (time_left (Some t) elapsed) = Some (0, true).
Proof.
  intros per t elapsed H Hp. unfold time_left, effective_limit. cbn [option_map].
  assert (E: t - elapsed = 0) by lia. rewrite E. destruct per as [p|]; [|reflexivity].
  specialize (Hp p eq_refl). destruct (0 <? p) eqn:L; [reflexivity|lia].
Qed.
Theorem C14_limit_never_lost : forall per t elapsed,
  exists d g, effective_limit per (time_left (Some t) elapsed) = Some (d, g) /\ d <= t - elapsed.
Proof.
  intros per t elapsed. unfold time_left, effective_limit. cbn [option_map]. destruct per as [p|].
  - destruct (t - elapsed <? p) eqn:L; eexists; eexists; (split; [reflexivity|lia]).
  - eexists; eexists; split; [reflexivity|lia].
Qed.

(* the default document limit, regenerated from /repo on this run *)
Theorem C14_default_limit : default_document_timeout_ms = 900000 /\ doc_default_markdown_total_timeout = Some 900000
                            /\ doc_default_cram_total_timeout = Some 900000.
Proof. repeat split; vm_compute; reflexivity. Qed.

Check C14_effective_is_min : forall per left, option_map fst (effective_limit per left) = omin per left.

Example C14_instance :
  effective_limit (Some 10000) (Some 1000) = Some (1000, true)        
  /\ effective_limit (Some 300) (Some 1000) = Some (300, false)
  /\ effective_limit None None = None.
Proof. repeat split; vm_compute; reflexivity. Qed.

Print Assumptions C14_effective_is_min.
Print Assumptions C14_effective_kind.
Print Assumptions C14_timeout_surfaces.
Print Assumptions C14_no_spurious.
Print Assumptions C14_default_limit.
Print Assumptions C14_deadline_passed.
Print Assumptions C14_limit_never_lost.
