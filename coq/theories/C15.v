(* C15 — the skip exit code skips the whole document, and nothing else does. *)
From Coq Require Import List ZArith NArith Bool Arith.
Import ListNotations.
From SV Require Import Exec ExecProofs gen_Consts.

(* a reached test case (everything before it ended in a numeric code other than its skip code, or detached) that ends
   in its effective skip code makes the executor report a skip ... *)
Theorem C15_skip_detected : forall tcs rs gs i j tc r,
  length gs = length tcs ->
  (forall m tcm rm, m < j -> nth_error tcs m = Some tcm -> nth_error rs m = Some rm -> passes_on tcm rm) ->
  nth_error tcs j = Some tc -> nth_error rs j = Some r -> status r = Code (t_skip tc) ->
  exec tcs rs gs i = ExSkipped (i + j).
Proof. exact exec_skips. Qed.

(* ... upon which every test case of the document is reported skipped and none as a failure *)
Theorem C15_skip_all : forall v tcs i,
  Forall (fun o => o = Some RSkipped) (doc_results v tcs (ExSkipped i))
  /\ existsb is_failure (doc_results v tcs (ExSkipped i)) = false.
Proof. exact SV.ExecProofs.C15_skip_all. Qed.

(* conversely a skipped result only arises from a skip or after a timeout *)
Theorem C15_only_then : forall tcs rs gs,
  In (Some RSkipped) (doc_results verdict tcs (exec tcs rs gs 0)) ->
  (exists k, exec tcs rs gs 0 = ExSkipped k) \/ (exists g outs, exec tcs rs gs 0 = ExTimeout g outs).
Proof. exact SV.ExecProofs.C15_only_then. Qed.

(* and a skip is only reported when some test really ended in its skip code (or the runner reported a skip) *)
Theorem C15_skip_has_cause : forall tcs rs gs i k, exec tcs rs gs i = ExSkipped k ->
  exists j tc r, k = i + j /\ nth_error tcs j = Some tc /\ nth_error rs j = Some r
                 /\ (status r = Code (t_skip tc) \/ status r = ESkipped).
Proof. exact exec_skipped_inv. Qed.

(* Cram documents run as ONE script.  The document is reported skipped exactly when a divider that was printed carries the
   skip code (or the script itself ended in it) -- also when a later test case ends the script early with another code, so
   that dividers are missing: the skip is found first and is never turned into an execution error *)
Theorem C15_script_skip_detected : forall skip rs early j r,
  nth_error (before_stop (produced rs early)) j = Some r -> status r = Code skip ->
  exists k, k <= j /\ exec_script2 skip rs early = ExSkipped k.
Proof. exact script_skip_detected. Qed.
Theorem C15_script_skip_has_cause : forall skip rs early k, exec_script2 skip rs early = ExSkipped k ->
  (exists r, nth_error (before_stop (produced rs early)) k = Some r /\ status r = Code skip)
  \/ (k = 0 /\ exists r, script_first_stop (produced rs early) = Some r /\ status r = ESkipped).
Proof. exact script_skip_has_cause. Qed.
(* ... and at the level of the bytes the script printed (finished_testcases, parse_salted_divider_bytes and
   iterate_divided_output transcribed in ScriptExec.v, compared with the real executor on scripted streams): for the stream
   a script prints that ran to its end -- every payload, of any bytes except the needle of this execution, followed by its
   divider -- the document is skipped exactly when a test case ended in the skip code, at the first of them, whatever the
   status the shell itself ended with; otherwise every test case gets its own output and exit code. *)
From SV Require Import ScriptExec ScriptExecSalted.
Theorem C15_script_skip_read_from_dividers : forall salt skip exit outs, salt_plain salt -> Forall (payload_salted salt) outs ->
  (N.of_nat (length outs) <= 18446744073709551616)%N ->
  script_verdict salt skip (N.of_nat (length outs)) exit (ideal salt 0 outs)
  = match first_code skip outs 0 with Some i => VSkip i | None => VOuts outs end.
Proof. exact script_verdict_ideal. Qed.
(* a test case that leaves the script with the skip code (`exit 80`): the dividers of the test cases before it are there,
   its own is missing, the shell ends in the skip code: skipped, at an earlier test case that ended in the code if there is one *)
Theorem C15_script_left_with_skip_code : forall salt skip outs partial ntests, salt_plain salt -> Forall (payload_salted salt) outs ->
  find_sub (needle salt) partial = None ->
  (N.of_nat (length outs) < ntests)%N -> (ntests <= 18446744073709551616)%N ->
  exists k, script_verdict salt skip ntests skip (ideal salt 0 outs ++ partial) = VSkip k
            /\ (first_code skip outs 0 = None -> k = 0%N) /\ (forall j, first_code skip outs 0 = Some j -> k = j).
Proof. exact script_verdict_left_early. Qed.
(* the two levels agree: on the stream of a script that ran to its end the decision taken from the bytes is the decision of the
   state machine over the per-test exit codes the other C15 theorems speak about (okf: whether an output matches, irrelevant here) *)
From SV Require Import ScriptRefine.
Theorem C15_script_bytes_refine_state_machine : forall okf salt skip exit outs, salt_plain salt -> Forall (payload_salted salt) outs ->
  (N.of_nat (length outs) <= 18446744073709551616)%N ->
  match script_verdict salt skip (N.of_nat (length outs)) exit (ideal salt 0 outs) with
  | VSkip i => exec_script2 skip (map (abs_out okf) outs) None = ExSkipped (N.to_nat i)
  | VOuts o => o = outs /\ exec_script2 skip (map (abs_out okf) outs) None = ExOk (map (abs_out okf) outs)
  | VErr => False
  end.
Proof. exact script_verdict_refines. Qed.
Print Assumptions C15_script_bytes_refine_state_machine.
Example C15_script_bytes_instance :
  let salt := [115%N] in let o (c : Z) := ([111%N; 10%N], c) in
  script_verdict salt 80%Z 3 0%Z (ideal salt 0 [o 0%Z; o 80%Z; o 80%Z]) = VSkip 1
  /\ script_verdict salt 80%Z 3 80%Z (ideal salt 0 [o 0%Z; o 1%Z; o 2%Z]) = VOuts [o 0%Z; o 1%Z; o 2%Z]     (* the last command ended in 80: its divider says so, or not *)
  /\ script_verdict salt 80%Z 3 80%Z (ideal salt 0 [o 0%Z] ++ [111%N]) = VSkip 0
  /\ script_verdict salt 80%Z 3 1%Z (ideal salt 0 [o 0%Z] ++ [111%N]) = VErr.
Proof. cbv zeta. repeat split; vm_compute; reflexivity. Qed.
Print Assumptions C15_script_skip_read_from_dividers.
Print Assumptions C15_script_left_with_skip_code.
Example C15_script_instance :
  let r c := {| status := Code c; out_ok := true |} in
  exec_script2 80%Z [r 0%Z; r 80%Z; r 3%Z; r 0%Z] (Some 2) = ExSkipped 1      (* (exit 80) in the second test case, `exit 3` in the third *)
  /\ exec_script2 80%Z [r 0%Z; r 1%Z; r 3%Z; r 0%Z] (Some 2) = ExFailed 0    (* no skip: the missing dividers are an execution error *)
  /\ exec_script2 80%Z [r 0%Z; r 1%Z; r 3%Z; r 80%Z] (Some 2) = ExFailed 0   (* a skip that was never reached does not count *)
  /\ exec_script2 80%Z [r 0%Z; r 80%Z; {| status := TimedOut; out_ok := true |}; r 0%Z] None = ExSkipped 1   (* a skip, then a timeout: skipped *)
  /\ exec_script2 80%Z [r 0%Z; {| status := Unknown; out_ok := true |}; r 80%Z] None = ExFailed 0.          (* the shell died before the skip *)
Proof. repeat split; vm_compute; reflexivity. Qed.

Theorem C15_default_code : default_skip_document_code = 80%Z /\ tc_empty_get_skip_code = 80%Z.
Proof. split; vm_compute; reflexivity. Qed.

Check C15_skip_all : forall v tcs i,
  Forall (fun o => o = Some RSkipped) (doc_results v tcs (ExSkipped i))
  /\ existsb is_failure (doc_results v tcs (ExSkipped i)) = false.

Example C15_instance :
  let tc k := {| expected := Some 7%Z; t_skip := k; per_timeout := None; empty_ok := true |} in
  let r c := {| status := Code c; out_ok := false |} in
  exec [tc 80%Z; tc 7%Z; tc 80%Z] [r 3%Z; r 7%Z; r 0%Z] [false; false; false] 0 = ExSkipped 1
  /\ doc_results verdict [tc 80%Z; tc 7%Z; tc 80%Z] (ExSkipped 1) = [Some RSkipped; Some RSkipped; Some RSkipped].
Proof. split; vm_compute; reflexivity. Qed.

Print Assumptions C15_skip_detected.
Print Assumptions C15_skip_all.
Print Assumptions C15_only_then.
Print Assumptions C15_skip_has_cause.
Print Assumptions C15_default_code.
Print Assumptions C15_script_skip_detected.
Print Assumptions C15_script_skip_has_cause.
