(* C16 — configuration precedence: command line > test case > document defaults > format. *)
From Coq Require Import List NArith ZArith Bool.
Import ListNotations.
From SV Require Import Config ConfigProofs gen_Consts.
Local Open Scope N_scope.

(* [effective] composes the three application sites as the code does (parse time, test command, executor).
   For every scalar key the value in effect is the one of the highest layer that sets it ... *)
Theorem C16_precedence_scalars :
  forall cli tc doc fmt forced,
    let e := effective cli tc doc fmt forced in
    output_stream e = first_some [output_stream cli; output_stream tc; output_stream doc; output_stream fmt]
    /\ keep_crlf e = first_some [keep_crlf cli; keep_crlf tc; keep_crlf doc; keep_crlf fmt]
    /\ timeout e = first_some [timeout cli; timeout tc; timeout doc; timeout fmt]
    /\ detached e = first_some [detached cli; detached tc; detached doc; detached fmt]
    /\ skip_code e = first_some [skip_code cli; skip_code tc; skip_code doc; skip_code fmt]
    /\ strip_ansi e = first_some [strip_ansi cli; strip_ansi tc; strip_ansi doc; strip_ansi fmt]
    /\ wait e = first_some [wait cli; wait tc; wait doc; wait fmt].
Proof. exact precedence_scalars. Qed.

(* ... and so it is for every individual environment variable (the per-document variables scrut forces win) *)
Theorem C16_precedence_env :
  forall cli tc doc fmt forced k,
    lookup k (environment (effective cli tc doc fmt forced))
    = first_some [lookup k forced; lookup k (environment cli); lookup k (environment tc);
                  lookup k (environment doc); lookup k (environment fmt)].
Proof. exact precedence_env. Qed.

Theorem C16_assoc : forall a b c, cfg_equiv (with_defaults (with_defaults a b) c) (with_defaults a (with_defaults b c)).
Proof. exact assoc. Qed.
Theorem C16_empty_identity : forall a, cfg_equiv (with_defaults a tempty) a /\ cfg_equiv (with_defaults tempty a) a.
Proof. exact empty_identity. Qed.
Theorem C16_doc_assoc : forall a b c, dcfg_equiv (dwith_defaults (dwith_defaults a b) c) (dwith_defaults a (dwith_defaults b c)).
Proof. exact dassoc. Qed.
Theorem C16_doc_empty_identity : forall a, dcfg_equiv (dwith_defaults a dempty) a /\ dcfg_equiv (dwith_defaults dempty a) a.
Proof. exact dempty_identity. Qed.
Theorem C16_lists_accumulate : forall s d,
  d_append (dwith_defaults s d) = d_append d ++ d_append s /\ d_prepend (dwith_defaults s d) = d_prepend s ++ d_prepend d.
Proof. exact lists_accumulate. Qed.

(* format defaults, against the values REGENERATED from /repo on this run (gen_Consts.v) *)
Theorem C16_format_defaults :
  output_stream tc_default_markdown = Some 0 /\ keep_crlf tc_default_markdown = None
  /\ output_stream tc_default_cram = Some 2 /\ keep_crlf tc_default_cram = Some true
  /\ environment tc_default_markdown = [] /\ environment tc_default_cram = []
  /\ timeout tc_default_markdown = None /\ timeout tc_default_cram = None
  /\ detached tc_default_markdown = None /\ detached tc_default_cram = None.
Proof. repeat split; vm_compute; reflexivity. Qed.

(* the oracle evaluated on the implementation's effective configuration is exact *)
Theorem C16_oracle :
  forall cli tc doc fmt forced keys, precedence_b cli tc doc fmt forced keys (effective cli tc doc fmt forced) = true.
Proof. exact precedence_b_holds. Qed.

(* What a test case of a Markdown document finally OBSERVES: the process gets the effective environment, then the script
   sources the shell state the previous test cases left (bash_runner.template), which re-declares every exported variable:
   carried values come last.  A variable no earlier test case exported is observed with its effective value ... *)
Definition observed_env (carried : env) (effective_env : env) : env := effective_env ++ carried.
Theorem C16_env_observed_unless_carried : forall carried e k,
  lookup k carried = None -> lookup k (observed_env carried e) = lookup k e.
Proof. intros carried e k H. unfold observed_env. rewrite ConfigProofs.lookup_app, H. reflexivity. Qed.
(* ... but one that an earlier test case exported with another value shadows the configuration: the listed known finding
   env-shadowed-by-carried-state (test 1 runs with A=1 from the document defaults, test 2 sets A=2 inline and sees 1) *)
Example C16_env_shadowed_by_carried_state_refuted :
  exists carried e k, lookup k (observed_env carried e) <> lookup k e /\ lookup k e <> None.
Proof. exists [(1, 1)], [(1, 2)], 1. split; vm_compute; congruence. Qed.

Check C16_precedence_env :
  forall cli tc doc fmt forced k,
    lookup k (environment (effective cli tc doc fmt forced))
    = first_some [lookup k forced; lookup k (environment cli); lookup k (environment tc);
                  lookup k (environment doc); lookup k (environment fmt)].

Example C16_instance :
  let tc  := mkT None None (Some 5) None None None None [(1, 10)] in
  let doc := mkT (Some 1) None (Some 9) None None None None [(1, 20); (2, 21)] in
  let e := effective tempty tc doc tc_default_markdown [] in
  output_stream e = Some 1 /\ timeout e = Some 5 /\ lookup 1 (environment e) = Some 10 /\ lookup 2 (environment e) = Some 21.
Proof. vm_compute. repeat split. Qed.

Print Assumptions C16_precedence_scalars.
Print Assumptions C16_precedence_env.
Print Assumptions C16_assoc.
Print Assumptions C16_empty_identity.
Print Assumptions C16_doc_assoc.
Print Assumptions C16_doc_empty_identity.
Print Assumptions C16_lists_accumulate.
Print Assumptions C16_format_defaults.
Print Assumptions C16_oracle.
Print Assumptions C16_env_observed_unless_carried.
