(* C17 — configuration survives being written out and read back. *)
From Coq Require Import List NArith Bool.
Import ListNotations.
From SV Require Import Utf8 Escape Yaml YamlProofs.
From SV Require Import YamlFlow Duration DurationProofs OneLiner OneLinerProofs.
From Coq Require Import ZArith.
Local Open Scope N_scope.

(* scrut's own part of the one-line {...} form is the scalar notation of environment values, names and paths.
   A double-quoted scalar reads back as exactly the text it was written from, for every Unicode text ... *)
Theorem C17_quoted_round_trip : forall t, Forall (fun c => c < 1114112) t -> yaml_unquote (yaml_quoted t) = Some t.
Proof. exact unquote_quoted. Qed.

(* ... it contains no raw control character, line break or byte order mark (which YAML would not read verbatim) ... *)
Theorem C17_quoted_clean : forall t, Forall (fun x => needs_u_escape x = false) (yaml_quoted t).
Proof. exact quoted_clean. Qed.

(* ... and a plain-or-quoted scalar (names, paths) reads back likewise *)
Theorem C17_scalar_round_trip : forall t, Forall (fun c => c < 1114112) t -> read_scalar (yaml_scalar t) = Some t.
Proof. exact read_scalar_scalar. Qed.

(* the environment mapping as to_yaml_one_liner writes it -- a flow mapping of name and quoted value, names plain where unambiguous and
   quoted otherwise, values always quoted -- is read back by a reference reader of flow mappings (keys up to `: `,
   double-quoted scalars, `, ` between entries, `}` at the end) as exactly the pairs that were written, in order, for any
   number of variables and any Unicode text in names and values; whatever follows the mapping is left untouched *)
Theorem C17_environment_reads_back : forall env rest, Forall pair_ok env -> read_env (env_text env ++ rest) = Some (env, rest).
Proof. exact read_env_text. Qed.
Example C17_environment_instance :     (* two variables; the second name holds a space, the second value a comma, a brace and a quote *)
  read_env (env_text [([65], [120]); ([98; 32; 99], [44; 32; 125; 34])] ++ [125]) = Some ([([65], [120]); ([98; 32; 99], [44; 32; 125; 34])], [125]).
Proof. vm_compute. reflexivity. Qed.

(* every duration of a configuration (timeout, wait, total_timeout) is written with humantime::format_duration and read with
   humantime::parse_duration: for every Duration there is -- whole seconds below 2^64 and nanoseconds below 10^9 -- the text that is
   written (years of 365.25 days, months of 30.44 days, days, h, m, s, ms, us, ns; zero parts left out; `0s` for nothing) reads
   back as exactly that duration: no part is rounded, merged, lost or overflows on the way *)
Theorem C17_duration_round_trip : forall secs nanos, secs < 18446744073709551616 -> nanos < 1000000000 ->
  parse_duration (format_duration secs nanos) = DOk secs nanos.
Proof. exact duration_round_trip. Qed.
Example C17_duration_instance :     (* 1 day and half a second; 400 days 5 s 6 ms 7 us 8 ns; the largest Duration *)
  format_duration 86400 500000000 = [49;100;97;121;32;53;48;48;109;115]
  /\ parse_duration (format_duration 34560005 6007008) = DOk 34560005 6007008
  /\ parse_duration (format_duration 18446744073709551615 999999999) = DOk 18446744073709551615 999999999
  /\ parse_duration [49;100;97;121] = DOk 86400 0 /\ parse_duration [49;32;48;115] = DOk 10 0 /\ parse_duration [53] = DErr.
Proof. repeat split; vm_compute; reflexivity. Qed.

(* the whole one-line configuration: whatever subset of the eight settings a test case carries -- output stream, the three
   flags, timeout, skip code, wait with or without path, any environment -- the text `{key: value, ...}` that
   to_yaml_one_liner writes is read by the reference reader of that notation as exactly the configuration it was written
   from: every key once, every value unchanged, nothing absent becomes present *)
Theorem C17_one_liner_reads_back : forall c, wf_cfg c -> read_one_liner (one_liner c) = Some c.
Proof. exact one_liner_reads_back. Qed.
(* ... and it stays on the line it is written on (after the language of a code fence): it holds no control character, no line
   break of any kind (LF, CR, NEL, LS, PS) and no byte order mark, whatever the names, values and paths contain *)
Theorem C17_one_liner_inline : forall c, Forall (fun x => needs_u_escape x = false) (one_liner c).
Proof. exact one_liner_inline. Qed.
(* the generators (create, update --convert) put into the block header only what differs from the defaults of the format
   (TestCaseConfig::diff); the parser fills in exactly those defaults again (with_defaults_from): nothing is lost by leaving
   out what equals the default -- for every configuration and every default without environment (the format defaults) *)
Theorem C17_left_out_defaults_come_back : forall c d, y_env d = [] -> ywith_defaults (ydiff c d) d = ywith_defaults c d.
Proof. exact ydiff_restores. Qed.
Example C17_left_out_instance :      (* stdout and skip code 80 equal the default and are left out; the timeout is written *)
  let d := mkY (Some 0) None None None (Some 80%Z) None None [] in
  let c := mkY (Some 0) None (Some (3, 0)) None (Some 80%Z) None None [([65], [49])] in
  ydiff c d = mkY None None (Some (3, 0)) None None None None [([65], [49])]
  /\ gen_config_suffix c d = 32 :: one_liner (mkY None None (Some (3, 0)) None None None None [([65], [49])])
  /\ gen_config_suffix d d = [].
Proof. repeat split; vm_compute; reflexivity. Qed.

(* the premise is needed for TestCaseConfig::diff as it is written: against defaults that carry an environment it drops the
   variables whose values DIFFER from the default and keeps the equal ones (the loop removes a key when the values are not
   equal), so the configured value is lost.  Not reachable from the generators -- they always pass the format defaults,
   which have no environment -- and therefore an observation, not a finding *)
Example C17_left_out_needs_default_without_environment :
  let d := mkY None None None None None None None [([65], [50])] in
  let c := mkY None None None None None None None [([65], [49])] in
  ywith_defaults (ydiff c d) d <> ywith_defaults c d.
Proof. vm_compute. intro H. discriminate H. Qed.

Example C17_one_liner_instance :
  let c := mkY (Some 2) None (Some (86400, 500000000)) (Some false) (Some (-3)%Z) None (Some (5, 0, Some [47; 116; 32; 125])) [([65], [44; 32; 125])] in
  wf_cfg c /\ read_one_liner (one_liner c) = Some c
  /\ one_liner (mkY None (Some true) (Some (1, 5000000)) None None None None []) =
     [123; 107;101;101;112;95;99;114;108;102; 58;32; 116;114;117;101; 44;32; 116;105;109;101;111;117;116; 58;32; 49;115;32;53;109;115; 125].
Proof.
  split; [|split; vm_compute; reflexivity].
  unfold wf_cfg, scalar_ok, pair_ok. cbn. repeat split; try reflexivity; try (intro; discriminate); repeat constructor.
Qed.

Check C17_quoted_round_trip : forall t, Forall (fun c => c < 1114112) t -> yaml_unquote (yaml_quoted t) = Some t.

(* a value with quote, backslash, colon-space, comma, braces, #, DEL, NEL and surrounding spaces *)
Example C17_instance :
  yaml_quoted [32; 34; 92; 58; 32; 44; 123; 125; 35; 127; 133; 233; 32]
  = [34; 32; 92; 34; 92; 92; 58; 32; 44; 123; 125; 35; 92; 117; 48; 48; 55; 102; 92; 117; 48; 48; 56; 53; 233; 32; 34]
  /\ yaml_scalar [47; 116; 109; 112; 47; 119] = [47; 116; 109; 112; 47; 119]
  /\ yaml_scalar [116; 114; 117; 101] = [34; 116; 114; 117; 101; 34]
  /\ yaml_scalar [97; 58; 32; 98] = [34; 97; 58; 32; 98; 34].
Proof. repeat split; vm_compute; reflexivity. Qed.

Print Assumptions C17_quoted_round_trip.
Print Assumptions C17_quoted_clean.
Print Assumptions C17_scalar_round_trip.
Print Assumptions C17_environment_reads_back.
Print Assumptions C17_duration_round_trip.
Print Assumptions C17_one_liner_reads_back.
Print Assumptions C17_one_liner_inline.
Print Assumptions C17_left_out_defaults_come_back.
