(* C17 — configuration survives being written out and read back. *)
From Coq Require Import List NArith Bool.
Import ListNotations.
From SV Require Import Utf8 Escape Yaml YamlProofs.
From SV Require Import YamlFlow.
Local Open Scope N_scope.

(* scrut's own part of the one-line {...} form is the scalar notation of environment values, names and paths.
   A double-quoted scalar reads back as exactly the text it was written from, for every Unicode text ... *)
Theorem C17_quoted_round_trip : forall t, Forall (fun c => c < 1114112) t -> yaml_unquote (yaml_quoted t) = Some t.
Proof. exact unquote_quoted. Qed.

(* ... it contains no raw control character, line break or byte order mark (which YAML would not read verbatim) ... *)
Theorem C17_quoted_clean : forall t, Forall (fun x => needs_u_escape x = false) (yaml_quoted t).
Proof. exact quoted_clean. Qed.

(* ... and a plain-or-quoted scalar (names, paths) reads back likewise *)
Theorem C17_scalar_round_trip : forall t, Forall (fun c => c < 1114112) t -> read_scalar (yaml_scalar t) = Some t.
Proof. exact read_scalar_scalar. Qed.

(* the environment mapping as to_yaml_one_liner writes it -- a flow mapping of name and quoted value, names plain where unambiguous and
   quoted otherwise, values always quoted -- is read back by a reference reader of flow mappings (keys up to `: `,
   double-quoted scalars, `, ` between entries, `}` at the end) as exactly the pairs that were written, in order, for any
   number of variables and any Unicode text in names and values; whatever follows the mapping is left untouched *)
Theorem C17_environment_reads_back : forall env rest, Forall pair_ok env -> read_env (env_text env ++ rest) = Some (env, rest).
Proof. exact read_env_text. Qed.
Example C17_environment_instance :     (* two variables; the second name holds a space, the second value a comma, a brace and a quote *)
  read_env (env_text [([65], [120]); ([98; 32; 99], [44; 32; 125; 34])] ++ [125]) = Some ([([65], [120]); ([98; 32; 99], [44; 32; 125; 34])], [125]).
Proof. vm_compute. reflexivity. Qed.

Check C17_quoted_round_trip : forall t, Forall (fun c => c < 1114112) t -> yaml_unquote (yaml_quoted t) = Some t.

(* a value with quote, backslash, colon-space, comma, braces, #, DEL, NEL and surrounding spaces *)
Example C17_instance :
  yaml_quoted [32; 34; 92; 58; 32; 44; 123; 125; 35; 127; 133; 233; 32]
  = [34; 32; 92; 34; 92; 92; 58; 32; 44; 123; 125; 35; 92; 117; 48; 48; 55; 102; 92; 117; 48; 48; 56; 53; 233; 32; 34]
  /\ yaml_scalar [47; 116; 109; 112; 47; 119] = [47; 116; 109; 112; 47; 119]
  /\ yaml_scalar [116; 114; 117; 101] = [34; 116; 114; 117; 101; 34]
  /\ yaml_scalar [97; 58; 32; 98] = [34; 97; 58; 32; 98; 34].
Proof. repeat split; vm_compute; reflexivity. Qed.

Print Assumptions C17_quoted_round_trip.
Print Assumptions C17_quoted_clean.
Print Assumptions C17_scalar_round_trip.
Print Assumptions C17_environment_reads_back.
