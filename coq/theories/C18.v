(* C18 — per-document work directory, documented environment, complete clean-up. *)
From Coq Require Import List NArith Bool Arith.
Import ListNotations.
From SV Require Import Config gen_Env Render Env EnvProofs.
Local Open Scope N_scope.

(* The directory model follows commands/test.rs per document: TestEnvironment::new (three modes), the optional early
   return when a prepended/appended document cannot be parsed, init_test_file, the executor's .state.X directory, the
   files the tests drop into the work and tmp directories, Drop.  [pristine s]: nothing that looks like a directory of
   scrut's exists beforehand (TempDir picks unused names).  Whatever the documents do and however each one ends
   (success, validation failure, skip, timeout = DRun; unparsable include; executor error), without options the file
   system afterwards is exactly the one before. *)
Theorem C18_cleanup : forall ds i s, pristine s = true -> dir_run_docs FDefault i ds s = s.
Proof. exact cleanup_default. Qed.

(* --work-directory: everything that was there stays (the given directory, its content, what the tests put into it) and
   no temp.X of scrut's is left inside it *)
Theorem C18_work_directory_kept : forall ds i s, pristine s = true ->
  pristine (dir_run_docs FWork i ds s) = true /\ incl s (dir_run_docs FWork i ds s).
Proof. exact cleanup_work. Qed.

(* --keep-temporary-directories: nothing is removed except the executor's state directory, and every document whose
   environment was set up leaves execution.X and temp.X *)
Theorem C18_keep : forall ds i s,
  (forall q, In q s -> is_state q = false -> In q (dir_run_docs FKeep i ds s))
  /\ forall j, (j < dir_processed ds)%nat -> In [SExec (i + j)] (dir_run_docs FKeep i ds s) /\ In [STemp (i + j)] (dir_run_docs FKeep i ds s).
Proof. exact keep_keeps. Qed.

(* no two documents of a run share a work directory, even with identical file names *)
Theorem C18_work_dirs_distinct : forall f i j n m, f <> FWork -> i <> j -> work_dir f i n <> work_dir f j m.
Proof. exact work_dirs_distinct. Qed.

(* UniqueNamer: the loop ends, and the names it hands out are pairwise different and did not exist, whatever is asked
   for (the same name repeatedly, names that look like earlier answers, names already on disk) *)
Theorem C18_namer_total : forall reqs names ex, exists out, next_names names ex reqs = Some out /\ length out = length reqs.
Proof. exact namer_total. Qed.
Theorem C18_namer_distinct : forall reqs names ex out, next_names names ex reqs = Some out ->
  NoDup out /\ forall c, In c out -> ~ In c names /\ ~ In c ex.
Proof. exact namer_distinct. Qed.
Example C18_namer_instance :   (* "a", "a-1", "a" again with "a-2" on disk *)
  next_names [] [[97; 45; 50]] [[97]; [97; 45; 49]; [97]; [97]] = Some [[97]; [97; 45; 49]; [97; 45; 51]; [97; 45; 52]].
Proof. vm_compute. reflexivity. Qed.

(* the documented variables are all among those build_env_vars sets (list regenerated from the source on every run) *)
Theorem C18_documented_variables_set : all_documented_set = true.
Proof. vm_compute. reflexivity. Qed.

(* they reach every test case whatever the configuration layers contain, and SCRUT_TEST is set on top for each *)
Theorem C18_env_reaches_every_test : forall cli tc doc fmt forced k v,
  lookup k forced = Some v -> lookup k (environment (effective cli tc doc fmt forced)) = Some v.
Proof. exact forced_env_reaches_test. Qed.
Theorem C18_scrut_test_afresh : forall c k v, lookup k (environment (with_environment c [(k, v)])) = Some v.
Proof. exact scrut_test_set_afresh. Qed.

Check C18_cleanup : forall ds i s, pristine s = true -> dir_run_docs FDefault i ds s = s.

(* non-vacuity: a run of three documents with the same name -- one passes, one has an unparsable include -- over a
   file system that holds the user's own files *)
Example C18_instance :
  let s := [[SGiven]; [SGiven; SFile 7]; [SDoc [120]]] in
  let ds := [mkDoc [100] DRun [1; 2]%nat [3]%nat; mkDoc [100] DBadInclude [] []; mkDoc [100] DRun [4]%nat []] in
  pristine s = true
  /\ dir_run_docs FDefault 0 ds s = s
  /\ dir_run_docs FWork 0 ds s = [[SGiven; SFile 1]; [SGiven; SFile 2]; [SGiven]; [SGiven; SFile 7]; [SDoc [120]]]
  /\ length (dir_run_docs FKeep 0 ds s) = 11%nat.
Proof. cbv zeta. repeat split; vm_compute; reflexivity. Qed.

Print Assumptions C18_cleanup.
Print Assumptions C18_work_directory_kept.
Print Assumptions C18_keep.
Print Assumptions C18_work_dirs_distinct.
Print Assumptions C18_namer_total.
Print Assumptions C18_namer_distinct.
Print Assumptions C18_documented_variables_set.
Print Assumptions C18_env_reaches_every_test.
Print Assumptions C18_scrut_test_afresh.
