(* C19 — every renderer handles every outcome and shows every difference. *)
From Coq Require Import List NArith ZArith Bool Arith.
Import ListNotations.
From SV Require Import Utf8 Escape ExpGrammar Lines Generate Diff Render RenderProofs.
Local Open Scope N_scope.

(* The pretty renderer (PrettyColorRenderer::render) with its padding arithmetic, its lines[0] access and its byte-offset
   slicing modelled as explicit panics: for all outcomes whose diffs are well indexed -- expectation indices below the
   number of expectations, line indices below the number of output lines, matched entries of single-line expectations
   not empty -- it returns a rendering.  Any text, any width, any line base, any number of surrounding lines. *)
Theorem C19_pretty_total : forall pp os, forallb result_ok os = true -> exists t, render_pretty pp os = RendOk t.
Proof. exact render_pretty_total. Qed.

(* ... and every diff the matcher (the model of DiffTool::diff proved in C01-C03) can return is well indexed: C02. *)
Theorem C19_matcher_diffs_are_renderable : forall info es ls d, diff (list N) es ls = Some d ->
  forallb (dline_ok (N.of_nat (length es)) (N.of_nat (length ls))) (map (to_dline info es) d) = true.
Proof. exact matcher_diffs_well_indexed. Qed.

(* the premise is needed: an expectation index that is out of range underflows the padding *)
Example C19_premise_needed :
  render_pretty (mkPP 0 false true)
    [mkOutcome None [] [120] 1 1 None false Ascii [] [] (OMalformed 1 [DUnmatched 9 false [120] [120]])] = RendPanic.
Proof. vm_compute. reflexivity. Qed.

(* trailing whitespace is highlighted by slicing the text at a byte offset: always a character boundary *)
Theorem C19_highlight_total : forall t, exists c, highlight t = Some c.
Proof. exact highlight_total. Qed.
Example C19_highlight_ideographic_space :
  highlight [102; 111; 111; 12288; 32] = Some [102; 111; 111; 9072; 9141].
Proof. vm_compute. reflexivity. Qed.

(* the diff renderer never crashes and gives up only on a mix of outcomes with and without location *)
Theorem C19_diff_total : forall os,
  render_diff os <> RendPanic
  /\ (render_diff os = RendErr <-> (0 < length (locations os) /\ length (locations os) <> length os)%nat).
Proof. intros os. split; [apply render_diff_total|apply render_diff_err_iff]. Qed.

(* every unmatched expectation of every failed test is in the pretty rendering: a row with its number, the sign `-`
   and its text (trailing blanks made visible) ... *)
Theorem C19_pretty_shows_unmatched : forall pp os t o n d idx mul expr orig,
  render_pretty pp os = RendOk t -> In o os -> o_res o = OMalformed n d -> In (DUnmatched idx mul expr orig) d ->
  exists c rw, highlight expr = Some c
            /\ row (width pp o n) None (Some (line_base pp o + idx + 1)) mul 45 c = Some rw /\ infix rw t.
Proof. exact pretty_shows_unmatched. Qed.

(* ... and every unexpected output line: a row with its number, the sign `+` and the line as `scrut create` would write it *)
Theorem C19_pretty_shows_unexpected : forall pp os t o n d ls li bytes,
  render_pretty pp os = RendOk t -> In o os -> o_res o = OMalformed n d -> In (DUnexpected ls) d -> In (li, bytes) ls ->
  exists c rw, highlight (written_text (escaped_expectation (o_esc o) (if ends_with_lf bytes then bytes else bytes ++ NOEOL_B))) = Some c
            /\ row (width pp o n) (Some (line_base pp o + li + 1)) None false 43 c = Some rw /\ infix rw t.
Proof. exact pretty_shows_unexpected. Qed.

(* the unified diff: the hunks hold all unmatched expectations (as `-` lines, original text) and all unexpected lines
   (as `+` lines), each exactly once and in order; and each such line is part of the rendering *)
Theorem C19_diff_hunks_conserve : forall ds,
  flat_map um_lines (hunks_of 0 hunk_empty ds) = all_unmatched ds
  /\ flat_map ux_lines (hunks_of 0 hunk_empty ds) = all_unexpected ds.
Proof. intros ds. exact (hunks_conserve ds 0 hunk_empty). Qed.

Theorem C19_diff_shows_everything : forall os t o n d,
  render_diff os = RendOk t -> In o os -> o_res o = OMalformed n d ->
  (forall l, In l (all_unmatched d) -> infix ([45] ++ line_prefix o ++ l ++ [10]) t)
  /\ (forall l, In l (all_unexpected d) -> infix ([43] ++ line_prefix o ++ l ++ [10]) t).
Proof. exact diff_shows_everything. Qed.

(* no failure section for a test that passed: passed outcomes contribute nothing to either rendering *)
Theorem C19_no_section_for_pass : forall pp os,
  pretty_sections pp os = pretty_sections pp (filter (fun o => res_failure (o_res o)) os)
  /\ (forall last, diff_body last os = diff_body last (filter (fun o => negb (res_success (o_res o))) os))
  /\ (Forall (fun o => o_res o = OSuccess) os -> pretty_sections pp os = Some [] /\ forall last, diff_body last os = []).
Proof.
  intros pp os. split; [apply pretty_sections_only_failures|]. split; [intros; apply diff_body_skips_passed|apply all_passed_nothing].
Qed.

(* json / yaml (serde data model): one entry per outcome, in order, with its location and its result kind;
   the six kinds are pairwise different *)
Theorem C19_structured_one_entry_per_outcome : forall os,
  length (structured os) = length os
  /\ map se_kind (structured os) = map (fun o => kind_of (o_res o)) os
  /\ map se_location (structured os) = map o_location os.
Proof. exact structured_entries. Qed.

Check C19_pretty_total : forall pp os, forallb result_ok os = true -> exists t, render_pretty pp os = RendOk t.
Check C19_diff_shows_everything : forall os t o n d,
  render_diff os = RendOk t -> In o os -> o_res o = OMalformed n d ->
  (forall l, In l (all_unmatched d) -> infix ([45] ++ line_prefix o ++ l ++ [10]) t)
  /\ (forall l, In l (all_unexpected d) -> infix ([43] ++ line_prefix o ++ l ++ [10]) t).

(* a non-trivial instance: two expectations, the first unmatched, an unexpected line with a trailing ideographic space,
   absolute line numbers that cross from 9 to 10 *)
Example C19_instance :
  let o := mkOutcome (Some [97]) [84] [101; 10; 102] 8 2 None false Unicode [120; 12288; 10; 121; 10] []
             (OMalformed 2 [DUnmatched 0 false [97; 32] [97; 32]; DUnexpected [(0, [120; 227; 128; 128; 10])];
                            DMatched 1 false [121] (Some 1)]) in
  result_ok o = true
  /\ (exists t, render_pretty (mkPP 5 true true) [o] = RendOk t)
  /\ exists t, render_diff [o] = RendOk t.
Proof. cbv zeta. split; [vm_compute; reflexivity|]. split; eexists; vm_compute; reflexivity. Qed.

Print Assumptions C19_pretty_total.
Print Assumptions C19_matcher_diffs_are_renderable.
Print Assumptions C19_highlight_total.
Print Assumptions C19_diff_total.
Print Assumptions C19_pretty_shows_unmatched.
Print Assumptions C19_pretty_shows_unexpected.
Print Assumptions C19_diff_hunks_conserve.
Print Assumptions C19_diff_shows_everything.
Print Assumptions C19_no_section_for_pass.
Print Assumptions C19_structured_one_entry_per_outcome.
