(* C20 — every test once, in order; exit status 0 / 50 / 1. *)
From Coq Require Import List ZArith NArith Bool Arith.
Import ListNotations.
From SV Require Import Exec ExecProofs.

(* one result slot per test case of the document (prepended ++ own ++ appended, as handed to the executor) *)
Theorem C20_one_slot_per_test : forall v tcs rs gs, length rs = length tcs -> length gs = length tcs ->
  (forall i, exec tcs rs gs 0 <> ExFailed i) ->
  length (doc_results v tcs (exec tcs rs gs 0)) = length tcs.
Proof. exact doc_results_len. Qed.

(* a slot is empty (no result reported) only for a test case that ran detached *)
Theorem C20_no_result_only_detached : forall v tcs e m,
  nth_error (doc_results v tcs e) m = Some None ->
  exists outs r, e = ExOk outs /\ nth_error outs m = Some r /\ status r = EDetached.
Proof. exact results_none_only_detached. Qed.

Theorem C20_counts_add_up : forall docs,
  count is_success docs + count is_failure docs + count is_skipped docs = count is_reported docs.
Proof. exact counts_add_up. Qed.

(* 1 if a document could not be executed, otherwise 50 if some test failed validation or timed out, otherwise 0 *)
Theorem C20_exit_status : forall docs,
  run_exit docs = if existsb is_exfailed (map snd docs) then 1%Z
                  else if existsb (existsb is_failure) (fst (run_docs docs)) then 50%Z else 0%Z.
Proof. exact run_exit_spec. Qed.

(* when nothing errored every document's results are rendered, in order *)
Theorem C20_all_documents_reported : forall docs, existsb is_exfailed (map snd docs) = false ->
  run_outcomes docs = map (fun d => doc_results verdict (fst d) (snd d)) docs.
Proof. exact run_outcomes_all. Qed.

Check C20_exit_status : forall docs,
  run_exit docs = if existsb is_exfailed (map snd docs) then 1%Z
                  else if existsb (existsb is_failure) (fst (run_docs docs)) then 50%Z else 0%Z.

Example C20_instance :
  let tc := {| expected := None; t_skip := 80; per_timeout := None; empty_ok := true |} in
  let ok := {| status := Code 0; out_ok := true |} in
  let bad := {| status := Code 0; out_ok := false |} in
  run_exit [([tc; tc], exec [tc; tc] [ok; ok] [false; false] 0)] = 0%Z
  /\ run_exit [([tc; tc], exec [tc; tc] [ok; bad] [false; false] 0)] = 50%Z
  /\ run_exit [([tc], exec [tc] [ok] [false] 0); ([tc], ExFailed 0)] = 1%Z.
Proof. repeat split; vm_compute; reflexivity. Qed.

Print Assumptions C20_one_slot_per_test.
Print Assumptions C20_no_result_only_detached.
Print Assumptions C20_counts_add_up.
Print Assumptions C20_exit_status.
Print Assumptions C20_all_documents_reported.
