(* C13(d): what must be recorded for a test case whose command performs a sequence of writes to stdout (fd 1) and
   stderr (fd 2): the bytes themselves, merged in write order when `combined`, with only the documented
   transformations of TestCase::render_output applied.  This is the specification the real executors are run against. *)
From Coq Require Import List NArith Bool.
Import ListNotations.
From SV Require Import Crlf.
Local Open Scope N_scope.

Definition wr := (bool * list N)%type.      (* (is_stderr, bytes) *)
Definition captured (combined : bool) (ws : list wr) : list N * list N :=
  if combined then (concat (map snd ws), [])
  else (concat (map snd (filter (fun w => negb (fst w)) ws)), concat (map snd (filter (fun w => fst w) ws))).

Section Rec.
Variable strip_ansi : list N -> list N.
Definition recorded (combined : bool) (keep strip : option bool) (ws : list wr) : list N * list N :=
  let '(o, e) := captured combined ws in
  (render_output strip_ansi keep strip o, render_output strip_ansi keep strip e).
End Rec.
