(* Model of src/config.rs: TestCaseConfig / DocumentConfig layering (definitions only). *)
From Coq Require Import List NArith ZArith Bool.
Import ListNotations.
Local Open Scope N_scope.

Definition orelse {A} (a b : option A) : option A := match a with Some _ => a | None => b end.
Definition first_some {A} (l : list (option A)) : option A := fold_right orelse None l.

(* BTreeMap<String,String> as the sequence of inserts that [collect]/[insert] perform: a later insert
   overwrites; names and values are abstract identifiers (N) *)
Definition env := list (N * N).
Fixpoint lookup (k : N) (m : env) : option N :=
  match m with
  | [] => None
  | (k', v) :: r => match lookup k r with Some v' => Some v' | None => if k =? k' then Some v else None end
  end.

Record tcfg := mkT {
  output_stream : option N;   (* 0 stdout, 1 stderr, 2 combined *)
  keep_crlf : option bool;
  timeout : option N;         (* milliseconds *)
  detached : option bool;
  skip_code : option Z;
  strip_ansi : option bool;
  wait : option N;            (* an opaque identifier of a wait setting *)
  environment : env }.

(* TestCaseConfig::with_defaults_from (self = s, defaults = d) *)
Definition with_defaults (s d : tcfg) : tcfg :=
  {| output_stream := orelse (output_stream s) (output_stream d);
     keep_crlf := orelse (keep_crlf s) (keep_crlf d);
     timeout := orelse (timeout s) (timeout d);
     detached := orelse (detached s) (detached d);
     skip_code := orelse (skip_code s) (skip_code d);
     strip_ansi := orelse (strip_ansi s) (strip_ansi d);
     wait := orelse (wait s) (wait d);
     environment := environment d ++ environment s |}.
Definition with_overrides (s o : tcfg) : tcfg := with_defaults o s.
(* TestCaseConfig::with_environment: forced variables *)
Definition with_environment (s : tcfg) (e : env) : tcfg :=
  {| output_stream := output_stream s; keep_crlf := keep_crlf s; timeout := timeout s; detached := detached s;
     skip_code := skip_code s; strip_ansi := strip_ansi s; wait := wait s; environment := environment s ++ e |}.

Definition tempty : tcfg :=
  {| output_stream := None; keep_crlf := None; timeout := None; detached := None; skip_code := None;
     strip_ansi := None; wait := None; environment := [] |}.

Record dcfg := mkD {
  d_append : list N; d_defaults : tcfg; d_prepend : list N; d_shell : option N; d_total_timeout : option N }.
Definition dwith_defaults (s d : dcfg) : dcfg :=
  {| d_append := d_append d ++ d_append s;
     d_defaults := with_defaults (d_defaults s) (d_defaults d);
     d_prepend := d_prepend s ++ d_prepend d;
     d_shell := orelse (d_shell s) (d_shell d);
     d_total_timeout := orelse (d_total_timeout s) (d_total_timeout d) |}.
Definition dwith_overrides (s o : dcfg) : dcfg := dwith_defaults o s.
Definition dempty : dcfg := {| d_append := []; d_defaults := tempty; d_prepend := []; d_shell := None; d_total_timeout := None |}.

(* The three application sites, composed as the code composes them for a Markdown test case:
   parse time   (parsers/markdown.rs):  inline ▷ document defaults ▷ format default
   test command (bin/commands/test.rs): command line ▷ that, then the forced per-document variables
   executor     (stateful_executor.rs): that ▷ document defaults (again) *)
Definition effective (cli tc doc fmt : tcfg) (forced : env) : tcfg :=
  with_defaults
    (with_environment (with_overrides (with_defaults (with_defaults tc doc) fmt) cli) forced)
    doc.

(* observation: a configuration up to the meaning of its environment *)
Definition cfg_equiv (a b : tcfg) : Prop :=
  output_stream a = output_stream b /\ keep_crlf a = keep_crlf b /\ timeout a = timeout b /\ detached a = detached b
  /\ skip_code a = skip_code b /\ strip_ansi a = strip_ansi b /\ wait a = wait b
  /\ forall k, lookup k (environment a) = lookup k (environment b).
Definition dcfg_equiv (a b : dcfg) : Prop :=
  d_append a = d_append b /\ d_prepend a = d_prepend b /\ d_shell a = d_shell b
  /\ d_total_timeout a = d_total_timeout b /\ cfg_equiv (d_defaults a) (d_defaults b).

(* ---------- executable statement of the precedence rule, evaluated on the implementation's result ---------- *)
Definition opt_eqb {A} (eqb : A -> A -> bool) (a b : option A) : bool :=
  match a, b with Some x, Some y => eqb x y | None, None => true | _, _ => false end.

Definition precedence_b (cli tc doc fmt : tcfg) (forced : env) (keys : list N) (r : tcfg) : bool :=
  opt_eqb N.eqb (output_stream r) (first_some [output_stream cli; output_stream tc; output_stream doc; output_stream fmt])
  && opt_eqb Bool.eqb (keep_crlf r) (first_some [keep_crlf cli; keep_crlf tc; keep_crlf doc; keep_crlf fmt])
  && opt_eqb N.eqb (timeout r) (first_some [timeout cli; timeout tc; timeout doc; timeout fmt])
  && opt_eqb Bool.eqb (detached r) (first_some [detached cli; detached tc; detached doc; detached fmt])
  && opt_eqb Z.eqb (skip_code r) (first_some [skip_code cli; skip_code tc; skip_code doc; skip_code fmt])
  && opt_eqb Bool.eqb (strip_ansi r) (first_some [strip_ansi cli; strip_ansi tc; strip_ansi doc; strip_ansi fmt])
  && opt_eqb N.eqb (wait r) (first_some [wait cli; wait tc; wait doc; wait fmt])
  && forallb (fun k => opt_eqb N.eqb (lookup k (environment r))
                        (first_some [lookup k forced; lookup k (environment cli); lookup k (environment tc);
                                     lookup k (environment doc); lookup k (environment fmt)])) keys.
