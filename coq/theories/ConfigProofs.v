From Coq Require Import List NArith ZArith Bool.
Import ListNotations.
From SV Require Import Config.
Local Open Scope N_scope.

Lemma lookup_app : forall k a b, lookup k (a ++ b) = orelse (lookup k b) (lookup k a).
Proof.
  induction a as [|[k' v] a IH]; intros b; cbn [app lookup].
  - destruct (lookup k b); reflexivity.
  - rewrite IH. destruct (lookup k b); reflexivity.
Qed.

Lemma orelse_assoc : forall A (a b c : option A), orelse (orelse a b) c = orelse a (orelse b c).
Proof. destruct a; reflexivity. Qed.
Lemma orelse_none_r : forall A (a : option A), orelse a None = a.
Proof. destruct a; reflexivity. Qed.
Lemma orelse_idem_tail : forall A (a b c : option A), orelse (orelse a (orelse b c)) b = orelse a (orelse b c).
Proof. destruct a, b, c; reflexivity. Qed.

Lemma env_precedence : forall s d k,
  lookup k (environment (with_defaults s d)) = orelse (lookup k (environment s)) (lookup k (environment d)).
Proof. intros. cbn. apply lookup_app. Qed.

Lemma assoc : forall a b c, cfg_equiv (with_defaults (with_defaults a b) c) (with_defaults a (with_defaults b c)).
Proof.
  intros. unfold cfg_equiv. cbn. repeat split; try apply orelse_assoc.
  intros k. rewrite !lookup_app. rewrite orelse_assoc. reflexivity.
Qed.

Lemma empty_identity : forall a, cfg_equiv (with_defaults a tempty) a /\ cfg_equiv (with_defaults tempty a) a.
Proof.
  intros a. unfold cfg_equiv. cbn. rewrite !orelse_none_r, app_nil_r. repeat split.
Qed.

Lemma cfg_equiv_refl : forall a, cfg_equiv a a.
Proof. intros a. unfold cfg_equiv. repeat split. Qed.

Lemma dassoc : forall a b c, dcfg_equiv (dwith_defaults (dwith_defaults a b) c) (dwith_defaults a (dwith_defaults b c)).
Proof.
  intros. unfold dcfg_equiv. cbn [dwith_defaults d_append d_prepend d_shell d_total_timeout d_defaults].
  split; [rewrite app_assoc; reflexivity|]. split; [rewrite app_assoc; reflexivity|].
  split; [apply orelse_assoc|]. split; [apply orelse_assoc|]. apply assoc.
Qed.

Lemma dempty_identity : forall a, dcfg_equiv (dwith_defaults a dempty) a /\ dcfg_equiv (dwith_defaults dempty a) a.
Proof.
  intros a. unfold dcfg_equiv. cbn [dwith_defaults dempty d_append d_prepend d_shell d_total_timeout d_defaults].
  rewrite !orelse_none_r, !app_nil_r. cbn [app]. repeat split; try reflexivity; apply empty_identity.
Qed.

(* the value in effect for every scalar key, and for every variable name *)
Definition scalar_precedence (cli tc doc fmt : tcfg) (forced : env) : Prop :=
  let e := effective cli tc doc fmt forced in
  output_stream e = first_some [output_stream cli; output_stream tc; output_stream doc; output_stream fmt]
  /\ keep_crlf e = first_some [keep_crlf cli; keep_crlf tc; keep_crlf doc; keep_crlf fmt]
  /\ timeout e = first_some [timeout cli; timeout tc; timeout doc; timeout fmt]
  /\ detached e = first_some [detached cli; detached tc; detached doc; detached fmt]
  /\ skip_code e = first_some [skip_code cli; skip_code tc; skip_code doc; skip_code fmt]
  /\ strip_ansi e = first_some [strip_ansi cli; strip_ansi tc; strip_ansi doc; strip_ansi fmt]
  /\ wait e = first_some [wait cli; wait tc; wait doc; wait fmt].

Lemma precedence_scalars : forall cli tc doc fmt forced, scalar_precedence cli tc doc fmt forced.
Proof.
  intros. unfold scalar_precedence, effective, with_overrides, with_environment, with_defaults, first_some.
  cbn [output_stream keep_crlf timeout detached skip_code strip_ansi wait fold_right].
  rewrite !orelse_none_r.
  repeat split;
    match goal with |- orelse (orelse ?a (orelse (orelse ?b ?c) ?d)) ?c = _ => destruct a, b, c, d; reflexivity end.
Qed.

Lemma precedence_env : forall cli tc doc fmt forced k,
  lookup k (environment (effective cli tc doc fmt forced))
  = first_some [lookup k forced; lookup k (environment cli); lookup k (environment tc);
                lookup k (environment doc); lookup k (environment fmt)].
Proof.
  intros. unfold effective, with_overrides, with_environment, with_defaults, first_some.
  cbn [environment fold_right]. rewrite !lookup_app, orelse_none_r.
  destruct (lookup k forced), (lookup k (environment cli)), (lookup k (environment tc)),
           (lookup k (environment doc)), (lookup k (environment fmt)); reflexivity.
Qed.

Lemma lists_accumulate : forall s d,
  d_append (dwith_defaults s d) = d_append d ++ d_append s /\ d_prepend (dwith_defaults s d) = d_prepend s ++ d_prepend d.
Proof. intros. split; reflexivity. Qed.

Lemma opt_eqb_refl : forall A (eqb : A -> A -> bool), (forall x, eqb x x = true) -> forall a, opt_eqb eqb a a = true.
Proof. intros A eqb H [x|]; cbn; auto. Qed.

Lemma opt_eqb_eq : forall A (eqb : A -> A -> bool), (forall x y, eqb x y = true -> x = y) ->
  forall a b, opt_eqb eqb a b = true -> a = b.
Proof. intros A eqb H [x|] [y|]; cbn; intros E; try discriminate; try reflexivity. f_equal. auto. Qed.

Lemma precedence_b_holds : forall cli tc doc fmt forced keys,
  precedence_b cli tc doc fmt forced keys (effective cli tc doc fmt forced) = true.
Proof.
  intros. unfold precedence_b.
  destruct (precedence_scalars cli tc doc fmt forced) as (A & B & C & D & E & F & G).
  rewrite A, B, C, D, E, F, G.
  rewrite !(opt_eqb_refl _ N.eqb N.eqb_refl), !(opt_eqb_refl _ Bool.eqb Bool.eqb_reflx), !(opt_eqb_refl _ Z.eqb Z.eqb_refl).
  cbn [andb]. apply forallb_forall. intros k _. rewrite precedence_env. apply opt_eqb_refl. apply N.eqb_refl.
Qed.

(* and the boolean is exact: it accepts precisely the results that obey the rule on the given names *)
Lemma precedence_b_sound : forall cli tc doc fmt forced keys r,
  precedence_b cli tc doc fmt forced keys r = true ->
  output_stream r = first_some [output_stream cli; output_stream tc; output_stream doc; output_stream fmt]
  /\ keep_crlf r = first_some [keep_crlf cli; keep_crlf tc; keep_crlf doc; keep_crlf fmt]
  /\ timeout r = first_some [timeout cli; timeout tc; timeout doc; timeout fmt]
  /\ detached r = first_some [detached cli; detached tc; detached doc; detached fmt]
  /\ skip_code r = first_some [skip_code cli; skip_code tc; skip_code doc; skip_code fmt]
  /\ strip_ansi r = first_some [strip_ansi cli; strip_ansi tc; strip_ansi doc; strip_ansi fmt]
  /\ wait r = first_some [wait cli; wait tc; wait doc; wait fmt]
  /\ forall k, In k keys -> lookup k (environment r)
        = first_some [lookup k forced; lookup k (environment cli); lookup k (environment tc);
                      lookup k (environment doc); lookup k (environment fmt)].
Proof.
  intros cli tc doc fmt forced keys r H. unfold precedence_b in H.
  repeat (apply andb_true_iff in H; destruct H as [H ?]).
  assert (EN : forall x y, N.eqb x y = true -> x = y) by (intros x y; apply N.eqb_eq).
  assert (EB : forall x y, Bool.eqb x y = true -> x = y) by (intros x y; apply Bool.eqb_prop).
  assert (EZ : forall x y, Z.eqb x y = true -> x = y) by (intros x y; apply Z.eqb_eq).
  repeat split; try (eapply opt_eqb_eq; eauto; fail).
  intros k Hk. match goal with F : forallb _ keys = true |- _ => rewrite forallb_forall in F; specialize (F k Hk) end.
  eapply opt_eqb_eq; eauto.
Qed.
