From Coq Require Import List Arith Bool Lia Sorted.
Import ListNotations.
From SV Require Import Diff DetProofs.

Section P.
Variable line : Type.
Notation exp := (exp line).
Notation entry := (entry line).
Notation mtl := (mt line).
Notation optl := (opt line).
Notation mull := (mul line).

Definition e_lines (en : entry) : list (nat * line) :=
  match en with EMatched _ _ b => b | EUnexpected _ b => b | EUnmatched _ _ => [] end.
Definition e_exps (en : entry) : list nat :=
  match en with EMatched _ i _ => [i] | EUnmatched _ i => [i] | EUnexpected _ _ => [] end.
Definition lines_of (d : list entry) := flat_map e_lines d.
Definition exps_of (d : list entry) := flat_map e_exps d.

Definition sorted_in (lo hi : nat) (l : list nat) : Prop :=
  StronglySorted lt l /\ Forall (fun x => lo <= x < hi) l.

Definition entry_ok (ei : nat) (es : list exp) (en : entry) : Prop :=
  match en with
  | EMatched _ i b =>
      b <> [] /\ exists e, nth_error es (i - ei) = Some e /\ ei <= i
                          /\ Forall (fun p => mtl e (snd p) = true) b
                          /\ (mull e = false -> length b = 1)
  | EUnmatched _ i => exists e, nth_error es (i - ei) = Some e /\ ei <= i /\ optl e = false
  | EUnexpected _ b => b <> []
  end.

Lemma sorted_in_nil : forall lo hi, sorted_in lo hi [].
Proof. split; constructor. Qed.

Lemma sorted_in_app : forall l1 l2 lo mid hi,
  sorted_in lo mid l1 -> sorted_in mid hi l2 -> lo <= mid -> mid <= hi -> sorted_in lo hi (l1 ++ l2).
Proof.
  intros l1 l2 lo mid hi [S1 B1] [S2 B2] H1 H2. split.
  - induction l1 as [|x l1 IH]; cbn; auto.
    inversion S1; subst. inversion B1; subst. cbn beta in *. constructor; auto.
    apply Forall_app. split; auto.
    eapply Forall_impl; [|exact B2]. cbn beta. intros; lia.
  - apply Forall_app. split; (eapply Forall_impl; [|eassumption]); cbn; intros; lia.
Qed.

Lemma sorted_in_single : forall lo hi x, lo <= x < hi -> sorted_in lo hi [x].
Proof. intros. split; repeat constructor; lia. Qed.

Lemma sorted_in_weaken : forall l lo lo' hi hi', sorted_in lo hi l -> lo' <= lo -> hi <= hi' -> sorted_in lo' hi' l.
Proof. intros l lo lo' hi hi' [HS B] H1 H2. split; auto. eapply Forall_impl; [|exact B]. cbn; intros; lia. Qed.

Ltac split4 := split; [|split; [|split]]; auto.

Lemma lines_of_app : forall d1 d2, lines_of (d1 ++ d2) = lines_of d1 ++ lines_of d2.
Proof. intros. apply flat_map_app. Qed.
Lemma exps_of_app : forall d1 d2, exps_of (d1 ++ d2) = exps_of d1 ++ exps_of d2.
Proof. intros. apply flat_map_app. Qed.

Lemma number_app : forall l1 l2 li, number line li (l1 ++ l2) = number line li l1 ++ number line (li + length l1) l2.
Proof.
  induction l1 as [|x l1 IH]; intros l2 li; cbn.
  - rewrite Nat.add_0_r. reflexivity.
  - rewrite IH. f_equal. f_equal. f_equal. cbn. lia.
Qed.

Lemma number_split : forall j ls li, j <= length ls ->
  number line li (firstn j ls) ++ number line (li + j) (skipn j ls) = number line li ls.
Proof.
  intros j ls li H. rewrite <- (firstn_skipn j ls) at 3. rewrite number_app.
  rewrite firstn_length_le; auto.
Qed.

Lemma number_nonnil : forall ls li, ls <> [] -> number line li ls <> [].
Proof. destruct ls; cbn; congruence. Qed.

(* re-basing entry_ok *)
Lemma entry_ok_rebase : forall j ei (es1 es2 : list exp) en,
  (forall m x, nth_error es2 m = Some x -> nth_error es1 (j + m) = Some x) ->
  entry_ok (ei + j) es2 en -> entry_ok ei es1 en.
Proof.
  intros j ei es1 es2 en H Hen. destruct en as [i b|i|b]; cbn in *; auto.
  - destruct Hen as [Hb (e & Hn & Hle & Hf & Hs)]. split; auto. exists e.
    apply H in Hn. replace (i - ei) with (j + (i - (ei + j))) by lia. repeat split; auto. lia.
  - destruct Hen as (e & Hn & Hle & Ho). exists e. apply H in Hn.
    replace (i - ei) with (j + (i - (ei + j))) by lia. repeat split; auto. lia.
Qed.

Lemma entry_ok_cons : forall ei (e : exp) es en, entry_ok (S ei) es en -> entry_ok ei (e :: es) en.
Proof.
  intros. apply (entry_ok_rebase 1 ei (e :: es) es); [intros; exact H0|].
  replace (ei + 1) with (S ei) by lia. exact H.
Qed.

Lemma nth_error_skipn' : forall A j (l : list A) m, nth_error (skipn j l) m = nth_error l (j + m).
Proof.
  induction j as [|j IH]; intros l m; [reflexivity|]. destruct l; cbn; [destruct m; reflexivity|]. apply IH.
Qed.

Lemma entry_ok_skipn : forall j ei (es : list exp) en, entry_ok (ei + j) (skipn j es) en -> entry_ok ei es en.
Proof.
  intros. apply (entry_ok_rebase j ei es (skipn j es)); auto.
  intros m x Hm. rewrite nth_error_skipn' in Hm. exact Hm.
Qed.

Lemma entry_ok_firstn : forall j ei (es : list exp) en, entry_ok ei (firstn j es) en -> entry_ok ei es en.
Proof.
  intros j ei es en H.
  assert (F : forall m x, nth_error (firstn j es) m = Some x -> nth_error es m = Some x).
  { clear. revert es. induction j as [|j IH]; intros es m x Hm; [destruct m; discriminate|].
    destruct es; [destruct m; discriminate|]. destruct m; cbn in *; auto. }
  apply (entry_ok_rebase 0 ei es (firstn j es)); [intros; cbn; auto|]. rewrite Nat.add_0_r. exact H.
Qed.

(* facts about [unmatched] *)
Lemma unmatched_facts : forall (es : list exp) ei,
  lines_of (unmatched line ei es) = []
  /\ sorted_in ei (ei + length es) (exps_of (unmatched line ei es))
  /\ (forall k e, nth_error es k = Some e -> optl e = false -> In (ei + k) (exps_of (unmatched line ei es)))
  /\ Forall (entry_ok ei es) (unmatched line ei es).
Proof.
  induction es as [|e es IH]; intros ei.
  - cbn. split4; [apply sorted_in_nil | intros k e H; destruct k; discriminate].
  - destruct (IH (S ei)) as (L & HS & I & F). cbn [unmatched].
    rewrite lines_of_app, exps_of_app, L.
    assert (F' : Forall (entry_ok ei (e :: es)) (unmatched line (S ei) es)).
    { eapply Forall_impl; [|exact F]. intros; apply entry_ok_cons; auto. }
    destruct (optl e) eqn:Ho; cbn [app lines_of exps_of flat_map e_lines e_exps length].
    + split4.
      * eapply sorted_in_weaken; [exact HS| |]; lia.
      * intros k e0 Hk Ho0. destruct k; cbn in Hk; [inversion Hk; subst; congruence|].
        replace (ei + S k) with (S ei + k) by lia. eauto.
    + split4.
      * apply (sorted_in_app [ei] _ ei (S ei)); [apply sorted_in_single; lia| | lia | lia].
        eapply sorted_in_weaken; [exact HS| |]; lia.
      * intros k e0 Hk Ho0. destruct k; cbn in Hk.
        -- left. lia.
        -- right. replace (ei + S k) with (S ei + k) by lia. eauto.
      * constructor; auto. cbn. exists e. rewrite Nat.sub_diag. cbn. auto.
Qed.

Definition run_inv (es : list exp) (run : list (nat * line)) : Prop :=
  run <> [] -> exists e es', es = e :: es' /\ mull e = true /\ Forall (fun p => mtl e (snd p) = true) run.

Definition post (es : list exp) (ei : nat) (ls : list line) (li : nat) (run : list (nat * line)) (d : list entry) : Prop :=
  lines_of d = run ++ number line li ls
  /\ sorted_in ei (ei + length es) (exps_of d)
  /\ (forall k e, nth_error es k = Some e -> optl e = false -> In (ei + k) (exps_of d))
  /\ Forall (entry_ok ei es) d.

Lemma post_cons_entry : forall (e : exp) es ei ls li (en : entry) d run0,
  post es (S ei) ls li [] d ->
  e_exps en = [ei] -> entry_ok ei (e :: es) en ->
  e_lines en = run0 ->
  lines_of (en :: d) = run0 ++ number line li ls
  /\ sorted_in ei (ei + length (e :: es)) (exps_of (en :: d))
  /\ (forall k e0, nth_error (e :: es) k = Some e0 -> optl e0 = false -> In (ei + k) (exps_of (en :: d)))
  /\ Forall (entry_ok ei (e :: es)) (en :: d).
Proof.
  intros e es ei ls li en d run0 (L & HS & I & F) He Hok Hl.
  unfold lines_of, exps_of in *. cbn [flat_map]. rewrite He, Hl, L. cbn [app length].
  split4.
  - apply (sorted_in_app [ei] _ ei (S ei)); [apply sorted_in_single; lia| | lia | lia].
    eapply sorted_in_weaken; [exact HS| |]; lia.
  - intros k e0 Hk Ho. destruct k; [left; lia|]. right. cbn in Hk.
    replace (ei + S k) with (S ei + k) by lia. eauto.
  - constructor; auto. eapply Forall_impl; [|exact F]. intros; apply entry_ok_cons; auto.
Qed.

Lemma loop_post : forall fuel (es : list exp) ei ls li run d,
  loop line fuel es ei ls li run = Some d -> run_inv es run -> post es ei ls li run d.
Proof.
  induction fuel as [|f IH]; intros es ei ls li run d Hl Hrun; [discriminate|].
  cbn [loop] in Hl.
  destruct es as [|e es'].
  { assert (run = []) by (destruct run; auto; destruct (Hrun ltac:(discriminate)) as (? & ? & ? & _); discriminate).
    subst run. inversion Hl; subst; clear Hl. cbn [is_nil unmatched app].
    destruct ls as [|l ls']; cbn [is_nil]; unfold post, lines_of, exps_of; cbn.
    - split4; [apply sorted_in_nil | intros k e H; destruct k; discriminate].
    - rewrite app_nil_r. split4; [apply sorted_in_nil | intros k e H; destruct k; discriminate |].
      constructor; [cbn; discriminate | constructor]. }
  destruct ls as [|l ls'].
  { assert (E : d = (if is_nil run then unmatched line ei (e :: es')
                     else EMatched line ei run :: unmatched line (S ei) es'))
      by (inversion Hl; rewrite app_nil_r; reflexivity).
    clear Hl. subst d.
    destruct run as [|p run'].
    - cbn [is_nil]. destruct (unmatched_facts (e :: es') ei) as (L & HS & I & F).
      unfold post. rewrite L. cbn [app number]. split4.
    - cbn [is_nil]. destruct (Hrun ltac:(discriminate)) as (e0 & es0 & He & Hmul & Hf). inversion He; subst e0 es0; clear He.
      destruct (unmatched_facts es' (S ei)) as (L & HS & I & F).
      apply (post_cons_entry e es' ei [] li (EMatched line ei (p :: run')) _ (p :: run')); auto.
      + unfold post. rewrite L. cbn [app number]. split4.
      + cbn. split; [discriminate|]. exists e. rewrite Nat.sub_diag. cbn. repeat split; auto. congruence. }
  destruct (mtl e l) eqn:Hm.
  - destruct (mull e) eqn:Hmul.
    + match type of Hl with (if ?c then _ else _) = _ => destruct c eqn:Hy end.
      * destruct (loop line f es' (S ei) (l :: ls') li []) as [d'|] eqn:Hrec; [|discriminate].
        cbn in Hl. inversion Hl; subst; clear Hl.
        pose proof (IH _ _ _ _ _ _ Hrec ltac:(intros C; contradiction)) as P.
        destruct run as [|p run']; cbn [is_nil app].
        -- (* optional multiline skipped silently *)
           destruct es' as [|e2 es2]; [discriminate|].
           apply andb_true_iff in Hy as [Hy1 _]. cbn in Hy1. rewrite orb_false_r in Hy1.
           destruct P as (L & HS & I & F). unfold post. cbn [app]. split4.
           ++ eapply sorted_in_weaken; [exact HS| |]; cbn [length]; lia.
           ++ intros k e0 Hk Ho. destruct k; cbn in Hk; [inversion Hk; subst; congruence|].
              replace (ei + S k) with (S ei + k) by lia. eauto.
           ++ eapply Forall_impl; [|exact F]. intros; apply entry_ok_cons; auto.
        -- destruct (Hrun ltac:(discriminate)) as (e0 & es0 & He & _ & Hf). inversion He; subst e0 es0; clear He.
           apply (post_cons_entry e es' ei (l :: ls') li (EMatched line ei (p :: run')) _ (p :: run')); auto.
           cbn. split; [discriminate|]. exists e. rewrite Nat.sub_diag. cbn. repeat split; auto. congruence.
      * assert (Hr' : run_inv (e :: es') (run ++ [(li, l)])).
        { intros _. exists e, es'. repeat split; auto. apply Forall_app. split.
          - destruct run as [|p r]; [constructor|]. destruct (Hrun ltac:(discriminate)) as (e0 & es0 & He & _ & Hf). inversion He; subst; auto.
          - repeat constructor. exact Hm. }
        destruct (IH _ _ _ _ _ _ Hl Hr') as (L & HS & I & F). unfold post. split4.
        rewrite L. rewrite <- app_assoc. reflexivity.
    + assert (run = []).
      { destruct run; auto. destruct (Hrun ltac:(discriminate)) as (e0 & es0 & He & Hmul0 & _). inversion He; subst. congruence. }
      subst run.
      destruct (loop line f es' (S ei) ls' (S li) []) as [d'|] eqn:Hrec; [|discriminate].
      cbn in Hl. inversion Hl; subst; clear Hl.
      pose proof (IH _ _ _ _ _ _ Hrec ltac:(intros C; contradiction)) as P.
      destruct (post_cons_entry e es' ei ls' (S li) (EMatched line ei [(li, l)]) d' [(li, l)] P) as (L & HS & I & F); auto.
      { cbn. split; [discriminate|]. exists e. rewrite Nat.sub_diag. cbn. repeat split; auto. }
      unfold post. split4.
  - destruct run as [|p run'].
    + cbn [is_nil negb] in Hl.
      destruct (find_idx (fun e' => mtl e' l) es') as [k|] eqn:Hfe.
      * destruct (loop line f (skipn (S k) (e :: es')) (ei + S k) (l :: ls') li []) as [d'|] eqn:Hrec; [|discriminate].
        cbn [option_map] in Hl.
        assert (E : d = unmatched line ei (firstn (S k) (e :: es')) ++ d') by (inversion Hl; reflexivity).
        clear Hl. subst d.
        pose proof (IH _ _ _ _ _ _ Hrec ltac:(intros C; contradiction)) as (L & HS & I & F).
        destruct (find_idx_some _ _ _ _ Hfe) as [_ (x & r & Hsk & _)].
        assert (Hk : S k <= length (e :: es')).
        { cbn [length]. assert (k < length es'); [|lia].
          destruct (Nat.lt_ge_cases k (length es')); auto. rewrite skipn_all2 in Hsk; [discriminate|lia]. }
        destruct (unmatched_facts (firstn (S k) (e :: es')) ei) as (L1 & S1 & I1 & F1).
        rewrite firstn_length_le in S1 by exact Hk.
        unfold post. rewrite lines_of_app, exps_of_app, L1, L. cbn [app]. split4.
        -- apply (sorted_in_app _ _ ei (ei + S k)); auto; try lia.
           eapply sorted_in_weaken; [exact HS|lia|]. rewrite skipn_length. lia.
        -- intros k0 e0 Hk0 Ho. apply in_or_app. destruct (Nat.lt_ge_cases k0 (S k)).
           ++ left. apply I1 with (e := e0); auto.
              rewrite <- Hk0. clear -H. revert k0 H. generalize (e :: es'). generalize (S k).
              induction n; intros l0 k0 H; [lia|]. destruct l0; [destruct k0; reflexivity|].
              destruct k0; cbn; auto. apply IHn. lia.
           ++ right. replace (ei + k0) with (ei + S k + (k0 - S k)) by lia. apply I with (e := e0); auto.
              rewrite nth_error_skipn'. replace (S k + (k0 - S k)) with k0 by lia. exact Hk0.
        -- apply Forall_app. split.
           ++ eapply Forall_impl; [|exact F1]. intros; eapply entry_ok_firstn; eauto.
           ++ eapply Forall_impl; [|exact F]. intros; eapply entry_ok_skipn; eauto.
      * destruct (find_idx (mtl e) ls') as [k|] eqn:Hfl.
        -- destruct (loop line f (e :: es') ei (skipn (S k) (l :: ls')) (li + S k) []) as [d'|] eqn:Hrec; [|discriminate].
           cbn [option_map] in Hl. inversion Hl; subst; clear Hl.
           pose proof (IH _ _ _ _ _ _ Hrec ltac:(intros C; contradiction)) as (L & HS & I & F).
           destruct (find_idx_some _ _ _ _ Hfl) as [_ (x & r & Hsk & _)].
           assert (Hk : S k <= length (l :: ls')).
           { cbn [length]. assert (k < length ls'); [|lia].
             destruct (Nat.lt_ge_cases k (length ls')); auto. rewrite skipn_all2 in Hsk; [discriminate|lia]. }
           unfold post, lines_of, exps_of in *. cbn [flat_map e_lines e_exps app]. rewrite L. cbn [app].
           split4.
           ++ rewrite <- (number_split (S k) (l :: ls') li Hk). reflexivity.
           ++ constructor; auto. cbn. discriminate.
        -- destruct (loop line f es' (S ei) (l :: ls') li []) as [d'|] eqn:Hrec; [|discriminate].
           cbn [option_map] in Hl. inversion Hl; subst; clear Hl.
           pose proof (IH _ _ _ _ _ _ Hrec ltac:(intros C; contradiction)) as P.
           destruct (optl e) eqn:Ho; cbn [app].
           ++ destruct P as (L & HS & I & F). unfold post. cbn [app]. split4.
              ** eapply sorted_in_weaken; [exact HS| |]; cbn [length]; lia.
              ** intros k e0 Hk Ho0. destruct k; cbn in Hk; [inversion Hk; subst; congruence|].
                 replace (ei + S k) with (S ei + k) by lia. eauto.
              ** eapply Forall_impl; [|exact F]. intros; apply entry_ok_cons; auto.
           ++ apply (post_cons_entry e es' ei (l :: ls') li (EUnmatched line ei) d' []); auto.
              cbn. exists e. rewrite Nat.sub_diag. cbn. auto.
    + cbn [is_nil negb] in Hl.
      destruct (loop line f es' (S ei) (l :: ls') li []) as [d'|] eqn:Hrec; [|discriminate].
      cbn in Hl. inversion Hl; subst; clear Hl.
      pose proof (IH _ _ _ _ _ _ Hrec ltac:(intros C; contradiction)) as P.
      destruct (Hrun ltac:(discriminate)) as (e0 & es0 & He & Hmul & Hf). inversion He; subst e0 es0; clear He.
      apply (post_cons_entry e es' ei (l :: ls') li (EMatched line ei (p :: run')) _ (p :: run')); auto.
      cbn. split; [discriminate|]. exists e. rewrite Nat.sub_diag. cbn. repeat split; auto. congruence.
Qed.

(* the fuel chosen by [diff] is always enough: the loop terminates *)
Lemma loop_fuel_enough : forall fuel (es : list exp) ei ls li run,
  length es + length ls < fuel -> loop line fuel es ei ls li run <> None.
Proof.
  induction fuel as [|f IH]; intros es ei ls li run H; [lia|].
  cbn [loop]. destruct es as [|e es']; [discriminate|]. destruct ls as [|l ls']; [discriminate|].
  cbn [length] in H.
  assert (A : forall es2 ei2 ls2 li2 run2 (g : list entry -> list entry),
             length es2 + length ls2 < f -> option_map g (loop line f es2 ei2 ls2 li2 run2) <> None).
  { intros. specialize (IH es2 ei2 ls2 li2 run2 H0). destruct (loop line f es2 ei2 ls2 li2 run2); cbn; congruence. }
  destruct (mtl e l).
  - destruct (mull e).
    + match goal with |- (if ?c then _ else _) <> _ => destruct c end.
      * apply A. cbn [length]. lia.
      * apply IH. cbn [length]. lia.
    + apply A. lia.
  - destruct (negb (is_nil run)).
    + apply A. cbn [length]. lia.
    + destruct (find_idx (fun e' => mtl e' l) es') as [k|] eqn:Hfe.
      * apply A. cbn [skipn length]. rewrite skipn_length. lia.
      * destruct (find_idx (mtl e) ls') as [k|].
        -- apply A. cbn [skipn length]. rewrite skipn_length. lia.
        -- apply A. cbn [length]. lia.
Qed.

Theorem C02_conservation : forall es ls,
  exists d, diff line es ls = Some d
  /\ lines_of d = number line 0 ls
  /\ sorted_in 0 (length es) (exps_of d)
  /\ (forall k e, nth_error es k = Some e -> optl e = false -> In k (exps_of d))
  /\ Forall (entry_ok 0 es) d.
Proof.
  intros es ls. unfold diff.
  destruct (loop line (S (length es + length ls)) es 0 ls 0 []) as [d|] eqn:Hl.
  - exists d. split; auto. destruct (loop_post _ _ _ _ _ _ _ Hl ltac:(intros C; contradiction)) as (L & HS & I & F).
    cbn in *. split4.
  - exfalso. eapply loop_fuel_enough; [|exact Hl]. lia.
Qed.
End P.
Print Assumptions C02_conservation.
