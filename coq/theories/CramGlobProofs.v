(* C04: the Cram flavour of glob (src/rules/glob_cram.rs: the pattern is translated to a regular expression).
   The language of the translated expression is exactly the documented meaning: `*` any run of characters, `?` exactly
   one character, `\*` `\?` `\\` the literal character, any other character itself; whole line; no LF inside. *)
From Coq Require Import List NArith Bool Lia Arith.
Import ListNotations.
From SV Require Import Rules RulesProofs.
Local Open Scope N_scope.

Definition special (c : N) : bool := (c =? 42) || (c =? 63) || (c =? 92).

Inductive CGMatch : list N -> list N -> Prop :=
| CG_nil : CGMatch [] []
| CG_esc : forall c r s, special c = true -> CGMatch r s -> CGMatch (92 :: c :: r) (c :: s)
| CG_bs : forall r s, (match r with c :: _ => special c = false | [] => True end) -> CGMatch r s -> CGMatch (92 :: r) (92 :: s)
| CG_star : forall r run s, Forall (fun x => x <> 10) run -> CGMatch r s -> CGMatch (42 :: r) (run ++ s)
| CG_qm : forall r x s, x <> 10 -> CGMatch r s -> CGMatch (63 :: r) (x :: s)
| CG_chr : forall c r s, special c = false -> CGMatch r s -> CGMatch (c :: r) (c :: s).

(* inversion of the languages involved *)
Lemma lang_eps_inv : forall s, Lang Eps s -> s = [].
Proof. intros s H. inversion H. reflexivity. Qed.
Lemma lang_chr_inv : forall c s, Lang (Chr c) s -> s = [c].
Proof. intros c s H. inversion H. reflexivity. Qed.
Lemma lang_any_inv : forall s, Lang Any s -> exists c, s = [c] /\ c <> 10.
Proof. intros s H. inversion H; subst. eauto. Qed.
Lemma lang_seq_inv : forall a b s, Lang (Seq a b) s -> exists s1 s2, s = s1 ++ s2 /\ Lang a s1 /\ Lang b s2.
Proof. intros a b s H. inversion H; subst. eauto. Qed.
Lemma lang_star_any : forall s, Lang (Star Any) s <-> Forall (fun x => x <> 10) s.
Proof.
  intros s. split.
  - intros H. remember (Star Any) as r eqn:Er. induction H; try discriminate.
    + constructor.
    + inversion Er; subst a. apply lang_any_inv in H. destruct H as [c [-> Hc]]. cbn [app]. constructor; [exact Hc|]. apply IHLang2. reflexivity.
  - intros H. induction H as [|x l Hx Hl IH]; [constructor|].
    change (x :: l) with ([x] ++ l). apply L_star1; [constructor; exact Hx|exact IH].
Qed.

(* how the translation unfolds (the source pattern `92 :: c :: r` is a match on the bits of the first character) *)
Lemma cram_other : forall f c r, c <> 92 ->
  cram_glob_re_aux (S f) (c :: r)
  = if c =? 42 then Seq (Star Any) (cram_glob_re_aux f r) else if c =? 63 then Seq Any (cram_glob_re_aux f r) else Seq (Chr c) (cram_glob_re_aux f r).
Proof.
  intros f c r H. cbn [cram_glob_re_aux]. destruct c as [|q]; [reflexivity|].
  repeat (destruct q as [q|q|]; try reflexivity). contradiction.
Qed.
Lemma cram_bs_end : forall f, cram_glob_re_aux (S f) [92] = Seq (Chr 92) (cram_glob_re_aux f []).
Proof. reflexivity. Qed.
Lemma cram_bs_next : forall f c r,
  cram_glob_re_aux (S f) (92 :: c :: r)
  = if special c then Seq (Chr c) (cram_glob_re_aux f r) else Seq (Chr 92) (cram_glob_re_aux f (c :: r)).
Proof. reflexivity. Qed.

Lemma cram_fuel : forall f1 f2 p, (length p < f1)%nat -> (length p < f2)%nat -> cram_glob_re_aux f1 p = cram_glob_re_aux f2 p.
Proof.
  induction f1 as [|f1 IH]; intros f2 p H1 H2; [lia|]. destruct f2 as [|f2]; [lia|].
  destruct p as [|c r]; [reflexivity|].
  destruct (N.eq_dec c 92) as [->|Hc].
  - destruct r as [|c2 r2].
    + rewrite !cram_bs_end. f_equal. destruct f1, f2; reflexivity.
    + rewrite !cram_bs_next. destruct (special c2); f_equal; apply IH; cbn in *; lia.
  - rewrite !cram_other by exact Hc. destruct (c =? 42); [|destruct (c =? 63)]; f_equal; apply IH; cbn in *; lia.
Qed.

(* the language of the translation, by induction on the pattern *)
Lemma lang_cram : forall f p s, (length p < f)%nat -> (Lang (cram_glob_re_aux f p) s <-> CGMatch p s).
Proof.
  induction f as [|f IH]; intros p s Hf; [lia|].
  destruct p as [|c r].
  - cbn [cram_glob_re_aux]. split; intros H; [apply lang_eps_inv in H; subst; constructor|inversion H; constructor].
  - assert (Hr: (length r < f)%nat) by (cbn in Hf; lia).
    destruct (N.eq_dec c 92) as [->|Hc].
    + destruct r as [|c2 r2].
      * rewrite cram_bs_end. split; intros H.
        -- apply lang_seq_inv in H. destruct H as (s1 & s2 & -> & H1 & H2). apply lang_chr_inv in H1. subst s1.
           apply (IH [] s2 Hr) in H2. cbn [app]. apply CG_bs; [exact I|exact H2].
        -- inversion H as [| | r0 s0 Hn Hm| | |c0 r0 s0 Hsp Hm]; subst.
           ++ change (92 :: s0) with ([92] ++ s0). apply L_seq; [constructor|]. apply (IH [] s0 Hr). exact Hm.
           ++ discriminate.
      * rewrite cram_bs_next. destruct (special c2) eqn:Es; split; intros H.
        -- apply lang_seq_inv in H. destruct H as (s1 & s2 & -> & H1 & H2). apply lang_chr_inv in H1. subst s1.
           apply (IH r2 s2 ltac:(cbn in *; lia)) in H2. cbn [app]. apply CG_esc; assumption.
        -- inversion H as [|c0 r0 s0 Hsp Hm|r0 s0 Hn Hm| | |c0 r0 s0 Hsp Hm]; subst.
           ++ change (c2 :: s0) with ([c2] ++ s0). apply L_seq; [constructor|]. apply (IH r2 s0 ltac:(cbn in *; lia)). exact Hm.
           ++ cbn in Hn. congruence.
           ++ discriminate.
        -- apply lang_seq_inv in H. destruct H as (s1 & s2 & -> & H1 & H2). apply lang_chr_inv in H1. subst s1.
           apply (IH (c2 :: r2) s2 Hr) in H2. cbn [app]. apply CG_bs; [exact Es|exact H2].
        -- inversion H as [|c0 r0 s0 Hsp Hm|r0 s0 Hn Hm| | |c0 r0 s0 Hsp Hm]; subst.
           ++ congruence.
           ++ change (92 :: s0) with ([92] ++ s0). apply L_seq; [constructor|]. apply (IH (c2 :: r2) s0 Hr). exact Hm.
           ++ discriminate.
    + rewrite cram_other by exact Hc. destruct (c =? 42) eqn:E42; [|destruct (c =? 63) eqn:E63].
      * apply N.eqb_eq in E42. subst c. split; intros H.
        -- apply lang_seq_inv in H. destruct H as (s1 & s2 & -> & H1 & H2). apply lang_star_any in H1.
           apply (IH r s2 Hr) in H2. apply CG_star; assumption.
        -- inversion H as [| | |r0 run s0 Hrun Hm| |c0 r0 s0 Hsp Hm]; subst.
           ++ apply L_seq; [apply lang_star_any; exact Hrun|apply (IH r s0 Hr); exact Hm].
           ++ discriminate.
      * apply N.eqb_eq in E63. subst c. split; intros H.
        -- apply lang_seq_inv in H. destruct H as (s1 & s2 & -> & H1 & H2). apply lang_any_inv in H1. destruct H1 as [x [-> Hx]].
           apply (IH r s2 Hr) in H2. cbn [app]. apply CG_qm; assumption.
        -- inversion H as [| | | |r0 x s0 Hx Hm|c0 r0 s0 Hsp Hm]; subst.
           ++ change (x :: s0) with ([x] ++ s0). apply L_seq; [constructor; exact Hx|apply (IH r s0 Hr); exact Hm].
           ++ discriminate.
      * assert (Hs: special c = false).
        { unfold special. rewrite E42, E63. cbn [orb]. apply N.eqb_neq. exact Hc. }
        split; intros H.
        -- apply lang_seq_inv in H. destruct H as (s1 & s2 & -> & H1 & H2). apply lang_chr_inv in H1. subst s1.
           apply (IH r s2 Hr) in H2. cbn [app]. apply CG_chr; assumption.
        -- inversion H as [|c0 r0 s0 Hsp Hm|r0 s0 Hn Hm|r0 run s0 Hrun Hm|r0 x s0 Hx Hm|c0 r0 s0 Hsp Hm]; subst; try congruence.
           ++ rewrite N.eqb_refl in E42. discriminate.
           ++ rewrite N.eqb_refl in E63. discriminate.
           ++ change (c :: s0) with ([c] ++ s0). apply L_seq; [constructor|apply (IH r s0 Hr); exact Hm].
Qed.

Theorem cram_glob_spec : forall p s, full (cram_glob_re p) s = true <-> CGMatch p s.
Proof. intros p s. rewrite full_spec. unfold cram_glob_re. apply lang_cram. lia. Qed.
