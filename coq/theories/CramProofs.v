From Coq Require Import List NArith Bool Lia Arith.
Import ListNotations.
From SV Require Import Template TemplateProofs LineParser CramSpec.
Local Open Scope N_scope.

Section P.
Variable pe_ok : text -> bool.
Notation end_testcase := LineParser.end_testcase.
Notation add_body := (LineParser.add_body pe_ok).
Notation cram_step := (LineParser.cram_step pe_ok).
Notation cram_loop := (LineParser.cram_loop pe_ok).

(* the loop without its final flush *)
Fixpoint cram_steps (s : lp) (lines : list text) (index : nat) : lres lp :=
  match lines with
  | [] => LOk s
  | l :: r => match cram_step s l index with LOk s' => cram_steps s' r (S index) | LErr => LErr end
  end.
Definition finish (s : lp) (index : nat) : lres lp := if has_body s then end_testcase s index else LOk s.

Lemma cram_loop_steps : forall lines s index,
  cram_loop s lines index = match cram_steps s lines index with LOk s' => finish s' (index + length lines) | LErr => LErr end.
Proof.
  induction lines as [|l r IH]; intros s index; cbn [LineParser.cram_loop cram_steps length].
  - rewrite Nat.add_0_r. reflexivity.
  - destruct (cram_step s l index) as [s'|]; [|reflexivity]. rewrite IH. replace (S index + length r)%nat with (index + S (length r))%nat by lia. reflexivity.
Qed.

Lemma cram_steps_app : forall l1 l2 s index,
  cram_steps s (l1 ++ l2) index =
  match cram_steps s l1 index with LOk s' => cram_steps s' l2 (index + length l1) | LErr => LErr end.
Proof.
  induction l1 as [|l r IH]; intros l2 s index; cbn [app cram_steps length].
  - rewrite Nat.add_0_r. reflexivity.
  - destruct (cram_step s l index) as [s'|]; [|reflexivity]. rewrite IH. replace (S index + length r)%nat with (index + S (length r))%nat by lia. reflexivity.
Qed.

(* ---------- abstract parser states ---------- *)
Inductive astate :=
| AClosed (title : option text)
| AOpen (title : option text) (cmds : list text) (exps : list text) (code : option N) (start : nat).

Definition conc (a : astate) (ic : bool) (cases : list ptest) : lp :=
  match a with
  | AClosed t => mkLP t [] [] None ic None cases
  | AOpen t cmds exps code start => mkLP t cmds exps code ic (Some start) cases
  end.
Definition open_ok (a : astate) : Prop := match a with AOpen _ cmds _ _ _ => cmds <> [] | _ => True end.
Definition pending (a : astate) : list ptest :=
  match a with
  | AClosed _ => []
  | AOpen t cmds exps code start => [mkPT (match t with Some x => x | None => [] end) cmds exps code (S start)]
  end.
Definition atitle (a : astate) : option text := match a with AClosed t => t | AOpen _ _ _ _ _ => None end.

(* closing whatever is open *)
Lemma end_testcase_conc : forall a ic cases index, open_ok a ->
  end_testcase (conc a ic cases) index = LOk (conc (AClosed (atitle a)) ic (pending a ++ cases)).
Proof.
  intros [t|t cmds exps code start] ic cases index H; cbn [conc end_testcase lp_cmd lp_exps].
  - reflexivity.
  - cbn in H. destruct cmds as [|c cmds']; [contradiction|]. reflexivity.
Qed.

Lemma has_body_conc : forall a ic cases, open_ok a ->
  has_body (conc a ic cases) = match a with AClosed _ => false | AOpen _ _ _ _ _ => true end.
Proof.
  intros [t|t cmds exps code start] ic cases H; cbn; [reflexivity|]. destruct cmds; [contradiction|reflexivity].
Qed.

(* ---------- single lines ---------- *)
Lemma strip_prefix_app : forall p l, strip_prefix p (p ++ l) = Some l.
Proof.
  intros p l. unfold strip_prefix. rewrite starts_with_app.
  f_equal. induction p as [|x p IH]; [reflexivity|]. cbn [app length skipn]. exact IH.
Qed.

Lemma step_indented : forall s rest idx, cram_step s (INDENT ++ rest) idx = add_body true s rest idx.
Proof. intros s rest idx. reflexivity. Qed.

Lemma add_dollar : forall a ic cases cmd idx, open_ok a ->
  add_body true (conc a ic cases) (P_DOLLAR ++ cmd) idx
  = LOk (conc (AOpen (atitle a) [cmd] [] None idx) true (pending a ++ cases)).
Proof.
  intros a ic cases cmd idx H. unfold LineParser.add_body. cbn [orb]. rewrite strip_prefix_app.
  destruct a as [t|t cmds exps code start]; cbn [conc lp_cmd lp_title lp_exps lp_code lp_start lp_cases lp_in_command].
  - reflexivity.
  - cbn in H. destruct cmds as [|c cmds']; [contradiction|]. reflexivity.
Qed.

Lemma add_cont : forall t cmds st cases c idx, cmds <> [] ->
  add_body true (conc (AOpen t cmds [] None st) true cases) (P_GT ++ c) idx
  = LOk (conc (AOpen t (cmds ++ [c]) [] None st) true cases).
Proof.
  intros t cmds st cases c idx H. unfold LineParser.add_body. cbn [orb].
  change (strip_prefix P_DOLLAR (P_GT ++ c)) with (@None text).
  cbn [conc lp_in_command]. rewrite strip_prefix_app. cbn [lp_cmd]. destruct cmds; [contradiction|reflexivity].
Qed.

Lemma strip_none : forall p l, starts_with p l = false -> strip_prefix p l = None.
Proof. intros p l H. unfold strip_prefix. rewrite H. reflexivity. Qed.

Lemma add_exp : forall t cmds exps code st ic cases l idx,
  exp_ok pe_ok l = true -> (ic = true -> starts_with P_GT l = false) ->
  add_body true (conc (AOpen t cmds exps code st) ic cases) l idx
  = LOk (conc (AOpen t cmds (exps ++ [l]) code st) false cases).
Proof.
  intros t cmds exps code st ic cases l idx H Hgt. unfold exp_ok in H.
  apply andb_true_iff in H. destruct H as [H Hpe]. apply andb_true_iff in H. destruct H as [Hd He].
  apply negb_true_iff in Hd. unfold LineParser.add_body. cbn [orb]. rewrite (strip_none _ _ Hd).
  cbn [conc lp_in_command].
  assert (G : (if ic then strip_prefix P_GT l else None) = None).
  { destruct ic; [|reflexivity]. apply strip_none. apply Hgt. reflexivity. }
  rewrite G. destruct (extract_exit_code l); [discriminate|]. rewrite Hpe. reflexivity.
Qed.

Lemma extract_code_digits : forall ds, code_ok ds = true -> extract_exit_code ([91] ++ ds ++ [93]) = Some (digits_value 0 ds).
Proof.
  intros ds H. unfold extract_exit_code. change ([91] ++ ds ++ [93]) with (91 :: (ds ++ [93])). cbv iota beta.
  assert (R : rev (ds ++ [93]) = 93 :: rev ds) by (rewrite rev_app_distr; reflexivity).
  rewrite R. rewrite rev_involutive. unfold code_ok in H. destruct ds as [|d ds']; [discriminate|].
  apply andb_true_iff in H. destruct H as [Hd Hv]. rewrite Hd, Hv. reflexivity.
Qed.

Lemma add_code : forall t cmds exps st ic cases ds idx, code_ok ds = true ->
  add_body true (conc (AOpen t cmds exps None st) ic cases) ([91] ++ ds ++ [93]) idx
  = LOk (conc (AOpen t cmds exps (Some (digits_value 0 ds)) st) false cases).
Proof.
  intros t cmds exps st ic cases ds idx H. unfold LineParser.add_body. cbn [orb].
  change (strip_prefix P_DOLLAR ([91] ++ ds ++ [93])) with (@None text).
  cbn [conc lp_in_command].
  assert (G : (if ic then strip_prefix P_GT ([91] ++ ds ++ [93]) else None) = None) by (destruct ic; reflexivity).
  rewrite G. rewrite (extract_code_digits ds H). reflexivity.
Qed.

(* ---------- the lines of one test block ---------- *)
Lemma conts_steps : forall conts t cmds st cases idx, cmds <> [] ->
  cram_steps (conc (AOpen t cmds [] None st) true cases) (map (fun c => INDENT ++ P_GT ++ c) conts) idx
  = LOk (conc (AOpen t (cmds ++ conts) [] None st) true cases).
Proof.
  induction conts as [|c conts IH]; intros t cmds st cases idx H; cbn [map cram_steps].
  - rewrite app_nil_r. reflexivity.
  - rewrite step_indented, add_cont by exact H. rewrite IH by (destruct cmds; discriminate).
    rewrite <- app_assoc. reflexivity.
Qed.

Definition item_ok (b : bline) : bool := match b with BExp l => exp_ok pe_ok l | BCode ds => code_ok ds end.
Definition first_not_gt (body : list bline) : bool := match body with BExp l :: _ => negb (starts_with P_GT l) | _ => true end.
Definition orelse_code (a b : option N) : option N := match a with Some _ => a | None => b end.

Lemma body_steps : forall body t cmds exps code st ic cases idx,
  forallb item_ok body = true ->
  (count_codes body + (match code with Some _ => 1 | None => 0 end) <= 1)%nat ->
  (ic = true -> first_not_gt body = true) ->
  exists ic', cram_steps (conc (AOpen t cmds exps code st) ic cases) (map render_bline body) idx
              = LOk (conc (AOpen t cmds (exps ++ exps_of body) (orelse_code code (code_of body)) st) ic' cases).
Proof.
  induction body as [|b body IH]; intros t cmds exps code st ic cases idx Hok Hc Hgt; cbn [map cram_steps].
  - exists ic. rewrite app_nil_r. destruct code; reflexivity.
  - cbn [forallb] in Hok. apply andb_true_iff in Hok. destruct Hok as [Hb Hok]. destruct b as [l|ds]; cbn [render_bline].
    + rewrite step_indented. rewrite (add_exp t cmds exps code st ic cases l idx Hb).
      2:{ intros E. specialize (Hgt E). cbn in Hgt. apply negb_true_iff in Hgt. exact Hgt. }
      destruct (IH t cmds (exps ++ [l]) code st false cases (S idx) Hok Hc ltac:(discriminate)) as [ic' E].
      exists ic'. rewrite E. cbn [exps_of flat_map]. rewrite <- app_assoc. cbn [app].
      unfold code_of. cbn [flat_map app]. reflexivity.
    + cbn [count_codes] in Hc. destruct code as [c0|]; [cbn in Hc; lia|].
      rewrite step_indented. rewrite (add_code t cmds exps st ic cases ds idx Hb).
      destruct (IH t cmds exps (Some (digits_value 0 ds)) st false cases (S idx) Hok ltac:(cbn; lia) ltac:(discriminate)) as [ic' E].
      exists ic'. rewrite E. cbn [exps_of flat_map app]. unfold code_of. cbn [flat_map app orelse_code]. reflexivity.
Qed.

Lemma body_ok_split : forall body, body_ok pe_ok body = true ->
  forallb item_ok body = true /\ (count_codes body <= 1)%nat /\ first_not_gt body = true.
Proof.
  intros body H. unfold body_ok in H. apply andb_true_iff in H. destruct H as [H H3]. apply andb_true_iff in H. destruct H as [H1 H2].
  split; [exact H1|]. split; [apply Nat.leb_le; exact H2|exact H3].
Qed.

Lemma test_steps : forall cmd conts body a ic cases idx, open_ok a -> body_ok pe_ok body = true ->
  exists ic', cram_steps (conc a ic cases) (render_block (BTest cmd conts body)) idx
              = LOk (conc (AOpen (atitle a) (cmd :: conts) (exps_of body) (code_of body) idx) ic' (pending a ++ cases)).
Proof.
  intros cmd conts body a ic cases idx Ha Hb. destruct (body_ok_split body Hb) as (H1 & H2 & H3).
  cbn [render_block]. change ([INDENT ++ P_DOLLAR ++ cmd] ++ map (fun c => INDENT ++ P_GT ++ c) conts ++ map render_bline body)
    with ((INDENT ++ P_DOLLAR ++ cmd) :: (map (fun c => INDENT ++ P_GT ++ c) conts ++ map render_bline body)).
  cbn [cram_steps]. rewrite step_indented.
  rewrite (add_dollar a ic cases cmd idx Ha). rewrite cram_steps_app.
  rewrite conts_steps by discriminate.
  assert (H2' : (count_codes body + (match @None N with Some _ => 1 | None => 0 end) <= 1)%nat) by (cbn; lia).
  destruct (body_steps body (atitle a) ([cmd] ++ conts) [] None idx true (pending a ++ cases) (S idx + length (map (fun c => INDENT ++ P_GT ++ c) conts)) H1 H2' (fun _ => H3)) as [ic' E].
  exists ic'. exact E.
Qed.

(* ---------- the other blocks ---------- *)
Lemma title_step : forall l a ic cases idx, open_ok a -> title_ok l = true ->
  cram_step (conc a ic cases) l idx = LOk (conc (AClosed (Some l)) ic (pending a ++ cases)).
Proof.
  intros l a ic cases idx Ha H. unfold title_ok in H. destruct l as [|c l']; [discriminate|].
  apply andb_true_iff in H. destruct H as [Hc Hi]. apply negb_true_iff in Hc. apply negb_true_iff in Hi.
  unfold LineParser.cram_step. rewrite Hc. rewrite (strip_none _ _ Hi). rewrite (end_testcase_conc a ic cases idx Ha). reflexivity.
Qed.

Lemma blank_step : forall a ic cases idx, open_ok a ->
  cram_step (conc a ic cases) [] idx = LOk (conc (AClosed (atitle a)) ic (pending a ++ cases)).
Proof.
  intros a ic cases idx Ha. unfold LineParser.cram_step. cbn [is_comment]. rewrite (has_body_conc a ic cases Ha).
  destruct a as [t|t cmds exps code st]; [reflexivity|]. apply end_testcase_conc. exact Ha.
Qed.

Lemma comment_step : forall l s idx, comment_ok l = true -> cram_step s l idx = LOk s.
Proof. intros l s idx H. unfold LineParser.cram_step. unfold comment_ok in H. rewrite H. reflexivity. Qed.

(* ---------- the whole document ---------- *)
Definition out (a : astate) (cases : list ptest) : list ptest := rev cases ++ pending a.

Lemma out_push : forall a cases, out (AClosed None) (pending a ++ cases) = out a cases.
Proof.
  intros a cases. unfold out. cbn [pending]. rewrite app_nil_r. destruct a; cbn [pending app]; [rewrite app_nil_r; reflexivity|].
  cbn [rev]. reflexivity.
Qed.

Lemma out_title : forall a t cases, out (AClosed t) (pending a ++ cases) = out a cases.
Proof. intros a t cases. rewrite <- (out_push a cases). reflexivity. Qed.

Theorem steps_spec : forall d a ic cases idx, open_ok a -> wf_cram pe_ok d = true ->
  exists a' ic' cases',
    cram_steps (conc a ic cases) (render_cram d) idx = LOk (conc a' ic' cases')
    /\ open_ok a' /\ out a' cases' = out a cases ++ tests_from d idx (atitle a).
Proof.
  induction d as [|b d IH]; intros a ic cases idx Ha Hwf.
  - exists a, ic, cases. cbn. rewrite app_nil_r. auto.
  - cbn [wf_cram forallb] in Hwf. apply andb_true_iff in Hwf. destruct Hwf as [Hb Hd].
    cbn [render_cram flat_map]. fold (render_cram d). rewrite cram_steps_app. destruct b as [l|l| |cmd conts body]; cbn [block_ok] in Hb.
    + apply andb_true_iff in Hb. destruct Hb as [Ht _]. cbn [render_block cram_steps].
      rewrite (title_step l a ic cases idx Ha Ht).
      destruct (IH (AClosed (Some l)) ic (pending a ++ cases) (idx + 1)%nat I Hd) as (a' & ic' & cases' & E & O & Q).
      exists a', ic', cases'. cbn [length]. rewrite E. split; [reflexivity|]. split; [exact O|].
      rewrite Q, out_title. cbn [tests_from atitle]. replace (idx + 1)%nat with (S idx) by lia. reflexivity.
    + apply andb_true_iff in Hb. destruct Hb as [Hc _]. cbn [render_block cram_steps]. rewrite (comment_step l _ idx Hc).
      destruct (IH a ic cases (idx + 1)%nat Ha Hd) as (a' & ic' & cases' & E & O & Q).
      exists a', ic', cases'. cbn [length]. rewrite E. split; [reflexivity|]. split; [exact O|].
      rewrite Q. cbn [tests_from]. replace (idx + 1)%nat with (S idx) by lia. reflexivity.
    + cbn [render_block cram_steps]. rewrite (blank_step a ic cases idx Ha).
      destruct (IH (AClosed (atitle a)) ic (pending a ++ cases) (idx + 1)%nat I Hd) as (a' & ic' & cases' & E & O & Q).
      exists a', ic', cases'. cbn [length]. rewrite E. split; [reflexivity|]. split; [exact O|].
      rewrite Q, out_title. cbn [tests_from atitle]. replace (idx + 1)%nat with (S idx) by lia. reflexivity.
    + assert (Hbody : body_ok pe_ok body = true).
      { do 3 (apply andb_true_iff in Hb; destruct Hb as [Hb _]). exact Hb. }
      destruct (test_steps cmd conts body a ic cases idx Ha Hbody) as [ic1 E1]. rewrite E1.
      destruct (IH (AOpen (atitle a) (cmd :: conts) (exps_of body) (code_of body) idx) ic1 (pending a ++ cases)
                   (idx + length (render_block (BTest cmd conts body)))%nat ltac:(cbn; discriminate) Hd) as (a' & ic' & cases' & E & O & Q).
      exists a', ic', cases'. rewrite E. split; [reflexivity|]. split; [exact O|].
      rewrite Q. unfold out. cbn [atitle tests_from].
      assert (L : (idx + length (render_block (BTest cmd conts body)) = idx + 1 + length conts + length body)%nat).
      { unfold render_block. rewrite app_length, app_length, !map_length. simpl length. rewrite !Nat.add_assoc. reflexivity. }
      rewrite L. rewrite rev_app_distr. rewrite <- !app_assoc. f_equal.
      destruct a as [t|t cmds exps code st]; cbn [pending rev app atitle]; reflexivity.
Qed.

Theorem parse_render : forall d, wf_cram pe_ok d = true ->
  parse_cram pe_ok (render_cram d) = LOk (cram_tests_of d).
Proof.
  intros d Hwf. unfold parse_cram. rewrite cram_loop_steps.
  change lp_init with (conc (AClosed None) false []).
  destruct (steps_spec d (AClosed None) false [] 0%nat I Hwf) as (a' & ic' & cases' & E & O & Q).
  rewrite E. unfold finish. rewrite (has_body_conc a' ic' cases' O). unfold out in Q. cbn [rev app pending atitle] in Q.
  unfold cram_tests_of. rewrite <- Q. destruct a' as [t|t cmds exps code st].
  - cbn [conc lp_cases pending]. rewrite app_nil_r. reflexivity.
  - rewrite (end_testcase_conc _ ic' cases' _ O). cbn [conc lp_cases pending]. cbn [rev app]. reflexivity.
Qed.
End P.
